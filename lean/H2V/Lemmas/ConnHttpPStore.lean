import H2V.Model.ConnProto
/-
  C13 (ConnHttpP), part 8 — the store as the receive path sees it: `get?` under the store primitives,
  and the relation `Delivers P s s'`: "every receive queue of `s'` is empty, or what it was in `s`, or
  that followed by ONE new event satisfying `P`" (`NoNew` = nothing new at all), closed under the
  model's bookkeeping functions (queues, counters, capacity, reset, `transition_after`).
-/
namespace H2V.Lemmas.ConnHttpP
open H2V H2V.Model H2V.Model.Conn

/-! ### `Store.get?` under the primitives -/

theorem get?_key (st : Store) (k : Nat) (x : Stream) (h : st.get? k = some x) : x.key = k := by
  unfold Store.get? at h
  have := List.find?_some h
  simpa using this

theorem find?_map_set (l : List Stream) (x : Stream) (k : Nat) :
    (l.map fun y => if y.key == x.key then x else y).find? (·.key == k) =
      (l.find? (·.key == k)).map fun y => if y.key == x.key then x else y := by
  induction l with
  | nil => rfl
  | cons a t ih =>
    simp only [List.map_cons, List.find?_cons]
    by_cases h : a.key = x.key
    · have hb : (a.key == x.key) = true := by simpa using h
      simp only [hb, if_true]
      have hxk : (x.key == k) = (a.key == k) := by rw [h]
      rw [hxk]
      cases hk : a.key == k
      · exact ih
      · simp [h]
    · have hb : (a.key == x.key) = false := by simpa using h
      simp only [hb, Bool.false_eq_true, if_false]
      cases hk : a.key == k
      · exact ih
      · simp [h]

theorem panic_store (s : Streams) (msg : String) : (s.panic msg).store = s.store := by
  unfold Streams.panic; split <;> rfl

theorem get?_set (st : Store) (x : Stream) (k : Nat) :
    (st.set x).get? k = (st.get? k).map fun y => if y.key == x.key then x else y :=
  find?_map_set st.slab x k

/-- `modStream` with a key-preserving function acts on `get?` pointwise -/
theorem get?_modStream (s : Streams) (k : Nat) (f : Stream → Stream) (hf : ∀ st, (f st).key = st.key) (k' : Nat) :
    (s.modStream k f).store.get? k' = if k' = k then (s.store.get? k).map f else s.store.get? k' := by
  unfold Streams.modStream
  cases hg : s.store.get? k with
  | none =>
    simp only [panic_store]
    split
    · rename_i e; subst e; rw [hg]; rfl
    · rfl
  | some st =>
    have hk := get?_key _ _ _ hg
    simp only [Streams.setStream, get?_set]
    split
    · rename_i e
      subst e
      rw [hg]
      simp [hf, hk]
    · rename_i ne
      cases hg' : s.store.get? k' with
      | none => rfl
      | some y =>
        have hy := get?_key _ _ _ hg'
        have : ¬ y.key = (f st).key := by
          rw [hf, hk, hy]; exact ne
        simp [this]

theorem get?_modStreamW (s : Streams) (k : Nat) (f : Stream → Stream × List String)
    (hf : ∀ st, (f st).1.key = st.key) (k' : Nat) :
    (s.modStreamW k f).store.get? k' = if k' = k then (s.store.get? k).map (fun st => (f st).1) else s.store.get? k' := by
  have := get?_modStream s k (fun st => (f st).1) hf k'
  rw [← this]
  unfold Streams.modStreamW Streams.modStream
  cases s.store.get? k with
  | none => rfl
  | some st => rfl

theorem get?_remove (st : Store) (k k' : Nat) :
    (st.remove k).get? k' = if k' = k then none else st.get? k' := by
  unfold Store.remove Store.get?
  simp only
  induction st.slab with
  | nil => simp
  | cons a t ih =>
    simp only [List.filter_cons, List.find?_cons]
    by_cases ha : a.key = k
    · simp only [ha, bne_self_eq_false, Bool.false_eq_true, if_false]
      rw [ih]
      split
      · rfl
      · rename_i ne
        have : (k == k') = false := by simpa using fun e => ne e.symm
        simp [this]
    · have : (a.key != k) = true := by simpa using ha
      simp only [this, if_true, List.find?_cons]
      cases hk : a.key == k'
      · simpa using ih
      · have e := beq_iff_eq.mp hk
        have : ¬ k' = k := fun x => ha (e.trans x)
        simp [this]

theorem get?_insert (st : Store) (x : Stream) (k' : Nat) :
    (st.insert x).1.get? k' = (st.get? k').orElse fun _ =>
      if st.nextKey = k' then some { x with key := st.nextKey } else none := by
  unfold Store.insert Store.get?
  simp only [List.find?_append]
  cases st.slab.find? (·.key == k') with
  | some y => rfl
  | none =>
    simp only [Option.orElse_none, Option.none_or, List.find?_cons, List.find?_nil]
    by_cases h : st.nextKey = k'
    · simp [h]
    · have : (st.nextKey == k') = false := by simpa using h
      simp [this, h]


/-! ### the relations -/

/-- the receive queue of the stream behind key `k` (`[]` when there is no such stream) -/
def prOf (s : Streams) (k : Nat) : List REvent := ((s.store.get? k).map (·.pendingRecv)).getD []

/-- every receive queue of `s'` is empty, or what it was in `s`, or that followed by ONE new event
    satisfying `P` (a stream created on the way starts with an empty queue) -/
def Delivers (P : Nat → REvent → Prop) (s s' : Streams) : Prop :=
  ∀ k st', s'.store.get? k = some st' →
    st'.pendingRecv = [] ∨ st'.pendingRecv = prOf s k ∨
    ∃ ev, P k ev ∧ (st'.pendingRecv = prOf s k ++ [ev] ∨ st'.pendingRecv = [ev])

/-- nothing is handed over: every receive queue of `s'` is empty or what it was in `s` -/
def Quiet (s s' : Streams) : Prop :=
  ∀ k st', s'.store.get? k = some st' →
    st'.pendingRecv = [] ∨ ∃ st, s.store.get? k = some st ∧ st'.pendingRecv = st.pendingRecv

theorem Quiet.refl (s : Streams) : Quiet s s := fun _ st' h => Or.inr ⟨st', h, rfl⟩

theorem Quiet.trans {a b c : Streams} (h1 : Quiet a b) (h2 : Quiet b c) : Quiet a c := fun k st'' h => by
  rcases h2 k st'' h with e | ⟨st', g', e'⟩
  · exact Or.inl e
  · rcases h1 k st' g' with e | ⟨st, g, e⟩
    · exact Or.inl (e'.trans e)
    · exact Or.inr ⟨st, g, e'.trans e⟩

theorem Quiet.delivers {P : Nat → REvent → Prop} {s s' : Streams} (h : Quiet s s') : Delivers P s s' := fun k st' g => by
  rcases h k st' g with e | ⟨st, g0, e⟩
  · exact Or.inl e
  · exact Or.inr (Or.inl (by rw [e]; simp [prOf, g0]))

/-- bookkeeping after a delivery -/
theorem Delivers.step {P : Nat → REvent → Prop} {s0 s s' : Streams} (h : Delivers P s0 s) (q : Quiet s s') :
    Delivers P s0 s' := fun k st'' g => by
  rcases q k st'' g with e | ⟨st', g', e'⟩
  · exact Or.inl e
  · rw [e']; exact h k st' g'

/-- bookkeeping before a delivery -/
theorem Quiet.then {P : Nat → REvent → Prop} {s0 s s' : Streams} (q : Quiet s0 s) (h : Delivers P s s') :
    Delivers P s0 s' := fun k st'' g => by
  have hp : prOf s k = [] ∨ prOf s k = prOf s0 k := by
    unfold prOf
    cases hg : s.store.get? k with
    | none => exact Or.inl rfl
    | some st' =>
      rcases q k st' hg with e | ⟨st, g0, e⟩
      · exact Or.inl (by simp [e])
      · exact Or.inr (by simp [e, g0])
  rcases h k st'' g with e | e | ⟨ev, pe, e | e⟩
  · exact Or.inl e
  · rcases hp with p | p
    · exact Or.inl (e.trans p)
    · exact Or.inr (Or.inl (e.trans p))
  · rcases hp with p | p
    · exact Or.inr (Or.inr ⟨ev, pe, Or.inr (by rw [e, p]; rfl)⟩)
    · exact Or.inr (Or.inr ⟨ev, pe, Or.inl (by rw [e, p])⟩)
  · exact Or.inr (Or.inr ⟨ev, pe, Or.inr e⟩)

theorem Delivers.mono {P Q : Nat → REvent → Prop} {s s' : Streams} (h : Delivers P s s')
    (hpq : ∀ k ev, P k ev → Q k ev) : Delivers Q s s' := fun k st' g => by
  rcases h k st' g with e | e | ⟨ev, pe, e⟩
  · exact Or.inl e
  · exact Or.inr (Or.inl e)
  · exact Or.inr (Or.inr ⟨ev, hpq k ev pe, e⟩)

/-! ### primitives are quiet -/

theorem quiet_of_slab {s s' : Streams} (h : s'.store.slab = s.store.slab) : Quiet s s' := fun k st' g => by
  refine Or.inr ⟨st', ?_, rfl⟩
  unfold Store.get? at g ⊢
  rw [← h]; exact g

/-- a stream function that keeps the key and keeps (or empties) the receive queue -/
@[reducible] def Keeps (f : Stream → Stream) : Prop :=
  ∀ st, (f st).key = st.key ∧ ((f st).pendingRecv = st.pendingRecv ∨ (f st).pendingRecv = [])

theorem quiet_modStream (s : Streams) (k : Nat) (f : Stream → Stream) (hf : Keeps f) :
    Quiet s (s.modStream k f) := fun k' st' g => by
  rw [get?_modStream s k f (fun st => (hf st).1)] at g
  split at g
  · rename_i e
    subst e
    cases hg : s.store.get? k' with
    | none => rw [hg] at g; cases g
    | some st =>
      rw [hg] at g
      cases g
      rcases (hf st).2 with e | e
      · exact Or.inr ⟨st, rfl, e⟩
      · exact Or.inl e
  · exact Or.inr ⟨st', g, rfl⟩

theorem quiet_modStreamW (s : Streams) (k : Nat) (f : Stream → Stream × List String) (hf : Keeps fun st => (f st).1) :
    Quiet s (s.modStreamW k f) := by
  have h := quiet_modStream s k (fun st => (f st).1) hf
  refine Quiet.trans h (quiet_of_slab ?_)
  unfold Streams.modStreamW Streams.modStream
  cases s.store.get? k with
  | none => rfl
  | some st => rfl

theorem quiet_setStream (s : Streams) (x : Stream)
    (hx : x.pendingRecv = [] ∨ ∀ st, s.store.get? x.key = some st → x.pendingRecv = st.pendingRecv) :
    Quiet s (s.setStream x) := fun k st' g => by
  simp only [Streams.setStream, get?_set] at g
  cases hg : s.store.get? k with
  | none => rw [hg] at g; cases g
  | some y =>
    rw [hg] at g
    simp only [Option.map_some, Option.some.injEq] at g
    split at g
    · rename_i e
      subst g
      have hk : y.key = k := get?_key _ _ _ hg
      have : x.key = k := by rw [← hk]; exact (beq_iff_eq.mp e).symm
      rcases hx with h | h
      · exact Or.inl h
      · exact Or.inr ⟨y, rfl, h y (by rw [this]; exact hg)⟩
    · subst g; exact Or.inr ⟨y, rfl, rfl⟩

theorem quiet_remove (s : Streams) (k n : Nat) :
    Quiet s { s with store := s.store.remove k, recvBufferLeaked := n } := fun k' st' g => by
  simp only [get?_remove] at g
  split at g
  · cases g
  · exact Or.inr ⟨st', g, rfl⟩

theorem quiet_insert (s : Streams) (x : Stream) (hx : x.pendingRecv = []) :
    Quiet s { s with store := (s.store.insert x).1 } := fun k' st' g => by
  simp only [get?_insert] at g
  cases hg : s.store.get? k' with
  | some y =>
    rw [hg] at g
    simp only [Option.orElse_some, Option.some.injEq] at g
    subst g
    exact Or.inr ⟨_, rfl, rfl⟩
  | none =>
    rw [hg] at g
    simp only [Option.orElse_none] at g
    split at g
    · cases g; exact Or.inl hx
    · cases g

theorem Quiet.ite {s a b : Streams} {c : Prop} [Decidable c] (ha : Quiet s a) (hb : Quiet s b) :
    Quiet s (if c then a else b) := by
  split
  · exact ha
  · exact hb

end H2V.Lemmas.ConnHttpP
