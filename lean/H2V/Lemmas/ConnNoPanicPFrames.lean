import H2V.Lemmas.ConnNoPanicPApi
/-
  C08 (no panic) — part 8: the frame entry points of `Inner` (streams.rs) keep `NPI`.
  The closures of `counts.transition` are copied from the model (`…Closure`, equality by `rfl`).
-/
namespace H2V.Lemmas.ConnNoPanicP
open H2V H2V.Model H2V.Model.Conn H2V.Lemmas.ConnCountsP

/-- the closure of `Inner::recv_data` (copied from the model; `recvData_eq` is by `rfl`) -/
def recvDataClosure (k : Nat) (payload : Bytes) (eos : Bool) (padLen : Option Nat) (s : Streams) : Streams × Except PErr Unit :=
  let flowLen := payload.length + (match padLen with | some p => p + 1 | none => 0)
  let sz := flowLen
  let (s, res) := s.recvRecvData k payload eos padLen
  let (s, res) : Streams × Except PErr Unit :=
    match res with
    | .ok _ =>
      if !eos then
        let (c, ok) := s.counts.recordDataFrame payload.length
        let s := { s with counts := c }
        if ok then (s, .ok ()) else (s, .error (PErr.libraryGoAwayData ENHANCE_YOUR_CALM "too_many_data_frames"))
      else (s, .ok ())
    | .error e => (s, .error e)
  let s := match res with
    | .error (.reset ..) => s.releaseConnectionCapacity (usizeAsU32 sz) false
    | _ => s
  s.resetOnRecvStreamErr k res

theorem recvData_some {s : Streams} {id k : Nat} (payload : Bytes) (eos : Bool) (pad : Option Nat)
    (h : s.store.findKey? id = some k) :
    s.recvData id payload eos pad = s.transition k (recvDataClosure k payload eos pad) := by
  unfold Streams.recvData
  simp only [h]
  rfl

theorem recvDataClosure_le (k : Nat) (payload : Bytes) (eos : Bool) (pad : Option Nat) (s : Streams)
    (hlen : payload.length + (match pad with | some p => p + 1 | none => 0) ≤ Generated.Consts.MAX_WINDOW_SIZE) :
    LE [k] s (recvDataClosure k payload eos pad s).1 := by
  unfold recvDataClosure
  generalize hr : s.recvRecvData k payload eos pad = r
  obtain ⟨s1, res⟩ := r
  have h1 : LE [k] s s1 := LE.of_fst_eq hr (LE.of (recvRecvData_lt s k payload eos pad hlen) (recvRecvData_ev _ _ _ _ _))
  have hc : LE [k] s { s1 with counts := (s1.counts.recordDataFrame payload.length).1 } :=
    h1.step0 (setCounts_lt s1 _ (recordDataFrame_err _ _)) (setCounts_ev _ _ (cstep_recordDataFrame _ _))
  have hfin : ∀ (t : Streams) (r : Except PErr Unit), LE [k] s t → LE [k] s (t.resetOnRecvStreamErr k r).1 :=
    fun t r ht => ht.trans ⟨resetOnRecvStreamErr_ltw _ _ _, resetOnRecvStreamErr_ev _ _ _⟩ (fun _ h => h)
  cases res with
  | ok u =>
    cases eos
    · cases hok : (s1.counts.recordDataFrame payload.length).2
      · simp only [hok, Bool.not_false, if_true, Bool.false_eq_true, if_false]
        exact hfin _ _ hc
      · simp only [hok, Bool.not_false, if_true]
        exact hfin _ _ hc
    · simp only [Bool.not_true, Bool.false_eq_true, if_false]
      exact hfin _ _ h1
  | error e =>
    simp only []
    refine hfin _ _ ?_
    split
    · exact h1.step0 (releaseConnectionCapacity_lt _ _ _) (releaseConnectionCapacity_ev _ _ _)
    · exact h1

theorem recvData_npi {s : Streams} (h : NPI (fun _ => False) s) (id : Nat) (payload : Bytes) (eos : Bool) (pad : Option Nat)
    (hlen : payload.length + (match pad with | some p => p + 1 | none => 0) ≤ Generated.Consts.MAX_WINDOW_SIZE)
    (he' : ErrOK (s.recvData id payload eos pad).1) : NPI (fun _ => False) (s.recvData id payload eos pad).1 := by
  cases hfk : s.store.findKey? id with
  | none =>
    unfold Streams.recvData
    simp only [hfk]
    refine h.lt (ks := []) (LT.w ?_) (liveAll0 s) (ρ := true) (by ev_auto) (fun _ _ h => h)
    lt_auto
  | some k =>
    rw [recvData_some payload eos pad hfk] at he' ⊢
    have hk := (h.ids.findKey hfk).1
    have heX := errOK_of_transition he'
    have hle := recvDataClosure_le k payload eos pad s hlen
    exact transition_npi k _ (h.le hle (liveAll1 hk) (fun _ h => h)) hle.ev heX

/-- the closure of `Inner::recv_reset` -/
def recvResetClosure (k : Nat) (reason : Reason) (s : Streams) : Streams × Except PErr Unit :=
  match s.recvRecvReset k reason with
  | (s, .error e) => (s, .error e)
  | (s, .ok _) =>
    let s := s.sendHandleError k
    let s := if (s.stream k).state.isClosed then s else s.panic "assertion failed: stream.state.is_closed()"
    (s, .ok ())

/-- **`assert!(stream.state.is_closed())` in `Inner::recv_reset` cannot fire**: `Recv::recv_reset` closes the
    state and `Send::handle_error` keeps it closed -/
theorem recvResetClosure_le (k : Nat) (r : Reason) (s : Streams) : LE [k] s (recvResetClosure k r s).1 := by
  unfold recvResetClosure
  generalize hr : s.recvRecvReset k r = p
  obtain ⟨s1, res⟩ := p
  have h1 : LE [k] s s1 := LE.of_fst_eq hr (LE.of (recvRecvReset_lt s k r) (recvRecvReset_ev _ _ _))
  cases res with
  | error e => exact h1
  | ok u =>
    simp only []
    have h2 : LE [k] s (s1.sendHandleError k) := h1.step1 (sendHandleError_lt _ _) (sendHandleError_ev _ _)
    refine ⟨LTw.guard _ _ h2.lt ?_, .trans h2.ev (by split; exact .refl _; exact panic_ev _ _)⟩
    intro hl hq
    have hk : Live s k := hl k (List.mem_cons_self ..)
    have hk1 : Live s1 k := h1.lt.keys.live.mpr hk
    have hq1 : NPQ s1 := h1.lt.ok hl hq
    have hc1 := recvRecvReset_closed hk hr
    exact closed_absorbing (ConnWakeP.sendHandleError_acc k (ConnWakeP.Step.refl none s1)) hq1.keys hk1
      ((sendHandleError_lt s1 k).keys.live.mpr hk1) hc1


theorem recvReset_npi {s : Streams} (h : NPI (fun _ => False) s) (id : Nat) (r : Reason) (he : ErrOK s) :
    NPI (fun _ => False) (s.recvReset id r).1 := by
  unfold Streams.recvReset
  split
  · exact h
  split
  · exact h
  cases hfk : s.store.findKey? id with
  | none => simp only []; split <;> exact h
  | some k =>
    simp only []
    split
    · exact h
    · have hk := (h.ids.findKey hfk).1
      have hle := recvResetClosure_le k r s
      have hX := h.le hle (liveAll1 hk) (fun _ h => h)
      have heX : ErrOK (recvResetClosure k r s).1 := by
        -- no library reset in this closure: the counter does not move
        unfold recvResetClosure
        generalize hr : s.recvRecvReset k r = p
        obtain ⟨s1, res⟩ := p
        have h1 : ErrOK s1 := (LT.of_fst_eq hr (recvRecvReset_lt s k r)).err.errOK he
        cases res with
        | error e => exact h1
        | ok u =>
          simp only []
          have h2 := (sendHandleError_lt s1 k).err.errOK h1
          split
          · exact h2
          · exact (panic_errSame _ _).errOK h2
      exact transition_npi k (recvResetClosure k r) hX hle.ev heX

theorem NPI.of_ltw {E : Nat → Prop} {ρ : Bool} {s s' : Streams} (h : NPI E s) (e : EvB ρ s s') (hE : ρ = true → ∀ k, ¬ E k)
    (hlt : ∃ ks, LiveAll s ks ∧ LTw ks s s') : NPI E s' :=
  let ⟨_, hl, hlt⟩ := hlt; h.lt hlt hl e hE

theorem recvWindowUpdate_npi {s : Streams} (h : NPI (fun _ => False) s) (id inc : Nat) :
    NPI (fun _ => False) (s.recvWindowUpdate id inc).1 := by
  refine h.of_ltw (recvWindowUpdate_ev (ρ := true) s id inc) (fun _ _ h => h) ?_
  unfold Streams.recvWindowUpdate
  split
  · refine ⟨[], liveAll0 s, LT.w ?_⟩
    lt_auto
  · cases hfk : s.store.findKey? id with
    | none => exact ⟨[], liveAll0 s, by simp only []; split <;> exact .refl _ _⟩
    | some k =>
      have hk := (h.ids.findKey hfk).1
      refine ⟨[k], liveAll1 hk, ?_⟩
      simp only []
      split
      · exact .refl _ _
      · generalize hr : s.sendRecvStreamWindowUpdate k inc = p
        obtain ⟨s1, res⟩ := p
        have h1 : LT [k] s s1 := LT.of_fst_eq hr (sendRecvStreamWindowUpdate_lt s k inc)
        exact LTw.trans (ks' := [k]) h1.w (resetOnRecvStreamErr_ltw _ _ _) (fun _ h => h)

/-- the closure of `Actions::send_reset` -/
def actionsSendResetClosure (k : Nat) (reason : Reason) (init : Initiator) (s : Streams) : Streams × Except Streams.GoAwayErr Unit :=
    let pre : Streams × Bool :=
      if init.isLibrary then
        if s.counts.canIncNumLocalErrorResets then
          (s.modCountsA "can_inc_num_local_error_resets" Counts.incNumLocalErrorResets, true)
        else (s, false)
      else (s, true)
    match pre with
    | (s, false) => (s, .error { reason := ENHANCE_YOUR_CALM, debugData := "too_many_internal_resets" })
    | (s, true) =>
      let s := s.sendSendReset k reason init
      let s := s.enqueueResetExpiration k
      (s.modStreamW k Stream.notifyRecv, .ok ())

theorem actionsSendReset_eq (s : Streams) (k : Nat) (reason : Reason) (init : Initiator) :
    s.actionsSendReset k reason init = s.transition k (actionsSendResetClosure k reason init) := rfl

theorem actionsSendResetClosure_ev (k : Nat) (reason : Reason) (init : Initiator) (s : Streams) :
    EvB ρ s (actionsSendResetClosure k reason init s).1 := by
  unfold actionsSendResetClosure
  ev_auto

theorem actionsSendResetClosure_ltw (k : Nat) (reason : Reason) (init : Initiator) (s : Streams) :
    LTw [k] s (actionsSendResetClosure k reason init s).1 := by
  unfold actionsSendResetClosure
  generalize hp : (if init.isLibrary = true then _ else (s, true) : Streams × Bool) = pre
  obtain ⟨s0, b⟩ := pre
  have h0 : LTw [k] s s0 := by
    split at hp
    · split at hp
      · next hc =>
        cases hp
        unfold Streams.modCountsA Counts.incNumLocalErrorResets
        rw [if_pos hc]
        exact setCounts_ltw s _
      · cases hp; exact .refl _ _
    · cases hp; exact .refl _ _
  cases b
  · exact h0
  · simp only []
    refine h0.trans (LT.w (ks := [k]) ?_) (fun _ h => h)
    lt_auto

/-- for a user-initiated reset the error-reset counter does not move -/
theorem actionsSendResetClosure_user_lt (k : Nat) (reason : Reason) (s : Streams) :
    LT [k] s (actionsSendResetClosure k reason .user s).1 := by
  unfold actionsSendResetClosure
  have : Initiator.user.isLibrary = false := rfl
  simp only [this, Bool.false_eq_true, if_false]
  lt_auto

theorem actionsSendReset_npi {E : Nat → Prop} {s : Streams} (h : NPI E s) {k : Nat} (hk : Live s k) (reason : Reason)
    (init : Initiator) (he' : ErrOK (s.actionsSendReset k reason init).1) : NPI E (s.actionsSendReset k reason init).1 := by
  rw [actionsSendReset_eq] at he' ⊢
  have e := actionsSendResetClosure_ev (ρ := false) k reason init s
  exact transition_npi k _ (h.lt (actionsSendResetClosure_ltw k reason init s) (liveAll1 hk) e noE) e (errOK_of_transition he')

/-- **`StreamRef::send_reset` cannot panic**: `Actions::send_reset` with a user initiator never answers `Err`
    (the `expect`-like `panic!("Initiator::User should not error sending reset")` is dead) -/
theorem refSendReset_npi {E : Nat → Prop} {s : Streams} (h : NPI E s) {k : Nat} (hk : Live s k) (reason : Reason)
    (he : ErrOK s) : NPI E (s.refSendReset k reason) := by
  have hlt := actionsSendResetClosure_user_lt k reason s
  have hes : ErrOK (s.actionsSendReset k reason .user).1 := by
    rw [actionsSendReset_eq]
    have : (s.transition k (actionsSendResetClosure k reason .user)).1 =
        (actionsSendResetClosure k reason .user s).1.transitionAfter k (s.stream k).isPendingResetExpiration := rfl
    rw [this]
    exact (transitionAfter_errSame _ _ _).errOK (hlt.err.errOK he)
  have hn := actionsSendReset_npi h hk reason .user hes
  unfold Streams.refSendReset
  have hok : ∃ u, (s.actionsSendReset k reason .user).2 = .ok u := by
    rw [actionsSendReset_eq]
    unfold Streams.transition actionsSendResetClosure
    have : Initiator.user.isLibrary = false := rfl
    simp only [this, Bool.false_eq_true, if_false]
    exact ⟨(), trivial⟩
  obtain ⟨u, hu⟩ := hok
  generalize hr : s.actionsSendReset k reason .user = p at hn hu
  obtain ⟨s1, res⟩ := p
  simp only at hu
  subst hu
  exact hn

theorem live_insert_old {s : Streams} (st : Stream) {j : Nat} (h : Live s j) :
    Live { s with store := (s.store.insert st).1 } j := by
  obtain ⟨x, hx⟩ := h; exact ⟨x, insert_get?_old _ _ _ _ hx⟩

theorem stream_insert_old {s : Streams} (st : Stream) {j : Nat} (h : Live s j) :
    ({ s with store := (s.store.insert st).1 } : Streams).stream j = s.stream j := by
  obtain ⟨x, hx⟩ := h
  unfold Streams.stream
  rw [show ({ s with store := (s.store.insert st).1 } : Streams).store.get? j = some x from insert_get?_old _ _ _ _ hx, hx]

theorem idsOK_insert {s : Streams} (h : IdsOK s) (hk : KeysOK s) (st : Stream) :
    IdsOK { s with store := (s.store.insert st).1 } := by
  have hnew : ({ s with store := (s.store.insert st).1 } : Streams).store.get? s.store.nextKey =
      some { st with key := s.store.nextKey } := insert_get?_new hk.fresh st
  have hnl : Live { s with store := (s.store.insert st).1 } s.store.nextKey := ⟨_, hnew⟩
  have hns : ({ s with store := (s.store.insert st).1 } : Streams).stream s.store.nextKey = { st with key := s.store.nextKey } :=
    stream_of_get? hnew
  have hids : ({ s with store := (s.store.insert st).1 } : Streams).store.ids =
      if s.store.ids.any (·.1 == st.id) then s.store.ids.map (fun e => if e.1 == st.id then (st.id, s.store.nextKey) else e)
      else s.store.ids ++ [(st.id, s.store.nextKey)] := rfl
  have hold : ∀ e ∈ s.store.ids, Live { s with store := (s.store.insert st).1 } e.2 ∧
      (({ s with store := (s.store.insert st).1 } : Streams).stream e.2).id = e.1 := by
    intro e he
    have := h.live e he
    exact ⟨live_insert_old st this.1, by rw [stream_insert_old st this.1]; exact this.2⟩
  have hnw : Live { s with store := (s.store.insert st).1 } (st.id, s.store.nextKey).2 ∧
      (({ s with store := (s.store.insert st).1 } : Streams).stream (st.id, s.store.nextKey).2).id = (st.id, s.store.nextKey).1 :=
    ⟨hnl, by show (Streams.stream _ s.store.nextKey).id = st.id; rw [hns]⟩
  by_cases hany : s.store.ids.any (·.1 == st.id) = true
  · rw [if_pos hany] at hids
    refine ⟨?_, ?_⟩
    · rw [hids]
      have : (s.store.ids.map fun e => if e.1 == st.id then (st.id, s.store.nextKey) else e).map (·.1) = s.store.ids.map (·.1) := by
        rw [List.map_map]; apply List.map_congr_left
        intro e _; simp only [Function.comp]; split
        · next he => simp at he; exact he.symm
        · rfl
      rw [this]; exact h.nodup
    · intro e he
      rw [hids] at he
      obtain ⟨e0, he0, rfl⟩ := List.mem_map.mp he
      split
      · exact hnw
      · exact hold e0 he0
  · rw [if_neg hany] at hids
    refine ⟨?_, ?_⟩
    · rw [hids, List.map_append]
      refine List.nodup_append.mpr ⟨h.nodup, by simp, ?_⟩
      intro a ha b hb
      simp only [List.map_cons, List.map_nil, List.mem_singleton] at hb
      subst hb
      intro hab
      obtain ⟨e, he, hea⟩ := List.mem_map.mp ha
      exact hany (List.any_eq_true.mpr ⟨e, he, by simp only [beq_iff_eq]; exact hea.trans hab⟩)
    · intro e he
      rw [hids] at he
      rcases List.mem_append.mp he with he0 | he1
      · exact hold e he0
      · rw [List.mem_singleton] at he1; subst he1
        exact hnw

/-- a freshly inserted entry: the full invariant holds with the new key allowed to be unopened -/
theorem NPI.insert {s : Streams} (h : NPI (fun _ => False) s) (st : Stream) (hf : Fresh st)
    (hav : st.sendFlow.available.val ≤ 2147483647) :
    NPI (fun j => j = s.store.nextKey) { s with store := (s.store.insert st).1 } ∧
    Live { s with store := (s.store.insert st).1 } s.store.nextKey := by
  have hnew : ({ s with store := (s.store.insert st).1 } : Streams).store.get? s.store.nextKey =
      some { st with key := s.store.nextKey } := insert_get?_new h.keys.fresh st
  refine ⟨⟨h.np, ?_, h.keys.insert st, h.nl, ?_, ?_, ?_, idsOK_insert h.ids h.keys st⟩, ⟨_, hnew⟩⟩
  · intro x hx
    have hx' : x ∈ s.store.slab ++ [({ st with key := s.store.nextKey } : Stream)] := hx
    rcases List.mem_append.mp hx' with h1 | h1
    · exact h.av x h1
    · rw [List.mem_singleton] at h1; subst h1; exact hav
  · exact ⟨by rw [cntAll_insert _ _ hf.counted]; exact h.inv1.sum, h.inv1.reset, h.inv1.recvLe, h.inv1.resetLe,
      h.inv1.remoteLe, h.inv1.errLe⟩
  · have hi := h.inv2
    have hi' : Inv2 s.counts.isServer (fun j => j = s.store.nextKey) s :=
      ⟨hi.role, hi.p1, hi.ids, hi.fr, fun herr k x hx hl he => (hi.p3 herr k x hx hl he).elim, hi.dir, hi.next⟩
    exact hi'.insert h.keys st hf (fun _ => rfl)
  · intro q hq
    exact (QF.insert q _ st (hf.fl q)).qok (h.qs q hq)

theorem new_av (id a b : Nat) : (Stream.new id a b).sendFlow.available.val ≤ 2147483647 := by
  unfold Stream.new
  dsimp only
  rw [incWindow_available]
  decide


theorem innerSendReset_npi {s : Streams} (h : NPI (fun _ => False) s) (id : Nat) (reason : Reason)
    (he' : ErrOK (s.innerSendReset id reason).1) : NPI (fun _ => False) (s.innerSendReset id reason).1 := by
  have ew := innerSendReset_ev s id reason
  unfold Streams.innerSendReset at he' ⊢ ew
  cases hfk : s.store.findKey? id with
  | some k =>
    simp only [hfk] at he' ⊢
    exact actionsSendReset_npi h (h.ids.findKey hfk).1 reason .library he'
  | none =>
    simp only [hfk] at he' ⊢ ew
    generalize hs1 : (if s.counts.isLocalInit id = true then s.sendMaybeResetNextStreamId id else s.recvMaybeResetNextStreamId id) = s1 at he' ⊢ ew
    have h1 : NPI (fun _ => False) s1 := by
      rw [← hs1]; split
      · next hloc => exact h.lt (sendMaybeResetNextStreamId_lt s id).w (liveAll0 s) (sendMaybeResetNextStreamId_ev (ρ := true) s id hloc) (fun _ _ h => h)
      · exact h.lt (recvMaybeResetNextStreamId_lt s id).w (liveAll0 s) (recvMaybeResetNextStreamId_ev (ρ := true) s id) (fun _ _ h => h)
    obtain ⟨h2, hl2⟩ := h1.insert (Stream.new id 0 0) (fresh_new id 0 0) (new_av id 0 0)
    have hX := actionsSendReset_npi h2 hl2 reason .library he'
    exact h.ev ew (fun _ _ h => h) hX.np hX.av hX.ids

end H2V.Lemmas.ConnNoPanicP
