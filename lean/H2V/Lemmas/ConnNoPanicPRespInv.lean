import H2V.Lemmas.ConnNoPanicPRespPoll
/-
  C08 (no panic) — the client response path, part 9: the invariant `RJ s H T` (`T` = keys of the request streams
  whose `ResponseFuture` has not completed; `H` = the handle multiset of ConnNoPanicPHist), its preservation by
  every operation of ConnResetP's `Op` (except `.panic`), and `Recv::poll_response` cannot panic under it.
-/
namespace H2V.Lemmas.ConnNoPanicP
open H2V H2V.Model H2V.Model.Conn H2V.Lemmas.ConnCountsP
open H2V.Lemmas.ConnResetP (Op run)

/-- every stream whose response future is pending has a handle, the connection is a client, and its receive queue
    is in shape (`RGood`) -/
structure RJ (s : Streams) (H T : List Nat) : Prop where
  sub : ∀ k ∈ T, k ∈ H
  client : T ≠ [] → s.counts.isServer = false
  good : ∀ k ∈ T, RGood (s.stream k)

theorem RJ_blank (s : Streams) : RJ s [] [] :=
  ⟨fun _ h => h, fun h => absurd rfl h, fun _ h => absurd h List.not_mem_nil⟩

theorem RJ.mono {s : Streams} {H H' T : List Nat} (h : RJ s H T) (hs : ∀ k ∈ H, k ∈ H') : RJ s H' T :=
  ⟨fun k hk => hs k (h.sub k hk), h.client, h.good⟩

/-- the ghost after an operation -/
def opResp (s : Streams) (H T : List Nat) : Op → List Nat
  | .sendRequest a b c d => match (s.sendRequest a b c d).2 with | .ok (k, _) => k :: T | .error _ => T
  | .recvPollResponse fuel k tag =>
    match (Streams.recvPollResponse fuel s k tag).2 with | .pending => T | _ => T.filter (· ≠ k)
  | .dropStreamRef k => if k ∈ H.erase k then T else T.filter (· ≠ k)
  | _ => T

/-- the discipline of the response path -/
def respPre (s : Streams) (T : List Nat) : Op → Prop
  | .recvPollResponse _ k _ => k ∈ T
  | .refClearRecvBuffer k => k ∉ T
  | .recvTakeRequest k => k ∉ T
  | .recvPushPromise _ _ => RNoPush s
  | _ => True

theorem op_apiStep_all (s : Streams) (op : Op) : ApiStep s (op.apply s) := by
  cases op
  case recvHeaders h => exact .recvHeaders s h
  case recvData id p eos pad => exact .recvData s id p eos pad
  case recvReset id r => exact .recvReset s id r
  case recvWindowUpdate id inc => exact .recvWindowUpdate s id inc
  case recvPushPromise id h => exact .recvPushPromise s id h
  case innerSendReset id r => exact .innerSendReset s id r
  case recvGoAway l => exact .recvGoAway s l
  case handleError e => exact .handleError s e
  case recvGoAwayFrame l r d => exact .recvGoAwayFrame s l r d
  case recvEof b => exact .recvEof s b
  case setTargetConnectionWindow t => exact .setTargetConnectionWindow s t
  case clearExpiredResetStreams n => exact .clearExpiredResetStreams n s
  case applyRemoteSettings v b => exact .applyRemoteSettings s v b
  case applyLocalSettingsFrame v => exact .applyLocalSettingsFrame s v
  case pollComplete f w io t => exact .pollComplete f s w io t
  case pollSendPendingRefusal f w io t => exact .pollSendPendingRefusal f s w io t
  case wake t => exact .wake s t
  case clearWakes => exact .clearWakes s
  case panic m => exact .panic s m
  case cloneHandle => exact .cloneHandle s
  case dropHandle => exact .dropHandle s
  case sendRequest a b c d => exact .sendRequest s a b c d
  case pollPendingOpen p t => exact .pollPendingOpen s p t
  case nextIncoming => exact .nextIncoming s
  case recvTakeRequest k => exact .recvTakeRequest s k
  case cloneStreamRef k => exact .cloneStreamRef s k
  case dropStreamRef k => exact .dropStreamRef s k
  case refSendResponse k f eos => exact .refSendResponse s k f eos
  case refSendInformationalHeaders k f => exact .refSendInformationalHeaders s k f
  case refSendPushPromise p v f => exact .refSendPushPromise s p v f
  case refSendData k len eos => exact .refSendData s k len eos
  case refSendTrailers k f => exact .refSendTrailers s k f
  case refReserveCapacity k c => exact .refReserveCapacity s k c
  case pollCapacity k t => exact .pollCapacity s k t
  case refSendReset k r => exact .refSendReset s k r
  case pollReset k m t => exact .pollReset s k m t
  case recvPollResponse f k t => exact .recvPollResponse f s k t
  case recvPollInformational k t => exact .recvPollInformational s k t
  case refPollData k t => exact .refPollData s k t
  case recvPollTrailers k t => exact .recvPollTrailers s k t
  case refReleaseCapacity k c => exact .refReleaseCapacity s k c
  case refClearRecvBuffer k => exact .refClearRecvBuffer s k

/-- no operation changes the role -/
theorem op_role {s : Streams} (hn : NPI (fun _ => False) s) (op : Op) : (op.apply s).counts.isServer = s.counts.isServer :=
  ((op_apiStep_all s op).evT hn.keys hn.nl).nx.role

theorem RJ.ref_pos {s : Streams} {H T : List Nat} (hj : RJ s H T) (hh : HOK s H) {k : Nat} (hk : k ∈ T) :
    0 < (s.stream k).refCount := by
  obtain ⟨x, hx, hc⟩ := hh k (hj.sub k hk)
  have := count_pos_of_mem (hj.sub k hk)
  rw [stream_of_get? hx]; omega

/-- the generic preservation step: entries of `T'` are old entries outside the exception list `X`, or known to be in
    shape afterwards -/
theorem RJ.step {s s' : Streams} {H H' T T' X : List Nat} (hj : RJ s H T) (hh : HOK s H) (hrp : RP X s s')
    (hrole : s'.counts.isServer = s.counts.isServer) (hsub : ∀ k ∈ T', k ∈ H')
    (hcl : T' ≠ [] → s.counts.isServer = false)
    (hg : ∀ k ∈ T', (k ∈ T ∧ k ∉ X) ∨ RGood (s'.stream k)) : RJ s' H' T' := by
  refine ⟨hsub, fun h => hrole.trans (hcl h), fun k hk => ?_⟩
  rcases hg k hk with ⟨hkT, hkX⟩ | g
  · exact (hrp.fr k hkX (hj.ref_pos hh hkT)).good (hj.good k hkT)
  · exact g

theorem RJ.cl {s : Streams} {H T T' : List Nat} (hj : RJ s H T) (hs : ∀ k ∈ T', k ∈ T) : T' ≠ [] → s.counts.isServer = false := by
  intro h
  cases T' with
  | nil => exact absurd rfl h
  | cons a l => exact hj.client (List.ne_nil_of_mem (hs a (List.mem_cons_self ..)))

/-- an operation that is a frame step for every entry with a handle -/
theorem RJ.frame {s s' : Streams} {H T : List Nat} (hj : RJ s H T) (hh : HOK s H) (hrp : RP [] s s')
    (hrole : s'.counts.isServer = s.counts.isServer) : RJ s' H T :=
  hj.step hh hrp hrole hj.sub (hj.cl (fun _ h => h)) (fun _ hk => .inl ⟨hk, List.not_mem_nil⟩)

/-- an operation that touches the receive queue of `k0`, which is not in `T` -/
theorem RJ.frame1 {s s' : Streams} {H T : List Nat} {k0 : Nat} (hj : RJ s H T) (hh : HOK s H) (hrp : RP [k0] s s')
    (hrole : s'.counts.isServer = s.counts.isServer) (hk0 : k0 ∉ T) : RJ s' H T :=
  hj.step hh hrp hrole hj.sub (hj.cl (fun _ h => h))
    (fun k hk => .inl ⟨hk, fun h => hk0 (by rw [List.mem_singleton] at h; exact h ▸ hk)⟩)

/-- an operation that touches the receive queue of `k0` and keeps it in shape -/
theorem RJ.frameG {s s' : Streams} {H T : List Nat} {k0 : Nat} (hj : RJ s H T) (hh : HOK s H) (hrp : RP [k0] s s')
    (hrole : s'.counts.isServer = s.counts.isServer) (hg : k0 ∈ T → RGood (s'.stream k0)) : RJ s' H T :=
  hj.step hh hrp hrole hj.sub (hj.cl (fun _ h => h)) (fun k hk => by
    by_cases e : k = k0
    · subst e; exact .inr (hg hk)
    · exact .inl ⟨hk, fun h => e (List.mem_singleton.mp h)⟩)

theorem mem_filter_ne {T : List Nat} {k k0 : Nat} : k ∈ T.filter (· ≠ k0) ↔ k ∈ T ∧ k ≠ k0 := by
  rw [List.mem_filter]; simp

/-- `RGood` only looks at the receive queue and at "receive streaming" -/
theorem RGood.of_same {x y : Stream} (g : RGood x) (hq : y.pendingRecv = x.pendingRecv)
    (hs : y.state.isRecvStreaming = true → x.state.isRecvStreaming = true) : RGood y :=
  ⟨by rw [hq]; exact g.shape, fun h => by rw [hq]; exact g.head (hs h)⟩

/-- **the invariant of the response path is kept by every operation** (all constructors of `Op` but `.panic`).
    Preconditions: the discipline `respPre`; for `drop_stream_ref` the one of `dropStreamRef_npi` (no promised
    streams left on the stream); the local-error-reset quota is not exhausted. -/
theorem RJ_step {s : Streams} {H T : List Nat} (hn : NPI (fun _ => False) s) (hh : HOK s H) (hj : RJ s H T) (op : Op)
    (hnp : ∀ m, op ≠ .panic m) (hpre : respPre s T op) (hdrop : ∀ k, op = .dropStreamRef k → dropPPP s k = [])
    (he : ErrOK s) : RJ (op.apply s) (opHandles s H op) (opResp s H T op) := by
  have hrole := op_role hn op
  cases op
  case panic m => exact absurd rfl (hnp m)
  case recvHeaders h =>
    cases hfk : s.store.findKey? h.sid with
    | none => exact hj.frame hh (recvHeaders_rp s h hn.keys (fun k hk => by rw [hfk] at hk; cases hk)) hrole
    | some k0 =>
      refine hj.frameG hh (recvHeaders_rp s h hn.keys (fun k hk => by rw [hfk] at hk; cases hk; exact List.mem_cons_self ..)) hrole
        (fun hk0 => ?_)
      exact recvHeaders_good h hfk (hj.ref_pos hh hk0) (hj.client (List.ne_nil_of_mem hk0)) he (hj.good k0 hk0)
  case recvData id p eos pad =>
    cases hfk : s.store.findKey? id with
    | none => exact hj.frame hh (recvData_rp s id p eos pad (fun k hk => by rw [hfk] at hk; cases hk)) hrole
    | some k0 =>
      refine hj.frameG hh (recvData_rp s id p eos pad (fun k hk => by rw [hfk] at hk; cases hk; exact List.mem_cons_self ..)) hrole
        (fun hk0 => ?_)
      exact recvData_good id p eos pad hfk (hj.ref_pos hh hk0) (hj.good k0 hk0)
  case recvReset id r => exact hj.frame hh (recvReset_rp s id r) hrole
  case recvWindowUpdate id inc => exact hj.frame hh (recvWindowUpdate_rp s id inc) hrole
  case recvPushPromise id h =>
    have : (s.recvPushPromise id h).1 = s := recvPushPromise_noPush hpre id h
    show RJ (s.recvPushPromise id h).1 H T
    rw [this]; exact hj
  case innerSendReset id r => exact hj.frame hh (innerSendReset_rp s id r) hrole
  case recvGoAway l => exact hj.frame hh (recvGoAway_rp s l) hrole
  case handleError e => exact hj.frame hh (handleError_rp s e) hrole
  case recvGoAwayFrame l r d => exact hj.frame hh (recvGoAwayFrame_rp s l r d) hrole
  case recvEof b => exact hj.frame hh (recvEof_rp s b) hrole
  case setTargetConnectionWindow t => exact hj.frame hh (setTargetConnectionWindow_rp s t) hrole
  case clearExpiredResetStreams n => exact hj.frame hh (clearExpiredResetStreams_rp n s) hrole
  case applyRemoteSettings v b => exact hj.frame hh (applyRemoteSettings_rp s v b) hrole
  case applyLocalSettingsFrame v => exact hj.frame hh (applyLocalSettingsFrame_rp s v) hrole
  case pollComplete f w io t => exact hj.frame hh (pollComplete_rp f s w io t) hrole
  case pollSendPendingRefusal f w io t => exact hj.frame hh (pollSendPendingRefusal_rp f s w io t) hrole
  case wake t => exact hj.frame hh (wake_rp s t) hrole
  case clearWakes => exact hj.frame hh (clearWakes_rp s) hrole
  case cloneHandle => exact hj.frame hh (cloneHandle_rp s) hrole
  case dropHandle => exact hj.frame hh (dropHandle_rp s) hrole
  case pollPendingOpen p t => exact hj.frame hh (pollPendingOpen_rp s p t) hrole
  case nextIncoming => exact hj.frame hh (nextIncoming_rp s) hrole
  case refSendResponse k f eos => exact hj.frame hh (refSendResponse_rp s k f eos) hrole
  case refSendInformationalHeaders k f => exact hj.frame hh (refSendInformationalHeaders_rp s k f) hrole
  case refSendPushPromise p v f => exact hj.frame hh (refSendPushPromise_rp s hn.keys p v f) hrole
  case refSendData k len eos => exact hj.frame hh (refSendData_rp s k len eos) hrole
  case refSendTrailers k f => exact hj.frame hh (refSendTrailers_rp s k f) hrole
  case refReserveCapacity k c => exact hj.frame hh (refReserveCapacity_rp s k c) hrole
  case pollCapacity k t => exact hj.frame hh (pollCapacity_rp s k t) hrole
  case refSendReset k r => exact hj.frame hh (refSendReset_rp s k r) hrole
  case pollReset k m t => exact hj.frame hh (pollReset_rp s k m t) hrole
  case refReleaseCapacity k c => exact hj.frame hh (refReleaseCapacity_rp s k c) hrole
  case recvTakeRequest k => exact hj.frame1 hh (recvTakeRequest_rp s k (List.mem_cons_self ..)) hrole hpre
  case refClearRecvBuffer k => exact hj.frame1 hh (refClearRecvBuffer_rp s k (List.mem_cons_self ..)) hrole hpre
  case refPollData k t =>
    by_cases hk : k ∈ T
    · exact hj.frame hh (refPollData_rp' s k t (hj.good k hk).shape) hrole
    · exact hj.frame1 hh (refPollData_rp s k t (List.mem_cons_self ..)) hrole hk
  case recvPollTrailers k t =>
    by_cases hk : k ∈ T
    · exact hj.frame hh (recvPollTrailers_rp' s k t (hj.good k hk).shape) hrole
    · exact hj.frame1 hh (recvPollTrailers_rp s k t (List.mem_cons_self ..)) hrole hk
  case recvPollInformational k t =>
    exact hj.frameG hh (recvPollInformational_rp s k t (List.mem_cons_self ..)) hrole
      (fun hk => recvPollInformational_good (hj.ref_pos hh hk) (hj.good k hk) t)
  case cloneStreamRef k0 =>
    exact hj.step hh (cloneStreamRef_rp (X := []) s k0) hrole (fun k hk => List.mem_cons_of_mem _ (hj.sub k hk))
      (hj.cl (fun _ h => h)) (fun k hk => .inl ⟨hk, List.not_mem_nil⟩)
  case recvPollResponse fuel k0 tag =>
    have hk0 : k0 ∈ T := hpre
    have hsp := recvPollResponse_spec fuel hn (hj.ref_pos hh hk0) (hj.good k0 hk0) tag
    have hrp := recvPollResponse_rp (X := [k0]) fuel s k0 tag (List.mem_cons_self ..)
    show RJ (Streams.recvPollResponse fuel s k0 tag).1 H
      (match (Streams.recvPollResponse fuel s k0 tag).2 with | .pending => T | _ => T.filter (· ≠ k0))
    have hfil : RJ (Streams.recvPollResponse fuel s k0 tag).1 H (T.filter (· ≠ k0)) :=
      hj.step hh hrp hrole (fun k hk => hj.sub k (mem_filter_ne.mp hk).1) (hj.cl (fun k hk => (mem_filter_ne.mp hk).1))
        (fun k hk => .inl ⟨(mem_filter_ne.mp hk).1, fun h => (mem_filter_ne.mp hk).2 (List.mem_singleton.mp h)⟩)
    cases hans : (Streams.recvPollResponse fuel s k0 tag).2 with
    | pending => exact hj.frameG hh hrp hrole (fun _ => hsp.2 hans)
    | response a f => exact hfil
    | err e => exact hfil
    | panic => exact hfil
  case dropStreamRef k0 =>
    have hppp := hdrop k0 rfl
    have hrp := dropStreamRef_rp (X := [k0]) s k0 (List.mem_cons_self ..) hppp
    dsimp only [Op.apply] at hrole
    have hself : ∀ k, k ∈ T → (s.stream k).refCount ≥ 2 → k = k0 → RGood ((s.dropStreamRef k0).stream k) := by
      intro k hk hr2 e
      subst e
      obtain ⟨hq, hs⟩ := dropStreamRef_self (live_of_ref_pos (by omega)) hr2 hppp
      exact (hj.good k hk).of_same hq hs
    show RJ (s.dropStreamRef k0) (H.erase k0) (if k0 ∈ H.erase k0 then T else T.filter (· ≠ k0))
    generalize s.dropStreamRef k0 = s' at hrole hrp hself ⊢
    split
    · next hmem =>
      refine hj.step hh hrp hrole (fun k hk => ?_) (hj.cl (fun _ h => h)) (fun k hk => ?_)
      · by_cases e : k = k0
        · subst e; exact hmem
        · exact (List.mem_erase_of_ne e).mpr (hj.sub k hk)
      · by_cases e : k = k0
        · subst e
          obtain ⟨x, hx, hc⟩ := hh k (hj.sub k hk)
          have hc2 : 0 < (H.erase k).count k := count_pos_of_mem hmem
          rw [List.count_erase_self] at hc2
          have hr2 : (s.stream k).refCount ≥ 2 := by rw [stream_of_get? hx]; omega
          exact .inr (hself k hk hr2 rfl)
        · exact .inl ⟨hk, fun h => e (List.mem_singleton.mp h)⟩
    · refine hj.step hh hrp hrole (fun k hk => ?_) (hj.cl (fun k hk => (mem_filter_ne.mp hk).1)) (fun k hk => ?_)
      · exact (List.mem_erase_of_ne (mem_filter_ne.mp hk).2).mpr (hj.sub k (mem_filter_ne.mp hk).1)
      · exact .inl ⟨(mem_filter_ne.mp hk).1, fun h => (mem_filter_ne.mp hk).2 (List.mem_singleton.mp h)⟩
  case sendRequest a b c d =>
    have hrp := sendRequest_rp (X := []) s hn.keys a b c d
    show RJ (s.sendRequest a b c d).1 (match (s.sendRequest a b c d).2 with | .ok (k, _) => k :: H | .error _ => H)
      (match (s.sendRequest a b c d).2 with | .ok (k, _) => k :: T | .error _ => T)
    cases hres : (s.sendRequest a b c d).2 with
    | error e => exact hj.frame hh hrp hrole
    | ok kf =>
      obtain ⟨k0, f⟩ := kf
      simp only []
      obtain ⟨hq, hns, hsv⟩ := sendRequest_new hn.keys hres
      refine hj.step hh hrp hrole (fun k hk => ?_) (fun _ => hsv) (fun k hk => ?_)
      · rcases List.mem_cons.mp hk with e | e
        · subst e; exact List.mem_cons_self ..
        · exact List.mem_cons_of_mem _ (hj.sub k e)
      · rcases List.mem_cons.mp hk with e | e
        · subst e
          exact .inr ⟨by rw [hq]; rfl, fun h => by rw [hns] at h; cases h⟩
        · exact .inl ⟨e, List.not_mem_nil⟩

/-- **`Recv::poll_response` cannot panic on a stream whose `ResponseFuture` has not completed** -/
theorem recvPollResponse_npi {s : Streams} {H T : List Nat} (hn : NPI (fun _ => False) s) (hh : HOK s H) (hj : RJ s H T)
    {k : Nat} (hk : k ∈ T) (fuel : Nat) (tag : String) : NPI (fun _ => False) (Streams.recvPollResponse fuel s k tag).1 :=
  (recvPollResponse_spec fuel hn (hj.ref_pos hh hk) (hj.good k hk) tag).1

end H2V.Lemmas.ConnNoPanicP
