import H2V.Lemmas.ConnNoPanicPDsOps
import H2V.Lemmas.ConnNoPanicPHist
/-
  C08 (no panic) — `DSum` / `Coupled` as invariants, part 6: the operations that create a slab entry
  (`recv_headers`, `send_request`, `send_push_promise`).
-/
namespace H2V.Lemmas.ConnNoPanicP
open H2V H2V.Model H2V.Model.Conn H2V.Lemmas.ConnCountsP
attribute [local irreducible] wrapSubU32 wrapSubUsize

-- ===================================================================== `Inner::recv_headers`

theorem recvHeadersClosure_gh (k : Nat) (h : HeadersIn) (s : Streams) (ho : OH s) : GK s (recvHeadersClosure k h s).1 := by
  unfold recvHeadersClosure
  dsimp only
  split
  · exact .refl _
  · have hfin : ∀ (t : Streams) (r : Except PErr Unit), GKo s t → GK s (t.resetOnRecvStreamErr k r).1 :=
      fun t r ht => ((ht.trans (resetOnRecvStreamErr_go _ _ _)).imp ho).1
    split
    · generalize hr : s.recvRecvHeaders k h = p
      obtain ⟨s1, res⟩ := p
      have h1 : GKo s s1 := (UK.of_fst_eq hr (recvRecvHeaders_uk s k h)).toGKo
      cases res with
      | ok => exact hfin _ _ h1
      | oversize b =>
        cases b
        · exact hfin _ _ h1
        · -- the 431 answer: `send_headers` (not `OH`-preserving), then nothing is reset
          have e : ∀ X : Streams, (X.resetOnRecvStreamErr k (.ok ())).1 = X := fun _ => rfl
          simp only []
          rw [e]
          refine (h1.imp ho).1.trans ?_
          gk_auto
      | state e => exact hfin _ _ h1
      | unsupported => exact hfin _ _ (h1.trans (unsup_uk _ _).toGKo)
    · generalize hr : s.recvRecvTrailers k h = p
      obtain ⟨s1, res⟩ := p
      exact hfin _ _ (UK.of_fst_eq hr (recvRecvTrailers_uk s k h)).toGKo

theorem recvHeadersTail_gh (k : Nat) (h : HeadersIn) (s : Streams) (ho : OH s) : GK s (recvHeadersTail k h s).1 := by
  unfold recvHeadersTail
  dsimp only
  split
  · exact .refl _
  · split
    · exact .refl _
    · exact transition_gk' _ _ _ (recvHeadersClosure_gh k h s ho)

/-- **`Inner::recv_headers`** -/
theorem recvHeaders_gh (s : Streams) (h : HeadersIn) (ho : OH s) : GK s (s.recvHeaders h).1 := by
  unfold Streams.recvHeaders
  dsimp only
  split
  · exact .refl _
  · cases hfk : s.store.findKey? h.sid with
    | some k =>
      simp only []
      exact recvHeadersTail_gh k h s ho
    | none =>
      simp only []
      by_cases hforg : (!s.counts.isServer && s.mayHaveForgottenStream h.sid) = true
      · simp only [hforg, if_true]; exact .refl _
      · simp only [hforg, Bool.false_eq_true, if_false]
        generalize hro : s.recvOpen h.sid false = p
        obtain ⟨s1, res⟩ := p
        have h1 : UK s s1 := UK.of_fst_eq hro (recvOpen_uk s h.sid false)
        cases res with
        | error e => exact h1.toGK
        | ok b =>
          cases b
          · exact h1.toGK
          · simp only []
            have h2 := h1.trans (insertNew_uk s1 h.sid s1.actions.send.initWindowSz s1.recv.initWindowSz)
            exact h2.toGK.trans (recvHeadersTail_gh _ h _ (h2.oh ho))

-- ===================================================================== `Streams::send_request`

theorem keysFresh_of_store {s t : Streams} (h : t.store = s.store) (hk : KeysFresh s) : KeysFresh t := by
  unfold KeysFresh at *; rw [h]; exact hk

/-- un-doing an insertion: the entry is the one that was inserted, nothing is buffered on it -/
theorem undoInsert_uk (s : Streams) (st : Stream) (id : Nat) (hk : KeysFresh s) (hb : st.bufferedSendData = 0) :
    UK { s with store := (s.store.insert st).1 }
      { s with store := (((s.store.insert st).1).unlink id).remove s.store.nextKey } := by
  have hs2 : ({ s with store := (s.store.insert st).1 } : Streams).stream s.store.nextKey = { st with key := s.store.nextKey } :=
    stream_of_get? (insert_get?_new hk st)
  exact (unlink_uk _ id).trans (remove_uk ({ s with store := (s.store.insert st).1.unlink id } : Streams) s.store.nextKey
    s.recvBufferLeaked (by
      have : ({ s with store := (s.store.insert st).1.unlink id } : Streams).stream s.store.nextKey =
          ({ s with store := (s.store.insert st).1 } : Streams).stream s.store.nextKey := rfl
      rw [this, hs2]; exact hb))

theorem sendRequestCore_gk (s : Streams) (hk : KeysFresh s) (isHead : Bool) (fields : List Hpack.Field) (eos : Bool) :
    GK s (sendRequestCore isHead fields eos s).1 := by
  unfold sendRequestCore
  generalize hso : s.sendOpenId = p
  obtain ⟨s1, r⟩ := p
  have hst1 : s1.store = s.store := by have := sendOpenId_store s; rw [hso] at this; exact this
  have h1 : UK s s1 := UK.of_fst_eq hso (sendOpenId_uk s)
  cases r with
  | error e => exact h1.toGK
  | ok id =>
    simp only []
    generalize hsP : (if s1.store.contains id = true then s1.panic _ else s1) = sP
    have hstP : sP.store = s.store := by rw [← hsP]; split; rw [panic_store, hst1]; exact hst1
    have hP : UK s sP := by rw [← hsP]; split; exact h1.trans (panic_uk _ _); exact h1
    have hkP : KeysFresh sP := keysFresh_of_store hstP hk
    generalize hst : (if isHead = true then _ else Stream.new id s1.actions.send.initWindowSz s1.recv.initWindowSz) = st
    have hf : st.pendingSend = [] ∧ st.bufferedSendData = 0 ∧ st.isPendingOpen = false := by
      rw [← hst]; split <;> exact ⟨rfl, rfl, rfl⟩
    have h2 : UK s { sP with store := (sP.store.insert st).1 } := hP.trans (insert_uk sP st hf.1 hf.2.1 hf.2.2)
    have hkk : (sP.store.insert st).2 = sP.store.nextKey := rfl
    rw [hkk]
    generalize hsh : Streams.sendHeaders _ sP.store.nextKey eos fields = q
    obtain ⟨s3, r3⟩ := q
    cases r3 with
    | error e =>
      simp only []
      have := sendHeaders_error_eq hsh
      subst this
      exact (h2.trans (undoInsert_uk sP st id hkP hf.2.1)).toGK
    | ok u =>
      simp only []
      have h3 : GK s s3 := h2.toGK.trans (GK.of_fst_eq hsh (sendHeaders_gk _ _ _ _))
      refine h3.trans (UK.toGK ?_)
      exact (setMisc_uk s3 s3.actions (s3.refs + 1) s3.recvBufferLeaked s3.wakes s3.unsupported rfl).trans (refInc_uk _ _)

/-- **`Streams::send_request`** -/
theorem sendRequest_gk (s : Streams) (hk : KeysFresh s) (isHead : Bool) (fields : List Hpack.Field) (eos : Bool)
    (pending : Option Nat) : GK s (s.sendRequest isHead fields eos pending).1 := by
  rcases sendRequest_cases s isHead fields eos pending with e | e
  · rw [e]; exact .refl _
  · rw [e]; exact sendRequestCore_gk s hk isHead fields eos

-- ===================================================================== `StreamRef::send_push_promise`

/-- **`StreamRef::send_push_promise`** -/
theorem refSendPushPromise_uk (s : Streams) (hk : KeysFresh s) (parent : Nat) (valid : Bool) (fields : List Hpack.Field) :
    UK s (s.refSendPushPromise parent valid fields).1 := by
  unfold Streams.refSendPushPromise Streams.sendReserveLocal
  generalize hso : s.sendOpenId = p
  obtain ⟨s1, r⟩ := p
  have hst1 : s1.store = s.store := by have := sendOpenId_store s; rw [hso] at this; exact this
  have h1 : UK s s1 := UK.of_fst_eq hso (sendOpenId_uk s)
  cases r with
  | error e => exact h1
  | ok pid =>
    simp only []
    generalize hsP : (if s1.store.contains pid = true then s1.panic _ else s1) = sP
    have hstP : sP.store = s.store := by rw [← hsP]; split; rw [panic_store, hst1]; exact hst1
    have hP : UK s sP := by rw [← hsP]; split; exact h1.trans (panic_uk _ _); exact h1
    have hkP : KeysFresh sP := keysFresh_of_store hstP hk
    generalize hst : Stream.new pid sP.actions.send.initWindowSz sP.recv.initWindowSz = st
    have hf : st.pendingSend = [] ∧ st.bufferedSendData = 0 ∧ st.isPendingOpen = false := by
      rw [← hst]; exact ⟨rfl, rfl, rfl⟩
    have h2 : UK s { sP with store := (sP.store.insert st).1 } := hP.trans (insert_uk sP st hf.1 hf.2.1 hf.2.2)
    have hkk : (sP.store.insert st).2 = sP.store.nextKey := rfl
    rw [hkk]
    have hs2 : ({ sP with store := (sP.store.insert st).1 } : Streams).stream sP.store.nextKey = { st with key := sP.store.nextKey } :=
      stream_of_get? (insert_get?_new hkP st)
    have hl2 : Live ({ sP with store := (sP.store.insert st).1 } : Streams) sP.store.nextKey := ⟨_, insert_get?_new hkP st⟩
    generalize hs2g : ({ sP with store := (sP.store.insert st).1 } : Streams) = s2 at h2 hs2 hl2 ⊢
    split
    · exact h2
    · next st' _ heq =>
      have h4 : UK s2 (s2.modStream sP.store.nextKey fun x => { x with state := st', isPendingPush := true }) :=
        modStream_uk _ _ _ (fun _ => ⟨rfl, .of_fields rfl rfl rfl⟩)
      have hb4 : ((s2.modStream sP.store.nextKey fun x => { x with state := st', isPendingPush := true }).stream
          sP.store.nextKey).bufferedSendData = 0 := by
        have := stream_modStream_live hl2 (fun x => ({ x with state := st', isPendingPush := true } : Stream)) (fun _ => rfl)
        rw [this, hs2]; exact hf.2.1
      generalize (s2.modStream sP.store.nextKey fun x => { x with state := st', isPendingPush := true }) = s4 at h4 hb4 ⊢
      split
      · exact h2.trans h4
      · generalize hsp : s4.sendPushPromise parent sP.store.nextKey pid fields = q
        obtain ⟨s5, r5⟩ := q
        cases r5 with
        | error e =>
          simp only []
          have := sendPushPromise_error_eq hsp
          subst this
          refine (h2.trans h4).trans ((unlink_uk _ pid).trans ?_)
          exact remove_uk ({ s5 with store := s5.store.unlink pid } : Streams) sP.store.nextKey s5.recvBufferLeaked hb4
        | ok u =>
          simp only []
          refine (h2.trans h4).trans ((UK.of_fst_eq hsp (sendPushPromise_uk _ _ _ _ _)).trans ?_)
          exact (setMisc_uk s5 s5.actions (s5.refs + 1) s5.recvBufferLeaked s5.wakes s5.unsupported rfl).trans (refInc_uk _ _)

end H2V.Lemmas.ConnNoPanicP
