import H2V.Lemmas.ConnNoPanicPStreams
/-
  C08 (no panic) — statements used by `H2V/Props/C08NoPanic.lean`, first instalment: the functions that
  work on one stream never panic from a good state (`NPQ`) when handed a live key.
-/
namespace H2V.Lemmas.ConnNoPanicP
open H2V H2V.Model H2V.Model.Conn H2V.Lemmas.ConnCountsP

theorem LT.run1 {k : Nat} {s s' : Streams} (h : LT [k] s s') (hq : NPQ s) (hk : Live s k) : s'.panicked = none ∧ NPQ s' :=
  let r := h.ok (fun j hj => by rw [List.mem_singleton] at hj; subst hj; exact hk) hq
  ⟨r.np, r⟩
theorem LT.run0 {s s' : Streams} (h : LT [] s s') (hq : NPQ s) : s'.panicked = none ∧ NPQ s' :=
  let r := h.ok (fun j hj => absurd hj List.not_mem_nil) hq
  ⟨r.np, r⟩
theorem LTw.run1 {k : Nat} {s s' : Streams} (h : LTw [k] s s') (hq : NPQ s) (hk : Live s k) : s'.panicked = none ∧ NPQ s' :=
  let r := h.ok (fun j hj => by rw [List.mem_singleton] at hj; subst hj; exact hk) hq
  ⟨r.np, r⟩

/-- witness: one open stream (key 0, id 1) with a handle, nothing queued -/
def wStream : Stream :=
  { key := 0, id := 1, state := { inner := .open .streaming .streaming }, refCount := 1,
    sendFlow := { windowSize := { val := 65535 }, available := { val := 0 } } }
def wS : Streams := { store := { slab := [wStream], ids := [(1, 0)], nextKey := 1 } }

theorem wS_npq : NPQ wS := npq_single (x := wStream) rfl rfl (by decide) rfl rfl (by decide)
theorem wS_live : Live wS 0 := ⟨wStream, rfl⟩

end H2V.Lemmas.ConnNoPanicP
