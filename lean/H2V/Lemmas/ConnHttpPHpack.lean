import H2V.Lemmas.ConnHttpPTrack
import H2V.Lemmas.HpackDecInv
/-
  C13 (ConnHttpP), part 5 — what the HPACK layer guarantees about every field it hands to
  `HeaderBlock::load`: `fieldOk` (lower-case well-formed name, only the six known pseudo-header names,
  three-digit `:status`), for every decoder state whose dynamic table holds such fields only — an
  invariant of `Decoder::decode`.
-/
namespace H2V.Lemmas.ConnHttpP
open H2V H2V.Model H2V.Model.Frame H2V.Model.Hpack H2V.Lemmas.HpackDec

/-- every entry of the dynamic table is a field the decoder once accepted -/
def TableOk (t : Table) : Prop := ∀ h ∈ t.entries, fieldOk h = true

theorem static_ok : ∀ h ∈ Generated.Static.staticL, fieldOk h = true := by decide

theorem nameChar_ok (b : Nat) (h : Http.nameCharH2 b = true) : 32 < b ∧ b < 127 ∧ ¬(65 ≤ b ∧ b ≤ 90) ∧ b ≠ 58 := by
  unfold Http.nameCharH2 Http.isDigit Http.isLower at h
  simp only [Bool.or_eq_true, Bool.and_eq_true, decide_eq_true_eq, beq_iff_eq] at h
  omega

theorem validName_ok (n : Bytes) (hp : n.head? ≠ some 58) (h : Http.validName n = true) :
    Spec.Http.nameOk n = true := by
  unfold Http.validName at h
  simp only [Bool.and_eq_true, Bool.not_eq_true', decide_eq_true_eq, List.all_eq_true] at h
  unfold Spec.Http.nameOk
  have : (n.head? == some 58) = false := by simpa using hp
  simp only [this, Bool.false_eq_true, if_false, Bool.and_eq_true, Bool.not_eq_true', List.all_eq_true]
  refine ⟨h.1.1, fun b hb => ?_⟩
  have := nameChar_ok b (h.2 b hb)
  simp only [decide_eq_true_eq, Bool.and_eq_false_iff, decide_eq_false_iff_not, bne_iff_ne, ne_eq]
  omega

theorem nameOk_known : ∀ n ∈ known, Spec.Http.nameOk n = true := by decide
theorem contains_known : ∀ n ∈ known, Spec.Http.knownPseudo.contains n = true := by decide

theorem validStatus_ok (v : Bytes) (h : Http.validStatus v = true) : Spec.Http.statusOk v = true := by
  unfold Http.validStatus at h
  unfold Spec.Http.statusOk
  split at h
  · simpa [Http.isDigit, Bool.and_assoc] using h
  · cases h

theorem pseudo_fieldOk (n : Bytes) (hn : n ∈ known) (hs : n ≠ pStatus) (v : Bytes) : fieldOk (n, v) = true := by
  rw [fieldOk_iff]
  exact ⟨nameOk_known n hn, fun _ => contains_known n hn, fun e => absurd e hs⟩

theorem status_fieldOk (v : Bytes) (hv : Http.validStatus v = true) : fieldOk (pStatus, v) = true := by
  rw [fieldOk_iff]
  exact ⟨nameOk_known _ (by simp [known]), fun _ => contains_known _ (by simp [known]), fun _ => validStatus_ok _ hv⟩

/-- `Header::new` only lets `fieldOk` fields through -/
theorem mkHeader_fieldOk (name value : Bytes) (h : Header) (hk : mkHeader name value = .ok h) :
    fieldOk h = true := by
  have e := mkHeader_ok name value h hk
  subst e
  unfold mkHeader at hk
  split at hk
  · cases hk
  · split at hk
    · rename_i hp
      split at hk
      · rename_i hn
        exact pseudo_fieldOk _ (by rcases hn with rfl | rfl | rfl | rfl <;> simp [known])
          (by rcases hn with rfl | rfl | rfl | rfl <;> decide) _
      · split at hk
        · rename_i hn; subst hn; exact pseudo_fieldOk _ (by simp [known]) (by decide) _
        · split at hk
          · rename_i hn
            subst hn
            split at hk
            · rename_i hv; exact status_fieldOk _ hv
            · cases hk
          · cases hk
    · rename_i hp
      split at hk
      · cases hk
      · rename_i hv
        split at hk
        · cases hk
        · rw [fieldOk_iff]
          refine ⟨validName_ok name hp (by simpa using hv), fun hps => ?_, fun e => ?_⟩
          · simp [Spec.Http.isPseudo] at hps; exact absurd hps hp
          · subst e; exact absurd rfl hp

/-- `Name::into_entry`: the name comes from a table entry, the value is checked -/
theorem intoEntry_fieldOk (e : Header) (value : Bytes) (h : Header) (he : fieldOk e = true)
    (hk : intoEntry e.1 value = .ok h) : fieldOk h = true := by
  have eq := intoEntry_ok e.1 value h hk
  subst eq
  by_cases hs : e.1 = pStatus
  · unfold intoEntry at hk
    rw [hs] at hk ⊢
    simp only [show ¬(pStatus = pAuthority ∨ pStatus = pScheme ∨ pStatus = pPath ∨ pStatus = pProtocol) by decide,
      show ¬(pStatus = pMethod) by decide, if_false, if_true] at hk
    split at hk
    · rename_i hv; exact status_fieldOk _ hv
    · cases hk
  · have := (fieldOk_iff e).mp he
    rw [fieldOk_iff]
    exact ⟨this.1, this.2.1, fun x => absurd x hs⟩

theorem get_fieldOk (t : Table) (i : Nat) (h : Header) (ht : TableOk t) (hg : t.get i = .ok h) :
    fieldOk h = true := by
  unfold Table.get at hg
  split at hg
  · cases hg
  · split at hg
    · split at hg
      · rename_i h' hs
        cases hg
        exact static_ok _ (List.mem_of_getElem? hs)
      · cases hg
    · split at hg
      · rename_i h' hs
        cases hg
        exact ht _ (List.mem_of_getElem? hs)
      · cases hg

theorem decodeLiteral_fieldOk (t : Table) (buf rest : Bytes) (index : Bool) (h : Header) (ht : TableOk t)
    (hk : decodeLiteral t buf index = .ok (h, rest)) : fieldOk h = true := by
  unfold decodeLiteral at hk
  split at hk
  · cases hk
  · split at hk
    · split at hk
      · cases hk
      · split at hk
        · cases hk
        · split at hk
          · cases hk
          · rename_i h' hm
            cases hk
            exact mkHeader_fieldOk _ _ _ hm
    · split at hk
      · cases hk
      · rename_i e hg
        split at hk
        · cases hk
        · split at hk
          · cases hk
          · rename_i h' hi
            cases hk
            exact intoEntry_fieldOk e _ _ (get_fieldOk t _ e ht hg) hi

/-! ### table operations only drop entries or add the accepted field -/

theorem mem_of_mem_dropLast' {α} : ∀ (l : List α) (x : α), x ∈ l.dropLast → x ∈ l
  | [], _, h => by simp at h
  | [_], _, h => by simp at h
  | a :: b :: t, x, h => by
    rw [List.dropLast_cons_cons] at h
    rcases List.mem_cons.mp h with rfl | h'
    · exact List.mem_cons_self ..
    · exact List.mem_cons_of_mem _ (mem_of_mem_dropLast' (b :: t) x h')

theorem reserve_go_sub (n : Nat) : ∀ (fuel : Nat) (t : Table), ∀ h ∈ (Table.reserve.go n fuel t).entries, h ∈ t.entries
  | 0, t, h, hh => hh
  | fuel + 1, t, h, hh => by
    unfold Table.reserve.go at hh
    split at hh
    · split at hh
      · exact mem_of_mem_dropLast' _ _ (reserve_go_sub n fuel _ h hh)
      · exact hh
    · exact hh

theorem insert_tableOk (t : Table) (h : Header) (ht : TableOk t) (hh : fieldOk h = true) : TableOk (t.insert h) := by
  unfold Table.insert
  have hr : TableOk (t.reserve h.size) := fun x hx => ht x (reserve_go_sub _ _ _ x hx)
  simp only
  split
  · intro x hx
    rcases List.mem_cons.mp hx with rfl | hx'
    · exact hh
    · exact hr x hx'
  · exact hr

theorem consolidate_sub : ∀ (fuel : Nat) (t r : Table), Table.consolidate fuel t = some r →
    ∀ h ∈ r.entries, h ∈ t.entries
  | 0, t, r, hc, h, hh => by
    unfold Table.consolidate at hc
    split at hc
    · cases hc
    · cases hc; exact hh
  | fuel + 1, t, r, hc, h, hh => by
    unfold Table.consolidate at hc
    split at hc
    · split at hc
      · exact mem_of_mem_dropLast' _ _ (consolidate_sub fuel _ r hc h hh)
      · cases hc
    · cases hc; exact hh

theorem setMaxSize_tableOk (t r : Table) (n : Nat) (ht : TableOk t) (h : t.setMaxSize n = some r) : TableOk r :=
  fun x hx => ht x (consolidate_sub _ _ r h x hx)

/-! ### the decoder loop -/

theorem step_next_ok (d : Decoder) (c : Bool) (buf : Bytes) (d' : Decoder) (c' : Bool) (rest : Bytes)
    (emit : List Header) (ht : TableOk d.table) (h : step d c buf = .next d' c' rest emit) :
    TableOk d'.table ∧ ∀ x ∈ emit, fieldOk x = true := by
  have lit : ∀ index, stepLiteral d buf index = .next d' c' rest emit →
      TableOk d'.table ∧ ∀ x ∈ emit, fieldOk x = true := by
    intro index hl
    obtain ⟨hd, hk, he, -, hd'⟩ := stepLiteral_next_inv _ _ _ _ _ _ _ hl
    have hf := decodeLiteral_fieldOk _ _ _ _ _ ht hk
    subst he hd'
    refine ⟨?_, fun x hx => by rw [List.mem_singleton.mp hx]; exact hf⟩
    cases index
    · exact ht
    · exact insert_tableOk _ _ ht hf
  unfold step at h
  cases buf with
  | nil => cases h
  | cons ty tl0 =>
    simp only at h
    split at h
    · cases h
    · split at h
      · cases h
      · split at h
        · cases h
        · rename_i hh hg
          simp only [Step.next.injEq] at h
          obtain ⟨h1, -, -, h4⟩ := h
          subst h1 h4
          exact ⟨ht, fun x hx => by rw [List.mem_singleton.mp hx]; exact get_fieldOk _ _ _ ht hg⟩
    · exact lit _ h
    · exact lit _ h
    · exact lit _ h
    · split at h
      · cases h
      · split at h
        · cases h
        · split at h
          · cases h
          · split at h
            · cases h
            · rename_i t hs
              simp only [Step.next.injEq] at h
              obtain ⟨h1, -, -, h4⟩ := h
              subst h1 h4
              exact ⟨setMaxSize_tableOk _ _ _ ht hs, fun x hx => by cases hx⟩

theorem decodeLoop_ok : ∀ (fuel : Nat) (d : Decoder) (c : Bool) (buf : Bytes) (acc : List Header),
    TableOk d.table → (∀ x ∈ acc, fieldOk x = true) →
    TableOk (decodeLoop fuel d c buf acc).dec.table ∧ ∀ x ∈ (decodeLoop fuel d c buf acc).fields, fieldOk x = true
  | 0, d, c, buf, acc, ht, ha => by rw [decodeLoop_zero]; exact ⟨ht, ha⟩
  | fuel + 1, d, c, buf, acc, ht, ha => by
    rw [decodeLoop_succ]
    cases hs : step d c buf with
    | stop d' tl res =>
      simp only
      exact ⟨by rw [(step_stop_sameCfg _ _ _ _ _ _ hs).2.1]; exact ht, ha⟩
    | next d' c' rest emit =>
      simp only
      obtain ⟨t', e'⟩ := step_next_ok _ _ _ _ _ _ _ ht hs
      exact decodeLoop_ok fuel d' c' rest (acc ++ emit) t' fun x hx => by
        rcases List.mem_append.mp hx with h | h
        · exact ha x h
        · exact e' x h

/-- **`Decoder::decode` hands `fieldOk` fields only to its callback and keeps the table invariant** -/
theorem decode_ok (d : Decoder) (src : Bytes) (ht : TableOk d.table) :
    TableOk (d.decode src).dec.table ∧ ∀ x ∈ (d.decode src).fields, fieldOk x = true := by
  rw [decode_eq]
  exact decodeLoop_ok _ _ _ _ _ (by rw [prep_table]; exact ht) (fun x hx => by cases hx)

theorem new_tableOk (n : Nat) : TableOk (Decoder.new n).table := fun x hx => by cases hx

end H2V.Lemmas.ConnHttpP
