import H2V.Lemmas.ConnFidPPush
/-
  ConnFidP, part 18 — `Streams::poll_complete` (the connection task's write loop: `poll_ready`, window updates,
  `pop_pending_open`, `pop_frame`, `buffer_out`, `reclaim_frame`, `flush`) maps a history to a history.
-/
set_option linter.unusedSectionVars false
namespace H2V.Lemmas.ConnFidP
open H2V H2V.Model H2V.Model.Conn H2V.Lemmas.ConnWakeP

/-- some ghost log makes `(s, w)` a history -/
def HistP (s : Streams) (w : Writer) : Prop := ∃ g, Hist s w g

/-- the codec of a history never holds two DATA frames -/
theorem Hist.wok {s : Streams} {w : Writer} {g : Ghost} (h : Hist s w g) : WOk w := by
  induction h with
  | init s w _ _ hh => intro _; exact ((held_none_iff w).mp hh).2
  | api _ _ _ _ _ _ ih => exact ih
  | codec _ _ hwk _ => exact hwk
  | @reclaim s w g _ ih =>
    unfold Streams.reclaimFrame
    rcases held_takeLast w ih with ⟨_, _, h3⟩ | ⟨fr, _, _, _, h4⟩
    · rcases hp : w.takeLastDataFrame with ⟨w', o⟩
      rw [hp] at h3
      cases o <;> exact h3
    · rcases hp : w.takeLastDataFrame with ⟨w', o⟩
      rw [hp] at h4
      cases o <;> exact h4
  | popNone _ _ _ _ _ _ ih => exact ih
  | @popBuffer s s1 w g g' n m f _ hh hm _ _ hd ih =>
    cases f with
    | headers sid eos fl => exact (held_bufferHeaders w sid eos fl).2 ih
    | reset sid r => exact (held_bufferSimple w 4 _).2 ih
    | pushPromise sid p fl => exact (held_bufferPushPromise w sid p fl).2 ih
    | data len fe fr =>
      obtain ⟨_, _, _, hlen⟩ := hd len fe fr rfl
      obtain ⟨w', hw', _, hwok'⟩ := held_bufferData w len fe fr hh (Nat.le_trans hlen hm)
      simp only [Streams.bufferOut, hw']
      exact hwok'

theorem HistP.codec {s : Streams} {w w' : Writer} (h : HistP s w) (hh : held w' = held w) (hk : WOk w → WOk w') :
    HistP s w' := by
  obtain ⟨g, h⟩ := h
  exact ⟨g, .codec h hh (hk h.wok)⟩

theorem HistP.any {s s' : Streams} {w : Writer} (h : HistP s w) (t : Tr permAny s s') : HistP s' w := by
  obtain ⟨g, h⟩ := h
  obtain ⟨g', h', _⟩ := h.any t
  exact ⟨g', h'⟩

theorem HistP.wok {s : Streams} {w : Writer} (h : HistP s w) : WOk w := by
  obtain ⟨g, h⟩ := h; exact h.wok

-- ===================================================================== window updates: the codec keeps its DATA frame

theorem held_sendConnectionWindowUpdate (s : Streams) (w : Writer) :
    held (s.sendConnectionWindowUpdate w).2.1 = held w ∧ (WOk w → WOk (s.sendConnectionWindowUpdate w).2.1) := by
  unfold Streams.sendConnectionWindowUpdate
  split
  · split
    · exact ⟨rfl, fun h => h⟩
    · split <;> exact held_bufferSimple w 4 _
  · exact ⟨rfl, fun h => h⟩

/-- `w'` holds the same DATA frame as `w0` (and is well-formed if `w0` is) -/
def SameHeld (w0 w' : Writer) : Prop := held w' = held w0 ∧ (WOk w0 → WOk w')

theorem SameHeld.refl (w : Writer) : SameHeld w w := ⟨rfl, fun h => h⟩
theorem SameHeld.bufferSimple {w0 w : Writer} (h : SameHeld w0 w) (n : Nat) (r : String) : SameHeld w0 (w.bufferSimple n r) :=
  ⟨(held_bufferSimple w n r).1.trans h.1, fun hk => (held_bufferSimple w n r).2 (h.2 hk)⟩

theorem held_sendStreamWindowUpdates (w0 : Writer) (n : Nat) (s : Streams) (w : Writer) (hq : SameHeld w0 w) :
    SameHeld w0 (Streams.sendStreamWindowUpdates n s w).2.1 := by
  induction n generalizing s w with
  | zero => unfold Streams.sendStreamWindowUpdates; exact hq
  | succ n ih =>
    unfold Streams.sendStreamWindowUpdates
    simp only
    repeat' split
    all_goals first
      | exact hq
      | exact ih _ _ hq
      | exact ih _ _ (hq.bufferSimple _ _)

theorem held_recvBufferPending (s : Streams) (w : Writer) : SameHeld w (s.recvBufferPending w).2.1 := by
  unfold Streams.recvBufferPending
  have h1 := held_sendConnectionWindowUpdate s w
  split
  · next s1 w1 heq => rw [heq] at h1; exact h1
  · next s1 w1 heq =>
    rw [heq] at h1
    exact held_sendStreamWindowUpdates w _ s1 w1 h1


-- ===================================================================== the write loop

theorem hasCapacity_next {w : Writer} (h : w.hasCapacity = true) : w.next = none := by
  unfold Writer.hasCapacity at h
  simp only [Bool.and_eq_true] at h
  cases hn : w.next with
  | none => rfl
  | some n => rw [hn] at h; simp at h

theorem reclaimFrame_last (s : Streams) (w : Writer) : (s.reclaimFrame w).2.1.lastDataFrame = none := by
  unfold Streams.reclaimFrame Writer.takeLastDataFrame
  cases w.lastDataFrame <;> rfl

theorem HistP.reclaim {s : Streams} {w : Writer} (h : HistP s w) : HistP (s.reclaimFrame w).1 (s.reclaimFrame w).2.1 := by
  obtain ⟨g, h⟩ := h; exact ⟨g, .reclaim h⟩

/-- `pop_frame` followed by `buffer_out` of what it handed out -/
theorem HistP.popStep {s : Streams} {w : Writer} (h : HistP s w) (hh : held w = none) (n : Nat) :
    (∀ s1, Streams.popFrame n s w.maxFrameSize = (s1, none) → HistP s1 w) ∧
    (∀ s1 f, Streams.popFrame n s w.maxFrameSize = (s1, some f) → HistP (s1.bufferOut w f).1 (s1.bufferOut w f).2) := by
  obtain ⟨g, h⟩ := h
  obtain ⟨g', r, d⟩ := popFrame_last n w.maxFrameSize s g
  refine ⟨fun s1 hp => ?_, fun s1 f hp => ?_⟩
  · rw [hp] at r
    exact ⟨g', .popNone n w.maxFrameSize h hh hp r⟩
  · rw [hp] at r d
    exact ⟨_, .popBuffer n w.maxFrameSize f h hh (Nat.le_refl _) hp r d⟩

theorem hist_loop (fuel : Nat) : ∀ (s : Streams) (w : Writer), HistP s w → w.lastDataFrame = none →
    HistP (Streams.prioBufferPendingLoop fuel s w).1 (Streams.prioBufferPendingLoop fuel s w).2.1 := by
  induction fuel with
  | zero =>
    intro s w h _
    unfold Streams.prioBufferPendingLoop
    exact h.any (panic_acc _ (Tr.refl _ _))
  | succ n ih =>
    intro s w h hl
    unfold Streams.prioBufferPendingLoop
    by_cases hc : w.hasCapacity = true
    · simp only [hc, Bool.not_true, Bool.false_eq_true, if_false]
      have hh : held w = none := (held_none_iff w).mpr ⟨hasCapacity_next hc, hl⟩
      -- `pop_pending_open`
      have t : Tr permAny s (match s.popPendingOpen with
          | (s, some id) => ((s.qPushFront .pendingSend id).1).tryAssignCapacity id
          | (s, none) => s) := by
        have t0 := popPendingOpen_acc (P := permAny) trivial (Tr.refl permAny s)
        split
        · next s1 id heq =>
          rw [heq] at t0
          exact tryAssignCapacity_acc trivial _ (qPushFront_acc trivial _ _ t0)
        · next s1 heq => rw [heq] at t0; exact t0
      have h2 := h.any t
      obtain ⟨p1, p2⟩ := h2.popStep hh (Streams.popFrameFuel _)
      split
      · next s3 f heq =>
        have h3 := (p2 s3 f heq).reclaim
        exact ih _ _ h3 (reclaimFrame_last _ _)
      · next s3 heq => exact p1 s3 heq
    · have : (!w.hasCapacity) = true := by simpa using hc
      simp only [this, if_true]; exact h

theorem hist_prioBufferPending (fuel : Nat) (s : Streams) (w : Writer) (h : HistP s w) :
    HistP (Streams.prioBufferPending fuel s w).1 (Streams.prioBufferPending fuel s w).2.1 := by
  unfold Streams.prioBufferPending
  exact hist_loop fuel _ _ h.reclaim (reclaimFrame_last _ _)

theorem hist_bufferPending (fuel : Nat) (s : Streams) (w : Writer) (h : HistP s w) :
    HistP (Streams.bufferPending fuel s w).1 (Streams.bufferPending fuel s w).2.1 := by
  unfold Streams.bufferPending
  have t := recvBufferPending_acc (P := permAny) trivial w (Tr.refl permAny s)
  have hq := held_recvBufferPending s w
  have h1 : HistP (s.recvBufferPending w).1 (s.recvBufferPending w).2.1 := (h.any t).codec hq.1 hq.2
  split
  · next s1 w1 heq => rw [heq] at h1; exact h1
  · next s1 w1 heq => rw [heq] at h1; exact hist_prioBufferPending fuel s1 w1 h1

/-- **`Streams::poll_complete` maps a history to a history** -/
theorem hist_pollComplete (fuel : Nat) : ∀ (s : Streams) (w : Writer) (io : Tio) (tag : String), HistP s w →
    HistP (Streams.pollComplete fuel s w io tag).1 (Streams.pollComplete fuel s w io tag).2.1 := by
  induction fuel with
  | zero =>
    intro s w io tag h
    unfold Streams.pollComplete
    exact h.any (panic_acc _ (Tr.refl _ _))
  | succ n ih =>
    intro s w io tag h
    unfold Streams.pollComplete
    have hr := held_pollReadyW w io tag h.wok
    have h1 : HistP s (pollReadyW w io tag).1 := h.codec hr.1 (fun _ => hr.2)
    rcases hp : pollReadyW w io tag with ⟨w1, io1, r⟩
    rw [hp] at h1
    cases r with
    | pending => exact h1
    | err e => exact h1
    | ready =>
      simp only
      have h2 := hist_bufferPending (n + 1) s w1 h1
      rcases hb : Streams.bufferPending (n + 1) s w1 with ⟨s2, w2, status⟩
      rw [hb] at h2
      cases status with
      | codecFull => exact ih _ _ _ _ h2
      | complete =>
        simp only
        have h3 : HistP { s2 with actions := { s2.actions with task := some tag } } w2 :=
          h2.any (setTask_acc _ (Tr.refl _ _))
        have hf := held_flush w2 io1 tag h3.wok
        have h4 : HistP { s2 with actions := { s2.actions with task := some tag } } (flush w2 io1 tag).1 :=
          h3.codec hf.1 (fun _ => hf.2)
        rcases hfl : flush w2 io1 tag with ⟨w3, io3, r3⟩
        rw [hfl] at h4
        cases r3 with
        | pending => exact h4
        | err e => exact h4
        | ready =>
          simp only
          have h5 := h4.reclaim
          rcases hrc : Streams.reclaimFrame { s2 with actions := { s2.actions with task := some tag } } w3 with ⟨s4, w4, b⟩
          rw [hrc] at h5
          cases b with
          | false => exact h5
          | true => exact ih _ _ _ _ h5

end H2V.Lemmas.ConnFidP
