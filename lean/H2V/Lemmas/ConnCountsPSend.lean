import H2V.Lemmas.ConnCountsPCore
import H2V.Lemmas.ConnCountsPClone
/-
  C05 / C18 / C19 — part 6: `Ev` for `prioritize.rs` (`ConnSend.lean`, first half).
-/
namespace H2V.Lemmas.ConnCountsP
open H2V H2V.Model H2V.Model.Conn
variable {ρ : Bool}
attribute [local irreducible] wrapSubU32 wrapSubUsize

theorem qPush_ev (s : Streams) (q : QName) (k : Nat) (h1 : q ≠ .pendingResetExpired) (h2 : q ≠ .pendingOpen) :
    EvB ρ s (s.qPush q k).1 := .qPush q k h1 h2
theorem qPushFront_ev (s : Streams) (q : QName) (k : Nat) (h1 : q ≠ .pendingResetExpired) (h2 : q ≠ .pendingOpen) :
    EvB ρ s (s.qPushFront q k).1 := .qPushFront q k h1 h2
theorem qPop_ev (s : Streams) (q : QName) (h1 : q ≠ .pendingResetExpired) (h2 : q ≠ .pendingOpen) :
    EvB ρ s (s.qPop q).1 := .qPop q h1 h2

theorem scheduleSend_ev (s : Streams) (id : Nat) : EvB ρ s (s.scheduleSend id) := by
  unfold Streams.scheduleSend
  ev_auto

theorem queueFrame_ev (s : Streams) (id : Nat) (f : SFrame) (hf : SFrame.isPP f = false) : EvB ρ s (s.queueFrame id f) := by
  unfold Streams.queueFrame
  refine .trans (modStream_ev' _ _ _ ?_) (scheduleSend_ev _ _)
  exact setPendingSend_same' _ _ (mem_append_single_pp hf)

theorem queueOpen_ev (s : Streams) (id : Nat) (h : s.counts.isLocalInit (s.stream id).id = true) : EvB ρ s (s.queueOpen id) :=
  .qPushOpen id h

theorem tryAssignCapacity_ev (s : Streams) (id : Nat) : EvB ρ s (s.tryAssignCapacity id) := by
  unfold Streams.tryAssignCapacity
  ev_auto

/-- `transition_after` behind a piece of code, with the flag read before it -/
theorem transitionAfter_after {s1 s2 : Streams} (k : Nat) (e : EvB ρ s1 s2) :
    EvB ρ s1 (s2.transitionAfter k (s1.stream k).isPendingResetExpiration) :=
  .trans e (transitionAfter_ev _ _ _ (fun hb => e.mono.resetAt k hb))

-- ===================================================================== state transitions never go back to an unopened state

theorem sendClose_not_early {st st' : State} (h : st.sendClose = some st') : ¬ (st'.inner = .idle ∨ st'.inner = .reservedRemote) := by
  unfold State.sendClose at h
  split at h <;> cases h <;> simp
theorem sendOpen_not_early {st st' : State} {eos : Bool} {u : Unit} (h : st.sendOpen eos = (st', .ok u)) :
    ¬ (st'.inner = .idle ∨ st'.inner = .reservedRemote) := by
  unfold State.sendOpen at h
  split at h <;> cases h <;> (try split) <;> simp
theorem recvOpen_early {st st' : State} {a b : Bool} {r : Except PErr Bool} (h : st.recvOpen a b = (st', r)) :
    (st'.inner = .idle ∨ st'.inner = .reservedRemote) → (st.inner = .idle ∨ st.inner = .reservedRemote) := by
  intro h'
  have : st' = (st.recvOpen a b).1 := by rw [h]
  subst this
  obtain ⟨inner⟩ := st
  cases inner with
  | idle => left; rfl
  | reservedRemote => right; rfl
  | «open» l r => cases r <;> cases a <;> cases b <;> simp [State.recvOpen] at h'
  | halfClosedLocal p => cases p <;> cases a <;> cases b <;> simp [State.recvOpen] at h'
  | _ => simp [State.recvOpen] at h'
theorem recvClose_early {st st' : State} {r : Except PErr Unit} (h : st.recvClose = (st', r)) :
    (st'.inner = .idle ∨ st'.inner = .reservedRemote) → (st.inner = .idle ∨ st.inner = .reservedRemote) := by
  unfold State.recvClose at h
  intro h'
  split at h <;> cases h <;> simp_all
theorem reserveRemote_early {st st' : State} {r : Except PErr Unit} (h : st.reserveRemote = (st', r)) :
    (st'.inner = .idle ∨ st'.inner = .reservedRemote) → (st.inner = .idle ∨ st.inner = .reservedRemote) := by
  unfold State.reserveRemote at h
  intro h'
  split at h <;> cases h <;> simp_all
theorem reserveLocal_not_early {st st' : State} {u : Unit} (h : st.reserveLocal = (st', .ok u)) :
    ¬ (st'.inner = .idle ∨ st'.inner = .reservedRemote) := by
  unfold State.reserveLocal at h
  split at h <;> cases h <;> simp
theorem recvReset_early (st : State) (sid : Nat) (r : Reason) (q : Bool) :
    ((st.recvReset sid r q).inner = .idle ∨ (st.recvReset sid r q).inner = .reservedRemote) → (st.inner = .idle ∨ st.inner = .reservedRemote) := by
  unfold State.recvReset
  intro h'
  dsimp only at h'
  repeat' split at h'
  all_goals simp_all
theorem handleError_early (st : State) (e : PErr) :
    ((st.handleError e).inner = .idle ∨ (st.handleError e).inner = .reservedRemote) → (st.inner = .idle ∨ st.inner = .reservedRemote) := by
  unfold State.handleError
  intro h'
  dsimp only at h'
  repeat' split at h'
  all_goals simp_all
theorem recvEof_early (st : State) :
    (st.recvEof.inner = .idle ∨ st.recvEof.inner = .reservedRemote) → (st.inner = .idle ∨ st.inner = .reservedRemote) := by
  unfold State.recvEof
  intro h'
  dsimp only at h'
  repeat' split at h'
  all_goals simp_all

/-- `Same x { x with state := … }` from an equation in the context -/
macro "state_tac" : tactic => `(tactic| first
  | exact setState_same _ _ (fun h => absurd h (sendClose_not_early (by assumption)))
  | exact setState_same _ _ (fun h => absurd h (sendOpen_not_early (by assumption)))
  | exact setState_same _ _ (fun h => absurd h (reserveLocal_not_early (by assumption)))
  | exact setState_same _ _ (recvOpen_early (by assumption))
  | exact setState_same _ _ (recvClose_early (by assumption))
  | exact setState_same _ _ (reserveRemote_early (by assumption))
  | exact setState_same _ _ (recvReset_early _ _ _ _)
  | exact setState_same _ _ (handleError_early _ _)
  | exact setState_same _ _ (recvEof_early _)
  | exact setState_same _ _ (fun h => absurd h (notEarly_of_closed rfl)))
macro_rules | `(tactic| ev_side) => `(tactic| (intro _ _; state_tac))
macro_rules | `(tactic| ev_side) => `(tactic| (show SFrame.isPP _ = false; rfl))
macro_rules | `(tactic| ev_side) => `(tactic| (intro _ _; exact setPendingSend_same' _ _ (mem_append_single_pp rfl)))
macro_rules | `(tactic| ev_side) => `(tactic| (intro _ _; exact setPendingSend_same _ [] _ _ (fun _ hf _ => nomatch hf)))

-- ===================================================================== prioritize.rs, continued

theorem assignConnectionCapacityLoop_ev : ∀ (fuel : Nat) (s : Streams), EvB ρ s (Streams.assignConnectionCapacityLoop fuel s) := by
  intro fuel
  induction fuel with
  | zero => intro s; exact .refl _
  | succ n ih =>
    intro s
    unfold Streams.assignConnectionCapacityLoop
    split
    · split
      · next s' heq => exact .of_fst_eq heq (qPop_ev _ _ (by decide) (by decide))
      · next s' id heq =>
        have e0 : EvB ρ s s' := .of_fst_eq heq (qPop_ev _ _ (by decide) (by decide))
        dsimp only
        split
        · exact .trans e0 (ih _)
        · exact .trans e0 (.trans (transitionAfter_after id (tryAssignCapacity_ev s' id)) (ih _))
    · exact .refl _

theorem assignConnectionCapacity_ev (s : Streams) (inc : Nat) : EvB ρ s (s.assignConnectionCapacity inc) := by
  unfold Streams.assignConnectionCapacity
  ev_auto

theorem reserveCapacity_ev (s : Streams) (id cap : Nat) : EvB ρ s (s.reserveCapacity id cap) := by
  unfold Streams.reserveCapacity
  ev_auto

theorem prioSendData_ev (s : Streams) (id len : Nat) (eos : Bool) : EvB ρ s (s.prioSendData id len eos).1 := by
  unfold Streams.prioSendData
  ev_auto

theorem prioRecvStreamWindowUpdate_ev (s : Streams) (id inc : Nat) : EvB ρ s (s.prioRecvStreamWindowUpdate id inc).1 := by
  unfold Streams.prioRecvStreamWindowUpdate
  ev_auto

theorem recvConnectionWindowUpdate_ev (s : Streams) (inc : Nat) : EvB ρ s (s.recvConnectionWindowUpdate inc).1 := by
  unfold Streams.recvConnectionWindowUpdate
  ev_auto

theorem reclaimAllCapacity_ev (s : Streams) (id : Nat) : EvB ρ s (s.reclaimAllCapacity id) := by
  unfold Streams.reclaimAllCapacity
  ev_auto

theorem reclaimReservedCapacity_ev (s : Streams) (id : Nat) : EvB ρ s (s.reclaimReservedCapacity id) := by
  unfold Streams.reclaimReservedCapacity
  ev_auto

theorem clearQueue_ev (s : Streams) (id : Nat) : EvB ρ s (s.clearQueue id) := by
  unfold Streams.clearQueue
  ev_auto

theorem clearPendingCapacity_ev : ∀ (fuel : Nat) (s : Streams), EvB ρ s (Streams.clearPendingCapacity fuel s) := by
  intro fuel
  induction fuel with
  | zero => intro s; exact .refl _
  | succ n ih =>
    intro s
    unfold Streams.clearPendingCapacity
    split
    · next s' heq => exact .of_fst_eq heq (qPop_ev _ _ (by decide) (by decide))
    · next s' id heq =>
      have e0 : EvB ρ s s' := .of_fst_eq heq (qPop_ev _ _ (by decide) (by decide))
      exact .trans e0 (.trans (transitionAfter_after id (.refl _)) (ih _))

theorem clearPendingOpen_ev : ∀ (fuel : Nat) (s : Streams), EvB ρ s (Streams.clearPendingOpen fuel s) := by
  intro fuel
  induction fuel with
  | zero => intro s; exact .refl _
  | succ n ih =>
    intro s
    unfold Streams.clearPendingOpen
    split
    · next s' heq => exact .of_fst_eq heq .qPopOpen
    · next s' id heq =>
      have e0 : EvB ρ s s' := .of_fst_eq heq .qPopOpen
      exact .trans e0 (.trans (transitionAfter_after id (.refl _)) (ih _))

theorem clearPendingSend_ev : ∀ (fuel : Nat) (s : Streams), EvB ρ s (Streams.clearPendingSend fuel s) := by
  intro fuel
  induction fuel with
  | zero => intro s; exact .refl _
  | succ n ih =>
    intro s
    unfold Streams.clearPendingSend
    split
    · next s' heq => exact .of_fst_eq heq (qPop_ev _ _ (by decide) (by decide))
    · next s' id heq =>
      have e0 : EvB ρ s s' := .of_fst_eq heq (qPop_ev _ _ (by decide) (by decide))
      dsimp only
      refine .trans e0 (.trans (transitionAfter_after id ?_) (ih _))
      split
      · exact modStreamW_ev' _ _ _ (setReset_same _ _ _)
      · exact .refl _

/-- what follows the `match stream.pending_send.pop_front(buffer)` in `pop_frame` -/
theorem popFrame_finish {s' s2 : Streams} (id : Nat) (c : Prop) [Decidable c] (e : EvB ρ s' s2) :
    EvB ρ s' ((if c then (s2.qPush .pendingSend id).1 else s2).transitionAfter id (s'.stream id).isPendingResetExpiration) := by
  refine transitionAfter_after id (.trans e ?_)
  split
  · exact qPush_ev _ _ _ (by decide) (by decide)
  · exact .refl _

theorem popRest_same {s : Streams} {id : Nat} {x : SFrame} {rest : List SFrame} (h : (s.stream id).pendingSend = x :: rest) :
    Same (s.stream id) { s.stream id with pendingSend := rest } := by
  refine setPendingSend_same' _ _ ?_
  intro f hf _
  rw [h]; exact List.mem_cons_of_mem _ hf

set_option hygiene false in
/-- the part of `pop_frame`'s DATA arm that sends (a piece of) the frame -/
local macro "pf_data_rest" : tactic => `(tactic|
  (split
   · exact ih _ _
   · split
     · exact ih _ _
     · generalize hp : sd _ _ _ = p
       obtain ⟨st', w, bad⟩ := p
       dsimp only
       refine popFrame_finish id _ ?_
       have hsame : Same ((s'.modStream id fun st => { st with pendingSend := rest }).stream id) st' := by
         have := hsd ((s'.modStream id fun st => { st with pendingSend := rest }).stream id)
           (usizeAsU32 (min (min sz maxLen) (s'.stream id).sendFlow.available.asSize)) (s'.modStream id fun st => { st with pendingSend := rest }).prio.maxBufferSize
         rw [hp] at this; exact this
       have e1 : EvB ρ s' (s'.modStream id fun st => { st with pendingSend := rest }) := modStream_ev' _ _ _ (popRest_same hps)
       have e2 := setStream_ev (ρ := ρ) _ id st' hsame
       refine .trans e1 (.trans e2 ?_)
       ev_auto))

/-- `pop_frame` with `Stream::send_data` abstracted (see `ConnCountsPClone.lean`) -/
theorem popFrameC_ev (sd : Stream → Nat → Nat → Stream × List String × Bool) (hsd : ∀ x a b, Same x (sd x a b).1) :
    ∀ (fuel : Nat) (s : Streams) (maxLen : Nat), EvB ρ s (popFrameC sd fuel s maxLen).1 := by
  intro fuel
  induction fuel with
  | zero => intro s _; rw [popFrameC_zero]; exact .refl _
  | succ n ih =>
    intro s maxLen
    rw [popFrameC_succ]
    split
    · next s' heq => exact .of_fst_eq heq (qPop_ev _ _ (by decide) (by decide))
    · next s' id heq =>
      have e0 : EvB ρ s s' := .of_fst_eq heq (qPop_ev _ _ (by decide) (by decide))
      refine .trans e0 ?_
      dsimp only
      split
      · -- DATA
        next sz eos rest hps =>
        split
        · split
          · refine .trans ?_ (ih _ _)
            ev_auto
          · pf_data_rest
        · simp only [Bool.false_eq_true, if_false]
          pf_data_rest
      · next heos fields rest hps =>
        exact popFrame_finish id _ (modStream_ev' _ _ _ (popRest_same hps))
      · next reason rest hps =>
        exact popFrame_finish id _ (modStream_ev' _ _ _ (popRest_same hps))
      · next pk pid fields rest hps =>
        split
        · next hfind =>
          refine .trans (popFrame_finish id _ (modStream_ev' _ _ _ (popRest_same hps))) (ih _ _)
        · next pushed hfind =>
          refine popFrame_finish id _ ?_
          refine .ppAct id pk pid fields rest pushed hps ?_
          have : (s'.modStream id fun st => { st with pendingSend := rest }).store.ids = s'.store.ids := by
            unfold Streams.modStream; split
            · rfl
            · rw [panic_store]
          unfold Store.findKey? at hfind ⊢
          rw [← this]; exact hfind
      · next hps =>
        split
        · exact popFrame_finish id _ (modStreamW_ev' _ _ _ (setReset_same _ _ _))
        · exact .trans (transitionAfter_after id (.refl _)) (ih _ _)

theorem popFrame_ev (fuel : Nat) (s : Streams) (maxLen : Nat) : EvB ρ s (Streams.popFrame fuel s maxLen).1 := by
  rw [popFrameC.eq]; exact popFrameC_ev _ sendData_same fuel s maxLen

theorem popPendingOpen_ev (s : Streams) : EvB ρ s s.popPendingOpen.1 := by
  unfold Streams.popPendingOpen
  split
  · next hc =>
    have h := EvB.popOpen (ρ := ρ) (s := s) hc
    split
    · next s' id heq =>
      rw [heq] at h
      exact .trans h (modStreamW_ev' _ _ _ (notifySend_same _))
    · next s' heq => rw [heq] at h; exact h
  · exact .refl _

end H2V.Lemmas.ConnCountsP
