import H2V.Lemmas.ConnNoPanicPDsSend
/-
  C08 (no panic) — `DSum` / `Coupled` as invariants, part 4: the functions outside `UK`:
  `queue_open`, `send_headers`, `Send::handle_error` (`GK`), `Prioritize::send_data` (`GK`, given that the new total
  fits a `usize`), `send_reset` and its callers (`GKo`: under `OH`).
-/
namespace H2V.Lemmas.ConnNoPanicP
open H2V H2V.Model H2V.Model.Conn H2V.Lemmas.ConnCountsP
attribute [local irreducible] wrapSubU32 wrapSubUsize

-- ===================================================================== `GK` without hypotheses

theorem queueOpen_gk (s : Streams) (k : Nat) : GK s (s.queueOpen k) := by
  unfold Streams.queueOpen Streams.qPush
  split
  · exact .refl _
  · dsimp only
    refine GK.trans (modStream_gk' s k (fun st => st.setQueued .pendingOpen true) (fun _ => rfl) ?_ ?_) (setQ_uk _ _ _).toGK
    · exact ds_of_fields rfl rfl
    · exact fun r _ => dsr_of_fields rfl rfl r

theorem sendHeaders_gk (s : Streams) (k : Nat) (eos : Bool) (f : List Hpack.Field) : GK s (s.sendHeaders k eos f).1 := by
  unfold Streams.sendHeaders; gk_auto

theorem sendHandleError_gk (s : Streams) (k : Nat) : GK s (s.sendHandleError k) := by
  unfold Streams.sendHandleError; gk_auto

-- ===================================================================== `OH` through single-entry updates

theorem stream_modStream_dead {s : Streams} {k : Nat} (hl : ¬ Live s k) (f : Stream → Stream) (j : Nat) :
    (s.modStream k f).stream j = s.stream j := by
  have : s.store.get? k = none := by
    cases h : s.store.get? k with
    | none => rfl
    | some x => exact absurd ⟨x, h⟩ hl
  unfold Streams.modStream; rw [this, panic_stream]

/-- only entry `k` was touched -/
theorem oh_of_touch_one {s u : Streams} {k : Nat} (hne : ∀ j, j ≠ k → u.stream j = s.stream j) (hk : OHead (u.stream k))
    (ho : OH s) : OH u := by
  intro j
  by_cases hj : j = k
  · subst hj; exact hk
  · rw [hne j hj]; exact ho j

theorem clearQueue_stream_ne (s : Streams) {k j : Nat} (hj : j ≠ k) : (s.clearQueue k).stream j = s.stream j := by
  have h1 : ∀ t : Streams, t.store = (s.modStream k fun st =>
      { st with pendingSend := [], bufferedSendData := 0, requestedSendCapacity := 0 }).store → t.stream j = s.stream j := by
    intro t ht
    rw [stream_of_store_eqP ht]
    exact ConnFlowP.stream_modStream_other _ (fun _ => rfl) hj
  unfold Streams.clearQueue
  dsimp only
  split
  · split
    · exact h1 _ rfl
    · exact h1 _ rfl
  · exact h1 _ rfl

theorem ohead_of_nil {x : Stream} (h : x.pendingSend = []) : OHead x := by
  intro _; rw [h]; rfl

theorem clearQueue_oh (s : Streams) (k : Nat) (ho : OH s) : OH (s.clearQueue k) :=
  oh_of_touch_one (fun _ hj => clearQueue_stream_ne s hj) (ohead_of_nil (clearQueue_self s k).1) ho

-- ===================================================================== `send_reset`

/-- `pending_open` branch without a queued frame, and the common part of the other: front frame off, queue cleared -/
theorem dropClear_gk (s : Streams) (k : Nat) :
    GK s ((s.modStream k fun st => { st with pendingSend := st.pendingSend.drop 1 }).clearQueue k) := by
  refine GK.trans (modStream_gk' s k (fun st => { st with pendingSend := st.pendingSend.drop 1 }) (fun _ => rfl) ?_ ?_)
    (clearQueue_gk _ _)
  · intro h
    unfold DS at h ⊢
    exact ⟨Nat.le_trans (dsum_drop_le 1 _) h.1, h.2⟩
  · intro r _ h
    unfold DSr at h ⊢
    have := dsum_drop_le 1 (s.stream k).pendingSend
    show r + dsum ((s.stream k).pendingSend.drop 1) ≤ (s.stream k).bufferedSendData ∧ _
    exact ⟨by have := h.1; omega, h.2⟩

theorem dropClear_ne (s : Streams) {k j : Nat} (hj : j ≠ k) :
    ((s.modStream k fun st => { st with pendingSend := st.pendingSend.drop 1 }).clearQueue k).stream j = s.stream j := by
  rw [clearQueue_stream_ne _ hj]
  exact ConnFlowP.stream_modStream_other _ (fun _ => rfl) hj

/-- the `pending_open` branch of `send_reset`: only the front frame survives; it is no DATA frame -/
theorem keepHead_go (s : Streams) (k : Nat) (f : SFrame) (hf : dsum [f] = 0) (ho : OH s) :
    GK s (((s.modStream k fun st => { st with pendingSend := st.pendingSend.drop 1 }).clearQueue k).modStream k
      fun st => { st with pendingSend := st.pendingSend ++ [f] }) ∧
    OH (((s.modStream k fun st => { st with pendingSend := st.pendingSend.drop 1 }).clearQueue k).modStream k
      fun st => { st with pendingSend := st.pendingSend ++ [f] }) := by
  have h1 := dropClear_gk s k
  have hne := fun j (hj : j ≠ k) => dropClear_ne s hj
  have hself := clearQueue_self (s.modStream k fun st => { st with pendingSend := st.pendingSend.drop 1 }) k
  generalize ((s.modStream k fun st => { st with pendingSend := st.pendingSend.drop 1 }).clearQueue k) = t at h1 hne hself ⊢
  refine ⟨h1.trans (modStream_gk' t k (fun st => { st with pendingSend := st.pendingSend ++ [f] }) (fun _ => rfl)
    (fun _ => ?_) (fun r hr h => ?_)), ?_⟩
  · unfold DS
    show dsum ((t.stream k).pendingSend ++ [f]) ≤ (t.stream k).bufferedSendData ∧ (t.stream k).bufferedSendData < USIZE_MOD
    rw [hself.1, hself.2, List.nil_append, hf]
    exact ⟨Nat.le_refl _, by decide⟩
  · exfalso
    have := h.1
    rw [hself.2] at this; omega
  · refine oh_of_touch_one (k := k) (fun j hj => ?_) ?_ ho
    · exact (ConnFlowP.stream_modStream_other (s := t) (id := k) (k := j)
        (fun st => ({ st with pendingSend := st.pendingSend ++ [f] } : Stream)) (fun _ => rfl) hj).trans (hne j hj)
    · by_cases hl : Live t k
      · have := stream_modStream_live hl (fun st => ({ st with pendingSend := st.pendingSend ++ [f] } : Stream)) (fun _ => rfl)
        rw [this]
        intro _
        show dsum ((t.stream k).pendingSend ++ [f]).head?.toList = 0
        rw [hself.1]; exact hf
      · rw [stream_modStream_dead hl]; exact ohead_of_nil hself.1

theorem sendSendReset_go (s : Streams) (k : Nat) (r : Reason) (i : Initiator) : GKo s (s.sendSendReset k r i) := by
  refine ⟨fun ho => ?_⟩
  unfold Streams.sendSendReset
  dsimp only
  split
  · exact ⟨.refl _, ho⟩
  · have e1 : UK s (s.modStreamW k fun st => st.setReset r i) := modStreamW_uk _ _ _ (fun x => setReset_kp x r i)
    have ho1 := e1.oh ho
    generalize (s.modStreamW k fun st => st.setReset r i) = s1 at e1 ho1 ⊢
    split
    · exact ⟨e1.toGK, ho1⟩
    · have tail : ∀ t : Streams, GK s1 t ∧ OH t →
          GK s ((t.queueFrame k (.reset r)).reclaimAllCapacity k) ∧ OH ((t.queueFrame k (.reset r)).reclaimAllCapacity k) := by
        intro t ht
        have hu : UK t ((t.queueFrame k (.reset r)).reclaimAllCapacity k) :=
          (queueFrame_uk _ _ _ rfl).trans (reclaimAllCapacity_uk _ _)
        exact ⟨e1.toGK.trans (ht.1.trans hu.toGK), hu.oh ht.2⟩
      apply tail
      split
      · next hpo =>
        split
        · next f hf =>
          have hd : dsum [f] = 0 := by
            have := ho1 k hpo
            rw [hf] at this; exact this
          exact keepHead_go s1 k f hd ho1
        · refine ⟨dropClear_gk s1 k, oh_of_touch_one (k := k) (fun j hj => dropClear_ne s1 hj) ?_ ho1⟩
          exact ohead_of_nil (clearQueue_self _ k).1
      · exact ⟨clearQueue_gk _ _, clearQueue_oh _ _ ho1⟩

theorem sendRecvStreamWindowUpdate_go (s : Streams) (k sz : Nat) : GKo s (s.sendRecvStreamWindowUpdate k sz).1 := by
  unfold Streams.sendRecvStreamWindowUpdate; go_auto

theorem resetOnRecvStreamErr_go (s : Streams) (k : Nat) (res : Except PErr Unit) : GKo s (s.resetOnRecvStreamErr k res).1 := by
  unfold Streams.resetOnRecvStreamErr; go_auto

theorem actionsSendReset_go (s : Streams) (k : Nat) (r : Reason) (i : Initiator) : GKo s (s.actionsSendReset k r i).1 := by
  unfold Streams.actionsSendReset; go_auto

theorem sendApplyRemoteSettings_go (s : Streams) (a b c : Option Nat) : GKo s (s.sendApplyRemoteSettings a b c).1 := by
  unfold Streams.sendApplyRemoteSettings; go_auto

-- ===================================================================== `Prioritize::send_data`

theorem live_of_sendStreaming {s : Streams} {k : Nat} (h : (s.stream k).state.isSendStreaming = true) : Live s k := by
  unfold Streams.stream at h
  cases hx : s.store.get? k with
  | some x => exact ⟨x, hx⟩
  | none => rw [hx] at h; cases h

theorem dsr_mono {x : Stream} {r r' : Nat} (hr : r ≤ r') (h : DSr r' x) : DSr r x := ⟨by have := h.1; omega, h.2⟩

/-- **`Prioritize::send_data`**: `buffered_send_data` and the queued DATA grow by the same `len`; the sum must fit a `usize`
    (in the Rust the payload is in memory) -/
theorem prioSendData_gk (s : Streams) (k len : Nat) (eos : Bool)
    (hb : (s.stream k).bufferedSendData + len < USIZE_MOD) : GK s (s.prioSendData k len eos).1 := by
  unfold Streams.prioSendData
  split
  · exact .refl _
  · dsimp only
    split
    · exact .refl _
    · next hss =>
      have hss' : (s.stream k).state.isSendStreaming = true := by
        cases h : (s.stream k).state.isSendStreaming with
        | true => rfl
        | false => rw [h] at hss; simp at hss
      have hl : Live s k := live_of_sendStreaming hss'
      -- A: the counter goes up
      have hA0 := stream_modStream_live hl (fun st => ({ st with bufferedSendData := st.bufferedSendData + len } : Stream)) (fun _ => rfl)
      have hA1 := fun j (hj : j ≠ k) => ConnFlowP.stream_modStream_other (s := s) (id := k) (k := j)
        (fun st => ({ st with bufferedSendData := st.bufferedSendData + len } : Stream)) (fun _ => rfl) hj
      have hAl := fun j => (SameKeys.modStream s k
        (fun st => ({ st with bufferedSendData := st.bufferedSendData + len } : Stream))).live (k := j)
      have hAp : (s.modStream k fun st => { st with bufferedSendData := st.bufferedSendData + len }).prio = s.prio :=
        modStream_prio _ _ _
      generalize hs1 : (s.modStream k fun st => { st with bufferedSendData := st.bufferedSendData + len }) = s1
        at hA0 hA1 hAl hAp ⊢
      have hA : ∀ j r, DSr r (s.stream j) → DSr (r + (if j = k then len else 0)) (s1.stream j) := by
        intro j r h
        by_cases hj : j = k
        · subst hj
          rw [hA0, if_pos rfl]
          unfold DSr at h ⊢
          show r + len + dsum (s.stream j).pendingSend ≤ (s.stream j).bufferedSendData + len ∧ _
          exact ⟨by omega, hb⟩
        · rw [hA1 j hj, if_neg hj]; exact h
      -- M: capacity bookkeeping, END_STREAM
      generalize hs2 : (if (s1.stream k).requestedSendCapacity < (s1.stream k).bufferedSendData then _ else s1) = s2
      have h2 : UK s1 s2 := by rw [← hs2]; uk_auto
      generalize hs3 : (if eos = true then _ else s2) = s3
      have h3 : UK s2 s3 := by rw [← hs3]; uk_auto
      have hM := h2.trans h3
      -- Z: the frame is queued
      have hZ : ∀ t : Streams, UK (s3.modStream k fun st => { st with pendingSend := st.pendingSend ++ [.data len eos] }) t →
          GK s t := by
        intro t ht
        generalize hs4 : (s3.modStream k fun st => { st with pendingSend := st.pendingSend ++ [.data len eos] }) = s4 at ht
        have hZ1 : ∀ j r, DSr (r + (if j = k then len else 0)) (s3.stream j) → DSr r (s4.stream j) := by
          intro j r h
          rw [← hs4]
          by_cases hj : j = k
          · subst hj
            rw [if_pos rfl] at h
            by_cases hl3 : Live s3 j
            · have := stream_modStream_live hl3
                (fun st => ({ st with pendingSend := st.pendingSend ++ [.data len eos] } : Stream)) (fun _ => rfl)
              rw [this]
              unfold DSr at h ⊢
              show r + dsum ((s3.stream j).pendingSend ++ [.data len eos]) ≤ _ ∧ _
              rw [dsum_append]
              simp only [dsum]
              exact ⟨by omega, h.2⟩
            · rw [stream_modStream_dead hl3]; exact dsr_mono (Nat.le_add_right _ _) h
          · rw [if_neg hj] at h
            have := ConnFlowP.stream_modStream_other (s := s3) (id := k) (k := j)
              (fun st => ({ st with pendingSend := st.pendingSend ++ [.data len eos] } : Stream)) (fun _ => rfl) hj
            rw [this]; exact h
        have hZl : ∀ j, Live s3 j → Live s4 j := fun j h => by
          rw [← hs4]; exact (SameKeys.modStream s3 k _).live.mpr h
        have hZp : s4.prio = s3.prio := by rw [← hs4]; exact modStream_prio _ _ _
        have hall : ∀ j r, DSr r (s.stream j) → DSr r (t.stream j) ∧ (0 < r → Live s j → Live t j) := by
          intro j r h
          have a1 := hA j r h
          have a2 := (hM.kp j).ds _ a1
          have a3 := hZ1 j r a2
          refine ⟨(ht.kp j).ds r a3, fun hr hlj => ?_⟩
          have l1 : Live s1 j := (hAl j).mpr hlj
          have l3 : Live s3 j := hM.lv j _ (by omega) a1 l1
          exact ht.lv j r hr a3 (hZl j l3)
        refine ⟨.inl ?_, fun j hd => (ds_iff _).mpr (hall j 0 ((ds_iff _).mp hd)).1,
          fun j r hr _ hd => ⟨(hall j r hd).1, (hall j r hd).2 hr⟩⟩
        rw [ht.nf]
        show s4.prio.inFlightDataFrame = _
        rw [hZp, hM.nf, hAp]
      split
      · exact hZ _ (by unfold Streams.queueFrame; exact scheduleSend_uk _ _)
      · exact hZ _ (.refl _)

end H2V.Lemmas.ConnNoPanicP
