import H2V.Lemmas.ConnCountsPStreams
/-
  C05 / C18 / C19 — part 10: `Ev` for the functions of `streams.rs` that create slab entries
  (`recv_push_promise`, `Inner::send_reset`, `send_request`, `send_push_promise`) and `EvT` for
  `clear_queues` / `recv_eof`.
-/
namespace H2V.Lemmas.ConnCountsP
open H2V H2V.Model H2V.Model.Conn
variable {ρ : Bool}
attribute [local irreducible] wrapSubU32 wrapSubUsize

theorem acceptFlag_ev (s : Streams) (k : Nat) (v : Bool) : EvB ρ s (s.modStream k fun st => { st with isPendingAccept := v }) :=
  .acceptFlag k v

theorem pushClosure_ev (child : Nat) (h : HeadersIn) (s : Streams) :
    EvB ρ s ((fun (s : Streams) =>
            match s.recvRecvPushPromise child h with
            | (s, .ok) => (s, (Except.ok true : Except PErr Bool))
            | (s, .unsupported) => (s.unsup "promised request URI outside the modelled subset", .ok false)
            | (s, .err e) =>
              match s.resetOnRecvStreamErr child (.error e) with
              | (s, .ok _) => (s, .ok false)
              | (s, .error e) => (s, .error e)) s).1 := by
  dsimp only
  ev_auto

theorem recvPushPromise_ev (s : Streams) (id : Nat) (h : HeadersIn) : EvB true s (s.recvPushPromise id h).1 := by
  unfold Streams.recvPushPromise
  extract_lets promisedId parent
  split
  · exact .refl _
  · have eP : EvB true s parent.1 := by
      simp only [parent]
      ev_auto
    clear_value parent
    split
    · exact eP
    · exact eP
    · next s1 parentKey =>
      refine .trans eP ?_
      clear eP
      split
      · exact .refl _
      · split
        · next s2 e heq => exact .of_fst_eq heq (recvOpen_ev _ _ _)
        · next s2 heq => exact .of_fst_eq heq (recvOpen_ev _ _ _)
        · next s2 heq =>
          refine .trans (.of_fst_eq heq (recvOpen_ev _ _ _)) ?_
          extract_lets s3
          have e3 : EvB true s2 s3 := by simp only [s3]; ev_auto
          have hc3 : s3.counts = s2.counts := by
            simp only [s3]; split
            · rw [panic_counts]
            · rfl
          refine .trans e3 ?_
          clear_value s3
          generalize hins : Store.insert _ _ = ins
          obtain ⟨store, child⟩ := ins
          dsimp only
          have hstore : store = (s3.store.insert (Stream.new promisedId s3.actions.send.initWindowSz s3.recv.initWindowSz)).1 := by
            rw [hins]
          have e4 : EvB true s3 { s3 with store := store } := by
            rw [hstore]
            exact .insert _ (fresh_new _ _ _) (by rw [hc3]; exact recvOpen_remote heq)
          refine .trans e4 ?_
          generalize ({ s3 with store := store } : Streams) = s4
          generalize hT : Streams.transition _ _ _ = T
          have eT : EvB true s4 T.1 := by
            rw [← hT]
            exact transition_ev _ _ _ (fun s => pushClosure_ev child h s)
          clear hT
          obtain ⟨s5, res⟩ := T
          refine .trans eT ?_
          dsimp only
          split
          · exact .refl _
          · exact .refl _
          · refine .trans ?_ (modStreamW_ev' _ _ _ (notifyPush_same _))
            split
            · exact .refl _
            · exact .trans (.acceptFlag child true) (modStream_ev _ _ _ (fun _ _ => by same_tac))

-- ===================================================================== Inner::send_reset

theorem notifySend_state (x : Stream) : x.notifySend.1.state = x.state := by
  unfold Stream.notifySend
  cases h1 : x.sendTask <;> cases h2 : x.openTask <;> simp only [h1, h2]
theorem notifyRecv_state (x : Stream) : x.notifyRecv.1.state = x.state := by
  unfold Stream.notifyRecv; split <;> rfl
theorem notifyPush_state (x : Stream) : x.notifyPush.1.state = x.state := by
  unfold Stream.notifyPush; split <;> rfl

theorem setReset_notEarly (x : Stream) (r : Reason) (i : Initiator) : ¬ Early (x.setReset r i).1 := by
  have : (x.setReset r i).1.state = x.state.setReset x.id r i := by
    unfold Stream.setReset
    simp only [notifyRecv_state, notifyPush_state, notifySend_state]
  unfold Early
  rw [this]
  exact notEarly_of_closed rfl

theorem modStreamW_get?_self (s : Streams) (k : Nat) (f : Stream → Stream × List String) (hk : ∀ y, (f y).1.key = y.key)
    (x : Stream) (h : (s.modStreamW k f).store.get? k = some x) : ∃ y, s.store.get? k = some y ∧ x = (f y).1 := by
  unfold Streams.modStreamW at h
  cases hy : s.store.get? k with
  | none => simp only [hy, panic_store] at h; cases h
  | some y =>
    simp only [hy] at h
    have : ((s.setStream (f y).1).wake (f y).2).store = (s.setStream (f y).1).store := rfl
    rw [this, setStream_get?, hy] at h
    have hkk : (y.key == (f y).1.key) = true := by rw [hk]; simp
    simp only [Option.map_some, hkk, if_true, Option.some.injEq] at h
    exact ⟨y, rfl, h.symm⟩

theorem setReset_key (x : Stream) (r : Reason) (i : Initiator) : (x.setReset r i).1.key = x.key := (setReset_same x r i).key

theorem isReset_notEarly {x : Stream} (h : x.state.isReset = true) : ¬ Early x := by
  unfold Early
  unfold State.isReset at h
  intro he
  rcases he with he | he <;> simp [he] at h

/-- after `Send::send_reset` the entry is not in an unopened state any more -/
theorem sendSendReset_notEarly (s : Streams) (k : Nat) (r : Reason) (i : Initiator) (hk : k < s.store.nextKey) :
    ∀ x, (s.sendSendReset k r i).store.get? k = some x → ¬ Early x := by
  unfold Streams.sendSendReset
  dsimp only
  split
  · next hr =>
    intro x hx
    have : s.stream k = x := stream_of_get? hx
    rw [← this]; exact isReset_notEarly hr
  · generalize hs1 : (s.modStreamW k fun st => st.setReset r i) = s1
    have h1 : ∀ x, s1.store.get? k = some x → ¬ Early x := by
      intro x hx
      rw [← hs1] at hx
      obtain ⟨y, _, rfl⟩ := modStreamW_get?_self s k _ (fun y => setReset_key y r i) x hx
      exact setReset_notEarly y r i
    have hk1 : k < s1.store.nextKey := by
      have : EvB true s s1 := by rw [← hs1]; exact modStreamW_ev' _ _ _ (setReset_same _ _ _)
      exact Nat.lt_of_lt_of_le hk this.ne.nextKey
    clear hs1
    split
    · exact h1
    · refine (EvB.ne (ρ := true) ?_).ne k hk1 h1
      refine .trans ?_ (reclaimAllCapacity_ev _ _)
      refine .trans ?_ (queueFrame_ev _ _ _ rfl)
      split
      · split
        · next f hf => exact keepHead_ev s1 k f hf
        · exact .trans (modStream_ev' _ _ _ (setPendingSend_same' _ _ (fun _ h _ => List.mem_of_mem_drop h))) (clearQueue_ev _ _)
      · exact clearQueue_ev _ _

theorem canInc_mono {s s' : Streams} (h : Mono s s') (hc : s'.counts.canIncNumLocalErrorResets = true) :
    s.counts.canIncNumLocalErrorResets = true := by
  unfold Counts.canIncNumLocalErrorResets at *
  rw [h.counts.maxErr] at hc
  split
  · next m hm =>
    simp only [hm, decide_eq_true_eq] at hc ⊢
    have := h.counts.err
    omega
  · rfl

/-- `Actions::send_reset(.., Library)` on any entry: unless the error-reset quota is exhausted the
    entry is not in an unopened state afterwards -/
theorem actionsSendReset_post (s1 : Streams) (k : Nat) (reason : Reason) (hk : k < s1.store.nextKey)
    (herr : ErrOK (s1.actionsSendReset k reason .library).1) :
    ∀ x, (s1.actionsSendReset k reason .library).1.store.get? k = some x → ¬ Early x := by
  have hmono := (actionsSendReset_ev (ρ := true) s1 k reason .library).mono
  have hc : s1.counts.canIncNumLocalErrorResets = true := canInc_mono hmono herr
  have hT : (s1.actionsSendReset k reason .library).1 =
      ((((s1.modCountsA "can_inc_num_local_error_resets" Counts.incNumLocalErrorResets).sendSendReset k reason .library).enqueueResetExpiration k).modStreamW k Stream.notifyRecv).transitionAfter k (s1.stream k).isPendingResetExpiration := by
    unfold Streams.actionsSendReset Streams.transition
    have hlib : Initiator.isLibrary .library = true := rfl
    simp only [hlib, hc, if_true]
  rw [hT]
  generalize hs2 : s1.modCountsA "can_inc_num_local_error_resets" Counts.incNumLocalErrorResets = s2
  have hk2 : k < s2.store.nextKey := by
    have : EvB true s1 s2 := by rw [← hs2]; exact modCountsA_ev _ _ _ (fun _ h => cstep_incErr h)
    exact Nat.lt_of_lt_of_le hk this.ne.nextKey
  have h3 := sendSendReset_notEarly s2 k reason .library hk2
  have e3 : EvB true s2 (s2.sendSendReset k reason .library) := sendSendReset_ev _ _ _ _
  have hk3 : k < (s2.sendSendReset k reason .library).store.nextKey := Nat.lt_of_lt_of_le hk2 e3.ne.nextKey
  refine (EvB.ne (ρ := true) ?_).ne k hk3 h3
  have e12 : EvB true s1 s2 := by rw [← hs2]; exact modCountsA_ev _ _ _ (fun _ h => cstep_incErr h)
  have e4 : EvB true (s2.sendSendReset k reason .library)
      (((s2.sendSendReset k reason .library).enqueueResetExpiration k).modStreamW k Stream.notifyRecv) :=
    .trans (enqueueResetExpiration_ev _ _) (modStreamW_ev' _ _ _ (notifyRecv_same _))
  refine .trans e4 ?_
  refine transitionAfter_ev _ _ _ ?_
  intro hb
  exact ((e12.trans (e3.trans e4)).mono.resetAt k hb)

theorem innerSendReset_ev (s : Streams) (id : Nat) (reason : Reason) : EvB true s (s.innerSendReset id reason).1 := by
  unfold Streams.innerSendReset
  cases hf : s.store.findKey? id with
  | some k =>
    dsimp only
    exact actionsSendReset_ev _ _ _ _
  | none =>
    dsimp only
    generalize hs0 : (if s.counts.isLocalInit id = true then s.sendMaybeResetNextStreamId id else s.recvMaybeResetNextStreamId id) = s0
    have e0 : EvB true s s0 := by
      rw [← hs0]
      split
      · next hl => exact sendMaybeResetNextStreamId_ev _ _ hl
      · exact recvMaybeResetNextStreamId_ev _ _
    refine .trans e0 ?_
    clear hs0 e0 hf
    refine .bracket (Stream.new id 0 0) (fresh_new _ _ _) (actionsSendReset_ev _ _ _ _) ?_
    intro herr
    exact actionsSendReset_post _ _ _ (Nat.lt_succ_self _) herr

-- ===================================================================== send_request

/-- keys are handed out in increasing order (part of the invariant `ConnCountsPInv`) -/
def KeysFresh (s : Streams) : Prop := ∀ x ∈ s.store.slab, x.key < s.store.nextKey

theorem get?_nextKey_none {s : Streams} (h : KeysFresh s) : s.store.get? s.store.nextKey = none := by
  unfold Store.get?
  rw [List.find?_eq_none]
  intro x hx
  have := h x hx
  simp; omega

theorem insert_get?_new {s : Streams} (h : KeysFresh s) (st : Stream) :
    (s.store.insert st).1.get? s.store.nextKey = some { st with key := s.store.nextKey } := by
  rcases insert_get?_cases s.store st s.store.nextKey with e | ⟨_, _, e⟩
  · rw [e, get?_nextKey_none h]
    exfalso
    have := get?_nextKey_none h
    unfold Store.insert Store.get? at e
    simp only [List.find?_append, List.find?_cons, List.find?_nil] at e
    unfold Store.get? at this
    rw [this] at e
    simp at e
  · exact e

theorem sendHeaders_error_eq {s s' : Streams} {k : Nat} {eos : Bool} {f : List Hpack.Field} {e : UserError}
    (h : s.sendHeaders k eos f = (s', .error e)) : s' = s := by
  unfold Streams.sendHeaders at h
  split at h
  · cases h; rfl
  · split at h
    · cases h; rfl
    · cases h

theorem modStream_get?_self' (s : Streams) (k : Nat) (f : Stream → Stream) (hk : ∀ y, (f y).key = y.key)
    (x : Stream) (h : (s.modStream k f).store.get? k = some x) : ∃ y, s.store.get? k = some y ∧ x = f y := by
  cases hy : s.store.get? k with
  | none =>
    unfold Streams.modStream at h
    simp only [hy, panic_store] at h; cases h
  | some y =>
    rw [modStream_get?_self s k f y hy (hk y)] at h
    cases h; exact ⟨y, rfl, rfl⟩

theorem sendHeaders_ok_notEarly {s s' : Streams} {k : Nat} {eos : Bool} {f : List Hpack.Field} {u : Unit}
    (hk : k < s.store.nextKey) (h : s.sendHeaders k eos f = (s', .ok u)) :
    ∀ x, s'.store.get? k = some x → ¬ Early x := by
  unfold Streams.sendHeaders at h
  split at h
  · cases h
  · split at h
    · cases h
    · next st' u' heq =>
      dsimp only at h
      generalize hs1 : (s.modStream k fun st => { st with state := st' }) = s1 at h
      have h1 : ∀ x, s1.store.get? k = some x → ¬ Early x := by
        intro x hx
        rw [← hs1] at hx
        obtain ⟨y, _, rfl⟩ := modStream_get?_self' s k (fun st => { st with state := st' }) (fun _ => rfl) x hx
        exact fun h => sendOpen_not_early heq h
      have e1 : EvB true s s1 := by
        rw [← hs1]; exact modStream_ev' _ _ _ (setState_same _ _ (fun h => absurd h (sendOpen_not_early heq)))
      have hk1 : k < s1.store.nextKey := Nat.lt_of_lt_of_le hk e1.ne.nextKey
      clear hs1
      simp only [Prod.mk.injEq] at h
      rw [← h.1]
      refine (EvB.ne (ρ := true) ?_).ne k hk1 h1
      split
      · next hpo =>
        have hl : s1.counts.isLocalInit (s1.stream k).id = true := by
          simp only [Bool.and_eq_true] at hpo; exact hpo.1
        exact .trans (queueOpen_ev _ _ hl) (.trans (queueFrame_ev _ _ _ rfl) (notifyTask_ev _))
      · exact queueFrame_ev _ _ _ rfl

theorem sendOpenId_store (s : Streams) : s.sendOpenId.1.store = s.store := by
  unfold Streams.sendOpenId; split <;> rfl

theorem fresh_head (st : Stream) (h : Fresh st) (b : Bool) : Fresh (if b = true then { st with contentLength := .head } else st) := by
  cases b
  · exact h
  · exact ⟨h.counted, h.fl, h.send, h.idle⟩

/-- `send_request` behind its checks: the new entry, `send_headers`, the handle (or the clean-up) -/
theorem sendRequest_core_ev (s1 : Streams) (hA1 : KeysFresh s1) (id : Nat) (isHead eos : Bool) (fields : List Hpack.Field) :
    EvB true s1 (let st := Stream.new id s1.actions.send.initWindowSz s1.recv.initWindowSz
           let st := if isHead then { st with contentLength := .head } else st
           let s := if s1.store.contains id then s1.panic "assertion failed: self.ids.insert(id, index).is_none()" else s1
           let (store, k) := s.store.insert st
           let s := { s with store := store }
           match s.sendHeaders k eos fields with
           | (s, .error e) => (({ s with store := (s.store.unlink id).remove k } : Streams), (Except.error (ApiErr.user e) : Except ApiErr (Nat × Bool)))
           | (s, .ok _) =>
             let s := { s with refs := s.refs + 1 }
             let isFull := s.counts.nextSendStreamWillReachCapacity
             (s.refInc k, .ok (k, isFull))).1 := by
  extract_lets st0 st s2
  have e2 : EvB true s1 s2 := by simp only [s2]; ev_auto
  have hA2 : KeysFresh s2 := by
    have : s2.store = s1.store := by
      simp only [s2]; split
      · rw [panic_store]
      · rfl
    unfold KeysFresh; rw [this]; exact hA1
  refine .trans e2 ?_
  clear_value s2
  have hfr : Fresh st := fresh_head _ (fresh_new _ _ _) _
  clear_value st
  generalize hins : Store.insert _ _ = ins
  obtain ⟨store, k⟩ := ins
  dsimp only
  have hstore : store = (s2.store.insert st).1 := by rw [hins]
  have hkk : k = s2.store.nextKey := by
    have : (s2.store.insert st).2 = s2.store.nextKey := rfl
    rw [hins] at this; exact this
  subst hstore hkk
  clear hins
  have hnew := insert_get?_new hA2 st
  generalize hs3 : ({ s2 with store := (s2.store.insert st).1 } : Streams) = s3
  have hk3 : s2.store.nextKey < s3.store.nextKey := by rw [← hs3]; exact Nat.lt_succ_self _
  have hget3 : s3.store.get? s2.store.nextKey = some { st with key := s2.store.nextKey } := by rw [← hs3]; exact hnew
  split
  · next s4 e heq =>
    have h4 : s4 = s3 := sendHeaders_error_eq heq
    subst h4
    refine .bracket st hfr ?_ ?_
    · rw [hs3]
      refine .trans (.unlink id) ?_
      refine EvB.remove (s2.store.nextKey) (s4.recvBufferLeaked) ?_
      intro x hx
      have : x = { st with key := s2.store.nextKey } := by
        have h' : s4.store.get? s2.store.nextKey = some x := hx
        rw [hget3] at h'; cases h'; rfl
      subst this
      exact ⟨hfr.counted, fun q => by have := hfr.fl q; cases q <;> exact this⟩
    · intro _ x hx
      exfalso
      have : ((s4.store.unlink id).remove s2.store.nextKey).get? s2.store.nextKey = none := remove_get?_self _ _
      have hx' : ((s4.store.unlink id).remove s2.store.nextKey).get? s2.store.nextKey = some x := hx
      rw [this] at hx'; cases hx'
  · next s4 u heq =>
    have e4 : EvB false s3 s4 := .of_fst_eq heq (sendHeaders_ev _ _ _ _)
    have hne := sendHeaders_ok_notEarly hk3 heq
    refine .bracket st hfr ?_ ?_
    · rw [hs3]
      refine .trans e4 ?_
      ev_auto
    · intro _
      have hk4 : s2.store.nextKey < s4.store.nextKey := Nat.lt_of_lt_of_le hk3 e4.ne.nextKey
      refine (EvB.ne (ρ := true) ?_).ne _ hk4 hne
      ev_auto

theorem sendRequest_ev (s : Streams) (hA : KeysFresh s) (isHead : Bool) (fields : List Hpack.Field) (eos : Bool) (pending : Option Nat) :
    EvB true s (s.sendRequest isHead fields eos pending).1 := by
  unfold Streams.sendRequest
  split
  · exact .refl _
  · split
    · exact .refl _
    · cases pending with
      | none =>
        dsimp only
        split
        · next h => cases h
        · split
          · exact .refl _
          · split
            · next s1 e heq => exact .of_fst_eq heq (sendOpenId_ev _)
            · next s1 id heq =>
              refine .trans (.of_fst_eq heq (sendOpenId_ev _)) ?_
              have hA1 : KeysFresh s1 := by
                have : s1.store = s.store := by have := sendOpenId_store s; rw [heq] at this; exact this
                unfold KeysFresh; rw [this]; exact hA
              exact sendRequest_core_ev s1 hA1 id isHead eos fields
      | some p =>
        dsimp only
        split
        · exact .refl _
        · split
          · exact .refl _
          · split
            · next s1 e heq => exact .of_fst_eq heq (sendOpenId_ev _)
            · next s1 id heq =>
              refine .trans (.of_fst_eq heq (sendOpenId_ev _)) ?_
              have hA1 : KeysFresh s1 := by
                have : s1.store = s.store := by have := sendOpenId_store s; rw [heq] at this; exact this
                unfold KeysFresh; rw [this]; exact hA
              exact sendRequest_core_ev s1 hA1 id isHead eos fields

-- ===================================================================== send_push_promise

/-- `next_stream_id` of the send half is a locally initiated id (part of the invariant) -/
def NextLocal (s : Streams) : Prop := ∀ x, s.actions.send.nextStreamId = some x → s.counts.isLocalInit x = true

theorem sendPushPromise_error_eq {s s' : Streams} {p pk pid : Nat} {f : List Hpack.Field} {e : UserError}
    (h : s.sendPushPromise p pk pid f = (s', .error e)) : s' = s := by
  unfold Streams.sendPushPromise at h
  by_cases hp : (!s.actions.send.isPushEnabled) = true
  · simp only [hp, if_true] at h; cases h; rfl
  · simp only [hp] at h
    by_cases hq : (s.stream p).state.isSendClosed = true
    · simp only [hq, if_true] at h; cases h; rfl
    · simp only [hq] at h
      cases hc : Streams.checkHeaders f with
      | error e' => simp only [hc] at h; cases h; rfl
      | ok u => simp only [hc] at h; cases h

theorem modStream_counts' (s : Streams) (k : Nat) (f : Stream → Stream) : (s.modStream k f).counts = s.counts := by
  unfold Streams.modStream; split
  · rfl
  · rw [panic_counts]

theorem sendOpenId_ok {s s1 : Streams} {id : Nat} (h : s.sendOpenId = (s1, .ok id)) :
    s.actions.send.nextStreamId = some id ∧ s1.counts = s.counts ∧ s1.store = s.store := by
  unfold Streams.sendOpenId at h
  split at h
  · cases h
  · next x hx =>
    simp only [Prod.mk.injEq, Except.ok.injEq] at h
    rw [← h.1, ← h.2]
    exact ⟨hx, rfl, rfl⟩

theorem refSendPushPromise_ev (s : Streams) (hA : KeysFresh s) (hN : NextLocal s) (parent : Nat) (valid : Bool)
    (fields : List Hpack.Field) : EvB true s (s.refSendPushPromise parent valid fields).1 := by
  unfold Streams.refSendPushPromise Streams.sendReserveLocal
  split
  · next s1 e heq => exact .of_fst_eq heq (sendOpenId_ev _)
  · next s1 pid heq =>
    refine .trans (.of_fst_eq heq (sendOpenId_ev _)) ?_
    obtain ⟨hnext, hc1, hst1⟩ := sendOpenId_ok heq
    have hl1 : s1.counts.isLocalInit pid = true := by rw [hc1]; exact hN pid hnext
    have hA1 : KeysFresh s1 := by unfold KeysFresh; rw [hst1]; exact hA
    clear heq hA hN hnext hc1 hst1
    extract_lets s2
    have e2 : EvB true s1 s2 := by simp only [s2]; ev_auto
    have hA2 : KeysFresh s2 := by
      have : s2.store = s1.store := by
        simp only [s2]; split
        · rw [panic_store]
        · rfl
      unfold KeysFresh; rw [this]; exact hA1
    have hl2 : s2.counts.isLocalInit pid = true := by
      have : s2.counts = s1.counts := by
        simp only [s2]; split
        · rw [panic_counts]
        · rfl
      rw [this]; exact hl1
    refine .trans e2 ?_
    clear_value s2
    clear e2 hA1 hl1
    generalize hst : Stream.new pid s2.actions.send.initWindowSz s2.recv.initWindowSz = st
    have hfr : Fresh st := by rw [← hst]; exact fresh_new _ _ _
    clear hst
    generalize hins : Store.insert _ _ = ins
    obtain ⟨store, child⟩ := ins
    dsimp only
    have hstore : store = (s2.store.insert st).1 := by rw [hins]
    have hkk : child = s2.store.nextKey := by
      have : (s2.store.insert st).2 = s2.store.nextKey := rfl
      rw [hins] at this; exact this
    subst hstore hkk
    clear hins
    have hnew := insert_get?_new hA2 st
    generalize hs3 : ({ s2 with store := (s2.store.insert st).1 } : Streams) = s3
    have hk3 : s2.store.nextKey < s3.store.nextKey := by rw [← hs3]; exact Nat.lt_succ_self _
    have hget3 : s3.store.get? s2.store.nextKey = some { st with key := s2.store.nextKey } := by rw [← hs3]; exact hnew
    have hl3 : s3.counts.isLocalInit pid = true := by rw [← hs3]; exact hl2
    have hstream3 : s3.stream s2.store.nextKey = { st with key := s2.store.nextKey } := stream_of_get? hget3
    rw [hstream3]
    split
    · next e heq =>
      exfalso
      have : ({ st with key := s2.store.nextKey } : Stream).state.inner = .idle := hfr.idle
      unfold State.reserveLocal at heq
      rw [this] at heq
      cases heq
    · next st' u heq =>
      have hne' : ¬ (st'.inner = .idle ∨ st'.inner = .reservedRemote) := reserveLocal_not_early heq
      generalize hs4 : (s3.modStream s2.store.nextKey fun st => { st with state := st', isPendingPush := true }) = s4
      have e4 : EvB false s3 s4 := by
        rw [← hs4]
        refine modStream_ev _ _ _ (fun x _ => ?_)
        exact ⟨rfl, rfl, rfl, fun q => by cases q <;> rfl, fun h => absurd h hne', fun _ h _ => h⟩
      have hget4 : s4.store.get? s2.store.nextKey =
          some { ({ st with key := s2.store.nextKey } : Stream) with state := st', isPendingPush := true } := by
        rw [← hs4]
        exact modStream_get?_self s3 _ (fun st => { st with state := st', isPendingPush := true }) _ hget3 rfl
      have hne4 : ∀ x, s4.store.get? s2.store.nextKey = some x → ¬ Early x := by
        intro x hx; rw [hget4] at hx; cases hx; exact hne'
      have hk4 : s2.store.nextKey < s4.store.nextKey := Nat.lt_of_lt_of_le hk3 e4.ne.nextKey
      have hl4 : s4.counts.isLocalInit pid = true := by
        rw [← hs4, modStream_counts']; exact hl3
      clear hs4
      split
      · -- the request was not valid: the reserved entry stays (a quirk of the real code)
        refine .bracket st hfr (by rw [hs3]; exact e4) ?_
        intro _; exact hne4
      · split
        · next s5 e heq5 =>
          have h5 : s5 = s4 := sendPushPromise_error_eq heq5
          subst h5
          refine .bracket st hfr ?_ ?_
          · rw [hs3]
            refine .trans e4 (.trans (.unlink pid) ?_)
            refine EvB.remove (s2.store.nextKey) (s5.recvBufferLeaked) ?_
            intro x hx
            have h' : s5.store.get? s2.store.nextKey = some x := hx
            rw [hget4] at h'; cases h'
            exact ⟨hfr.counted, fun q => by have := hfr.fl q; cases q <;> exact this⟩
          · intro _ x hx
            exfalso
            have : ((s5.store.unlink pid).remove s2.store.nextKey).get? s2.store.nextKey = none := remove_get?_self _ _
            have hx' : ((s5.store.unlink pid).remove s2.store.nextKey).get? s2.store.nextKey = some x := hx
            rw [this] at hx'; cases hx'
        · next s5 u5 heq5 =>
          have e5 : EvB false s4 s5 := .of_fst_eq heq5 (sendPushPromise_ev _ _ _ _ _ hl4)
          have hne5 := (EvB.ne e5).ne _ hk4 hne4
          have hk5 : s2.store.nextKey < s5.store.nextKey := Nat.lt_of_lt_of_le hk4 e5.ne.nextKey
          refine .bracket st hfr ?_ ?_
          · rw [hs3]
            refine .trans e4 (.trans e5 ?_)
            ev_auto
          · intro _
            refine (EvB.ne (ρ := true) ?_).ne _ hk5 hne5
            ev_auto

-- ===================================================================== clear_queues / recv_eof (`EvT`)

theorem clearQueues_evT (s : Streams) (b : Bool) : EvT s (s.clearQueues b) := by
  unfold Streams.clearQueues
  exact .trans (recvClearQueues_evT _ _) (.ev (sendClearQueues_ev _))

theorem eofStream_ev (s : Streams) (id : Nat) :
    EvB ρ s (s.transition id fun s => ((s.recvRecvEof id).sendHandleError id, ())).1 := by
  ev_auto

theorem recvEof_evT (s : Streams) (b : Bool) : EvT s (s.recvEof b) := by
  unfold Streams.recvEof
  dsimp only
  refine .trans (.ev ?_) (clearQueues_evT _ _)
  refine .trans ?_ (storeForEach_ev _ _ (fun s id => eofStream_ev s id))
  split
  · exact setMisc_ev _ _ _ _ _ _ ⟨rfl, rfl, rfl, rfl, rfl⟩
  · exact .refl _

end H2V.Lemmas.ConnCountsP
