import H2V.Lemmas.ConnNoPanicPPushInvBackLoops
import H2V.Lemmas.ConnNoPanicPPollComplete
/-
  C08 (no panic) — PUSH_PROMISE bookkeeping, stage 2, part 4: the frame `HB` for the write path
  (`Streams::poll_complete`, `send_pending_refusal`); `pop_frame` through the clone `ConnFlowP.popFrameC`.
-/
namespace H2V.Lemmas.ConnNoPanicP
open H2V H2V.Model H2V.Model.Conn H2V.Lemmas.ConnCountsP
attribute [local irreducible] wrapSubU32 wrapSubUsize

-- ===================================================================== Stream::send_data

/-- what the frame needs of `Stream::send_data` -/
def SdHB (sd : Stream → Nat → Nat → Stream × List String × Bool) : Prop := ∀ x a b, rp (sd x a b).1 = rp x

theorem sdHB_sendData : SdHB Stream.sendData := fun x a b => rp_sendData x a b

-- ===================================================================== recv side of `buffer_pending`

theorem sendConnectionWindowUpdate_hb (s : Streams) (w : Writer) : HB s (s.sendConnectionWindowUpdate w).1 := by
  unfold Streams.sendConnectionWindowUpdate; hb_auto
theorem sendStreamWindowUpdates_hb (n : Nat) : ∀ (s : Streams) (w : Writer), HB s (Streams.sendStreamWindowUpdates n s w).1 := by
  induction n with
  | zero => intro s w; unfold Streams.sendStreamWindowUpdates; exact .refl _
  | succ n ih => intro s w; unfold Streams.sendStreamWindowUpdates; hb_auto_ih ih
theorem recvBufferPending_hb (s : Streams) (w : Writer) : HB s (s.recvBufferPending w).1 := by
  unfold Streams.recvBufferPending; hb_auto

-- ===================================================================== pop_frame

theorem popPendingOpen_hb (s : Streams) : HB s s.popPendingOpen.1 := by
  unfold Streams.popPendingOpen; hb_auto

theorem emitC_hb (sd : Stream → Nat → Nat → Stream × List String × Bool) (hsd : SdHB sd) (s : Streams) (id len : Nat)
    (rest : List SFrame) : HB s (ConnFlowP.emitC sd s id len rest) := by
  unfold ConnFlowP.emitC
  dsimp only
  generalize hs1 : (s.modStream id fun st => { st with pendingSend := rest }) = s1
  have h1 : HB s s1 := by rw [← hs1]; exact modStream_hb _ _ _ (.inl fun _ => ⟨rfl, rfl, rfl, [], (List.append_nil _).symm⟩)
  have hk := hsd (s1.stream id) len s1.prio.maxBufferSize
  generalize sd (s1.stream id) len s1.prio.maxBufferSize = p at hk ⊢
  obtain ⟨st', w, bad⟩ := p
  dsimp only at hk ⊢
  have h2 : HB s (s1.setStream st') := h1.trans (setStream_hb s1 id st' ((HBP.of_rp hk).1.trans (stream_key _ _)) (.inl (HBP.of_rp hk)))
  hb_auto

theorem finish_hb {s' t : Streams} (id : Nat) (c : Prop) [Decidable c] (b : Bool) (h : HB s' t) :
    HB s' ((if c then (t.qPush .pendingSend id).1 else t).transitionAfter id b) := by
  refine HB.trans ?_ (transitionAfter_hb _ _ _)
  split
  · exact h.trans (qPush_hb _ _ _)
  · exact h

set_option hygiene false in
local macro "hb_data_rest" : tactic => `(tactic|
  (split
   · exact ih _ _
   · split
     · exact ih _ _
     · exact finish_hb id _ _ (emitC_hb _ hsd _ _ _ _)))

theorem popFrameC_hb (sd : Stream → Nat → Nat → Stream × List String × Bool) (hsd : SdHB sd) (fuel : Nat) :
    ∀ (s : Streams) (maxLen : Nat), HB s (ConnFlowP.popFrameC sd fuel s maxLen).1 := by
  induction fuel with
  | zero => intro s m; rw [ConnFlowP.popFrameC_zero]; exact .refl _
  | succ n ih =>
    intro s maxLen
    rw [ConnFlowP.popFrameC_succ']
    split
    · next s' heq => exact .of_fst_eq heq (qPop_hb _ _)
    · next s' id heq =>
      refine HB.trans (.of_fst_eq heq (qPop_hb _ _)) ?_
      dsimp only
      split
      · split
        · split
          · refine HB.trans ?_ (ih _ _)
            hb_auto
          · hb_data_rest
        · simp only [Bool.false_eq_true, if_false]
          hb_data_rest
      · exact finish_hb id _ _ (modStream_hb _ _ _ (.inl fun _ => ⟨rfl, rfl, rfl, [], (List.append_nil _).symm⟩))
      · exact finish_hb id _ _ (modStream_hb _ _ _ (.inl fun _ => ⟨rfl, rfl, rfl, [], (List.append_nil _).symm⟩))
      · split
        · refine HB.trans ?_ (ih _ _)
          exact finish_hb id _ _ (modStream_hb _ _ _ (.inl fun _ => ⟨rfl, rfl, rfl, [], (List.append_nil _).symm⟩))
        · refine finish_hb id _ _ ?_
          hb_auto
      · split
        · exact finish_hb id _ _ (modStreamW_hb _ _ _ (.inl fun _ => HBP.of_rp (rp_setReset _ _ _)))
        · exact (transitionAfter_hb _ _ _).trans (ih _ _)

theorem popFrame_hb (fuel : Nat) (s : Streams) (maxLen : Nat) : HB s (Streams.popFrame fuel s maxLen).1 := by
  rw [ConnFlowP.popFrameC.eq]; exact popFrameC_hb _ sdHB_sendData fuel s maxLen

-- ===================================================================== buffer_pending, poll_complete

theorem reclaimFrameInner_hb (s : Streams) (fr : DataFrame) : HB s (s.reclaimFrameInner fr).1 := by
  unfold Streams.reclaimFrameInner; hb_auto
theorem reclaimFrame_hb (s : Streams) (w : Writer) : HB s (s.reclaimFrame w).1 := by
  unfold Streams.reclaimFrame; hb_auto
theorem bufferOut_hb (s : Streams) (w : Writer) (f : Streams.OutFrame) : HB s (s.bufferOut w f).1 := by
  unfold Streams.bufferOut; hb_auto
theorem prioBufferPendingLoop_hb (n : Nat) : ∀ (s : Streams) (w : Writer), HB s (Streams.prioBufferPendingLoop n s w).1 := by
  induction n with
  | zero => intro s w; unfold Streams.prioBufferPendingLoop; exact panic_hb _ _
  | succ n ih => intro s w; unfold Streams.prioBufferPendingLoop; hb_auto_ih ih
theorem prioBufferPending_hb (n : Nat) (s : Streams) (w : Writer) : HB s (Streams.prioBufferPending n s w).1 := by
  unfold Streams.prioBufferPending; hb_auto
theorem bufferPending_hb (n : Nat) (s : Streams) (w : Writer) : HB s (Streams.bufferPending n s w).1 := by
  unfold Streams.bufferPending; hb_auto
theorem pollComplete_hb (n : Nat) : ∀ (s : Streams) (w : Writer) (io : Tio) (t : String), HB s (Streams.pollComplete n s w io t).1 := by
  induction n with
  | zero => intro s w io t; unfold Streams.pollComplete; exact panic_hb _ _
  | succ n ih => intro s w io t; unfold Streams.pollComplete; hb_auto_ih ih
theorem pollSendPendingRefusal_hb (n : Nat) :
    ∀ (s : Streams) (w : Writer) (io : Tio) (t : String), HB s (Streams.pollSendPendingRefusal n s w io t).1 := by
  induction n with
  | zero => intro s w io t; unfold Streams.pollSendPendingRefusal; exact .refl _
  | succ n ih => intro s w io t; unfold Streams.pollSendPendingRefusal; hb_auto_ih ih

end H2V.Lemmas.ConnNoPanicP
