import H2V.Lemmas.ConnWakePTask
/-
  ConnWakeP, part 8 — `Store::for_each` (the loop `handle_error`, `recv_go_away` and `recv_eof` use to
  reach every stream) really visits every entry of the id map, although the closure may unlink the
  entry it is called on (`IndexMap::swap_remove`: the last entry takes its place, the index stays).
  Generic in the closure: it must keep an invariant that implies that stream ids are unique in the
  map, and it may only leave the map alone or `swap_remove` the id it was called on.
-/
namespace H2V.Lemmas.ConnWakeP
open H2V H2V.Model H2V.Model.Conn

theorem findIdx?_of_nodup {l : List (Nat × Nat)} (hnd : (l.map (·.1)).Nodup) {i : Nat} {e : Nat × Nat}
    (hi : l[i]? = some e) : l.findIdx? (·.1 == e.1) = some i := by
  induction l generalizing i with
  | nil => simp at hi
  | cons a l ih =>
    simp only [List.map_cons, List.nodup_cons] at hnd
    cases i with
    | zero =>
      simp at hi; subst hi
      simp [List.findIdx?_cons]
    | succ i =>
      simp at hi
      have hmem : e ∈ l := List.mem_of_getElem? hi
      have hne : (a.1 == e.1) = false := by
        simp
        intro h
        exact hnd.1 (h ▸ List.mem_map_of_mem hmem)
      simp [List.findIdx?_cons, hne, ih hnd.2 hi]

theorem swapRemove_at {l : List (Nat × Nat)} (hnd : (l.map (·.1)).Nodup) {i : Nat} {e : Nat × Nat}
    (hi : l[i]? = some e) {last : Nat × Nat} (hl : l.getLast? = some last) :
    Store.swapRemove l e.1 = if i + 1 = l.length then l.dropLast else l.dropLast.set i last := by
  unfold Store.swapRemove
  rw [findIdx?_of_nodup hnd hi, hl]

theorem swapRemove_length {l : List (Nat × Nat)} (hnd : (l.map (·.1)).Nodup) {i : Nat} {e : Nat × Nat}
    (hi : l[i]? = some e) : (Store.swapRemove l e.1).length + 1 = l.length := by
  have hlt : i < l.length := by
    rcases Nat.lt_or_ge i l.length with h | h
    · exact h
    · rw [List.getElem?_eq_none h] at hi; cases hi
  have hne : l ≠ [] := by intro h; subst h; simp at hlt
  obtain ⟨last, hl⟩ : ∃ last, l.getLast? = some last := ⟨l.getLast hne, List.getLast?_eq_some_getLast hne⟩
  rw [swapRemove_at hnd hi hl]
  split <;> simp <;> omega

/-- an entry behind the current index survives `swap_remove` of the current entry at an index that is
    still ahead (the last entry moves into the hole) -/
theorem swapRemove_keeps {l : List (Nat × Nat)} (hnd : (l.map (·.1)).Nodup) {i j : Nat} {e e' : Nat × Nat}
    (hi : l[i]? = some e) (hj : l[j]? = some e') (hij : i < j) :
    ∃ j', i ≤ j' ∧ (Store.swapRemove l e.1)[j']? = some e' := by
  have hjlt : j < l.length := by
    rcases Nat.lt_or_ge j l.length with h | h
    · exact h
    · rw [List.getElem?_eq_none h] at hj; cases hj
  have hne : l ≠ [] := by intro h; subst h; simp at hjlt
  obtain ⟨last, hl⟩ : ∃ last, l.getLast? = some last := ⟨l.getLast hne, List.getLast?_eq_some_getLast hne⟩
  rw [swapRemove_at hnd hi hl]
  have hlast : l[l.length - 1]? = some last := by
    rw [List.getLast?_eq_getElem?] at hl; exact hl
  rw [if_neg (by omega)]
  by_cases hjl : j + 1 = l.length
  · -- `e'` is the last entry: it moves to index `i`
    refine ⟨i, Nat.le_refl _, ?_⟩
    have : e' = last := by
      have : l[j]? = l[l.length - 1]? := by congr 1; omega
      rw [this, hlast] at hj; cases hj; rfl
    subst this
    rw [List.getElem?_set_self (by simp; omega)]
  · refine ⟨j, Nat.le_of_lt hij, ?_⟩
    rw [List.getElem?_set_ne (by omega), List.getElem?_dropLast, if_pos (by omega), hj]

/-- what the loop of `Store::for_each` guarantees: every entry of the id map is visited, also when the
    closure removes the entry it is called on (`swap_remove`: the last entry takes its place and
    the index stays) -/
theorem tryForEach_visits (f : Streams → Nat → Streams) (Inv : Streams → Prop) (P : Nat × Nat → Streams → Prop)
    (hnd : ∀ s, Inv s → (s.store.ids.map (·.1)).Nodup)
    (hvisit : ∀ s e, Inv s → e ∈ s.store.ids → P e (f s e.2))
    (hpers : ∀ s e e', Inv s → e ∈ s.store.ids → P e' s → P e' (f s e.2))
    (hinv : ∀ s e, Inv s → e ∈ s.store.ids → Inv (f s e.2))
    (hids : ∀ s e, Inv s → e ∈ s.store.ids →
      (f s e.2).store.ids = s.store.ids ∨ (f s e.2).store.ids = Store.swapRemove s.store.ids e.1)
    (L0 : List (Nat × Nat)) :
    ∀ (n i : Nat) (s : Streams), Inv s → s.store.ids.length ≤ n + i →
      (∀ e ∈ L0, P e s ∨ ∃ j, i ≤ j ∧ s.store.ids[j]? = some e) →
      Inv (Streams.tryForEach (fun s k => (f s k, none)) n i s.store.ids.length s).1 ∧
      ∀ e ∈ L0, P e (Streams.tryForEach (fun s k => (f s k, none)) n i s.store.ids.length s).1 := by
  intro n
  induction n with
  | zero =>
    intro i s hI hlen hL
    unfold Streams.tryForEach
    refine ⟨hI, fun e he => ?_⟩
    rcases hL e he with h | ⟨j, hij, hj⟩
    · exact h
    · have : j < s.store.ids.length := by
        rcases Nat.lt_or_ge j s.store.ids.length with h | h
        · exact h
        · rw [List.getElem?_eq_none h] at hj; cases hj
      omega
  | succ n ih =>
    intro i s hI hlen hL
    unfold Streams.tryForEach
    by_cases hi : i < s.store.ids.length
    · rw [if_pos hi]
      have hget : s.store.ids[i]? = some s.store.ids[i] := List.getElem?_eq_getElem hi
      rw [hget]
      simp only
      generalize hei : s.store.ids[i] = ei at hget
      have hmem : ei ∈ s.store.ids := List.mem_of_getElem? hget
      have hI' := hinv s ei hI hmem
      -- the entries of `L0` after the visit
      have hL' : ∀ j0 : Nat, (∀ (e' : Nat × Nat) (j : Nat), i < j → s.store.ids[j]? = some e' → ∃ j', j0 ≤ j' ∧ (f s ei.2).store.ids[j']? = some e') →
          ∀ e ∈ L0, P e (f s ei.2) ∨ ∃ j, j0 ≤ j ∧ (f s ei.2).store.ids[j]? = some e := by
        intro j0 hk e he
        rcases hL e he with h | ⟨j, hij, hj⟩
        · exact Or.inl (hpers s ei e hI hmem h)
        · rcases Nat.lt_or_eq_of_le hij with hlt | heq
          · exact Or.inr (hk e j hlt hj)
          · subst heq
            rw [hget] at hj; cases hj
            exact Or.inl (hvisit s ei hI hmem)
      rcases hids s ei hI hmem with hsame | hrem
      · -- nothing removed: next index
        rw [if_neg (by rw [hsame]; exact Nat.lt_irrefl _)]
        have := ih (i + 1) (f s ei.2) hI' (by rw [hsame]; omega)
          (hL' (i + 1) fun e' j hj he' => ⟨j, hj, by rw [hsame]; exact he'⟩)
        rw [hsame] at this
        exact this
      · -- the visited entry was unlinked: same index, one entry less
        have hl := swapRemove_length (hnd s hI) hget
        rw [← hrem] at hl
        rw [if_pos (by omega)]
        have := ih i (f s ei.2) hI' (by omega)
          (hL' i fun e' j hj he' => by rw [hrem]; exact swapRemove_keeps (hnd s hI) hget he' hj)
        have hl' : s.store.ids.length - 1 = (f s ei.2).store.ids.length := by omega
        rw [hl']
        exact this
    · rw [if_neg hi]
      refine ⟨hI, fun e he => ?_⟩
      rcases hL e he with h | ⟨j, hij, hj⟩
      · exact h
      · have : j < s.store.ids.length := by
          rcases Nat.lt_or_ge j s.store.ids.length with h | h
          · exact h
          · rw [List.getElem?_eq_none h] at hj; cases hj
        omega

end H2V.Lemmas.ConnWakeP
