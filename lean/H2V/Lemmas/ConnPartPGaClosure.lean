import H2V.Lemmas.ConnPartPGaRel
/-
  ConnPartP, part 2 — C15: what the per-stream closure of `Inner::recv_go_away`
      counts.transition(stream, |counts, stream| {
          actions.recv.handle_error(&err, stream);
          actions.send.handle_error(send_buffer, stream, counts); })
  does to the store, exactly:
    * the entry it is called on (`k`) is released, or ends as `Failed err a b`: state = `failState err a`
      (for a stream that was not closed: `Closed(Error(err))`, `Closed(ErrorAfterEndStream(err))` when
      the peer had already ended it), send queue empty, nothing buffered, nothing requested, nobody
      parked, all other fields (receive side, handle count, `is_pending_open`, …) as before;
    * every OTHER entry is still there and `Unt` (only the six capacity-assignment fields may differ);
    * an absent key stays absent.
-/
namespace H2V.Lemmas.ConnPartP
open H2V H2V.Model H2V.Model.Conn H2V.Lemmas.ConnWakeP

-- ===================================================================== look-ups after `modStream`

theorem get?_modStream (s : Streams) (k : Nat) (f : Stream → Stream) (hf : ∀ a, (f a).key = a.key) (k' : Nat) :
    (s.modStream k f).store.get? k' = if k' = k then (s.store.get? k).map f else s.store.get? k' := by
  by_cases hk : k' = k
  · subst hk
    rw [if_pos rfl]
    cases ha : s.store.get? k' with
    | none =>
      simp only [Option.map_none]
      unfold Streams.modStream; rw [ha]; simp only; rw [panic_store']; exact ha
    | some a => exact get?_modStream_same f ha (hf a)
  · rw [if_neg hk]; exact get?_modStream_other f hf hk

theorem get?_modStreamW (s : Streams) (k : Nat) (f : Stream → Stream × List String) (hf : ∀ a, (f a).1.key = a.key)
    (k' : Nat) :
    (s.modStreamW k f).store.get? k' = if k' = k then (s.store.get? k).map (fun a => (f a).1) else s.store.get? k' := by
  unfold Streams.modStreamW
  cases ha : s.store.get? k with
  | none =>
    simp only [Option.map_none]
    rw [panic_store']
    split
    · next h => rw [h]; exact ha
    · rfl
  | some a =>
    have hak : a.key = k := Store.get?_key ha
    simp only [Streams.setStream, Streams.wake, Store.get?_set, hf, hak, Option.map_some]
    split
    · next h => rw [h, ha]; rfl
    · rfl

-- ===================================================================== `transition_after` touches one entry

theorem decNumStreams_get? (s : Streams) (k k' : Nat) :
    (s.decNumStreams k).store.get? k' =
      if k' = k then (s.store.get? k).map (fun a => { a with isCounted := false }) else s.store.get? k' := by
  unfold Streams.decNumStreams
  simp only
  split <;> (rw [get?_modStream _ _ _ (fun _ => rfl)]; simp only [Streams.modCounts]) <;>
    (repeat' split) <;> simp only [panic_store']

/-- `b` is `a` up to the `is_counted` flag -/
def CntEq (a b : Stream) : Prop := { b with isCounted := a.isCounted } = a

theorem CntEq.refl (a : Stream) : CntEq a a := rfl

/-- `transition_after(stream k)`: other entries are not touched at all; the entry `k` is removed, or
    kept up to its `is_counted` flag -/
theorem transitionAfter_get? (s : Streams) (k : Nat) (b : Bool) :
    (∀ k', k' ≠ k → (s.transitionAfter k b).store.get? k' = s.store.get? k') ∧
    ((s.transitionAfter k b).store.get? k = none ∨
      ∃ a c, s.store.get? k = some a ∧ (s.transitionAfter k b).store.get? k = some c ∧ CntEq a c) := by
  unfold Streams.transitionAfter
  simp only
  generalize hs1 : (if (b && !(s.stream k).isPendingResetExpiration) = true then
      s.modCountsA "self.num_local_reset_streams > 0" Counts.decNumResetStreams else s) = s1
  have h1 : s1.store = s.store := by subst hs1; split; exact modCountsA_store _ _ _; rfl
  -- the middle part
  generalize hs2 : (if (s.stream k).isClosed = true then
      if (!(s.stream k).state.isScheduledReset && (s.stream k).isCounted) = true then
        (if (!(s.stream k).isPendingResetExpiration) = true then
          ({ s1 with store := s1.store.unlink (s.stream k).id } : Streams) else s1).decNumStreams k
      else if (!(s.stream k).isPendingResetExpiration) = true then
        ({ s1 with store := s1.store.unlink (s.stream k).id } : Streams) else s1
    else s1) = s2
  have h2 : ∀ k', s2.store.get? k' = s.store.get? k' ∨
      (k' = k ∧ s2.store.get? k' = (s.store.get? k).map (fun a => { a with isCounted := false })) := by
    intro k'
    subst hs2
    have hu : ∀ k', (if (!(s.stream k).isPendingResetExpiration) = true then
          ({ s1 with store := s1.store.unlink (s.stream k).id } : Streams) else s1).store.get? k' = s.store.get? k' := by
      intro k'; split
      · show (s1.store.unlink _).get? k' = _; rw [Store.get?_unlink, h1]
      · rw [h1]
    split
    · split
      · rw [decNumStreams_get?]
        split
        · next hk => right; exact ⟨hk, by rw [hu]⟩
        · left; exact hu k'
      · left; exact hu k'
    · left; rw [h1]
  -- the final part
  have h3 : ∀ t : Streams, ∀ k', (if (t.stream k).isCounted = true then t.decNumStreams k else t).store.get? k' =
      t.store.get? k' ∨ (k' = k ∧ (if (t.stream k).isCounted = true then t.decNumStreams k else t).store.get? k' =
        (t.store.get? k).map (fun a => { a with isCounted := false })) := by
    intro t k'
    split
    · rw [decNumStreams_get?]
      split
      · next hk => right; exact ⟨hk, rfl⟩
      · left; rfl
    · left; rfl
  refine ⟨fun k' hk' => ?_, ?_⟩
  · split
    · show (Store.remove _ k).get? k' = _
      rw [Store.get?_remove, if_neg hk']
      rcases h3 s2 k' with h | ⟨h, _⟩
      · rw [h]
        rcases h2 k' with h | ⟨h, _⟩
        · exact h
        · exact absurd h hk'
      · exact absurd h hk'
    · rcases h2 k' with h | ⟨h, _⟩
      · exact h
      · exact absurd h hk'
  · split
    · left
      show (Store.remove _ k).get? k = none
      rw [Store.get?_remove, if_pos rfl]
    · cases ha : s.store.get? k with
      | none =>
        left
        rcases h2 k with h | ⟨_, h⟩
        · rw [h, ha]
        · rw [h, ha]; rfl
      | some a =>
        right
        rcases h2 k with h | ⟨_, h⟩
        · exact ⟨a, a, rfl, by rw [h, ha], CntEq.refl a⟩
        · exact ⟨a, { a with isCounted := false }, rfl, by rw [h, ha]; rfl, rfl⟩

-- ===================================================================== the effect on the stream itself

/-- the state `recv_go_away` (and `handle_error`) leaves a stream in: `State::handle_error(err)` — a
    state that is already `Closed` stays what it is —, except that a stream still waiting in
    `pending_open` whose implicit reset was only scheduled becomes a plain library reset (`Send::handle_error`) -/
def failState (err : PErr) (a : Stream) : State :=
  if a.isPendingOpen then
    match (a.state.handleError err).getScheduledReset with
    | some r => (a.state.handleError err).setReset a.id r .library
    | none => a.state.handleError err
  else a.state.handleError err

/-- a stream with the fields blanked that the closure may write on its own stream -/
def maskF (x : Stream) : Stream :=
  { mask x with state := {}, recvTask := none, pushTask := none, pendingSend := [], bufferedSendData := 0,
                requestedSendCapacity := 0, isCounted := false }

theorem maskF_of_mask {a b : Stream} (h : mask b = mask a) : maskF b = maskF a := by
  unfold maskF; rw [h]

/-- the send side of the stream is empty -/
structure Cleared (b : Stream) : Prop where
  pendingSend : b.pendingSend = []
  buffered : b.bufferedSendData = 0
  requested : b.requestedSendCapacity = 0

/-- what a failed stream looks like, in terms of the entry `a` it was before -/
structure Failed (err : PErr) (a b : Stream) : Prop where
  /-- everything the closure does not write is as before (key, id, `is_pending_open`, handle count,
      receive queue, receive flow control, content-length bookkeeping, …) -/
  rest : maskF b = maskF a
  state : b.state = failState err a
  cleared : Cleared b
  /-- nobody is parked on it any more -/
  resolved : Resolved b

theorem failState_isClosed (err : PErr) (a : Stream) : (failState err a).isClosed = true := by
  unfold failState
  split
  · split
    · rfl
    · exact handleError_isClosed _ _
  · exact handleError_isClosed _ _

theorem failState_of_closed (err : PErr) (a : Stream) (hc : a.state.isClosed = true)
    (hs : a.isPendingOpen = true → a.state.getScheduledReset = none) : failState err a = a.state := by
  have h1 : a.state.handleError err = a.state := by
    have := hc
    unfold State.isClosed at this
    unfold State.handleError
    split
    · rfl
    · next h => cases hi : a.state.inner <;> simp_all
  unfold failState
  rw [h1]
  split
  · next hp => rw [hs hp]
  · rfl

section
variable {a b c : Stream}

theorem Failed.key {err : PErr} (h : Failed err a b) : b.key = a.key := congrArg Stream.key h.rest
theorem Failed.id {err : PErr} (h : Failed err a b) : b.id = a.id := congrArg Stream.id h.rest
theorem Failed.isPendingOpen {err : PErr} (h : Failed err a b) : b.isPendingOpen = a.isPendingOpen :=
  congrArg Stream.isPendingOpen h.rest
theorem Failed.refCount {err : PErr} (h : Failed err a b) : b.refCount = a.refCount := congrArg Stream.refCount h.rest
theorem Failed.pendingRecv {err : PErr} (h : Failed err a b) : b.pendingRecv = a.pendingRecv :=
  congrArg Stream.pendingRecv h.rest
theorem Failed.recvFlow {err : PErr} (h : Failed err a b) : b.recvFlow = a.recvFlow := congrArg Stream.recvFlow h.rest
theorem Failed.inFlightRecvData {err : PErr} (h : Failed err a b) : b.inFlightRecvData = a.inFlightRecvData :=
  congrArg Stream.inFlightRecvData h.rest
theorem Failed.resetAt {err : PErr} (h : Failed err a b) : b.resetAt = a.resetAt := congrArg Stream.resetAt h.rest
theorem Failed.isPendingAccept {err : PErr} (h : Failed err a b) : b.isPendingAccept = a.isPendingAccept :=
  congrArg Stream.isPendingAccept h.rest
theorem Failed.pendingPushPromises {err : PErr} (h : Failed err a b) : b.pendingPushPromises = a.pendingPushPromises :=
  congrArg Stream.pendingPushPromises h.rest
theorem Failed.window {err : PErr} (h : Failed err a b) : b.sendFlow.windowSize = a.sendFlow.windowSize :=
  congrArg (fun x => x.sendFlow.windowSize) h.rest

/-- a failed stream stays failed when freed capacity is handed out afterwards (it asks for none) -/
theorem Failed.unt {err : PErr} (h : Failed err a b) (hu : Unt b c) (hr : Resolved c) : Failed err a c :=
  ⟨(maskF_of_mask hu).trans h.rest, hu.state.trans h.state,
   ⟨hu.pendingSend.trans h.cleared.pendingSend, hu.buffered.trans h.cleared.buffered,
    hu.requested.trans h.cleared.requested⟩, hr⟩

/-- a stream that already looks failed, and is only `Unt` from `a`, is `Failed` from `a` -/
theorem Failed.of_unt {err : PErr} (hu : Unt a b) (hr : Resolved b) (hc : Cleared b)
    (hs : b.isPendingOpen = true → b.state.getScheduledReset = none) : Failed err a b := by
  refine ⟨maskF_of_mask hu, ?_, hc, hr⟩
  rw [failState_of_closed err a (by rw [← hu.state]; exact hr.1)
    (by rw [← hu.isPendingOpen, ← hu.state]; exact hs)]
  exact hu.state

theorem Failed.sched {err : PErr} (h : Failed err a b) (hp : b.isPendingOpen = true) :
    b.state.getScheduledReset = none := by
  rw [h.state]
  unfold failState
  rw [← h.isPendingOpen, if_pos hp]
  split
  · rfl
  · next hn => exact hn

/-- failing a failed stream again changes nothing -/
theorem Failed.again {err : PErr} (h1 : Failed err a b) (h2 : Failed err b c) : Failed err a c := by
  refine ⟨h2.rest.trans h1.rest, ?_, h2.cleared, h2.resolved⟩
  rw [h2.state, failState_of_closed err b h1.resolved.1 h1.sched]
  exact h1.state
end

end H2V.Lemmas.ConnPartP
