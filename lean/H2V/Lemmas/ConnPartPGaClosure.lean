import H2V.Lemmas.ConnPartPGaRel
/-
  ConnPartP, part 2 — C15: what the per-stream closure of `Inner::recv_go_away`
      counts.transition(stream, |counts, stream| {
          actions.recv.handle_error(&err, stream);
          actions.send.handle_error(send_buffer, stream, counts); })
  does to the store, exactly:
    * the entry it is called on (`k`) is released, or ends as `Failed err a b`: state = `failState err a`
      (for a stream that was not closed: `Closed(Error(err))`, `Closed(ErrorAfterEndStream(err))` when
      the peer had already ended it), send queue empty, nothing buffered, nothing requested, nobody
      parked, all other fields (receive side, handle count, `is_pending_open`, …) as before;
    * every OTHER entry is still there and `Unt` (only the six capacity-assignment fields may differ);
    * an absent key stays absent.
-/
namespace H2V.Lemmas.ConnPartP
open H2V H2V.Model H2V.Model.Conn H2V.Lemmas.ConnWakeP

-- ===================================================================== look-ups after `modStream`

theorem get?_modStream (s : Streams) (k : Nat) (f : Stream → Stream) (hf : ∀ a, (f a).key = a.key) (k' : Nat) :
    (s.modStream k f).store.get? k' = if k' = k then (s.store.get? k).map f else s.store.get? k' := by
  by_cases hk : k' = k
  · subst hk
    rw [if_pos rfl]
    cases ha : s.store.get? k' with
    | none =>
      simp only [Option.map_none]
      unfold Streams.modStream; rw [ha]; simp only; rw [panic_store']; exact ha
    | some a => exact get?_modStream_same f ha (hf a)
  · rw [if_neg hk]; exact get?_modStream_other f hf hk

theorem get?_modStreamW (s : Streams) (k : Nat) (f : Stream → Stream × List String) (hf : ∀ a, (f a).1.key = a.key)
    (k' : Nat) :
    (s.modStreamW k f).store.get? k' = if k' = k then (s.store.get? k).map (fun a => (f a).1) else s.store.get? k' := by
  unfold Streams.modStreamW
  cases ha : s.store.get? k with
  | none =>
    simp only [Option.map_none]
    rw [panic_store']
    split
    · next h => rw [h]; exact ha
    · rfl
  | some a =>
    have hak : a.key = k := Store.get?_key ha
    simp only [Streams.setStream, Streams.wake, Store.get?_set, hf, hak, Option.map_some]
    split
    · next h => rw [h, ha]; rfl
    · rfl

-- ===================================================================== `transition_after` touches one entry

theorem decNumStreams_get? (s : Streams) (k k' : Nat) :
    (s.decNumStreams k).store.get? k' =
      if k' = k then (s.store.get? k).map (fun a => { a with isCounted := false }) else s.store.get? k' := by
  have key : ∀ (t : Streams) (f : Counts → Counts), t.store = s.store →
      ((t.modCounts f).modStream k fun st => { st with isCounted := false }).store.get? k' =
        if k' = k then (s.store.get? k).map (fun a => { a with isCounted := false }) else s.store.get? k' := by
    intro t f ht
    rw [get?_modStream (t.modCounts f) k (fun st => { st with isCounted := false }) (fun _ => rfl)]
    show (if k' = k then (t.store.get? k).map _ else t.store.get? k') = _
    rw [ht]
  unfold Streams.decNumStreams
  simp only
  generalize hs1 : (if (s.stream k).isCounted = true then s else s.panic "assertion failed: stream.is_counted") = s1
  have h1 : s1.store = s.store := by subst hs1; split <;> simp only [panic_store']
  split
  · apply key; split <;> simp only [panic_store', h1]
  · apply key; split <;> simp only [panic_store', h1]

/-- `b` is `a` up to the `is_counted` flag -/
def CntEq (a b : Stream) : Prop := { b with isCounted := a.isCounted } = a

theorem CntEq.refl (a : Stream) : CntEq a a := rfl

/-- `transition_after(stream k)`: other entries are not touched at all; the entry `k` is removed, or
    kept up to its `is_counted` flag -/
theorem transitionAfter_get? (s : Streams) (k : Nat) (b : Bool) :
    (∀ k', k' ≠ k → (s.transitionAfter k b).store.get? k' = s.store.get? k') ∧
    ((s.transitionAfter k b).store.get? k = none ∨
      ∃ a c, s.store.get? k = some a ∧ (s.transitionAfter k b).store.get? k = some c ∧ CntEq a c) := by
  unfold Streams.transitionAfter
  simp only
  generalize hs1 : (if (b && !(s.stream k).isPendingResetExpiration) = true then
      s.modCountsA "self.num_local_reset_streams > 0" Counts.decNumResetStreams else s) = s1
  have h1 : s1.store = s.store := by subst hs1; split; exact modCountsA_store _ _ _; rfl
  -- the middle part
  generalize hs2 : (if (s.stream k).isClosed = true then
      if (!(s.stream k).state.isScheduledReset && (s.stream k).isCounted) = true then
        (if (!(s.stream k).isPendingResetExpiration) = true then
          ({ s1 with store := s1.store.unlink (s.stream k).id } : Streams) else s1).decNumStreams k
      else if (!(s.stream k).isPendingResetExpiration) = true then
        ({ s1 with store := s1.store.unlink (s.stream k).id } : Streams) else s1
    else s1) = s2
  have h2 : ∀ k', s2.store.get? k' = s.store.get? k' ∨
      (k' = k ∧ s2.store.get? k' = (s.store.get? k).map (fun a => { a with isCounted := false })) := by
    intro k'
    subst hs2
    have hu : ∀ k', (if (!(s.stream k).isPendingResetExpiration) = true then
          ({ s1 with store := s1.store.unlink (s.stream k).id } : Streams) else s1).store.get? k' = s.store.get? k' := by
      intro k'; split
      · show (s1.store.unlink _).get? k' = _; rw [Store.get?_unlink, h1]
      · rw [h1]
    split
    · split
      · rw [decNumStreams_get?]
        split
        · next hk => right; exact ⟨hk, by rw [hu]⟩
        · left; exact hu k'
      · left; exact hu k'
    · left; rw [h1]
  -- the final part
  have h3 : ∀ t : Streams, ∀ k', (if (t.stream k).isCounted = true then t.decNumStreams k else t).store.get? k' =
      t.store.get? k' ∨ (k' = k ∧ (if (t.stream k).isCounted = true then t.decNumStreams k else t).store.get? k' =
        (t.store.get? k).map (fun a => { a with isCounted := false })) := by
    intro t k'
    split
    · rw [decNumStreams_get?]
      split
      · next hk => right; exact ⟨hk, rfl⟩
      · left; rfl
    · left; rfl
  refine ⟨fun k' hk' => ?_, ?_⟩
  · split
    · show (Store.remove _ k).get? k' = _
      rw [Store.get?_remove, if_neg hk']
      rcases h3 s2 k' with h | ⟨h, _⟩
      · rw [h]
        rcases h2 k' with h | ⟨h, _⟩
        · exact h
        · exact absurd h hk'
      · exact absurd h hk'
    · rcases h2 k' with h | ⟨h, _⟩
      · exact h
      · exact absurd h hk'
  · split
    · left
      show (Store.remove _ k).get? k = none
      rw [Store.get?_remove, if_pos rfl]
    · cases ha : s.store.get? k with
      | none =>
        left
        rcases h2 k with h | ⟨_, h⟩
        · rw [h, ha]
        · rw [h, ha]; rfl
      | some a =>
        right
        rcases h2 k with h | ⟨_, h⟩
        · exact ⟨a, a, rfl, by rw [h, ha], CntEq.refl a⟩
        · exact ⟨a, { a with isCounted := false }, rfl, by rw [h, ha]; rfl, rfl⟩

-- ===================================================================== the effect on the stream itself

/-- the state `recv_go_away` (and `handle_error`) leaves a stream in: `State::handle_error(err)` — a
    state that is already `Closed` stays what it is —, except that a stream still waiting in
    `pending_open` whose implicit reset was only scheduled becomes a plain library reset (`Send::handle_error`) -/
def failState (err : PErr) (a : Stream) : State :=
  if a.isPendingOpen then
    match (a.state.handleError err).getScheduledReset with
    | some r => (a.state.handleError err).setReset a.id r .library
    | none => a.state.handleError err
  else a.state.handleError err

/-- a stream with the fields blanked that the closure may write on its own stream -/
def maskF (x : Stream) : Stream :=
  { mask x with state := {}, recvTask := none, pushTask := none, pendingSend := [], bufferedSendData := 0,
                requestedSendCapacity := 0, isCounted := false }

theorem maskF_of_mask {a b : Stream} (h : mask b = mask a) : maskF b = maskF a := by
  unfold maskF; rw [h]

/-- the send side of the stream is empty -/
structure Cleared (b : Stream) : Prop where
  pendingSend : b.pendingSend = []
  buffered : b.bufferedSendData = 0
  requested : b.requestedSendCapacity = 0

/-- what a failed stream looks like, in terms of the entry `a` it was before -/
structure Failed (err : PErr) (a b : Stream) : Prop where
  /-- everything the closure does not write is as before (key, id, `is_pending_open`, handle count,
      receive queue, receive flow control, content-length bookkeeping, …) -/
  rest : maskF b = maskF a
  state : b.state = failState err a
  cleared : Cleared b
  /-- nobody is parked on it any more -/
  resolved : Resolved b

theorem failState_isClosed (err : PErr) (a : Stream) : (failState err a).isClosed = true := by
  unfold failState
  split
  · split
    · rfl
    · exact handleError_isClosed _ _
  · exact handleError_isClosed _ _

theorem failState_of_closed (err : PErr) (a : Stream) (hc : a.state.isClosed = true)
    (hs : a.isPendingOpen = true → a.state.getScheduledReset = none) : failState err a = a.state := by
  have h1 : a.state.handleError err = a.state := by
    have := hc
    unfold State.isClosed at this
    unfold State.handleError
    split
    · rfl
    · next h => cases hi : a.state.inner <;> simp_all
  unfold failState
  rw [h1]
  split
  · next hp => rw [hs hp]
  · rfl

section
variable {a b c : Stream}

theorem Failed.key {err : PErr} (h : Failed err a b) : b.key = a.key :=
  have e := congrArg Stream.key h.rest; e
theorem Failed.id {err : PErr} (h : Failed err a b) : b.id = a.id :=
  have e := congrArg Stream.id h.rest; e
theorem Failed.isPendingOpen {err : PErr} (h : Failed err a b) : b.isPendingOpen = a.isPendingOpen :=
  have e := congrArg Stream.isPendingOpen h.rest; e
theorem Failed.refCount {err : PErr} (h : Failed err a b) : b.refCount = a.refCount :=
  have e := congrArg Stream.refCount h.rest; e
theorem Failed.pendingRecv {err : PErr} (h : Failed err a b) : b.pendingRecv = a.pendingRecv :=
  have e := congrArg Stream.pendingRecv h.rest; e
theorem Failed.recvFlow {err : PErr} (h : Failed err a b) : b.recvFlow = a.recvFlow :=
  have e := congrArg Stream.recvFlow h.rest; e
theorem Failed.inFlightRecvData {err : PErr} (h : Failed err a b) : b.inFlightRecvData = a.inFlightRecvData :=
  have e := congrArg Stream.inFlightRecvData h.rest; e
theorem Failed.resetAt {err : PErr} (h : Failed err a b) : b.resetAt = a.resetAt :=
  have e := congrArg Stream.resetAt h.rest; e
theorem Failed.isPendingAccept {err : PErr} (h : Failed err a b) : b.isPendingAccept = a.isPendingAccept :=
  have e := congrArg Stream.isPendingAccept h.rest; e
theorem Failed.pendingPushPromises {err : PErr} (h : Failed err a b) : b.pendingPushPromises = a.pendingPushPromises :=
  have e := congrArg Stream.pendingPushPromises h.rest; e
theorem Failed.window {err : PErr} (h : Failed err a b) : b.sendFlow.windowSize = a.sendFlow.windowSize :=
  have e := congrArg (fun x => x.sendFlow.windowSize) h.rest; e

/-- a failed stream stays failed when freed capacity is handed out afterwards (it asks for none) -/
theorem Failed.unt {err : PErr} (h : Failed err a b) (hu : Unt b c) (hr : Resolved c) : Failed err a c :=
  ⟨(maskF_of_mask hu).trans h.rest, hu.state.trans h.state,
   ⟨hu.pendingSend.trans h.cleared.pendingSend, hu.buffered.trans h.cleared.buffered,
    hu.requested.trans h.cleared.requested⟩, hr⟩

/-- a stream that already looks failed, and is only `Unt` from `a`, is `Failed` from `a` -/
theorem Failed.of_unt {err : PErr} (hu : Unt a b) (hr : Resolved b) (hc : Cleared b)
    (hs : b.isPendingOpen = true → b.state.getScheduledReset = none) : Failed err a b := by
  refine ⟨maskF_of_mask hu, ?_, hc, hr⟩
  rw [failState_of_closed err a (by rw [← hu.state]; exact hr.1)
    (by rw [← hu.isPendingOpen, ← hu.state]; exact hs)]
  exact hu.state

theorem Failed.sched {err : PErr} (h : Failed err a b) (hp : b.isPendingOpen = true) :
    b.state.getScheduledReset = none := by
  rw [h.state]
  unfold failState
  rw [← h.isPendingOpen, if_pos hp]
  split
  · rfl
  · next hn => exact hn

/-- failing a failed stream again changes nothing -/
theorem Failed.again {err : PErr} (h1 : Failed err a b) (h2 : Failed err b c) : Failed err a c := by
  refine ⟨h2.rest.trans h1.rest, ?_, h2.cleared, h2.resolved⟩
  rw [h2.state, failState_of_closed err b h1.resolved.1 h1.sched]
  exact h1.state
end

-- ===================================================================== the closure, step by step, on its own entry

theorem maskF_notifySend (x : Stream) : maskF x.notifySend.1 = maskF x := maskF_of_mask (unt_notifySend x)
theorem maskF_notifyRecv (x : Stream) : maskF x.notifyRecv.1 = maskF x := by
  cases h : x.recvTask <;> simp [Stream.notifyRecv, h, maskF, mask]
theorem maskF_notifyPush (x : Stream) : maskF x.notifyPush.1 = maskF x := by
  cases h : x.pushTask <;> simp [Stream.notifyPush, h, maskF, mask]

theorem setReset_more (x : Stream) (r : Reason) (i : Initiator) :
    maskF (x.setReset r i).1 = maskF x ∧ (x.setReset r i).1.state = x.state.setReset x.id r i ∧
    (x.setReset r i).1.pendingSend = x.pendingSend ∧ (x.setReset r i).1.bufferedSendData = x.bufferedSendData ∧
    (x.setReset r i).1.requestedSendCapacity = x.requestedSendCapacity := by
  cases h1 : x.sendTask <;> cases h2 : x.openTask <;> cases h3 : x.recvTask <;> cases h4 : x.pushTask <;>
    simp [Stream.setReset, Stream.notifySend, Stream.notifyPush, Stream.notifyRecv, h1, h2, h3, h4, maskF, mask]

/-- `Recv::handle_error(err, stream)` on its own entry -/
theorem recvHandleError_get? {t : Streams} {k : Nat} {a : Stream} (err : PErr) (ha : t.store.get? k = some a) :
    ∃ a1, (t.recvHandleError k err).store.get? k = some a1 ∧ a1.state = a.state.handleError err ∧
      a1.pendingSend = a.pendingSend ∧ maskF a1 = maskF a := by
  unfold Streams.recvHandleError
  have h1 := get?_modStream_same (fun st => { st with state := st.state.handleError err }) ha rfl
  have h2 := get?_modStreamW_same Stream.notifySend h1 (notifySend_fields _).1
  have h3 := get?_modStreamW_same Stream.notifyRecv h2 (notifyRecv_fields' _).1
  have h4 := get?_modStreamW_same Stream.notifyPush h3 (notifyPush_fields _).1
  refine ⟨_, h4, ?_, ?_, ?_⟩
  · rw [(notifyPush_fields _).2.2.1, (notifyRecv_fields' _).2.2.1, (notifySend_fields _).2.2.1]
  · rw [(notifyPush_fields _).2.2.2.2.2.2, (notifyRecv_fields' _).2.2.2.2.2.2, (notifySend_fields _).2.2.2.2.2.2.1]
  · rw [maskF_notifyPush, maskF_notifyRecv, maskF_notifySend]; rfl

theorem clearQueue_store (t : Streams) (k : Nat) :
    (t.clearQueue k).store =
      (t.modStream k fun st => { st with pendingSend := [], bufferedSendData := 0, requestedSendCapacity := 0 }).store := by
  unfold Streams.clearQueue
  simp only
  split
  · split <;> rfl
  · rfl

/-- `Send::handle_error(stream)` on its own entry: the send side is cleared; a scheduled reset of a
    stream still in `pending_open` becomes a plain library reset -/
theorem sendHandleError_get? {t : Streams} {k : Nat} {a1 : Stream} (ha : t.store.get? k = some a1) :
    ∃ a4, (t.sendHandleError k).store.get? k = some a4 ∧ Cleared a4 ∧ maskF a4 = maskF a1 ∧
      a4.state = (if a1.isPendingOpen then
                    match a1.state.getScheduledReset with
                    | some r => a1.state.setReset a1.id r .library
                    | none => a1.state
                  else a1.state) := by
  unfold Streams.sendHandleError
  -- clear_queue
  have h2 : (t.clearQueue k).store.get? k =
      some { a1 with pendingSend := [], bufferedSendData := 0, requestedSendCapacity := 0 } := by
    rw [clearQueue_store]; exact get?_modStream_same _ ha rfl
  -- reclaim_all_capacity
  obtain ⟨a3, h3, hu⟩ : ∃ a3, ((t.clearQueue k).reclaimAllCapacity k).store.get? k = some a3 ∧
      Unt { a1 with pendingSend := [], bufferedSendData := 0, requestedSendCapacity := 0 } a3 := by
    rcases (u_reclaimAllCapacity k (GStep.refl (t.clearQueue k))).keep k _ h2 with ⟨f, _⟩ | r
    · exact f.elim
    · exact r
  have hst : ((t.clearQueue k).reclaimAllCapacity k).stream k = a3 := stream_eq_of_get? h3
  have hc3 : Cleared a3 := ⟨hu.pendingSend, hu.buffered, hu.requested⟩
  have hm3 : maskF a3 = maskF a1 := (maskF_of_mask hu).trans rfl
  have hs3 : a3.state = a1.state := hu.state
  have hp3 : a3.isPendingOpen = a1.isPendingOpen := hu.isPendingOpen
  have hi3 : a3.id = a1.id := hu.id
  simp only [hst]
  rw [← hp3, ← hs3, ← hi3]
  by_cases hp : a3.isPendingOpen = true
  · cases hr : a3.state.getScheduledReset with
    | some r =>
      simp only [hp, if_true]
      obtain ⟨m1, m2, m3, m4, m5⟩ := setReset_more a3 r .library
      exact ⟨_, get?_modStreamW_same _ h3 (setReset_fields _ _ _).1, ⟨m3.trans hc3.1, m4.trans hc3.2, m5.trans hc3.3⟩,
        m1.trans hm3, m2⟩
    | none =>
      simp only [hp, if_true]
      exact ⟨a3, h3, hc3, hm3, rfl⟩
  · simp only [hp, if_false]
    exact ⟨a3, h3, hc3, hm3, rfl⟩

/-- the per-stream closure of `recv_go_away` / `handle_error` -/
def errClosure (err : PErr) (t : Streams) (k : Nat) : Streams :=
  (t.transition k fun s => ((s.recvHandleError k err).sendHandleError k, ())).1

theorem errClosure_eq (err : PErr) (t : Streams) (k : Nat) :
    errClosure err t k =
      ((t.recvHandleError k err).sendHandleError k).transitionAfter k (t.stream k).isPendingResetExpiration := by
  unfold errClosure Streams.transition; simp only

theorem errClosure_done (err : PErr) (t : Streams) (k : Nat) : Done k (errClosure err t k) :=
  (errClosure_closure err).done t k
theorem errClosure_rs (err : PErr) (t : Streams) (k : Nat) : RS t (errClosure err t k) :=
  (errClosure_closure err).rs t k

theorem CntEq.maskF {a c : Stream} (h : CntEq a c) : maskF c = maskF a := by
  unfold CntEq at h; rw [← h]; rfl

/-- the closure on its own entry: released, or `Failed` -/
theorem errClosure_self {t : Streams} {k : Nat} {a : Stream} (err : PErr) (ha : t.store.get? k = some a) :
    (errClosure err t k).store.get? k = none ∨ ∃ b, (errClosure err t k).store.get? k = some b ∧ Failed err a b := by
  obtain ⟨a1, h1, hs1, _, hm1⟩ := recvHandleError_get? err ha
  obtain ⟨a4, h4, hc4, hm4, hs4⟩ := sendHandleError_get? h1
  have hp1 : a1.isPendingOpen = a.isPendingOpen := by have e := congrArg Stream.isPendingOpen hm1; exact e
  have hi1 : a1.id = a.id := by have e := congrArg Stream.id hm1; exact e
  have hst : a4.state = failState err a := by
    rw [hs4, hp1, hs1, hi1]; rfl
  rcases errClosure_done err t k with hn | ⟨b, hb, hres⟩
  · exact Or.inl hn
  · right
    refine ⟨b, hb, ?_⟩
    rw [errClosure_eq] at hb
    rcases (transitionAfter_get? ((t.recvHandleError k err).sendHandleError k) k (t.stream k).isPendingResetExpiration).2
      with hn | ⟨x, c, hx, hc, hxc⟩
    · rw [hn] at hb; cases hb
    · rw [h4] at hx; cases hx
      rw [hc] at hb; cases hb
      have e1 : b.state = a4.state := by have e := congrArg Stream.state hxc; exact e
      have e2 : b.pendingSend = a4.pendingSend := by have e := congrArg Stream.pendingSend hxc; exact e
      have e3 : b.bufferedSendData = a4.bufferedSendData := by have e := congrArg Stream.bufferedSendData hxc; exact e
      have e4 : b.requestedSendCapacity = a4.requestedSendCapacity := by
        have e := congrArg Stream.requestedSendCapacity hxc; exact e
      have e5 : maskF b = maskF a4 := hxc.maskF
      exact ⟨e5.trans (hm4.trans hm1), e1.trans hst, ⟨e2.trans hc4.1, e3.trans hc4.2, e4.trans hc4.3⟩, hres⟩

/-- the closure on every other entry: still there, `Unt` -/
theorem errClosure_other {t : Streams} {k k' : Nat} {a' : Stream} (err : PErr) (hk : k' ≠ k)
    (ha : t.store.get? k' = some a') : ∃ b', (errClosure err t k).store.get? k' = some b' ∧ Unt a' b' := by
  have hmid : OS k t ((t.recvHandleError k err).sendHandleError k) :=
    o_sendHandleError k (o_recvHandleError k err (GStep.refl t))
  rcases hmid.keep k' a' ha with ⟨f, _⟩ | ⟨b', hb', hab⟩
  · exact f.elim
  · refine ⟨b', ?_, hab.unt (by rw [Store.get?_key ha]; exact hk)⟩
    rw [errClosure_eq, (transitionAfter_get? _ k _).1 k' hk]; exact hb'

theorem errClosure_fresh {t : Streams} {k k' : Nat} (err : PErr) (hn : t.store.get? k' = none) :
    (errClosure err t k).store.get? k' = none := (errClosure_rs err t k).fresh k' hn

end H2V.Lemmas.ConnPartP
