import H2V.Lemmas.ConnCountsPInvA
/-
  C19 / C18 — queue ↔ flag consistency.
  For each of the intrusive queues `pending_send`, `pending_capacity`, `pending_open`,
  `pending_window_updates`, `pending_reset_expired`:
    * every queued key is a live slab entry whose `is_pending_*` flag (`reset_at` for the reset
      queue) is set — no queue ever holds a stale key;
    * every live entry whose flag is set is in the queue;
    * no key is queued twice.
  (`QOK`.)  It holds along `Ev` / `EvT` as long as no `assert!`/dangling-key panic of the real code
  fires.  `pending_accept` is left out: its link field `is_pending_accept` is shared with the parent's
  `pending_push_promises` queue, which lives inside the parent stream.
-/
namespace H2V.Lemmas.ConnCountsP
open H2V H2V.Model H2V.Model.Conn
variable {ρ : Bool}

/-- `k` is a live slab entry with the link flag of queue `q` set -/
def Flagged (q : QName) (s : Streams) (k : Nat) : Prop := ∃ x, s.store.get? k = some x ∧ x.isQueued q = true

/-- queue `q` holds exactly the live flagged entries, each once -/
structure QOK (q : QName) (s : Streams) : Prop where
  mem : ∀ k, k ∈ s.getQ q ↔ Flagged q s k
  nodup : (s.getQ q).Nodup

/-- a step that leaves queue `q` and the set of `q`-flagged live entries alone -/
structure QF (q : QName) (s s' : Streams) : Prop where
  queue : s'.getQ q = s.getQ q
  fl : ∀ k, Flagged q s' k ↔ Flagged q s k

theorem QF.refl (q : QName) (s : Streams) : QF q s s := ⟨rfl, fun _ => Iff.rfl⟩
theorem QF.trans {q : QName} {a b c : Streams} (h1 : QF q a b) (h2 : QF q b c) : QF q a c :=
  ⟨h2.queue.trans h1.queue, fun k => (h2.fl k).trans (h1.fl k)⟩

theorem QF.qok {q : QName} {s s' : Streams} (h : QF q s s') (hi : QOK q s) : QOK q s' :=
  ⟨fun k => by rw [h.queue, h.fl]; exact hi.mem k, by rw [h.queue]; exact hi.nodup⟩

theorem QF.of_store_q {q : QName} {s s' : Streams} (h1 : s'.store = s.store) (h2 : s'.getQ q = s.getQ q) : QF q s s' :=
  ⟨h2, fun k => by unfold Flagged; rw [h1]⟩

theorem QF.of_frame {q : QName} {s s' : Streams} (h : Frame s s') : QF q s s' := .of_store_q h.store (h.q q)
theorem QF.panic' (q : QName) (s : Streams) (m : String) : QF q s (s.panic m) := .of_store_q (panic_store _ _) (panic_getQ _ _ _)
theorem QF.setQ (q q' : QName) (s : Streams) (l : List Nat) (h : q ≠ q') : QF q s (s.setQ q' l) :=
  .of_store_q (setQ_store _ _ _) (getQ_setQ_ne _ _ _ _ h)
theorem QF.modCounts (q : QName) (s : Streams) (f : Counts → Counts) : QF q s (s.modCounts f) := .of_store_q rfl rfl
theorem QF.modCountsA (q : QName) (s : Streams) (w : String) (f : Counts → Option Counts) : QF q s (s.modCountsA w f) := by
  unfold Streams.modCountsA; split
  · exact .of_store_q rfl rfl
  · exact QF.panic' _ _ _

theorem QF.setStream (q : QName) (s : Streams) (st' : Stream)
    (h : ∀ x, s.store.get? st'.key = some x → st'.isQueued q = x.isQueued q) : QF q s (s.setStream st') := by
  refine ⟨rfl, ?_⟩
  intro k
  unfold Flagged
  rw [setStream_get?]
  cases hx : s.store.get? k with
  | none => simp
  | some x =>
    have hk := get?_key hx
    by_cases he : x.key == st'.key
    · have : k = st'.key := by simp at he; omega
      subst this
      simp only [Option.map_some, he, if_true, Option.some.injEq, exists_eq_left', h x hx]
    · simp only [Option.map_some, he, Bool.false_eq_true, if_false]

theorem QF.modStream (q : QName) (s : Streams) (k : Nat) (f : Stream → Stream) (hk : ∀ x, (f x).key = x.key)
    (hf : ∀ x, (f x).isQueued q = x.isQueued q) : QF q s (s.modStream k f) := by
  unfold Streams.modStream
  split
  · next st hst =>
    refine QF.setStream q s _ ?_
    intro x hx
    rw [hk, get?_key hst, hst] at hx
    cases hx; exact hf st
  · exact QF.panic' _ _ _

theorem setQueued_isQueued_ne (x : Stream) (q q' : QName) (v : Bool) (h : q ≠ q') : (x.setQueued q' v).isQueued q = x.isQueued q := by
  cases q <;> cases q' <;> first | rfl | exact absurd rfl h
theorem setQueued_isQueued (x : Stream) (q : QName) (v : Bool) : (x.setQueued q v).isQueued q = v := by cases q <;> rfl

theorem QF.qPush (q q' : QName) (s : Streams) (k : Nat) (h : q ≠ q') : QF q s (s.qPush q' k).1 := by
  unfold Streams.qPush; split
  · exact QF.refl _ _
  · exact (QF.modStream q s k _ (fun x => setQueued_key x q' true) (fun x => setQueued_isQueued_ne x q q' true h)).trans (QF.setQ _ _ _ _ h)

theorem QF.qPushFront (q q' : QName) (s : Streams) (k : Nat) (h : q ≠ q') : QF q s (s.qPushFront q' k).1 := by
  unfold Streams.qPushFront; split
  · exact QF.refl _ _
  · exact (QF.modStream q s k _ (fun x => setQueued_key x q' true) (fun x => setQueued_isQueued_ne x q q' true h)).trans (QF.setQ _ _ _ _ h)

theorem QF.qPop (q q' : QName) (s : Streams) (h : q ≠ q') : QF q s (s.qPop q').1 := by
  unfold Streams.qPop; split
  · exact QF.refl _ _
  · exact (QF.setQ _ _ _ _ h).trans (QF.modStream q _ _ _ (fun x => setQueued_key x q' false) (fun x => setQueued_isQueued_ne x q q' false h))

theorem isQueued_setCounted (x : Stream) (v : Bool) (q : QName) : ({ x with isCounted := v } : Stream).isQueued q = x.isQueued q := by
  cases q <;> rfl

theorem isQueued_setPush (x : Stream) (v : Bool) (q : QName) : ({ x with isPendingPush := v } : Stream).isQueued q = x.isQueued q := by
  cases q <;> rfl

/-- goals `QF q s E` where `E` is built from `s` by `panic`, counter updates, flag-preserving `modStream`s and `if`s -/
macro "qf_auto" : tactic =>
  `(tactic| repeat (first
      | with_reducible exact QF.refl _ _
      | with_reducible refine QF.trans ?_ (QF.panic' _ _ _)
      | with_reducible refine QF.trans ?_ (QF.modStream _ _ _ _ (fun _ => rfl) (fun _ => isQueued_setCounted _ _ _))
      | with_reducible refine QF.trans ?_ (QF.modCounts _ _ _)
      | split))

theorem QF.incNumSendStreams (q : QName) (s : Streams) (k : Nat) : QF q s (s.incNumSendStreams k) := by
  unfold Streams.incNumSendStreams; dsimp only; qf_auto
theorem QF.incNumRecvStreams (q : QName) (s : Streams) (k : Nat) : QF q s (s.incNumRecvStreams k) := by
  unfold Streams.incNumRecvStreams; dsimp only; qf_auto
theorem QF.decNumStreams (q : QName) (s : Streams) (k : Nat) : QF q s (s.decNumStreams k) := by
  unfold Streams.decNumStreams; dsimp only; qf_auto

theorem QF.unlink (q : QName) (s : Streams) (id : Nat) : QF q s { s with store := s.store.unlink id } := ⟨rfl, fun _ => Iff.rfl⟩

theorem QF.insert (q : QName) (s : Streams) (st : Stream) (h : st.isQueued q = false) :
    QF q s { s with store := (s.store.insert st).1 } := by
  refine ⟨rfl, ?_⟩
  intro k
  unfold Flagged
  show (∃ x, (s.store.insert st).1.get? k = some x ∧ _) ↔ _
  rcases insert_get?_cases s.store st k with e | ⟨e1, _, e3⟩
  · rw [e]
  · rw [e1, e3]
    constructor
    · rintro ⟨x, hx, hq⟩
      cases hx
      have : ({ st with key := s.store.nextKey } : Stream).isQueued q = st.isQueued q := by cases q <;> rfl
      rw [this, h] at hq; cases hq
    · rintro ⟨x, hx, _⟩; cases hx

theorem QF.remove (q : QName) (s : Streams) (k n : Nat) (h : ∀ st, s.store.get? k = some st → st.isQueued q = false) :
    QF q s { s with store := s.store.remove k, recvBufferLeaked := n } := by
  refine ⟨rfl, ?_⟩
  intro j
  unfold Flagged
  show (∃ x, (s.store.remove k).get? j = some x ∧ _) ↔ _
  by_cases hj : j = k
  · subst hj
    rw [remove_get?_self]
    constructor
    · rintro ⟨x, hx, _⟩; cases hx
    · rintro ⟨x, hx, hq⟩; rw [h x hx] at hq; cases hq
  · rw [remove_get?_ne _ _ _ hj]

-- ===================================================================== the steps on queue `q` itself

theorem flagged_modStream_set (q : QName) (s : Streams) (k : Nat) (v : Bool) (x : Stream) (hx : s.store.get? k = some x) (j : Nat) :
    Flagged q (s.modStream k fun st => st.setQueued q v) j ↔ (if j = k then v = true else Flagged q s j) := by
  unfold Streams.modStream
  rw [hx]
  dsimp only
  unfold Flagged
  rw [setStream_get?]
  by_cases hj : j = k
  · subst hj
    have hk := get?_key hx
    simp only [hx, Option.map_some, setQueued_key, BEq.rfl, if_true, Option.some.injEq, exists_eq_left', setQueued_isQueued]
  · simp only [if_neg hj]
    cases hy : s.store.get? j with
    | none => simp
    | some y =>
      have : (y.key == (x.setQueued q v).key) = false := by
        rw [setQueued_key, get?_key hy, get?_key hx]; simpa using hj
      simp only [Option.map_some, this, Bool.false_eq_true, if_false]

theorem modStream_dangling_panics (s : Streams) (k : Nat) (f : Stream → Stream) (h : s.store.get? k = none) :
    (s.modStream k f).panicked.isSome = true := by
  unfold Streams.modStream; rw [h]; exact panic_isSome _ _

theorem getQ_modStream (s : Streams) (k : Nat) (f : Stream → Stream) (q : QName) : (s.modStream k f).getQ q = s.getQ q := by
  unfold Streams.modStream; split
  · rfl
  · exact panic_getQ _ _ _

theorem modStream_panicked_of (s : Streams) (k : Nat) (f : Stream → Stream) (h : s.panicked.isSome = true) :
    (s.modStream k f).panicked.isSome = true := by
  unfold Streams.modStream; split
  · exact h
  · exact panic_isSome _ _

theorem not_flagged_of_stream {q : QName} {s : Streams} {k : Nat} (h : ¬ (s.stream k).isQueued q = true) : ¬ Flagged q s k := by
  rintro ⟨x, hx, hq⟩
  rw [stream_of_get? hx] at h; exact h hq

theorem QOK.qPush {q : QName} {s : Streams} (k : Nat) (hi : QOK q s) (hp : (s.qPush q k).1.panicked = none) : QOK q (s.qPush q k).1 := by
  unfold Streams.qPush at hp ⊢
  split
  · exact hi
  · next hfl =>
    rw [if_neg hfl] at hp
    dsimp only at hp ⊢
    cases hx : s.store.get? k with
    | none =>
      have := modStream_dangling_panics s k (fun st => st.setQueued q true) hx
      rw [setQ_panicked] at hp; rw [hp] at this; cases this
    | some x =>
      have hnf := not_flagged_of_stream hfl
      have hnm : k ∉ s.getQ q := fun h => hnf ((hi.mem k).mp h)
      refine ⟨?_, ?_⟩
      · intro j
        rw [getQ_setQ]
        have : Flagged q ((s.modStream k fun st => st.setQueued q true).setQ q (s.getQ q ++ [k])) j ↔
            Flagged q (s.modStream k fun st => st.setQueued q true) j := by unfold Flagged; rw [setQ_store]
        rw [this, flagged_modStream_set q s k true x hx j, List.mem_append, List.mem_singleton, hi.mem j]
        by_cases hj : j = k
        · simp [hj]
        · simp [hj]
      · rw [getQ_setQ]
        exact List.nodup_append.mpr ⟨hi.nodup, (by simp), fun a ha b hb => by
          rw [List.mem_singleton] at hb; subst hb; intro he; subst he; exact hnm ha⟩

theorem QOK.qPushFront {q : QName} {s : Streams} (k : Nat) (hi : QOK q s) (hp : (s.qPushFront q k).1.panicked = none) :
    QOK q (s.qPushFront q k).1 := by
  unfold Streams.qPushFront at hp ⊢
  split
  · exact hi
  · next hfl =>
    rw [if_neg hfl] at hp
    dsimp only at hp ⊢
    cases hx : s.store.get? k with
    | none =>
      have := modStream_dangling_panics s k (fun st => st.setQueued q true) hx
      rw [setQ_panicked] at hp; rw [hp] at this; cases this
    | some x =>
      have hnf := not_flagged_of_stream hfl
      have hnm : k ∉ s.getQ q := fun h => hnf ((hi.mem k).mp h)
      refine ⟨?_, ?_⟩
      · intro j
        rw [getQ_setQ]
        have : Flagged q ((s.modStream k fun st => st.setQueued q true).setQ q (k :: s.getQ q)) j ↔
            Flagged q (s.modStream k fun st => st.setQueued q true) j := by unfold Flagged; rw [setQ_store]
        rw [this, flagged_modStream_set q s k true x hx j, List.mem_cons, hi.mem j]
        by_cases hj : j = k
        · simp [hj]
        · simp [hj]
      · rw [getQ_setQ]
        exact List.nodup_cons.mpr ⟨hnm, hi.nodup⟩

theorem QOK.qPop {q : QName} {s : Streams} (hi : QOK q s) : QOK q (s.qPop q).1 := by
  unfold Streams.qPop
  split
  · exact hi
  · next id rest heq =>
    dsimp only
    have hmem := hi.mem
    have hnd := hi.nodup
    rw [heq] at hmem hnd
    obtain ⟨x, hx, _⟩ := (hmem id).mp (List.mem_cons_self ..)
    have hx' : (s.setQ q rest).store.get? id = some x := by rw [setQ_store]; exact hx
    have hnd' := List.nodup_cons.mp hnd
    refine ⟨?_, ?_⟩
    · intro j
      rw [getQ_modStream, getQ_setQ, flagged_modStream_set q _ id false x hx' j]
      have : Flagged q (s.setQ q rest) j ↔ Flagged q s j := by unfold Flagged; rw [setQ_store]
      rw [this, ← hmem j, List.mem_cons]
      by_cases hj : j = id
      · subst hj; simp [hnd'.1]
      · simp [hj]
    · rw [getQ_modStream, getQ_setQ]; exact hnd'.2

-- ===================================================================== along `Ev`

/-- a step under which `QOK q` survives unless it panics -/
structure QStep (q : QName) (s s' : Streams) : Prop where
  mono : s.panicked.isSome = true → s'.panicked.isSome = true
  ok : s'.panicked = none → QOK q s → QOK q s'

theorem QStep.trans {q : QName} {a b c : Streams} (h1 : QStep q a b) (h2 : QStep q b c) : QStep q a c := by
  refine ⟨fun h => h2.mono (h1.mono h), ?_⟩
  intro hp hi
  have hb : b.panicked = none := by
    cases hb : b.panicked with
    | none => rfl
    | some m => have := h2.mono (by simp [hb]); rw [hp] at this; cases this
  exact h2.ok hp (h1.ok hb hi)

theorem QStep.of_qf {q : QName} {s s' : Streams} (h : QF q s s') (hm : Mono s s') : QStep q s s' :=
  ⟨hm.panic, fun _ hi => h.qok hi⟩

theorem QStep.push (q q' : QName) (s : Streams) (k : Nat) : QStep q s (s.qPush q' k).1 := by
  by_cases h : q = q'
  · subst h; exact ⟨(Mono.qPush _ _ _).panic, fun hp hi => hi.qPush k hp⟩
  · exact .of_qf (QF.qPush q q' s k h) (Mono.qPush _ _ _)

theorem QStep.pushFront (q q' : QName) (s : Streams) (k : Nat) : QStep q s (s.qPushFront q' k).1 := by
  by_cases h : q = q'
  · subst h; exact ⟨(Mono.qPushFront _ _ _).panic, fun hp hi => hi.qPushFront k hp⟩
  · exact .of_qf (QF.qPushFront q q' s k h) (Mono.qPushFront _ _ _)

theorem qPop_panic_mono (s : Streams) (q : QName) (h : s.panicked.isSome = true) : (s.qPop q).1.panicked.isSome = true := by
  unfold Streams.qPop; split
  · exact h
  · exact modStream_panicked_of _ _ _ (by rw [setQ_panicked]; exact h)

theorem QStep.pop (q q' : QName) (s : Streams) : QStep q s (s.qPop q').1 := by
  by_cases h : q = q'
  · subst h; exact ⟨qPop_panic_mono _ _, fun _ hi => hi.qPop⟩
  · exact ⟨qPop_panic_mono _ _, fun _ hi => (QF.qPop q q' s h).qok hi⟩

theorem EvB.qstep {s s' : Streams} (h : EvB ρ s s') (q : QName) (hq : q ≠ .pendingAccept) : QStep q s s' := by
  induction h with
  | refl s => exact .of_qf (QF.refl _ _) (Mono.refl _)
  | trans _ _ ih1 ih2 => exact ih1.trans ih2
  | free h => exact .of_qf (QF.of_frame h) (Mono.of_frame h)
  | setStream st' h => exact .of_qf (QF.setStream q _ st' (fun x hx => (h x hx).fl q)) (EvB.mono (ρ := true) (.setStream st' h))
  | qPush q' k _ _ => exact QStep.push _ _ _ _
  | qPushFront q' k _ _ => exact QStep.pushFront _ _ _ _
  | qPushOpen k _ => exact QStep.push _ _ _ _
  | qPop q' _ _ => exact QStep.pop _ _ _
  | qPopOpen => exact QStep.pop _ _ _
  | resetEnq k _ _ _ =>
    exact (QStep.of_qf (QF.modCountsA q _ _ _) (Mono.modCountsA _ _ _ (fun c' hc => cm_incReset hc))).trans (QStep.push _ _ _ _)
  | insert st hf _ => exact .of_qf (QF.insert q _ st (hf.fl q)) (Mono.insert _ _)
  | bracket st hf _ _ ih => exact (QStep.of_qf (QF.insert q _ st (hf.fl q)) (Mono.insert _ _)).trans ih
  | unlink id => exact .of_qf (QF.unlink q _ id) ⟨fun h => h, fun _ hj => hj, CM.refl _⟩
  | remove k n h => exact .of_qf (QF.remove q _ k n (fun st hst => (h st hst).2 q)) (Mono.remove _ k n h)
  | popOpen _ =>
    rename_i s0 _
    have := QStep.pop q .pendingOpen s0
    split
    · next s1 id heq =>
      rw [heq] at this
      exact this.trans (.of_qf (QF.incNumSendStreams q _ _) (Mono.incNumSendStreams _ _))
    · next s1 heq => rw [heq] at this; exact this
  | acceptFlag k v =>
    exact .of_qf (QF.modStream q _ k _ (fun _ => rfl) (fun _ => by cases q <;> first | rfl | exact absurd rfl hq))
      (Mono.modStream _ k _ (fun _ h => h) (fun _ => rfl))
  | queuePP k pk pid fields _ =>
    exact .of_qf (QF.modStream q _ k _ (fun _ => rfl) (fun _ => by cases q <;> rfl)) (Mono.modStream _ k _ (fun _ h => h) (fun _ => rfl))
  | ppAct id pk pid fields rest pushed _ _ =>
    rename_i s0 _ _
    refine QStep.trans (.of_qf (QF.modStream q s0 id (fun st => { st with pendingSend := rest }) (fun _ => rfl) (fun _ => by cases q <;> rfl))
      (Mono.modStream s0 id _ (fun _ h => h) (fun _ => rfl))) ?_
    generalize s0.modStream id (fun st => { st with pendingSend := rest }) = s1
    unfold ppActivate Streams.queueOpen
    dsimp only
    repeat (first
      | with_reducible exact .of_qf (QF.refl _ _) (Mono.refl _)
      | with_reducible refine QStep.trans ?_ (QStep.push _ _ _ _)
      | with_reducible refine QStep.trans ?_ (.of_qf (QF.incNumSendStreams q _ _) (Mono.incNumSendStreams _ _))
      | with_reducible refine QStep.trans ?_ (.of_qf (QF.modStream q _ _ _ (fun _ => rfl) (fun _ => isQueued_setPush _ _ _)) (Mono.modStream _ _ _ (fun _ h => h) (fun _ => rfl)))
      | split)
  | incRecv k st' s1 _ hf =>
    refine QStep.trans (QStep.trans ?_ (.of_qf (QF.of_frame hf) (Mono.of_frame hf))) (.of_qf (QF.incNumRecvStreams q _ _) (Mono.incNumRecvStreams _ _))
    exact .of_qf (QF.modStream q _ k _ (fun _ => rfl) (fun _ => by cases q <;> rfl)) (Mono.modStream _ k _ (fun _ h => h) (fun _ => rfl))
  | decNum k => exact .of_qf (QF.decNumStreams q _ _) (Mono.decNumStreams _ _)

end H2V.Lemmas.ConnCountsP
