import H2V.Lemmas.ConnCountsPCore
/-
  C05 / C18 / C19 — part 5b: slab entries descend from slab entries.
  `LD s s'` ("look-ups descend"): every entry of `s'` sits under the same key as an entry of `s` with the
  same stream id, and is not less opened than that one.  All elementary steps but the insertions
  are `LD`; `EvB.ne` concludes that an entry that has left the unopened states never returns to them.
-/
namespace H2V.Lemmas.ConnCountsP
open H2V H2V.Model H2V.Model.Conn
variable {ρ : Bool}

structure LD (s s' : Streams) : Prop where
  nextKey : s'.store.nextKey = s.store.nextKey
  desc : ∀ k x', s'.store.get? k = some x' →
    ∃ x, s.store.get? k = some x ∧ (Early x' → Early x) ∧ x'.id = x.id

theorem LD.refl (s : Streams) : LD s s := ⟨rfl, fun _ x' h => ⟨x', h, id, rfl⟩⟩

theorem LD.trans {a b c : Streams} (h1 : LD a b) (h2 : LD b c) : LD a c := by
  refine ⟨h2.nextKey.trans h1.nextKey, ?_⟩
  intro k x'' h
  obtain ⟨x', hx', e', i'⟩ := h2.desc k x'' h
  obtain ⟨x, hx, e, i⟩ := h1.desc k x' hx'
  exact ⟨x, hx, fun h => e (e' h), i'.trans i⟩

theorem LD.of_store_eq {s s' : Streams} (h : s'.store = s.store) : LD s s' :=
  ⟨by rw [h], fun k x' hx => ⟨x', by rw [← h]; exact hx, id, rfl⟩⟩

theorem LD.panic' (s : Streams) (m : String) : LD s (s.panic m) := LD.of_store_eq (panic_store _ _)
theorem LD.setQ (s : Streams) (q : QName) (l : List Nat) : LD s (s.setQ q l) := LD.of_store_eq (setQ_store _ _ _)
theorem LD.of_frame {s s' : Streams} (h : Frame s s') : LD s s' := LD.of_store_eq h.store

theorem LD.setStream (s : Streams) (st' : Stream)
    (h : ∀ x, s.store.get? st'.key = some x → (Early st' → Early x) ∧ st'.id = x.id) : LD s (s.setStream st') := by
  refine ⟨rfl, ?_⟩
  intro k x' hx'
  rw [setStream_get?] at hx'
  cases hk : s.store.get? k with
  | none => rw [hk] at hx'; cases hx'
  | some x =>
    rw [hk] at hx'
    simp only [Option.map_some, Option.some.injEq] at hx'
    by_cases hkey : x.key == st'.key
    · simp only [hkey, if_true] at hx'
      subst hx'
      have : st'.key = k := by simp at hkey; rw [← hkey]; exact get?_key hk
      rw [this] at h
      exact ⟨x, rfl, (h x hk).1, (h x hk).2⟩
    · simp only [hkey] at hx'
      subst hx'
      exact ⟨x, rfl, id, rfl⟩

theorem LD.modStream (s : Streams) (k : Nat) (f : Stream → Stream)
    (h : ∀ x, (Early (f x) → Early x) ∧ (f x).id = x.id) (hk : ∀ x, (f x).key = x.key) : LD s (s.modStream k f) := by
  unfold Streams.modStream
  split
  · next st hst =>
    refine LD.setStream s _ ?_
    intro x hx
    rw [hk, get?_key hst, hst] at hx
    cases hx; exact h st
  · exact LD.panic' _ _

theorem LD.modCounts (s : Streams) (f : Counts → Counts) : LD s (s.modCounts f) := LD.of_store_eq rfl

theorem LD.modCountsA (s : Streams) (w : String) (f : Counts → Option Counts) : LD s (s.modCountsA w f) := by
  unfold Streams.modCountsA
  split
  · exact LD.of_store_eq rfl
  · exact LD.panic' _ _

theorem setQueued_early (x : Stream) (q : QName) (v : Bool) : (Early (x.setQueued q v) → Early x) ∧ (x.setQueued q v).id = x.id := by
  cases q <;> exact ⟨id, rfl⟩

theorem LD.qPush (s : Streams) (q : QName) (k : Nat) : LD s (s.qPush q k).1 := by
  unfold Streams.qPush
  split
  · exact LD.refl _
  · exact (LD.modStream s k _ (fun x => setQueued_early x q true) (fun x => setQueued_key x q true)).trans (LD.setQ _ _ _)

theorem LD.qPushFront (s : Streams) (q : QName) (k : Nat) : LD s (s.qPushFront q k).1 := by
  unfold Streams.qPushFront
  split
  · exact LD.refl _
  · exact (LD.modStream s k _ (fun x => setQueued_early x q true) (fun x => setQueued_key x q true)).trans (LD.setQ _ _ _)

theorem LD.qPop (s : Streams) (q : QName) : LD s (s.qPop q).1 := by
  unfold Streams.qPop
  split
  · exact LD.refl _
  · exact (LD.setQ _ _ _).trans (LD.modStream _ _ _ (fun x => setQueued_early x q false) (fun x => setQueued_key x q false))

/-- goals `LD s E` where `E` is built from `s` by `panic`, counter updates, `modStream`s of uninteresting fields and `if`s -/
macro "ld_auto" : tactic =>
  `(tactic| repeat (first
      | with_reducible exact LD.refl _
      | with_reducible refine LD.trans ?_ (LD.panic' _ _)
      | with_reducible refine LD.trans ?_ (LD.modStream _ _ _ (fun _ => ⟨id, rfl⟩) (fun _ => rfl))
      | with_reducible refine LD.trans ?_ (LD.modCounts _ _)
      | with_reducible refine LD.trans ?_ (LD.qPush _ _ _)
      | split))

theorem LD.incNumSendStreams (s : Streams) (k : Nat) : LD s (s.incNumSendStreams k) := by
  unfold Streams.incNumSendStreams
  dsimp only
  ld_auto

theorem LD.incNumRecvStreams (s : Streams) (k : Nat) : LD s (s.incNumRecvStreams k) := by
  unfold Streams.incNumRecvStreams
  dsimp only
  ld_auto

theorem LD.decNumStreams (s : Streams) (k : Nat) : LD s (s.decNumStreams k) := by
  unfold Streams.decNumStreams
  dsimp only
  ld_auto

theorem LD.remove (s : Streams) (k n : Nat) : LD s { s with store := s.store.remove k, recvBufferLeaked := n } := by
  refine ⟨rfl, ?_⟩
  intro j x' hx'
  by_cases hjk : j = k
  · subst hjk
    have : ({ s with store := s.store.remove j, recvBufferLeaked := n } : Streams).store.get? j = none := remove_get?_self _ _
    rw [this] at hx'; cases hx'
  · have : ({ s with store := s.store.remove k, recvBufferLeaked := n } : Streams).store.get? j = s.store.get? j :=
      remove_get?_ne _ _ _ hjk
    rw [this] at hx'
    exact ⟨x', hx', id, rfl⟩

/-- entries that have left the unopened states stay out of them; keys are not reused -/
structure NE (s s' : Streams) : Prop where
  nextKey : s.store.nextKey ≤ s'.store.nextKey
  ne : ∀ k, k < s.store.nextKey → (∀ x, s.store.get? k = some x → ¬ Early x) → ∀ x, s'.store.get? k = some x → ¬ Early x

theorem NE.refl (s : Streams) : NE s s := ⟨Nat.le_refl _, fun _ _ h => h⟩
theorem NE.trans {a b c : Streams} (h1 : NE a b) (h2 : NE b c) : NE a c :=
  ⟨Nat.le_trans h1.nextKey h2.nextKey, fun k hk h => h2.ne k (Nat.lt_of_lt_of_le hk h1.nextKey) (h1.ne k hk h)⟩
theorem NE.of_ld {s s' : Streams} (h : LD s s') : NE s s' := by
  refine ⟨Nat.le_of_eq h.nextKey.symm, ?_⟩
  intro k _ hne x' hx'
  obtain ⟨x, hx, e, _⟩ := h.desc k x' hx'
  exact fun he => hne x hx (e he)

theorem NE.insert (s : Streams) (st : Stream) : NE s { s with store := (s.store.insert st).1 } := by
  refine ⟨Nat.le_succ _, ?_⟩
  intro k hk hne x hx
  rcases insert_get?_cases s.store st k with h | ⟨_, hkk, _⟩
  · have : ({ s with store := (s.store.insert st).1 } : Streams).store.get? k = s.store.get? k := h
    rw [this] at hx; exact hne x hx
  · omega

theorem EvB.ne {s s' : Streams} (h : EvB ρ s s') : NE s s' := by
  induction h with
  | refl s => exact NE.refl s
  | trans _ _ ih1 ih2 => exact ih1.trans ih2
  | free h => exact NE.of_ld (LD.of_frame h)
  | setStream st' h => exact NE.of_ld (LD.setStream _ _ (fun x hx => ⟨(h x hx).early, (h x hx).id⟩))
  | qPush q k _ _ => exact NE.of_ld (LD.qPush _ _ _)
  | qPushFront q k _ _ => exact NE.of_ld (LD.qPushFront _ _ _)
  | qPushOpen k _ => exact NE.of_ld (LD.qPush _ _ _)
  | qPop q _ _ => exact NE.of_ld (LD.qPop _ _)
  | qPopOpen => exact NE.of_ld (LD.qPop _ _)
  | resetEnq k _ _ _ => exact NE.of_ld ((LD.modCountsA _ _ _).trans (LD.qPush _ _ _))
  | insert st _ _ => exact NE.insert _ _
  | bracket st _ _ _ ih => exact (NE.insert _ _).trans ih
  | unlink _ => exact NE.of_ld (LD.of_store_eq rfl) |>.trans (NE.refl _) |> fun h => ⟨h.nextKey, h.ne⟩
  | remove k n _ => exact NE.of_ld (LD.remove _ k n)
  | popOpen _ =>
    rename_i s0 _
    have := LD.qPop s0 QName.pendingOpen
    split
    · next s1 id heq => rw [heq] at this; exact NE.of_ld (this.trans (LD.incNumSendStreams _ _))
    · next s1 heq => rw [heq] at this; exact NE.of_ld this
  | acceptFlag k v => exact NE.of_ld (LD.modStream _ k _ (fun _ => ⟨id, rfl⟩) (fun _ => rfl))
  | queuePP k pk pid fields _ => exact NE.of_ld (LD.modStream _ k _ (fun _ => ⟨id, rfl⟩) (fun _ => rfl))
  | ppAct sid pk pid fields rest pushed _ _ =>
    rename_i s0 _ _
    refine NE.of_ld (LD.trans (LD.modStream s0 sid (fun st => { st with pendingSend := rest }) (fun _ => ⟨id, rfl⟩) (fun _ => rfl)) ?_)
    generalize s0.modStream sid (fun st => { st with pendingSend := rest }) = s1
    unfold ppActivate Streams.queueOpen
    dsimp only
    repeat (first
      | with_reducible exact LD.refl _
      | with_reducible refine LD.trans ?_ (LD.qPush _ _ _)
      | with_reducible refine LD.trans ?_ (LD.incNumSendStreams _ _)
      | with_reducible refine LD.trans ?_ (LD.modStream _ _ _ (fun _ => ⟨id, rfl⟩) (fun _ => rfl))
      | split)
  | incRecv k st' s1 he hf =>
    rename_i s0
    refine NE.of_ld (LD.trans (LD.trans ?_ (LD.of_frame hf)) (LD.incNumRecvStreams _ _))
    unfold Streams.modStream
    split
    · next st hst =>
      refine LD.setStream _ _ ?_
      intro x hx
      have : x = st := by
        have hk : ({ st with state := st' } : Stream).key = k := (get?_key hst : st.key = k)
        rw [hk, hst] at hx; cases hx; rfl
      subst this
      refine ⟨fun _ => ?_, rfl⟩
      rw [stream_of_get? hst] at he; exact he
    · exact LD.panic' _ _
  | decNum k => exact NE.of_ld (LD.decNumStreams _ _)

end H2V.Lemmas.ConnCountsP
