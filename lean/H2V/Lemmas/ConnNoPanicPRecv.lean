import H2V.Lemmas.ConnNoPanicPSend
/-
  C08 (no panic) — part 4: `LT` for the functions of recv.rs that work on one stream / on the
  connection-level receive state.  Where a function contains an `assert!` that its own code guards
  (`consume_connection_window`, `recv_data`, `recv_reset`, `enqueue_reset_expiration`,
  `inc_num_recv_streams` after the F31 repair) the guard is used here; asserts that depend on the caller
  appear as hypotheses (`recv_open`: no refusal pending; `recv_data`: frame length; `go_away`).
-/
namespace H2V.Lemmas.ConnNoPanicP
open H2V H2V.Model H2V.Model.Conn H2V.Lemmas.ConnCountsP
attribute [local irreducible] wrapSubU32 wrapSubUsize

theorem releaseConnectionCapacity_lt (s : Streams) (c : Nat) (b : Bool) : LT [] s (s.releaseConnectionCapacity c b) := by
  unfold Streams.releaseConnectionCapacity; lt_auto

theorem releaseCapacity_lt (s : Streams) (k c : Nat) (b : Bool) : LT [k] s (s.releaseCapacity k c b).1 := by
  unfold Streams.releaseCapacity; lt_auto

theorem clearRecvBufferLoop_err (n : Nat) (l : List REvent) (acc : Nat) (c : Counts) :
    (Streams.clearRecvBufferLoop n l acc c).2.numLocalErrorResetStreams = c.numLocalErrorResetStreams ∧
    (Streams.clearRecvBufferLoop n l acc c).2.maxLocalErrorResetStreams = c.maxLocalErrorResetStreams := by
  induction l generalizing acc c with
  | nil => exact ⟨rfl, rfl⟩
  | cons e l ih =>
    cases e <;> unfold Streams.clearRecvBufferLoop <;> try exact ih _ _
    next payload budgeted =>
      dsimp only
      refine ⟨(ih _ _).1.trans ?_, (ih _ _).2.trans ?_⟩
      · split
        · unfold Counts.releaseDataFrame; dsimp only; split <;> rfl
        · rfl
      · split
        · unfold Counts.releaseDataFrame; dsimp only; split <;> rfl
        · rfl

theorem clearRecvBuffer_lt (s : Streams) (k : Nat) (b : Bool) : LT [k] s (s.clearRecvBuffer k b) := by
  unfold Streams.clearRecvBuffer
  dsimp only
  have h0 : LT [k] s { s with counts := (Streams.clearRecvBufferLoop (s.stream k).inFlightRecvData (s.stream k).pendingRecv 0 s.counts).2 } :=
    setCounts_lt _ _ (clearRecvBufferLoop_err _ _ _ _)
  split
  · lt_auto
  · lt_auto

theorem releaseClosedCapacity_lt (s : Streams) (k : Nat) : LT [k] s (s.releaseClosedCapacity k) := by
  unfold Streams.releaseClosedCapacity; lt_auto

theorem u32AsI32_le (n : Nat) : u32AsI32 n ≤ (n : Int) := by
  unfold u32AsI32 U32_MOD; dsimp only; split <;> omega

/-- `FlowControl::send_data` after the caller's `window_size() < sz` check: the `assert!` is dead -/
theorem sendData_no_assert' (f : FlowControl) (sz : Nat) (h : ¬ f.windowSz < sz) :
    (f.sendData sz).2 ≠ .error .assertFailed := by
  unfold FlowControl.sendData
  split
  · split
    · next hlt =>
      exfalso
      have := u32AsI32_le sz
      unfold FlowControl.windowSz Window.asSize at h
      split at h <;> omega
    · unfold Window.decreaseBy
      dsimp only
      cases checkedSub f.windowSize.val (u32AsI32 sz) with
      | none => simp
      | some v =>
        dsimp only
        cases checkedSub f.available.val (u32AsI32 sz) <;> simp
  · simp

theorem sendData_no_assert (f : FlowControl) (sz : Nat) (h : ¬ f.windowSz < sz) :
    ∀ fl, f.sendData sz ≠ (fl, .error .assertFailed) := by
  intro fl he
  exact sendData_no_assert' f sz h (by rw [he])

theorem consumeConnectionWindow_lt (s : Streams) (sz : Nat) : LT [] s (s.consumeConnectionWindow sz).1 := by
  unfold Streams.consumeConnectionWindow
  split
  · exact .refl _ _
  · next hw =>
    split
    · lt_auto
    · next heq => exact absurd heq (sendData_no_assert _ _ hw _)
    · lt_auto

theorem ignoreData_lt (s : Streams) (sz : Nat) : LT [] s (s.ignoreData sz).1 := by
  unfold Streams.ignoreData; lt_auto

theorem recvOpen_lt (s : Streams) (id : Nat) (b : Bool) (h : s.recv.refused = none) : LT [] s (s.recvOpen id b).1 := by
  unfold Streams.recvOpen
  simp only [h, Option.isSome_none, Bool.false_eq_true, if_false]
  lt_auto

theorem incNumRecvStreams_lt (s : Streams) (k : Nat) (h1 : s.counts.canIncNumRecvStreams = true)
    (h2 : (s.stream k).isCounted = false) : LT [k] s (s.incNumRecvStreams k) := by
  unfold Streams.incNumRecvStreams
  simp only [h1, h2, if_true, Bool.false_eq_true, if_false]
  lt_auto

theorem incNumSendStreams_lt (s : Streams) (k : Nat) (h1 : s.counts.canIncNumSendStreams = true)
    (h2 : (s.stream k).isCounted = false) : LT [k] s (s.incNumSendStreams k) := by
  unfold Streams.incNumSendStreams
  simp only [h1, h2, if_true, Bool.false_eq_true, if_false]
  lt_auto

theorem notifyPushIfRecvEnded_lt (s : Streams) (k : Nat) : LT [k] s (s.notifyPushIfRecvEnded k) := by
  unfold Streams.notifyPushIfRecvEnded; lt_auto

theorem recvRecvTrailers_lt (s : Streams) (k : Nat) (h : HeadersIn) : LT [k] s (s.recvRecvTrailers k h).1 := by
  unfold Streams.recvRecvTrailers; lt_auto

theorem recvRecvPushPromise_lt (s : Streams) (k : Nat) (h : HeadersIn) : LT [k] s (s.recvRecvPushPromise k h).1 := by
  unfold Streams.recvRecvPushPromise; lt_auto

theorem recvHandleError_lt (s : Streams) (k : Nat) (e : PErr) : LT [k] s (s.recvHandleError k e) := by
  unfold Streams.recvHandleError; lt_auto

theorem recvGoAway_lt (s : Streams) (l : Nat) (h : s.recv.maxStreamId ≥ l) : LT [] s (s.recvGoAway l) := by
  unfold Streams.recvGoAway
  simp only [h, if_true]
  lt_auto

theorem recvRecvEof_lt (s : Streams) (k : Nat) : LT [k] s (s.recvRecvEof k) := by
  unfold Streams.recvRecvEof; lt_auto

theorem recvMaybeResetNextStreamId_lt (s : Streams) (id : Nat) : LT [] s (s.recvMaybeResetNextStreamId id) := by
  unfold Streams.recvMaybeResetNextStreamId; lt_auto

theorem sendPendingRefusal_lt (s : Streams) (w : Writer) : LT [] s (s.sendPendingRefusal w).1 := by
  unfold Streams.sendPendingRefusal; lt_auto

theorem scheduleRecv_lt (s : Streams) (k : Nat) (t : String) : LT [k] s (s.scheduleRecv k t).1 := by
  unfold Streams.scheduleRecv; lt_auto

theorem recvPollData_lt (s : Streams) (k : Nat) (t : String) : LT [k] s (s.recvPollData k t).1 := by
  unfold Streams.recvPollData; lt_auto

theorem recvPollTrailers_lt (s : Streams) (k : Nat) (t : String) : LT [k] s (s.recvPollTrailers k t).1 := by
  unfold Streams.recvPollTrailers; lt_auto

theorem recvPollInformational_lt (s : Streams) (k : Nat) (t : String) : LT [k] s (s.recvPollInformational k t).1 := by
  unfold Streams.recvPollInformational; lt_auto

theorem modCountsA_incReset_lt (s : Streams) (m : String) (h : s.counts.canIncNumResetStreams = true) :
    LT ks s (s.modCountsA m Counts.incNumResetStreams) :=
  modCountsA_lt s m _ { s.counts with numLocalResetStreams := s.counts.numLocalResetStreams + 1 }
    (by unfold Counts.incNumResetStreams; rw [if_pos h]) ⟨rfl, rfl⟩

theorem modCountsA_incRemote_lt (s : Streams) (m : String) (h : s.counts.canIncNumRemoteResetStreams = true) :
    LT ks s (s.modCountsA m Counts.incNumRemoteResetStreams) :=
  modCountsA_lt s m _ { s.counts with numRemoteResetStreams := s.counts.numRemoteResetStreams + 1 }
    (by unfold Counts.incNumRemoteResetStreams; rw [if_pos h]) ⟨rfl, rfl⟩

theorem enqueueResetExpiration_lt (s : Streams) (k : Nat) : LT [k] s (s.enqueueResetExpiration k) := by
  unfold Streams.enqueueResetExpiration
  dsimp only
  split
  · exact .refl _ _
  · split
    · next hc =>
      exact LT.trans (modCountsA_incReset_lt (ks := [k]) s _ hc) (qPush_lt _ _ _) (fun _ h => h)
    · exact .refl _ _

theorem recvRecvReset_pre_lt (s : Streams) (k : Nat) :
    LT [k] s (if (s.stream k).isPendingAccept = true then
      if s.counts.canIncNumRemoteResetStreams = true then
        (s.modCountsA "can_inc_num_remote_reset_streams" Counts.incNumRemoteResetStreams, (none : Option PErr))
      else (s, some (PErr.libraryGoAwayData ENHANCE_YOUR_CALM "too_many_resets"))
    else (s, none)).1 := by
  split
  · split
    · next hc => exact modCountsA_incRemote_lt s _ hc
    · exact .refl _ _
  · exact .refl _ _

theorem recvRecvReset_lt (s : Streams) (k : Nat) (r : Reason) : LT [k] s (s.recvRecvReset k r).1 := by
  unfold Streams.recvRecvReset
  dsimp only
  split
  · next heq => exact LT.of_fst_eq heq (recvRecvReset_pre_lt s k)
  · next heq =>
    have h1 := LT.of_fst_eq heq (recvRecvReset_pre_lt s k)
    lt_auto

theorem modRecv_stream (s : Streams) (f : Recv → Recv) (j : Nat) : (s.modRecv f).stream j = s.stream j := rfl
theorem modRecv_counts (s : Streams) (f : Recv → Recv) : (s.modRecv f).counts = s.counts := rfl

theorem recvRecvHeaders_lt (s : Streams) (k : Nat) (h : HeadersIn) : LT [k] s (s.recvRecvHeaders k h).1 := by
  unfold Streams.recvRecvHeaders
  split
  · exact .refl _ _
  · next st' isInitial heq =>
    dsimp only
    generalize hs1 : Streams.modStream s k _ = s1
    have h1 : LT [k] s s1 := by rw [← hs1]; exact modStream_lt _ _ _ (fun _ => by inert_tac)
    split
    · exact h1
    · next hguard =>
      generalize hs2 : (if (isInitial && !(s1.stream k).isCounted) = true then _ else s1) = s2
      have h2 : LT [k] s s2 := by
        rw [← hs2]
        split
        · next hc =>
          have hc1 : (s1.stream k).isCounted = false := by
            cases hh : (s1.stream k).isCounted with
            | false => rfl
            | true => rw [hh] at hc; simp at hc
          have hc2 : s1.counts.canIncNumRecvStreams = true := by
            cases hh : s1.counts.canIncNumRecvStreams with
            | true => rfl
            | false =>
              rw [hh] at hguard; simp at hguard
              simp only [Bool.and_eq_true, Bool.not_eq_true'] at hc
              have := hguard hc.1; rw [hc1] at this; cases this
          refine LT.trans (ks' := [k]) ?_ (incNumRecvStreams_lt _ _ ?_ ?_) (fun _ h => h)
          · split
            · exact h1.trans (modRecv_lt _ _) (fun _ h => absurd h List.not_mem_nil)
            · exact h1
          · split
            · exact hc2
            · exact hc2
          · split
            · exact hc1
            · exact hc1
        · exact h1
      lt_auto

theorem decContentLength_spec {x y : Stream} {n : Nat} (h : x.decContentLength n = some y) :
    Inert x y ∧ y.recvFlow = x.recvFlow := by
  unfold Stream.decContentLength at h
  split at h
  · split at h
    · cases h; exact ⟨⟨rfl, rfl, rfl, rfl, fun h => h⟩, rfl⟩
    · cases h
  · split at h
    · cases h
    · cases h; exact ⟨Inert.refl _, rfl⟩
  · cases h; exact ⟨Inert.refl _, rfl⟩

theorem consumeConnectionWindow_store (s : Streams) (sz : Nat) : (s.consumeConnectionWindow sz).1.store = s.store := by
  unfold Streams.consumeConnectionWindow
  split
  · rfl
  · split
    · rfl
    · exact panic_store _ _
    · rfl

theorem recvRecvData_lt (s : Streams) (k : Nat) (payload : Bytes) (eos : Bool) (pad : Option Nat)
    (hlen : payload.length + (match pad with | some p => p + 1 | none => 0) ≤ Generated.Consts.MAX_WINDOW_SIZE) :
    LT [k] s (s.recvRecvData k payload eos pad).1 := by
  unfold Streams.recvRecvData
  cases pad <;> dsimp only at hlen ⊢
  all_goals (
    have hn : ∀ x, x ≤ Generated.Consts.MAX_WINDOW_SIZE → ¬ x > Generated.Consts.MAX_WINDOW_SIZE := fun x h => by omega
    simp only [if_neg (hn _ hlen)])
  all_goals (
    split
    · exact .refl _ _
    split
    · lt_auto
    split
    · lt_auto
    · next s1 _ heq1 =>
      have h1 : LT [k] s s1 := LT.of_fst_eq heq1 ((consumeConnectionWindow_lt s _).mono (fun _ h => absurd h List.not_mem_nil))
      split
      · exact h1
      · next hw =>
        split
        · exact h1
        · next st1 hdc =>
          have hsp := decContentLength_spec hdc
          generalize hs2 : s1.setStream st1 = s2
          have hkey : st1.key = k := hsp.1.key.trans (stream_key _ _)
          have h2 : LT [k] s s2 := by
            rw [← hs2]; exact h1.trans (setStream_lt s1 k st1 hsp.1) (fun _ h => h)
          have hf2 : SPr (·.recvFlow) s1 s2 := by
            rw [← hs2]; exact SPr.setStream s1 k st1 hkey hsp.2
          -- the END_STREAM step
          generalize hs3 : (if eos = true then _ else (s2, (none : Option PErr))) = p3
          have h3 : LT [k] s p3.1 ∧ SPr (·.recvFlow) s1 p3.1 := by
            rw [← hs3]
            split
            · split
              · exact ⟨h2, hf2⟩
              · split
                · exact ⟨h2, hf2⟩
                · exact ⟨h2.trans (modStream_lt _ _ _ (fun _ => by inert_tac)) (fun _ h => h),
                    hf2.trans (SPr.modStream _ _ _ (fun _ => rfl) (fun _ => rfl))⟩
            · exact ⟨h2, hf2⟩
          split
          · exact h3.1
          · next s4 =>
            have h4 : LT [k] s s4 := h3.1
            have hf4 : (s4.stream k).recvFlow = (s1.stream k).recvFlow := h3.2 k
            split
            · lt_auto
            · split
              · lt_auto
              · next heq5 =>
                rw [hf4] at heq5
                exact absurd heq5 (sendData_no_assert _ _ hw _)
              · lt_auto)

end H2V.Lemmas.ConnNoPanicP
