import H2V.Lemmas.ConnNoPanicPSend
/-
  C08 (no panic) — part 4: `LT` for the functions of recv.rs that work on one stream / on the
  connection-level receive state.  Where a function contains an `assert!` that its own code guards
  (`consume_connection_window`, `recv_data`, `recv_reset`, `enqueue_reset_expiration`,
  `inc_num_recv_streams` after the F31 repair) the guard is used here; asserts that depend on the caller
  appear as hypotheses (`recv_open`: no refusal pending; `recv_data`: frame length; `go_away`).
-/
namespace H2V.Lemmas.ConnNoPanicP
open H2V H2V.Model H2V.Model.Conn H2V.Lemmas.ConnCountsP
attribute [local irreducible] wrapSubU32 wrapSubUsize

theorem releaseConnectionCapacity_lt (s : Streams) (c : Nat) (b : Bool) : LT [] s (s.releaseConnectionCapacity c b) := by
  unfold Streams.releaseConnectionCapacity; lt_auto

theorem releaseCapacity_lt (s : Streams) (k c : Nat) (b : Bool) : LT [k] s (s.releaseCapacity k c b).1 := by
  unfold Streams.releaseCapacity; lt_auto

theorem clearRecvBufferLoop_err (n : Nat) (l : List REvent) (acc : Nat) (c : Counts) :
    (Streams.clearRecvBufferLoop n l acc c).2.numLocalErrorResetStreams = c.numLocalErrorResetStreams ∧
    (Streams.clearRecvBufferLoop n l acc c).2.maxLocalErrorResetStreams = c.maxLocalErrorResetStreams := by
  induction l generalizing acc c with
  | nil => exact ⟨rfl, rfl⟩
  | cons e l ih =>
    cases e <;> unfold Streams.clearRecvBufferLoop <;> try exact ih _ _
    next payload budgeted =>
      dsimp only
      refine ⟨(ih _ _).1.trans ?_, (ih _ _).2.trans ?_⟩
      · split
        · unfold Counts.releaseDataFrame; dsimp only; split <;> rfl
        · rfl
      · split
        · unfold Counts.releaseDataFrame; dsimp only; split <;> rfl
        · rfl

theorem clearRecvBuffer_lt (s : Streams) (k : Nat) (b : Bool) : LT [k] s (s.clearRecvBuffer k b) := by
  unfold Streams.clearRecvBuffer
  dsimp only
  have h0 : LT [k] s { s with counts := (Streams.clearRecvBufferLoop (s.stream k).inFlightRecvData (s.stream k).pendingRecv 0 s.counts).2 } :=
    setCounts_lt _ _ (clearRecvBufferLoop_err _ _ _ _)
  split
  · lt_auto
  · lt_auto

theorem releaseClosedCapacity_lt (s : Streams) (k : Nat) : LT [k] s (s.releaseClosedCapacity k) := by
  unfold Streams.releaseClosedCapacity; lt_auto

theorem u32AsI32_le (n : Nat) : u32AsI32 n ≤ (n : Int) := by
  unfold u32AsI32 U32_MOD; dsimp only; split <;> omega

/-- `FlowControl::send_data` after the caller's `window_size() < sz` check: the `assert!` is dead -/
theorem sendData_no_assert' (f : FlowControl) (sz : Nat) (h : ¬ f.windowSz < sz) :
    (f.sendData sz).2 ≠ .error .assertFailed := by
  unfold FlowControl.sendData
  split
  · split
    · next hlt =>
      exfalso
      have := u32AsI32_le sz
      unfold FlowControl.windowSz Window.asSize at h
      split at h <;> omega
    · unfold Window.decreaseBy
      dsimp only
      cases checkedSub f.windowSize.val (u32AsI32 sz) with
      | none => simp
      | some v =>
        dsimp only
        cases checkedSub f.available.val (u32AsI32 sz) <;> simp
  · simp

theorem sendData_no_assert (f : FlowControl) (sz : Nat) (h : ¬ f.windowSz < sz) :
    ∀ fl, f.sendData sz ≠ (fl, .error .assertFailed) := by
  intro fl he
  exact sendData_no_assert' f sz h (by rw [he])

theorem consumeConnectionWindow_lt (s : Streams) (sz : Nat) : LT [] s (s.consumeConnectionWindow sz).1 := by
  unfold Streams.consumeConnectionWindow
  split
  · exact .refl _ _
  · next hw =>
    split
    · lt_auto
    · next heq => exact absurd heq (sendData_no_assert _ _ hw _)
    · lt_auto

theorem ignoreData_lt (s : Streams) (sz : Nat) : LT [] s (s.ignoreData sz).1 := by
  unfold Streams.ignoreData; lt_auto

theorem recvOpen_lt (s : Streams) (id : Nat) (b : Bool) (h : s.recv.refused = none) : LT [] s (s.recvOpen id b).1 := by
  unfold Streams.recvOpen
  simp only [h, Option.isSome_none, Bool.false_eq_true, if_false]
  lt_auto

theorem incNumRecvStreams_lt (s : Streams) (k : Nat) (h1 : s.counts.canIncNumRecvStreams = true)
    (h2 : (s.stream k).isCounted = false) : LT [k] s (s.incNumRecvStreams k) := by
  unfold Streams.incNumRecvStreams
  simp only [h1, h2, if_true, Bool.false_eq_true, if_false]
  lt_auto

theorem incNumSendStreams_lt (s : Streams) (k : Nat) (h1 : s.counts.canIncNumSendStreams = true)
    (h2 : (s.stream k).isCounted = false) : LT [k] s (s.incNumSendStreams k) := by
  unfold Streams.incNumSendStreams
  simp only [h1, h2, if_true, Bool.false_eq_true, if_false]
  lt_auto

theorem recvRecvTrailers_lt (s : Streams) (k : Nat) (h : HeadersIn) : LT [k] s (s.recvRecvTrailers k h).1 := by
  unfold Streams.recvRecvTrailers; lt_auto

theorem recvRecvPushPromise_lt (s : Streams) (k : Nat) (h : HeadersIn) : LT [k] s (s.recvRecvPushPromise k h).1 := by
  unfold Streams.recvRecvPushPromise; lt_auto

theorem recvHandleError_lt (s : Streams) (k : Nat) (e : PErr) : LT [k] s (s.recvHandleError k e) := by
  unfold Streams.recvHandleError; lt_auto

theorem recvGoAway_lt (s : Streams) (l : Nat) (h : s.recv.maxStreamId ≥ l) : LT [] s (s.recvGoAway l) := by
  unfold Streams.recvGoAway
  simp only [h, if_true]
  lt_auto

theorem recvRecvEof_lt (s : Streams) (k : Nat) : LT [k] s (s.recvRecvEof k) := by
  unfold Streams.recvRecvEof; lt_auto

theorem recvMaybeResetNextStreamId_lt (s : Streams) (id : Nat) : LT [] s (s.recvMaybeResetNextStreamId id) := by
  unfold Streams.recvMaybeResetNextStreamId; lt_auto

theorem sendPendingRefusal_lt (s : Streams) (w : Writer) : LT [] s (s.sendPendingRefusal w).1 := by
  unfold Streams.sendPendingRefusal; lt_auto

theorem scheduleRecv_lt (s : Streams) (k : Nat) (t : String) : LT [k] s (s.scheduleRecv k t).1 := by
  unfold Streams.scheduleRecv; lt_auto

theorem recvPollData_lt (s : Streams) (k : Nat) (t : String) : LT [k] s (s.recvPollData k t).1 := by
  unfold Streams.recvPollData; lt_auto

theorem recvPollTrailers_lt (s : Streams) (k : Nat) (t : String) : LT [k] s (s.recvPollTrailers k t).1 := by
  unfold Streams.recvPollTrailers; lt_auto

theorem recvPollInformational_lt (s : Streams) (k : Nat) (t : String) : LT [k] s (s.recvPollInformational k t).1 := by
  unfold Streams.recvPollInformational; lt_auto

end H2V.Lemmas.ConnNoPanicP
