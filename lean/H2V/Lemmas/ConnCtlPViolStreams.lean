import H2V.Model.ConnStreams
import H2V.Lemmas.CompFlow
/-
  ConnCtlP, part 12 — C09 at the stream layer (`Inner::recv_*` of streams.rs): which frames are
  connection errors, which are stream errors (answered in place by `reset_on_recv_stream_err`), and
  which are tolerated without any change.
-/
set_option autoImplicit false
set_option linter.unusedSimpArgs false
namespace H2V.Lemmas.ConnCtlP
open H2V H2V.Model H2V.Model.Conn

-- ===================================================================== connection errors

/-- RST_STREAM on stream 0 (§6.4) -/
theorem recvReset_stream0 (s : Streams) (r : Reason) :
    s.recvReset 0 r = (s, .error (PErr.libraryGoAway PROTOCOL_ERROR)) := by
  unfold Streams.recvReset; simp

/-- RST_STREAM on an idle stream (§6.4): no entry, the id was never used -/
theorem recvReset_idle (s : Streams) (id : Nat) (r : Reason) (h0 : id ≠ 0) (hm : ¬ id > s.recv.maxStreamId)
    (hk : s.store.findKey? id = none) (hi : s.ensureNotIdle id = .error PROTOCOL_ERROR) :
    s.recvReset id r = (s, .error (PErr.libraryGoAway PROTOCOL_ERROR)) := by
  unfold Streams.recvReset; simp [h0, hm, hk, hi]

/-- WINDOW_UPDATE on an idle stream (§6.9) -/
theorem recvWindowUpdate_idle (s : Streams) (id inc : Nat) (h0 : id ≠ 0)
    (hk : s.store.findKey? id = none) (hi : s.ensureNotIdle id = .error PROTOCOL_ERROR) :
    s.recvWindowUpdate id inc = (s, .error (PErr.libraryGoAway PROTOCOL_ERROR)) := by
  unfold Streams.recvWindowUpdate; simp [h0, hk, hi]

/-- what "idle" means for `ensure_not_idle`: the id is at or above the next id of its initiator -/
theorem ensureNotIdle_idle_iff (s : Streams) (id : Nat) :
    s.ensureNotIdle id = .error PROTOCOL_ERROR ↔
      (if s.counts.isLocalInit id then ∃ n, s.actions.send.nextStreamId = some n ∧ id ≥ n
       else ∃ n, s.recv.nextStreamId = some n ∧ id ≥ n) := by
  unfold Streams.ensureNotIdle Streams.sendEnsureNotIdle Streams.recvEnsureNotIdle
  split
  · cases h : s.actions.send.nextStreamId with
    | none => simp
    | some n => by_cases hn : id ≥ n <;> simp [hn]
  · cases h : s.recv.nextStreamId with
    | none => simp
    | some n => by_cases hn : id ≥ n <;> simp [hn]

/-- DATA on a stream that does not exist and cannot have existed (§5.1 idle) -/
theorem recvData_idle (s : Streams) (id : Nat) (payload : Bytes) (eos : Bool) (pad : Option Nat)
    (hk : s.store.findKey? id = none) (hm : ¬ id > s.recv.maxStreamId) (hf : s.mayHaveForgottenStream id = false) :
    s.recvData id payload eos pad = (s, .error (PErr.libraryGoAway PROTOCOL_ERROR)) := by
  unfold Streams.recvData; simp [hk, hm, hf]

/-- connection WINDOW_UPDATE overflowing 2^31-1 (§6.9.1): FLOW_CONTROL_ERROR on the connection,
    nothing changes -/
theorem recvWindowUpdate_conn_overflow (s : Streams) (inc : Nat)
    (h : ¬ (inI32 (s.prio.flow.windowSize.val + u32AsI32 inc) = true ∧
            s.prio.flow.windowSize.val + u32AsI32 inc ≤ (Generated.Consts.MAX_WINDOW_SIZE : Int))) :
    s.recvWindowUpdate 0 inc = (s, .error (PErr.libraryGoAway FLOW_CONTROL_ERROR)) := by
  unfold Streams.recvWindowUpdate Streams.recvConnectionWindowUpdate
  simp only [if_true]
  rcases hi : s.prio.flow.incWindow inc with ⟨fl, r⟩
  cases r with
  | ok u =>
    exfalso
    apply h
    have := (H2V.Lemmas.Comp.incWindow_ok_iff s.prio.flow inc).1 (by rw [hi]; rfl)
    exact this
  | error e =>
    obtain ⟨-, he⟩ := H2V.Lemmas.Comp.incWindow_err hi
    subst he
    rfl

/-- a server never accepts PUSH_PROMISE (§8.4): connection error, whatever the stream -/
theorem recvPushPromise_server (s : Streams) (id : Nat) (h : HeadersIn) (hs : s.counts.isServer = true) :
    s.recvPushPromise id h = (s, .error (PErr.libraryGoAway PROTOCOL_ERROR)) := by
  unfold Streams.recvPushPromise; simp [hs]

/-- PUSH_PROMISE referring to a stream the client does not know (§6.6) -/
theorem recvPushPromise_unknown_parent (s : Streams) (id : Nat) (h : HeadersIn) (hs : s.counts.isServer = false)
    (hk : s.store.findKey? id = none) :
    s.recvPushPromise id h = (s, .error (PErr.libraryGoAway PROTOCOL_ERROR)) := by
  unfold Streams.recvPushPromise; simp [hs, hk]

/-- `Recv::open` after its `assert!(self.refused.is_none())` (a copy of the model's code) -/
def recvOpenCore (s : Streams) (id : Nat) (isPushPromise : Bool) : Streams × Except PErr Bool :=
  let canOpen :=
    if s.counts.isServer then !(isPushPromise || id % 2 == 0)
    else !(!isPushPromise || !(id % 2 == 0))
  if !canOpen then (s, .error (PErr.libraryGoAway PROTOCOL_ERROR))
  else
    match s.recv.nextStreamId with
    | none => (s, .error (PErr.libraryGoAway PROTOCOL_ERROR))
    | some nextId =>
      if id < nextId then (s, .error (PErr.libraryGoAway PROTOCOL_ERROR))
      else
        let s := s.modRecv fun r => { r with nextStreamId := if id + 2 > 2147483647 then none else some (id + 2) }
        if !s.counts.canIncNumRecvStreams then (s.modRecv fun r => { r with refused := some id }, .ok false)
        else (s, .ok true)

/-- the state `Recv::open` works on once the assert is passed -/
def afterRefusedAssert (s : Streams) : Streams :=
  if s.recv.refused.isSome then s.panic "assertion failed: self.refused.is_none()" else s

theorem recvOpen_eq (s : Streams) (id : Nat) (isPP : Bool) :
    s.recvOpen id isPP = recvOpenCore (afterRefusedAssert s) id isPP := rfl

theorem afterRefusedAssert_same (s : Streams) :
    (afterRefusedAssert s).counts = s.counts ∧ (afterRefusedAssert s).actions = s.actions := by
  unfold afterRefusedAssert Streams.panic
  (repeat' split) <;> exact ⟨rfl, rfl⟩

/-- `Recv::open` refuses an id of the wrong parity for the role and the frame (§5.1.1): a client
    opening with an even id, a server "opening" with HEADERS, a promised id that is odd -/
theorem recvOpen_wrong_parity (s : Streams) (id : Nat) (isPP : Bool)
    (h : (if s.counts.isServer then !(isPP || id % 2 == 0) else !(!isPP || !(id % 2 == 0))) = false) :
    (s.recvOpen id isPP).2 = .error (PErr.libraryGoAway PROTOCOL_ERROR) := by
  rw [recvOpen_eq]
  unfold recvOpenCore
  rw [(afterRefusedAssert_same s).1]
  dsimp only
  rw [h]
  rfl

/-- `Recv::open` refuses an id below the next expected one (§5.1.1: ids must increase) -/
theorem recvOpen_decreasing (s : Streams) (id n : Nat) (isPP : Bool)
    (hn : s.recv.nextStreamId = some n) (hlt : id < n) :
    (s.recvOpen id isPP).2 = .error (PErr.libraryGoAway PROTOCOL_ERROR) := by
  rw [recvOpen_eq]
  unfold recvOpenCore
  have : (afterRefusedAssert s).recv.nextStreamId = some n := by
    show (afterRefusedAssert s).actions.recv.nextStreamId = some n
    rw [(afterRefusedAssert_same s).2]; exact hn
  dsimp only
  rw [this]
  simp only [hlt, if_true]
  (repeat' split) <;> rfl

/-- **server: HEADERS on an even (server-initiated) id that names no known stream** -/
theorem recvHeaders_server_even_id (s : Streams) (h : HeadersIn) (hs : s.counts.isServer = true)
    (hm : ¬ h.sid > s.recv.maxStreamId) (hk : s.store.findKey? h.sid = none) (he : h.sid % 2 = 0) :
    (s.recvHeaders h).2 = .error (PErr.libraryGoAway PROTOCOL_ERROR) := by
  have ho := recvOpen_wrong_parity s h.sid false (by simp [hs, he])
  unfold Streams.recvHeaders
  simp only [hm, if_false, hk, hs]
  rcases hro : s.recvOpen h.sid false with ⟨s1, r1⟩
  rw [hro] at ho
  dsimp only at ho
  subst ho
  simp

/-- **client: HEADERS that would open a stream** (a server cannot open streams with HEADERS): the id
    names no known stream and cannot be one the client has forgotten -/
theorem recvHeaders_client_opens (s : Streams) (h : HeadersIn) (hs : s.counts.isServer = false)
    (hm : ¬ h.sid > s.recv.maxStreamId) (hk : s.store.findKey? h.sid = none)
    (hf : s.mayHaveForgottenStream h.sid = false) :
    (s.recvHeaders h).2 = .error (PErr.libraryGoAway PROTOCOL_ERROR) := by
  have ho := recvOpen_wrong_parity s h.sid false (by simp [hs])
  unfold Streams.recvHeaders
  simp only [hm, if_false, hk, hs, hf]
  rcases hro : s.recvOpen h.sid false with ⟨s1, r1⟩
  rw [hro] at ho
  dsimp only at ho
  subst ho
  simp

/-- HEADERS on a stream whose request is still waiting to be sent (`pending_open`): the peer
    answers something it cannot have seen -/
theorem recvHeaders_pending_open (s : Streams) (h : HeadersIn) (k : Nat) (hm : ¬ h.sid > s.recv.maxStreamId)
    (hk : s.store.findKey? h.sid = some k) (hp : (s.stream k).isPendingOpen = true) :
    s.recvHeaders h = (s, .error (PErr.libraryGoAway PROTOCOL_ERROR)) := by
  unfold Streams.recvHeaders
  simp [hm, hk, hp]

-- ===================================================================== tolerated: the stream was reset locally

/-- **HEADERS for a stream the endpoint has reset** (frames in flight, §5.4.2): dropped, no error,
    nothing changes -/
theorem recvHeaders_after_local_reset (s : Streams) (h : HeadersIn) (k : Nat) (hm : ¬ h.sid > s.recv.maxStreamId)
    (hk : s.store.findKey? h.sid = some k) (hp : (s.stream k).isPendingOpen = false)
    (hl : (s.stream k).state.isLocalError = true) :
    s.recvHeaders h = (s, .ok ()) := by
  unfold Streams.recvHeaders
  simp [hm, hk, hp, hl]

/-- RST_STREAM / WINDOW_UPDATE for a stream that is gone but did exist: dropped, no error -/
theorem recvReset_forgotten (s : Streams) (id : Nat) (r : Reason) (h0 : id ≠ 0) (hm : ¬ id > s.recv.maxStreamId)
    (hk : s.store.findKey? id = none) (hi : s.ensureNotIdle id = .ok ()) :
    s.recvReset id r = (s, .ok ()) := by
  unfold Streams.recvReset; simp [h0, hm, hk, hi]

theorem recvWindowUpdate_forgotten (s : Streams) (id inc : Nat) (h0 : id ≠ 0)
    (hk : s.store.findKey? id = none) (hi : s.ensureNotIdle id = .ok ()) :
    s.recvWindowUpdate id inc = (s, .ok ()) := by
  unfold Streams.recvWindowUpdate; simp [h0, hk, hi]

/-- WINDOW_UPDATE on a stream whose sending side is finished (half-closed local, closed, reset) and
    that has nothing buffered: accepted, nothing changes -/
theorem recvWindowUpdate_send_closed (s : Streams) (id inc k : Nat) (h0 : id ≠ 0)
    (hk : s.store.findKey? id = some k) (hp : (s.stream k).isPendingOpen = false)
    (hc : (s.stream k).state.isSendClosed = true) (hb : (s.stream k).bufferedSendData = 0) :
    s.recvWindowUpdate id inc = (s, .ok ()) := by
  unfold Streams.recvWindowUpdate Streams.sendRecvStreamWindowUpdate Streams.prioRecvStreamWindowUpdate
    Streams.resetOnRecvStreamErr
  simp [h0, hk, hp, hc, hb]

-- ===================================================================== DATA in the wrong state

/-- **DATA on a stream that is not receive-streaming** (before the response HEADERS, after the
    peer's END_STREAM, on a closed stream that we did not reset): connection error PROTOCOL_ERROR -/
theorem recvData_wrong_state (s : Streams) (id k : Nat) (payload : Bytes) (eos : Bool) (pad : Option Nat)
    (hk : s.store.findKey? id = some k) (h1 : (s.stream k).state.isLocalError = false)
    (h2 : (s.stream k).state.isRecvStreaming = false) :
    (s.recvData id payload eos pad).2 = .error (PErr.libraryGoAway PROTOCOL_ERROR) := by
  have hstream : ∀ m, (s.panic m).stream k = s.stream k := by
    intro m; unfold Streams.panic Streams.stream; split <;> rfl
  have hrr : (s.recvRecvData k payload eos pad).2 = .error (PErr.libraryGoAway PROTOCOL_ERROR) := by
    unfold Streams.recvRecvData
    cases pad <;> dsimp only <;> split <;> simp [hstream, h1, h2]
  unfold Streams.recvData Streams.transition
  simp only [hk]
  rcases hr : s.recvRecvData k payload eos pad with ⟨s1, r1⟩
  rw [hr] at hrr
  dsimp only at hrr
  subst hrr
  simp [Streams.resetOnRecvStreamErr, PErr.libraryGoAway]

-- ===================================================================== stream errors are answered in place

/-- **`reset_on_recv_stream_err`**: a stream error (`Error::Reset`) raised while a frame is processed
    does not reach the connection: as long as the budget of locally caused resets is not used up the
    stream is reset through `send_reset` (RST_STREAM with the reason, see `Send::send_reset`) and the
    result is `Ok` — the connection and the other streams go on; when the budget is used up the
    answer is the connection error ENHANCE_YOUR_CALM; every other result passes through -/
theorem resetOnRecvStreamErr_spec (s : Streams) (k sid : Nat) (reason : Reason) (init : Initiator) :
    s.resetOnRecvStreamErr k (.error (.reset sid reason init)) =
      (if s.counts.canIncNumLocalErrorResets then
        ((((s.modCountsA "can_inc_num_local_error_resets" Counts.incNumLocalErrorResets).sendSendReset k reason init
            ).enqueueResetExpiration k).modStreamW k Stream.notifyRecv, .ok ())
       else (s, .error (PErr.libraryGoAwayData ENHANCE_YOUR_CALM "too_many_internal_resets"))) ∧
    (∀ d r i, s.resetOnRecvStreamErr k (.error (.goAway d r i)) = (s, .error (.goAway d r i))) ∧
    s.resetOnRecvStreamErr k (.ok ()) = (s, .ok ()) := by
  unfold Streams.resetOnRecvStreamErr
  exact ⟨rfl, fun _ _ _ => rfl, rfl⟩

/-- **WINDOW_UPDATE overflowing a stream's send window** (§6.9.1): a stream error FLOW_CONTROL_ERROR,
    answered in place — the stream is reset by `send_reset(FLOW_CONTROL_ERROR)`, the frame's result
    is `Ok` (budget permitting) -/
theorem recvWindowUpdate_stream_overflow (s : Streams) (id inc k : Nat) (h0 : id ≠ 0)
    (hk : s.store.findKey? id = some k) (hp : (s.stream k).isPendingOpen = false)
    (hc : ¬ ((s.stream k).state.isSendClosed = true ∧ (s.stream k).bufferedSendData = 0))
    (ho : ¬ (inI32 ((s.stream k).sendFlow.windowSize.val + u32AsI32 inc) = true ∧
            (s.stream k).sendFlow.windowSize.val + u32AsI32 inc ≤ (Generated.Consts.MAX_WINDOW_SIZE : Int))) :
    s.recvWindowUpdate id inc =
      (s.sendSendReset k FLOW_CONTROL_ERROR .library).resetOnRecvStreamErr k
        (.error (PErr.libraryReset id FLOW_CONTROL_ERROR)) := by
  have hinc : ∃ fl e, (s.stream k).sendFlow.incWindow inc = (fl, .error e) := by
    rcases hi : (s.stream k).sendFlow.incWindow inc with ⟨fl, r⟩
    cases r with
    | ok u =>
      exfalso
      apply ho
      exact (H2V.Lemmas.Comp.incWindow_ok_iff _ inc).1 (by rw [hi]; rfl)
    | error e => exact ⟨fl, e, rfl⟩
  obtain ⟨fl, e, hi⟩ := hinc
  obtain ⟨-, he⟩ := H2V.Lemmas.Comp.incWindow_err hi
  subst he
  have hprio : s.prioRecvStreamWindowUpdate k inc = (s, .error FLOW_CONTROL_ERROR) := by
    unfold Streams.prioRecvStreamWindowUpdate
    dsimp only
    have : ((s.stream k).state.isSendClosed && (s.stream k).bufferedSendData == 0) = false := by
      cases h1 : (s.stream k).state.isSendClosed <;> cases h2 : ((s.stream k).bufferedSendData == 0) <;> simp_all
    rw [this, hi]
    rfl
  unfold Streams.recvWindowUpdate Streams.sendRecvStreamWindowUpdate
  simp only [h0, if_false, hk, hp, Bool.false_eq_true]
  rw [hprio]

-- ===================================================================== PUSH_PROMISE with an odd promised id

/-- **client: PUSH_PROMISE promising an odd (client-initiated) id** on a known stream: connection
    error PROTOCOL_ERROR, whatever the state of the initiating stream -/
theorem recvPushPromise_odd_promised (s : Streams) (id k : Nat) (h : HeadersIn) (hs : s.counts.isServer = false)
    (hk : s.store.findKey? id = some k) (hm : ¬ id > s.recv.maxStreamId) (ho : h.sid % 2 = 1) :
    (s.recvPushPromise id h).2 = .error (PErr.libraryGoAway PROTOCOL_ERROR) := by
  have hopen : (s.recvOpen h.sid true).2 = .error (PErr.libraryGoAway PROTOCOL_ERROR) :=
    recvOpen_wrong_parity s h.sid true (by simp [hs, ho])
  have hcr : s.ensureCanReserve = .ok () ∨ s.ensureCanReserve = .error (PErr.libraryGoAway PROTOCOL_ERROR) := by
    unfold Streams.ensureCanReserve; split <;> simp
  unfold Streams.recvPushPromise
  simp only [hs, Bool.false_eq_true, if_false, hk, hm]
  rcases hro : s.recvOpen h.sid true with ⟨s1, r1⟩
  rw [hro] at hopen
  dsimp only at hopen
  subst hopen
  by_cases hl : (s.stream k).state.isLocalError = true
  · simp only [hl, if_true]
    rcases hcr with hc | hc <;> simp [hc, hro]
  · simp only [hl, Bool.false_eq_true, if_false]
    cases he : (s.stream k).state.ensureRecvOpen with
    | error e => simp
    | ok b =>
      cases b with
      | false => simp
      | true =>
        dsimp only
        rcases hcr with hc | hc <;> simp [hc, hro]

-- ===================================================================== DATA for a stream we have reset

/-- **DATA in flight for a stream the endpoint has reset** (§5.4.2): `Recv::recv_data` only accounts
    the octets against the connection window and hands them straight back (`ignore_data`); the
    stream itself is not looked at any further -/
theorem recvRecvData_after_local_reset (s : Streams) (k : Nat) (payload : Bytes) (eos : Bool)
    (hsz : payload.length ≤ Generated.Consts.MAX_WINDOW_SIZE)
    (hl : (s.stream k).state.isLocalError = true) :
    s.recvRecvData k payload eos none = s.ignoreData (usizeAsU32 payload.length) := by
  have h1 : ¬ Generated.Consts.MAX_WINDOW_SIZE < payload.length := by omega
  simp [Streams.recvRecvData, hl, h1]

/-- `ignore_data` touches nothing but the connection-level receive window bookkeeping -/
theorem ignoreData_store (s : Streams) (sz : Nat) :
    (s.ignoreData sz).1.store = s.store ∧ (s.ignoreData sz).1.counts = s.counts ∧
    (s.ignoreData sz).1.actions.send = s.actions.send := by
  have hp : ∀ (s : Streams) m, (s.panic m).store = s.store ∧ (s.panic m).counts = s.counts ∧
      (s.panic m).actions.send = s.actions.send := by
    intro s m; unfold Streams.panic; split <;> exact ⟨rfl, rfl, rfl⟩
  have hn : ∀ (s : Streams), s.notifyTask.store = s.store ∧ s.notifyTask.counts = s.counts ∧
      s.notifyTask.actions.send = s.actions.send := by
    intro s; unfold Streams.notifyTask; split <;> exact ⟨rfl, rfl, rfl⟩
  have hc : (s.consumeConnectionWindow sz).1.store = s.store ∧ (s.consumeConnectionWindow sz).1.counts = s.counts ∧
      (s.consumeConnectionWindow sz).1.actions.send = s.actions.send := by
    unfold Streams.consumeConnectionWindow
    split
    · exact ⟨rfl, rfl, rfl⟩
    · split
      · exact ⟨rfl, rfl, rfl⟩
      · exact hp _ _
      · exact ⟨rfl, rfl, rfl⟩
  unfold Streams.ignoreData
  rcases h : s.consumeConnectionWindow sz with ⟨s1, r⟩
  rw [h] at hc
  cases r with
  | error e => exact hc
  | ok u =>
    dsimp only
    unfold Streams.releaseConnectionCapacity
    dsimp only
    split
    · obtain ⟨n1, n2, n3⟩ := hn (s1.modRecv fun r => { r with inFlightData := wrapSubU32 r.inFlightData sz, flow := (r.flow.assignCapacity sz).1 })
      exact ⟨n1.trans hc.1, n2.trans hc.2.1, n3.trans hc.2.2⟩
    · exact hc

end H2V.Lemmas.ConnCtlP
