import H2V.Lemmas.ConnFlowPStreams2
/-
  ConnFlowP, part 11 — reachable stream-layer states and the safety invariant on all of them.

  `Reach s`: `s` is obtained from an initial `Streams` value (empty store, connection send window
  65 535 fully available — what `Conn.init` / `Conn.initServer` build) by any finite sequence of the
  stream-layer API functions that `ConnProto.lean` (the connection: received frames, `poll`, settings,
  GOAWAY, errors, EOF) and `ConnDriver.lean` (the user handles) call on `Conn.streams`; these two
  files touch `Conn.streams` through nothing else (plus `wake`, `panic` and clearing the wake log).
  Arguments are arbitrary, except the two values that the frame decoder bounds by `2^31 - 1`:
  WINDOW_UPDATE increments (`Frame.loadWindowUpdate` masks the reserved bit) and
  SETTINGS_INITIAL_WINDOW_SIZE (`Frame.applySetting` rejects larger values).
-/
namespace H2V.Lemmas.ConnFlowP
open H2V H2V.Model H2V.Model.Conn H2V.Lemmas.Comp

/-- the connection-level send `FlowControl` of a new connection -/
def flowInit : FlowControl :=
  ((FlowControl.new.incWindow Generated.Consts.DEFAULT_INITIAL_WINDOW_SIZE).1.assignCapacity
    Generated.Consts.DEFAULT_INITIAL_WINDOW_SIZE).1

theorem flowInit_eq : flowInit = ⟨⟨65535⟩, ⟨65535⟩⟩ := by decide

/-- an initial stream layer: no stream yet, the default connection window, all of it available -/
structure Init (s : Streams) : Prop where
  slab : s.store.slab = []
  flow : s.prio.flow = flowInit

/-- SETTINGS values as the decoder delivers them: identifier 4 carries at most `2^31 - 1` -/
def SettingsOk (vals : List (Nat × Nat)) : Prop :=
  ∀ v, (vals.find? (·.1 = 4)).map (·.2) = some v → v ≤ 2147483647

inductive Reach : Streams → Prop
  | init {s} : Init s → Reach s
  -- received frames, connection events (ConnProto)
  | recvHeaders {s} (hd) : Reach s → Reach (s.recvHeaders hd).1
  | recvData {s} (id p eos pad) : Reach s → Reach (s.recvData id p eos pad).1
  | recvReset {s} (id r) : Reach s → Reach (s.recvReset id r).1
  | recvWindowUpdate {s} (id inc) : inc ≤ 2147483647 → Reach s → Reach (s.recvWindowUpdate id inc).1
  | recvPushPromise {s} (id hd) : Reach s → Reach (s.recvPushPromise id hd).1
  | recvGoAwayFrame {s} (l r d) : Reach s → Reach (s.recvGoAwayFrame l r d).1
  | recvGoAway {s} (id) : Reach s → Reach (s.recvGoAway id)
  | recvEof {s} (b) : Reach s → Reach (s.recvEof b)
  | handleError {s} (e) : Reach s → Reach (s.handleError e).1
  | innerSendReset {s} (id r) : Reach s → Reach (s.innerSendReset id r).1
  | applyRemoteSettings {s} (vals b) : SettingsOk vals → Reach s → Reach (s.applyRemoteSettings vals b).1
  | applyLocalSettingsFrame {s} (vals) : Reach s → Reach (s.applyLocalSettingsFrame vals).1
  | setTargetConnectionWindow {s} (n) : Reach s → Reach (s.setTargetConnectionWindow n).1
  | clearExpiredResetStreams {s} (fuel) : Reach s → Reach (Streams.clearExpiredResetStreams fuel s)
  | pollComplete {s} (fuel w io tag) : Reach s → Reach (Streams.pollComplete fuel s w io tag).1
  | pollSendPendingRefusal {s} (fuel w io tag) : Reach s → Reach (Streams.pollSendPendingRefusal fuel s w io tag).1
  | wake {s} (w) : Reach s → Reach (s.wake w)
  | panic {s} (m) : Reach s → Reach (s.panic m)
  | clearWakes {s} : Reach s → Reach { s with wakes := [] }
  -- user handles (ConnDriver)
  | cloneHandle {s} : Reach s → Reach s.cloneHandle
  | dropHandle {s} : Reach s → Reach s.dropHandle
  | cloneStreamRef {s} (id) : Reach s → Reach (s.cloneStreamRef id)
  | dropStreamRef {s} (id) : Reach s → Reach (s.dropStreamRef id)
  | sendRequest {s} (b f eos p) : Reach s → Reach (s.sendRequest b f eos p).1
  | pollPendingOpen {s} (p tag) : Reach s → Reach (s.pollPendingOpen p tag).1
  | nextIncoming {s} : Reach s → Reach s.nextIncoming.1
  | recvTakeRequest {s} (id) : Reach s → Reach (s.recvTakeRequest id).1
  | refSendResponse {s} (k f eos) : Reach s → Reach (s.refSendResponse k f eos).1
  | refSendInformationalHeaders {s} (k f) : Reach s → Reach (s.refSendInformationalHeaders k f).1
  | refSendPushPromise {s} (k b f) : Reach s → Reach (s.refSendPushPromise k b f).1
  | refSendData {s} (id len eos) : Reach s → Reach (s.refSendData id len eos).1
  | refSendTrailers {s} (id f) : Reach s → Reach (s.refSendTrailers id f).1
  | refSendReset {s} (id r) : Reach s → Reach (s.refSendReset id r)
  | refReserveCapacity {s} (id c) : Reach s → Reach (s.refReserveCapacity id c)
  | pollCapacity {s} (id tag) : Reach s → Reach (s.pollCapacity id tag).1
  | pollReset {s} (id m tag) : Reach s → Reach (s.pollReset id m tag).1
  | recvPollResponse {s} (fuel id tag) : Reach s → Reach (Streams.recvPollResponse fuel s id tag).1
  | recvPollInformational {s} (id tag) : Reach s → Reach (s.recvPollInformational id tag).1
  | refPollData {s} (id tag) : Reach s → Reach (s.refPollData id tag).1
  | recvPollTrailers {s} (id tag) : Reach s → Reach (s.recvPollTrailers id tag).1
  | refReleaseCapacity {s} (id c) : Reach s → Reach (s.refReleaseCapacity id c).1
  | refClearRecvBuffer {s} (id) : Reach s → Reach (s.refClearRecvBuffer id)

theorem Init.safe {s : Streams} (h : Init s) : SafeInv s := by
  have hf := h.flow
  rw [flowInit_eq] at hf
  refine ⟨Int.le_refl _, ⟨?_, ?_⟩, ?_, ?_, ?_, ?_⟩
  · rw [h.slab]; exact List.nodup_nil
  · rw [h.slab]; intro x hx; cases hx
  · rw [h.slab]; intro x hx; cases hx
  · rw [hf]; decide
  · rw [hf]; decide
  · rw [h.slab, hf]; decide

/-- **the send-side safety invariant holds in every reachable state** -/
theorem Reach.safe {s : Streams} (h : Reach s) : SafeInv s := by
  induction h with
  | init h => exact h.safe
  | recvHeaders hd _ ih => exact ih.recvHeaders hd
  | recvData id p eos pad _ ih => exact ih.recvData id p eos pad
  | recvReset id r _ ih => exact ih.recvReset id r
  | recvWindowUpdate id inc hinc _ ih => exact ih.recvWindowUpdate id inc hinc
  | recvPushPromise id hd _ ih => exact ih.recvPushPromise id hd
  | recvGoAwayFrame l r d _ ih => exact ih.recvGoAwayFrame l r d
  | recvGoAway id _ ih => exact ih.fr ((Fr.refl _).recvGoAway id)
  | recvEof b _ ih => exact ih.recvEof b
  | handleError e _ ih => exact ih.handleError e
  | innerSendReset id r _ ih => exact ih.innerSendReset id r
  | applyRemoteSettings vals b hv _ ih => exact ih.applyRemoteSettings vals b hv
  | applyLocalSettingsFrame vals _ ih => exact ih.applyLocalSettingsFrame vals
  | setTargetConnectionWindow n _ ih => exact ih.fr ((Fr.refl _).setTargetConnectionWindow n)
  | clearExpiredResetStreams fuel _ ih => exact ih.fr (Fr.clearExpiredResetStreams fuel (Fr.refl _))
  | pollComplete fuel w io tag _ ih => exact SafeInv.pollComplete fuel ih w io tag
  | pollSendPendingRefusal fuel w io tag _ ih => exact SafeInv.pollSendPendingRefusal fuel ih w io tag
  | wake w _ ih => exact ih.fr ((Fr.refl _).wake w)
  | panic m _ ih => exact ih.fr ((Fr.refl _).panic m)
  | clearWakes _ ih => exact ih.fr ((Fr.refl _).withWakes [])
  | cloneHandle _ ih => exact ih.cloneHandle
  | dropHandle _ ih => exact ih.dropHandle
  | cloneStreamRef id _ ih => exact ih.cloneStreamRef id
  | dropStreamRef id _ ih => exact ih.dropStreamRef id
  | sendRequest b f eos p _ ih => exact ih.sendRequest b f eos p
  | pollPendingOpen p tag _ ih => exact ih.pollPendingOpen p tag
  | nextIncoming _ ih => exact ih.nextIncoming
  | recvTakeRequest id _ ih => exact ih.fr ((Fr.refl _).recvTakeRequest id)
  | refSendResponse k f eos _ ih => exact ih.refSendResponse k f eos
  | refSendInformationalHeaders k f _ ih => exact ih.refSendInformationalHeaders k f
  | refSendPushPromise k b f _ ih => exact ih.refSendPushPromise k b f
  | refSendData id len eos _ ih => exact ih.refSendData id len eos
  | refSendTrailers id f _ ih => exact ih.refSendTrailers id f
  | refSendReset id r _ ih => exact ih.refSendReset id r
  | refReserveCapacity id c _ ih => exact ih.refReserveCapacity id c
  | pollCapacity id tag _ ih => exact ih.fr ((Fr.refl _).pollCapacity id tag)
  | pollReset id m tag _ ih => exact ih.fr ((Fr.refl _).pollReset id m tag)
  | recvPollResponse fuel id tag _ ih => exact ih.fr (Fr.recvPollResponse fuel (Fr.refl _) id tag)
  | recvPollInformational id tag _ ih => exact ih.fr ((Fr.refl _).recvPollInformational id tag)
  | refPollData id tag _ ih => exact ih.refPollData id tag
  | recvPollTrailers id tag _ ih => exact ih.fr ((Fr.refl _).recvPollTrailers id tag)
  | refReleaseCapacity id c _ ih => exact ih.refReleaseCapacity id c
  | refClearRecvBuffer id _ ih => exact ih.refClearRecvBuffer id

end H2V.Lemmas.ConnFlowP
