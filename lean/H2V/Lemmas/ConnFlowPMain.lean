import H2V.Lemmas.ConnFlowPReq4
import H2V.Lemmas.ConnFlowPInit
import H2V.Lemmas.ConnFlowPWire
import H2V.Lemmas.ConnFlowPWake
import H2V.Lemmas.ConnFlowPCold2
/-
  ConnFlowP, part 29 — the statements `H2V/Props/C02.lean` and `H2V/Props/C16.lean` appeal to, in their
  final form (this file only assembles; the work is in parts 1–28).
-/
namespace H2V.Lemmas.ConnFlowP
open H2V H2V.Model H2V.Model.Conn H2V.Lemmas.Comp

/-- C02 (a): every DATA frame `pop_frame` hands out fits the windows at the moment it is cut and is
    charged exactly -/
theorem data_frame_bounds {s s' : Streams} (h : SafeInv s) {fuel maxLen len : Nat} {eos : Bool}
    {fr : DataFrame} (hp : Streams.popFrame fuel s maxLen = (s', some (.data len eos fr))) :
    ∃ s1, WFr s s1 ∧ SafeInv s1 ∧
      len ≤ maxLen ∧
      (len : Int) ≤ s1.prio.flow.windowSize.val ∧
      (len : Int) ≤ (s1.stream fr.key).sendFlow.available.val ∧
      (0 < len → (len : Int) ≤ (s1.stream fr.key).sendFlow.windowSize.val) ∧
      s1.prio.flow.windowSize = s.prio.flow.windowSize ∧
      Charged s1 s' fr.key len := by
  have hspec := popFrame_spec h fuel maxLen
  rw [hp] at hspec
  obtain ⟨s1, hw, hs1, hc, hch⟩ := hspec
  have hok := hs1.stream_ok fr.key
  have h1 := hc.le_cap
  have h0 := hok.av0
  refine ⟨s1, hw, hs1, hc.le_max, ?_, ?_, ?_, hw.1, hch⟩
  · cases hget : s1.store.get? fr.key with
    | none =>
      have hb : s1.stream fr.key = { key := fr.key, id := 0 } := by unfold Streams.stream; rw [hget]; rfl
      rw [hb] at h1
      have : ({ key := fr.key, id := 0 } : Stream).sendFlow.available.asSize = 0 := rfl
      have := hs1.av_le; have := hs1.a0
      omega
    | some st =>
      rw [stream_of_get hget] at h1 h0
      have := hs1.st_le (get?_mem hget).1
      have := hs1.a0
      rw [asSize_eq] at h1
      omega
  · rw [asSize_eq] at h1; omega
  · intro hpos
    have hw' := hok.avw
    rw [asSize_eq] at h1
    have : 0 < (s1.stream fr.key).sendFlow.available.val := by omega
    have := hw' this
    omega

/-- C02: at the moment a chunk is cut (`DataCut`), neither `FlowControl::send_data` call of `pop_frame`
    can fail: not the `assert!(self.window_size.0 >= sz as i32)` (a panic), not the checked
    subtractions — on the stream and on the connection -/
theorem send_data_cannot_fail {s1 : Streams} (h : SafeInv s1) {k len maxLen : Nat} (hc : DataCut s1 k len maxLen) :
    ((s1.stream k).sendFlow.sendData len).2 = .ok () ∧
    ((s1.prio.flow.assignCapacity len).1.sendData len).2 = .ok () := by
  have hok := h.stream_ok k
  refine ⟨(flOk_send hok hc.le_cap hc.le_win).2.2.2, ?_⟩
  have h1 := hc.le_cap
  have h0 := hok.av0
  have hA := h.a0
  have hle : (len : Int) + s1.prio.flow.available.val ≤ s1.prio.flow.windowSize.val := by
    cases hget : s1.store.get? k with
    | none =>
      have hb : s1.stream k = { key := k, id := 0 } := by unfold Streams.stream; rw [hget]; rfl
      rw [hb] at h1
      have : ({ key := k, id := 0 } : Stream).sendFlow.available.asSize = 0 := rfl
      have := h.av_le
      omega
    | some st =>
      rw [stream_of_get hget] at h1 h0
      have := h.st_le (get?_mem hget).1
      rw [asSize_eq] at h1
      omega
  exact (conn_send (f := s1.prio.flow) hA (n := len) (by omega) h.whi).2.2

/-- C02: while a window is zero or negative only zero-length DATA is sent against it -/
theorem empty_data_on_exhausted_window {s s' : Streams} (h : SafeInv s) {fuel maxLen len : Nat} {eos : Bool}
    {fr : DataFrame} (hp : Streams.popFrame fuel s maxLen = (s', some (.data len eos fr))) :
    ∃ s1, WFr s s1 ∧
      (s1.prio.flow.windowSize.val ≤ 0 → len = 0) ∧
      ((s1.stream fr.key).sendFlow.windowSize.val ≤ 0 → len = 0) := by
  obtain ⟨s1, hw, _, _, h1, _, h3, _, _⟩ := data_frame_bounds h hp
  refine ⟨s1, hw, fun h0 => by omega, fun h0 => ?_⟩
  by_cases hl : len = 0
  · exact hl
  · have := h3 (by omega); omega

/-- C02: when `pop_frame` returns anything but DATA no send window has changed -/
theorem no_data_no_window_change {s : Streams} (h : SafeInv s) (fuel maxLen : Nat)
    (hne : ∀ len e fr, (Streams.popFrame fuel s maxLen).2 ≠ some (.data len e fr)) :
    WFr s (Streams.popFrame fuel s maxLen).1 := by
  have hspec := popFrame_spec h fuel maxLen
  unfold PopRel at hspec
  split at hspec
  · rename_i heq; exact absurd heq (hne _ _ _)
  · exact hspec

/-- C02 (c), per call: every `pop_frame` call `poll_complete` makes from a reachable state obeys the
    specification `PopRel` (so `data_frame_bounds` applies to every DATA frame it writes), and these
    calls account for the whole change of the connection window -/
theorem poll_complete_frames {s : Streams} (h : Reach s) (fuel : Nat) (w : Writer) (io : Tio) (tag : String) :
    (∀ c ∈ pollLog fuel s w io tag, SafeInv c.pre ∧ PopRel c.pre c.maxLen c.out) ∧
    (Streams.pollComplete fuel s w io tag).1.prio.flow.windowSize.val =
      s.prio.flow.windowSize.val - sentIn (pollLog fuel s w io tag) := by
  have hl := poll_log fuel w io tag h.safe
  exact ⟨fun c hc => ⟨hl.1 c hc, popFrame_spec (hl.1 c hc) c.fuel c.maxLen⟩, hl.2⟩

/-- C02 (c), history: window = granted − sent, `0 ≤ sent ≤ granted` -/
theorem history_ledger {s : Streams} {g d : Int} (h : ReachH s g d) :
    s.prio.flow.windowSize.val = g - d ∧ 0 ≤ d ∧ d ≤ g ∧ Reach s :=
  ⟨h.window, h.sent_nonneg, h.sent_le_granted, h.reach⟩

/-- C16: capacity handed back reaches the waiting streams, in every state the model can be in
    (`SafeInvG inc s`: `inc` octets were just taken from a stream or granted by the peer) -/
theorem returned_capacity_is_passed_on {s : Streams} {inc : Nat} (h : SafeInvG inc s) (hr : ReqOk s) :
    (s.assignConnectionCapacity inc).prio.flow.available.val ≤ 0 ∨
    (s.assignConnectionCapacity inc).prio.pendingCapacity = [] :=
  assignConnectionCapacity_drains h hr

/-- C16: a stream's unused capacity goes back to the connection exactly (`reclaim_all_capacity`) -/
theorem reclaim_all_is_exact {s : Streams} (h : SafeInv s) {id : Nat} {st : Stream} (hget : s.store.get? id = some st)
    (hpos : st.sendFlow.available.asSize > 0) :
    s.reclaimAllCapacity id =
      Streams.assignConnectionCapacityLoop
        ((giveBack s id st.sendFlow.available.asSize).prio.pendingCapacity.length + 2)
        (giveBack s id st.sendFlow.available.asSize) ∧
    total (giveBack s id st.sendFlow.available.asSize) = total s ∧
    ((giveBack s id st.sendFlow.available.asSize).stream id).sendFlow.available.val = 0 ∧
    (giveBack s id st.sendFlow.available.asSize).prio.flow.available.val =
      s.prio.flow.available.val + st.sendFlow.available.val ∧
    SafeInv (giveBack s id st.sendFlow.available.asSize) := by
  have he := reclaimAllCapacity_eq s id (by rw [stream_of_get hget]; exact hpos)
  rw [stream_of_get hget] at he
  have hx := giveBack_exact h hget (Nat.le_refl _)
  have h0 := (h.st st (get?_mem hget).1).av0
  refine ⟨he, hx.1, giveBack_all h hget, ?_, hx.2.2.2.2.2⟩
  rw [hx.2.2.1, asSize_eq]; omega

end H2V.Lemmas.ConnFlowP
