import Lean
import H2V.Lemmas.ConnCountsPQueueR
/-
  C08 (no panic) — part 1: the "light step" relation `LT`.

  Most functions of the stream layer (everything that `counts.transition` closures call: the
  capacity machinery of prioritize.rs, the send.rs / recv.rs methods on one stream) neither create
  nor remove a slab entry.  For them ONE relation says everything the no-panic proof needs:

    `LT ks s s'` : `s'` has the same slab keys as `s`, the same local-error-reset counter, and
                   if the keys `ks` are live in `s` and `s` is in a good un-panicked state (`NPQ`),
                   so is `s'` — in particular no `assert!` / dangling `store::Key` fired on the way.

  `NPQ` is the small invariant these functions need to stay panic free: no panic so far, slab keys
  pairwise distinct, `pending_capacity` holds exactly the live flagged entries (its keys are popped by
  `assign_connection_capacity` deep inside almost every function), every stream's assigned send
  capacity is an `i32`.  The counting invariants of ConnCountsP are only needed by the functions that
  release streams (`transition_after`, the queue-draining loops): part 3.
-/
namespace H2V.Lemmas.ConnNoPanicP
open H2V H2V.Model H2V.Model.Conn H2V.Lemmas.ConnCountsP

-- ===================================================================== liveness of a store key

/-- the slab holds an entry with key `k` (`store.resolve(key)` does not panic) -/
def Live (s : Streams) (k : Nat) : Prop := ∃ x, s.store.get? k = some x

theorem Live.mem_keys {s : Streams} {k : Nat} (h : Live s k) : k ∈ s.store.slab.map (·.key) := by
  obtain ⟨x, hx⟩ := h
  exact get?_mem_keys hx

theorem live_of_mem_keys {s : Streams} {k : Nat} (h : k ∈ s.store.slab.map (·.key)) : Live s k := by
  obtain ⟨x, hx, rfl⟩ := List.mem_map.mp h
  unfold Live Store.get?
  cases hf : s.store.slab.find? (·.key == x.key) with
  | some y => exact ⟨y, rfl⟩
  | none =>
    have := List.find?_eq_none.mp hf x hx
    simp at this

theorem live_iff_mem_keys {s : Streams} {k : Nat} : Live s k ↔ k ∈ s.store.slab.map (·.key) :=
  ⟨Live.mem_keys, live_of_mem_keys⟩

theorem _root_.H2V.Lemmas.ConnCountsP.SameKeys.live {s s' : Streams} (h : SameKeys s s') {k : Nat} : Live s' k ↔ Live s k := by
  rw [live_iff_mem_keys, live_iff_mem_keys, h.keys]

theorem Live.stream {s : Streams} {k : Nat} (h : Live s k) : s.store.get? k = some (s.stream k) := by
  obtain ⟨x, hx⟩ := h
  rw [stream_of_get? hx]; exact hx

theorem not_live_of_none {s : Streams} {k : Nat} (h : s.store.get? k = none) : ¬ Live s k := by
  rintro ⟨x, hx⟩; rw [h] at hx; cases hx

-- ===================================================================== frames of one projection of every stream

/-- `P` of every stream entry is unchanged (a dangling key reads a blank stream on both sides) -/
def SPr {α : Type} (P : Stream → α) (s s' : Streams) : Prop := ∀ j, P (s'.stream j) = P (s.stream j)
theorem SPr.refl {α : Type} (P : Stream → α) (s : Streams) : SPr P s s := fun _ => rfl
theorem SPr.trans {α : Type} {P : Stream → α} {a b c : Streams} (h1 : SPr P a b) (h2 : SPr P b c) : SPr P a c :=
  fun j => (h2 j).trans (h1 j)
theorem SPr.of_store {α : Type} {P : Stream → α} {s s' : Streams} (h : s'.store = s.store) : SPr P s s' :=
  fun j => by unfold Streams.stream; rw [h]
theorem SPr.setStream {α : Type} {P : Stream → α} (s : Streams) (k : Nat) (st' : Stream) (hk : st'.key = k)
    (h : P st' = P (s.stream k)) : SPr P s (s.setStream st') := by
  intro j
  rcases setStream_stream s st' j with e | ⟨e, hj, _⟩
  · rw [e]
  · rw [e, hj, hk]; exact h
theorem SPr.modStream {α : Type} {P : Stream → α} (s : Streams) (k : Nat) (f : Stream → Stream) (hk : ∀ x, (f x).key = x.key)
    (h : ∀ x, P (f x) = P x) : SPr P s (s.modStream k f) := by
  unfold Streams.modStream
  split
  · next st hst =>
    refine SPr.setStream s k _ ((hk st).trans (get?_key hst)) ?_
    rw [stream_of_get? hst]; exact h st
  · exact .of_store (panic_store _ _)
theorem SPr.modStreamW {α : Type} {P : Stream → α} (s : Streams) (k : Nat) (f : Stream → Stream × List String)
    (hk : ∀ x, (f x).1.key = x.key) (h : ∀ x, P (f x).1 = P x) : SPr P s (s.modStreamW k f) := by
  unfold Streams.modStreamW
  split
  · next st hst =>
    refine (SPr.setStream s k _ ((hk st).trans (get?_key hst)) ?_).trans (.of_store rfl)
    rw [stream_of_get? hst]; exact h st
  · exact .of_store (panic_store _ _)

-- ===================================================================== the small invariant

/-- every stream's assigned send capacity fits an `i32` (it is one in the Rust) -/
def AvOK (s : Streams) : Prop := ∀ x ∈ s.store.slab, x.sendFlow.available.val ≤ 2147483647

/-- the local-error-reset counter and its limit did not move -/
def ErrSame (s s' : Streams) : Prop :=
  s'.counts.numLocalErrorResetStreams = s.counts.numLocalErrorResetStreams ∧
  s'.counts.maxLocalErrorResetStreams = s.counts.maxLocalErrorResetStreams

theorem ErrSame.refl (s : Streams) : ErrSame s s := ⟨rfl, rfl⟩
theorem ErrSame.trans {a b c : Streams} (h1 : ErrSame a b) (h2 : ErrSame b c) : ErrSame a c :=
  ⟨h2.1.trans h1.1, h2.2.trans h1.2⟩
theorem ErrSame.errOK {s s' : Streams} (h : ErrSame s s') (he : ErrOK s) : ErrOK s' := by
  unfold ErrOK Counts.canIncNumLocalErrorResets at *
  rw [h.1, h.2]; exact he
theorem ErrSame.errOK_back {s s' : Streams} (h : ErrSame s s') (he : ErrOK s') : ErrOK s := by
  unfold ErrOK Counts.canIncNumLocalErrorResets at *
  rw [h.1, h.2] at he; exact he

structure NPQ (s : Streams) : Prop where
  np : s.panicked = none
  keys : KeysOK s
  qc : QOK .pendingCapacity s
  av : AvOK s

/-- `ks` are live -/
def LiveAll (s : Streams) (ks : List Nat) : Prop := ∀ k ∈ ks, Live s k

/-- the light step -/
structure LT (ks : List Nat) (s s' : Streams) : Prop where
  keys : SameKeys s s'
  ids : s'.store.ids = s.store.ids
  sid : SPr (·.id) s s'
  ref : SPr (·.refCount) s s'
  err : ErrSame s s'
  ok : LiveAll s ks → NPQ s → NPQ s'

theorem LT.refl (ks : List Nat) (s : Streams) : LT ks s s :=
  ⟨SameKeys.refl _, rfl, SPr.refl _ _, SPr.refl _ _, ErrSame.refl _, fun _ h => h⟩

theorem LT.mono {ks ks' : List Nat} {s s' : Streams} (h : LT ks s s') (hs : ∀ k ∈ ks, k ∈ ks') : LT ks' s s' :=
  ⟨h.keys, h.ids, h.sid, h.ref, h.err, fun hl hq => h.ok (fun k hk => hl k (hs k hk)) hq⟩

theorem LT.trans {ks ks' : List Nat} {a b c : Streams} (h1 : LT ks a b) (h2 : LT ks' b c) (hs : ∀ k ∈ ks', k ∈ ks) :
    LT ks a c :=
  ⟨h1.keys.trans h2.keys, h2.ids.trans h1.ids, h1.sid.trans h2.sid, h1.ref.trans h2.ref, h1.err.trans h2.err,
   fun hl hq => h2.ok (fun k hk => h1.keys.live.mpr (hl k (hs k hk))) (h1.ok hl hq)⟩

theorem LT.of_eq {ks : List Nat} {s a b : Streams} (h : a = b) (e : LT ks s a) : LT ks s b := h ▸ e
theorem LT.of_fst_eq {ks : List Nat} {s : Streams} {α : Type} {p : Streams × α} {a : Streams} {x : α}
    (h : p = (a, x)) (e : LT ks s p.1) : LT ks s a := by subst h; exact e

/-- a step that changes neither the store, nor the counts, nor `pending_capacity`, nor `panicked` -/
theorem LT.of_eqs {ks : List Nat} {s s' : Streams} (h1 : s'.store = s.store) (h2 : s'.counts = s.counts)
    (h3 : s'.getQ .pendingCapacity = s.getQ .pendingCapacity) (h4 : s'.panicked = s.panicked) : LT ks s s' :=
  ⟨.of_store_eq h1, by rw [h1], .of_store h1, .of_store h1, ⟨by rw [h2], by rw [h2]⟩,
   fun _ h => ⟨h4.trans h.np, (SameKeys.of_store_eq h1).keysOK h.keys, (QF.of_store_q h1 h3).qok h.qc,
     by unfold AvOK; rw [h1]; exact h.av⟩⟩

-- ===================================================================== primitives

theorem wake_lt (s : Streams) (t : List String) : LT ks s (s.wake t) := .of_eqs rfl rfl rfl rfl

theorem notifyTask_lt (s : Streams) : LT ks s s.notifyTask := by
  unfold Streams.notifyTask
  split
  · exact .of_eqs rfl rfl rfl rfl
  · exact .refl _ _

theorem unsup_lt (s : Streams) (m : String) : LT ks s (s.unsup m) := by
  unfold Streams.unsup
  split
  · exact .refl _ _
  · exact .of_eqs rfl rfl rfl rfl

theorem modPrio_lt (s : Streams) (f : Prioritize → Prioritize) (h : ∀ p, (f p).pendingCapacity = p.pendingCapacity) :
    LT ks s (s.modPrio f) :=
  .of_eqs rfl rfl (by simp [Streams.getQ, Streams.prio, Streams.modPrio, h]) rfl

theorem modRecv_lt (s : Streams) (f : Recv → Recv) : LT ks s (s.modRecv f) := .of_eqs rfl rfl rfl rfl
theorem modSend_lt (s : Streams) (f : Send → Send) (h : ∀ p, (f p).prioritize = p.prioritize) : LT ks s (s.modSend f) :=
  .of_eqs rfl rfl (by simp [Streams.getQ, Streams.prio, Streams.modSend, h]) rfl

/-- a record update of the fields nothing here looks at -/
theorem setMisc_lt (s : Streams) (a : Actions) (refs leaked : Nat) (wk : List String) (un : Option String)
    (ha : a.send.prioritize = s.actions.send.prioritize) :
    LT ks s { s with actions := a, refs := refs, recvBufferLeaked := leaked, wakes := wk, unsupported := un } :=
  .of_eqs rfl rfl (by simp [Streams.getQ, Streams.prio, ha]) rfl

theorem setCounts_lt (s : Streams) (c : Counts)
    (h : c.numLocalErrorResetStreams = s.counts.numLocalErrorResetStreams ∧
         c.maxLocalErrorResetStreams = s.counts.maxLocalErrorResetStreams) : LT ks s { s with counts := c } :=
  ⟨.of_store_eq rfl, rfl, .of_store rfl, .of_store rfl, h, fun _ hq => ⟨hq.np, (SameKeys.of_store_eq (s := s) (s' := { s with counts := c }) rfl).keysOK hq.keys,
    (QF.of_store_q (s := s) (s' := { s with counts := c }) rfl rfl).qok hq.qc, hq.av⟩⟩

theorem modCounts_lt (s : Streams) (f : Counts → Counts)
    (h : (f s.counts).numLocalErrorResetStreams = s.counts.numLocalErrorResetStreams ∧
         (f s.counts).maxLocalErrorResetStreams = s.counts.maxLocalErrorResetStreams) : LT ks s (s.modCounts f) :=
  setCounts_lt s _ h

/-- `modCountsA` whose `assert!` is known to hold -/
theorem modCountsA_lt (s : Streams) (w : String) (f : Counts → Option Counts) (c : Counts) (hc : f s.counts = some c)
    (h : c.numLocalErrorResetStreams = s.counts.numLocalErrorResetStreams ∧
         c.maxLocalErrorResetStreams = s.counts.maxLocalErrorResetStreams) : LT ks s (s.modCountsA w f) := by
  unfold Streams.modCountsA
  rw [hc]
  exact setCounts_lt s c h

theorem panic_errSame (s : Streams) (m : String) : ErrSame s (s.panic m) :=
  ⟨by unfold Streams.panic; split <;> rfl, by unfold Streams.panic; split <;> rfl⟩

/-- what a panicking branch needs: it is not reached from a good state with live keys -/
theorem LT.unreachable {ks : List Nat} {s s' : Streams} (hst : s'.store = s.store) (he : ErrSame s s')
    (h : LiveAll s ks → NPQ s → False) : LT ks s s' :=
  ⟨.of_store_eq hst, by rw [hst], .of_store hst, .of_store hst, he, fun hl hq => (h hl hq).elim⟩

-- ===================================================================== stream updates

/-- an update of a slab entry that keeps its key, its `pending_capacity` link, and an `i32` capacity -/
structure Inert (a b : Stream) : Prop where
  key : b.key = a.key
  id : b.id = a.id
  ref : b.refCount = a.refCount
  cap : b.isPendingSendCapacity = a.isPendingSendCapacity
  av : a.sendFlow.available.val ≤ 2147483647 → b.sendFlow.available.val ≤ 2147483647

theorem Inert.refl (a : Stream) : Inert a a := ⟨rfl, rfl, rfl, rfl, fun h => h⟩
theorem Inert.trans {a b c : Stream} (h1 : Inert a b) (h2 : Inert b c) : Inert a c :=
  ⟨h2.key.trans h1.key, h2.id.trans h1.id, h2.ref.trans h1.ref, h2.cap.trans h1.cap, fun h => h2.av (h1.av h)⟩

theorem avOK_setStream {s : Streams} (st' : Stream) (h : AvOK s) (hst : st'.sendFlow.available.val ≤ 2147483647) :
    AvOK (s.setStream st') := by
  intro x hx
  simp only [Streams.setStream, Store.set, List.mem_map] at hx
  obtain ⟨y, hy, rfl⟩ := hx
  split
  · exact hst
  · exact h y hy

theorem get?_mem {st : Store} {k : Nat} {x : Stream} (h : st.get? k = some x) : x ∈ st.slab := by
  unfold Store.get? at h
  exact List.mem_of_find?_eq_some h

theorem setStream_lt (s : Streams) (k : Nat) (st' : Stream) (h : Inert (s.stream k) st') : LT [k] s (s.setStream st') := by
  have hkey : st'.key = k := h.key.trans (stream_key s k)
  refine ⟨SameKeys.setStream _ _, rfl, SPr.setStream s k st' hkey h.id, SPr.setStream s k st' hkey h.ref, ⟨rfl, rfl⟩, ?_⟩
  intro hl hq
  have hk : Live s k := hl k (List.mem_cons_self ..)
  refine ⟨hq.np, (SameKeys.setStream _ _).keysOK hq.keys, ?_, ?_⟩
  · refine (QF.setStream _ s st' ?_).qok hq.qc
    intro x hx
    rw [hkey] at hx
    rw [← stream_of_get? hx]; exact h.cap
  · refine avOK_setStream st' hq.av (h.av ?_)
    exact hq.av _ (get?_mem hk.stream)

theorem modStream_lt (s : Streams) (k : Nat) (f : Stream → Stream) (h : ∀ x, Inert x (f x)) : LT [k] s (s.modStream k f) := by
  unfold Streams.modStream
  split
  · next st hst =>
    have := setStream_lt s k (f st) (by rw [stream_of_get? hst]; exact h st)
    exact this
  · next hn =>
    exact LT.unreachable (panic_store _ _) (panic_errSame _ _)
      (fun hl _ => absurd (hl k (List.mem_cons_self ..)) (not_live_of_none hn))

theorem modStreamW_lt (s : Streams) (k : Nat) (f : Stream → Stream × List String) (h : ∀ x, Inert x (f x).1) :
    LT [k] s (s.modStreamW k f) := by
  unfold Streams.modStreamW
  split
  · next st hst =>
    have := setStream_lt s k (f st).1 (by rw [stream_of_get? hst]; exact h st)
    exact this.trans (wake_lt _ _) (fun _ h => h)
  · next hn =>
    exact LT.unreachable (panic_store _ _) (panic_errSame _ _)
      (fun hl _ => absurd (hl k (List.mem_cons_self ..)) (not_live_of_none hn))

end H2V.Lemmas.ConnNoPanicP
