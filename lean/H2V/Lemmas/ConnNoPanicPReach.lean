import H2V.Lemmas.ConnNoPanicPHandles
import H2V.Lemmas.ConnNoPanicPTearSettings
/-
  C08 (no panic) — part 11: reachable states.  `Step s s'`: one call of a stream-layer function that
  ConnProto / ConnDriver make on `Conn.streams`, within the documented preconditions; `Reach`: closure
  from a blank stream layer (empty store, zero counters, any configuration).  `reach_npi`: the full
  invariant, in particular `panicked = none`, holds in every reachable state as long as the
  local-error-reset quota is not exhausted.
-/
namespace H2V.Lemmas.ConnNoPanicP
open H2V H2V.Model H2V.Model.Conn H2V.Lemmas.ConnCountsP

/-- the frame length the decoder can deliver -/
def FrameLenOK (payload : Bytes) (pad : Option Nat) : Prop :=
  payload.length + (match pad with | some p => p + 1 | none => 0) ≤ Generated.Consts.MAX_WINDOW_SIZE

inductive Step : Streams → Streams → Prop
  -- frames of the peer
  | recvHeaders (s : Streams) (hd : HeadersIn) (href : s.recv.refused = none) : Step s (s.recvHeaders hd).1
  | recvData (s : Streams) (id : Nat) (p : Bytes) (eos : Bool) (pad : Option Nat) (hlen : FrameLenOK p pad) :
      Step s (s.recvData id p eos pad).1
  | recvReset (s : Streams) (id : Nat) (r : Reason) : Step s (s.recvReset id r).1
  | recvWindowUpdate (s : Streams) (id inc : Nat) : Step s (s.recvWindowUpdate id inc).1
  | innerSendReset (s : Streams) (id : Nat) (r : Reason) : Step s (s.innerSendReset id r).1
  | recvGoAway (s : Streams) (l : Nat) (hl : s.recv.maxStreamId ≥ l) : Step s (s.recvGoAway l)
  | wake (s : Streams) (t : List String) : Step s (s.wake t)
  -- connection errors, GOAWAY, EOF, SETTINGS, the reset-expiration timer
  | handleError (s : Streams) (e : PErr) : Step s (s.handleError e).1
  | recvGoAwayFrame (s : Streams) (last : Nat) (r : Reason) (d : Bytes) : Step s (s.recvGoAwayFrame last r d).1
  | recvEof (s : Streams) (b : Bool) (ha : b = true → AccOK s) : Step s (s.recvEof b)
  | clearExpiredResetStreams (s : Streams) (n : Nat) : Step s (Streams.clearExpiredResetStreams n s)
  | applyRemoteSettings (s : Streams) (vals : List (Nat × Nat)) (b : Bool) : Step s (s.applyRemoteSettings vals b).1
  | applyLocalSettingsFrame (s : Streams) (vals : List (Nat × Nat)) : Step s (s.applyLocalSettingsFrame vals).1
  -- handles of the connection
  | cloneHandle (s : Streams) : Step s s.cloneHandle
  | dropHandle (s : Streams) : Step s s.dropHandle
  | sendRequest (s : Streams) (isHead : Bool) (f : List Hpack.Field) (eos : Bool) (p : Option Nat)
      (hfree : ∀ id, s.actions.send.nextStreamId = some id → s.store.contains id = false) :
      Step s (s.sendRequest isHead f eos p).1
  | pollPendingOpen (s : Streams) (p : Option Nat) (t : String) (hp : ∀ k, p = some k → Live s k) :
      Step s (s.pollPendingOpen p t).1
  -- handles of a stream (`k` is the key a live handle holds)
  | cloneStreamRef (s : Streams) (k : Nat) (hk : Live s k) : Step s (s.cloneStreamRef k)
  | dropStreamRef (s : Streams) (k : Nat) (hk : Live s k) (hr : (s.stream k).refCount > 0) (hp : dropPPP s k = []) :
      Step s (s.dropStreamRef k)
  | refSendResponse (s : Streams) (k : Nat) (hk : Live s k) (f : List Hpack.Field) (eos : Bool) : Step s (s.refSendResponse k f eos).1
  | refSendInformationalHeaders (s : Streams) (k : Nat) (hk : Live s k) (f : List Hpack.Field) :
      Step s (s.refSendInformationalHeaders k f).1
  | refSendData (s : Streams) (k : Nat) (hk : Live s k) (len : Nat) (eos : Bool) : Step s (s.refSendData k len eos).1
  | refSendTrailers (s : Streams) (k : Nat) (hk : Live s k) (f : List Hpack.Field) : Step s (s.refSendTrailers k f).1
  | refSendReset (s : Streams) (k : Nat) (hk : Live s k) (r : Reason) : Step s (s.refSendReset k r)
  | refReserveCapacity (s : Streams) (k : Nat) (hk : Live s k) (c : Nat) : Step s (s.refReserveCapacity k c)
  | pollCapacity (s : Streams) (k : Nat) (hk : Live s k) (t : String) : Step s (s.pollCapacity k t).1
  | pollReset (s : Streams) (k : Nat) (hk : Live s k) (m : PollReset) (t : String) : Step s (s.pollReset k m t).1
  | refPollData (s : Streams) (k : Nat) (hk : Live s k) (t : String) : Step s (s.refPollData k t).1
  | recvPollTrailers (s : Streams) (k : Nat) (hk : Live s k) (t : String) : Step s (s.recvPollTrailers k t).1
  | recvPollInformational (s : Streams) (k : Nat) (hk : Live s k) (t : String) : Step s (s.recvPollInformational k t).1
  | refReleaseCapacity (s : Streams) (k : Nat) (hk : Live s k) (c : Nat) : Step s (s.refReleaseCapacity k c).1
  | refClearRecvBuffer (s : Streams) (k : Nat) (hk : Live s k) : Step s (s.refClearRecvBuffer k)

theorem ErrOK.backT {a b : Streams} (e : EvT a b) (h : ErrOK b) : ErrOK a := by
  induction e with
  | ev e => exact ErrOK.back e h
  | trans _ _ ih1 ih2 => exact ih1 (ih2 h)
  | resetPop =>
    rename_i s0
    have h1 := qPop_errSame s0 .pendingResetExpired
    cases hq : s0.qPop .pendingResetExpired with
    | mk s1 o =>
      rw [hq] at h h1
      cases o with
      | none => exact h1.errOK_back h
      | some id => exact h1.errOK_back ((transitionAfter_errSame _ _ _).errOK_back h)

theorem Step.ev {s s' : Streams} (h : Step s s') (hA : KeysOK s) : EvT s s' := by
  cases h with
  | handleError e => exact .ev (handleError_ev _ _)
  | recvGoAwayFrame l r d => exact .ev (recvGoAwayFrame_ev _ _ _ _)
  | recvEof b _ => exact recvEof_evT _ _
  | clearExpiredResetStreams n => exact clearExpiredResetStreams_evT _ _
  | applyRemoteSettings v b => exact .ev (applyRemoteSettings_ev _ _ _)
  | applyLocalSettingsFrame v => exact .ev (applyLocalSettingsFrame_ev _ _)
  | recvHeaders hd _ => exact .ev (recvHeaders_ev _ _)
  | recvData id p eos pad _ => exact .ev (recvData_ev _ _ _ _ _)
  | recvReset id r => exact .ev (recvReset_ev _ _ _)
  | recvWindowUpdate id inc => exact .ev (recvWindowUpdate_ev _ _ _)
  | innerSendReset id r => exact .ev (innerSendReset_ev _ _ _)
  | recvGoAway l _ => exact .ev (recvGoAway_ev _ _)
  | wake t => exact .ev (wake_ev _ _)
  | cloneHandle => exact .ev (cloneHandle_ev _)
  | dropHandle => exact .ev (dropHandle_ev _)
  | sendRequest isHead f eos p _ => exact .ev (sendRequest_ev _ hA.fresh _ _ _ _)
  | pollPendingOpen p t _ => exact .ev (pollPendingOpen_ev _ _ _)
  | cloneStreamRef k _ => exact .ev (cloneStreamRef_ev _ _)
  | dropStreamRef k _ _ _ => exact .ev (dropStreamRef_ev _ _)
  | refSendResponse k _ f eos => exact .ev (refSendResponse_ev _ _ _ _)
  | refSendInformationalHeaders k _ f => exact .ev (refSendInformationalHeaders_ev _ _ _)
  | refSendData k _ len eos => exact .ev (refSendData_ev _ _ _ _)
  | refSendTrailers k _ f => exact .ev (refSendTrailers_ev _ _ _)
  | refSendReset k _ r => exact .ev (refSendReset_ev _ _ _)
  | refReserveCapacity k _ c => exact .ev (refReserveCapacity_ev _ _ _)
  | pollCapacity k _ t => exact .ev (pollCapacity_ev _ _ _)
  | pollReset k _ m t => exact .ev (pollReset_ev _ _ _ _)
  | refPollData k _ t => exact .ev (refPollData_ev _ _ _)
  | recvPollTrailers k _ t => exact .ev (recvPollTrailers_ev _ _ _)
  | recvPollInformational k _ t => exact .ev (recvPollInformational_ev _ _ _)
  | refReleaseCapacity k _ c => exact .ev (refReleaseCapacity_ev _ _ _)
  | refClearRecvBuffer k _ => exact .ev (refClearRecvBuffer_ev _ _)

/-- **every covered operation keeps the full invariant** — in particular it does not panic -/
theorem Step.npi {s s' : Streams} (h : Step s s') (hn : NPI (fun _ => False) s) (he' : ErrOK s') :
    NPI (fun _ => False) s' := by
  have he : ErrOK s := ErrOK.backT (h.ev hn.keys) he'
  cases h with
  | handleError e => exact handleError_npi hn he e
  | recvGoAwayFrame l r d => exact recvGoAwayFrame_npi hn he l r d
  | recvEof b ha => exact (recvEof_npe hn he b ha).1
  | clearExpiredResetStreams n => exact (clearExpiredResetStreams_npe n hn he).1
  | applyRemoteSettings v b => exact (applyRemoteSettings_npe hn he v b).1
  | applyLocalSettingsFrame v => exact (applyLocalSettingsFrame_npe hn he v).1
  | recvHeaders hd href => exact recvHeaders_npi hn hd href he'
  | recvData id p eos pad hlen => exact recvData_npi hn id p eos pad hlen he'
  | recvReset id r => exact recvReset_npi hn id r he
  | recvWindowUpdate id inc => exact recvWindowUpdate_npi hn id inc
  | innerSendReset id r => exact innerSendReset_npi hn id r he'
  | recvGoAway l hl => exact recvGoAway_npi hn l hl
  | wake t => exact wake_npi hn t
  | cloneHandle => exact cloneHandle_npi hn
  | dropHandle => exact dropHandle_npi hn
  | sendRequest isHead f eos p hfree => exact sendRequest_npi hn isHead f eos p hfree
  | pollPendingOpen p t hp => exact pollPendingOpen_npi hn p hp t
  | cloneStreamRef k hk => exact cloneStreamRef_npi hn hk
  | dropStreamRef k hk hr hp => exact dropStreamRef_npi hn hk hr hp he
  | refSendResponse k hk f eos => exact refSendResponse_npi hn hk he f eos
  | refSendInformationalHeaders k hk f => exact refSendInformationalHeaders_npi hn hk he f
  | refSendData k hk len eos => exact refSendData_npi hn hk he len eos
  | refSendTrailers k hk f => exact refSendTrailers_npi hn hk he f
  | refSendReset k hk r => exact refSendReset_npi hn hk r he
  | refReserveCapacity k hk c => exact refReserveCapacity_npi hn hk c
  | pollCapacity k hk t => exact pollCapacity_npi hn hk t
  | pollReset k hk m t => exact pollReset_npi hn hk m t
  | refPollData k hk t => exact refPollData_npi hn hk t
  | recvPollTrailers k hk t => exact recvPollTrailers_npi hn hk t
  | recvPollInformational k hk t => exact recvPollInformational_npi hn hk t
  | refReleaseCapacity k hk c => exact refReleaseCapacity_npi hn hk c
  | refClearRecvBuffer k hk => exact refClearRecvBuffer_npi hn hk

/-- reachable from a blank, un-panicked stream layer -/
inductive Reach : Streams → Prop
  | init {s : Streams} : Blank s → s.panicked = none → (∀ q, s.getQ q = []) → Reach s
  | step {s s' : Streams} : Reach s → Step s s' → Reach s'

theorem blank_npi {s : Streams} (h : Blank s) (hp : s.panicked = none) (hq : ∀ q, s.getQ q = []) : NPI (fun _ => False) s := by
  refine ⟨hp, ?_, h.keysOK, h.next, h.inv1, h.inv2, fun q _ => qok_of_empty h.slab hq q, ⟨?_, ?_⟩⟩
  · intro x hx; rw [h.slab] at hx; cases hx
  · rw [h.ids]; exact List.nodup_nil
  · intro e he; rw [h.ids] at he; cases he

theorem Reach.ev0 {s : Streams} (h : Reach s) : KeysOK s := by
  induction h with
  | init hb _ _ => exact hb.keysOK
  | step _ hs ih => exact (hs.ev ih).keysOK ih

/-- **No panic in any reachable state** (as long as the local-error-reset quota is not exhausted): the full
    invariant `NPI`, whose first component is `panicked = none`, holds. -/
theorem reach_npi {s : Streams} (h : Reach s) (he : ErrOK s) : NPI (fun _ => False) s := by
  induction h with
  | init hb hp hq => exact blank_npi hb hp hq
  | step hr hs ih => exact hs.npi (ih (ErrOK.backT (hs.ev hr.ev0) he)) he

theorem live_of_isSome {s : Streams} {k : Nat} (h : (s.store.get? k).isSome = true) : Live s k :=
  Option.isSome_iff_exists.mp h

/-- witness: a client that has sent a request, received the response head and DATA, sent DATA, reset the stream -/
def wBlank : Streams := { actions := { recv := { flow := { windowSize := { val := 65535 }, available := { val := 65535 } } } } }
theorem wBlank_blank : Blank wBlank :=
  ⟨rfl, rfl, rfl, rfl, rfl, rfl, rfl, rfl, rfl, rfl, by intro x hx; cases hx; rfl⟩

def wR1 : Streams := (wBlank.sendRequest false [] false none).1
def wR2 : Streams := (wR1.recvHeaders { sid := 1, eos := false, status := some [50, 48, 48] }).1
def wR3 : Streams := (wR2.recvData 1 [1, 2, 3] false none).1
def wR4 : Streams := (wR3.refSendData 0 10 false).1
def wR5 : Streams := wR4.refSendReset 0 CANCEL

theorem wR5_reach : Reach wR5 := by
  have r0 : Reach wBlank := .init wBlank_blank rfl (fun q => by cases q <;> rfl)
  have r1 : Reach wR1 := .step r0 (.sendRequest _ false [] false none (by intro id h; cases h; rfl))
  have r2 : Reach wR2 := .step r1 (.recvHeaders _ _ (by decide))
  have r3 : Reach wR3 := .step r2 (.recvData _ 1 [1, 2, 3] false none (by unfold FrameLenOK; decide))
  have r4 : Reach wR4 := .step r3 (.refSendData _ 0 (live_of_isSome (by decide)) 10 false)
  exact .step r4 (.refSendReset _ 0 (live_of_isSome (by decide)) CANCEL)

theorem wR5_facts : ErrOK wR5 ∧ (wR5.stream 0).state.isClosed = true ∧ wR5.panicked = none :=
  ⟨by unfold ErrOK; decide, by decide, by decide⟩

end H2V.Lemmas.ConnNoPanicP
