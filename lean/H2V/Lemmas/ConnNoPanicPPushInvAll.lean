import H2V.Lemmas.ConnNoPanicPPushInvBackRecv
/-
  C08 (no panic) — PUSH_PROMISE bookkeeping, summary: the stage-2 bundle `PushInv` (`PPPOK`, `IBR`, `PRH`) along every
  operation of ConnResetP's `Op` and along `poll_pushed`; with it `drop_stream_ref`, `recv_push_promise` and
  `poll_pushed` keep `NPI` on ANY connection (for the connections that refuse PUSH_PROMISE — every server, every client
  with SETTINGS_ENABLE_PUSH = 0 — the simpler `NoPPP`/`NoPush` of ConnNoPanicPPushInvStep does, without any side condition).
-/
namespace H2V.Lemmas.ConnNoPanicP
open H2V H2V.Model H2V.Model.Conn H2V.Lemmas.ConnCountsP
open H2V.Lemmas.ConnResetP (Op run)
attribute [local irreducible] wrapSubU32 wrapSubUsize

/-- the PUSH_PROMISE bookkeeping invariants -/
structure PushInv (s : Streams) : Prop where
  ok : PPPOK s
  ids : IBR s
  rh : PRH s

theorem PushInv_blank {s : Streams} (hb : Blank s) : PushInv s := ⟨PPPOK_blank hb, IBR_blank hb, PRH_blank hb⟩

/-- **the bundle is kept by every operation.**  Side conditions: the handle discipline for the operations called
    through a stream handle that lower `ref_count` or pop `pending_recv` (`popKey`: the stream is live with
    `ref_count > 0` — `HOK`), `ErrOK` for `drop_stream_ref`, and for `recv_push_promise` what `recv_headers` needs too
    (no refusal pending, quota not exhausted by it) plus resolvable `pending_accept` keys (`AccOK`; `[]` on a client) -/
theorem PushInv_step {s : Streams} (hn : NPI (fun _ => False) s) (hj : PushInv s) (op : Op)
    (hkey : ∀ k, popKey op = some k → Live s k ∧ (s.stream k).refCount > 0)
    (hdrop : ∀ k, op = .dropStreamRef k → ErrOK s)
    (hpp : ∀ id h, op = .recvPushPromise id h →
      (∀ k ∈ s.recv.pendingAccept, Live s k) ∧ s.recv.refused = none ∧ ErrOK (s.recvPushPromise id h).1) :
    PushInv (op.apply s) := by
  refine ⟨?_, IBR_step hn hj.ids op, ?_⟩
  · refine PPPOK_step hn hj.ok op (fun k e => ?_) (fun id h e => ?_)
    · have := hkey k (by rw [e]; rfl)
      exact ⟨this.1, this.2, hdrop k e⟩
    · obtain ⟨a, b, c⟩ := hpp id h e
      exact ⟨hj.ids, a, b, c⟩
  · by_cases h1 : ∃ id h, op = .recvPushPromise id h
    · obtain ⟨id, h, e⟩ := h1
      subst e
      exact recvPushPromise_prh hn hj.rh id h (hpp id h rfl).2.1
    · exact PRH_step hn.keys hj.rh op (fun id h e => h1 ⟨id, h, e⟩) (fun k hk => (hkey k hk).2)

/-- `poll_pushed` (not a constructor of `Op`): `NPI` and the bundle are kept, no panic; the new handle -/
theorem refPollPushed_pushInv {s : Streams} (hn : NPI (fun _ => False) s) (hj : PushInv s) {k : Nat} (hk : Live s k) (t : String) :
    NPI (fun _ => False) (s.refPollPushed k t).1 ∧ PushInv (s.refPollPushed k t).1 ∧ ErrSame s (s.refPollPushed k t).1 :=
  let r := refPollPushed_npi_gen hn hj.ok hj.rh hk t
  ⟨r.1, ⟨r.2.1, refPollPushed_ibr hn hj.ids k t, r.2.2.1⟩, refPollPushed_errSame s k t⟩

/-- a connection without pending promises satisfies the list part trivially -/
theorem NoPPP.pppok {s : Streams} (h : NoPPP s) : PPPOK s := pppok_of_nil h

end H2V.Lemmas.ConnNoPanicP
