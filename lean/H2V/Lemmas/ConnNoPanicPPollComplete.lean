import H2V.Lemmas.ConnNoPanicPPollLoop
/-
  C08 (no panic) — part 16: `Prioritize::buffer_pending`, `Inner::buffer_pending`, `Streams::poll_complete`,
  `Streams::send_pending_refusal`: from a state that satisfies `WI` they end out of (model) fuel or in a
  state that satisfies `WI` again — in particular no `assert!/expect/unwrap` of the Rust code fires.
-/
namespace H2V.Lemmas.ConnNoPanicP
open H2V H2V.Model H2V.Model.Conn H2V.Lemmas.ConnCountsP
attribute [local irreducible] wrapSubU32 wrapSubUsize

-- ===================================================================== the first panic message is sticky

theorem reclaimFrameInner_pk (s : Streams) (fr : DataFrame) : PK s (s.reclaimFrameInner fr).1 := by
  unfold Streams.reclaimFrameInner; pk_auto
theorem reclaimFrame_pk (s : Streams) (w : Writer) : PK s (s.reclaimFrame w).1 := by
  unfold Streams.reclaimFrame; pk_auto
theorem bufferOut_pk (s : Streams) (w : Writer) (f : Streams.OutFrame) : PK s (s.bufferOut w f).1 := by
  unfold Streams.bufferOut; pk_auto
theorem prioBufferPendingLoop_pk (n : Nat) : ∀ (s : Streams) (w : Writer), PK s (Streams.prioBufferPendingLoop n s w).1 := by
  induction n with
  | zero => intro s w; unfold Streams.prioBufferPendingLoop; exact (panic_fk _ _).toPK
  | succ n ih => intro s w; unfold Streams.prioBufferPendingLoop; pk_auto_ih ih
theorem prioBufferPending_pk (n : Nat) (s : Streams) (w : Writer) : PK s (Streams.prioBufferPending n s w).1 := by
  unfold Streams.prioBufferPending; pk_auto
theorem bufferPending_pk (n : Nat) (s : Streams) (w : Writer) : PK s (Streams.bufferPending n s w).1 := by
  unfold Streams.bufferPending; pk_auto
theorem pollComplete_pk (n : Nat) : ∀ (s : Streams) (w : Writer) (io : Tio) (t : String), PK s (Streams.pollComplete n s w io t).1 := by
  induction n with
  | zero => intro s w io t; unfold Streams.pollComplete; exact (panic_fk _ _).toPK
  | succ n ih => intro s w io t; unfold Streams.pollComplete; pk_auto_ih ih

theorem OutOfFuel.pk {s t : Streams} (h : OutOfFuel s) (hp : PK s t) : OutOfFuel t := by
  rcases h with h | h
  · exact .inl (hp.pk _ h)
  · exact .inr (hp.pk _ h)

-- ===================================================================== the codec side

/-- `w'` holds no DATA frame that `w` did not hold, and at most one -/
structure WLE (w w' : Writer) : Prop where
  one : (w.lastDataFrame = none ∨ w.next = none) → (w'.lastDataFrame = none ∨ w'.next = none)
  sub : ∀ fr, held w' fr → held w fr

theorem WLE.refl (w : Writer) : WLE w w := ⟨id, fun _ h => h⟩
theorem WLE.trans {a b c : Writer} (h1 : WLE a b) (h2 : WLE b c) : WLE a c :=
  ⟨fun h => h2.one (h1.one h), fun fr h => h1.sub fr (h2.sub fr h)⟩
theorem WLE.of_eq {w w' : Writer} (h1 : w'.lastDataFrame = w.lastDataFrame) (h2 : w'.next = w.next) : WLE w w' :=
  ⟨fun h => by rw [h1, h2]; exact h, fun fr h => by unfold held at *; rw [h1, h2] at h; exact h⟩
theorem Coupled.wle {s : Streams} {w w' : Writer} (h : Coupled s w) (hw : WLE w w') : Coupled s w' :=
  h.writer (hw.one h.one) hw.sub

theorem unsetFrame_wle (w : Writer) : WLE w w.unsetFrame ∧ w.unsetFrame.next = none := by
  unfold Writer.unsetFrame
  dsimp only
  cases hn : w.next with
  | none => exact ⟨.of_eq rfl hn.symm, rfl⟩
  | some nd =>
    dsimp only
    refine ⟨⟨fun _ => .inr rfl, fun fr hf => ?_⟩, rfl⟩
    rcases hf with e | ⟨nd', e, _⟩
    · cases e; exact .inr ⟨nd, hn, rfl⟩
    · cases e

theorem wle_of_next {w w2 : Writer} (h1 : w2.lastDataFrame = w.lastDataFrame)
    (h2 : (w.next = none ∧ w2.next = none) ∨ (∃ nd nd', w.next = some nd ∧ w2.next = some nd' ∧ nd'.frame = nd.frame)) :
    WLE w w2 := by
  rcases h2 with ⟨e1, e2⟩ | ⟨nd, nd', e1, e2, e3⟩
  · exact .of_eq h1 (by rw [e1, e2])
  · refine ⟨fun h => ?_, fun fr hf => ?_⟩
    · rcases h with e | e
      · exact .inl (h1.trans e)
      · rw [e1] at e; cases e
    · rcases hf with e | ⟨x, e, e'⟩
      · exact .inl (by rw [← h1]; exact e)
      · rw [e2] at e; cases e
        exact .inr ⟨nd, e1, by rw [← e', e3]⟩

theorem flush_wle (w : Writer) (io : Tio) (tag : String) :
    WLE w (flush w io tag).1 ∧ ((flush w io tag).2.2 = .ready → (flush w io tag).1.next = none) := by
  cases hw : w.next with
  | none =>
    unfold flush
    simp only [hw]
    split
    · exact ⟨.refl _, fun h => by cases h⟩
    · cases io.budget <;> dsimp only <;> split <;> dsimp only
      · exact ⟨wle_of_next rfl (.inl ⟨hw, rfl⟩), fun h => by cases h⟩
      · refine ⟨WLE.trans ?_ (unsetFrame_wle _).1, fun _ => (unsetFrame_wle _).2⟩
        exact wle_of_next rfl (.inl ⟨hw, rfl⟩)
      · exact ⟨wle_of_next rfl (.inl ⟨hw, rfl⟩), fun h => by cases h⟩
      · refine ⟨WLE.trans ?_ (unsetFrame_wle _).1, fun _ => (unsetFrame_wle _).2⟩
        exact wle_of_next rfl (.inl ⟨hw, rfl⟩)
  | some nd =>
    unfold flush
    simp only [hw]
    have hx : ∀ (c1 c2 : Prop) [Decidable c1] [Decidable c2] (a c e : Nat) (b d f : List String) (r : Nat),
        ∃ nd0 nd', w.next = some nd0 ∧ (if c1 then (some nd, a, b) else if c2 then (some { nd with remaining := 0 }, c, d)
          else (some { nd with remaining := r }, e, f)).1 = some nd' ∧ nd'.frame = nd0.frame := by
      intro c1 c2 _ _ a c e b d f r
      split
      · exact ⟨nd, _, hw, rfl, rfl⟩
      · split <;> exact ⟨nd, _, hw, rfl, rfl⟩
    split
    · exact ⟨.refl _, fun h => by cases h⟩
    · cases io.budget <;> dsimp only <;> split <;> dsimp only
      · exact ⟨wle_of_next rfl (.inr (hx _ _ _ _ _ _ _ _ _)), fun h => by cases h⟩
      · refine ⟨WLE.trans ?_ (unsetFrame_wle _).1, fun _ => (unsetFrame_wle _).2⟩
        exact wle_of_next rfl (.inr (hx _ _ _ _ _ _ _ _ _))
      · exact ⟨wle_of_next rfl (.inr (hx _ _ _ _ _ _ _ _ _)), fun h => by cases h⟩
      · refine ⟨WLE.trans ?_ (unsetFrame_wle _).1, fun _ => (unsetFrame_wle _).2⟩
        exact wle_of_next rfl (.inr (hx _ _ _ _ _ _ _ _ _))

theorem pollReadyW_wle (w : Writer) (io : Tio) (tag : String) : WLE w (pollReadyW w io tag).1 := by
  unfold pollReadyW
  split
  · split
    · next w1 io1 heq =>
      have := (flush_wle w io tag).1; rw [heq] at this; exact this
    · exact (flush_wle w io tag).1
  · exact .refl _

theorem put_keeps (w : Writer) (seg : Seg) : (w.put seg).lastDataFrame = w.lastDataFrame ∧ (w.put seg).next = w.next := ⟨rfl, rfl⟩

theorem sendConnectionWindowUpdate_wle (s : Streams) (w : Writer) : WLE w (s.sendConnectionWindowUpdate w).2.1 := by
  unfold Streams.sendConnectionWindowUpdate
  split
  · split
    · exact .refl _
    · dsimp only; split <;> exact .of_eq rfl rfl
  · exact .refl _

theorem sendStreamWindowUpdates_wle (n : Nat) : ∀ (s : Streams) (w : Writer), WLE w (Streams.sendStreamWindowUpdates n s w).2.1 := by
  induction n with
  | zero => intro s w; unfold Streams.sendStreamWindowUpdates; exact .refl _
  | succ n ih =>
    intro s w
    unfold Streams.sendStreamWindowUpdates
    split
    · exact .refl _
    · split
      · exact .refl _
      · next s1 id heq =>
        dsimp only
        refine WLE.trans ?_ (ih _ _)
        split
        · exact .refl _
        · split
          · split <;> exact .of_eq rfl rfl
          · exact .refl _

theorem recvBufferPending_wle (s : Streams) (w : Writer) : WLE w (s.recvBufferPending w).2.1 := by
  unfold Streams.recvBufferPending
  have h1 := sendConnectionWindowUpdate_wle s w
  split
  · next s1 w1 heq => rw [heq] at h1; exact h1
  · next s1 w1 heq => rw [heq] at h1; exact h1.trans (sendStreamWindowUpdates_wle _ _ _)

-- ===================================================================== the functions

/-- `Prioritize::reclaim_frame` keeps everything, and the codec's `last_data_frame` is taken -/
theorem reclaimFrame_w {E : Nat → Prop} {g : ConnRecvP.Ghost} {s : Streams} {w : Writer} (h : WI E g s w) :
    WI E g (s.reclaimFrame w).1 (s.reclaimFrame w).2.1 ∧ (s.reclaimFrame w).2.1.lastDataFrame = none := by
  have hrc := reclaimFrame_pi h.pi h.ds h.cp
  have hs4 : ConnFlowP.SafeInv (s.reclaimFrame w).1 := by have := h.safe; safe_auto
  have hr4 := h.recv.of_ext (ConnRecvP.reclaimFrame_ext s w)
  refine ⟨⟨hrc.1, hs4, hr4, hrc.2.1, ?_⟩, by rw [hrc.2.2]⟩
  rw [hrc.2.2]
  cases hld : w.lastDataFrame with
  | some fr =>
    have hn : w.next = none := by
      rcases h.cp.one with e | e
      · rw [e] at hld; cases hld
      · exact e
    exact .of_none rfl hn
  | none =>
    rw [reclaimFrame_none hld]
    refine h.cp.writer (.inl rfl) (fun fr hf => ?_)
    rcases hf with e | ⟨nd, e, e2⟩
    · cases e
    · exact .inr ⟨nd, e, e2⟩

/-- **`Prioritize::buffer_pending`** -/
theorem prioBufferPending_w {E : Nat → Prop} {g : ConnRecvP.Ghost} (fuel : Nat) {s : Streams} {w : Writer} (h : WI E g s w) :
    OutOfFuel (Streams.prioBufferPending fuel s w).1 ∨
    WI E g (Streams.prioBufferPending fuel s w).1 (Streams.prioBufferPending fuel s w).2.1 := by
  unfold Streams.prioBufferPending
  have hr := reclaimFrame_w h
  exact prioBufferPendingLoop_w fuel hr.1 hr.2

/-- `Recv::buffer_pending` keeps everything -/
theorem recvBufferPending_w {E : Nat → Prop} {g : ConnRecvP.Ghost} {s : Streams} {w : Writer} (h : WI E g s w) :
    WI E g (s.recvBufferPending w).1 (s.recvBufferPending w).2.1 :=
  ⟨recvBufferPending_pi h.pi h.recv w,
   by have := h.safe; unfold Streams.recvBufferPending Streams.sendConnectionWindowUpdate; safe_auto,
   ConnRecvP.recvBufferPending_inv h.recv w, (recvBufferPending_dk s w).dsum h.ds,
   (h.cp.step (recvBufferPending_hk s w) (recvBufferPending_fk s w).nf).wle (recvBufferPending_wle s w)⟩

/-- **`Inner::buffer_pending`** -/
theorem bufferPending_w {E : Nat → Prop} {g : ConnRecvP.Ghost} (fuel : Nat) {s : Streams} {w : Writer} (h : WI E g s w) :
    OutOfFuel (Streams.bufferPending fuel s w).1 ∨
    WI E g (Streams.bufferPending fuel s w).1 (Streams.bufferPending fuel s w).2.1 := by
  unfold Streams.bufferPending
  have h1 := recvBufferPending_w h
  split
  · next s1 w1 heq => rw [heq] at h1; exact .inr h1
  · next s1 w1 heq => rw [heq] at h1; exact prioBufferPending_w fuel h1

theorem setTask_w {E : Nat → Prop} {g : ConnRecvP.Ghost} {s : Streams} {w : Writer} (h : WI E g s w) (t : Option String) :
    WI E g ({ s with actions := { s.actions with task := t } } : Streams) w :=
  ⟨h.pi.store (ks := []) (setMisc_lt _ _ _ _ _ _ rfl) (liveAll0 s) (by ev_auto) rfl,
   by have := h.safe; safe_auto, h.recv.of_ext (ConnRecvP.setTask_ext _ _), (DK.of_store rfl).dsum h.ds,
   h.cp.step (.of_store rfl) (.inl rfl)⟩

/-- **`Streams::poll_complete`**: from a state in which the write path's invariants hold it ends either with the
    model's own "out of fuel" marker (the driver did not supply enough fuel; the Rust loops have none), or in a
    state in which they hold again — in particular `panicked = none`: no `assert!`, `expect`, `unwrap` or
    dangling `store::Key` of the Rust code was hit. -/
theorem pollComplete_w {E : Nat → Prop} {g : ConnRecvP.Ghost} (fuel : Nat) :
    ∀ {s : Streams} {w : Writer}, WI E g s w → ∀ (io : Tio) (tag : String),
      OutOfFuel (Streams.pollComplete fuel s w io tag).1 ∨
      WI E g (Streams.pollComplete fuel s w io tag).1 (Streams.pollComplete fuel s w io tag).2.1 := by
  induction fuel with
  | zero =>
    intro s w h io tag
    unfold Streams.pollComplete
    exact .inl (.inr (panic_of_noneP h.pi.npi.np _))
  | succ n ih =>
    intro s w h io tag
    unfold Streams.pollComplete
    have hw1 := pollReadyW_wle w io tag
    split
    · next w1 io1 heq =>
      rw [heq] at hw1
      have h1 : WI E g s w1 := ⟨h.pi, h.safe, h.recv, h.ds, h.cp.wle hw1⟩
      have hb := bufferPending_w (n + 1) h1
      have hbk := bufferPending_pk (n + 1) s w1
      generalize Streams.bufferPending (n + 1) s w1 = r at hb hbk ⊢
      obtain ⟨s2, w2, status⟩ := r
      dsimp only at hb hbk ⊢
      cases status with
      | codecFull =>
        dsimp only
        rcases hb with hb | hb
        · exact .inl (hb.pk (pollComplete_pk n s2 w2 io1 tag))
        · exact ih hb io1 tag
      | complete =>
        dsimp only
        have hfl := flush_wle w2 io1 tag
        split
        · next w3 io3 heq3 =>
          rw [heq3] at hfl
          dsimp only at hfl
          rcases hb with hb | hb
          · -- the marker is kept by what follows
            have hk1 : PK s2 ({ s2 with actions := { s2.actions with task := some tag } } : Streams) := .of_eq rfl
            have hk2 := hk1.trans (reclaimFrame_pk _ w3)
            split
            · exact .inl (hb.pk hk2)
            · exact .inl (hb.pk (hk2.trans (pollComplete_pk n _ _ io3 tag)))
          · have h3 := setTask_w hb (some tag)
            have h3' : WI E g ({ s2 with actions := { s2.actions with task := some tag } } : Streams) w3 :=
              ⟨h3.pi, h3.safe, h3.recv, h3.ds, h3.cp.wle hfl.1⟩
            have h4 := reclaimFrame_w h3'
            split
            · exact .inr h4.1
            · exact ih h4.1 io3 tag
        · next w3 io3 r3 hne heq3 =>
          rw [heq3] at hfl
          dsimp only at hfl
          rcases hb with hb | hb
          · exact .inl (hb.pk (.of_eq rfl))
          · have h3 := setTask_w hb (some tag)
            exact .inr ⟨h3.pi, h3.safe, h3.recv, h3.ds, h3.cp.wle hfl.1⟩
    · next w1 io1 r1 hne heq =>
      rw [heq] at hw1
      exact .inr ⟨h.pi, h.safe, h.recv, h.ds, h.cp.wle hw1⟩

-- ===================================================================== send_pending_refusal

theorem sendPendingRefusal_w {E : Nat → Prop} {g : ConnRecvP.Ghost} {s : Streams} {w : Writer} (h : WI E g s w) :
    WI E g (s.sendPendingRefusal w).1 (s.sendPendingRefusal w).2.1 := by
  have hst : (s.sendPendingRefusal w).1.store = s.store := by
    unfold Streams.sendPendingRefusal; split
    · split <;> rfl
    · rfl
  have hpr : (s.sendPendingRefusal w).1.prio = s.prio := by
    unfold Streams.sendPendingRefusal; split
    · split <;> rfl
    · rfl
  have hw : WLE w (s.sendPendingRefusal w).2.1 := by
    unfold Streams.sendPendingRefusal; split
    · split
      · exact .refl _
      · exact .of_eq rfl rfl
    · exact .refl _
  exact ⟨h.pi.store (sendPendingRefusal_lt s w) (liveAll0 s) (sendPendingRefusal_ev (ρ := false) s w) hst,
    by have := h.safe; unfold Streams.sendPendingRefusal; safe_auto,
    h.recv.of_ext (ConnRecvP.sendPendingRefusal_ext s w), (DK.of_store hst).dsum h.ds,
    (h.cp.step (.of_store hst) (.inl (by rw [hpr]))).wle hw⟩

/-- **`Streams::send_pending_refusal`** -/
theorem pollSendPendingRefusal_w {E : Nat → Prop} {g : ConnRecvP.Ghost} (fuel : Nat) :
    ∀ {s : Streams} {w : Writer}, WI E g s w → ∀ (io : Tio) (tag : String),
      WI E g (Streams.pollSendPendingRefusal fuel s w io tag).1 (Streams.pollSendPendingRefusal fuel s w io tag).2.1 := by
  induction fuel with
  | zero => intro s w h io tag; unfold Streams.pollSendPendingRefusal; exact h
  | succ n ih =>
    intro s w h io tag
    unfold Streams.pollSendPendingRefusal
    have h1 := sendPendingRefusal_w h
    split
    · next s1 w1 heq => rw [heq] at h1; exact h1
    · next s1 w1 heq =>
      rw [heq] at h1
      have hw := pollReadyW_wle w1 io tag
      split
      · next w2 io2 heq2 =>
        rw [heq2] at hw
        exact ih ⟨h1.pi, h1.safe, h1.recv, h1.ds, h1.cp.wle hw⟩ io2 tag
      · next w2 io2 r2 hne heq2 =>
        rw [heq2] at hw
        exact ⟨h1.pi, h1.safe, h1.recv, h1.ds, h1.cp.wle hw⟩

-- ===================================================================== the statements with everything spelled out

/-- **C08, write path.**  `Streams::poll_complete` from a state that satisfies
    * `NPI E s` (the no-panic invariant of this family) and `ErrOK s`,
    * `ConnFlowP.SafeInv s` (send-side ledger, C02), `ConnRecvP.Inv true g s` (receive windows, C03),
    * the flag facts `OpenUncounted`, `PushUncounted`, `OpenNotPush`, `PPU`, `PPFresh`,
    * `DSum s` (`buffered_send_data` covers the queued DATA) and `Coupled s w` (stream layer ↔ codec)
    does not hit any `assert!` / `expect` / `unwrap` / dangling key of the Rust code: the panic slot is empty
    afterwards, or holds one of the model's two "out of fuel" markers. -/
theorem pollComplete_no_panic {E : Nat → Prop} {g : ConnRecvP.Ghost} {s : Streams} {w : Writer}
    (h : NPI E s) (he : ErrOK s) (hs : ConnFlowP.SafeInv s) (hr : ConnRecvP.Inv true g s)
    (h1 : OpenUncounted s) (h2 : PushUncounted s) (h3 : OpenNotPush s) (h4 : PPU s) (h5 : PPFresh s)
    (hd : DSum s) (hc : Coupled s w) (fuel : Nat) (io : Tio) (tag : String) :
    (Streams.pollComplete fuel s w io tag).1.panicked = none ∨
    (Streams.pollComplete fuel s w io tag).1.panicked = some "model: buffer_pending out of fuel" ∨
    (Streams.pollComplete fuel s w io tag).1.panicked = some "model: poll_complete out of fuel" := by
  have hw : WI E g s w := ⟨⟨h, he, (unc_iff (h.qs .pendingOpen (by decide))).mpr ⟨h1, h2, h3⟩, h4, h5⟩, hs, hr, hd, hc⟩
  rcases pollComplete_w fuel hw io tag with h | h
  · exact .inr h
  · exact .inl h.pi.npi.np

/-- … and when it did not run out of fuel the full invariant holds again -/
theorem pollComplete_npi {E : Nat → Prop} {g : ConnRecvP.Ghost} {s : Streams} {w : Writer} (h : WI E g s w)
    (fuel : Nat) (io : Tio) (tag : String) (hp : (Streams.pollComplete fuel s w io tag).1.panicked = none) :
    WI E g (Streams.pollComplete fuel s w io tag).1 (Streams.pollComplete fuel s w io tag).2.1 := by
  rcases pollComplete_w fuel h io tag with h | h
  · rcases h with h | h <;> (rw [hp] at h; cases h)
  · exact h

end H2V.Lemmas.ConnNoPanicP
