import H2V.Lemmas.ConnNoPanicPFiStep
/-
  C08 (no panic) — `FI` is a reachable invariant, part 11: the bundle `FB` through the write path, building blocks:
  `pop_pending_open`, `pop_frame` (clone `ConnFlowP.popFrameC`, `Stream::send_data` abstract), `reclaim_frame`.
-/
namespace H2V.Lemmas.ConnNoPanicP
open H2V H2V.Model H2V.Model.Conn H2V.Lemmas.ConnCountsP
attribute [local irreducible] wrapSubU32 wrapSubUsize

variable {sv : Bool} {E E' : Nat → Prop}

-- ===================================================================== the two raising steps

theorem incNumSendStreams_fb {s : Streams} (hb : FB sv E s) {k : Nat} (hpp : (s.stream k).isPendingPush = false)
    (hpo : (s.stream k).isPendingOpen = false) (hnsu : suB (s.stream k).state = false)
    (hnt : ∀ k' pid, pid ∈ ppq s k' → s.store.findKey? pid ≠ some k) : FB sv E (s.incNumSendStreams k) := by
  unfold Streams.incNumSendStreams
  dsimp only
  generalize hs1 : (if s.counts.canIncNumSendStreams = true then s else s.panic _) = s1
  have h1 : FK s s1 ∧ SK sv s s1 ∧ s1.store = s.store := by
    rw [← hs1]; split; exact ⟨.refl _, .refl _, rfl⟩; exact ⟨panic_fk _ _, panic_sk _ _, panic_store _ _⟩
  generalize hs2 : (if (s1.stream k).isCounted = true then s1.panic _ else s1) = s2
  have h2 : FK s1 s2 ∧ SK sv s1 s2 ∧ s2.store = s1.store := by
    rw [← hs2]; split; exact ⟨panic_fk _ _, panic_sk _ _, panic_store _ _⟩; exact ⟨.refl _, .refl _, rfl⟩
  have hfk := (h1.1.trans h2.1).trans (modCounts_fk s2 fun c => { c with numSendStreams := c.numSendStreams + 1 })
  have hsk := (h1.2.1.trans h2.2.1).trans (modCounts_sk (sv := sv) s2 fun c => { c with numSendStreams := c.numSendStreams + 1 })
  have hst3 : (s2.modCounts fun c => { c with numSendStreams := c.numSendStreams + 1 }).store = s.store := h2.2.2.trans h1.2.2
  have hb3 := hb.st hfk hsk
  generalize (s2.modCounts fun c => { c with numSendStreams := c.numSendStreams + 1 }) = s3 at hfk hsk hst3 hb3 ⊢
  have hsk3 : s3.stream k = s.stream k := stream_of_store_eqP hst3 k
  have hnt3 : ∀ k' pid, pid ∈ ppq s3 k' → s3.store.findKey? pid ≠ some k := by
    intro k' pid hp hf
    exact hnt k' pid ((hfk.ppq_sub k').subset hp) (by rw [← hst3]; exact hf)
  refine FB.modStream hb3 (fun st => { st with isCounted := true }) (fun _ => rfl) rfl rfl (fun h => h) (.inl (fun _ h => h))
    ?_ ?_ ?_ ?_ (.inl hnt3)
  all_goals rw [hsk3]
  · intro hp; have : (s.stream k).isPendingPush = true := hp; rw [hpp] at this; cases this
  · intro hp; have : (s.stream k).isPendingOpen = true := hp; rw [hpo] at this; cases this
  · refine ⟨fun hp => ?_, fun hp => ?_⟩
    · have : (s.stream k).isPendingPush = true := hp; rw [hpp] at this; cases this
    · have : (s.stream k).isPendingOpen = true := hp; rw [hpo] at this; cases this
  · intro _ hs'; have : suB (s.stream k).state = true := hs'; rw [hnsu] at this; cases this

theorem queueOpen_fb {s : Streams} (hb : FB sv E s) {k : Nat} (hloc : locId sv (s.stream k).id = true)
    (hpp : (s.stream k).isPendingPush = false) (hc : (s.stream k).isCounted = false) (hnsu : suB (s.stream k).state = false)
    (hnt : ∀ k' pid, pid ∈ ppq s k' → s.store.findKey? pid ≠ some k) : FB sv E (s.queueOpen k) := by
  unfold Streams.queueOpen Streams.qPush
  split
  · exact hb
  · dsimp only
    refine FB.st (FB.modStream hb (fun st => st.setQueued .pendingOpen true) (fun _ => rfl) rfl rfl (fun h => h) (.inl (fun _ h => h))
      (fun _ => hloc) (fun _ => hloc) ⟨fun hp' => ?_, fun _ => hc⟩ (fun _ hs' => ?_) (.inl hnt)) (setQ_fk _ _ _) (setQ_sk _ _ _)
    · have : (s.stream k).isPendingPush = true := hp'
      rw [hpp] at this; cases this
    · have : suB (s.stream k).state = true := hs'
      rw [hnsu] at this; cases this

-- ===================================================================== pop_pending_open

/-- **`Prioritize::pop_pending_open` keeps the bundle**: a stream in `pending_open` is locally initiated (`FX.ol`) and not
    `Nil`, so its send half is open (`FX.q`) -/
theorem popPendingOpen_fb {s : Streams} (hn : NPI E' s) (hb : FB sv E s) : FB sv E s.popPendingOpen.1 := by
  have hq := hn.qs .pendingOpen (by decide)
  unfold Streams.popPendingOpen
  split
  · split
    · next s1 id heq =>
      dsimp only
      have hl := qPopQ_live hq heq
      have hf := popOpen_flags hq hb.fi.unc heq
      have hfk : FK s s1 := FK.of_fst_eq heq (qPop_fk s _)
      have hsk : SK sv s s1 := SK.of_fst_eq heq (qPop_sk s _)
      have hb1 := hb.st hfk hsk
      have hloc := hb.fx.ol id hf.1
      have hnsu : suB (s.stream id).state = false := by
        cases hsu : suB (s.stream id).state with
        | false => rfl
        | true => have := (hb.fx.q id hloc hsu).po; rw [hf.1] at this; cases this
      have hnsu1 : suB (s1.stream id).state = false := by
        rcases (Cl.sk (s := s) (k := id) (.inr hnsu) hsk) with h | h
        · exact absurd hl.2.1 h
        · exact h
      have hnt : ∀ k' pid, pid ∈ ppq s1 k' → s1.store.findKey? pid ≠ some id := by
        intro k' pid hp hf'
        have := (hb.fi.ppf k' pid ((hfk.ppq_sub k').subset hp) id ((hfk.ids hb.nd).2 pid id hf')).2
        rw [hf.1] at this; cases this
      exact (incNumSendStreams_fb hb1 hf.2.2 hl.2.2 hnsu1 hnt).st (modStreamW_fk _ _ _ (fun _ => by flg_tac))
        (modStreamW_sk _ _ _ (fun _ => by sr_tac))
    · next s1 heq => exact hb.st (FK.of_fst_eq heq (qPop_fk s _)) (SK.of_fst_eq heq (qPop_sk s _))
  · exact hb

-- ===================================================================== Stream::send_data, the DATA arm

/-- what the frame needs of `Stream::send_data` -/
def SdSK (sd : Stream → Nat → Nat → Stream × List String × Bool) : Prop :=
  ∀ x a b, (sd x a b).1.key = x.key ∧ (sd x a b).1.id = x.id ∧ (sd x a b).1.state = x.state ∧
    (sd x a b).1.isPendingPush = x.isPendingPush

theorem notifyCapacity_state (x : Stream) : x.notifyCapacity.1.state = x.state ∧ x.notifyCapacity.1.id = x.id ∧
    x.notifyCapacity.1.key = x.key := by
  unfold Stream.notifyCapacity Stream.notifySend
  cases x.sendTask <;> cases x.openTask <;> simp

theorem sendDataG_sk (inst : ∀ p q : Nat, Decidable (p < q)) (x : Stream) (a b : Nat) :
    (sendDataG inst x a b).1.key = x.key ∧ (sendDataG inst x a b).1.id = x.id ∧ (sendDataG inst x a b).1.state = x.state ∧
    (sendDataG inst x a b).1.isPendingPush = x.isPendingPush := by
  refine ⟨?_, ?_, ?_, (sendDataG_fields inst x a b).2.1⟩
  all_goals (
    unfold sendDataG
    generalize x.sendFlow.sendData a = p
    obtain ⟨fl, r⟩ := p
    dsimp only
    generalize inst _ _ = d
    cases d with
    | isTrue h => rw [if_pos h]; first | exact (notifyCapacity_state _).2.2 | exact (notifyCapacity_state _).2.1 | exact (notifyCapacity_state _).1
    | isFalse h => rw [if_neg h])

theorem sdSK_sendData : SdSK Stream.sendData := fun x a b => by rw [sendData_eq_G]; exact sendDataG_sk _ x a b

theorem setStream_dangling {s : Streams} {st' : Stream} (h : ¬ Live s st'.key) : (s.setStream st').store = s.store := by
  unfold Streams.setStream Store.set
  have : (s.store.slab.map fun x => if (x.key == st'.key) = true then st' else x) = s.store.slab := by
    conv => rhs; rw [← List.map_id s.store.slab]
    refine List.map_congr_left (fun x hx => ?_)
    have hne : x.key ≠ st'.key := by
      intro e
      exact h (live_of_mem_keys (by rw [← e]; exact List.mem_map.mpr ⟨x, hx, rfl⟩))
    have : (x.key == st'.key) = false := by simpa using hne
    rw [this]; rfl
  rw [this]

theorem emitC_sk (sd : Stream → Nat → Nat → Stream × List String × Bool) (hsd : SdSK sd) (s : Streams) (id len : Nat)
    (rest : List SFrame) (ho : Opn sv s id) : SK sv s (ConnFlowP.emitC sd s id len rest) := by
  unfold ConnFlowP.emitC
  dsimp only
  have h1 : SK sv s (s.modStream id fun st => { st with pendingSend := rest }) :=
    modStream_sk_opn ho (fun st => { st with pendingSend := rest }) (fun _ => ⟨rfl, rfl, rfl, rfl⟩)
  have o1 := ho.sk h1
  generalize (s.modStream id fun st => { st with pendingSend := rest }) = s1 at h1 o1 ⊢
  have hk := hsd (s1.stream id) len s1.prio.maxBufferSize
  generalize sd (s1.stream id) len s1.prio.maxBufferSize = p at hk ⊢
  obtain ⟨st', w, bad⟩ := p
  dsimp only at hk ⊢
  have hkey : st'.key = id := hk.1.trans (stream_key _ _)
  have h2 : SK sv s (s1.setStream st') := by
    refine h1.trans ?_
    rcases o1 with o | o
    · exact .of_store (setStream_dangling (by rw [hkey]; exact o)) rfl
    · exact setStream_sk s1 st' (by rw [hkey]; exact SR.of_opn hk.1 hk.2.1 hk.2.2.1 hk.2.2.2 o)
  sk_auto

theorem FB.finish {t : Streams} (hb : FB sv E t) (id : Nat) (c : Prop) [Decidable c] (b : Bool) :
    FB sv E ((if c then (t.qPush .pendingSend id).1 else t).transitionAfter id b) := by
  refine FB.st ?_ (transitionAfter_fk _ _ _) (transitionAfter_sk _ _ _)
  split
  · exact hb.st (qPush_fk _ _ _ (by decide)) (qPush_sk _ _ _ (by decide))
  · exact hb

/-- an entry with a queued frame is `Opn` -/
theorem opn_of_queued {s : Streams} (hb : FB sv E s) {id : Nat} {f : SFrame} {rest : List SFrame}
    (hps : (s.stream id).pendingSend = f :: rest) : Opn sv s id := by
  cases hloc : locId sv (s.stream id).id with
  | false => exact .inr (.inr hloc)
  | true =>
    cases hsu : suB (s.stream id).state with
    | false => exact .inr (.inl hsu)
    | true => have := (hb.fx.q id hloc hsu).ps; rw [hps] at this; cases this

theorem popRest_sk {s : Streams} (hb : FB sv E s) {id : Nat} {f : SFrame} {rest : List SFrame}
    (hps : (s.stream id).pendingSend = f :: rest) : SK sv s (s.modStream id fun st => { st with pendingSend := rest }) :=
  modStream_sk_opn (opn_of_queued hb hps) (fun st => { st with pendingSend := rest }) (fun _ => ⟨rfl, rfl, rfl, rfl⟩)

theorem popRest_fb {s : Streams} (hb : FB sv E s) {id : Nat} {f : SFrame} {rest : List SFrame}
    (hps : (s.stream id).pendingSend = f :: rest) : FB sv E (s.modStream id fun st => { st with pendingSend := rest }) :=
  hb.st (modStream_fk' _ _ _ (popRest_flg hps)) (popRest_sk hb hps)

-- ===================================================================== the PUSH_PROMISE arm

/-- the PUSH_PROMISE frame leaves the parent's queue and the promised stream is activated: `is_pending_push` is cleared
    (no queued PUSH_PROMISE announces the stream any more: `PPU`), and if something is queued on it its send half is
    open (`FX.q`), so counting it / putting it into `pending_open` is fine -/
theorem ppArm_fb {s : Streams} (hn : NPI E' s) (hb : FB sv E s) {id pk pid pushed : Nat} {fields : List Hpack.Field}
    {rest : List SFrame} (hl : Live s id) (hps : (s.stream id).pendingSend = .pushPromise pk pid fields :: rest)
    (hfind : (s.modStream id fun st => { st with pendingSend := rest }).store.findKey? pid = some pushed) :
    FB sv E (ppActivate (s.modStream id fun st => { st with pendingSend := rest }) pushed) := by
  have hfind' : s.store.findKey? pid = some pushed := by
    unfold Store.findKey? at hfind ⊢; rw [modStream_ids] at hfind; exact hfind
  have hlp := hn.ids.findKey hfind'
  have hmem : pid ∈ ppq s id := by unfold ppq; rw [hps, mem_ppIdsOf_cons]; exact List.mem_cons_self ..
  have hfr := hb.fi.ppf id pid hmem pushed hfind'
  have hlocp : locId sv pid = true := hb.fx.lq id pid hmem
  have hfk1 : FK s (s.modStream id fun st => { st with pendingSend := rest }) := modStream_fk' _ _ _ (popRest_flg hps)
  have hsk1 : SK sv s (s.modStream id fun st => { st with pendingSend := rest }) := popRest_sk hb hps
  have hb1 := hb.st hfk1 hsk1
  have hget1 : (s.modStream id fun st => { st with pendingSend := rest }).store.get? id =
      some { s.stream id with pendingSend := rest } := modStream_get?_self s id _ _ hl.stream rfl
  have hlp1 : Live (s.modStream id fun st => { st with pendingSend := rest }) pushed := (SameKeys.modStream _ _ _).live.mpr hlp.1
  generalize hs1 : (s.modStream id fun st => { st with pendingSend := rest }) = s1 at hfind hfk1 hsk1 hb1 hget1 hlp1 ⊢
  have hc1 : (s1.stream pushed).isCounted = false := bool_false_of_impP (hfk1.fl pushed).c hfr.1
  have ho1 : (s1.stream pushed).isPendingOpen = false := bool_false_of_impP (hfk1.fl pushed).po hfr.2
  -- no queued PUSH_PROMISE announces it any more
  have hr1 : ∀ k' pid', pid' ∈ ppq s1 k' → s1.store.findKey? pid' ≠ some pushed := by
    intro k' pid' hp hf
    have hf' : s.store.findKey? pid' = some pushed := (hfk1.ids hb.nd).2 pid' pushed hf
    have hpid : pid' = pid := (hb.idm pid' pushed hf' hlp.1).symm.trans hlp.2
    subst hpid
    have hk : k' = id := hb.fi.ppu.disj k' id pid' ((hfk1.ppq_sub k').subset hp) hmem
    subst hk
    have hnd := hb.fi.ppu.nodup k'
    unfold ppq at hnd hp
    rw [hps, mem_ppIdsOf_cons] at hnd
    rw [stream_of_get? hget1] at hp
    exact (List.nodup_cons.mp hnd).1 hp
  unfold ppActivate
  dsimp only
  have hst2 := stream_modStream_live hlp1 (fun st => { st with isPendingPush := false }) (fun _ => rfl)
  have hb2 : FB sv E (s1.modStream pushed fun st => { st with isPendingPush := false }) := by
    refine FB.modStream hb1 (fun st => { st with isPendingPush := false }) (fun _ => rfl) rfl rfl (fun h => h) (.inr hr1)
      (fun hp => (by cases hp)) (fun ho => hb1.fx.ol pushed ho) ⟨fun hp => (by cases hp), fun ho => (hb1.fi.unc pushed).2 ho⟩ ?_ (.inl hr1)
    intro hl' hs'
    have := hb1.fx.q pushed hl' hs'
    exact ⟨this.c, this.po, this.ps, this.bd⟩
  have hfk2 : FK s1 (s1.modStream pushed fun st => { st with isPendingPush := false }) := modStream_fk _ _ _ (fun _ => by flg_tac)
  have hl2 : Live (s1.modStream pushed fun st => { st with isPendingPush := false }) pushed := (SameKeys.modStream _ _ _).live.mpr hlp1
  have hfind2 : (s1.modStream pushed fun st => { st with isPendingPush := false }).store.findKey? pid = some pushed := by
    unfold Store.findKey? at hfind ⊢; rw [modStream_ids]; exact hfind
  generalize (s1.modStream pushed fun st => { st with isPendingPush := false }) = s2 at hst2 hb2 hfk2 hl2 hfind2 ⊢
  have hr2 : ∀ k' pid', pid' ∈ ppq s2 k' → s2.store.findKey? pid' ≠ some pushed := fun k' pid' hp hf =>
    hr1 k' pid' ((hfk2.ppq_sub k').subset hp) ((hfk2.ids hb1.nd).2 pid' pushed hf)
  have hpp2 : (s2.stream pushed).isPendingPush = false := by rw [hst2]
  have hc2 : (s2.stream pushed).isCounted = false := by rw [hst2]; exact hc1
  have ho2 : (s2.stream pushed).isPendingOpen = false := by rw [hst2]; exact ho1
  have hloc2 : locId sv (s2.stream pushed).id = true := by rw [hb2.idm pid pushed hfind2 hl2]; exact hlocp
  split
  · next hne =>
    have hnsu2 : suB (s2.stream pushed).state = false := by
      cases hsu : suB (s2.stream pushed).state with
      | false => rfl
      | true =>
        have := (hb2.fx.q pushed hloc2 hsu).ps
        rw [this] at hne; simp at hne
    split
    · exact (incNumSendStreams_fb hb2 hpp2 ho2 hnsu2 hr2).st (qPush_fk _ _ _ (by decide)) (qPush_sk _ _ _ (by decide))
    · exact queueOpen_fb hb2 hloc2 hpp2 hc2 hnsu2 hr2
  · exact hb2

-- ===================================================================== pop_frame

set_option hygiene false in
/-- the part of `pop_frame`'s DATA arm that sends (a piece of) the frame -/
local macro "pf_data_rest_fb" : tactic => `(tactic|
  (split
   · exact ih h' hb' hs' _
   · split
     · exact ih h' hb' hs' _
     · next hc =>
       have hle1 : usizeAsU32 (min (min sz maxLen) (s'.stream id).sendFlow.available.asSize) ≤
           (s'.stream id).sendFlow.available.asSize := Nat.le_trans (ConnFlowP.usizeAsU32_le _) (Nat.min_le_right _ _)
       generalize usizeAsU32 (min (min sz maxLen) (s'.stream id).sendFlow.available.asSize) = len at *
       exact FB.finish (hb'.st (emitC_st hsd hs' hps hle1 (by
           simp only [Bool.and_eq_true, decide_eq_true_eq, not_and] at hc
           omega)).fk (emitC_sk _ hsk _ _ _ _ (opn_of_queued hb' hps))) id _ _))

/-- `pop_frame` with `Stream::send_data` abstracted keeps the bundle `FB` (next to `PI`) -/
theorem popFrameC_fb (sd : Stream → Nat → Nat → Stream × List String × Bool) (hsd : SdNP sd) (hsk : SdSK sd) (fuel : Nat) :
    ∀ {s : Streams}, PI E' s → FB sv E s → ConnFlowP.SafeInv s → ∀ maxLen, FB sv E (ConnFlowP.popFrameC sd fuel s maxLen).1 := by
  induction fuel with
  | zero => intro s _ hb _ m; rw [ConnFlowP.popFrameC_zero]; exact hb
  | succ n ih =>
    intro s h hb hs maxLen
    rw [ConnFlowP.popFrameC_succ']
    have hq := h.npi.qs .pendingSend (by decide)
    split
    · next s' heq => exact hb.st (FK.of_fst_eq heq (qPop_fk s _)) (SK.of_fst_eq heq (qPop_sk s _))
    · next s' id heq =>
      have hl := (qPopQ_live hq heq).2.1
      have h' : PI E' s' :=
        h.lt (LT.of_fst_eq heq (qPop_ltq s _ hq)) (liveAll0 s) (.of_fst_eq heq (qPop_ev _ _ (by decide) (by decide)))
          (FK.of_fst_eq heq (qPop_fk s _))
      have hb' : FB sv E s' := hb.st (FK.of_fst_eq heq (qPop_fk s _)) (SK.of_fst_eq heq (qPop_sk s _))
      have hs' : ConnFlowP.SafeInv s' := ConnFlowP.SafeInvG.of_fst_eq heq (hs.fr ((ConnFlowP.Fr.refl _).qPop _))
      dsimp only
      split
      · -- DATA
        next sz eos rest hps =>
        split
        · split
          · -- a scheduled reset discards the queued DATA
            refine ih (h'.st (ks := [id]) ⟨?_, ?_, ?_⟩ (liveAll1 hl)) (hb'.st ?_ ?_) ?_ _
            · lt_auto
            · ev_auto
            · fk_auto
            · fk_auto
            · sk_auto
            · safe_auto
          · pf_data_rest_fb
        · simp only [Bool.false_eq_true, if_false]
          pf_data_rest_fb
      · -- HEADERS
        next heos fields rest hps => exact FB.finish (popRest_fb hb' hps) id _ _
      · -- RST_STREAM
        next reason rest hps => exact FB.finish (popRest_fb hb' hps) id _ _
      · -- PUSH_PROMISE
        next pk pid fields rest hps =>
        split
        · next hfind =>
          have hst := popRest_st (rest := rest) hps
          have hfin := PI.finish (s' := s') id
            (((!((s'.modStream id fun st => { st with pendingSend := rest }).stream id).pendingSend.isEmpty ||
               ((s'.modStream id fun st => { st with pendingSend := rest }).stream id).state.isScheduledReset) = true))
            (h'.st hst (liveAll1 hl)) (hst.lt.keys.live.mpr hl) hst.ev
          refine ih hfin (FB.finish (popRest_fb hb' hps) id _ _) ?_ _
          safe_auto
        · next pushed hfind => exact FB.finish (ppArm_fb h'.npi hb' hl hps hfind) id _ _
      · -- nothing queued
        next hps =>
        split
        · next reason hsr =>
          exact FB.finish (hb'.st (modStreamW_fk _ _ _ (fun _ => by flg_tac)) (modStreamW_sk _ _ _ (fun _ => by sr_tac))) id _ _
        · refine ih (h'.ta id _ (fun hb => hb)) (hb'.st (transitionAfter_fk _ _ _) (transitionAfter_sk _ _ _)) ?_ _
          safe_auto

/-- **`Prioritize::pop_frame` keeps the bundle** -/
theorem popFrame_fb {s : Streams} (h : PI E' s) (hb : FB sv E s) (hs : ConnFlowP.SafeInv s) (fuel maxLen : Nat) :
    FB sv E (Streams.popFrame fuel s maxLen).1 := by
  rw [ConnFlowP.popFrameC.eq]; exact popFrameC_fb _ sdNP_sendData sdSK_sendData fuel h hb hs maxLen

end H2V.Lemmas.ConnNoPanicP
