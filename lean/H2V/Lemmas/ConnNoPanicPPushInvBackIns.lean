import H2V.Lemmas.ConnNoPanicPPushInvBackLoops
/-
  C08 (no panic) — PUSH_PROMISE bookkeeping, stage 2, part 15: the backward frame `HB` for the operations that insert an
  entry, for `drop_stream_ref` and for `poll_pushed`.
-/
namespace H2V.Lemmas.ConnNoPanicP
open H2V H2V.Model H2V.Model.Conn H2V.Lemmas.ConnCountsP
attribute [local irreducible] wrapSubU32 wrapSubUsize

/-- a new entry without the link flag is not held; the old ones are untouched -/
theorem insert_hb (s : Streams) (st : Stream) (hf : st.isPendingAccept = false) : HB s { s with store := (s.store.insert st).1 } :=
  ⟨fun c hc => by
    have h0 := (held_iff_of_qf (QF.insert .pendingAccept s st hf) c).mp hc
    obtain ⟨x, hx, _⟩ := h0.1
    have : ({ s with store := (s.store.insert st).1 } : Streams).stream c = s.stream c := by
      rw [stream_of_get? (s := { s with store := (s.store.insert st).1 }) (insert_get?_old s.store st c x hx), stream_of_get? hx]
    rw [this]; exact ⟨h0, rfl, [], (List.append_nil _).symm⟩⟩

theorem new_acc' (id a b : Nat) : (Stream.new id a b).isPendingAccept = false := rfl

/-- the error path `unlink(id); remove(key)` -/
theorem unlinkRemove_hb (s : Streams) (id k : Nat) : HB s { s with store := (s.store.unlink id).remove k } :=
  ⟨fun c hc => by
    obtain ⟨⟨x, hx, hq⟩, hnot⟩ := hc
    have hx' : ((s.store.unlink id).remove k).get? c = some x := hx
    have hck : c ≠ k := by
      intro e; subst e; rw [remove_get?_self] at hx'; cases hx'
    rw [get?_remove_ne _ _ _ hck] at hx'
    have hx0 : s.store.get? c = some x := hx'
    have : ({ s with store := (s.store.unlink id).remove k } : Streams).stream c = s.stream c := by
      rw [stream_of_get? (s := { s with store := (s.store.unlink id).remove k }) hx, stream_of_get? hx0]
    rw [this]; exact ⟨⟨⟨x, hx0, hq⟩, hnot⟩, rfl, [], (List.append_nil _).symm⟩⟩

theorem not_held_nextKey {s : Streams} (hk : KeysOK s) : ¬ Held s s.store.nextKey := fun h => held_ne_nextKey hk h rfl

-- ===================================================================== recv_headers, send_reset

theorem recvHeadersClosure_hb (k : Nat) (h : HeadersIn) (s : Streams) : HB s (recvHeadersClosure k h s).1 := by
  unfold recvHeadersClosure; hb_auto

theorem recvHeadersTail_hb (k : Nat) (h : HeadersIn) (s : Streams) : HB s (recvHeadersTail k h s).1 := by
  unfold recvHeadersTail
  dsimp only
  split
  · exact .refl _
  · split
    · exact .refl _
    · exact transition_hb s k _ (fun s => recvHeadersClosure_hb k h s)

theorem recvHeaders_hb (s : Streams) (h : HeadersIn) : HB s (s.recvHeaders h).1 := by
  unfold Streams.recvHeaders
  dsimp only
  split
  · exact .refl _
  · cases hfk : s.store.findKey? h.sid with
    | some k => exact recvHeadersTail_hb k h s
    | none =>
      dsimp only
      by_cases hforg : (!s.counts.isServer && s.mayHaveForgottenStream h.sid) = true
      · simp only [hforg, if_true]; exact .refl _
      · simp only [hforg, Bool.false_eq_true, if_false]
        generalize hro : s.recvOpen h.sid false = p
        obtain ⟨s1, res⟩ := p
        have h1 : HB s s1 := HB.of_fst_eq hro (recvOpen_hb s h.sid false)
        cases res with
        | error e => exact h1
        | ok b =>
          cases b
          · exact h1
          · simp only []
            exact (h1.trans (insert_hb s1 _ (new_acc' _ _ _))).trans (recvHeadersTail_hb _ h _)

theorem innerSendReset_hb (s : Streams) (id : Nat) (r : Reason) : HB s (s.innerSendReset id r).1 := by
  unfold Streams.innerSendReset
  dsimp only
  split
  · exact actionsSendReset_hb _ _ _ _
  · dsimp only
    generalize hs1 : (if s.counts.isLocalInit id = true then s.sendMaybeResetNextStreamId id else s.recvMaybeResetNextStreamId id) = s1
    have h1 : HB s s1 := by
      rw [← hs1]; split
      · exact sendMaybeResetNextStreamId_hb _ _
      · exact recvMaybeResetNextStreamId_hb _ _
    exact (h1.trans (insert_hb s1 _ (new_acc' _ _ _))).trans (actionsSendReset_hb _ _ _ _)

-- ===================================================================== send_request, send_push_promise

theorem sendRequestCore_hb {s : Streams} (hk : KeysOK s) (isHead : Bool) (fields : List Hpack.Field) (eos : Bool) :
    HB s (sendRequestCore isHead fields eos s).1 := by
  unfold sendRequestCore
  generalize hso : s.sendOpenId = p
  obtain ⟨s1, r⟩ := p
  have h1 : HB s s1 := HB.of_fst_eq hso (sendOpenId_hb s)
  have hst1 : s1.store = s.store := by have := sendOpenId_store s; rw [hso] at this; exact this
  cases r with
  | error e => exact h1
  | ok id =>
    simp only []
    generalize hsP : (if s1.store.contains id = true then s1.panic _ else s1) = sP
    have hP : HB s sP := by
      rw [← hsP]; split
      · exact h1.trans (panic_hb _ _)
      · exact h1
    have hstP : sP.store = s.store := by rw [← hsP]; split; rw [panic_store, hst1]; exact hst1
    generalize hst : (if isHead = true then _ else Stream.new id s1.actions.send.initWindowSz s1.recv.initWindowSz) = st
    have hfl : st.isPendingAccept = false := by rw [← hst]; split <;> rfl
    have h2 := hP.trans (insert_hb sP st hfl)
    have hkk : (sP.store.insert st).2 = s.store.nextKey := by show sP.store.nextKey = _; rw [hstP]
    rw [hkk]
    generalize hsh : Streams.sendHeaders _ s.store.nextKey eos fields = q
    obtain ⟨s3, r3⟩ := q
    have h3 : HB s s3 := h2.trans (HB.of_fst_eq hsh (sendHeaders_hb _ _ _ _))
    cases r3 with
    | error e => exact h3.trans (unlinkRemove_hb _ _ _)
    | ok u =>
      simp only []
      have h4 : HB s ({ s3 with refs := s3.refs + 1 } : Streams) :=
        h3.trans (setMisc_hb s3 s3.actions (s3.refs + 1) s3.recvBufferLeaked s3.wakes s3.unsupported rfl)
      exact h4.trans (refInc_hb _ _ (fun h => not_held_nextKey hk (h4.back _ h).1))

theorem sendRequest_hb {s : Streams} (hk : KeysOK s) (isHead : Bool) (fields : List Hpack.Field) (eos : Bool) (pending : Option Nat) :
    HB s (s.sendRequest isHead fields eos pending).1 := by
  rcases sendRequest_cases s isHead fields eos pending with e | e
  · rw [e]; exact .refl _
  · rw [e]; exact sendRequestCore_hb hk isHead fields eos

theorem refSendPushPromise_hb {s : Streams} (hk : KeysOK s) (parent : Nat) (valid : Bool) (fields : List Hpack.Field) :
    HB s (s.refSendPushPromise parent valid fields).1 := by
  unfold Streams.refSendPushPromise
  generalize hso : s.sendReserveLocal = p
  obtain ⟨s1, r⟩ := p
  have h1 : HB s s1 := HB.of_fst_eq hso (sendReserveLocal_hb s)
  have hst1 : s1.store = s.store := by have := sendReserveLocal_store s; rw [hso] at this; exact this
  cases r with
  | error e => exact h1
  | ok pid =>
    simp only []
    generalize hsP : (if s1.store.contains pid = true then s1.panic _ else s1) = sP
    have hP : HB s sP := by
      rw [← hsP]; split
      · exact h1.trans (panic_hb _ _)
      · exact h1
    have hstP : sP.store = s.store := by rw [← hsP]; split; rw [panic_store, hst1]; exact hst1
    have h2 := hP.trans (insert_hb sP (Stream.new pid sP.actions.send.initWindowSz sP.recv.initWindowSz) (new_acc' _ _ _))
    have hkk : (sP.store.insert (Stream.new pid sP.actions.send.initWindowSz sP.recv.initWindowSz)).2 = s.store.nextKey := by
      show sP.store.nextKey = _; rw [hstP]
    rw [hkk]
    generalize hs2 : ({ sP with store := (sP.store.insert (Stream.new pid sP.actions.send.initWindowSz sP.recv.initWindowSz)).1 } : Streams) = s2 at h2 ⊢
    split
    · exact h2
    · next st' _ heq =>
      have h3 : HB s (s2.modStream s.store.nextKey fun st => { st with state := st', isPendingPush := true }) := by
        refine h2.trans ?_
        exact modStream_hb _ _ _ (.inl fun _ => ⟨rfl, rfl, rfl, [], (List.append_nil _).symm⟩)
      generalize (s2.modStream s.store.nextKey fun st => { st with state := st', isPendingPush := true }) = s3 at h3 ⊢
      split
      · exact h3
      · generalize hsp : s3.sendPushPromise parent s.store.nextKey pid fields = q
        obtain ⟨s4, r4⟩ := q
        have h4 : HB s s4 := h3.trans (HB.of_fst_eq hsp (sendPushPromise_hb _ _ _ _ _))
        cases r4 with
        | error e => exact h4.trans (unlinkRemove_hb _ _ _)
        | ok u =>
          simp only []
          have h5 : HB s ({ s4 with refs := s4.refs + 1 } : Streams) :=
            h4.trans (setMisc_hb s4 s4.actions (s4.refs + 1) s4.recvBufferLeaked s4.wakes s4.unsupported rfl)
          exact h5.trans (refInc_hb _ _ (fun h => not_held_nextKey hk (h5.back _ h).1))

-- ===================================================================== drop_stream_ref

/-- taking the link flag off -/
theorem unflag_hb (s : Streams) (c : Nat) : HB s (s.modStream c fun st => { st with isPendingAccept := false }) ∧
    ¬ Held (s.modStream c fun st => { st with isPendingAccept := false }) c := by
  have hnot : ¬ Held (s.modStream c fun st => { st with isPendingAccept := false }) c := by
    intro hc
    obtain ⟨x, hx, hfl⟩ := hc.1
    have hl : Live s c := (SameKeys.modStream _ _ _).live.mp ⟨x, hx⟩
    have := stream_modStream_live hl (fun st => { st with isPendingAccept := false }) (fun _ => rfl)
    rw [stream_of_get? hx] at this
    rw [this] at hfl; cases hfl
  refine ⟨⟨fun c' hc' => ?_⟩, hnot⟩
  have hne : c' ≠ c := fun e => hnot (e ▸ hc')
  have hst : (s.modStream c fun st => { st with isPendingAccept := false }).stream c' = s.stream c' :=
    stream_modStream_other s c (fun st => { st with isPendingAccept := false }) (fun _ => rfl) hne
  obtain ⟨⟨x, hx, hfl⟩, hq⟩ := hc'
  have hl : Live s c' := (SameKeys.modStream _ _ _).live.mp ⟨x, hx⟩
  obtain ⟨y, hy⟩ := hl
  have hxy : x = y := by rw [← stream_of_get? hx, hst, stream_of_get? hy]
  rw [hst]
  refine ⟨⟨⟨y, hy, hxy ▸ hfl⟩, ?_⟩, rfl, [], (List.append_nil _).symm⟩
  rw [ConnResetP.modStream_recv] at hq; exact hq

theorem dropStepClosure_hb (c : Nat) (s : Streams) (hc : ¬ Held s c) : HB s (dropStepClosure c s).1 := by
  unfold dropStepClosure
  dsimp only
  have hm := maybeCancel_hb s c
  split
  · exact hm.trans (releaseClosedCapacity_hb _ c (fun h => hc (hm.back c h).1))
  · exact hm

theorem dropStep_hb (u : Streams) (c : Nat) : HB u (dropStep u c) := by
  rw [dropStep_eq]
  obtain ⟨h1, hn1⟩ := unflag_hb u c
  generalize (u.modStream c fun st => { st with isPendingAccept := false }) = u1 at h1 hn1 ⊢
  have : (u1.transition c (dropStepClosure c)).1 = (dropStepClosure c u1).1.transitionAfter c (u1.stream c).isPendingResetExpiration := rfl
  rw [this]
  exact (h1.trans (dropStepClosure_hb c u1 hn1)).trans (transitionAfter_hb _ _ _)

theorem dropFold_hb : ∀ (L : List Nat) (u : Streams), HB u (dropFold L u) := by
  intro L
  induction L with
  | nil => intro u; exact .refl _
  | cons c rest ih =>
    intro u
    rw [dropFold_eq, List.foldl_cons, ← dropFold_eq]
    exact (dropStep_hb u c).trans (ih _)

theorem dropClosure_hb (k : Nat) (t : Streams) (hk : ¬ Held t k) : HB t (dropClosure k t).1 := by
  unfold dropClosure
  dsimp only
  have hm := maybeCancel_hb t k
  split
  · have h2 := hm.trans (releaseClosedCapacity_hb _ k (fun h => hk (hm.back k h).1))
    refine (h2.trans ?_).trans (dropFold_hb _ _)
    exact modStream_hb _ _ _ (.inl fun _ => ⟨rfl, rfl, rfl, [], (List.append_nil _).symm⟩)
  · exact hm

/-- `drop_stream_ref(k)` through a handle (`k` not held) -/
theorem dropStreamRef_hb (s : Streams) (k : Nat) (hk : ¬ Held s k) : HB s (s.dropStreamRef k) := by
  rw [dropStreamRef_eq]
  have h1 := dropPre_hb s k hk
  have hk1 : ¬ Held (dropPre s k) k := fun h => hk (h1.back k h).1
  generalize dropPre s k = t at h1 hk1 ⊢
  have : (t.transition k (dropClosure k)).1 = (dropClosure k t).1.transitionAfter k (t.stream k).isPendingResetExpiration := rfl
  rw [this]
  exact (h1.trans (dropClosure_hb k t hk1)).trans (transitionAfter_hb _ _ _)

end H2V.Lemmas.ConnNoPanicP
