import H2V.Lemmas.ConnDrainPConn
/-
  ConnDrainP, part 9b — `Connection::poll2` (ConnProto.lean): `poll2Loop_pending` — `poll2` answers `Pending` only with
  the connection task parked on the transport's write waker, or on its read waker with every slot of `poll_ready`
  (PONG, PING, SETTINGS ACK, local SETTINGS, refusal) and the GOAWAY slot empty.
-/
namespace H2V.Lemmas.ConnDrainP
open H2V H2V.Model H2V.Model.Conn
open H2V.Lemmas.ConnCtlP (ackAndApply settingsRemotePart settingsLocalSend settingsLocalPart settingsPollSend_eq)

-- ===================================================================== `Connection::poll2`

theorem recvFrame_codec (c : Conn) (f : Option Frame.Frame) : (c.recvFrame f).1.codec = c.codec ∧ (c.recvFrame f).1.cx = c.cx := by
  unfold Conn.recvFrame
  dsimp only
  repeat' split
  all_goals first
    | exact ⟨rfl, rfl⟩
    | (unfold Conn.dynGoAway Conn.panic; dsimp only; repeat' split
       all_goals exact ⟨rfl, rfl⟩)

theorem recvSettings_codec (c : Conn) (a : Bool) (v : List (Nat × Nat)) :
    (c.recvSettings a v).1.codec.w = c.codec.w ∧ (c.recvSettings a v).1.codec.io = c.codec.io ∧ (c.recvSettings a v).1.cx = c.cx := by
  unfold Conn.recvSettings
  dsimp only
  repeat' split
  all_goals first
    | exact ⟨rfl, rfl, rfl⟩
    | (unfold Conn.panic; exact ⟨rfl, rfl, rfl⟩)

theorem pollNext_w (n : Nat) : ∀ (c : Codec) (tag : String), (pollNext n c tag).1.w = c.w ∧
    (pollNext n c tag).1.io.writeWaker = c.io.writeWaker := by
  induction n with
  | zero => intro c tag; exact ⟨rfl, rfl⟩
  | succ n ih =>
    intro c tag
    unfold pollNext
    split
    · exact ⟨rfl, rfl⟩
    · simp only
      split
      · exact ⟨rfl, rfl⟩
      · exact ⟨rfl, rfl⟩
      · split
        · exact ih _ _
        · repeat' split
          all_goals exact ⟨rfl, rfl⟩

/-- the connection task is parked where it will be woken: on the transport's write waker (the codec could not
    take more), or on the read waker with nothing of `poll_ready`'s slots and no GOAWAY owed -/
def ConnParked (c : Conn) : Prop :=
  WriteParked c ∨ (c.codec.io.readWaker = some c.cx ∧ c.goAway.pending = none ∧ ReadyDone c)

theorem conn_panic_panicked (c : Conn) (m : String) : (c.panic m).streams.panicked ≠ none :=
  ConnWakeP.panic_panicked _ _

theorem poll2Loop_pending (n : Nat) : ∀ (c c' : Conn), CapOK c.codec.w → Conn.poll2Loop n c = (c', .pending) →
    c'.streams.panicked = none → ConnParked c' ∧ CapOK c'.codec.w ∧ c'.cx = c.cx := by
  induction n with
  | zero =>
    intro c c' _ h hp
    unfold Conn.poll2Loop at h
    cases h
    exact absurd hp (conn_panic_panicked _ _)
  | succ n ih =>
    intro c c' hc h hp
    unfold Conn.poll2Loop at h
    dsimp only at h
    have hg := sendPendingGoAway_spec c
    rcases hr0 : c.sendPendingGoAway with ⟨c0, r0⟩
    rw [hr0] at hg h
    obtain ⟨st0, pp0, se0, str0, w0, ok0⟩ := hg
    dsimp only at st0 pp0 se0 str0 w0 ok0 h
    -- what `goOn` does
    have goOn : c0.goAway.pending = none →
        (match c0.pollReady with
          | (c, .pending) => (c, PollRes.pending)
          | (c, .err e) => (c, .ready (.error e))
          | (c, .ok) =>
            let (codec, polled) := pollNext (c.codec.r.buf.length + c.codec.io.rd.length + 2) c.codec c.cx
            let c := { c with codec := codec }
            match polled with
            | .pending => (c, .pending)
            | .err e => (c, .ready (.error (Conn.rerrToPErr e)))
            | .ioErr kind msg => (c, .ready (.error (.io kind msg)))
            | other =>
              let frame := match other with | .frame f => some f | _ => none
              match c.recvFrame frame with
              | (c, .error e) => (c, .ready (.error e))
              | (c, .ok .continue) => Conn.poll2Loop n c
              | (c, .ok .done) => (c, .ready (.ok ()))
              | (c, .ok (.settings ack vals)) =>
                match c.recvSettings ack vals with
                | (c, .error e) => (c, .ready (.error e))
                | (c, .ok _) => Conn.poll2Loop n c) = (c', .pending) →
        ConnParked c' ∧ CapOK c'.codec.w ∧ c'.cx = c.cx := by
      intro hgp h
      have h1 := pollReady_spec c0
      rcases hr1 : c0.pollReady with ⟨c1, r1⟩
      rw [hr1] at h1 h
      obtain ⟨st1, g1, w1, ok1⟩ := h1
      dsimp only at st1 g1 w1 ok1 h
      have hc1 : CapOK c1.codec.w := st1.cap (st0.cap hc)
      have cx1 : c1.cx = c.cx := st1.cx.trans st0.cx
      cases r1 with
      | pending =>
        dsimp only at h; cases h
        exact ⟨Or.inl (w1 rfl (st0.cap hc)), hc1, cx1⟩
      | err e => dsimp only at h; cases h
      | ok =>
        dsimp only at h
        rcases hpn : pollNext (c1.codec.r.buf.length + c1.codec.io.rd.length + 2) c1.codec c1.cx with ⟨codec, polled⟩
        rw [hpn] at h
        dsimp only at h
        have hw : codec.w = c1.codec.w ∧ codec.io.writeWaker = c1.codec.io.writeWaker := by
          have := pollNext_w (c1.codec.r.buf.length + c1.codec.io.rd.length + 2) c1.codec c1.cx
          rw [hpn] at this; exact this
        have hc2 : CapOK codec.w := by rw [hw.1]; exact hc1
        -- after the frame: the loop goes on
        have after : ∀ (fr : Option Frame.Frame),
            (match Conn.recvFrame { c1 with codec := codec } fr with
              | (c, .error e) => (c, PollRes.ready (.error e))
              | (c, .ok .continue) => Conn.poll2Loop n c
              | (c, .ok .done) => (c, .ready (.ok ()))
              | (c, .ok (.settings ack vals)) =>
                match c.recvSettings ack vals with
                | (c, .error e) => (c, .ready (.error e))
                | (c, .ok _) => Conn.poll2Loop n c) = (c', .pending) →
            ConnParked c' ∧ CapOK c'.codec.w ∧ c'.cx = c.cx := by
          intro fr h
          have hf := recvFrame_codec { c1 with codec := codec } fr
          rcases hrf : Conn.recvFrame { c1 with codec := codec } fr with ⟨c3, r3⟩
          rw [hrf] at hf h
          dsimp only at hf h
          have hc3 : CapOK c3.codec.w := by rw [hf.1]; exact hc2
          have cx3 : c3.cx = c.cx := hf.2.trans cx1
          cases r3 with
          | error e => dsimp only at h; cases h
          | ok rf =>
            cases rf with
            | «continue» =>
              dsimp only at h
              obtain ⟨a, b, d⟩ := ih c3 c' hc3 h hp
              exact ⟨a, b, d.trans cx3⟩
            | done => dsimp only at h; cases h
            | settings ack vals =>
              dsimp only at h
              have hs := recvSettings_codec c3 ack vals
              rcases hrs : c3.recvSettings ack vals with ⟨c4, r4⟩
              rw [hrs] at hs h
              dsimp only at hs h
              cases r4 with
              | error e => dsimp only at h; cases h
              | ok u =>
                dsimp only at h
                obtain ⟨a, b, d⟩ := ih c4 c' (by rw [hs.1]; exact hc3) h hp
                exact ⟨a, b, d.trans (hs.2.2.trans cx3)⟩
        cases polled with
        | pending =>
          dsimp only at h
          cases h
          refine ⟨Or.inr ⟨?_, ?_, ?_⟩, hc2, cx1⟩
          · exact pollNext_pending_parks _ _ _ _ (by omega) hpn
          · show c1.goAway.pending = none
            rw [g1]; exact hgp
          · have := ok1 rfl
            exact ⟨this.pong, this.ping, this.remote, this.loc, this.refused⟩
        | err e => dsimp only at h; cases h
        | ioErr k m => dsimp only at h; cases h
        | frame f => dsimp only at h; exact after (some f) h
        | eof => dsimp only at h; exact after none h
    cases r0 with
    | pending =>
      dsimp only at h; cases h
      exact ⟨Or.inl (w0 rfl hc), st0.cap hc, st0.cx⟩
    | err e => dsimp only at h; cases h
    | none =>
      dsimp only at h
      exact goOn (ok0 (fun h => nomatch h) (fun e h => nomatch h)) h
    | reason r =>
      dsimp only at h
      split at h
      · split at h <;> cases h
      · exact goOn (ok0 (fun h => nomatch h) (fun e h => nomatch h)) h

end H2V.Lemmas.ConnDrainP
