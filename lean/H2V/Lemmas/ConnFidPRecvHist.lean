import H2V.Lemmas.ConnFidPFinal
/-
  ConnFidP, part 24 — the receive ledger over every reachable state: every `ApiStep` is a path of elementary steps
  (`ApiStep.path`), so a reachable stream layer is reached from an empty one by ONE path, along which the ledger holds.
-/
set_option linter.unusedSectionVars false
namespace H2V.Lemmas.ConnFidP
open H2V H2V.Model H2V.Model.Conn H2V.Lemmas.ConnWakeP

/-- every label permitted -/
def permAll : Perm :=
  { push := fun _ _ => True, pop := True, write := True, cut := fun _ => True, rpush := fun _ _ => True,
    rpop := fun _ => True, rclear := fun _ => True, gone := True }

theorem permAll_ok (l : Lbl) : permAll.ok l := by
  cases l <;> simp only [Perm.ok, permAll] <;> first | trivial | exact Or.inl trivial

theorem Tr.all {P : Perm} {s s' : Streams} (t : Tr P s s') : Tr permAll s s' := by
  obtain ⟨tr, p⟩ := t; exact ⟨tr, p.mono (fun l _ => permAll_ok l)⟩

/-- **every API operation is a path of elementary steps on the stream layer** -/
theorem ApiStep.path {s s' : Streams} {w w' : Writer} (st : ApiStep s w s' w') : Tr permAll s s' := by
  have hg : permAll.gone := trivial
  have hc : CutAll permAll := fun _ => trivial
  have hA : RpushAll permAll := fun _ _ => trivial
  have hr : RclearAll permAll := fun _ => trivial
  have t0 := Tr.refl permAll s
  cases st with
  | recvHeaders hd hov => exact recvHeaders_acc' hg hd hov hc hA t0
  | recvHeadersAny hd => exact recvHeaders_acc hg hd hc hA (fun _ => Or.inl trivial) t0
  | recvData id p eos pad => exact recvData_acc hg id p eos pad hc hA t0
  | recvReset id r => exact recvReset_acc hg id r hc t0
  | recvWindowUpdate id inc => exact recvWindowUpdate_acc hg id inc hc t0
  | recvPushPromise id hd => exact recvPushPromise_acc hg id hd hc hA t0
  | handleError e => exact handleError_acc hg e hc t0
  | recvGoAwayFrame l r d => exact recvGoAwayFrame_acc hg l r d hc t0
  | recvGoAway l => exact recvGoAway_acc hg l t0
  | recvEof b => exact recvEof_acc hg b hc t0
  | innerSendReset id r => exact innerSendReset_acc hg id r hc t0
  | setTargetConnectionWindow t => exact setTargetConnectionWindow_acc hg t t0
  | applyRemoteSettings v b => exact applyRemoteSettings_acc hg v b hc t0
  | applyLocalSettingsFrame v => exact applyLocalSettingsFrame_acc hg v t0
  | clearExpiredResetStreams n => exact clearExpiredResetStreams_acc hg n t0
  | pollComplete n io t => exact pollComplete_acc hg n w io t trivial trivial hc t0
  | pollSendPendingRefusal n io t => exact pollSendPendingRefusal_acc hg n w io t t0
  | codec _ _ _ => exact t0
  | wake t => exact wake_acc t t0
  | clearWakes => exact setWakes_acc [] t0
  | panic m => exact panic_acc m t0
  | cloneHandle => exact cloneHandle_acc hg t0
  | dropHandle => exact dropHandle_acc hg t0
  | sendRequest b f eos p => exact (sendRequest_tr s b f eos p).all
  | pollPendingOpen p t => exact pollPendingOpen_acc hg p t t0
  | nextIncoming => exact nextIncoming_acc hg t0
  | recvTakeRequest k => exact recvTakeRequest_acc hg k trivial t0
  | cloneStreamRef k => exact cloneStreamRef_acc hg k t0
  | dropStreamRef k => exact dropStreamRef_acc hg k hr t0
  | refSendResponse k f eos => exact (refSendResponse_tr s k f eos).all
  | refSendInformationalHeaders k f => exact (refSendInformationalHeaders_tr s k f).all
  | refSendPushPromise parent v f =>
    exact refSendPushPromise_acc hg parent v f (fun _ _ => Or.inl trivial) t0
  | refSendData k len eos => exact (refSendData_tr s k len eos).all
  | refSendTrailers k f => exact (refSendTrailers_tr s k f).all
  | refReserveCapacity k c => exact refReserveCapacity_acc hg k c t0
  | pollCapacity k t => exact pollCapacity_acc hg k t t0
  | refSendReset k r => exact refSendReset_acc hg k r trivial t0
  | pollReset k m t => exact pollReset_acc hg k m t t0
  | recvPollResponse n k t => exact recvPollResponse_acc hg n k t trivial t0
  | recvPollInformational k t => exact recvPollInformational_acc hg k t trivial t0
  | refPollData k t => exact refPollData_acc hg k t trivial t0
  | refPollPushed k t => exact refPollPushed_acc hg k t (fun _ => trivial) t0
  | recvPollTrailers k t => exact recvPollTrailers_acc hg k t trivial t0
  | refReleaseCapacity k c => exact refReleaseCapacity_acc hg k c t0
  | refClearRecvBuffer k => exact refClearRecvBuffer_acc hg k trivial t0

/-- a reachable stream layer is reached from an empty one by one path of elementary steps -/
theorem Reach.path {s : Streams} {w : Writer} (r : Reach s w) :
    ∃ s0 tr, s0.store.slab = [] ∧ Path permAll s0 s tr := by
  induction r with
  | init s w h0 _ _ => exact ⟨s, [], h0, .refl s⟩
  | step _ st ih =>
    obtain ⟨s0, tr, h0, p⟩ := ih
    obtain ⟨tr', p'⟩ := st.path
    exact ⟨s0, tr ++ tr', h0, p.trans p'⟩

/-- **RECEIVE-SIDE FIDELITY IN EVERY REACHABLE STATE.**  There is a label sequence `tr` explaining the whole history —
    every `rpush k e` in it is an event queued at the BACK of `pending_recv` of `k`, every `rpop k e` an event taken off
    its HEAD by a receive handle — such that for every entry `k` whose receive queue was never cleared
    (`clear_recv_buffer`) and that was not removed:   taken off so far ++ still queued = everything ever queued on it. -/
theorem Reach.recv_ledger {s : Streams} {w : Writer} (r : Reach s w) :
    ∃ s0 tr, Path permAll s0 s tr ∧ ∀ k, rlost k tr = false → dlvd k tr ++ rq s k = rcvd k tr := by
  obtain ⟨s0, tr, h0, p⟩ := r.path
  refine ⟨s0, tr, p, fun k hl => ?_⟩
  have := p.recv_ledger k hl
  have hq : rq s0 k = [] := by
    apply rq_of_none; unfold Store.get?; rw [h0]; rfl
  rw [hq, List.nil_append] at this; exact this

end H2V.Lemmas.ConnFidP
