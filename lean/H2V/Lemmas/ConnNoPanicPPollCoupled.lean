import H2V.Lemmas.ConnNoPanicPPollHeld
/-
  C08 (no panic) — part 14: the coupling `Streams` ↔ `Writer` (`Coupled`): a DATA frame the codec still holds
  (`last_data_frame`, or `next` while its payload is being written) has `in_flight_data_frame ≠ Nothing` on
  the stream side, and — unless the stream's queue was cleared meanwhile (`Drop`) — its remainder is
  accounted for by a live stream (`HeldOK`).  With it `reclaim_frame` does not panic
  (`expect("wasn't expecting a frame to reclaim")`, the `store::Key` of the frame).
  `HK`: steps that leave every live entry with buffered data alone (fourth frame relation).
-/
namespace H2V.Lemmas.ConnNoPanicP
open H2V H2V.Model H2V.Model.Conn H2V.Lemmas.ConnCountsP
attribute [local irreducible] wrapSubU32 wrapSubUsize

-- ===================================================================== entries with buffered data stay

structure HK (s s' : Streams) : Prop where
  hk : ∀ j, Live s j → (s.stream j).bufferedSendData ≠ 0 →
    Live s' j ∧ (s'.stream j).pendingSend = (s.stream j).pendingSend ∧
    (s'.stream j).bufferedSendData = (s.stream j).bufferedSendData

theorem HK.refl (s : Streams) : HK s s := ⟨fun _ h _ => ⟨h, rfl, rfl⟩⟩
theorem HK.trans {a b c : Streams} (h1 : HK a b) (h2 : HK b c) : HK a c :=
  ⟨fun j hl hb =>
    have r1 := h1.hk j hl hb
    have r2 := h2.hk j r1.1 (by rw [r1.2.2]; exact hb)
    ⟨r2.1, r2.2.1.trans r1.2.1, r2.2.2.trans r1.2.2⟩⟩
theorem HK.of_fst_eq {s : Streams} {α : Type} {p : Streams × α} {a : Streams} {x : α}
    (h : p = (a, x)) (e : HK s p.1) : HK s a := by subst h; exact e
theorem HK.of_store {s s' : Streams} (h : s'.store = s.store) : HK s s' :=
  ⟨fun j hl _ => ⟨by unfold Live at *; rw [h]; exact hl, by rw [stream_of_store_eqP h], by rw [stream_of_store_eqP h]⟩⟩

theorem HK.heldOK {s s' : Streams} (h : HK s s') {fr : DataFrame} (ho : HeldOK s fr) : HeldOK s' fr := by
  intro hr
  have := ho hr
  have r := h.hk fr.key this.1 (by omega)
  exact ⟨r.1, by rw [r.2.1, r.2.2]; exact this.2.1, by rw [r.2.2]; exact this.2.2⟩

theorem panic_hk (s : Streams) (m : String) : HK s (s.panic m) := .of_store (panic_store _ _)
theorem wake_hk (s : Streams) (t : List String) : HK s (s.wake t) := .of_store rfl
theorem modRecv_hk (s : Streams) (f : Recv → Recv) : HK s (s.modRecv f) := .of_store rfl
theorem modPrio_hk (s : Streams) (f : Prioritize → Prioritize) : HK s (s.modPrio f) := .of_store rfl
theorem setQ_hk (s : Streams) (q : QName) (l : List Nat) : HK s (s.setQ q l) := .of_store (setQ_store _ _ _)
theorem setMisc_hk (s : Streams) (a : Actions) (refs leaked : Nat) (wk : List String) (un : Option String) :
    HK s { s with actions := a, refs := refs, recvBufferLeaked := leaked, wakes := wk, unsupported := un } := .of_store rfl
theorem setCounts_hk (s : Streams) (c : Counts) : HK s { s with counts := c } := .of_store rfl

theorem modStream_hk (s : Streams) (k : Nat) (f : Stream → Stream)
    (h : ∀ x, (f x).key = x.key ∧ (f x).pendingSend = x.pendingSend ∧ (f x).bufferedSendData = x.bufferedSendData) :
    HK s (s.modStream k f) :=
  ⟨fun j hl _ =>
    ⟨(SameKeys.modStream s k f).live.mpr hl,
     SPr.modStream (P := fun x => x.pendingSend) s k f (fun x => (h x).1) (fun x => (h x).2.1) j,
     SPr.modStream (P := fun x => x.bufferedSendData) s k f (fun x => (h x).1) (fun x => (h x).2.2) j⟩⟩

theorem qPop_hk (s : Streams) (q : QName) : HK s (s.qPop q).1 := by
  unfold Streams.qPop; split
  · exact .refl _
  · exact (setQ_hk _ _ _).trans (modStream_hk _ _ _ (fun x => by cases q <;> exact ⟨rfl, rfl, rfl⟩))
theorem qPush_hk (s : Streams) (q : QName) (k : Nat) : HK s (s.qPush q k).1 := by
  unfold Streams.qPush; split
  · exact .refl _
  · exact (modStream_hk _ _ _ (fun x => by cases q <;> exact ⟨rfl, rfl, rfl⟩)).trans (setQ_hk _ _ _)

/-- `transition_after` releases closed streams only: nothing is buffered on them -/
theorem transitionAfter_hk (s : Streams) (k : Nat) (b : Bool) : HK s (s.transitionAfter k b) := by
  refine ⟨fun j hl hb => ?_⟩
  obtain ⟨m, hfr, _, hfin⟩ := transitionAfter_shape s k b
  have hcore := hfr.core j
  unfold coreOf at hcore
  simp only [Prod.mk.injEq] at hcore
  have hlm : Live m j := hfr.keys.live.mpr hl
  rcases hfin with e | ⟨hc, _, e⟩
  · refine ⟨by unfold Live at *; rw [e]; exact hlm, ?_, ?_⟩
    · rw [stream_of_store_eqP e]; exact hcore.2.2.1
    · rw [stream_of_store_eqP e]; exact hcore.2.1
  · have hjk : j ≠ k := by
      intro e'; subst e'
      unfold Stream.isClosed at hc
      simp only [Bool.and_eq_true, beq_iff_eq] at hc
      exact hb hc.2
    have hst : (s.transitionAfter k b).stream j = m.stream j := by
      unfold Streams.stream; rw [e, get?_remove_ne _ _ _ hjk]
    refine ⟨by unfold Live at *; rw [e, get?_remove_ne _ _ _ hjk]; exact hlm, ?_, ?_⟩
    · rw [hst]; exact hcore.2.2.1
    · rw [hst]; exact hcore.2.1

syntax "hk_side" : tactic
macro_rules | `(tactic| hk_side) => `(tactic| (intro _; exact ⟨rfl, rfl, rfl⟩))
macro_rules | `(tactic| hk_side) => `(tactic| assumption)

elab "hk_head" : tactic => do
  relHead ``HK "_hk" (← `(tactic| first
    | with_reducible refine HK.trans ?_ (setMisc_hk _ _ _ _ _ _)
    | with_reducible refine HK.trans ?_ (setCounts_hk _ _)))

syntax "hk_step" : tactic
macro_rules | `(tactic| hk_step) => `(tactic| hk_head)
macro_rules | `(tactic| hk_step) => `(tactic| with_reducible refine HK.of_fst_eq (by with_reducible assumption) ?_)
macro_rules | `(tactic| hk_step) => `(tactic| with_reducible assumption)
macro_rules | `(tactic| hk_step) => `(tactic| with_reducible exact HK.refl _)

macro "hk_auto" : tactic => `(tactic| repeat (first | hk_step | hk_side | intro _ | split | dsimp only))
macro "hk_auto_ih" ih:ident : tactic =>
  `(tactic| repeat (first | hk_step | with_reducible refine HK.trans ?_ ($ih ..) | hk_side | intro _ | split | dsimp only))

theorem sendConnectionWindowUpdate_hk (s : Streams) (w : Writer) : HK s (s.sendConnectionWindowUpdate w).1 := by
  unfold Streams.sendConnectionWindowUpdate; hk_auto
theorem sendStreamWindowUpdates_hk (n : Nat) : ∀ (s : Streams) (w : Writer), HK s (Streams.sendStreamWindowUpdates n s w).1 := by
  induction n with
  | zero => intro s w; unfold Streams.sendStreamWindowUpdates; exact .refl _
  | succ n ih => intro s w; unfold Streams.sendStreamWindowUpdates; hk_auto_ih ih
theorem recvBufferPending_hk (s : Streams) (w : Writer) : HK s (s.recvBufferPending w).1 := by
  unfold Streams.recvBufferPending; hk_auto

-- ===================================================================== the coupling

/-- the codec holds DATA frame `fr` -/
def held (w : Writer) (fr : DataFrame) : Prop := w.lastDataFrame = some fr ∨ ∃ nd, w.next = some nd ∧ nd.frame = fr

structure Coupled (s : Streams) (w : Writer) : Prop where
  one : w.lastDataFrame = none ∨ w.next = none
  inflight : ∀ fr, held w fr → s.prio.inFlightDataFrame ≠ .nothing
  ok : ∀ fr, held w fr → (∃ k, s.prio.inFlightDataFrame = .dataFrame k) → HeldOK s fr

theorem held_none {w : Writer} (h1 : w.lastDataFrame = none) (h2 : w.next = none) (fr : DataFrame) : ¬ held w fr := by
  rintro (e | ⟨nd, e, _⟩)
  · rw [h1] at e; cases e
  · rw [h2] at e; cases e

theorem Coupled.of_none {s : Streams} {w : Writer} (h1 : w.lastDataFrame = none) (h2 : w.next = none) : Coupled s w :=
  ⟨.inl h1, fun fr hf => absurd hf (held_none h1 h2 fr), fun fr hf => absurd hf (held_none h1 h2 fr)⟩

/-- the stream side moves by a step that keeps entries with buffered data and `in_flight_data_frame` (up to `Drop`) -/
theorem Coupled.step {s s' : Streams} {w : Writer} (h : Coupled s w) (hk : HK s s')
    (hn : InflLE s.prio.inFlightDataFrame s'.prio.inFlightDataFrame) : Coupled s' w := by
  refine ⟨h.one, fun fr hf => ?_, fun fr hf hd => ?_⟩
  · have := h.inflight fr hf
    rcases hn with e | ⟨e, _⟩
    · rw [e]; exact this
    · rw [e]; intro h'; cases h'
  · obtain ⟨k, hk'⟩ := hd
    rcases hn with e | ⟨e, _⟩
    · exact hk.heldOK (h.ok fr hf ⟨k, by rw [← e]; exact hk'⟩)
    · rw [e] at hk'; cases hk'

/-- the codec side moves to a writer that holds nothing new -/
theorem Coupled.writer {s : Streams} {w w' : Writer} (h : Coupled s w) (h1 : w'.lastDataFrame = none ∨ w'.next = none)
    (h2 : ∀ fr, held w' fr → held w fr) : Coupled s w' :=
  ⟨h1, fun fr hf => h.inflight fr (h2 fr hf), fun fr hf => h.ok fr (h2 fr hf)⟩

-- ===================================================================== reclaim_frame, dst.buffer(frame)

theorem FI.of_store {s t : Streams} (h : t.store = s.store) (hi : FI s) : FI t := by
  have hst : ∀ j, t.stream j = s.stream j := stream_of_store_eqP h
  have hq : ∀ j, ppq t j = ppq s j := fun j => by unfold ppq; rw [hst]
  refine ⟨fun k => by rw [hst]; exact hi.unc k, ⟨fun k => by rw [hq]; exact hi.ppu.nodup k, fun k k' pid h1 h2 => ?_⟩, ?_⟩
  · rw [hq] at h1 h2; exact hi.ppu.disj k k' pid h1 h2
  · intro k pid hp pushed hf
    rw [hq] at hp; rw [h] at hf; rw [hst]
    exact hi.ppf k pid hp pushed hf

theorem PI.store {E : Nat → Prop} {ks : List Nat} {s t : Streams} (h : PI E s) (hlt : LT ks s t) (hl : LiveAll s ks)
    (e : EvB false s t) (hst : t.store = s.store) : PI E t :=
  ⟨h.npi.lt hlt.w hl e noE, hlt.err.errOK h.err, h.fi.of_store hst⟩

theorem ppIdsOf_data (len : Nat) (eos : Bool) (l : List SFrame) : ppIdsOf (.data len eos :: l) = ppIdsOf l := by
  unfold ppIdsOf; rfl

/-- **`Prioritize::reclaim_frame_inner`**: no `expect` fires, the remainder goes back to a live entry -/
theorem reclaimFrameInner_pi {E : Nat → Prop} {s : Streams} {fr : DataFrame} (h : PI E s) (hd : DSum s)
    (hnf : s.prio.inFlightDataFrame ≠ .nothing)
    (hok : (∃ k, s.prio.inFlightDataFrame = .dataFrame k) → HeldOK s fr) :
    PI E (s.reclaimFrameInner fr).1 ∧ DSum (s.reclaimFrameInner fr).1 := by
  unfold Streams.reclaimFrameInner
  dsimp only
  have h0 : PI E (s.modPrio fun p => { p with inFlightDataFrame := .nothing }) :=
    h.store (ks := []) (modPrio_lt _ _ (fun _ => rfl)) (liveAll0 s) (by ev_auto) rfl
  have hd0 : DSum (s.modPrio fun p => { p with inFlightDataFrame := .nothing }) := (modPrio_dk _ _).dsum hd
  generalize hs0 : (s.modPrio fun p => { p with inFlightDataFrame := .nothing }) = s0 at h0 hd0
  have hst0 : ∀ j, s0.stream j = s.stream j := fun j => by rw [← hs0]; rfl
  cases hin : s.prio.inFlightDataFrame with
  | nothing => exact absurd hin hnf
  | drop => exact ⟨h0, hd0⟩
  | dataFrame k =>
    dsimp only
    split
    · next hr =>
      have ho := hok ⟨k, hin⟩ hr
      have hl0 : Live s0 fr.key := by rw [← hs0]; exact ho.1
      have h1 : St [fr.key] s0 (s0.modStream fr.key fun st => { st with pendingSend := .data fr.rest fr.eos :: st.pendingSend }) :=
        ⟨modStream_lt _ _ _ (fun _ => by inert_tac), modStream_ev' _ _ _ (setPendingSend_same' _ _ (mem_cons_pp rfl)),
         modStream_fk _ _ _ (fun x => ⟨rfl, id, id, id, by
           show (ppIdsOf (.data fr.rest fr.eos :: x.pendingSend)).Sublist _
           rw [ppIdsOf_data]; exact .refl _⟩)⟩
      have hdk1 : DK s0 (s0.modStream fr.key fun st => { st with pendingSend := .data fr.rest fr.eos :: st.pendingSend }) :=
        modStream_dk' _ _ _ (fun _ => rfl) (fun _ => by
          rw [hst0]
          unfold DS
          show dsum (.data fr.rest fr.eos :: (s.stream fr.key).pendingSend) ≤ _ ∧ _
          simp only [dsum]
          exact ⟨ho.2.1, ho.2.2⟩)
      generalize hs1 : (s0.modStream fr.key fun st => { st with pendingSend := .data fr.rest fr.eos :: st.pendingSend }) = s1
        at h1 hdk1
      have hl1 : Live s1 fr.key := h1.lt.keys.live.mpr hl0
      split
      · exact ⟨(h0.st h1 (liveAll1 hl0)).st
          ⟨qPush_lt _ _ _, qPush_ev _ _ _ (by decide) (by decide), qPush_fk _ _ _ (by decide)⟩ (liveAll1 hl1),
          (hdk1.trans (qPush_dk _ _ _)).dsum hd0⟩
      · exact ⟨h0.st h1 (liveAll1 hl0), hdk1.dsum hd0⟩
    · exact ⟨h0, hd0⟩

/-- **`Prioritize::reclaim_frame`** -/
theorem reclaimFrame_pi {E : Nat → Prop} {s : Streams} {w : Writer} (h : PI E s) (hd : DSum s) (hc : Coupled s w) :
    PI E (s.reclaimFrame w).1 ∧ DSum (s.reclaimFrame w).1 ∧ (s.reclaimFrame w).2.1 = { w with lastDataFrame := none } := by
  unfold Streams.reclaimFrame Writer.takeLastDataFrame
  cases hld : w.lastDataFrame with
  | none => exact ⟨h, hd, rfl⟩
  | some fr =>
    dsimp only
    have := reclaimFrameInner_pi (fr := fr) h hd (hc.inflight fr (.inl hld)) (hc.ok fr (.inl hld))
    exact ⟨this.1, this.2, rfl⟩

theorem bufferData_some {w : Writer} {len : Nat} (h : len ≤ w.maxFrameSize) (e : Bool) (fr : DataFrame) :
    ∃ w', w.bufferData len e fr = some w' ∧
      ((w'.lastDataFrame = some fr ∧ w'.next = w.next) ∨
       (w'.lastDataFrame = w.lastDataFrame ∧ ∃ nd, w'.next = some nd ∧ nd.frame = fr)) := by
  unfold Writer.bufferData
  rw [if_neg (by omega)]
  dsimp only
  split
  · split
    · exact ⟨_, rfl, .inr ⟨rfl, _, rfl, rfl⟩⟩
    · exact ⟨_, rfl, .inr ⟨rfl, _, rfl, rfl⟩⟩
  · exact ⟨_, rfl, .inl ⟨rfl, rfl⟩⟩

theorem bufferHeaders_keeps (w : Writer) (sid : Nat) (eos : Bool) (f : List Hpack.Field) :
    (w.bufferHeaders sid eos f).lastDataFrame = w.lastDataFrame ∧ (w.bufferHeaders sid eos f).next = w.next := by
  unfold Writer.bufferHeaders
  split
  · dsimp only; split <;> exact ⟨rfl, rfl⟩
  · exact ⟨rfl, rfl⟩

theorem bufferPushPromise_keeps (w : Writer) (sid p : Nat) (f : List Hpack.Field) :
    (w.bufferPushPromise sid p f).lastDataFrame = w.lastDataFrame ∧ (w.bufferPushPromise sid p f).next = w.next := by
  unfold Writer.bufferPushPromise
  split
  · dsimp only; split <;> exact ⟨rfl, rfl⟩
  · exact ⟨rfl, rfl⟩

/-- **`dst.buffer(frame).expect("invalid frame")`** for a frame `pop_frame` cut to `max_frame_size` -/
theorem bufferOut_pi {E : Nat → Prop} {s : Streams} (h : PI E s) (w : Writer) (f : Streams.OutFrame)
    (hlen : ∀ len e fr, f = .data len e fr → len ≤ w.maxFrameSize) :
    PI E (s.bufferOut w f).1 ∧ (s.bufferOut w f).1.store = s.store ∧
    (match f with
     | .data _ _ fr =>
       (s.bufferOut w f).1.prio.inFlightDataFrame = .dataFrame fr.key ∧
       (((s.bufferOut w f).2.lastDataFrame = some fr ∧ (s.bufferOut w f).2.next = w.next) ∨
        ((s.bufferOut w f).2.lastDataFrame = w.lastDataFrame ∧ ∃ nd, (s.bufferOut w f).2.next = some nd ∧ nd.frame = fr))
     | _ => (s.bufferOut w f).1 = s ∧ (s.bufferOut w f).2.lastDataFrame = w.lastDataFrame ∧ (s.bufferOut w f).2.next = w.next) := by
  unfold Streams.bufferOut
  cases f with
  | data len e fr =>
    obtain ⟨w', hw', hcase⟩ := bufferData_some (hlen len e fr rfl) e fr
    dsimp only
    rw [hw']
    dsimp only
    exact ⟨h.store (ks := []) (modPrio_lt _ _ (fun _ => rfl)) (liveAll0 s) (by ev_auto) rfl, rfl, rfl, hcase⟩
  | headers sid eos fields => exact ⟨h, rfl, rfl, bufferHeaders_keeps _ _ _ _⟩
  | reset sid reason => exact ⟨h, rfl, rfl, rfl, rfl⟩
  | pushPromise sid p fields => exact ⟨h, rfl, rfl, bufferPushPromise_keeps _ _ _ _⟩

end H2V.Lemmas.ConnNoPanicP
