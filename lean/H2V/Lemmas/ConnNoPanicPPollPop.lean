import H2V.Lemmas.ConnNoPanicPPollOpen
import H2V.Lemmas.ConnFlowPMain
/-
  C08 (no panic) — part 10: `Prioritize::pop_frame`, building blocks.
  * `SdNP`: what the proof needs of `Stream::send_data` (the kernel cannot unfold it inside `pop_frame`,
    see `ConnFlowPClone.lean`; the clone `ConnFlowP.popFrameC sd` is used with `sd` abstract).
  * `emitC_steps`: the DATA arm from the point where the chunk is cut.  Both
    `assert!(self.window_size.0 >= sz as i32)` (stream, connection) are dead by the send-side ledger
    invariant `ConnFlowP.SafeInv` (`send_data_cannot_fail`).
  * `ppArm_pi`: the PUSH_PROMISE arm; `inc_num_send_streams(pushed)` finds the promised stream uncounted
    by `PPFresh`.
  * `PI.finish`: requeue + `counts.transition_after`.
-/
namespace H2V.Lemmas.ConnNoPanicP
open H2V H2V.Model H2V.Model.Conn H2V.Lemmas.ConnCountsP
attribute [local irreducible] wrapSubU32 wrapSubUsize

-- ===================================================================== Stream::send_data

theorem flowSendData_le (f : FlowControl) (n : Nat) (h : f.available.val ≤ 2147483647) :
    (f.sendData n).1.available.val ≤ 2147483647 := by
  unfold FlowControl.sendData
  split
  · split
    · exact h
    · dsimp only
      split
      · exact h
      · exact decreaseBy_le _ _ h
  · exact h

/-- what is used of `Stream::send_data(len, max_buffer_size)` -/
structure SdNP (sd : Stream → Nat → Nat → Stream × List String × Bool) : Prop where
  ok : ConnFlowP.SdOk sd
  same : ∀ x a b, Same x (sd x a b).1
  ref : ∀ x a b, (sd x a b).1.refCount = x.refCount
  pp : ∀ x a b, (sd x a b).1.isPendingPush = x.isPendingPush
  send : ∀ x a b, (sd x a b).1.pendingSend = x.pendingSend
  buf : ∀ x a b, (sd x a b).1.bufferedSendData = wrapSubUsize x.bufferedSendData a
  bad : ∀ x a b, (sd x a b).2.2 = (match (x.sendFlow.sendData a).2 with | .error .assertFailed => true | _ => false)

theorem notifyCapacity_fields (x : Stream) :
    x.notifyCapacity.1.refCount = x.refCount ∧ x.notifyCapacity.1.isPendingPush = x.isPendingPush ∧
    x.notifyCapacity.1.pendingSend = x.pendingSend ∧ x.notifyCapacity.1.bufferedSendData = x.bufferedSendData := by
  unfold Stream.notifyCapacity Stream.notifySend
  cases x.sendTask <;> cases x.openTask <;> simp

theorem sendDataG_fields (inst : ∀ p q : Nat, Decidable (p < q)) (x : Stream) (a b : Nat) :
    (sendDataG inst x a b).1.refCount = x.refCount ∧ (sendDataG inst x a b).1.isPendingPush = x.isPendingPush ∧
    (sendDataG inst x a b).1.pendingSend = x.pendingSend ∧
    (sendDataG inst x a b).1.bufferedSendData = wrapSubUsize x.bufferedSendData a ∧
    (sendDataG inst x a b).2.2 = (match (x.sendFlow.sendData a).2 with | .error .assertFailed => true | _ => false) := by
  unfold sendDataG
  generalize x.sendFlow.sendData a = p
  obtain ⟨fl, r⟩ := p
  dsimp only
  generalize inst _ _ = d
  cases d with
  | isTrue h =>
    rw [if_pos h]
    exact ⟨(notifyCapacity_fields _).1, (notifyCapacity_fields _).2.1, (notifyCapacity_fields _).2.2.1,
      (notifyCapacity_fields _).2.2.2, rfl⟩
  | isFalse h =>
    rw [if_neg h]
    exact ⟨rfl, rfl, rfl, rfl, rfl⟩

theorem sdNP_sendData : SdNP Stream.sendData :=
  ⟨ConnFlowP.sdOk_sendData, sendData_same,
   fun x a b => by rw [sendData_eq_G]; exact (sendDataG_fields _ x a b).1,
   fun x a b => by rw [sendData_eq_G]; exact (sendDataG_fields _ x a b).2.1,
   fun x a b => by rw [sendData_eq_G]; exact (sendDataG_fields _ x a b).2.2.1,
   fun x a b => by rw [sendData_eq_G]; exact (sendDataG_fields _ x a b).2.2.2.1,
   fun x a b => by rw [sendData_eq_G]; exact (sendDataG_fields _ x a b).2.2.2.2⟩

theorem SdNP.inert {sd : Stream → Nat → Nat → Stream × List String × Bool} (h : SdNP sd) (x : Stream) (a b : Nat) :
    Inert x (sd x a b).1 :=
  ⟨(h.ok x a b).1, (h.same x a b).id, h.ref x a b, (h.same x a b).fl .pendingCapacity,
   fun hx => by rw [(h.ok x a b).2]; exact flowSendData_le _ _ hx⟩

theorem SdNP.flg {sd : Stream → Nat → Nat → Stream × List String × Bool} (h : SdNP sd) (x : Stream) (a b : Nat) :
    Flg x (sd x a b).1 :=
  .of_fields (h.ok x a b).1 (h.same x a b).counted (h.pp x a b) ((h.same x a b).fl .pendingOpen) (h.send x a b)

-- ===================================================================== variants with the condition on the entry itself

theorem modStream_fk' (s : Streams) (k : Nat) (f : Stream → Stream) (h : Flg (s.stream k) (f (s.stream k))) :
    FK s (s.modStream k f) := by
  unfold Streams.modStream
  split
  · next st hst =>
    rw [stream_of_get? hst] at h
    refine setStream_fk s _ ?_
    rw [h.key, get?_key hst, stream_of_get? hst]; exact h
  · exact panic_fk _ _

/-- three relations at once: light step, evolution step, flag step -/
structure St (ks : List Nat) (s s' : Streams) : Prop where
  lt : LT ks s s'
  ev : EvB false s s'
  fk : FK s s'

theorem St.trans {ks : List Nat} {a b c : Streams} (h1 : St ks a b) (h2 : St ks b c) : St ks a c :=
  ⟨h1.lt.trans h2.lt (fun _ h => h), .trans h1.ev h2.ev, h1.fk.trans h2.fk⟩
theorem St.mono {ks ks' : List Nat} {s s' : Streams} (h : St ks s s') (hs : ∀ k ∈ ks, k ∈ ks') : St ks' s s' :=
  ⟨h.lt.mono hs, h.ev, h.fk⟩
theorem PI.st {E : Nat → Prop} {ks : List Nat} {s s' : Streams} (h : PI E s) (hst : St ks s s') (hl : LiveAll s ks) : PI E s' :=
  h.lt hst.lt hl hst.ev hst.fk

/-- dropping the front frame of `pending_send` -/
theorem popRest_st {s : Streams} {id : Nat} {f : SFrame} {rest : List SFrame} (hps : (s.stream id).pendingSend = f :: rest) :
    St [id] s (s.modStream id fun st => { st with pendingSend := rest }) :=
  ⟨modStream_lt _ _ _ (fun _ => by inert_tac), modStream_ev' _ _ _ (popRest_same hps), modStream_fk' _ _ _ (popRest_flg hps)⟩

-- ===================================================================== the DATA arm

/-- the chunk is cut: with the ledger invariant neither `assert!` of `FlowControl::send_data` fires, and
    what happens is a light step -/
theorem emitC_st {sd : Stream → Nat → Nat → Stream × List String × Bool} (hsd : SdNP sd) {s : Streams}
    (hs : ConnFlowP.SafeInv s) {id len : Nat} {f : SFrame} {rest : List SFrame}
    (hps : (s.stream id).pendingSend = f :: rest)
    (h1 : len ≤ (s.stream id).sendFlow.available.asSize) (h2 : len = 0 ∨ len ≤ (s.stream id).sendFlow.windowSz) :
    St [id] s (ConnFlowP.emitC sd s id len rest) := by
  have hok := ConnFlowP.send_data_cannot_fail hs (k := id) (len := len) (maxLen := len) ⟨Nat.le_refl _, h1, h2⟩
  have h0 := popRest_st (rest := rest) hps
  unfold ConnFlowP.emitC
  dsimp only
  generalize hs1 : (s.modStream id fun st => { st with pendingSend := rest }) = s1 at h0 ⊢
  have hfl : (s1.stream id).sendFlow = (s.stream id).sendFlow := by
    rw [← hs1]; exact ConnFlowP.stream_modStream_flow id id _ (fun _ => ⟨rfl, rfl⟩)
  have hprio : s1.prio = s.prio := by rw [← hs1]; exact modStream_prio _ _ _
  have hbad := hsd.bad (s1.stream id) len s1.prio.maxBufferSize
  have hin := hsd.inert (s1.stream id) len s1.prio.maxBufferSize
  have hsame := hsd.same (s1.stream id) len s1.prio.maxBufferSize
  have hflg := hsd.flg (s1.stream id) len s1.prio.maxBufferSize
  rw [hfl, hok.1] at hbad
  generalize sd (s1.stream id) len s1.prio.maxBufferSize = p at hbad hin hsame hflg ⊢
  obtain ⟨st', w, bad⟩ := p
  dsimp only at hbad hin hsame hflg ⊢
  subst hbad
  simp only [Bool.false_eq_true, if_false]
  have hkey : st'.key = id := hin.key.trans (stream_key _ _)
  have h3 : St [id] s1 ((s1.setStream st').wake w) :=
    ⟨(setStream_lt s1 id st' hin).trans (wake_lt _ _) (fun _ h => absurd h List.not_mem_nil),
     .trans (setStream_ev _ id st' hsame) (wake_ev _ _),
     (setStream_fk s1 st' (by rw [hkey]; exact hflg)).trans (wake_fk _ _)⟩
  generalize hs3 : (s1.setStream st').wake w = s3 at h3 ⊢
  have hp3 : s3.prio = s.prio := by rw [← hs3, ← hprio]; rfl
  have hflow : (s3.modPrio fun p => { p with flow := (p.flow.assignCapacity len).1 }).prio.flow =
      (s.prio.flow.assignCapacity len).1 := by
    show (s3.prio.flow.assignCapacity len).1 = _
    rw [hp3]
  rw [hflow, hok.2]
  dsimp only
  refine h0.trans (h3.trans ⟨?_, ?_, ?_⟩)
  · lt_auto
  · ev_auto
  · fk_auto

-- ===================================================================== requeue + transition_after

/-- what follows the `match stream.pending_send.pop_front(buffer)` of `pop_frame` -/
theorem PI.finish {E : Nat → Prop} {s' t : Streams} (id : Nat) (c : Prop) [Decidable c] (h : PI E t) (hl : Live t id)
    (e : EvB false s' t) :
    PI E ((if c then (t.qPush .pendingSend id).1 else t).transitionAfter id (s'.stream id).isPendingResetExpiration) := by
  have h2 : St [id] t (if c then (t.qPush .pendingSend id).1 else t) := by
    split
    · exact ⟨qPush_lt _ _ _, qPush_ev _ _ _ (by decide) (by decide), qPush_fk _ _ _ (by decide)⟩
    · exact ⟨.refl _ _, .refl _, .refl _⟩
  exact (h.st h2 (liveAll1 hl)).ta id _ (fun hb => (EvB.trans e h2.ev).mono.resetAt id hb)

-- ===================================================================== the PUSH_PROMISE arm

theorem qPush_raise (s : Streams) (q : QName) (k : Nat) : Raise k s (s.qPush q k).1 := by
  unfold Streams.qPush; split
  · exact .of_store rfl
  · exact (Raise.modStream s k _ (fun x => setQueued_key x q true) (fun x => by cases q <;> rfl)).trans
      (.of_store (setQ_store _ _ _))

theorem mem_ppIdsOf_cons (pk pid : Nat) (fl : List Hpack.Field) (rest : List SFrame) :
    ppIdsOf (.pushPromise pk pid fl :: rest) = pid :: ppIdsOf rest := by
  unfold ppIdsOf; rfl

/-- the PUSH_PROMISE frame leaves the parent's queue and the promised stream is activated
    (`inc_num_send_streams` + `pending_send.push`, or `pending_open.push`) -/
theorem ppArm_pi {E : Nat → Prop} {s : Streams} (h : PI E s) {id pk pid pushed : Nat} {fields : List Hpack.Field}
    {rest : List SFrame} (hl : Live s id) (hps : (s.stream id).pendingSend = .pushPromise pk pid fields :: rest)
    (hfind : (s.modStream id fun st => { st with pendingSend := rest }).store.findKey? pid = some pushed) :
    PI E (ppActivate (s.modStream id fun st => { st with pendingSend := rest }) pushed) ∧
    Live (ppActivate (s.modStream id fun st => { st with pendingSend := rest }) pushed) id ∧
    EvB false s (ppActivate (s.modStream id fun st => { st with pendingSend := rest }) pushed) := by
  have hfind' : s.store.findKey? pid = some pushed := by
    unfold Store.findKey? at hfind ⊢; rw [modStream_ids] at hfind; exact hfind
  have hev : EvB false s (ppActivate (s.modStream id fun st => { st with pendingSend := rest }) pushed) :=
    .ppAct id pk pid fields rest pushed hps hfind'
  have h0 := popRest_st (rest := rest) hps
  have hget1 : (s.modStream id fun st => { st with pendingSend := rest }).store.get? id =
      some { s.stream id with pendingSend := rest } := modStream_get?_self s id _ _ hl.stream rfl
  generalize hs1 : (s.modStream id fun st => { st with pendingSend := rest }) = s1 at h0 hev hget1 ⊢
  have h1 : PI E s1 := h.st h0 (liveAll1 hl)
  have hlp := h.npi.ids.findKey hfind'
  have hlp1 : Live s1 pushed := h0.lt.keys.live.mpr hlp.1
  -- the promised stream is neither counted nor in `pending_open`
  have hmem : pid ∈ ppq s id := by unfold ppq; rw [hps, mem_ppIdsOf_cons]; exact List.mem_cons_self ..
  have hfr := h.fi.ppf id pid hmem pushed hfind'
  have hc1 : (s1.stream pushed).isCounted = false := bool_false_of_impP (h0.fk.fl pushed).c hfr.1
  have ho1 : (s1.stream pushed).isPendingOpen = false := bool_false_of_impP (h0.fk.fl pushed).po hfr.2
  -- no queued PUSH_PROMISE announces it any more
  have hr1 : ∀ k' pid', pid' ∈ ppq s1 k' → s1.store.findKey? pid' ≠ some pushed := by
    intro k' pid' hp hf
    have hf' : s.store.findKey? pid' = some pushed := (h0.fk.ids h.npi.ids.nodup).2 pid' pushed hf
    have hpid : pid' = pid := (h.npi.ids.findKey hf').2.symm.trans hlp.2
    subst hpid
    have hk : k' = id := h.fi.ppu.disj k' id pid' ((h0.fk.ppq_sub k').subset hp) hmem
    subst hk
    have hnd := h.fi.ppu.nodup k'
    unfold ppq at hnd hp
    rw [hps, mem_ppIdsOf_cons] at hnd
    rw [stream_of_get? hget1] at hp
    exact (List.nodup_cons.mp hnd).1 hp
  have key : LT [pushed] s1 (ppActivate s1 pushed) ∧ FI (ppActivate s1 pushed) := by
    unfold ppActivate
    dsimp only
    have hget2 := modStream_get?_self s1 pushed (fun st => { st with isPendingPush := false }) _ hlp1.stream rfl
    generalize hs2 : (s1.modStream pushed fun st => { st with isPendingPush := false }) = s2 at hget2 ⊢
    have h12 : LT [pushed] s1 s2 := by rw [← hs2]; exact modStream_lt _ _ _ (fun _ => by inert_tac)
    have hfk2 : FK s1 s2 := by rw [← hs2]; exact modStream_fk _ _ _ (fun _ => by flg_tac)
    have hfi2 : FI s2 := hfk2.fi h1.npi.ids.nodup h1.fi
    have hn2 : (s2.store.ids.map (·.1)).Nodup := (hfk2.ids h1.npi.ids.nodup).1
    have hlp2 : Live s2 pushed := h12.keys.live.mpr hlp1
    have hst2 : s2.stream pushed = { s1.stream pushed with isPendingPush := false } := stream_of_get? hget2
    have hc2 : (s2.stream pushed).isCounted = false := by rw [hst2]; exact hc1
    have ho2 : (s2.stream pushed).isPendingOpen = false := by rw [hst2]; exact ho1
    have hp2 : (s2.stream pushed).isPendingPush = false := by rw [hst2]
    have hr2 : ∀ k' pid', pid' ∈ ppq s2 k' → s2.store.findKey? pid' ≠ some pushed := fun k' pid' hp hf =>
      hr1 k' pid' ((hfk2.ppq_sub k').subset hp) ((hfk2.ids h1.npi.ids.nodup).2 pid' pushed hf)
    split
    · split
      · next hcan =>
        have h3 := incNumSendStreams_lt s2 pushed hcan hc2
        have hfi3 := incNumSendStreams_fi hfi2 hlp2 hcan hc2 hp2 ho2 hr2
        have hn3 : ((s2.incNumSendStreams pushed).store.ids.map (·.1)).Nodup := by
          rw [(incNumSendStreams_raise s2 pushed).ids]; exact hn2
        exact ⟨h12.trans (h3.trans (qPush_lt _ _ _) (fun _ h => h)) (fun _ h => h),
          (qPush_fk _ .pendingSend pushed (by decide)).fi hn3 hfi3⟩
      · refine ⟨h12.trans (queueOpen_lt s2 pushed) (fun _ h => h), ?_⟩
        unfold Streams.queueOpen
        refine (qPush_raise s2 .pendingOpen pushed).fi hfi2 ?_ hr2
        unfold Streams.qPush
        have hq : (s2.stream pushed).isQueued .pendingOpen = false := ho2
        simp only [hq, Bool.false_eq_true, if_false]
        rw [setQ_stream]
        have hg := modStream_get?_self s2 pushed (fun st => st.setQueued .pendingOpen true) _ hlp2.stream rfl
        rw [stream_of_get? hg]
        refine ⟨fun hp => ?_, fun _ => hc2⟩
        have hp' : (s2.stream pushed).isPendingPush = true := hp
        rw [hp2] at hp'; cases hp'
    · exact ⟨h12, hfi2⟩
  have hlt : LT [id, pushed] s (ppActivate s1 pushed) :=
    (h0.lt.mono (fun k hk => by simp at hk ⊢; omega)).trans key.1 (fun k hk => by simp at hk ⊢; omega)
  have hla : LiveAll s [id, pushed] := fun k hk => by
    simp only [List.mem_cons, or_false, List.not_mem_nil] at hk
    rcases hk with e | e
    · rw [e]; exact hl
    · rw [e]; exact hlp.1
  exact ⟨⟨h.npi.lt hlt.w hla hev noE, hlt.err.errOK h.err, key.2⟩, hlt.keys.live.mpr hl, hev⟩

-- ===================================================================== pop_frame

set_option hygiene false in
/-- the part of `pop_frame`'s DATA arm that sends (a piece of) the frame -/
local macro "pf_data_rest" : tactic => `(tactic|
  (split
   · exact ih h' hs' _
   · split
     · exact ih h' hs' _
     · next hc =>
       have hle1 : usizeAsU32 (min (min sz maxLen) (s'.stream id).sendFlow.available.asSize) ≤
           (s'.stream id).sendFlow.available.asSize := Nat.le_trans (ConnFlowP.usizeAsU32_le _) (Nat.min_le_right _ _)
       generalize usizeAsU32 (min (min sz maxLen) (s'.stream id).sendFlow.available.asSize) = len at *
       have hlw : len = 0 ∨ len ≤ (s'.stream id).sendFlow.windowSz := by
         simp only [Bool.and_eq_true, decide_eq_true_eq, not_and] at hc
         omega
       have hst := emitC_st hsd hs' hps hle1 hlw
       exact PI.finish id _ (h'.st hst (liveAll1 hl)) (hst.lt.keys.live.mpr hl) hst.ev))

/-- `pop_frame` with `Stream::send_data` abstracted keeps the bundle -/
theorem popFrameC_pi {E : Nat → Prop} (sd : Stream → Nat → Nat → Stream × List String × Bool) (hsd : SdNP sd) (fuel : Nat) :
    ∀ {s : Streams}, PI E s → ConnFlowP.SafeInv s → ∀ maxLen, PI E (ConnFlowP.popFrameC sd fuel s maxLen).1 := by
  induction fuel with
  | zero => intro s h _ m; rw [ConnFlowP.popFrameC_zero]; exact h
  | succ n ih =>
    intro s h hs maxLen
    rw [ConnFlowP.popFrameC_succ']
    have hq := h.npi.qs .pendingSend (by decide)
    split
    · next s' heq =>
      exact h.lt (LT.of_fst_eq heq (qPop_ltq s _ hq)) (liveAll0 s) (.of_fst_eq heq (qPop_ev _ _ (by decide) (by decide)))
        (FK.of_fst_eq heq (qPop_fk s _))
    · next s' id heq =>
      have hl := (qPopQ_live hq heq).2.1
      have h' : PI E s' :=
        h.lt (LT.of_fst_eq heq (qPop_ltq s _ hq)) (liveAll0 s) (.of_fst_eq heq (qPop_ev _ _ (by decide) (by decide)))
          (FK.of_fst_eq heq (qPop_fk s _))
      have hs' : ConnFlowP.SafeInv s' := ConnFlowP.SafeInvG.of_fst_eq heq (hs.fr ((ConnFlowP.Fr.refl _).qPop _))
      dsimp only
      split
      · -- DATA
        next sz eos rest hps =>
        split
        · split
          · -- a scheduled reset discards the queued DATA
            refine ih (h'.st (ks := [id]) ⟨?_, ?_, ?_⟩ (liveAll1 hl)) ?_ _
            · lt_auto
            · ev_auto
            · fk_auto
            · safe_auto
          · pf_data_rest
        · simp only [Bool.false_eq_true, if_false]
          pf_data_rest
      · -- HEADERS
        next heos fields rest hps =>
        have hst := popRest_st (rest := rest) hps
        exact PI.finish id _ (h'.st hst (liveAll1 hl)) (hst.lt.keys.live.mpr hl) hst.ev
      · -- RST_STREAM
        next reason rest hps =>
        have hst := popRest_st (rest := rest) hps
        exact PI.finish id _ (h'.st hst (liveAll1 hl)) (hst.lt.keys.live.mpr hl) hst.ev
      · -- PUSH_PROMISE
        next pk pid fields rest hps =>
        split
        · next hfind =>
          have hst := popRest_st (rest := rest) hps
          have hfin := PI.finish (s' := s') id
            (((!((s'.modStream id fun st => { st with pendingSend := rest }).stream id).pendingSend.isEmpty ||
               ((s'.modStream id fun st => { st with pendingSend := rest }).stream id).state.isScheduledReset) = true))
            (h'.st hst (liveAll1 hl)) (hst.lt.keys.live.mpr hl) hst.ev
          refine ih hfin ?_ _
          safe_auto
        · next pushed hfind =>
          have harm := ppArm_pi h' hl hps hfind
          exact PI.finish id _ harm.1 harm.2.1 harm.2.2
      · -- nothing queued
        next hps =>
        split
        · next reason hsr =>
          have hst : St [id] s' (s'.modStreamW id fun st => st.setReset reason .library) :=
            ⟨modStreamW_lt _ _ _ (fun _ => by inert_tac), modStreamW_ev' _ _ _ (setReset_same _ _ _),
             modStreamW_fk _ _ _ (fun _ => by flg_tac)⟩
          exact PI.finish id _ (h'.st hst (liveAll1 hl)) (hst.lt.keys.live.mpr hl) hst.ev
        · refine ih (h'.ta id _ (fun hb => hb)) ?_ _
          safe_auto

/-- **`Prioritize::pop_frame` keeps the bundle** -/
theorem popFrame_pi {E : Nat → Prop} {s : Streams} (h : PI E s) (hs : ConnFlowP.SafeInv s) (fuel maxLen : Nat) :
    PI E (Streams.popFrame fuel s maxLen).1 := by
  rw [ConnFlowP.popFrameC.eq]; exact popFrameC_pi _ sdNP_sendData fuel h hs maxLen

/-- **`Prioritize::pop_frame` keeps `NPI`** (hence does not panic), the ledger invariant and the flag facts -/
theorem popFrame_npi {E : Nat → Prop} {s : Streams} (h : NPI E s) (he : ErrOK s) (hs : ConnFlowP.SafeInv s) (hf : FI s)
    (fuel maxLen : Nat) :
    NPI E (Streams.popFrame fuel s maxLen).1 ∧ ErrOK (Streams.popFrame fuel s maxLen).1 ∧
    ConnFlowP.SafeInv (Streams.popFrame fuel s maxLen).1 ∧ FI (Streams.popFrame fuel s maxLen).1 :=
  have r := popFrame_pi ⟨h, he, hf⟩ hs fuel maxLen
  ⟨r.npi, r.err, hs.popFrame fuel maxLen, r.fi⟩

/-- a DATA frame handed out is not longer than `max_len` (so `dst.buffer(frame)` accepts it) -/
theorem popFrame_len_le {s s' : Streams} (hs : ConnFlowP.SafeInv s) {fuel maxLen len : Nat} {eos : Bool} {fr : DataFrame}
    (hp : Streams.popFrame fuel s maxLen = (s', some (.data len eos fr))) : len ≤ maxLen := by
  obtain ⟨_, _, _, h, _⟩ := ConnFlowP.data_frame_bounds hs hp
  exact h

-- ===================================================================== the first panic message is sticky

theorem queueOpen_pk (s : Streams) (k : Nat) : PK s (s.queueOpen k) := by
  unfold Streams.queueOpen; exact qPush_pk _ _ _

theorem emitC_pk (sd : Stream → Nat → Nat → Stream × List String × Bool) (s : Streams) (id len : Nat) (rest : List SFrame) :
    PK s (ConnFlowP.emitC sd s id len rest) := by
  unfold ConnFlowP.emitC; pk_auto

theorem finish_pk {s' t : Streams} (id : Nat) (c : Prop) [Decidable c] (b : Bool) (h : PK s' t) :
    PK s' ((if c then (t.qPush .pendingSend id).1 else t).transitionAfter id b) := by
  refine PK.trans ?_ (transitionAfter_fk _ _ _).toPK
  split
  · exact h.trans (qPush_pk _ _ _)
  · exact h

set_option hygiene false in
local macro "pk_data_rest" : tactic => `(tactic|
  (split
   · exact ih _ _
   · split
     · exact ih _ _
     · exact finish_pk id _ _ (emitC_pk _ _ _ _ _)))

theorem popFrameC_pk (sd : Stream → Nat → Nat → Stream × List String × Bool) (fuel : Nat) :
    ∀ (s : Streams) (maxLen : Nat), PK s (ConnFlowP.popFrameC sd fuel s maxLen).1 := by
  induction fuel with
  | zero => intro s m; rw [ConnFlowP.popFrameC_zero]; exact .refl _
  | succ n ih =>
    intro s maxLen
    rw [ConnFlowP.popFrameC_succ']
    split
    · next s' heq => exact .of_fst_eq heq (qPop_fk _ _).toPK
    · next s' id heq =>
      refine PK.trans (.of_fst_eq heq (qPop_fk _ _).toPK) ?_
      dsimp only
      split
      · split
        · split
          · refine PK.trans ?_ (ih _ _)
            pk_auto
          · pk_data_rest
        · simp only [Bool.false_eq_true, if_false]
          pk_data_rest
      · exact finish_pk id _ _ (modStream_pk _ _ _)
      · exact finish_pk id _ _ (modStream_pk _ _ _)
      · split
        · exact (finish_pk id _ _ (modStream_pk _ _ _)).trans (ih _ _)
        · refine finish_pk id _ _ ?_
          pk_auto
      · split
        · exact finish_pk id _ _ (modStreamW_pk _ _ _)
        · exact (transitionAfter_fk _ _ _).toPK.trans (ih _ _)

theorem popFrame_pk (fuel : Nat) (s : Streams) (maxLen : Nat) : PK s (Streams.popFrame fuel s maxLen).1 := by
  rw [ConnFlowP.popFrameC.eq]; exact popFrameC_pk _ fuel s maxLen

end H2V.Lemmas.ConnNoPanicP
