import H2V.Lemmas.CodecEncode
/-
  Codec lemmas, part 3 (goal A, header frames): the HEADERS / PUSH_PROMISE + CONTINUATION chain that
  `splitBlock` writes is read back by the reference frame splitter `Spec.Frame.frames` as one
  HEADERS (PUSH_PROMISE) frame followed by CONTINUATION frames on the same stream, END_HEADERS on
  the last frame only, fragments concatenating to the HPACK block, no payload above `maxFrame`.
-/
namespace H2V.Lemmas.Codec
open H2V H2V.Model.Frame

/-- one step of the reference splitter over a serialised frame -/
theorem frames_cons (F maxSize : Nat) (h : Head) (p rest : Bytes)
    (hs : h.sid < 2 ^ 31) (hp : p.length < 2 ^ 24) (hm : p.length ≤ maxSize) :
    Spec.Frame.frames (F + 1) maxSize (h.encode p.length ++ p ++ rest) =
      (Spec.Frame.ofParts h.kind h.flag h.sid p :: (Spec.Frame.frames F maxSize rest).1,
        (Spec.Frame.frames F maxSize rest).2) := by
  have hl : (h.encode p.length ++ p ++ rest).length = 9 + p.length + rest.length := by
    simp only [List.length_append, Head.encode_length]
  have hu : Spec.Frame.u24 (h.encode p.length ++ p ++ rest) = p.length := by
    rw [u24_eq_rd24, List.append_assoc]; exact Head.rd24_encode h _ hp _
  have hsid : Spec.Frame.u31 ((h.encode p.length ++ p ++ rest).drop 5) = h.sid := by
    rw [List.append_assoc, Head.encode_cons]
    simp only [List.drop_succ_cons, List.drop_zero]
    exact be32_u31 h.sid hs _
  have hk : (h.encode p.length ++ p ++ rest).getD 3 0 = h.kind := by
    rw [List.append_assoc, Head.encode_cons]; rfl
  have hf : (h.encode p.length ++ p ++ rest).getD 4 0 = h.flag := by
    rw [List.append_assoc, Head.encode_cons]; rfl
  have hd9 : (h.encode p.length ++ p ++ rest).drop 9 = p ++ rest := by
    rw [List.append_assoc, Head.encode_cons]; rfl
  have hdn : (h.encode p.length ++ p ++ rest).drop (9 + p.length) = rest := by
    rw [← List.drop_drop, hd9, List.drop_left]
  have htk : (p ++ rest).take p.length = p := List.take_left
  rw [Spec.Frame.frames]
  rw [hu, hl, hsid, hk, hf, hd9, hdn, htk]
  rw [if_neg (by omega), if_neg (by omega), if_neg (by omega)]

theorem frames_nil (F maxSize : Nat) : Spec.Frame.frames F maxSize [] = ([], []) := by
  cases F <;> simp [Spec.Frame.frames]

/-- CONTINUATION frames for a list of fragments: END_HEADERS on the last one only -/
def contFrames (sid : Nat) : List Bytes → List Spec.Frame.Frame
  | [] => []
  | [f] => [.continuation sid true f]
  | f :: g :: fs => .continuation sid false f :: contFrames sid (g :: fs)

theorem contFrames_cons (sid : Nat) (f : Bytes) (fs : List Bytes) :
    contFrames sid (f :: fs) = .continuation sid fs.isEmpty f :: contFrames sid fs := by
  cases fs <;> rfl

/-- `splitBlock` does not depend on the fuel once there is enough of it -/
theorem splitBlock_fuel (fuel fuel' maxFrame kind flags sid : Nat) (pre hpack : Bytes)
    (hpre : pre.length < maxFrame) (h1 : hpack.length < fuel) (h2 : hpack.length < fuel') :
    splitBlock fuel maxFrame kind flags sid pre hpack = splitBlock fuel' maxFrame kind flags sid pre hpack := by
  induction fuel generalizing fuel' kind flags pre hpack with
  | zero => omega
  | succ n ih =>
    cases fuel' with
    | zero => omega
    | succ m =>
      simp only [splitBlock]
      split
      · rename_i hgt
        congr 1
        apply ih
        · simpa using by omega
        · simp only [List.length_drop]; omega
        · simp only [List.length_drop]; omega
      · rfl

/-- the chain carries the whole block (plus heads and prefix) -/
theorem splitBlock_length_ge (fuel maxFrame kind flags sid : Nat) (pre hpack : Bytes)
    (hpre : pre.length < maxFrame) (hf : hpack.length < fuel) :
    hpack.length ≤ (splitBlock fuel maxFrame kind flags sid pre hpack).length := by
  induction fuel generalizing kind flags pre hpack with
  | zero => omega
  | succ n ih =>
    simp only [splitBlock]
    split
    · rename_i hgt
      have := ih 9 4 [] (hpack.drop (maxFrame - pre.length)) (by simpa using by omega)
        (by simp only [List.length_drop]; omega)
      simp only [List.length_append, List.length_take, List.length_drop] at this ⊢
      omega
    · simp only [List.length_append]; omega

/-- the general statement, for an arbitrary first frame: the first frame is whatever the RFC makes of
    `(kind, flags (minus END_HEADERS if more follows), sid, pre ++ frag0)` -/
theorem frames_splitBlock (fuel : Nat) : ∀ (maxFrame kind flags sid : Nat) (pre hpack : Bytes) (F maxSize : Nat),
    pre.length < maxFrame → maxFrame < 2 ^ 24 → sid ≠ 0 → sid < 2 ^ 31 →
    hpack.length < fuel → fuel < F → maxFrame ≤ maxSize →
    ∃ frag0 frags, frag0 ++ frags.flatten = hpack ∧ pre.length + frag0.length ≤ maxFrame ∧
      (∀ f ∈ frags, f.length ≤ maxFrame) ∧
      Spec.Frame.frames F maxSize (splitBlock fuel maxFrame kind flags sid pre hpack) =
        (Spec.Frame.ofParts kind (if frags.isEmpty then flags else flags - 4) sid (pre ++ frag0)
          :: (contFrames sid frags).map .ok, []) := by
  induction fuel with
  | zero => intros; omega
  | succ n ih =>
    intro maxFrame kind flags sid pre hpack F maxSize hpre hmax hs0 hs hfuel hF hms
    obtain ⟨F', rfl⟩ : ∃ F', F = F' + 1 := ⟨F - 1, by omega⟩
    simp only [splitBlock]
    split
    · rename_i hgt
      -- more follows
      have hlen : (pre ++ hpack.take (maxFrame - pre.length)).length = pre.length + (maxFrame - pre.length) := by
        simp only [List.length_append, List.length_take]; omega
      obtain ⟨g0, gs, hcat, hg0, hgs, hfr⟩ :=
        ih maxFrame 9 4 sid [] (hpack.drop (maxFrame - pre.length)) F' maxSize
          (by simpa using by omega) hmax hs0 hs (by simp only [List.length_drop]; omega) (by omega) hms
      refine ⟨hpack.take (maxFrame - pre.length), g0 :: gs, ?_, ?_, ?_, ?_⟩
      · rw [List.flatten_cons, hcat, List.take_append_drop]
      · simp only [List.length_take]; omega
      · intro f hf
        rcases List.mem_cons.1 hf with rfl | hf
        · simpa using hg0
        · exact hgs f hf
      · have := frames_cons F' maxSize (Head.mk kind (flags - 4) sid) (pre ++ hpack.take (maxFrame - pre.length))
          (splitBlock n maxFrame 9 4 sid [] (hpack.drop (maxFrame - pre.length))) hs (by omega) (by omega)
        rw [hlen] at this
        simp only [List.append_assoc] at this ⊢
        rw [this, hfr]
        have hcont : Spec.Frame.ofParts 9 (if gs.isEmpty then 4 else 4 - 4) sid ([] ++ g0)
            = .ok (.continuation sid gs.isEmpty g0) := by
          cases gs <;> simp [Spec.Frame.ofParts, hs0, Spec.Frame.flag]
        rw [hcont]
        simp [contFrames_cons]
    · rename_i hle
      refine ⟨hpack, [], by simp, by omega, by simp, ?_⟩
      have := frames_cons F' maxSize (Head.mk kind flags sid) (pre ++ hpack) [] hs
        (by simp only [List.length_append]; omega) (by simp only [List.length_append]; omega)
      simp only [List.length_append, List.append_nil] at this
      simp only [List.append_assoc]
      rw [this, frames_nil]
      simp [contFrames]

/-- `parse_split_block`: the name used in the plan for `frames_splitBlock` -/
theorem parse_split_block (fuel maxFrame kind flags sid : Nat) (pre hpack : Bytes) (F maxSize : Nat)
    (hpre : pre.length < maxFrame) (hmax : maxFrame < 2 ^ 24) (hs0 : sid ≠ 0) (hs : sid < 2 ^ 31)
    (hfuel : hpack.length < fuel) (hF : fuel < F) (hms : maxFrame ≤ maxSize) :
    ∃ frag0 frags, frag0 ++ frags.flatten = hpack ∧ pre.length + frag0.length ≤ maxFrame ∧
      (∀ f ∈ frags, f.length ≤ maxFrame) ∧
      Spec.Frame.frames F maxSize (splitBlock fuel maxFrame kind flags sid pre hpack) =
        (Spec.Frame.ofParts kind (if frags.isEmpty then flags else flags - 4) sid (pre ++ frag0)
          :: (contFrames sid frags).map .ok, []) :=
  frames_splitBlock fuel maxFrame kind flags sid pre hpack F maxSize hpre hmax hs0 hs hfuel hF hms

/-- the CONTINUATION chain `unset_frame` produces for the rest of a block -/
theorem parse_split_block_continuation (fuel maxFrame sid : Nat) (hpack : Bytes) (F maxSize : Nat)
    (h0 : 0 < maxFrame) (hmax : maxFrame < 2 ^ 24) (hs0 : sid ≠ 0) (hs : sid < 2 ^ 31)
    (hfuel : hpack.length < fuel) (hF : fuel < F) (hms : maxFrame ≤ maxSize) :
    ∃ frags, frags ≠ [] ∧ frags.flatten = hpack ∧ (∀ f ∈ frags, f.length ≤ maxFrame) ∧
      Spec.Frame.frames F maxSize (splitBlock fuel maxFrame 9 4 sid [] hpack) =
        ((contFrames sid frags).map .ok, []) := by
  obtain ⟨g0, gs, hcat, hg0, hgs, hfr⟩ :=
    frames_splitBlock fuel maxFrame 9 4 sid [] hpack F maxSize (by simpa using h0) hmax hs0 hs hfuel hF hms
  refine ⟨g0 :: gs, by simp, by simpa using hcat, ?_, ?_⟩
  · intro f hf
    rcases List.mem_cons.1 hf with rfl | hf
    · simpa using hg0
    · exact hgs f hf
  · rw [hfr]
    have hcont : Spec.Frame.ofParts 9 (if gs.isEmpty then 4 else 4 - 4) sid ([] ++ g0)
        = .ok (.continuation sid gs.isEmpty g0) := by
      cases gs <;> simp [Spec.Frame.ofParts, hs0, Spec.Frame.flag]
    rw [hcont]
    simp [contFrames_cons]

/-- HEADERS (as `Encoder::buffer` writes it: END_HEADERS, END_STREAM iff `eos`, no padding, no priority) -/
theorem parse_split_block_headers (fuel maxFrame sid : Nat) (eos : Bool) (hpack : Bytes) (F maxSize : Nat)
    (h0 : 0 < maxFrame) (hmax : maxFrame < 2 ^ 24) (hs0 : sid ≠ 0) (hs : sid < 2 ^ 31)
    (hfuel : hpack.length < fuel) (hF : fuel < F) (hms : maxFrame ≤ maxSize) :
    ∃ frag0 frags, frag0 ++ frags.flatten = hpack ∧ (∀ f ∈ frag0 :: frags, f.length ≤ maxFrame) ∧
      Spec.Frame.frames F maxSize (splitBlock fuel maxFrame 1 (4 + if eos then 1 else 0) sid [] hpack) =
        ((Spec.Frame.Frame.headers sid eos frags.isEmpty none frag0 :: contFrames sid frags).map .ok, []) := by
  obtain ⟨g0, gs, hcat, hg0, hgs, hfr⟩ :=
    frames_splitBlock fuel maxFrame 1 (4 + if eos then 1 else 0) sid [] hpack F maxSize
      (by simpa using h0) hmax hs0 hs hfuel hF hms
  refine ⟨g0, gs, hcat, ?_, ?_⟩
  · intro f hf
    rcases List.mem_cons.1 hf with rfl | hf
    · simpa using hg0
    · exact hgs f hf
  · rw [hfr]
    have hfirst : Spec.Frame.ofParts 1 (if gs.isEmpty then (4 + if eos then 1 else 0) else (4 + if eos then 1 else 0) - 4) sid ([] ++ g0)
        = .ok (.headers sid eos gs.isEmpty none g0) := by
      cases gs <;> cases eos <;> simp [Spec.Frame.ofParts, hs0, Spec.Frame.unpad, Spec.Frame.flag]
    rw [hfirst]
    simp

/-- PUSH_PROMISE (`pre` = the promised stream identifier; 4 octets of every frame's budget) -/
theorem parse_split_block_push_promise (fuel maxFrame sid promised : Nat) (hpack : Bytes) (F maxSize : Nat)
    (h0 : 4 < maxFrame) (hmax : maxFrame < 2 ^ 24) (hs0 : sid ≠ 0) (hs : sid < 2 ^ 31) (hp : promised < 2 ^ 31)
    (hfuel : hpack.length < fuel) (hF : fuel < F) (hms : maxFrame ≤ maxSize) :
    ∃ frag0 frags, frag0 ++ frags.flatten = hpack ∧ 4 + frag0.length ≤ maxFrame ∧ (∀ f ∈ frags, f.length ≤ maxFrame) ∧
      Spec.Frame.frames F maxSize (splitBlock fuel maxFrame 5 4 sid (be32 promised) hpack) =
        ((Spec.Frame.Frame.pushPromise sid frags.isEmpty promised frag0 :: contFrames sid frags).map .ok, []) := by
  obtain ⟨g0, gs, hcat, hg0, hgs, hfr⟩ :=
    frames_splitBlock fuel maxFrame 5 4 sid (be32 promised) hpack F maxSize
      (by simpa using h0) hmax hs0 hs hfuel hF hms
  refine ⟨g0, gs, hcat, by simpa using hg0, hgs, ?_⟩
  rw [hfr]
  have hfirst : Spec.Frame.ofParts 5 (if gs.isEmpty then 4 else 4 - 4) sid (be32 promised ++ g0)
      = .ok (.pushPromise sid gs.isEmpty promised g0) := by
    have h31 : Spec.Frame.u31 (be32 promised ++ g0) = promised := be32_u31 promised hp g0
    have hd : (be32 promised ++ g0).drop 4 = g0 := rfl
    cases gs <;> simp [Spec.Frame.ofParts, hs0, Spec.Frame.unpad, Spec.Frame.flag] <;> simp [h31, hd]
  rw [hfirst]
  simp

/-- `tx_within_max_frame_size` for header frames, in the words of the RFC: a receiver whose
    SETTINGS_MAX_FRAME_SIZE is `maxFrame` finds no frame-size violation in the chain -/
theorem splitBlock_within_max_frame_size (fuel maxFrame kind flags sid : Nat) (pre hpack : Bytes) (F : Nat)
    (hpre : pre.length < maxFrame) (hmax : maxFrame < 2 ^ 24) (hs0 : sid ≠ 0) (hs : sid < 2 ^ 31)
    (hfuel : hpack.length < fuel) (hF : fuel < F) :
    (Spec.Frame.frames F maxFrame (splitBlock fuel maxFrame kind flags sid pre hpack)).2 = [] := by
  obtain ⟨g0, gs, _, _, _, hfr⟩ :=
    frames_splitBlock fuel maxFrame kind flags sid pre hpack F maxFrame hpre hmax hs0 hs hfuel hF (Nat.le_refl _)
  rw [hfr]

end H2V.Lemmas.Codec
