import H2V.Model.ConnProto
import H2V.Lemmas.ConnFlowPLedger
/-
  ConnFlowP, part 27 — the stream layer of a new connection (`Conn.init`, `Conn.initServer`, any
  builder configuration) is a reachable state in the sense of `Reach` / `ReachH`.
-/
namespace H2V.Lemmas.ConnFlowP
open H2V H2V.Model H2V.Model.Conn

theorem bufferSimple_streams (c : Conn) (n : Nat) (r : String) : (c.bufferSimple n r).streams = c.streams := by
  unfold Conn.bufferSimple; rfl

theorem bufferSettings_streams (c : Conn) (ack : Bool) (vals : List (Nat × Nat)) :
    (c.bufferSettings ack vals).streams = c.streams := by
  unfold Conn.bufferSettings; exact bufferSimple_streams _ _ _

/-- the client's stream layer after `handshake2` -/
theorem init_reachH (g : Conn.Cfg) : ReachH (Conn.init g).streams 65535 0 := by
  unfold Conn.init
  dsimp only
  split
  · unfold Conn.setTargetWindowSize
    dsimp only
    refine .setTargetConnectionWindow _ (.cloneHandle ?_)
    rw [bufferSettings_streams]
    exact .init ⟨rfl, rfl⟩
  · dsimp only
    refine .cloneHandle ?_
    rw [bufferSettings_streams]
    exact .init ⟨rfl, rfl⟩

/-- the server's stream layer after the handshake -/
theorem initServer_reachH (g : Conn.Cfg) (ecp : Bool) (peerFirst : Bytes) :
    ReachH (Conn.initServer g ecp peerFirst).streams 65535 0 := by
  unfold Conn.initServer
  dsimp only
  split
  · unfold Conn.setTargetWindowSize
    dsimp only
    refine .setTargetConnectionWindow _ ?_
    rw [bufferSettings_streams]
    exact .init ⟨rfl, rfl⟩
  · dsimp only
    rw [bufferSettings_streams]
    exact .init ⟨rfl, rfl⟩

theorem init_reach (g : Conn.Cfg) : Reach (Conn.init g).streams := (init_reachH g).reach

end H2V.Lemmas.ConnFlowP
