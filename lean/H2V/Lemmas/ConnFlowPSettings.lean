import H2V.Lemmas.ConnFlowPSend
/-
  ConnFlowP, part 7 — `Store::for_each` / `try_for_each` and `Send::apply_remote_settings`
  (SETTINGS_INITIAL_WINDOW_SIZE up and down, all streams).
-/
namespace H2V.Lemmas.ConnFlowP
open H2V H2V.Model H2V.Model.Conn H2V.Lemmas.Comp

-- ===================================================================== for_each

theorem Fr.tryForEach {s : Streams} (f : Streams → Nat → Streams × Option PErr)
    (hf : ∀ t id, Fr s t → Fr s (f t id).1) (fuel : Nat) :
    ∀ (i len : Nat) {t : Streams}, Fr s t → Fr s (Streams.tryForEach f fuel i len t).1 := by
  induction fuel with
  | zero => intro i len t h; exact h
  | succ n ih =>
    intro i len t h
    unfold Streams.tryForEach
    split
    · split
      · exact h.panic _
      · rename_i id _
        have := hf t id h
        split
        · rename_i heq; rw [heq] at this; exact this
        · rename_i heq; rw [heq] at this
          dsimp only
          split
          · exact ih _ _ this
          · exact ih _ _ this
    · exact h

theorem Fr.storeTryForEach {s t : Streams} (h : Fr s t) (f : Streams → Nat → Streams × Option PErr)
    (hf : ∀ t id, Fr s t → Fr s (f t id).1) : Fr s (t.storeTryForEach f).1 := by
  unfold Streams.storeTryForEach; exact Fr.tryForEach f hf _ _ _ h

theorem Fr.storeForEach {s t : Streams} (h : Fr s t) (f : Streams → Nat → Streams)
    (hf : ∀ t id, Fr s t → Fr s (f t id)) : Fr s (t.storeForEach f) := by
  unfold Streams.storeForEach; exact h.storeTryForEach _ (fun t id ht => hf t id ht)

theorem SafeInv.tryForEach (f : Streams → Nat → Streams × Option PErr)
    (hf : ∀ t id, SafeInv t → SafeInv (f t id).1) (fuel : Nat) :
    ∀ (i len : Nat) {t : Streams}, SafeInv t → SafeInv (Streams.tryForEach f fuel i len t).1 := by
  induction fuel with
  | zero => intro i len t h; exact h
  | succ n ih =>
    intro i len t h
    unfold Streams.tryForEach
    split
    · split
      · exact h.fr ((Fr.refl _).panic _)
      · rename_i id _
        have := hf t id h
        split
        · rename_i heq; rw [heq] at this; exact this
        · rename_i heq; rw [heq] at this
          dsimp only
          split
          · exact ih _ _ this
          · exact ih _ _ this
    · exact h

theorem SafeInv.storeTryForEach {t : Streams} (h : SafeInv t) (f : Streams → Nat → Streams × Option PErr)
    (hf : ∀ t id, SafeInv t → SafeInv (f t id).1) : SafeInv (t.storeTryForEach f).1 := by
  unfold Streams.storeTryForEach; exact SafeInv.tryForEach f hf _ _ _ h

theorem SafeInv.storeForEach {t : Streams} (h : SafeInv t) (f : Streams → Nat → Streams)
    (hf : ∀ t id, SafeInv t → SafeInv (f t id)) : SafeInv (t.storeForEach f) := by
  unfold Streams.storeForEach; exact h.storeTryForEach _ (fun t id ht => hf t id ht)

theorem Fr.storeTryForEach' {s t : Streams} {f : Streams → Nat → Streams × Option PErr}
    (hf : ∀ t id, Fr s t → Fr s (f t id).1) (h : Fr s t) : Fr s (t.storeTryForEach f).1 := h.storeTryForEach f hf
theorem Fr.storeForEach' {s t : Streams} {f : Streams → Nat → Streams}
    (hf : ∀ t id, Fr s t → Fr s (f t id)) (h : Fr s t) : Fr s (t.storeForEach f) := h.storeForEach f hf
theorem SafeInv.storeTryForEach' {t : Streams} {f : Streams → Nat → Streams × Option PErr}
    (hf : ∀ t id, SafeInv t → SafeInv (f t id).1) (h : SafeInv t) : SafeInv (t.storeTryForEach f).1 :=
  h.storeTryForEach f hf
theorem SafeInv.storeForEach' {t : Streams} {f : Streams → Nat → Streams}
    (hf : ∀ t id, SafeInv t → SafeInv (f t id)) (h : SafeInv t) : SafeInv (t.storeForEach f) :=
  h.storeForEach f hf

-- (only usable when the source state of the goal is known, i.e. from `fr_auto`, not from `safe_step`)
macro_rules | `(tactic| fr_peel) => `(tactic| first
  | (with_reducible apply Fr.storeTryForEach'; (· intro _ _ _; (try dsimp only); fr_auto))
  | (with_reducible apply Fr.storeForEach'; (· intro _ _ _; (try dsimp only); fr_auto)))
macro_rules | `(tactic| safe_peel) => `(tactic| first
  | (with_reducible apply SafeInv.storeTryForEach'; (· intro _ _ _; (try unfold Streams.transition); (try dsimp only); safe_auto))
  | (with_reducible apply SafeInv.storeForEach'; (· intro _ _ _; (try unfold Streams.transition); (try dsimp only); safe_auto)))

-- ===================================================================== SETTINGS_INITIAL_WINDOW_SIZE lowered

theorem wrapAddU32_small {a b : Nat} (h : a + b < 4294967296) : wrapAddU32 a b = a + b := by
  unfold wrapAddU32 U32_MOD; omega

/-- one stream of the `Ordering::Less` loop: the window shrinks (possibly below zero), what the stream
    holds above the new window goes into the accumulator `acc` (= the pending credit `g`) -/
theorem SafeInvG.decStreamWindow {s : Streams} {acc : Nat} (h : SafeInvG acc s) (dec id : Nat) :
    SafeInvG ((Streams.decStreamWindow dec acc s id).2.1 : Nat) (Streams.decStreamWindow dec acc s id).1 := by
  unfold Streams.decStreamWindow
  dsimp only
  split
  · exact h
  cases hget : s.store.get? id with
  | none =>
    have hb : s.stream id = { key := id, id := 0 } := by unfold Streams.stream; rw [hget]; rfl
    rw [hb]
    split
    · exact h
    · rename_i fl _ he
      have hav : fl.available = ({ key := id, id := 0 } : Stream).sendFlow.available := by
        rw [Flow.decSendWindow_eq] at he
        split at he <;> simp only [Prod.mk.injEq] at he <;> (obtain ⟨rfl, _⟩ := he; rfl)
      have hz : fl.available.asSize = 0 := by rw [hav]; rfl
      rw [modStream_none hget]
      split
      · omega
      · exact h.fr ((Fr.refl _).panic _)
  | some st =>
    have hm := get?_mem hget
    rw [stream_of_get hget]
    have hok := h.st st hm.1
    have h0 := hok.av0; have hw := hok.avw; have hlo := hok.wlo; have hhi := hok.whi
    have hle := h.st_le hm.1
    have hA0 := h.a0
    have hW := h.whi
    split
    · exact h
    · rename_i fl _ he
      rw [Flow.decSendWindow_eq] at he
      split at he
      · rename_i hin
        simp only [Prod.mk.injEq, and_true] at he
        subst he
        have hin' := (inI32_iff _).1 hin
        simp only [FlowControl.windowSz, asSize_eq]
        split
        · rename_i hgt
          -- the stream holds more than its new window: the excess is reclaimed
          have hrec : ((st.sendFlow.available.val.toNat - (st.sendFlow.windowSize.val - u32AsI32 dec).toNat : Nat) : Int) =
              st.sendFlow.available.val - ((st.sendFlow.windowSize.val - u32AsI32 dec).toNat : Int) := by omega
          have hsmall : st.sendFlow.available.val.toNat - (st.sendFlow.windowSize.val - u32AsI32 dec).toNat ≤ 2147483647 := by
            omega32
          split
          · rename_i he2
            exfalso
            rw [Flow.claimCapacity_eq, u32AsI32_small hsmall] at he2
            have : inI32 (st.sendFlow.available.val -
                ((st.sendFlow.available.val.toNat - (st.sendFlow.windowSize.val - u32AsI32 dec).toNat : Nat) : Int)) = true :=
              (inI32_iff _).2 (by omega32)
            simp only [this, if_true, Prod.mk.injEq] at he2
            exact absurd he2.2 (by simp)
          · rename_i fl2 _ he2
            rw [Flow.claimCapacity_eq, u32AsI32_small hsmall] at he2
            have hin2 : inI32 (st.sendFlow.available.val -
                ((st.sendFlow.available.val.toNat - (st.sendFlow.windowSize.val - u32AsI32 dec).toNat : Nat) : Int)) = true :=
              (inI32_iff _).2 (by omega32)
            simp only [hin2, if_true, Prod.mk.injEq, and_true] at he2
            subst he2
            have hu := Upd.modStream hget (fun x : Stream => { x with sendFlow :=
              ({ st.sendFlow with windowSize := ⟨st.sendFlow.windowSize.val - u32AsI32 dec⟩,
                                  available := ⟨st.sendFlow.available.val -
                ((st.sendFlow.available.val.toNat - (st.sendFlow.windowSize.val - u32AsI32 dec).toNat : Nat) : Int)⟩ } : FlowControl) }) rfl
            have hacc : wrapAddU32 acc (st.sendFlow.available.val.toNat - (st.sendFlow.windowSize.val - u32AsI32 dec).toNat) =
                acc + (st.sendFlow.available.val.toNat - (st.sendFlow.windowSize.val - u32AsI32 dec).toNat) :=
              wrapAddU32_small (by omega32)
            rw [hacc]
            refine h.upd hu (Int.natCast_nonneg _) ⟨?_, ?_, ?_, ?_⟩ ?_ ?_ ?_
            · simp only at hgt ⊢; omega
            · simp only at hgt ⊢; omega
            · simp only; omega32
            · simp only; omega32
            · rw [modStream_prio]; exact hA0
            · rw [modStream_prio]; exact hW
            · rw [modStream_prio]; simp only at hgt ⊢; omega
        · rename_i hng
          have hu := Upd.modStream hget (fun x : Stream => { x with sendFlow :=
              ({ st.sendFlow with windowSize := ⟨st.sendFlow.windowSize.val - u32AsI32 dec⟩ } : FlowControl) }) rfl
          refine h.upd hu (Int.natCast_nonneg _) ⟨h0, ?_, ?_, ?_⟩ ?_ ?_ ?_
          · simp only at hng ⊢; omega
          · simp only; omega32
          · simp only; omega32
          · rw [modStream_prio]; exact hA0
          · rw [modStream_prio]; exact hW
          · rw [modStream_prio]; simp only; omega
      · simp at he

theorem SafeInvG.tryForEachAcc (dec : Nat) (fuel : Nat) :
    ∀ (i len acc : Nat) {t : Streams}, SafeInvG acc t →
      SafeInvG ((Streams.tryForEachAcc (Streams.decStreamWindow dec) fuel i len acc t).2.1 : Nat)
        (Streams.tryForEachAcc (Streams.decStreamWindow dec) fuel i len acc t).1 := by
  induction fuel with
  | zero => intro i len acc t h; exact h
  | succ n ih =>
    intro i len acc t h
    unfold Streams.tryForEachAcc
    split
    · split
      · exact h.fr ((Fr.refl _).panic _)
      · rename_i id _
        have := h.decStreamWindow dec id
        split
        · rename_i heq; rw [heq] at this; exact this
        · rename_i heq; rw [heq] at this
          dsimp only
          split
          · exact ih _ _ _ this
          · exact ih _ _ _ this
    · exact h

theorem SafeInv.tryForEachAcc_eq {dec fuel i len : Nat} {t s' : Streams} {tot : Nat} {r : Option PErr}
    (heq : Streams.tryForEachAcc (Streams.decStreamWindow dec) fuel i len 0 t = (s', tot, r)) (h : SafeInv t) :
    SafeInvG tot s' := by
  have := SafeInvG.tryForEachAcc dec fuel i len 0 (t := t) (by simpa using h)
  rw [heq] at this; exact this

-- ===================================================================== apply_remote_settings

/-- `Send::apply_remote_settings`; the new SETTINGS_INITIAL_WINDOW_SIZE is a 31-bit value (the frame
    decoder rejects anything above `2^31 - 1`) -/
theorem SafeInv.sendApplyRemoteSettings {s : Streams} (h : SafeInv s) (iws push conn : Option Nat)
    (hiws : ∀ v, iws = some v → v ≤ 2147483647) : SafeInv (s.sendApplyRemoteSettings iws push conn).1 := by
  unfold Streams.sendApplyRemoteSettings
  cases conn <;> cases iws <;> dsimp only
  case none.none => safe_auto
  case some.none => safe_auto
  all_goals (
    have hv := hiws _ rfl
    generalize hX : (if (_ : Nat) < _ then _ else _ : Streams × Option PErr) = X
    have hX1 : SafeInv X.1 := by
      rw [← hX]
      split
      · split
        · exact (SafeInv.tryForEachAcc_eq ‹_› (by safe_auto)).weaken
        · exact (SafeInv.tryForEachAcc_eq ‹_› (by safe_auto)).assignConnectionCapacity
      · split
        · refine SafeInv.storeTryForEach (by safe_auto) _ (fun t id ht => ?_)
          split
          · rename_i heq; exact SafeInvG.of_fst_eq heq (ht.sendRecvStreamWindowUpdate _ _ (by omega))
          · rename_i heq; exact SafeInvG.of_fst_eq heq (ht.sendRecvStreamWindowUpdate _ _ (by omega))
        · safe_auto
    clear hX
    split
    · exact hX1
    · split <;> safe_auto)

end H2V.Lemmas.ConnFlowP
