import H2V.Lemmas.ConnFlowPSendFr
import H2V.Lemmas.ConnFlowPClone
/-
  ConnFlowP, part 6 — `SafeInv` through the flow-changing functions of `prioritize.rs` / `send.rs`:
  `send_data`, `recv_stream_window_update`, `recv_connection_window_update`, `pop_frame` (the only
  place where DATA leaves and windows are charged), `buffer_pending`, `send_reset`,
  `schedule_implicit_reset`, `send_trailers`, `handle_error`.
-/
namespace H2V.Lemmas.ConnFlowP
open H2V H2V.Model H2V.Model.Conn H2V.Lemmas.Comp

/-- unfold a model function and peel it -/
macro "safe_by" f:ident : tactic => `(tactic| (unfold $f; (try dsimp only); safe_auto))

theorem SafeInvG.weaken {g : Int} {s : Streams} (h : SafeInvG g s) : SafeInv s :=
  ⟨Int.le_refl _, h.keys, h.st, h.a0, h.whi, by have := h.ledger; have := h.g0; omega⟩

-- ===================================================================== projections of nested updates

@[simp] theorem store_modPrio (s : Streams) (f : Prioritize → Prioritize) : (s.modPrio f).store = s.store := rfl
@[simp] theorem store_wake (s : Streams) (w : List String) : (s.wake w).store = s.store := rfl
@[simp] theorem store_setStream (s : Streams) (x : Stream) : (s.setStream x).store = s.store.set x := rfl
@[simp] theorem prio_modPrio (s : Streams) (f : Prioritize → Prioritize) : (s.modPrio f).prio = f s.prio := rfl
@[simp] theorem prio_wake (s : Streams) (w : List String) : (s.wake w).prio = s.prio := rfl
@[simp] theorem prio_setStream (s : Streams) (x : Stream) : (s.setStream x).prio = s.prio := rfl
attribute [simp] panic_store panic_prio modStream_prio modStreamW_prio

-- ===================================================================== send_data (user side)

theorem SafeInv.prioSendData {s : Streams} (h : SafeInv s) (id len : Nat) (eos : Bool) :
    SafeInv (s.prioSendData id len eos).1 := by
  safe_by Streams.prioSendData
macro_rules | `(tactic| safe_peel) => `(tactic| with_reducible apply SafeInv.prioSendData)

-- ===================================================================== WINDOW_UPDATE

/-- a stream window grows (`inc < 2^31`: the wire format has 31 bits) -/
theorem incWindow_step {s : Streams} (h : SafeInv s) (id inc : Nat) (hinc : inc ≤ 2147483647) {fl : FlowControl}
    (he : (s.stream id).sendFlow.incWindow inc = (fl, .ok ())) :
    SafeInv (s.modStream id fun st => { st with sendFlow := fl }) := by
  cases hget : s.store.get? id with
  | none => rw [modStream_none hget]; exact h.fr ((Fr.refl _).panic _)
  | some st =>
    have hm := get?_mem hget
    rw [stream_of_get hget] at he
    have hok := h.st st hm.1
    have hu := Upd.modStream hget (fun st => { st with sendFlow := fl }) rfl
    have hi := incWindow_ok he
    rw [Flow.incWindow_eq, u32AsI32_small hinc] at he
    split at he
    · rename_i hc
      simp only [Prod.mk.injEq, and_true] at he
      subst he
      have h0 := hok.av0; have hw := hok.avw; have hlo := hok.wlo; have hhi := hok.whi
      have hc1 := (inI32_iff _).1 hc.1
      refine h.upd hu (Int.le_refl _) ⟨h0, ?_, ?_, ?_⟩ ?_ ?_ ?_
      · intro hp; have := hw hp; simp only; omega
      · simp only; omega32
      · simp only; omega32
      · rw [modStream_prio]; exact h.a0
      · rw [modStream_prio]; exact h.whi
      · rw [modStream_prio]; simp only; omega
    · simp at he

theorem SafeInv.prioRecvStreamWindowUpdate {s : Streams} (h : SafeInv s) (id inc : Nat) (hinc : inc ≤ 2147483647) :
    SafeInv (s.prioRecvStreamWindowUpdate id inc).1 := by
  unfold Streams.prioRecvStreamWindowUpdate
  dsimp only
  split
  · exact h
  · split
    · exact h
    · exact h
    · rename_i fl _ he
      exact (incWindow_step h id inc hinc he).tryAssignCapacity id

theorem SafeInv.recvConnectionWindowUpdate {s : Streams} (h : SafeInv s) (inc : Nat) (hinc : inc ≤ 2147483647) :
    SafeInv (s.recvConnectionWindowUpdate inc).1 := by
  unfold Streams.recvConnectionWindowUpdate
  split
  · exact h
  · exact h
  · rename_i fl _ he
    apply SafeInvG.assignConnectionCapacity
    rw [Flow.incWindow_eq, u32AsI32_small hinc] at he
    split at he
    · rename_i hc
      simp only [Prod.mk.injEq, and_true] at he
      subst he
      have hc2 := hc.2
      have hM : (Generated.Consts.MAX_WINDOW_SIZE : Int) = 2147483647 := by decide
      refine h.conn rfl (Int.natCast_nonneg _) h.a0 ?_ ?_
      · show s.prio.flow.windowSize.val + (inc : Int) ≤ I32_MAX; omega32
      · show s.prio.flow.available.val - s.prio.flow.available.val + ((inc : Int) - 0) ≤
          s.prio.flow.windowSize.val + (inc : Int) - s.prio.flow.windowSize.val
        omega
    · simp at he

-- ===================================================================== pop_frame

/-- what a `Stream::send_data` (with any capacity function) leaves of key and send flow -/
theorem sendDataC_kf (capf : Stream → Nat → Nat) (x : Stream) (len m : Nat) :
    (sendDataC capf x len m).1.key = x.key ∧ (sendDataC capf x len m).1.sendFlow = (x.sendFlow.sendData len).1 := by
  rw [sendDataC_def]; dsimp only; split
  · exact ⟨(notifyCapacity_kf _).1, (notifyCapacity_kf _).2⟩
  · exact ⟨rfl, rfl⟩

theorem sendData_kf (x : Stream) (len m : Nat) :
    (x.sendData len m).1.key = x.key ∧ (x.sendData len m).1.sendFlow = (x.sendFlow.sendData len).1 := by
  rw [sendDataC.eq]; exact sendDataC_kf _ x len m

/-- a stream sends `n` octets it has capacity and window for -/
theorem flOk_send {f : FlowControl} (hf : FlOk f) {n : Nat} (h1 : n ≤ f.available.asSize)
    (h2 : n = 0 ∨ n ≤ f.windowSz) :
    FlOk (f.sendData n).1 ∧ (f.sendData n).1.available.val = f.available.val - n ∧
      (f.sendData n).1.windowSize.val = f.windowSize.val - n ∧ (f.sendData n).2 = .ok () := by
  by_cases hn : n = 0
  · subst hn; rw [sendData_zero]; exact ⟨hf, by simp, by simp, rfl⟩
  · have h2' : n ≤ f.windowSz := by rcases h2 with h | h; exact absurd h hn; exact h
    have hle := hf.asSize_le
    have hlt := hf.windowSz_lt
    have h0 := hf.av0; have hw := hf.avw; have hlo := hf.wlo; have hhi := hf.whi
    unfold FlowControl.windowSz at *
    rw [asSize_eq] at h1 h2' hle hlt
    rw [asSize_eq] at hle
    have hs : u32AsI32 n = (n : Int) := u32AsI32_small (by omega)
    rw [Flow.sendData_eq, hs]
    simp only [hn, if_false]
    have hnl : ¬ f.windowSize.val < (n : Int) := by omega
    have hi1 : inI32 (f.windowSize.val - (n : Int)) = true := (inI32_iff _).2 (by omega32)
    have hi2 : inI32 (f.available.val - (n : Int)) = true := (inI32_iff _).2 (by omega32)
    rw [if_neg hnl, if_pos hi1, if_pos hi2]
    refine ⟨⟨?_, ?_, ?_, ?_⟩, rfl, rfl, rfl⟩ <;> simp only <;> omega32

/-- the connection is charged for `n` octets a stream held capacity for -/
theorem conn_send {f : FlowControl} (h0 : 0 ≤ f.available.val) {n : Nat}
    (hn : f.available.val + n ≤ f.windowSize.val) (hW : f.windowSize.val ≤ I32_MAX) :
    ((f.assignCapacity n).1.sendData n).1.available.val = f.available.val ∧
    ((f.assignCapacity n).1.sendData n).1.windowSize.val = f.windowSize.val - n ∧
    ((f.assignCapacity n).1.sendData n).2 = .ok () := by
  have hc := conn_assign (f := f) h0 (n := n) (by omega)
  by_cases hz : n = 0
  · subst hz; rw [sendData_zero]; exact ⟨by rw [hc.1]; simp, by rw [hc.2]; simp, rfl⟩
  · have hs : u32AsI32 n = (n : Int) := u32AsI32_small (by omega32)
    rw [Flow.sendData_eq, hs, hc.1, hc.2]
    simp only [hz, if_false]
    have hnl : ¬ f.windowSize.val < (n : Int) := by omega
    have hi1 : inI32 (f.windowSize.val - (n : Int)) = true := (inI32_iff _).2 (by omega32)
    have hi2 : inI32 (f.available.val + (n : Int) - (n : Int)) = true := (inI32_iff _).2 (by omega32)
    rw [if_neg hnl, if_pos hi1, if_pos hi2]
    exact ⟨by simp only; omega, rfl, rfl⟩

theorem set_of_none {a : Store} {x : Stream} (h : a.get? x.key = none) : (a.set x).slab = a.slab := by
  unfold Store.get? at h
  unfold Store.set
  simp only
  have := List.find?_eq_none.1 h
  conv => rhs; rw [← List.map_id' a.slab]
  apply List.map_congr_left
  intro y hy
  have := this y hy
  simp only [this, Bool.false_eq_true, if_false]

/-- whatever state ends up holding the charged stream and the charged connection flow is safe -/
theorem emit_safe {s1 : Streams} (h : SafeInv s1) (id len : Nat)
    (hlen1 : len ≤ (s1.stream id).sendFlow.available.asSize)
    (hlen2 : len = 0 ∨ len ≤ (s1.stream id).sendFlow.windowSz)
    (st' : Stream) (hk : st'.key = (s1.stream id).key)
    (hfl : st'.sendFlow = ((s1.stream id).sendFlow.sendData len).1)
    (S5 : Streams) (hstore : S5.store = s1.store.set st')
    (hflow : S5.prio.flow = ((s1.prio.flow.assignCapacity len).1.sendData len).1) : SafeInv S5 := by
  cases hget : s1.store.get? id with
  | none =>
    have hb : s1.stream id = { key := id, id := 0 } := by unfold Streams.stream; rw [hget]; rfl
    have hl0 : len = 0 := by
      rw [hb] at hlen1
      have : ({ key := id, id := 0 } : Stream).sendFlow.available.asSize = 0 := rfl
      omega
    subst hl0
    have hk' : st'.key = id := by rw [hk, hb]
    have hslab : S5.store.slab = s1.store.slab := by rw [hstore]; exact set_of_none (by rw [hk']; exact hget)
    have hnext : S5.store.nextKey = s1.store.nextKey := by rw [hstore]; rfl
    have hc := conn_assign (f := s1.prio.flow) h.a0 (n := 0) (by have := h.whi; have := h.av_le; omega32)
    have hfl' : S5.prio.flow.available.val = s1.prio.flow.available.val ∧
        S5.prio.flow.windowSize.val = s1.prio.flow.windowSize.val := by
      rw [hflow, sendData_zero]; exact ⟨by rw [hc.1]; simp, by rw [hc.2]⟩
    refine ⟨Int.le_refl _, ⟨by rw [hslab]; exact h.keys.1, by rw [hslab, hnext]; exact h.keys.2⟩,
      by rw [hslab]; exact h.st, by rw [hfl'.1]; exact h.a0, by rw [hfl'.2]; exact h.whi, ?_⟩
    rw [hslab, hfl'.1, hfl'.2]; exact h.ledger
  | some st =>
    have hm := get?_mem hget
    rw [stream_of_get hget] at hlen1 hlen2 hk hfl
    have hok := h.st st hm.1
    have hs := flOk_send hok hlen1 hlen2
    have hle := h.st_le hm.1
    have hl : (len : Int) ≤ st.sendFlow.available.val := by
      rw [asSize_eq] at hlen1; have := hok.av0; omega
    have hc := conn_send (f := s1.prio.flow) h.a0 (n := len) (by omega) h.whi
    have hu : Upd s1 S5 id st st' := ⟨hget, hk.trans hm.2, by rw [hstore], by rw [hstore]; rfl⟩
    refine h.upd hu (Int.le_refl _) (by rw [hfl]; exact hs.1) ?_ ?_ ?_
    · rw [hflow, hc.1]; exact h.a0
    · rw [hflow, hc.2.1]; have := h.whi; omega
    · rw [hflow, hc.1, hc.2.1, hfl, hs.2.1]; omega

theorem usizeAsU32_le (x : Nat) : usizeAsU32 x ≤ x := by
  unfold usizeAsU32 U32_MOD; omega

/-- a function that behaves like `Stream::send_data` on key and send flow -/
def SdOk (sd : Stream → Nat → Nat → Stream × List String × Bool) : Prop :=
  ∀ x len m, (sd x len m).1.key = x.key ∧ (sd x len m).1.sendFlow = (x.sendFlow.sendData len).1

/-- the DATA arm of `pop_frame` from the point where a chunk of `len` octets is cut off the front
    frame: charge the stream (`Stream::send_data`), then the connection (`assign_capacity` +
    `send_data`) -/
def emitC (sd : Stream → Nat → Nat → Stream × List String × Bool) (s : Streams) (id len : Nat) (rest : List SFrame) :
    Streams :=
  let s := s.modStream id fun st => { st with pendingSend := rest }
  let (st', w, bad) := sd (s.stream id) len s.prio.maxBufferSize
  let s := (s.setStream st').wake w
  let s := if bad then s.panic "assertion failed: self.window_size.0 >= sz as i32 (stream)" else s
  let s := s.modPrio fun p => { p with flow := (p.flow.assignCapacity len).1 }
  let (fl, r) := s.prio.flow.sendData len
  let s := s.modPrio fun p => { p with flow := fl }
  match r with
    | .error .assertFailed => s.panic "assertion failed: self.window_size.0 >= sz as i32 (connection)"
    | _ => s

theorem emitC_store (sd : Stream → Nat → Nat → Stream × List String × Bool) (s : Streams) (id len : Nat)
    (rest : List SFrame) :
    (emitC sd s id len rest).store =
      (s.modStream id fun st => { st with pendingSend := rest }).store.set
        (sd ((s.modStream id fun st => { st with pendingSend := rest }).stream id) len
          (s.modStream id fun st => { st with pendingSend := rest }).prio.maxBufferSize).1 := by
  unfold ConnFlowP.emitC; dsimp only
  split <;> split <;> simp only [store_modPrio, store_wake, store_setStream, panic_store]

theorem emitC_flow (sd : Stream → Nat → Nat → Stream × List String × Bool) (s : Streams) (id len : Nat)
    (rest : List SFrame) :
    (emitC sd s id len rest).prio.flow = ((s.prio.flow.assignCapacity len).1.sendData len).1 := by
  unfold ConnFlowP.emitC; dsimp only
  split <;> split <;>
    simp only [prio_modPrio, prio_wake, prio_setStream, panic_prio, modStream_prio]

theorem SafeInv.emitC {sd : Stream → Nat → Nat → Stream × List String × Bool} (hsd : SdOk sd) {s : Streams}
    (h : SafeInv s) (id len : Nat) (rest : List SFrame)
    (h1 : len ≤ (s.stream id).sendFlow.available.asSize)
    (h2 : len = 0 ∨ len ≤ (s.stream id).sendFlow.windowSz) : SafeInv (emitC sd s id len rest) := by
  have e := stream_modStream_flow (s := s) id id (fun st : Stream => { st with pendingSend := rest }) (fun _ => ⟨rfl, rfl⟩)
  have hs1 : SafeInv (s.modStream id fun st => { st with pendingSend := rest }) :=
    h.fr ((Fr.refl _).modStream _ _ (fun _ => ⟨rfl, rfl⟩))
  have hk := hsd ((s.modStream id fun st => { st with pendingSend := rest }).stream id) len
    (s.modStream id fun st => { st with pendingSend := rest }).prio.maxBufferSize
  refine emit_safe hs1 id len (by rw [e]; exact h1) (by rw [e]; exact h2) _ hk.1 hk.2 _ (emitC_store sd s id len rest) ?_
  rw [emitC_flow, modStream_prio]

/-- `popFrameC_succ` with the DATA arm folded into `emitC` -/
theorem popFrameC_succ' (sd : Stream → Nat → Nat → Stream × List String × Bool) (fuel : Nat) (s : Streams) (maxLen : Nat) :
    popFrameC sd (fuel + 1) s maxLen =
    ((match s.qPop .pendingSend with
    | (s, none) => (s, none)
    | (s, some id) =>
      let st := s.stream id
      let isPendingReset := st.isPendingResetExpiration
      let finish := fun (s : Streams) (f : Streams.OutFrame) =>
        let st := s.stream id
        let s := if !st.pendingSend.isEmpty || st.state.isScheduledReset then (s.qPush .pendingSend id).1 else s
        (s.transitionAfter id isPendingReset, some f)
      match st.pendingSend with
      | .data sz eos :: rest =>
        let discard : Bool := match st.state.getScheduledReset with
          | some reason => reason != NO_ERROR
          | none => false
        if discard then
          let s := (s.clearQueue id).reclaimAllCapacity id
          popFrameC sd fuel (s.qPush .pendingSend id).1 maxLen
        else
          let streamCapacity := st.sendFlow.available
          if sz > 0 && streamCapacity.eqUsize 0 then
            popFrameC sd fuel s maxLen
          else
            let len := usizeAsU32 (min (min sz maxLen) streamCapacity.asSize)
            if len > 0 && len > st.sendFlow.windowSz then
              popFrameC sd fuel s maxLen
            else
              let flagEos := if sz > len then false else eos
              finish (emitC sd s id len rest) (.data len flagEos { key := id, sid := st.id, rest := sz - len, eos := eos })
      | .headers heos fields :: rest =>
        finish (s.modStream id fun st => { st with pendingSend := rest }) (.headers st.id heos fields)
      | .reset reason :: rest =>
        finish (s.modStream id fun st => { st with pendingSend := rest }) (.reset st.id reason)
      | .pushPromise pk pid fields :: rest =>
        let s := s.modStream id fun st => { st with pendingSend := rest }
        match s.store.findKey? pid with
        | none =>
          let st := s.stream id
          let s := if !st.pendingSend.isEmpty || st.state.isScheduledReset then (s.qPush .pendingSend id).1 else s
          popFrameC sd fuel (s.transitionAfter id isPendingReset) maxLen
        | some pushed =>
          let _ := pk
          let s := s.modStream pushed fun st => { st with isPendingPush := false }
          let s :=
            if !(s.stream pushed).pendingSend.isEmpty then
              if s.counts.canIncNumSendStreams then (((s.incNumSendStreams pushed).qPush .pendingSend pushed).1)
              else s.queueOpen pushed
            else s
          finish s (.pushPromise st.id pid fields)
      | [] =>
        match st.state.getScheduledReset with
        | some reason =>
          let s := s.modStreamW id fun st => st.setReset reason .library
          finish s (.reset st.id reason)
        | none =>
          popFrameC sd fuel (s.transitionAfter id isPendingReset) maxLen) : Streams × Option Streams.OutFrame) := by
  rw [popFrameC_succ]; rfl

theorem SafeInv.popFrameC (sd : Stream → Nat → Nat → Stream × List String × Bool) (hsd : SdOk sd) (fuel : Nat) :
    ∀ {s : Streams}, SafeInv s → ∀ maxLen, SafeInv (popFrameC sd fuel s maxLen).1 := by
  induction fuel with
  | zero => intro s h m; rw [popFrameC_zero]; exact h
  | succ n ih =>
    intro s h maxLen
    rw [popFrameC_succ']
    dsimp only
    safe_auto
    all_goals (
      have hc := ‹¬(decide (_ > 0) && decide (_ > _)) = true›
      refine SafeInv.emitC hsd ?_ _ _ _ (Nat.le_trans (usizeAsU32_le _) (Nat.min_le_right _ _)) ?_
      · safe_auto
      · simp only [Bool.and_eq_true, decide_eq_true_eq, not_and, Nat.not_lt] at hc
        omega)

theorem sdOk_sendData : SdOk Stream.sendData := sendData_kf

theorem SafeInv.popFrame {s : Streams} (h : SafeInv s) (fuel maxLen : Nat) :
    SafeInv (Streams.popFrame fuel s maxLen).1 := by
  rw [popFrameC.eq]; exact SafeInv.popFrameC _ sdOk_sendData fuel h maxLen
macro_rules | `(tactic| safe_peel) => `(tactic| with_reducible apply SafeInv.popFrame)

-- ===================================================================== buffer_pending, resets, trailers

theorem SafeInv.prioBufferPendingLoop (fuel : Nat) :
    ∀ {s : Streams}, SafeInv s → ∀ w, SafeInv (Streams.prioBufferPendingLoop fuel s w).1 := by
  induction fuel with
  | zero => intro s h w; unfold Streams.prioBufferPendingLoop; safe_auto
  | succ n ih => intro s h w; unfold Streams.prioBufferPendingLoop; dsimp only; safe_auto
macro_rules | `(tactic| safe_peel) => `(tactic| with_reducible apply SafeInv.prioBufferPendingLoop)

theorem SafeInv.prioBufferPending {s : Streams} (h : SafeInv s) (fuel : Nat) (w : Writer) :
    SafeInv (Streams.prioBufferPending fuel s w).1 := by
  safe_by Streams.prioBufferPending
macro_rules | `(tactic| safe_peel) => `(tactic| with_reducible apply SafeInv.prioBufferPending)

theorem SafeInv.sendSendReset {s : Streams} (h : SafeInv s) (id : Nat) (r : Reason) (i : Initiator) :
    SafeInv (s.sendSendReset id r i) := by
  safe_by Streams.sendSendReset
macro_rules | `(tactic| safe_peel) => `(tactic| with_reducible apply SafeInv.sendSendReset)

theorem SafeInv.scheduleImplicitReset {s : Streams} (h : SafeInv s) (id : Nat) (r : Reason) :
    SafeInv (s.scheduleImplicitReset id r) := by
  safe_by Streams.scheduleImplicitReset
macro_rules | `(tactic| safe_peel) => `(tactic| with_reducible apply SafeInv.scheduleImplicitReset)

theorem SafeInv.sendTrailers {s : Streams} (h : SafeInv s) (id : Nat) (f : List Hpack.Field) :
    SafeInv (s.sendTrailers id f).1 := by
  safe_by Streams.sendTrailers
macro_rules | `(tactic| safe_peel) => `(tactic| with_reducible apply SafeInv.sendTrailers)

theorem SafeInv.sendHandleError {s : Streams} (h : SafeInv s) (id : Nat) : SafeInv (s.sendHandleError id) := by
  safe_by Streams.sendHandleError
macro_rules | `(tactic| safe_peel) => `(tactic| with_reducible apply SafeInv.sendHandleError)

theorem SafeInv.sendRecvStreamWindowUpdate {s : Streams} (h : SafeInv s) (id inc : Nat) (hinc : inc ≤ 2147483647) :
    SafeInv (s.sendRecvStreamWindowUpdate id inc).1 := by
  unfold Streams.sendRecvStreamWindowUpdate
  have h1 := h.prioRecvStreamWindowUpdate id inc hinc
  split
  · rename_i s' e he
    rw [he] at h1
    exact SafeInv.sendSendReset h1 _ _ _
  · rename_i s' _ he
    rw [he] at h1
    exact h1

end H2V.Lemmas.ConnFlowP
