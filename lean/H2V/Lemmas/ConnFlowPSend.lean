import H2V.Lemmas.ConnFlowPSendFr
/-
  ConnFlowP, part 6 — `SafeInv` through the flow-changing functions of `prioritize.rs` / `send.rs`:
  `send_data`, `recv_stream_window_update`, `recv_connection_window_update`, `pop_frame` (the only
  place where DATA leaves and windows are charged), `buffer_pending`, `send_reset`,
  `schedule_implicit_reset`, `send_trailers`, `handle_error`.
-/
namespace H2V.Lemmas.ConnFlowP
open H2V H2V.Model H2V.Model.Conn H2V.Lemmas.Comp

/-- unfold a model function and peel it -/
macro "safe_by" f:ident : tactic => `(tactic| (unfold $f; (try dsimp only); safe_auto))

theorem SafeInvG.weaken {g : Int} {s : Streams} (h : SafeInvG g s) : SafeInv s :=
  ⟨Int.le_refl _, h.keys, h.st, h.a0, h.whi, by have := h.ledger; have := h.g0; omega⟩

-- ===================================================================== projections of nested updates

@[simp] theorem store_modPrio (s : Streams) (f : Prioritize → Prioritize) : (s.modPrio f).store = s.store := rfl
@[simp] theorem store_wake (s : Streams) (w : List String) : (s.wake w).store = s.store := rfl
@[simp] theorem store_setStream (s : Streams) (x : Stream) : (s.setStream x).store = s.store.set x := rfl
@[simp] theorem prio_modPrio (s : Streams) (f : Prioritize → Prioritize) : (s.modPrio f).prio = f s.prio := rfl
@[simp] theorem prio_wake (s : Streams) (w : List String) : (s.wake w).prio = s.prio := rfl
@[simp] theorem prio_setStream (s : Streams) (x : Stream) : (s.setStream x).prio = s.prio := rfl
attribute [simp] panic_store panic_prio modStream_prio modStreamW_prio

-- ===================================================================== send_data (user side)

theorem SafeInv.prioSendData {s : Streams} (h : SafeInv s) (id len : Nat) (eos : Bool) :
    SafeInv (s.prioSendData id len eos).1 := by
  safe_by Streams.prioSendData
macro_rules | `(tactic| safe_peel) => `(tactic| with_reducible apply SafeInv.prioSendData)

-- ===================================================================== WINDOW_UPDATE

/-- a stream window grows (`inc < 2^31`: the wire format has 31 bits) -/
theorem incWindow_step {s : Streams} (h : SafeInv s) (id inc : Nat) (hinc : inc ≤ 2147483647) {fl : FlowControl}
    (he : (s.stream id).sendFlow.incWindow inc = (fl, .ok ())) :
    SafeInv (s.modStream id fun st => { st with sendFlow := fl }) := by
  cases hget : s.store.get? id with
  | none => rw [modStream_none hget]; exact h.fr ((Fr.refl _).panic _)
  | some st =>
    have hm := get?_mem hget
    rw [stream_of_get hget] at he
    have hok := h.st st hm.1
    have hu := Upd.modStream hget (fun st => { st with sendFlow := fl }) rfl
    have hi := incWindow_ok he
    rw [Flow.incWindow_eq, u32AsI32_small hinc] at he
    split at he
    · rename_i hc
      simp only [Prod.mk.injEq, and_true] at he
      subst he
      have h0 := hok.av0; have hw := hok.avw; have hlo := hok.wlo; have hhi := hok.whi
      have hc1 := (inI32_iff _).1 hc.1
      refine h.upd hu (Int.le_refl _) ⟨h0, ?_, ?_, ?_⟩ ?_ ?_ ?_
      · intro hp; have := hw hp; simp only; omega
      · simp only; omega32
      · simp only; omega32
      · rw [modStream_prio]; exact h.a0
      · rw [modStream_prio]; exact h.whi
      · rw [modStream_prio]; simp only; omega
    · simp at he

theorem SafeInv.prioRecvStreamWindowUpdate {s : Streams} (h : SafeInv s) (id inc : Nat) (hinc : inc ≤ 2147483647) :
    SafeInv (s.prioRecvStreamWindowUpdate id inc).1 := by
  unfold Streams.prioRecvStreamWindowUpdate
  dsimp only
  split
  · exact h
  · split
    · exact h
    · exact h
    · rename_i fl _ he
      exact (incWindow_step h id inc hinc he).tryAssignCapacity id

theorem SafeInv.recvConnectionWindowUpdate {s : Streams} (h : SafeInv s) (inc : Nat) (hinc : inc ≤ 2147483647) :
    SafeInv (s.recvConnectionWindowUpdate inc).1 := by
  unfold Streams.recvConnectionWindowUpdate
  split
  · exact h
  · exact h
  · rename_i fl _ he
    apply SafeInvG.assignConnectionCapacity
    rw [Flow.incWindow_eq, u32AsI32_small hinc] at he
    split at he
    · rename_i hc
      simp only [Prod.mk.injEq, and_true] at he
      subst he
      have hc2 := hc.2
      have hM : (Generated.Consts.MAX_WINDOW_SIZE : Int) = 2147483647 := by decide
      refine h.conn rfl (Int.natCast_nonneg _) h.a0 ?_ ?_
      · show s.prio.flow.windowSize.val + (inc : Int) ≤ I32_MAX; omega32
      · show s.prio.flow.available.val - s.prio.flow.available.val + ((inc : Int) - 0) ≤
          s.prio.flow.windowSize.val + (inc : Int) - s.prio.flow.windowSize.val
        omega
    · simp at he

end H2V.Lemmas.ConnFlowP
