import H2V.Lemmas.ConnFlowPSendFr
/-
  ConnFlowP, part 6 — `SafeInv` through the flow-changing functions of `prioritize.rs` / `send.rs`:
  `send_data`, `recv_stream_window_update`, `recv_connection_window_update`, `pop_frame` (the only
  place where DATA leaves and windows are charged), `buffer_pending`, `send_reset`,
  `schedule_implicit_reset`, `send_trailers`, `handle_error`.
-/
namespace H2V.Lemmas.ConnFlowP
open H2V H2V.Model H2V.Model.Conn H2V.Lemmas.Comp

/-- unfold a model function and peel it -/
macro "safe_by" f:ident : tactic => `(tactic| (unfold $f; (try dsimp only); safe_auto))

theorem SafeInvG.weaken {g : Int} {s : Streams} (h : SafeInvG g s) : SafeInv s :=
  ⟨Int.le_refl _, h.keys, h.st, h.a0, h.whi, by have := h.ledger; have := h.g0; omega⟩

-- ===================================================================== projections of nested updates

@[simp] theorem store_modPrio (s : Streams) (f : Prioritize → Prioritize) : (s.modPrio f).store = s.store := rfl
@[simp] theorem store_wake (s : Streams) (w : List String) : (s.wake w).store = s.store := rfl
@[simp] theorem store_setStream (s : Streams) (x : Stream) : (s.setStream x).store = s.store.set x := rfl
@[simp] theorem prio_modPrio (s : Streams) (f : Prioritize → Prioritize) : (s.modPrio f).prio = f s.prio := rfl
@[simp] theorem prio_wake (s : Streams) (w : List String) : (s.wake w).prio = s.prio := rfl
@[simp] theorem prio_setStream (s : Streams) (x : Stream) : (s.setStream x).prio = s.prio := rfl
attribute [simp] panic_store panic_prio modStream_prio modStreamW_prio

-- ===================================================================== send_data (user side)

theorem SafeInv.prioSendData {s : Streams} (h : SafeInv s) (id len : Nat) (eos : Bool) :
    SafeInv (s.prioSendData id len eos).1 := by
  safe_by Streams.prioSendData
macro_rules | `(tactic| safe_peel) => `(tactic| with_reducible apply SafeInv.prioSendData)

-- ===================================================================== WINDOW_UPDATE

/-- a stream window grows (`inc < 2^31`: the wire format has 31 bits) -/
theorem incWindow_step {s : Streams} (h : SafeInv s) (id inc : Nat) (hinc : inc ≤ 2147483647) {fl : FlowControl}
    (he : (s.stream id).sendFlow.incWindow inc = (fl, .ok ())) :
    SafeInv (s.modStream id fun st => { st with sendFlow := fl }) := by
  cases hget : s.store.get? id with
  | none => rw [modStream_none hget]; exact h.fr ((Fr.refl _).panic _)
  | some st =>
    have hm := get?_mem hget
    rw [stream_of_get hget] at he
    have hok := h.st st hm.1
    have hu := Upd.modStream hget (fun st => { st with sendFlow := fl }) rfl
    have hi := incWindow_ok he
    rw [Flow.incWindow_eq, u32AsI32_small hinc] at he
    split at he
    · rename_i hc
      simp only [Prod.mk.injEq, and_true] at he
      subst he
      have h0 := hok.av0; have hw := hok.avw; have hlo := hok.wlo; have hhi := hok.whi
      have hc1 := (inI32_iff _).1 hc.1
      refine h.upd hu (Int.le_refl _) ⟨h0, ?_, ?_, ?_⟩ ?_ ?_ ?_
      · intro hp; have := hw hp; simp only; omega
      · simp only; omega32
      · simp only; omega32
      · rw [modStream_prio]; exact h.a0
      · rw [modStream_prio]; exact h.whi
      · rw [modStream_prio]; simp only; omega
    · simp at he

theorem SafeInv.prioRecvStreamWindowUpdate {s : Streams} (h : SafeInv s) (id inc : Nat) (hinc : inc ≤ 2147483647) :
    SafeInv (s.prioRecvStreamWindowUpdate id inc).1 := by
  unfold Streams.prioRecvStreamWindowUpdate
  dsimp only
  split
  · exact h
  · split
    · exact h
    · exact h
    · rename_i fl _ he
      exact (incWindow_step h id inc hinc he).tryAssignCapacity id

theorem SafeInv.recvConnectionWindowUpdate {s : Streams} (h : SafeInv s) (inc : Nat) (hinc : inc ≤ 2147483647) :
    SafeInv (s.recvConnectionWindowUpdate inc).1 := by
  unfold Streams.recvConnectionWindowUpdate
  split
  · exact h
  · exact h
  · rename_i fl _ he
    apply SafeInvG.assignConnectionCapacity
    rw [Flow.incWindow_eq, u32AsI32_small hinc] at he
    split at he
    · rename_i hc
      simp only [Prod.mk.injEq, and_true] at he
      subst he
      have hc2 := hc.2
      have hM : (Generated.Consts.MAX_WINDOW_SIZE : Int) = 2147483647 := by decide
      refine h.conn rfl (Int.natCast_nonneg _) h.a0 ?_ ?_
      · show s.prio.flow.windowSize.val + (inc : Int) ≤ I32_MAX; omega32
      · show s.prio.flow.available.val - s.prio.flow.available.val + ((inc : Int) - 0) ≤
          s.prio.flow.windowSize.val + (inc : Int) - s.prio.flow.windowSize.val
        omega
    · simp at he

-- ===================================================================== pop_frame

/-- the DATA arm of `pop_frame` from the point where a chunk of `len` octets is cut off the front
    frame: charge the stream (`Stream::send_data`), then the connection (`assign_capacity` +
    `send_data`) -/
def emitData (s : Streams) (id len : Nat) (rest : List SFrame) : Streams :=
  let s := s.modStream id fun st => { st with pendingSend := rest }
  let (st', w, bad) := (s.stream id).sendData len s.prio.maxBufferSize
  let s := (s.setStream st').wake w
  let s := if bad then s.panic "assertion failed: self.window_size.0 >= sz as i32 (stream)" else s
  let s := s.modPrio fun p => { p with flow := (p.flow.assignCapacity len).1 }
  let (fl, r) := s.prio.flow.sendData len
  let s := s.modPrio fun p => { p with flow := fl }
  match r with
    | .error .assertFailed => s.panic "assertion failed: self.window_size.0 >= sz as i32 (connection)"
    | _ => s

/-- `pop_frame`'s loop body, with the recursive call abstracted -/
def popBody (rec : Streams → Nat → Streams × Option Streams.OutFrame) (s : Streams) (maxLen : Nat) :
    Streams × Option Streams.OutFrame :=
  match s.qPop .pendingSend with
  | (s, none) => (s, none)
  | (s, some id) =>
    let st := s.stream id
    let isPendingReset := st.isPendingResetExpiration
    let finish := fun (s : Streams) (f : Streams.OutFrame) =>
      let st := s.stream id
      let s := if !st.pendingSend.isEmpty || st.state.isScheduledReset then (s.qPush .pendingSend id).1 else s
      (s.transitionAfter id isPendingReset, some f)
    match st.pendingSend with
    | .data sz eos :: rest =>
      let discard : Bool := match st.state.getScheduledReset with
        | some reason => reason != NO_ERROR
        | none => false
      if discard then
        let s := (s.clearQueue id).reclaimAllCapacity id
        rec (s.qPush .pendingSend id).1 maxLen
      else
        let streamCapacity := st.sendFlow.available
        if sz > 0 && streamCapacity.eqUsize 0 then
          rec s maxLen
        else
          let len := usizeAsU32 (min (min sz maxLen) streamCapacity.asSize)
          if len > 0 && len > st.sendFlow.windowSz then
            rec s maxLen
          else
            let s := s.modStream id fun st => { st with pendingSend := rest }
            let (st', w, bad) := (s.stream id).sendData len s.prio.maxBufferSize
            let s := (s.setStream st').wake w
            let s := if bad then s.panic "assertion failed: self.window_size.0 >= sz as i32 (stream)" else s
            let s := s.modPrio fun p => { p with flow := (p.flow.assignCapacity len).1 }
            let (fl, r) := s.prio.flow.sendData len
            let s := s.modPrio fun p => { p with flow := fl }
            let s := match r with
              | .error .assertFailed => s.panic "assertion failed: self.window_size.0 >= sz as i32 (connection)"
              | _ => s
            let flagEos := if sz > len then false else eos
            finish s (.data len flagEos { key := id, sid := st.id, rest := sz - len, eos := eos })
    | .headers heos fields :: rest =>
      finish (s.modStream id fun st => { st with pendingSend := rest }) (.headers st.id heos fields)
    | .reset reason :: rest =>
      finish (s.modStream id fun st => { st with pendingSend := rest }) (.reset st.id reason)
    | .pushPromise pk pid fields :: rest =>
      let s := s.modStream id fun st => { st with pendingSend := rest }
      match s.store.findKey? pid with
      | none =>
        let st := s.stream id
        let s := if !st.pendingSend.isEmpty || st.state.isScheduledReset then (s.qPush .pendingSend id).1 else s
        rec (s.transitionAfter id isPendingReset) maxLen
      | some pushed =>
        let _ := pk
        let s := s.modStream pushed fun st => { st with isPendingPush := false }
        let s :=
          if !(s.stream pushed).pendingSend.isEmpty then
            if s.counts.canIncNumSendStreams then (((s.incNumSendStreams pushed).qPush .pendingSend pushed).1)
            else s.queueOpen pushed
          else s
        finish s (.pushPromise st.id pid fields)
    | [] =>
      match st.state.getScheduledReset with
      | some reason =>
        let s := s.modStreamW id fun st => st.setReset reason .library
        finish s (.reset st.id reason)
      | none =>
        rec (s.transitionAfter id isPendingReset) maxLen

/-- `popBody` is `pop_frame`'s body, literally (this `rfl` is the check that the copy above is faithful) -/
theorem popFrame_succ (fuel : Nat) (s : Streams) (maxLen : Nat) :
    Streams.popFrame (fuel + 1) s maxLen = popBody (Streams.popFrame fuel) s maxLen := rfl

theorem popFrame_zero (s : Streams) (maxLen : Nat) : Streams.popFrame 0 s maxLen = (s, none) := rfl

end H2V.Lemmas.ConnFlowP
