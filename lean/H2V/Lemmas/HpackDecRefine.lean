import H2V.Lemmas.HpackDecInv
/-
  Part C — refinement: whatever `Decoder::decode` accepts as a whole header block, the RFC 7541
  reference decoder (`Spec.Hpack.decode`) decodes to the same field list and the same dynamic table.
-/
namespace H2V.Lemmas.HpackDec
open H2V H2V.Model.Hpack H2V.Generated.Static

/-- abstraction: the reference state a decoder stands for -/
def abs (d : Decoder) : Spec.Hpack.St :=
  { entries := d.table.entries, maxSize := d.table.maxSize,
    limit := d.lastMaxUpdate, pendingLimit := d.maxSizeUpdate }

theorem abs_insert (d : Decoder) (h : Header) (hi : Table.Inv d.table) :
    Spec.Hpack.insert (abs d) h = abs { d with seenField := true, table := d.table.insert h } := by
  unfold Spec.Hpack.insert abs
  simp only [fieldSize_eq, insert_entries _ _ hi, insert_maxSize _ _ hi.sizeOk]
  split <;> rfl

/-- one continuing step of the model is one iteration of the reference -/
theorem step_sound_next (hHuff : HuffSpec) (d : Decoder) (c : Bool) (buf : Bytes) (d' : Decoder)
    (c' : Bool) (rest : Bytes) (emit : List Header)
    (hi : Table.Inv d.table) (hv : Bytes.Valid buf)
    (h : step d c buf = .next d' c' rest emit) (fuel : Nat) (acc : List Header) :
    Spec.Hpack.block (fuel + 1) (abs d) (!c) buf acc =
      Spec.Hpack.block fuel (abs d') (!c') rest (acc ++ emit) := by
  cases buf with
  | nil => cases h
  | cons ty tl0 =>
    have hty : ty < 256 := (Valid_cons.1 hv).1
    have lit : ∀ index, stepLiteral d (ty :: tl0) index = .next d' c' rest emit →
        ∃ hd, Spec.Hpack.literal (abs d) (if index then 6 else 4) (ty :: tl0) = .ok (hd, rest) ∧
          emit = [hd] ∧ c' = false ∧
          d' = (if index then { d with seenField := true, table := d.table.insert hd }
                else { d with seenField := true }) := by
      intro index hl
      obtain ⟨hd, hk, he, hc, hd'⟩ := stepLiteral_next_inv _ _ _ _ _ _ _ hl
      exact ⟨hd, decodeLiteral_sound hHuff d.table (abs d) rfl _ _ _ _ hv hk, he, hc, hd'⟩
    unfold step at h
    simp only [Rep_load_eq ty hty] at h
    simp only [Spec.Hpack.block]
    by_cases h128 : ty ≥ 128
    · simp only [repOf, if_pos h128] at h
      rw [if_pos h128]
      split at h
      · cases h
      · rename_i index rest0 hdi
        rw [decodeInt_sound _ _ _ _ hv hdi]
        simp only
        split at h
        · cases h
        · rename_i hh hg
          simp only [Step.next.injEq] at h
          obtain ⟨h1, h2, h3, h4⟩ := h
          subst h1 h2 h3 h4
          have hl := get_eq_lookup d.table (abs d) index rfl
          rw [hg] at hl
          split at hl
          · rename_i f hlk
            cases hl
            rw [hlk]
            rfl
          · cases hl
    · rw [if_neg h128]
      by_cases h64 : ty ≥ 64
      · simp only [repOf, if_neg h128, if_pos h64] at h
        rw [if_pos h64]
        obtain ⟨hd, hk, he, hc, hd'⟩ := lit _ h
        simp only [if_true] at hk hd'
        rw [hk]
        simp only
        rw [abs_insert _ _ hi, he, hc, hd']
        rfl
      · rw [if_neg h64]
        by_cases h32 : ty ≥ 32
        · simp only [repOf, if_neg h128, if_neg h64, if_pos h32] at h
          rw [if_pos h32]
          split at h
          · cases h
          · rename_i hc
            have hct : c = true := by simpa using hc
            subst hct
            split at h
            · cases h
            · rename_i newSize rest0 hdi
              split at h
              · cases h
              · rename_i hle
                split at h
                · cases h
                · rename_i t ht
                  simp only [Step.next.injEq] at h
                  obtain ⟨h1, h2, h3, h4⟩ := h
                  subst h1 h2 h3 h4
                  obtain ⟨r, hr, -, i2, i3⟩ := setMaxSize_spec d.table newSize hi.sizeOk
                  rw [ht] at hr
                  cases hr
                  rw [decodeInt_sound _ _ _ _ hv hdi]
                  simp only [Bool.not_true, Bool.false_eq_true, if_false, List.append_nil]
                  rw [if_neg (show ¬ newSize > (abs d).limit from hle)]
                  congr 1
                  simp only [abs, i2, i3]
        · rw [if_neg h32]
          have hl : stepLiteral d (ty :: tl0) false = .next d' c' rest emit := by
            by_cases h16 : ty ≥ 16
            · simpa only [repOf, if_neg h128, if_neg h64, if_neg h32, if_pos h16] using h
            · simpa only [repOf, if_neg h128, if_neg h64, if_neg h32, if_neg h16] using h
          obtain ⟨hd, hk, he, hc, hd'⟩ := lit _ hl
          simp only [Bool.false_eq_true, if_false] at hk hd'
          rw [hk]
          simp only
          rw [he, hc, hd']
          rfl

/-- C — the loop: an accepted buffer is decoded by the reference to the same fields and state -/
theorem decodeLoop_sound (hHuff : HuffSpec) : ∀ (fuel : Nat) (d : Decoder) (c : Bool) (buf : Bytes)
    (acc : List Header),
    Table.Inv d.table → Bytes.Valid buf →
    (decodeLoop fuel d c buf acc).result = .ok () →
    Spec.Hpack.block fuel (abs d) (!c) buf acc =
      .ok ((decodeLoop fuel d c buf acc).fields, abs (decodeLoop fuel d c buf acc).dec) ∧
    (decodeLoop fuel d c buf acc).tail = [] := by
  intro fuel
  induction fuel with
  | zero =>
    intro d c buf acc hi hv
    rw [decodeLoop_zero]
    simp only
    intro hr
    cases buf with
    | nil => exact ⟨rfl, rfl⟩
    | cons b tl => simp at hr
  | succ fuel ih =>
    intro d c buf acc hi hv
    rw [decodeLoop_succ]
    cases hs : step d c buf with
    | stop d' tl res =>
      simp only
      intro hr
      obtain ⟨h1, h2, h3⟩ := (step_stop_props _ _ _ _ _ _ hs).2.1 hr
      subst h1 h2 h3
      exact ⟨rfl, rfl⟩
    | next d' c' rest emit =>
      simp only
      intro hr
      obtain ⟨⟨pre, hpre, hl⟩, -, -, hinv⟩ := step_next_props _ _ _ _ _ _ _ hs
      have hv' : Bytes.Valid rest := by rw [hpre] at hv; exact (Valid_append.1 hv).2
      rw [step_sound_next hHuff _ _ _ _ _ _ _ hi hv hs]
      exact ih d' c' rest (acc ++ emit) (hinv hi).1 hv' hr

theorem abs_prep (d : Decoder) :
    abs (prep d) = (match (abs d).pendingLimit with
      | some n => { abs d with limit := n, pendingLimit := none }
      | none => abs d) := by
  obtain ⟨msu, lmu, t, cont, seen⟩ := d
  cases cont <;> cases msu <;> rfl

theorem prep_seenField (d : Decoder) (h : d.continuing = false) : (prep d).seenField = false := by
  obtain ⟨msu, lmu, t, cont, seen⟩ := d
  simp only at h
  subst h
  cases msu <;> rfl

/-- C — `decode_sound`: a header block that `Decoder::decode` accepts (not a continuation) is
    decoded by the RFC 7541 reference to the same field list and the same resulting state; and
    nothing is left in the buffer -/
theorem decode_sound (hHuff : HuffSpec) (d : Decoder) (src : Bytes)
    (hi : Table.Inv d.table) (hv : Bytes.Valid src) (hc : d.continuing = false)
    (hr : (d.decode src).result = .ok ()) :
    Spec.Hpack.decode (abs d) src = .ok ((d.decode src).fields, abs (d.decode src).dec) ∧
    (d.decode src).tail = [] := by
  rw [decode_eq] at hr ⊢
  have hp : Table.Inv (prep d).table := by rw [prep_table]; exact hi
  have := decodeLoop_sound hHuff _ _ _ _ [] hp hv hr
  rw [prep_seenField d hc] at this ⊢
  have e : Spec.Hpack.decode (abs d) src =
      Spec.Hpack.block (src.length + 1) (abs (prep d)) false src [] := by
    rw [abs_prep]; rfl
  rw [e]
  exact this

/-- C — `spec_error_rejected`: a block the reference rejects is not accepted by `decode` -/
theorem spec_error_rejected (hHuff : HuffSpec) (d : Decoder) (src : Bytes) (e : Spec.Hpack.Err)
    (hi : Table.Inv d.table) (hv : Bytes.Valid src) (hc : d.continuing = false)
    (h : Spec.Hpack.decode (abs d) src = .error e) :
    (d.decode src).result ≠ .ok () := by
  intro hr
  rw [(decode_sound hHuff d src hi hv hc hr).1] at h
  cases h

end H2V.Lemmas.HpackDec
