import H2V.Lemmas.ConnFlowPCw
/-
  ConnFlowP, part 23 — `CW` through all of `recv.rs`.
-/
namespace H2V.Lemmas.ConnFlowP
open H2V H2V.Model H2V.Model.Conn H2V.Lemmas.Comp

section
variable {W : Window} {t : Streams}

theorem CW.releaseConnectionCapacity (h : CW W t) (c : Nat) (b : Bool) : CW W (t.releaseConnectionCapacity c b) := by
  cw_by Streams.releaseConnectionCapacity
macro_rules | `(tactic| cw_peel) => `(tactic| with_reducible apply CW.releaseConnectionCapacity)

theorem CW.releaseCapacity (h : CW W t) (id c : Nat) (b : Bool) : CW W (t.releaseCapacity id c b).1 := by
  cw_by Streams.releaseCapacity
macro_rules | `(tactic| cw_peel) => `(tactic| with_reducible apply CW.releaseCapacity)

theorem CW.clearRecvBuffer (h : CW W t) (id : Nat) (b : Bool) : CW W (t.clearRecvBuffer id b) := by
  cw_by Streams.clearRecvBuffer
macro_rules | `(tactic| cw_peel) => `(tactic| with_reducible apply CW.clearRecvBuffer)

theorem CW.releaseClosedCapacity (h : CW W t) (id : Nat) : CW W (t.releaseClosedCapacity id) := by
  cw_by Streams.releaseClosedCapacity
macro_rules | `(tactic| cw_peel) => `(tactic| with_reducible apply CW.releaseClosedCapacity)

theorem CW.setTargetConnectionWindow (h : CW W t) (n : Nat) : CW W (t.setTargetConnectionWindow n).1 := by
  cw_by Streams.setTargetConnectionWindow
macro_rules | `(tactic| cw_peel) => `(tactic| with_reducible apply CW.setTargetConnectionWindow)

theorem CW.consumeConnectionWindow (h : CW W t) (n : Nat) : CW W (t.consumeConnectionWindow n).1 := by
  cw_by Streams.consumeConnectionWindow
macro_rules | `(tactic| cw_peel) => `(tactic| with_reducible apply CW.consumeConnectionWindow)

theorem CW.ignoreData (h : CW W t) (n : Nat) : CW W (t.ignoreData n).1 := by
  cw_by Streams.ignoreData
macro_rules | `(tactic| cw_peel) => `(tactic| with_reducible apply CW.ignoreData)

theorem CW.recvOpen (h : CW W t) (id : Nat) (b : Bool) : CW W (t.recvOpen id b).1 := by
  cw_by Streams.recvOpen
macro_rules | `(tactic| cw_peel) => `(tactic| with_reducible apply CW.recvOpen)

theorem CW.notifyPushIfRecvEnded (h : CW W t) (id : Nat) : CW W (t.notifyPushIfRecvEnded id) := by
  cw_by Streams.notifyPushIfRecvEnded
macro_rules | `(tactic| cw_peel) => `(tactic| with_reducible apply CW.notifyPushIfRecvEnded)

set_option maxHeartbeats 800000 in
theorem CW.recvRecvHeaders (h : CW W t) (id : Nat) (hd : HeadersIn) : CW W (t.recvRecvHeaders id hd).1 := by
  cw_by Streams.recvRecvHeaders
macro_rules | `(tactic| cw_peel) => `(tactic| with_reducible apply CW.recvRecvHeaders)

theorem CW.recvRecvTrailers (h : CW W t) (id : Nat) (hd : HeadersIn) : CW W (t.recvRecvTrailers id hd).1 := by
  cw_by Streams.recvRecvTrailers
macro_rules | `(tactic| cw_peel) => `(tactic| with_reducible apply CW.recvRecvTrailers)

set_option maxHeartbeats 800000 in
theorem CW.recvRecvData (h : CW W t) (id : Nat) (p : Bytes) (eos : Bool) (pad : Option Nat) :
    CW W (t.recvRecvData id p eos pad).1 := by
  cw_by Streams.recvRecvData
macro_rules | `(tactic| cw_peel) => `(tactic| with_reducible apply CW.recvRecvData)

theorem CW.recvRecvPushPromise (h : CW W t) (id : Nat) (hd : HeadersIn) : CW W (t.recvRecvPushPromise id hd).1 := by
  cw_by Streams.recvRecvPushPromise
macro_rules | `(tactic| cw_peel) => `(tactic| with_reducible apply CW.recvRecvPushPromise)

theorem CW.recvNextIncoming (h : CW W t) : CW W t.recvNextIncoming.1 := by
  cw_by Streams.recvNextIncoming
macro_rules | `(tactic| cw_peel) => `(tactic| with_reducible apply CW.recvNextIncoming)

theorem CW.recvTakeRequest (h : CW W t) (id : Nat) : CW W (t.recvTakeRequest id).1 := by
  cw_by Streams.recvTakeRequest
macro_rules | `(tactic| cw_peel) => `(tactic| with_reducible apply CW.recvTakeRequest)

theorem CW.recvRecvReset (h : CW W t) (id : Nat) (r : Reason) : CW W (t.recvRecvReset id r).1 := by
  cw_by Streams.recvRecvReset
macro_rules | `(tactic| cw_peel) => `(tactic| with_reducible apply CW.recvRecvReset)

theorem CW.recvHandleError (h : CW W t) (id : Nat) (e : PErr) : CW W (t.recvHandleError id e) := by
  cw_by Streams.recvHandleError
macro_rules | `(tactic| cw_peel) => `(tactic| with_reducible apply CW.recvHandleError)

theorem CW.recvGoAway (h : CW W t) (id : Nat) : CW W (t.recvGoAway id) := by
  cw_by Streams.recvGoAway
macro_rules | `(tactic| cw_peel) => `(tactic| with_reducible apply CW.recvGoAway)

theorem CW.recvRecvEof (h : CW W t) (id : Nat) : CW W (t.recvRecvEof id) := by
  cw_by Streams.recvRecvEof
macro_rules | `(tactic| cw_peel) => `(tactic| with_reducible apply CW.recvRecvEof)

theorem CW.recvMaybeResetNextStreamId (h : CW W t) (id : Nat) : CW W (t.recvMaybeResetNextStreamId id) := by
  cw_by Streams.recvMaybeResetNextStreamId
macro_rules | `(tactic| cw_peel) => `(tactic| with_reducible apply CW.recvMaybeResetNextStreamId)

theorem CW.enqueueResetExpiration (h : CW W t) (id : Nat) : CW W (t.enqueueResetExpiration id) := by
  cw_by Streams.enqueueResetExpiration
macro_rules | `(tactic| cw_peel) => `(tactic| with_reducible apply CW.enqueueResetExpiration)

theorem CW.sendPendingRefusal (h : CW W t) (w : Writer) : CW W (t.sendPendingRefusal w).1 := by
  cw_by Streams.sendPendingRefusal
macro_rules | `(tactic| cw_peel) => `(tactic| with_reducible apply CW.sendPendingRefusal)

theorem CW.clearExpiredResetStreams (fuel : Nat) : ∀ {t : Streams}, CW W t → CW W (Streams.clearExpiredResetStreams fuel t) := by
  induction fuel with
  | zero => intro t h; exact h
  | succ n ih => intro t h; cw_by Streams.clearExpiredResetStreams
macro_rules | `(tactic| cw_peel) => `(tactic| with_reducible apply CW.clearExpiredResetStreams)

theorem CW.clearStreamWindowUpdateQueue (fuel : Nat) :
    ∀ {t : Streams}, CW W t → CW W (Streams.clearStreamWindowUpdateQueue fuel t) := by
  induction fuel with
  | zero => intro t h; exact h
  | succ n ih => intro t h; cw_by Streams.clearStreamWindowUpdateQueue
macro_rules | `(tactic| cw_peel) => `(tactic| with_reducible apply CW.clearStreamWindowUpdateQueue)

theorem CW.clearAllResetStreams (fuel : Nat) : ∀ {t : Streams}, CW W t → CW W (Streams.clearAllResetStreams fuel t) := by
  induction fuel with
  | zero => intro t h; exact h
  | succ n ih => intro t h; cw_by Streams.clearAllResetStreams
macro_rules | `(tactic| cw_peel) => `(tactic| with_reducible apply CW.clearAllResetStreams)

theorem CW.clearAllPendingAccept (fuel : Nat) : ∀ {t : Streams}, CW W t → CW W (Streams.clearAllPendingAccept fuel t) := by
  induction fuel with
  | zero => intro t h; exact h
  | succ n ih => intro t h; cw_by Streams.clearAllPendingAccept
macro_rules | `(tactic| cw_peel) => `(tactic| with_reducible apply CW.clearAllPendingAccept)

theorem CW.recvClearQueues (h : CW W t) (b : Bool) : CW W (t.recvClearQueues b) := by
  cw_by Streams.recvClearQueues
macro_rules | `(tactic| cw_peel) => `(tactic| with_reducible apply CW.recvClearQueues)

theorem CW.sendConnectionWindowUpdate (h : CW W t) (w : Writer) : CW W (t.sendConnectionWindowUpdate w).1 := by
  cw_by Streams.sendConnectionWindowUpdate
macro_rules | `(tactic| cw_peel) => `(tactic| with_reducible apply CW.sendConnectionWindowUpdate)

theorem CW.sendStreamWindowUpdates (fuel : Nat) :
    ∀ {t : Streams}, CW W t → ∀ w, CW W (Streams.sendStreamWindowUpdates fuel t w).1 := by
  induction fuel with
  | zero => intro t h w; exact h
  | succ n ih => intro t h w; cw_by Streams.sendStreamWindowUpdates
macro_rules | `(tactic| cw_peel) => `(tactic| with_reducible apply CW.sendStreamWindowUpdates)

theorem CW.recvBufferPending (h : CW W t) (w : Writer) : CW W (t.recvBufferPending w).1 := by
  cw_by Streams.recvBufferPending
macro_rules | `(tactic| cw_peel) => `(tactic| with_reducible apply CW.recvBufferPending)

theorem CW.scheduleRecv (h : CW W t) (id : Nat) (tag : String) : CW W (t.scheduleRecv id tag).1 := by
  cw_by Streams.scheduleRecv
macro_rules | `(tactic| cw_peel) => `(tactic| with_reducible apply CW.scheduleRecv)

theorem CW.recvPollData (h : CW W t) (id : Nat) (tag : String) : CW W (t.recvPollData id tag).1 := by
  cw_by Streams.recvPollData
macro_rules | `(tactic| cw_peel) => `(tactic| with_reducible apply CW.recvPollData)

theorem CW.recvPollTrailers (h : CW W t) (id : Nat) (tag : String) : CW W (t.recvPollTrailers id tag).1 := by
  cw_by Streams.recvPollTrailers
macro_rules | `(tactic| cw_peel) => `(tactic| with_reducible apply CW.recvPollTrailers)

theorem CW.recvPollResponse (fuel : Nat) :
    ∀ {t : Streams}, CW W t → ∀ id tag, CW W (Streams.recvPollResponse fuel t id tag).1 := by
  induction fuel with
  | zero => intro t h id tag; exact h
  | succ n ih => intro t h id tag; cw_by Streams.recvPollResponse
macro_rules | `(tactic| cw_peel) => `(tactic| with_reducible apply CW.recvPollResponse)

theorem CW.recvPollInformational (h : CW W t) (id : Nat) (tag : String) : CW W (t.recvPollInformational id tag).1 := by
  unfold Streams.recvPollInformational; dsimp only
  split
  · rename_i r heq
    split at heq
    · cases heq; exact h
    · cases heq; cw_auto
    · cases heq
  · cw_auto
macro_rules | `(tactic| cw_peel) => `(tactic| with_reducible apply CW.recvPollInformational)

end

end H2V.Lemmas.ConnFlowP
