import H2V.Lemmas.ConnFlowPStreams
/-
  ConnFlowP, part 10 — `SafeInv` through the rest of `streams.rs`: settings of the local side, the
  handle methods (`StreamRef`, `OpaqueStreamRef`, `Streams`), `send_request`, `drop_stream_ref`.
-/
namespace H2V.Lemmas.ConnFlowP
open H2V H2V.Model H2V.Model.Conn H2V.Lemmas.Comp

section
variable {s : Streams}

theorem Fr.applyLocalSettings {s t : Streams} (h : Fr s t) (a b : Option Nat) : Fr s (t.applyLocalSettings a b).1 := by
  fr_by Streams.applyLocalSettings
macro_rules | `(tactic| fr_peel) => `(tactic| with_reducible apply Fr.applyLocalSettings)

theorem SafeInv.applyLocalSettingsFrame (h : SafeInv s) (vals : List (Nat × Nat)) :
    SafeInv (s.applyLocalSettingsFrame vals).1 := by
  safe_by' Streams.applyLocalSettingsFrame

theorem SafeInv.refInc (h : SafeInv s) (id : Nat) : SafeInv (s.refInc id) := by
  safe_by' Streams.refInc
macro_rules | `(tactic| safe_peel) => `(tactic| with_reducible apply SafeInv.refInc)

theorem SafeInv.cloneStreamRef (h : SafeInv s) (id : Nat) : SafeInv (s.cloneStreamRef id) := by
  safe_by' Streams.cloneStreamRef

theorem SafeInv.maybeCancel (h : SafeInv s) (id : Nat) : SafeInv (s.maybeCancel id) := by
  safe_by' Streams.maybeCancel
macro_rules | `(tactic| safe_peel) => `(tactic| with_reducible apply SafeInv.maybeCancel)

theorem SafeInv.foldl' {α : Type} {f : Streams → α → Streams} {l : List α} {t : Streams}
    (hf : ∀ t a, SafeInv t → SafeInv (f t a)) (h : SafeInv t) : SafeInv (l.foldl f t) := SafeInv.foldl f hf l h
macro_rules | `(tactic| safe_peel) => `(tactic|
  (with_reducible apply SafeInv.foldl'; (· intro _ _ _; (try unfold Streams.transition); (try dsimp only); safe_auto)))

theorem SafeInv.dropStreamRef (h : SafeInv s) (id : Nat) : SafeInv (s.dropStreamRef id) := by
  safe_by' Streams.dropStreamRef

theorem SafeInv.sendRequest (h : SafeInv s) (b : Bool) (f : List Hpack.Field) (eos : Bool) (p : Option Nat) :
    SafeInv (s.sendRequest b f eos p).1 := by
  safe_by' Streams.sendRequest

theorem SafeInv.pollPendingOpen (h : SafeInv s) (p : Option Nat) (tag : String) : SafeInv (s.pollPendingOpen p tag).1 := by
  safe_by' Streams.pollPendingOpen

theorem SafeInv.nextIncoming (h : SafeInv s) : SafeInv s.nextIncoming.1 := by
  safe_by' Streams.nextIncoming

theorem SafeInv.refSendResponse (h : SafeInv s) (k : Nat) (f : List Hpack.Field) (eos : Bool) :
    SafeInv (s.refSendResponse k f eos).1 := by
  safe_by' Streams.refSendResponse

theorem SafeInv.refSendInformationalHeaders (h : SafeInv s) (k : Nat) (f : List Hpack.Field) :
    SafeInv (s.refSendInformationalHeaders k f).1 := by
  safe_by' Streams.refSendInformationalHeaders

theorem SafeInv.refSendPushPromise (h : SafeInv s) (k : Nat) (b : Bool) (f : List Hpack.Field) :
    SafeInv (s.refSendPushPromise k b f).1 := by
  safe_by' Streams.refSendPushPromise

theorem SafeInv.cloneHandle (h : SafeInv s) : SafeInv s.cloneHandle := by
  safe_by' Streams.cloneHandle

theorem SafeInv.dropHandle (h : SafeInv s) : SafeInv s.dropHandle := by
  safe_by' Streams.dropHandle

theorem SafeInv.refSendData (h : SafeInv s) (id len : Nat) (eos : Bool) : SafeInv (s.refSendData id len eos).1 := by
  safe_by' Streams.refSendData

theorem SafeInv.refSendTrailers (h : SafeInv s) (id : Nat) (f : List Hpack.Field) : SafeInv (s.refSendTrailers id f).1 := by
  safe_by' Streams.refSendTrailers

theorem SafeInv.refSendReset (h : SafeInv s) (id : Nat) (r : Reason) : SafeInv (s.refSendReset id r) := by
  safe_by' Streams.refSendReset

theorem SafeInv.refReserveCapacity (h : SafeInv s) (id c : Nat) : SafeInv (s.refReserveCapacity id c) := by
  safe_by' Streams.refReserveCapacity

theorem SafeInv.refPollData (h : SafeInv s) (id : Nat) (tag : String) : SafeInv (s.refPollData id tag).1 := by
  safe_by' Streams.refPollData

theorem SafeInv.refReleaseCapacity (h : SafeInv s) (id c : Nat) : SafeInv (s.refReleaseCapacity id c).1 := by
  safe_by' Streams.refReleaseCapacity

theorem SafeInv.refClearRecvBuffer (h : SafeInv s) (id : Nat) : SafeInv (s.refClearRecvBuffer id) := by
  safe_by' Streams.refClearRecvBuffer

end

end H2V.Lemmas.ConnFlowP
