import H2V.Lemmas.ConnNoPanicPAccBase
/-
  C08 (no panic) — the server accept path, part 2: `AL` for the functions of prioritize.rs / send.rs that
  work on one stream (generated from ConnNoPanicPSend.lean).
-/
namespace H2V.Lemmas.ConnNoPanicP
open H2V H2V.Model H2V.Model.Conn H2V.Lemmas.ConnCountsP
attribute [local irreducible] wrapSubU32 wrapSubUsize

theorem scheduleSend_al (s : Streams) (k : Nat) : AL [] s (s.scheduleSend k) := by
  unfold Streams.scheduleSend; al_auto
theorem queueFrame_al (s : Streams) (k : Nat) (f : SFrame) : AL [] s (s.queueFrame k f) := by
  unfold Streams.queueFrame; al_auto
theorem queueOpen_al (s : Streams) (k : Nat) : AL [] s (s.queueOpen k) := by
  unfold Streams.queueOpen; al_auto
theorem tryAssignCapacity_al (s : Streams) (k : Nat) : AL [] s (s.tryAssignCapacity k) := by
  unfold Streams.tryAssignCapacity; al_auto

theorem assignConnectionCapacityLoop_al (n : Nat) (s : Streams) : AL [] s (Streams.assignConnectionCapacityLoop n s) := by
  induction n generalizing s with
  | zero => unfold Streams.assignConnectionCapacityLoop; exact .refl _ _
  | succ n ih =>
    unfold Streams.assignConnectionCapacityLoop
    split
    · have h0 := qPop_al (ks := []) s .pendingCapacity (by decide)
      split
      · next s1 heq => exact AL.of_fst_eq heq h0
      · next s1 id heq =>
        have h1 : AL [] s s1 := AL.of_fst_eq heq h0
        dsimp only
        split
        · exact h1.trans (ih s1) (fun _ h => h)
        · next hc =>
          have hc' : ((s1.stream id).state.isSendStreaming || decide ((s1.stream id).bufferedSendData > 0)) = true := by
            cases hh : ((s1.stream id).state.isSendStreaming || decide ((s1.stream id).bufferedSendData > 0)) with
            | true => rfl
            | false => rw [hh] at hc; simp at hc
          have hsp := tryAssignCapacity_sp s1 id id
          have hnc : ((s1.tryAssignCapacity id).stream id).isClosed = false := by
            rw [isClosed_of_core hsp]; exact ConnWakeP.not_closed_of_streaming hc'
          rw [transitionAfter_noop hnc (fun hb => by rw [resetAt_of_core hsp]; exact hb)]
          exact (h1.trans (tryAssignCapacity_al s1 id) (fun _ h => h)).trans (ih _) (fun _ h => h)
    · exact .refl _ _

theorem assignConnectionCapacity_al (s : Streams) (inc : Nat) : AL [] s (s.assignConnectionCapacity inc) := by
  unfold Streams.assignConnectionCapacity; al_auto
theorem reserveCapacity_al (s : Streams) (k cap : Nat) : AL [] s (s.reserveCapacity k cap) := by
  unfold Streams.reserveCapacity; al_auto
theorem recvConnectionWindowUpdate_al (s : Streams) (inc : Nat) : AL [] s (s.recvConnectionWindowUpdate inc).1 := by
  unfold Streams.recvConnectionWindowUpdate; al_auto
theorem reclaimAllCapacity_al (s : Streams) (k : Nat) : AL [] s (s.reclaimAllCapacity k) := by
  unfold Streams.reclaimAllCapacity; al_auto
theorem clearQueue_al (s : Streams) (k : Nat) : AL [] s (s.clearQueue k) := by
  unfold Streams.clearQueue; al_auto
theorem sendOpenId_al (s : Streams) : AL [] s s.sendOpenId.1 := by
  unfold Streams.sendOpenId; al_auto
theorem sendHeaders_al (s : Streams) (k : Nat) (eos : Bool) (f : List Hpack.Field) : AL [] s (s.sendHeaders k eos f).1 := by
  unfold Streams.sendHeaders; al_auto
theorem sendReserveLocal_al (s : Streams) : AL [] s s.sendReserveLocal.1 := by
  unfold Streams.sendReserveLocal; exact sendOpenId_al s
theorem sendPushPromise_al (s : Streams) (p pk pid : Nat) (f : List Hpack.Field) : AL [] s (s.sendPushPromise p pk pid f).1 := by
  unfold Streams.sendPushPromise; al_auto
theorem sendInterimInformationalHeaders_al (s : Streams) (k : Nat) (f : List Hpack.Field) :
    AL [] s (s.sendInterimInformationalHeaders k f).1 := by
  unfold Streams.sendInterimInformationalHeaders; al_auto
theorem sendSendReset_al (s : Streams) (k : Nat) (r : Reason) (i : Initiator) (hi : i ≠ .remote) : AL [] s (s.sendSendReset k r i) := by
  unfold Streams.sendSendReset; al_auto
theorem pollCapacity_al (s : Streams) (k : Nat) (tag : String) : AL [] s (s.pollCapacity k tag).1 := by
  unfold Streams.pollCapacity; al_auto
theorem pollReset_al (s : Streams) (k : Nat) (m : PollReset) (tag : String) : AL [] s (s.pollReset k m tag).1 := by
  unfold Streams.pollReset; al_auto
theorem sendRecvGoAway_al (s : Streams) (l : Nat) : AL [] s (s.sendRecvGoAway l).1 := by
  unfold Streams.sendRecvGoAway; al_auto
theorem sendHandleError_al (s : Streams) (k : Nat) : AL [] s (s.sendHandleError k) := by
  unfold Streams.sendHandleError; al_auto
theorem sendMaybeResetNextStreamId_al (s : Streams) (id : Nat) : AL [] s (s.sendMaybeResetNextStreamId id) := by
  unfold Streams.sendMaybeResetNextStreamId; al_auto
theorem sendTrailers_al (s : Streams) (k : Nat) (f : List Hpack.Field) : AL [] s (s.sendTrailers k f).1 := by
  unfold Streams.sendTrailers; al_auto
theorem prioSendData_al (s : Streams) (k len : Nat) (eos : Bool) : AL [] s (s.prioSendData k len eos).1 := by
  unfold Streams.prioSendData
  split
  · exact .refl _ _
  · dsimp only
    split
    · exact .refl _ _
    · generalize hs1 : Streams.modStream s k _ = s1
      have h1 : AL [] s s1 := by rw [← hs1]; al_auto
      generalize hs2 : (if (s1.stream k).requestedSendCapacity < (s1.stream k).bufferedSendData then _ else s1) = s2
      have h2 : AL [] s s2 := by rw [← hs2]; al_auto
      al_auto
theorem reclaimReservedCapacity_al (s : Streams) (k : Nat) : AL [] s (s.reclaimReservedCapacity k) := by
  unfold Streams.reclaimReservedCapacity; al_auto
theorem scheduleImplicitReset_al (s : Streams) (k : Nat) (r : Reason) : AL [] s (s.scheduleImplicitReset k r) := by
  unfold Streams.scheduleImplicitReset; al_auto
theorem prioRecvStreamWindowUpdate_al (s : Streams) (k inc : Nat) : AL [] s (s.prioRecvStreamWindowUpdate k inc).1 := by
  unfold Streams.prioRecvStreamWindowUpdate; al_auto
theorem sendRecvStreamWindowUpdate_al (s : Streams) (k sz : Nat) : AL [] s (s.sendRecvStreamWindowUpdate k sz).1 := by
  unfold Streams.sendRecvStreamWindowUpdate; al_auto
theorem decStreamWindow_al (dec acc : Nat) (s : Streams) (k : Nat) : AL [] s (Streams.decStreamWindow dec acc s k).1 := by
  unfold Streams.decStreamWindow; al_auto

end H2V.Lemmas.ConnNoPanicP
