import H2V.Lemmas.ConnResetPPeer
/-
  ConnResetP — send-side life cycle (C04): stream identifiers, what may be queued in which state.
-/
namespace H2V.Lemmas.ConnResetP
open H2V H2V.Model H2V.Model.Conn

-- ===================================================================== identifiers

/-- `Send::open` hands out `next_stream_id` and advances it by two, or to `Err(overflow)` past 2^31-1 -/
theorem sendOpenId_ok (s : Streams) (id : Nat) (h : s.actions.send.nextStreamId = some id) :
    s.sendOpenId.2 = .ok id ∧
    s.sendOpenId.1.actions.send.nextStreamId = (if id + 2 > 2147483647 then none else some (id + 2)) := by
  unfold Streams.sendOpenId; rw [h]; exact ⟨rfl, rfl⟩

theorem sendOpenId_overflow (s : Streams) (h : s.actions.send.nextStreamId = none) :
    s.sendOpenId = (s, .error .overflowedStreamId) := by
  unfold Streams.sendOpenId; rw [h]

/-- two consecutive identifiers: strictly increasing, same parity, never wrapped -/
theorem sendOpenId_twice (s : Streams) (id id' : Nat) (h : s.sendOpenId.2 = .ok id) (h' : s.sendOpenId.1.sendOpenId.2 = .ok id') :
    id' = id + 2 ∧ id' ≤ 2147483647 := by
  cases hn : s.actions.send.nextStreamId with
  | none => rw [sendOpenId_overflow s hn] at h; cases h
  | some n =>
    have := sendOpenId_ok s n hn
    rw [this.1] at h; cases h
    by_cases hov : id + 2 > 2147483647
    · rw [if_pos hov] at this
      rw [sendOpenId_overflow _ this.2] at h'; cases h'
    · rw [if_neg hov] at this
      have h2 := sendOpenId_ok _ _ this.2
      rw [h2.1] at h'; cases h'
      omega

/-- `send_request` with the identifiers used up: refused, nothing changes -/
theorem sendRequest_overflow (s : Streams) (isHead : Bool) (f : List Hpack.Field) (eos : Bool) (p : Option Nat)
    (hc : s.actions.connError = none) (h : s.actions.send.nextStreamId = none) :
    s.sendRequest isHead f eos p = (s, .error (.user .overflowedStreamId)) := by
  unfold Streams.sendRequest Streams.ensureNoConnError
  simp [hc, h]

/-- …and they stay used up: nothing but `Send::open` / `maybe_reset_next_stream_id` writes the field, and both keep `Err` -/
theorem sendOpenId_none_stays (s : Streams) (h : s.actions.send.nextStreamId = none) :
    s.sendOpenId.1.actions.send.nextStreamId = none := by
  rw [sendOpenId_overflow s h]; exact h

-- ===================================================================== what may be queued when

/-- DATA is only accepted while our side is streaming (HEADERS sent, END_STREAM not yet): otherwise the
    call fails and nothing changes -/
theorem prioSendData_not_streaming (s : Streams) (id len : Nat) (eos : Bool)
    (h : (s.stream id).state.isSendStreaming = false) :
    (s.prioSendData id len eos).1 = s ∧ ∃ e, (s.prioSendData id len eos).2 = .error e := by
  unfold Streams.prioSendData
  split
  · exact ⟨rfl, _, rfl⟩
  · simp only [h, Bool.not_false, if_true]; exact ⟨trivial, _, rfl⟩

/-- trailers likewise -/
theorem sendTrailers_not_streaming (s : Streams) (id : Nat) (f : List Hpack.Field)
    (h : (s.stream id).state.isSendStreaming = false) :
    (s.sendTrailers id f).1 = s ∧ ∃ e, (s.sendTrailers id f).2 = .error e := by
  unfold Streams.sendTrailers
  split
  · exact ⟨rfl, _, rfl⟩
  · simp only [h, Bool.not_false, if_true]; exact ⟨trivial, _, rfl⟩

/-- HEADERS through `send_headers` need a state in which RFC 9113 allows sending HEADERS
    (`State::send_open`, see `H2V.Lemmas.Comp.sendOpen_refines`): otherwise the call fails and nothing changes -/
theorem sendHeaders_refused (s : Streams) (id : Nat) (eos : Bool) (f : List Hpack.Field)
    (h : Spec.Lifecycle.step (H2V.Lemmas.Comp.phase (s.stream id).state) (.sendH eos) = none) :
    (s.sendHeaders id eos f).1 = s ∧ ∃ e, (s.sendHeaders id eos f).2 = .error e := by
  unfold Streams.sendHeaders
  split
  · exact ⟨rfl, _, rfl⟩
  · rw [H2V.Lemmas.Comp.sendOpen_forbidden h]; exact ⟨rfl, _, rfl⟩

/-- 1xx HEADERS are refused once the response was started or the stream is send-closed -/
theorem sendInformational_refused (s : Streams) (id : Nat) (f : List Hpack.Field)
    (h : ((s.stream id).state.isSendStreaming || (s.stream id).state.isSendClosed) = true) :
    (s.sendInterimInformationalHeaders id f).1 = s ∧ ∃ e, (s.sendInterimInformationalHeaders id f).2 = .error e := by
  unfold Streams.sendInterimInformationalHeaders
  split
  · exact ⟨rfl, _, rfl⟩
  · simp only [h, if_true]; exact ⟨trivial, _, rfl⟩

/-- PUSH_PROMISE on a parent whose send side is closed (END_STREAM sent or queued, reset, failed) is
    refused: the call fails, nothing is queued -/
theorem sendPushPromise_send_closed (s : Streams) (p k i : Nat) (f : List Hpack.Field)
    (h : (s.stream p).state.isSendClosed = true) :
    (s.sendPushPromise p k i f).1 = s ∧ ∃ e, (s.sendPushPromise p k i f).2 = .error e := by
  unfold Streams.sendPushPromise
  split
  · exact ⟨rfl, _, rfl⟩
  · simp only [h]; exact ⟨trivial, _, rfl⟩

/-- …so a PUSH_PROMISE is only ever queued on a parent that is not send-closed -/
theorem sendPushPromise_ok_parent (s : Streams) (p k i : Nat) (f : List Hpack.Field)
    (h : (s.sendPushPromise p k i f).2 = .ok ()) : (s.stream p).state.isSendClosed = false := by
  cases hc : (s.stream p).state.isSendClosed with
  | false => rfl
  | true =>
    obtain ⟨_, e, he⟩ := sendPushPromise_send_closed s p k i f hc
    rw [he] at h; cases h

/-- a stream that has left idle / reserved (local) and is not send-closed is in a phase in which
    RFC 9113 lets us send (`Spec.Lifecycle.canSend`: open or half-closed (remote)) -/
theorem canSend_of_not_sendClosed (x : State) (h : x.isSendClosed = false)
    (hi : H2V.Lemmas.Comp.phase x ≠ .idle) (hr : H2V.Lemmas.Comp.phase x ≠ .reservedLocal) :
    Spec.Lifecycle.canSend (H2V.Lemmas.Comp.phase x) = true := by
  rcases x with ⟨_ | _ | _ | ⟨_ | _, _ | _⟩ | ⟨_ | _⟩ | ⟨_ | _⟩ | ⟨_ | _ | _ | _⟩⟩ <;>
    simp_all [State.isSendClosed, H2V.Lemmas.Comp.phase, Spec.Lifecycle.canSend]

end H2V.Lemmas.ConnResetP
