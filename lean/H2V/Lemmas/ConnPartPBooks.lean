import H2V.Lemmas.ConnRecvPPoll
import H2V.Lemmas.ConnCtlPHist
/-
  ConnPartP, part 10 — C03: the stream-level receive-window books at CONNECTION level, without the
  hypothesis "`apply_local_settings` / `Inner::send_reset` did not fail".

  ConnRecvP proves the stream-level invariant (`Inv true`) for `ReachOk`: histories of stream-layer calls
  in which those two calls never fail.  A failure is a connection error (FLOW_CONTROL_ERROR /
  ENHANCE_YOUR_CALM); here it is shown that inside `Connection::poll` the failing call is the LAST thing
  the stream layer sees before the connection dies:
    * `recv_settings` (ACK of our SETTINGS) → `apply_local_settings` fails → `recv_frame` answers the
      error → the `poll2` loop ends with it → `handle_poll2_result` → `handle_go_away` → `Dead`;
    * `handle_poll2_result(Err(Reset))` → `Inner::send_reset` fails → `handle_go_away` → `Dead`;
  and a dead connection (ConnCtlP: `go_away_now` has run or the state left `Open`) reads no frame any more
  and stays dead.  Hence for every reachable connection: **`Dead c` or the stream layer is `ReachOk`**
  (`sreach_books`), i.e. every receive window is conserved or the connection is dying.

  The chain below follows ConnRecvPProto / ConnRecvPPoll (same functions, same order) with `ReachOk`
  instead of `Reach`.
-/
namespace H2V.Lemmas.ConnPartP
open H2V H2V.Model H2V.Model.Conn
open H2V.Model.Conn.Streams
open H2V.Lemmas.ConnRecvP
open H2V.Lemmas.ConnCtlP (Dead Halting)

/-- the stream layer is `ReachOk` (no failed `apply_local_settings` / `Inner::send_reset` so far), the
    connection window configured last is `T`, the largest so far `H`; our SETTINGS are legal -/
def SI (T H : Nat) (s : Streams) (loc : Local) : Prop :=
  (∃ g, ReachOk g s ∧ g.target = T ∧ g.hiTarget = H) ∧ LocValid loc

abbrev SInv (T H : Nat) (c : Conn) : Prop := SI T H c.streams c.settings.loc

variable {T H : Nat}

theorem SI.op {s : Streams} {loc : Local} (h : SI T H s loc) (op : Op) (hv : op.valid s) (hok : op.ok s)
    (hk : op.keepsTarget = true := by rfl) : SI T H (op.apply s) loc := by
  obtain ⟨g, hg, ht, hh⟩ := h.1
  have := Op.ghost_target hk g
  exact ⟨⟨_, ReachOk.step op hg hv hok, this.1.trans ht, this.2.trans hh⟩, h.2⟩

theorem SI.fst {α : Type} {s' : Streams} {r : α} {p : Streams × α} {loc : Local} (h : p = (s', r)) (hp : SI T H p.1 loc) :
    SI T H s' loc := by subst h; exact hp

theorem sinv_of_fst {α : Type} {c1 : Conn} {r : α} {p : Conn × α} (h : p = (c1, r)) (hp : SInv T H p.1) : SInv T H c1 := by
  subst h; exact hp

theorem sinv_ite {p : Prop} [Decidable p] {a b : Conn} (ha : SInv T H a) (hb : SInv T H b) : SInv T H (if p then a else b) := by
  split <;> assumption

theorem panic_sinv {c : Conn} (h : SInv T H c) (m : String) : SInv T H (c.panic m) := h.op (.panic m) trivial trivial

theorem dynGoAway_sinv {c : Conn} (h : SInv T H c) (id : Nat) (e : Reason) : SInv T H (c.dynGoAway id e) := by
  unfold Conn.dynGoAway
  have h1 : SI T H (c.streams.recvGoAway id) c.settings.loc := h.op (.recvGoAway id) trivial trivial
  dsimp only
  split
  · exact h1
  · exact h1.op (.panic _) trivial trivial

theorem goAwayNowData_sinv {c : Conn} (h : SInv T H c) (e : Reason) (d : Bytes) : SInv T H (c.goAwayNowData e d) := by
  unfold Conn.goAwayNowData
  dsimp only
  split
  · exact h
  · exact h.op (.panic _) trivial trivial

theorem goAwayNow_sinv {c : Conn} (h : SInv T H c) (e : Reason) : SInv T H (c.goAwayNow e) := goAwayNowData_sinv h e []

theorem codecPollReady_sinv {c : Conn} (h : SInv T H c) : SInv T H c.codecPollReady.1 := h

theorem sendPendingGoAway_sinv {c : Conn} (h : SInv T H c) : SInv T H c.sendPendingGoAway.1 := by
  unfold Conn.sendPendingGoAway
  split
  · have h1 := codecPollReady_sinv h
    split <;> (rename_i heq; rw [heq] at h1; exact h1)
  · split
    · split <;> exact h
    · exact h

theorem sendPendingPong_sinv {c : Conn} (h : SInv T H c) : SInv T H c.sendPendingPong.1 := by
  unfold Conn.sendPendingPong
  split
  · have h1 := codecPollReady_sinv h
    split <;> (rename_i heq; rw [heq] at h1; exact h1)
  · exact h

theorem sendPendingPing_sinv {c : Conn} (h : SInv T H c) : SInv T H c.sendPendingPing.1 := by
  unfold Conn.sendPendingPing
  split
  · split
    · have h1 := codecPollReady_sinv h
      split
      · rename_i heq; rw [heq] at h1; exact h1
      · exact h1
    · exact h
  · split
    · dsimp only
      split
      · split
        · rename_i _ c1 heq
          have h1 : SInv T H c1 := sinv_of_fst heq h
          exact h1
        · exact h
      · exact h
    · exact h

theorem takeUserPings_sinv {c : Conn} (h : SInv T H c) : SInv T H c.takeUserPings.1 := by
  unfold Conn.takeUserPings; split <;> exact h

theorem userSendPing_sinv {c : Conn} (h : SInv T H c) : SInv T H c.userSendPing.1 := by
  unfold Conn.userSendPing
  split
  · exact h
  · split
    · exact h.op (.wake _) trivial trivial
    · split <;> exact h

theorem userPollPong_sinv {c : Conn} (h : SInv T H c) (t : String) : SInv T H (c.userPollPong t).1 := by
  unfold Conn.userPollPong
  split
  · exact h
  · dsimp only
    split
    · exact h
    · split <;> exact h

theorem dropUserPingsRx_sinv {c : Conn} (h : SInv T H c) : SInv T H c.dropUserPingsRx := by
  unfold Conn.dropUserPingsRx
  split
  · exact h
  · exact h.op (.wake _) trivial trivial

/-- the result is a connection-level error -/
def IsConnErr {α : Type} (r : Except PErr α) : Prop := ∃ d rs i, r = .error (.goAway d rs i)

/-- the `try_for_each` of `Recv::apply_local_settings` (copy of the model's text, re-checked by
    `applyLocalSettings_eq` on every build) -/
def alsLoop (s : Streams) (oldSz target : Nat) : Streams × Option PErr :=
  if target < oldSz then
    let dec := oldSz - target
    s.storeTryForEach fun s id =>
      match (s.stream id).recvFlow.decRecvWindow dec with
      | (fl, .error _) => (s.modStream id fun st => { st with recvFlow := fl }, some (PErr.libraryGoAway FLOW_CONTROL_ERROR))
      | (fl, .ok _) =>
        let s := s.modStream id fun st => { st with recvFlow := fl }
        if fl.unclaimedCapacity.isSome then ((s.qPush .pendingWindowUpdates id).1, none) else (s, none)
  else if target > oldSz then
    let inc := target - oldSz
    s.storeTryForEach fun s id =>
      match (s.stream id).recvFlow.incWindow inc with
      | (_, .error _) => (s, some (PErr.libraryGoAway FLOW_CONTROL_ERROR))
      | (fl, .ok _) =>
        match fl.assignCapacity inc with
        | (fl2, .error _) => (s.modStream id fun st => { st with recvFlow := fl2 }, some (PErr.libraryGoAway FLOW_CONTROL_ERROR))
        | (fl2, .ok _) => (s.modStream id fun st => { st with recvFlow := fl2 }, none)
  else (s, none)

theorem applyLocalSettings_eq (s : Streams) (initialWindowSize enableConnect : Option Nat) :
    s.applyLocalSettings initialWindowSize enableConnect =
      (let s := match enableConnect with
        | some v => s.modRecv fun r => { r with isExtendedConnectProtocolEnabled := v != 0 }
        | none => s
       match initialWindowSize with
       | none => (s, .ok ())
       | some target =>
         let oldSz := s.recv.initWindowSz
         let s := s.modRecv fun r => { r with initWindowSz := target }
         let (s, res) : Streams × Option PErr := alsLoop s oldSz target
         match res with
         | some e => (s, .error e)
         | none => (s, .ok ())) := rfl

theorem alsLoop_err (s : Streams) (oldSz target : Nat) (e : PErr) (h : (alsLoop s oldSz target).2 = some e) :
    ∃ d rs i, e = .goAway d rs i := by
  unfold alsLoop at h
  split at h
  · unfold Streams.storeTryForEach at h
    refine H2V.Lemmas.ConnCtlP.tryForEach_err _ (fun e => ∃ d rs i, e = .goAway d rs i) ?_ _ _ _ _ _ h
    intro t id e hfe
    split at hfe
    · simp only [Option.some.injEq] at hfe; exact ⟨_, _, _, hfe.symm⟩
    · simp only at hfe
      split at hfe <;> cases hfe
  · split at h
    · unfold Streams.storeTryForEach at h
      refine H2V.Lemmas.ConnCtlP.tryForEach_err _ (fun e => ∃ d rs i, e = .goAway d rs i) ?_ _ _ _ _ _ h
      intro t id e hfe
      split at hfe
      · simp only [Option.some.injEq] at hfe; exact ⟨_, _, _, hfe.symm⟩
      · split at hfe
        · simp only [Option.some.injEq] at hfe; exact ⟨_, _, _, hfe.symm⟩
        · cases hfe
    · cases h

/-- `apply_local_settings` fails only with a connection error -/
theorem applyLocalSettingsFrame_err (s : Streams) (vals : List (Nat × Nat)) (s' : Streams) (e : PErr)
    (h : s.applyLocalSettingsFrame vals = (s', .error e)) : ∃ d rs i, e = .goAway d rs i := by
  unfold Streams.applyLocalSettingsFrame at h
  rw [applyLocalSettings_eq] at h
  extract_lets g s1 at h
  split at h
  · injection h with h1 h2; cases h2
  · extract_lets oldSz s2 at h
    split at h
    next s3 res heq =>
    split at h
    · next e2 =>
      injection h with h1 h2
      injection h2 with h2
      subst h2
      exact alsLoop_err _ _ _ _ (by rw [heq])
    · injection h with h1 h2; cases h2

/-- `Settings::recv_settings`: the ACK of our SETTINGS applies exactly the values we sent; either the
    books stay good, or `apply_local_settings` failed and the answer is a connection error -/
theorem recvSettings_sinv {c : Conn} (h : SInv T H c) (ack : Bool) (vals : List (Nat × Nat)) :
    SInv T H (c.recvSettings ack vals).1 ∨ IsConnErr (c.recvSettings ack vals).2 := by
  unfold Conn.recvSettings
  split
  · split
    · next loc hloc =>
      have hv : valsValid loc := by have := h.2; rw [hloc] at this; exact this
      dsimp only
      split
      · next s e heq =>
        right
        obtain ⟨d, rs, i, rfl⟩ := applyLocalSettingsFrame_err _ _ _ _ heq
        exact ⟨d, rs, i, rfl⟩
      · next s u heq =>
        left
        have hok : (Op.applyLocalSettings loc).ok c.streams := by
          show (c.streams.applyLocalSettingsFrame loc).2 = .ok ()
          rw [heq]
        have h1 : SI T H (c.streams.applyLocalSettingsFrame loc).1 c.settings.loc :=
          h.op (.applyLocalSettings loc) hv hok
        rw [heq] at h1
        exact ⟨h1.1, trivial⟩
    · right; exact ⟨_, _, _, rfl⟩
  · left
    dsimp only
    split
    · exact h.op (.panic _) trivial trivial
    · exact h

theorem sendSettings_sinv {c : Conn} (h : SInv T H c) (vals : List (Nat × Nat)) (hv : valsValid vals) :
    SInv T H (c.sendSettings vals).1 := by
  unfold Conn.sendSettings
  split
  · exact ⟨h.1, hv⟩
  · exact h

theorem settingsAck_sinv {c : Conn} (h : SInv T H c) : SInv T H (settingsAck c).1 := by
  unfold settingsAck
  split
  · next settings _ =>
    split
    · rename_i c1 heq; exact sinv_of_fst heq h
    · rename_i c1 e heq; exact sinv_of_fst heq h
    · rename_i c1 heq
      have h1 : SInv T H c1 := sinv_of_fst heq h
      dsimp only
      have h2 : SI T H (c1.streams.applyRemoteSettings settings (!c1.settings.hasReceivedRemoteInitialSettings)).1
          c1.settings.loc := h1.op (.applyRemoteSettings _ _) trivial trivial
      split
      · rename_i heq2; exact SI.fst heq2 h2
      · rename_i heq2; exact SI.fst heq2 h2
  · exact h

theorem settingsSendOwn_sinv {c : Conn} (h : SInv T H c) : SInv T H (settingsSendOwn c).1 := by
  unfold settingsSendOwn
  dsimp only
  split
  · next settings hloc =>
    have hv : valsValid settings := by
      have := h.2
      have hloc' : c.settings.loc = .toSend settings := hloc
      rw [hloc'] at this; exact this
    split
    · rename_i c2 heq2
      have h2 : SInv T H c2 := sinv_of_fst heq2 (show SInv T H _ from h)
      exact ⟨h2.1, hv⟩
    · exact (show SInv T H _ from h)
  · exact h

theorem settingsPollSend_sinv {c : Conn} (h : SInv T H c) : SInv T H c.settingsPollSend.1 := by
  rw [settingsPollSend_eq]
  have h1 := settingsAck_sinv h
  split
  · rename_i c1 heq
    rw [heq] at h1
    exact settingsSendOwn_sinv h1
  · exact h1

theorem pollReady_sinv {c : Conn} (h : SInv T H c) : SInv T H c.pollReady.1 := by
  unfold Conn.pollReady
  have h1 := sendPendingPong_sinv h
  split
  · rename_i c1 heq1
    rw [heq1] at h1
    have h2 := sendPendingPing_sinv h1
    split
    · rename_i c2 heq2
      rw [heq2] at h2
      have h3 := settingsPollSend_sinv h2
      split
      · rename_i c3 heq3
        rw [heq3] at h3
        dsimp only
        exact SI.op (s := c3.streams) h3 (.pollSendPendingRefusal 4 c3.codec.w c3.codec.io c3.cx) trivial trivial
      · exact h3
    · exact h2
  · exact h1

theorem setTargetWindowSize_sinv {c : Conn} (h : SInv T H c) (size : Nat) (hs : size ≤ 2147483647) :
    SInv size (max H size) (c.setTargetWindowSize size) := by
  unfold Conn.setTargetWindowSize
  obtain ⟨g, hg, -, hh⟩ := h.1
  refine ⟨⟨_, ReachOk.step (.setTargetConnectionWindow size) hg hs trivial, rfl, ?_⟩, h.2⟩
  show max g.hiTarget size = _
  rw [hh]

theorem setInitialWindowSize_sinv {c : Conn} (h : SInv T H c) (size : Nat) (hs : size ≤ 2147483647) :
    SInv T H (c.setInitialWindowSize size).1 := by
  unfold Conn.setInitialWindowSize
  refine sendSettings_sinv h _ ?_
  intro t ht
  have : settingsIws [(4, size)] = some size := by simp [settingsIws]
  rw [this] at ht; cases ht; exact hs

theorem takeError_sinv {c : Conn} (h : SInv T H c) (o : Reason) (i : Initiator) : SInv T H (c.takeError o i).1 := by
  unfold Conn.takeError
  dsimp only
  repeat' split
  all_goals exact h

theorem lift_sinv {c : Conn} {α : Type} (r : Streams × Except PErr Unit) (hr : SI T H r.1 c.settings.loc) (a : α) :
    SInv T H (match r with
      | (s, .ok _) => ({ c with streams := s }, (Except.ok a : Except PErr α))
      | (s, .error e) => ({ c with streams := s }, Except.error e)).1 := by
  split <;> exact hr

/-- **`DynConnection::recv_frame`**: every frame the peer can send keeps the books good (SETTINGS are
    handled by `recv_settings`) -/
theorem recvFrame_sinv {c : Conn} (h : SInv T H c) (f : Option Frame.Frame) : SInv T H (c.recvFrame f).1 := by
  unfold Conn.recvFrame
  dsimp only
  split
  · exact lift_sinv _ (h.op (.recvHeaders _) trivial trivial) _
  · exact lift_sinv _ (h.op (.recvData _ _ _ _) trivial trivial) _
  · exact lift_sinv _ (h.op (.recvReset _ _) trivial trivial) _
  · exact lift_sinv _ (h.op (.recvPushPromise _ _) trivial trivial) _
  · exact h
  · rename_i last code debug
    have := h.op (.recvGoAwayFrame last code debug) trivial trivial
    split <;> (rename_i heq; exact SI.fst heq this)
  · -- PING
    rename_i ack payload
    have h1 : SI T H (c.streams.wake (c.pingPong.recvPing ack payload).2.2.1) c.settings.loc := h.op (.wake _) trivial trivial
    have h1' : SInv T H { c with
        pingPong := (c.pingPong.recvPing ack payload).1,
        streams := c.streams.wake (c.pingPong.recvPing ack payload).2.2.1 } := h1
    have h2 := sinv_ite (p := (c.pingPong.recvPing ack payload).2.2.2 = true) h1' (panic_sinv h1' "ping_pong assertion")
    generalize (if (c.pingPong.recvPing ack payload).2.2.2 = true then _ else Conn.panic _ "ping_pong assertion") = c2 at h2 ⊢
    split
    · apply dynGoAway_sinv
      exact sinv_ite h2 (panic_sinv h2 _)
    · exact h2
  · exact lift_sinv _ (h.op (.recvWindowUpdate _ _) trivial trivial) _
  · exact h
  · exact h.op (.recvEof false) trivial trivial

/-- the state of the books after a `poll2`: good, or the loop has ended with a connection error (which
    `handle_poll2_result` turns into a dead connection) -/
def P2 (T H : Nat) (p : Conn × PollRes) : Prop :=
  SInv T H p.1 ∨ ∃ d rs i, p.2 = .ready (.error (.goAway d rs i))

theorem poll2GoOn_p2 (again : Conn → Conn × PollRes) (hag : ∀ c, SInv T H c → P2 T H (again c)) {c : Conn} (h : SInv T H c) :
    P2 T H (poll2GoOn again c) := by
  unfold poll2GoOn
  have h1 := pollReady_sinv h
  split
  · rename_i c1 heq; exact Or.inl (sinv_of_fst heq h1)
  · rename_i c1 e heq; exact Or.inl (sinv_of_fst heq h1)
  · rename_i c1 heq
    have h1 : SInv T H c1 := sinv_of_fst heq h1
    dsimp only
    have h2 : SInv T H { c1 with codec := (pollNext (c1.codec.r.buf.length + c1.codec.io.rd.length + 2) c1.codec c1.cx).1 } := h1
    split
    · exact Or.inl h2
    · exact Or.inl h2
    · exact Or.inl h2
    · have h3 := recvFrame_sinv h2
      split
      · rename_i heq3; exact Or.inl (sinv_of_fst heq3 (h3 _))
      · rename_i heq3; exact hag _ (sinv_of_fst heq3 (h3 _))
      · rename_i heq3; exact Or.inl (sinv_of_fst heq3 (h3 _))
      · rename_i c3 ack vals heq3
        have h4 := recvSettings_sinv (sinv_of_fst heq3 (h3 _)) ack vals
        split
        · rename_i c4 e heq4
          rw [heq4] at h4
          rcases h4 with h4 | ⟨d, rs, i, h4⟩
          · exact Or.inl h4
          · right
            simp only at h4
            rw [Except.error.injEq] at h4
            exact ⟨d, rs, i, by rw [h4]⟩
        · rename_i c4 u heq4
          rw [heq4] at h4
          rcases h4 with h4 | ⟨d, rs, i, h4⟩
          · exact hag _ h4
          · cases h4

theorem poll2Loop_p2 (fuel : Nat) {c : Conn} (h : SInv T H c) : P2 T H (Conn.poll2Loop fuel c) := by
  induction fuel generalizing c with
  | zero => unfold Conn.poll2Loop; exact Or.inl (panic_sinv h _)
  | succ fuel ih =>
    rw [poll2Loop_succ]
    have h1 := sendPendingGoAway_sinv h
    split
    · rename_i heq; exact Or.inl (sinv_of_fst heq h1)
    · rename_i heq; exact Or.inl (sinv_of_fst heq h1)
    · rename_i heq
      have h1 := sinv_of_fst heq h1
      split
      · split <;> exact Or.inl h1
      · exact poll2GoOn_p2 _ (fun c hc => ih hc) h1
    · rename_i heq; exact poll2GoOn_p2 _ (fun c hc => ih hc) (sinv_of_fst heq h1)

theorem poll2_p2 (fuel : Nat) {c : Conn} (h : SInv T H c) : P2 T H (Conn.poll2 fuel c) := by
  unfold Conn.poll2
  exact poll2Loop_p2 fuel (h.op (.clearExpiredResetStreams _) trivial trivial)

end H2V.Lemmas.ConnPartP
