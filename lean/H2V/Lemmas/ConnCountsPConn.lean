import Lean
import H2V.Lemmas.ConnCountsPReach
/-
  C05 / C18 / C19 — the connection loop stays inside `Reach`.
  `Star s s'`: `s'` comes from `s` by finitely many `ApiStep`s.  Every function of `ConnProto.lean`
  (`recv_frame`, `recv_settings`, `poll_ready`, `poll2`, `proto::Connection::poll`,
  `client::Connection::poll`, the GOAWAY functions, …) moves `Conn.streams` along `Star`; hence every
  state the connection loop produces from a reachable state is reachable (`Reach.clientPoll`, …) and
  all `Reach` theorems apply to it.
-/
namespace H2V.Lemmas.ConnCountsP
open H2V H2V.Model H2V.Model.Conn

inductive Star : Streams → Streams → Prop
  | refl (s : Streams) : Star s s
  | tail {a b c : Streams} : Star a b → ApiStep b c → Star a c

theorem Star.single {a b : Streams} (h : ApiStep a b) : Star a b := .tail (.refl a) h

theorem Star.trans {a b c : Streams} (h1 : Star a b) (h2 : Star b c) : Star a c := by
  induction h2 with
  | refl => exact h1
  | tail _ hs ih => exact .tail ih hs

theorem Reach.star {s s' : Streams} (h : Reach s) (e : Star s s') : Reach s' := by
  induction e with
  | refl => exact h
  | tail _ hs ih => exact .step ih hs

theorem Star.of_fst_eq {s a : Streams} {α : Type} {p : Streams × α} {x : α} (h : p = (a, x)) (e : Star s p.1) : Star s a := by
  subst h; exact e
theorem Star.of_cfst_eq {s : Streams} {c : Conn} {α : Type} {p : Conn × α} {x : α} (h : p = (c, x)) (e : Star s p.1.streams) :
    Star s c.streams := by
  subst h; exact e

open Lean in
/-- strip `Conn.streams`, `Prod.fst` and primitive projections from the head of a term -/
def stripProj : Nat → Expr → Expr
  | 0, e => e
  | n + 1, e =>
    let e := e.cleanupAnnotations
    if e.isAppOfArity ``Conn.streams 1 then stripProj n e.appArg!
    else if e.isAppOfArity ``Prod.fst 3 then stripProj n e.appArg!
    else match e with
      | .proj _ _ s => stripProj n s
      | _ => e

open Lean Meta in
/-- for a call `Conn.f c args` the proof `f_star c args`, for a call `Streams.f s args` the proof
    `Star.single (ApiStep.f s args)`; found by name, nothing is unfolded -/
def starLemma? (core : Expr) : MetaM (Option Expr) := do
  let some name := core.getAppFn.constName? | return none
  let args := core.getAppArgs
  let .str pre last := name | return none
  try
    if pre == ``H2V.Model.Conn.Conn then
      let pf := mkAppN (mkConst (`H2V.Lemmas.ConnCountsP ++ Name.mkSimple (last ++ "_star"))) args
      let _ ← inferType pf
      Meta.check pf
      return some pf
    else if pre == ``H2V.Model.Conn.Streams then
      let pf ← mkAppM ``Star.single #[mkAppN (mkConst (``ApiStep ++ Name.mkSimple last)) args]
      return some pf
    else return none
  catch _ => return none

open Lean Elab Tactic Meta in
/-- one backward step on a goal `Star a X` where `X` is (a projection of) a call -/
elab "star_head" : tactic => withMainContext do
  let g ← getMainGoal
  let t := (← instantiateMVars (← g.getType)).cleanupAnnotations
  unless t.isAppOfArity ``Star 2 do throwError "star_head: not a Star goal"
  let X := t.appArg!
  let a := t.appFn!.appArg!
  let some pf ← starLemma? (stripProj 8 X) | throwError "star_head: no lemma"
  let ty ← whnfR (← inferType pf)
  let b := ty.appFn!.appArg!
  let newGoal ← mkFreshExprSyntheticOpaqueMVar (mkApp2 (mkConst ``Star) a b)
  let proof ← mkAppM ``Star.trans #[newGoal, pf]
  unless ← withReducible (isDefEq (← inferType proof) t) do throwError "star_head: lemma does not fit"
  g.assign proof
  replaceMainGoal [newGoal.mvarId!]

open Lean Elab Tactic Meta in
/-- for every hypothesis `f x args = (y, r)` (the result of a call, as left by `split`) add the fact
    `Star x.streams y.streams` -/
elab "star_fwd" : tactic => withMainContext do
  let lctx ← getLCtx
  let mut g ← getMainGoal
  for d in lctx do
    if d.isImplementationDetail then continue
    let ty := (← instantiateMVars d.type).cleanupAnnotations
    unless ty.isAppOfArity ``Eq 3 do continue
    let lhs := ty.appFn!.appArg!
    let some pf ← starLemma? lhs.cleanupAnnotations | continue
    try
      let pf' ← withReducible <|
        (mkAppM ``Star.of_fst_eq #[d.toExpr, pf]) <|> (mkAppM ``Star.of_cfst_eq #[d.toExpr, pf])
      let ty' ← inferType pf'
      let (_, g') ← (← g.assert `hs ty' pf').intro1
      g := g'
    catch _ => pure ()
  replaceMainGoal [g]

-- ===================================================================== helpers that leave `streams` alone

@[simp] theorem bufferSimple_streams (c : Conn) (n : Nat) (r : String) : (c.bufferSimple n r).streams = c.streams := rfl
@[simp] theorem bufferSettings_streams (c : Conn) (a : Bool) (v : List (Nat × Nat)) : (c.bufferSettings a v).streams = c.streams := rfl
@[simp] theorem cunsup_streams (c : Conn) (m : String) : (c.unsup m).streams = c.streams := by
  unfold Conn.unsup; split <;> rfl
@[simp] theorem cpanic_streams (c : Conn) (m : String) : (c.panic m).streams = c.streams.panic m := rfl
@[simp] theorem codecPollReady_streams (c : Conn) : c.codecPollReady.1.streams = c.streams := rfl

/-- close a goal `Star a X` from the `Star` facts in the context and the calls visible in `X` -/
macro "star_close" : tactic =>
  `(tactic| repeat (first
      | with_reducible exact Star.refl _
      | with_reducible assumption
      | star_head
      | simp only [bufferSimple_streams, bufferSettings_streams, cunsup_streams, cpanic_streams, codecPollReady_streams]
      | with_reducible refine Star.trans ?_ (by with_reducible assumption)))

/-- split every `match`/`if`, turn the results of the calls into `Star` facts, close -/
macro "star_auto" : tactic =>
  `(tactic| (try dsimp only
             repeat' split
             all_goals star_fwd
             all_goals try simp only [bufferSimple_streams, bufferSettings_streams, cunsup_streams, cpanic_streams, codecPollReady_streams] at *
             all_goals star_close))

theorem codecPollReady_star (c : Conn) : Star c.streams c.codecPollReady.1.streams := .refl _

theorem dynGoAway_star (c : Conn) (id : Nat) (e : Reason) : Star c.streams (c.dynGoAway id e).streams := by
  unfold Conn.dynGoAway; star_auto
theorem goAwayNowData_star (c : Conn) (e : Reason) (d : Bytes) : Star c.streams (c.goAwayNowData e d).streams := by
  unfold Conn.goAwayNowData; star_auto
theorem goAwayNow_star (c : Conn) (e : Reason) : Star c.streams (c.goAwayNow e).streams := goAwayNowData_star c e []
theorem sendPendingGoAway_star (c : Conn) : Star c.streams c.sendPendingGoAway.1.streams := by
  unfold Conn.sendPendingGoAway; star_auto
theorem sendPendingPong_star (c : Conn) : Star c.streams c.sendPendingPong.1.streams := by
  unfold Conn.sendPendingPong; star_auto
theorem sendPendingPing_star (c : Conn) : Star c.streams c.sendPendingPing.1.streams := by
  unfold Conn.sendPendingPing; star_auto
theorem takeUserPings_star (c : Conn) : Star c.streams c.takeUserPings.1.streams := by
  unfold Conn.takeUserPings; star_auto
theorem userSendPing_star (c : Conn) : Star c.streams c.userSendPing.1.streams := by
  unfold Conn.userSendPing; star_auto
theorem userPollPong_star (c : Conn) (t : String) : Star c.streams (c.userPollPong t).1.streams := by
  unfold Conn.userPollPong; star_auto
theorem dropUserPingsRx_star (c : Conn) : Star c.streams c.dropUserPingsRx.streams := by
  unfold Conn.dropUserPingsRx; star_auto
theorem recvSettings_star (c : Conn) (ack : Bool) (v : List (Nat × Nat)) : Star c.streams (c.recvSettings ack v).1.streams := by
  unfold Conn.recvSettings; star_auto
theorem sendSettings_star (c : Conn) (v : List (Nat × Nat)) : Star c.streams (c.sendSettings v).1.streams := by
  unfold Conn.sendSettings; star_auto

theorem settingsPollSend_star (c : Conn) : Star c.streams c.settingsPollSend.1.streams := by
  unfold Conn.settingsPollSend
  extract_lets first
  -- the first half: apply the peer's SETTINGS
  have h1 : Star c.streams first.1.streams := by
    unfold first; star_auto
  clear_value first
  star_auto

theorem pollReady_star (c : Conn) : Star c.streams c.pollReady.1.streams := by
  unfold Conn.pollReady; star_auto
theorem setTargetWindowSize_star (c : Conn) (n : Nat) : Star c.streams (c.setTargetWindowSize n).streams := by
  unfold Conn.setTargetWindowSize; star_auto
theorem setInitialWindowSize_star (c : Conn) (n : Nat) : Star c.streams (c.setInitialWindowSize n).1.streams :=
  sendSettings_star c _
theorem takeError_star (c : Conn) (o : Reason) (i : Initiator) : Star c.streams (c.takeError o i).1.streams := by
  unfold Conn.takeError; star_auto
theorem handleGoAway_star (c : Conn) (r : Reason) (d : Bytes) (i : Initiator) : Star c.streams (c.handleGoAway r d i).streams := by
  unfold Conn.handleGoAway; star_auto
theorem handlePoll2Result_star (c : Conn) (r : Except PErr Unit) : Star c.streams (c.handlePoll2Result r).1.streams := by
  unfold Conn.handlePoll2Result; star_auto
theorem recvFrame_star (c : Conn) (f : Option Frame.Frame) : Star c.streams (c.recvFrame f).1.streams := by
  unfold Conn.recvFrame; star_auto


/-- `star_auto` inside an induction on the fuel -/
macro "star_auto_ih " ih:ident : tactic =>
  `(tactic| (try dsimp only
             repeat' split
             all_goals star_fwd
             all_goals try simp only [bufferSimple_streams, bufferSettings_streams, cunsup_streams, cpanic_streams, codecPollReady_streams] at *
             all_goals repeat (first
               | with_reducible exact Star.refl _
               | with_reducible assumption
               | star_head
               | simp only [bufferSimple_streams, bufferSettings_streams, cunsup_streams, cpanic_streams, codecPollReady_streams]
               | with_reducible refine Star.trans ?_ (by with_reducible assumption)
               | with_reducible refine Star.trans ?_ ($ih _))))

theorem poll2Loop_star (fuel : Nat) (c : Conn) : Star c.streams (Conn.poll2Loop fuel c).1.streams := by
  induction fuel generalizing c with
  | zero => unfold Conn.poll2Loop; star_auto
  | succ n ih => unfold Conn.poll2Loop; star_auto_ih ih

theorem poll2_star (fuel : Nat) (c : Conn) : Star c.streams (Conn.poll2 fuel c).1.streams := by
  unfold Conn.poll2; star_auto

theorem protoPoll_star (fuel : Nat) (c : Conn) : Star c.streams (Conn.protoPoll fuel c).1.streams := by
  induction fuel generalizing c with
  | zero => unfold Conn.protoPoll; star_auto
  | succ n ih => unfold Conn.protoPoll; star_auto_ih ih

theorem clientPoll_star (fuel : Nat) (c : Conn) : Star c.streams (Conn.clientPoll fuel c).1.streams := by
  unfold Conn.clientPoll; star_auto

theorem goAwayGracefully_star (c : Conn) : Star c.streams c.goAwayGracefully.streams := by
  unfold Conn.goAwayGracefully; star_auto

theorem goAwayFromUser_star (c : Conn) (e : Reason) : Star c.streams (c.goAwayFromUser e).streams := by
  unfold Conn.goAwayFromUser; star_auto

-- ===================================================================== reachable connection states

/-- one step of a connection: a poll of the connection future (client or server, any fuel), a
    single received frame / SETTINGS, a user call on the connection, a user call on a handle
    (`ApiStep` on `streams`), or anything that leaves `streams` alone (bytes arriving on the
    transport, write budget, wakers, …) -/
inductive ConnStep : Conn → Conn → Prop
  | clientPoll (fuel : Nat) (c : Conn) : ConnStep c (c.clientPoll fuel).1
  | protoPoll (fuel : Nat) (c : Conn) : ConnStep c (c.protoPoll fuel).1
  | poll2 (fuel : Nat) (c : Conn) : ConnStep c (c.poll2 fuel).1
  | pollReady (c : Conn) : ConnStep c c.pollReady.1
  | recvFrame (c : Conn) (f : Option Frame.Frame) : ConnStep c (c.recvFrame f).1
  | recvSettings (c : Conn) (ack : Bool) (v : List (Nat × Nat)) : ConnStep c (c.recvSettings ack v).1
  | handlePoll2Result (c : Conn) (r : Except PErr Unit) : ConnStep c (c.handlePoll2Result r).1
  | goAwayGracefully (c : Conn) : ConnStep c c.goAwayGracefully
  | goAwayFromUser (c : Conn) (e : Reason) : ConnStep c (c.goAwayFromUser e)
  | setTargetWindowSize (c : Conn) (n : Nat) : ConnStep c (c.setTargetWindowSize n)
  | setInitialWindowSize (c : Conn) (n : Nat) : ConnStep c (c.setInitialWindowSize n).1
  | takeUserPings (c : Conn) : ConnStep c c.takeUserPings.1
  | userSendPing (c : Conn) : ConnStep c c.userSendPing.1
  | userPollPong (c : Conn) (t : String) : ConnStep c (c.userPollPong t).1
  | dropUserPingsRx (c : Conn) : ConnStep c c.dropUserPingsRx
  | handle (c : Conn) (s' : Streams) : ApiStep c.streams s' → ConnStep c { c with streams := s' }
  | other (c c' : Conn) : c'.streams = c.streams → ConnStep c c'

theorem ConnStep.star {c c' : Conn} (h : ConnStep c c') : Star c.streams c'.streams := by
  cases h with
  | clientPoll fuel => exact clientPoll_star fuel c
  | protoPoll fuel => exact protoPoll_star fuel c
  | poll2 fuel => exact poll2_star fuel c
  | pollReady => exact pollReady_star c
  | recvFrame _ f => exact recvFrame_star c f
  | recvSettings _ ack v => exact recvSettings_star c ack v
  | handlePoll2Result _ r => exact handlePoll2Result_star c r
  | goAwayGracefully => exact goAwayGracefully_star c
  | goAwayFromUser _ e => exact goAwayFromUser_star c e
  | setTargetWindowSize _ n => exact setTargetWindowSize_star c n
  | setInitialWindowSize _ n => exact setInitialWindowSize_star c n
  | takeUserPings => exact takeUserPings_star c
  | userSendPing => exact userSendPing_star c
  | userPollPong _ t => exact userPollPong_star c t
  | dropUserPingsRx => exact dropUserPingsRx_star c
  | handle _ s' hs => exact .single hs
  | other _ _ he => rw [he]; exact .refl _

/-- the connection states reachable from a freshly built client or server connection -/
inductive ConnReach : Conn → Prop
  | client (g : Conn.Cfg) (hodd : g.firstId % 2 = 1) : ConnReach (Conn.init g)
  | server (g : Conn.Cfg) (ecp : Bool) (peerFirst : Bytes) : ConnReach (Conn.initServer g ecp peerFirst)
  | step {c c' : Conn} : ConnReach c → ConnStep c c' → ConnReach c'

/-- **the stream state of every reachable connection state is `Reach`able** -/
theorem ConnReach.reach {c : Conn} (h : ConnReach c) : Reach c.streams := by
  induction h with
  | client g hodd => exact .init (.client g hodd)
  | server g ecp pf => exact .init (.server g ecp pf)
  | step _ hs ih => exact ih.star hs.star

end H2V.Lemmas.ConnCountsP
