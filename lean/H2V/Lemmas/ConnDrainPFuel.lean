import H2V.Lemmas.ConnDrainPAcct
import H2V.Lemmas.ConnWakePClone
/-
  ConnDrainP, part 5 — the fuel of `pop_frame` suffices.

  `popCont s m` is one turn of the loop of `Prioritize::pop_frame` (`some s1`: the loop `continue`s from
  `s1`; `none`: it returns).  Every `continue` keeps `PInv` and lowers the measure `Phi` (`popCont_step`), so
  `pop_frame` called with more fuel than `Phi s` — in particular with `popFrameFuel s`, which
  `buffer_pending` passes — answers `None` only because `pending_send` is empty (`popFrame_none_drains`).
-/
namespace H2V.Lemmas.ConnDrainP
open H2V H2V.Model H2V.Model.Conn
open H2V.Lemmas.ConnFlowP (KeysOk SafeInv SafeInvG ReqOk stream_of_get stream_panic stream_modStream_self stream_modStream_other modStream_none)
open H2V.Lemmas.ConnCountsP (QOK Flagged Ev EvB QF)
open H2V.Lemmas.ConnWakeP (popFrameC popFrameC_zero popFrameC_succ pfFinish pfData)

theorem ret0_of_core {a b : Stream} (h : core b = core a) : ret0 b = ret0 a := by
  unfold core at h
  injection h with h1 h2
  injection h2 with h2 h3
  unfold ret0; rw [h1, h2]

-- ===================================================================== `clear_queue`, `reclaim_all_capacity`

theorem clearQueue_store (s : Streams) (k : Nat) :
    (s.clearQueue k).store = (s.modStream k fun st => { st with pendingSend := [], bufferedSendData := 0, requestedSendCapacity := 0 }).store := by
  unfold Streams.clearQueue
  dsimp only
  split
  · split <;> rfl
  · rfl

theorem phi_clear_le (a : Stream) :
    phi { a with pendingSend := [], bufferedSendData := 0, requestedSendCapacity := 0 } + a.pendingSend.length ≤ phi a := by
  unfold phi ret0
  cases h : a.pendingSend with
  | nil => simp
  | cons f t =>
    simp only [List.isEmpty_nil, List.isEmpty_cons, Bool.true_and, Bool.false_and, Bool.not_false, Bool.and_true, List.length_cons, List.length_nil]
    cases a.isPendingSend <;> cases a.state.getScheduledReset.isSome <;> simp <;> omega

theorem clearQueue_phi {s : Streams} (hk : KeysOk s.store) (k : Nat) (hne : (s.stream k).pendingSend ≠ []) :
    Phi (s.clearQueue k) + 1 ≤ Phi s ∧ ((s.clearQueue k).stream k).pendingSend = [] ∧
      ((s.clearQueue k).stream k).state = (s.stream k).state := by
  have hst : ∀ j, (s.clearQueue k).stream j =
      (s.modStream k fun st => { st with pendingSend := [], bufferedSendData := 0, requestedSendCapacity := 0 }).stream j := by
    intro j; unfold Streams.stream; rw [clearQueue_store]
  cases ha : s.store.get? k with
  | none =>
    exfalso; apply hne
    unfold Streams.stream; rw [ha]; rfl
  | some a =>
    rw [stream_of_get ha] at hne ⊢
    have h1 := (Phi_modStream hk k (fun st => { st with pendingSend := [], bufferedSendData := 0, requestedSendCapacity := 0 })
      (fun _ => rfl)).1 a ha
    have h2 := phi_clear_le a
    have hlen : 1 ≤ a.pendingSend.length := by
      cases h : a.pendingSend with
      | nil => exact absurd h hne
      | cons _ _ => simp
    refine ⟨?_, ?_, ?_⟩
    · rw [Phi_of_slab (s := s.modStream k _) (by rw [clearQueue_store])]
      omega
    · rw [hst, stream_modStream_self ha _ rfl]
    · rw [hst, stream_modStream_self ha _ rfl]

/-- the state `assign_connection_capacity` hands to its loop satisfies the safety invariant -/
theorem safe_before_loop {s : Streams} {inc : Nat} (h : SafeInvG inc s) :
    SafeInv (s.modPrio fun p => { p with flow := (p.flow.assignCapacity inc).1 }) := by
  have hA := h.av_le
  have hA0 := h.a0
  have hW := h.whi
  have hc := ConnFlowP.conn_assign (f := s.prio.flow) h.a0 (n := inc) (by omega)
  refine h.conn rfl (Int.le_refl _) ?_ ?_ ?_
  · show 0 ≤ (s.prio.flow.assignCapacity inc).1.available.val
    rw [hc.1]; omega
  · show (s.prio.flow.assignCapacity inc).1.windowSize.val ≤ _
    rw [hc.2]; exact hW
  · show (s.prio.flow.assignCapacity inc).1.available.val - _ + _ ≤ (s.prio.flow.assignCapacity inc).1.windowSize.val - _
    rw [hc.1, hc.2]; omega

theorem QOK.modPrio_flow {q : QName} {s : Streams} (h : QOK q s) (fl : FlowControl) :
    QOK q (s.modPrio fun p => { p with flow := fl }) :=
  (QF.of_store_q (q := q) (s := s) (s' := s.modPrio fun p => { p with flow := fl }) rfl (by cases q <;> rfl)).qok h

theorem QOK.modStream_flow {q : QName} {s : Streams} (h : QOK q s) (k : Nat) (g : FlowControl → FlowControl) :
    QOK q (s.modStream k fun st => { st with sendFlow := g st.sendFlow }) :=
  (QF.modStream q s k (fun st => { st with sendFlow := g st.sendFlow }) (fun _ => rfl) (fun x => by cases q <;> rfl)).qok h

theorem reclaimAll_phi {s : Streams} (h : PInv s) (k : Nat) (hp : (s.reclaimAllCapacity k).panicked = none) :
    Phi (s.reclaimAllCapacity k) ≤ Phi s + 2 := by
  unfold Streams.reclaimAllCapacity at hp ⊢
  dsimp only at hp ⊢
  split
  · rename_i hav
    rw [if_pos hav] at hp
    unfold Streams.assignConnectionCapacity at hp ⊢
    dsimp only at hp ⊢
    have hg := ConnFlowP.claim_step h.safe k (s.stream k).sendFlow.available.asSize (Nat.le_refl _)
    have hs1 := safe_before_loop hg
    have hr1 : ReqOk ((s.modStream k fun st => { st with sendFlow := (st.sendFlow.claimCapacity (s.stream k).sendFlow.available.asSize).1 }).modPrio
        fun p => { p with flow := (p.flow.assignCapacity (s.stream k).sendFlow.available.asSize).1 }) :=
      (h.req.modStream k (fun st => { st with sendFlow := (st.sendFlow.claimCapacity (s.stream k).sendFlow.available.asSize).1 })
        (fun _ => rfl)).modPrio _
    have hq : ∀ q, QOK q s → QOK q ((s.modStream k fun st => { st with sendFlow := (st.sendFlow.claimCapacity (s.stream k).sendFlow.available.asSize).1 }).modPrio
        fun p => { p with flow := (p.flow.assignCapacity (s.stream k).sendFlow.available.asSize).1 }) := by
      intro q hq
      exact QOK.modPrio_flow (QOK.modStream_flow hq k fun f => (f.claimCapacity (s.stream k).sendFlow.available.asSize).1) _
    have := loop_phi _ _ ⟨hs1, hr1, hq _ h.qs, hq _ h.qc⟩ hp
    have e1 : Phi ((s.modStream k fun st => { st with sendFlow := (st.sendFlow.claimCapacity (s.stream k).sendFlow.available.asSize).1 }).modPrio
        fun p => { p with flow := (p.flow.assignCapacity (s.stream k).sendFlow.available.asSize).1 }) = Phi s := by
      refine (Phi_of_slab rfl).trans ?_
      exact Phi_modStream_eq h.safe.keys k
        (fun st => { st with sendFlow := (st.sendFlow.claimCapacity (s.stream k).sendFlow.available.asSize).1 }) (fun _ => rfl) (fun _ => rfl)
    omega
  · exact Nat.le_add_right _ _


-- ===================================================================== one turn of `pop_frame`

/-- one turn of `pop_frame`'s loop: `some s1` when the loop `continue`s (from state `s1`), `none` when it
    returns (a frame, or `None` because `pending_send` is empty) -/
def popCont (s : Streams) (maxLen : Nat) : Option Streams :=
  match s.qPop .pendingSend with
  | (_, none) => none
  | (s, some id) =>
    let st := s.stream id
    let isPendingReset := st.isPendingResetExpiration
    match st.pendingSend with
    | .data sz _ :: _ =>
      let discard : Bool := match st.state.getScheduledReset with
        | some reason => reason != NO_ERROR
        | none => false
      if discard then some ((((s.clearQueue id).reclaimAllCapacity id).qPush .pendingSend id).1)
      else if sz > 0 && st.sendFlow.available.eqUsize 0 then some s
      else
        let len := usizeAsU32 (min (min sz maxLen) st.sendFlow.available.asSize)
        if len > 0 && len > st.sendFlow.windowSz then some s else none
    | .headers .. :: _ => none
    | .reset .. :: _ => none
    | .pushPromise _ pid _ :: rest =>
      let s := s.modStream id fun st => { st with pendingSend := rest }
      match s.store.findKey? pid with
      | none =>
        let st := s.stream id
        let s := if !st.pendingSend.isEmpty || st.state.isScheduledReset then (s.qPush .pendingSend id).1 else s
        some (s.transitionAfter id isPendingReset)
      | some _ => none
    | [] =>
      match st.state.getScheduledReset with
      | some _ => none
      | none => some (s.transitionAfter id isPendingReset)

theorem popFrameC_cont (sd : Stream → Nat → Nat → Stream × List String × Bool) (n : Nat) (s s1 : Streams) (m : Nat)
    (h : popCont s m = some s1) : popFrameC sd (n + 1) s m = popFrameC sd n s1 m := by
  rw [popFrameC_succ]
  unfold popCont at h
  split at h
  · cases h
  · next s0 id heq =>
    rw [heq]
    dsimp only at h ⊢
    split at h
    · next sz eos rest hps =>
      rw [hps]
      dsimp only
      have tail : ∀ (X : Streams × Option Streams.OutFrame),
          (if (decide (sz > 0) && (s0.stream id).sendFlow.available.eqUsize 0) = true then some s0
           else if (decide (usizeAsU32 (min (min sz m) (s0.stream id).sendFlow.available.asSize) > 0) &&
                decide (usizeAsU32 (min (min sz m) (s0.stream id).sendFlow.available.asSize) > (s0.stream id).sendFlow.windowSz)) = true
             then some s0 else none) = some s1 →
          (if (decide (sz > 0) && (s0.stream id).sendFlow.available.eqUsize 0) = true then popFrameC sd n s0 m
           else if (decide (usizeAsU32 (min (min sz m) (s0.stream id).sendFlow.available.asSize) > 0) &&
                decide (usizeAsU32 (min (min sz m) (s0.stream id).sendFlow.available.asSize) > (s0.stream id).sendFlow.windowSz)) = true
             then popFrameC sd n s0 m else X) = popFrameC sd n s1 m := by
        intro X h
        split at h
        · next hc => rw [if_pos hc]; cases h; rfl
        · next hc =>
          rw [if_neg hc]
          split at h
          · next hw => rw [if_pos hw]; cases h; rfl
          · cases h
      cases hg : (s0.stream id).state.getScheduledReset with
      | none =>
        simp only [hg, Bool.false_eq_true, if_false] at h ⊢
        exact tail _ h
      | some r =>
        simp only [hg] at h ⊢
        by_cases hr : (r != NO_ERROR) = true
        · rw [if_pos hr] at h ⊢; cases h; rfl
        · rw [if_neg hr] at h ⊢; exact tail _ h
    · cases h
    · cases h
    · next pk pid fields rest hps =>
      rw [hps]
      dsimp only
      split at h
      · next hf => rw [hf]; cases h; rfl
      · cases h
    · next hps =>
      rw [hps]
      dsimp only
      split at h
      · cases h
      · next hg => rw [hg]; cases h; rfl

theorem qPop_none_empty {s s' : Streams} {q : QName} (h : s.qPop q = (s', none)) : s'.getQ q = [] := by
  unfold Streams.qPop at h
  split at h
  · next hq => cases h; exact hq
  · cases h

theorem popFrameC_ret (sd : Stream → Nat → Nat → Stream × List String × Bool) (n : Nat) (s s' : Streams) (m : Nat)
    (h : popCont s m = none) (hr : popFrameC sd (n + 1) s m = (s', none)) : s'.prio.pendingSend = [] := by
  rw [popFrameC_succ] at hr
  unfold popCont at h
  split at h
  · next s0 heq =>
    rw [heq] at hr
    cases hr
    exact qPop_none_empty heq
  · next s0 id heq =>
    rw [heq] at hr
    dsimp only at h hr
    split at h
    · next sz eos rest hps =>
      rw [hps] at hr
      dsimp only at hr
      have tail : ∀ (X : Streams × Option Streams.OutFrame), X.2 ≠ none →
          (if (decide (sz > 0) && (s0.stream id).sendFlow.available.eqUsize 0) = true then some s0
           else if (decide (usizeAsU32 (min (min sz m) (s0.stream id).sendFlow.available.asSize) > 0) &&
                decide (usizeAsU32 (min (min sz m) (s0.stream id).sendFlow.available.asSize) > (s0.stream id).sendFlow.windowSz)) = true
             then some s0 else none) = none →
          (if (decide (sz > 0) && (s0.stream id).sendFlow.available.eqUsize 0) = true then popFrameC sd n s0 m
           else if (decide (usizeAsU32 (min (min sz m) (s0.stream id).sendFlow.available.asSize) > 0) &&
                decide (usizeAsU32 (min (min sz m) (s0.stream id).sendFlow.available.asSize) > (s0.stream id).sendFlow.windowSz)) = true
             then popFrameC sd n s0 m else X) = (s', none) → False := by
        intro X hX h hr
        split at h
        · cases h
        · next hc =>
          rw [if_neg hc] at hr
          split at h
          · cases h
          · next hw => rw [if_neg hw] at hr; rw [hr] at hX; exact hX rfl
      exfalso
      cases hg : (s0.stream id).state.getScheduledReset with
      | none =>
        simp only [hg, Bool.false_eq_true, if_false] at h hr
        exact tail _ (by simp [pfFinish]) h hr
      | some r =>
        simp only [hg] at h hr
        by_cases hrr : (r != NO_ERROR) = true
        · rw [if_pos hrr] at h; cases h
        · rw [if_neg hrr] at h hr; exact tail _ (by simp [pfFinish]) h hr
    · next hps => rw [hps] at hr; cases hr
    · next hps => rw [hps] at hr; cases hr
    · next pk pid fields rest hps =>
      rw [hps] at hr
      dsimp only at hr
      split at h
      · cases h
      · next pushed hf => rw [hf] at hr; cases hr
    · next hps =>
      rw [hps] at hr
      dsimp only at hr
      split at h
      · next r hg => rw [hg] at hr; cases hr
      · cases h

-- ===================================================================== every `continue` lowers the measure

theorem phi_popRest_le (a : Stream) (f : SFrame) (rest : List SFrame) (h : a.pendingSend = f :: rest) :
    phi { a with pendingSend := rest } + 1 ≤ phi a := by
  unfold phi ret0
  rw [h]
  simp only [List.isEmpty_cons, Bool.false_and, Bool.not_false, Bool.and_true, List.length_cons]
  cases a.isPendingSend <;> simp <;> split <;> omega

theorem ret0_false_of_ne {x : Stream} (h : x.pendingSend ≠ []) : ret0 x = false := by
  unfold ret0
  cases hx : x.pendingSend with
  | nil => exact absurd hx h
  | cons _ _ => rfl

theorem live_of_ne {s : Streams} {k : Nat} (h : (s.stream k).pendingSend ≠ []) : ∃ a, s.store.get? k = some a := by
  cases ha : s.store.get? k with
  | none => exfalso; apply h; unfold Streams.stream; rw [ha]; rfl
  | some a => exact ⟨a, rfl⟩

/-- **every `continue` of `pop_frame` keeps the invariant and makes the measure strictly smaller** -/
theorem popCont_step {s s1 : Streams} {m : Nat} (h : PInv s) (hc : popCont s m = some s1) (hp : s1.panicked = none) :
    PInv s1 ∧ Phi s1 < Phi s := by
  unfold popCont at hc
  split at hc
  · cases hc
  · next s0 k heq =>
    have e0 : Ev s s0 := .of_fst_eq heq (ConnCountsP.qPop_ev _ _ (by decide) (by decide))
    have hs0 : SafeInv s0 := h.safe.fr (ConnFlowP.Fr.qPop_eq heq (ConnFlowP.Fr.refl _))
    have hr0 : ReqOk s0 := ConnFlowP.ReqOk.of_fst_eq heq (h.req.qPop _)
    have hphi0 := qPop_PS_phi h.safe.keys h.qs heq
    have c0 : CoreFr s s0 := .of_fst_eq heq (CoreFr.qPop s _)
    rw [← ret0_of_core (c0 k)] at hphi0
    dsimp only at hc
    -- the three shapes in which the popped stream itself is done with
    have leave : s1 = s0 → ret0 (s0.stream k) = false → PInv s1 ∧ Phi s1 < Phi s := by
      intro e hr; subst e
      rw [hr] at hphi0
      exact ⟨h.next e0 hs0 hr0 hp, by simp at hphi0; omega⟩
    split at hc
    · -- DATA at the head
      next sz eos rest hps =>
      have hne : (s0.stream k).pendingSend ≠ [] := by rw [hps]; exact List.cons_ne_nil _ _
      have hr0' := ret0_false_of_ne hne
      have tail : (if (decide (sz > 0) && (s0.stream k).sendFlow.available.eqUsize 0) = true then some s0
           else if (decide (usizeAsU32 (min (min sz m) (s0.stream k).sendFlow.available.asSize) > 0) &&
                decide (usizeAsU32 (min (min sz m) (s0.stream k).sendFlow.available.asSize) > (s0.stream k).sendFlow.windowSz)) = true
             then some s0 else none) = some s1 → PInv s1 ∧ Phi s1 < Phi s := by
        intro hc
        split at hc
        · cases hc; exact leave rfl hr0'
        · split at hc
          · cases hc; exact leave rfl hr0'
          · cases hc
      cases hg : (s0.stream k).state.getScheduledReset with
      | none =>
        simp only [hg, Bool.false_eq_true, if_false] at hc
        exact tail hc
      | some r =>
        simp only [hg] at hc
        by_cases hrr : (r != NO_ERROR) = true
        · rw [if_pos hrr] at hc
          cases hc
          -- discard: clear_queue, reclaim_all_capacity, push back
          have eA : Ev s0 (s0.clearQueue k) := ConnCountsP.clearQueue_ev _ _
          have eB : Ev (s0.clearQueue k) ((s0.clearQueue k).reclaimAllCapacity k) := ConnCountsP.reclaimAllCapacity_ev _ _
          have eC : Ev ((s0.clearQueue k).reclaimAllCapacity k) (((s0.clearQueue k).reclaimAllCapacity k).qPush .pendingSend k).1 :=
            ConnCountsP.qPush_ev _ _ _ (by decide) (by decide)
          have hpB := Ev.panic_none eC hp
          have hpA := Ev.panic_none eB hpB
          have hp0 := Ev.panic_none eA hpA
          have hsA : SafeInv (s0.clearQueue k) := hs0.fr ((ConnFlowP.Fr.refl _).clearQueue k)
          have hsB : SafeInv ((s0.clearQueue k).reclaimAllCapacity k) := hsA.reclaimAllCapacity k
          have hsC : SafeInv (((s0.clearQueue k).reclaimAllCapacity k).qPush .pendingSend k).1 :=
            hsB.fr ((ConnFlowP.Fr.refl _).qPush _ _)
          have hrA : ReqOk (s0.clearQueue k) := hr0.clearQueue k
          have hrB : ReqOk ((s0.clearQueue k).reclaimAllCapacity k) := hrA.reclaimAllCapacity k
          have hrC : ReqOk (((s0.clearQueue k).reclaimAllCapacity k).qPush .pendingSend k).1 := hrB.qPush _ _
          have i0 := h.next e0 hs0 hr0 hp0
          have iA := i0.next eA hsA hrA hpA
          have iB := iA.next eB hsB hrB hpB
          have iC := iB.next eC hsC hrC hp
          refine ⟨iC, ?_⟩
          obtain ⟨pA, qA, stA⟩ := clearQueue_phi hs0.keys k hne
          have pB := reclaimAll_phi iA k hpB
          have pC := qPush_PS_phi hsB.keys k (s := (s0.clearQueue k).reclaimAllCapacity k)
          have hret : ret0 (((s0.clearQueue k).reclaimAllCapacity k).stream k) = true := by
            rw [ret0_of_core (CoreFr.reclaimAllCapacity (s0.clearQueue k) k k)]
            unfold ret0; rw [qA, stA, hg]; rfl
          rw [hret] at pC
          rw [hr0'] at hphi0
          simp at pC hphi0
          omega
        · rw [if_neg hrr] at hc; exact tail hc
    · cases hc
    · cases hc
    · -- PUSH_PROMISE whose promised stream is gone
      next pk pid fields rest hps =>
      have hne : (s0.stream k).pendingSend ≠ [] := by rw [hps]; exact List.cons_ne_nil _ _
      have hr0' := ret0_false_of_ne hne
      split at hc
      · next hfind =>
        cases hc
        obtain ⟨a, ha⟩ := live_of_ne hne
        have eA : Ev s0 (s0.modStream k fun st => { st with pendingSend := rest }) :=
          ConnCountsP.modStream_ev' _ _ _ (ConnCountsP.popRest_same hps)
        have eB := ConnCountsP.popFrame_finish (ρ := true) k
          (((!((s0.modStream k fun st => { st with pendingSend := rest }).stream k).pendingSend.isEmpty ||
            ((s0.modStream k fun st => { st with pendingSend := rest }).stream k).state.isScheduledReset) = true)) eA
        have hp0 := Ev.panic_none eB hp
        have hsB : SafeInv ((if (!((s0.modStream k fun st => { st with pendingSend := rest }).stream k).pendingSend.isEmpty ||
            ((s0.modStream k fun st => { st with pendingSend := rest }).stream k).state.isScheduledReset) = true then
            ((s0.modStream k fun st => { st with pendingSend := rest }).qPush .pendingSend k).1
            else (s0.modStream k fun st => { st with pendingSend := rest })).transitionAfter k (s0.stream k).isPendingResetExpiration) := by
          refine hs0.fr ?_
          fr_auto
        have hrB : ReqOk ((if (!((s0.modStream k fun st => { st with pendingSend := rest }).stream k).pendingSend.isEmpty ||
            ((s0.modStream k fun st => { st with pendingSend := rest }).stream k).state.isScheduledReset) = true then
            ((s0.modStream k fun st => { st with pendingSend := rest }).qPush .pendingSend k).1
            else (s0.modStream k fun st => { st with pendingSend := rest })).transitionAfter k (s0.stream k).isPendingResetExpiration) := by
          req_auto
        refine ⟨(h.next e0 hs0 hr0 hp0).next eB hsB hrB hp, ?_⟩
        have kA : KeysOk (s0.modStream k fun st => { st with pendingSend := rest }).store := keysOk_modStream hs0.keys _ _
        have pA := (Phi_modStream hs0.keys k (fun st => { st with pendingSend := rest }) (fun _ => rfl)).1 a ha
        have pA' := phi_popRest_le a _ rest (by rw [← stream_of_get ha]; exact hps)
        have pB := ite_qPush_PS_phi ((!((s0.modStream k fun st => { st with pendingSend := rest }).stream k).pendingSend.isEmpty ||
            ((s0.modStream k fun st => { st with pendingSend := rest }).stream k).state.isScheduledReset) = true) kA k
        have kB : KeysOk (if (!((s0.modStream k fun st => { st with pendingSend := rest }).stream k).pendingSend.isEmpty ||
            ((s0.modStream k fun st => { st with pendingSend := rest }).stream k).state.isScheduledReset) = true then
            ((s0.modStream k fun st => { st with pendingSend := rest }).qPush .pendingSend k).1
            else (s0.modStream k fun st => { st with pendingSend := rest })).store := by
          split
          · exact keysOk_of_fr ((ConnFlowP.Fr.refl _).qPush _ _) kA
          · exact kA
        have pC := transitionAfter_phi_le kB k (s0.stream k).isPendingResetExpiration
        rw [hr0'] at hphi0
        simp at hphi0
        omega
      · cases hc
    · -- nothing queued
      next hps =>
      split at hc
      · cases hc
      · next hg =>
        cases hc
        have hr0' : ret0 (s0.stream k) = false := by unfold ret0; rw [hg]; simp
        have eB : Ev s0 (s0.transitionAfter k (s0.stream k).isPendingResetExpiration) :=
          ConnCountsP.transitionAfter_ev _ _ _ (fun hb => hb)
        have hp0 := Ev.panic_none eB hp
        have hsB : SafeInv (s0.transitionAfter k (s0.stream k).isPendingResetExpiration) :=
          hs0.fr ((ConnFlowP.Fr.refl _).transitionAfter _ _)
        have hrB : ReqOk (s0.transitionAfter k (s0.stream k).isPendingResetExpiration) := hr0.transitionAfter _ _
        refine ⟨(h.next e0 hs0 hr0 hp0).next eB hsB hrB hp, ?_⟩
        have pC := transitionAfter_phi_le hs0.keys k (s0.stream k).isPendingResetExpiration
        rw [hr0'] at hphi0
        simp at hphi0
        omega


-- ===================================================================== the model's fuel is enough

/-- **`pop_frame` with more fuel than `Phi` answers `None` only when `pending_send` is empty** -/
theorem popFrame_none_of_phi (n : Nat) : ∀ (s : Streams) (m : Nat) (s' : Streams), PInv s → Phi s < n →
    Streams.popFrame n s m = (s', none) → s'.panicked = none → s'.prio.pendingSend = [] := by
  induction n with
  | zero => intro s m s' _ h; omega
  | succ n ih =>
    intro s m s' h hlt hr hp
    have hr' : popFrameC Stream.sendData (n + 1) s m = (s', none) := by
      rw [← ConnWakeP.popFrameC.eq]; exact hr
    cases hc : popCont s m with
    | none => exact popFrameC_ret _ n s s' m hc hr'
    | some s1 =>
      rw [popFrameC_cont _ n s s1 m hc] at hr'
      have hr1 : Streams.popFrame n s1 m = (s', none) := by rw [ConnWakeP.popFrameC.eq]; exact hr'
      have hp1 : s1.panicked = none :=
        Ev.panic_none (ConnCountsP.popFrame_ev n s1 m) (by rw [hr1]; exact hp)
      obtain ⟨i1, hlt1⟩ := popCont_step h hc hp1
      exact ih s1 m s' i1 (by omega) hr1 hp

theorem get?_of_mem {st : Store} (hn : (st.slab.map (·.key)).Nodup) {x : Stream} (hx : x ∈ st.slab) :
    st.get? x.key = some x := by
  unfold Store.get?
  cases h : st.slab.find? (·.key == x.key) with
  | none =>
    have := List.find?_eq_none.1 h x hx
    simp at this
  | some y =>
    have hy := List.mem_of_find?_eq_some h
    have hk : y.key = x.key := by have := List.find?_some h; simpa using this
    rw [ConnFlowP.key_inj hn hy hx hk]

theorem phiL_le (l : List Stream) :
    phiL l ≤ (l.map (·.pendingSend.length)).sum + 2 * (l.filter (·.isPendingSend)).length + 2 * l.length := by
  induction l with
  | nil => simp [phiL]
  | cons x t ih =>
    simp only [phiL, List.map_cons, List.sum_cons, List.filter_cons, List.length_cons] at ih ⊢
    have hx : phi x ≤ x.pendingSend.length + (if x.isPendingSend then 2 else 0) + 2 := by
      unfold phi
      cases x.isPendingSend <;> cases ret0 x <;> cases x.isPendingSendCapacity <;> simp <;> omega
    cases hf : x.isPendingSend
    · simp only [hf, Bool.false_eq_true, if_false] at hx ⊢; omega
    · simp only [hf, if_true, List.length_cons] at hx ⊢; omega

theorem flagged_le_queue {s : Streams} (hk : KeysOk s.store) (hq : QOK .pendingSend s) :
    (s.store.slab.filter (·.isPendingSend)).length ≤ s.prio.pendingSend.length := by
  have hsub : ∀ k ∈ (s.store.slab.filter (·.isPendingSend)).map (·.key), k ∈ s.prio.pendingSend := by
    intro k hk'
    obtain ⟨x, hx, rfl⟩ := List.mem_map.1 hk'
    have hx' := List.mem_filter.1 hx
    exact (hq.mem x.key).2 ⟨x, get?_of_mem hk.1 hx'.1, hx'.2⟩
  have hnd : ((s.store.slab.filter (·.isPendingSend)).map (·.key)).Nodup :=
    (hk.1.sublist ((List.filter_sublist).map _))
  have := ConnCountsP.nodup_subset_length hnd hsub
  rwa [List.length_map] at this

/-- the measure is below the fuel that `buffer_pending` hands to `pop_frame` -/
theorem Phi_lt_fuel {s : Streams} (h : PInv s) : Phi s < Streams.popFrameFuel s := by
  have h1 := phiL_le s.store.slab
  have h2 := flagged_le_queue h.safe.keys h.qs
  unfold Streams.popFrameFuel Phi
  omega

/-- **the fuel of `pop_frame` suffices**: in a state satisfying the flow and queue invariants (every reachable
    state in which no `assert!` fired), `pop_frame` — called with the fuel `popFrameFuel s` that
    `buffer_pending` passes — answers `None` only when `pending_send` is empty -/
theorem popFrame_none_drains {s s' : Streams} {m : Nat} (h : PInv s)
    (hr : Streams.popFrame (Streams.popFrameFuel s) s m = (s', none)) (hp : s'.panicked = none) :
    s'.prio.pendingSend = [] :=
  popFrame_none_of_phi _ s m s' h (Phi_lt_fuel h) hr hp

end H2V.Lemmas.ConnDrainP
