import H2V.Lemmas.ConnFidPInv
/-
  ConnFidP, part 11 — `Inv` is preserved by every elementary step off the write path (`El.inv`), hence by
  every model function other than `pop_frame` / `reclaim_frame` / `buffer_out` (through the path lemmas of
  ConnFidPFn*.lean).  Side conditions: a message frame is only queued on an entry that was not cut
  (`hpush`; for the API calls this is "a closed stream refuses the call", ConnFidPHist.lean), and the
  `weird` flag stays down.
-/
namespace H2V.Lemmas.ConnFidP
open H2V H2V.Model H2V.Model.Conn H2V.Lemmas.ConnWakeP

def Lbl.isWrite : Lbl → Bool
  | .unpop _ _ => true
  | .mark _ => true
  | _ => false

/-- ghost after an optional label -/
def gstepO (s : Streams) (l : Option Lbl) (g : Ghost) : Ghost :=
  match l with
  | none => g
  | some l => gstep s l g

theorem gstep_emi (s : Streams) (l : Lbl) (g : Ghost) (hl : ∀ k f, l ≠ .pop k f) : (gstep s l g).emi = g.emi := by
  cases l <;> simp only [gstep] <;> (try rfl) <;> (try (split <;> rfl))
  next k f => exact absurd rfl (hl k f)

section
variable {l : Option Lbl} {s s' : Streams} {h : Option DataFrame} {g : Ghost}

/-- off the write path the marker is kept, or the step is a cut of the entry it names (then `Drop`) -/
theorem El.marker_step (e : El l s s') (hw : ∀ l', l = some l' → l'.isWrite = false) :
    marker s' = marker s ∨ (∃ j n, l = some (.cut j n) ∧ marker s = .dataFrame j ∧ marker s' = .drop) := by
  have hm := e.mark
  cases l with
  | none => exact Or.inl hm
  | some l' =>
    cases l' with
    | cut j n =>
      simp only [markEff] at hm
      split at hm
      · next hj => exact Or.inr ⟨j, n, rfl, hj, hm⟩
      · exact Or.inl hm
    | mark m => exact absurd (hw _ rfl) (by simp [Lbl.isWrite])
    | _ => exact Or.inl hm

theorem Coupled.step (e : El l s s') (hw : ∀ l', l = some l' → l'.isWrite = false) (hc : Coupled s h) : Coupled s' h := by
  rcases e.marker_step hw with hm | ⟨j, n, _, hj, hd⟩
  · exact ⟨by rw [hm]; exact hc.nothing, by rw [hm]; exact hc.data⟩
  · obtain ⟨fr, hfr, _⟩ := hc.data j hj
    refine ⟨⟨fun h1 => ?_, fun h1 => ?_⟩, fun i hi => ?_⟩
    · rw [hd] at h1; cases h1
    · rw [hfr] at h1; cases h1
    · rw [hd] at hi; cases hi

/-- the in-flight remainder of `k` across a step off the write path: kept, or dropped by a cut of `k` -/
theorem inflight_step (e : El l s s') (hw : ∀ l', l = some l' → l'.isWrite = false) (hc : Coupled s h) (k : Nat) :
    inflight s' h k = inflight s h k ∨
    (∃ n, l = some (.cut k n) ∧ marker s = .dataFrame k ∧ inflight s' h k = []) := by
  rcases e.marker_step hw with hm | ⟨j, n, hl, hj, hd⟩
  · exact Or.inl (inflight_congr k hm)
  · have h0 : inflight s' h k = [] := inflight_of_marker_ne (by rw [hd]; intro i hi; cases hi)
    by_cases hjk : j = k
    · subst hjk; exact Or.inr ⟨n, hl, hj, h0⟩
    · refine Or.inl ?_
      rw [h0]
      obtain ⟨fr, hfr, hk⟩ := hc.data j hj
      unfold inflight
      rw [hj, hfr]
      simp only
      rw [if_neg]
      intro hx; exact hjk (hk.symm.trans hx.1)

theorem out_congr (k : Nat) (h1 : sq s' k = sq s k) (h2 : inflight s' h k = inflight s h k) : out s' h k = out s h k := by
  unfold out; rw [h1, h2]

theorem sq_absent {k : Nat} (ha : s.store.get? k = none) : sq s k = [] := sq_of_none ha

end

/-- the ghost changes only at entries that exist -/
theorem gstep_other (s : Streams) (l : Lbl) (g : Ghost) (k : Nat) (hk : s.store.get? k = none)
    (hp : ∀ j, l.key? = some j → l.isCut = false → (s.store.get? j).isSome = true) :
    (gstep s l g).acc k = g.acc k ∧ (gstep s l g).cut k = g.cut k ∧ (gstep s l g).emi k = g.emi k := by
  cases l with
  | push j f =>
    simp only [gstep]
    split
    · have : k ≠ j := by
        intro e; subst e
        have := hp k rfl rfl
        rw [hk] at this; cases this
      exact ⟨upd_other _ _ this, rfl, rfl⟩
    · exact ⟨rfl, rfl, rfl⟩
  | pop j f =>
    simp only [gstep]
    split
    · have : k ≠ j := by
        intro e; subst e
        have := hp k rfl rfl
        rw [hk] at this; cases this
      exact ⟨rfl, rfl, upd_other _ _ this⟩
    · exact ⟨rfl, rfl, rfl⟩
  | cut j n =>
    simp only [gstep]
    split
    · next hs =>
      have : k ≠ j := by intro e; subst e; rw [hk] at hs; cases hs
      exact ⟨rfl, upd_other _ _ this, rfl⟩
    · exact ⟨rfl, rfl, rfl⟩
  | gone j =>
    simp only [gstep]
    split
    · next hs =>
      have : k ≠ j := by intro e; subst e; rw [hk] at hs; cases hs
      exact ⟨rfl, upd_other _ _ this, rfl⟩
    · exact ⟨rfl, rfl, rfl⟩
  | _ => exact ⟨rfl, rfl, rfl⟩

/-- a cut flag is never cleared -/
theorem gstep_cut_mono (s : Streams) (l : Lbl) (g : Ghost) (k : Nat) (h : g.cut k = true) : (gstep s l g).cut k = true := by
  cases l <;> simp only [gstep] <;> (try exact h) <;> split <;> (try exact h)
  all_goals (simp only [upd]; split <;> first | rfl | exact h)

theorem gstep_weird_mono (s : Streams) (l : Lbl) (g : Ghost) (h : (gstep s l g).weird = false) : g.weird = false := by
  cases l <;> simp only [gstep] at h <;> (try exact h) <;> split at h <;> (try exact h)
  simp only [Bool.or_eq_false_iff] at h; exact h.1


-- ===================================================================== the refinement clause

section
variable {s s' : Streams} {h : Option DataFrame} {g : Ghost}

/-- the refinement clause of `Inv` for entry `k` across a silent step -/
theorem ref_tau (e : El none s s') (hI : Inv s h g) (k : Nat) :
    ∃ D, Refine (g.emi k ++ msg (out s' h k) ++ D) (g.acc k) ∧ (g.cut k = false → D = []) := by
  have hq : sq s' k = sq s k := by
    rcases e.view k with ⟨hg, _⟩ | ⟨hs, _⟩
    · cases hg
    · exact hs
  have hi : inflight s' h k = inflight s h k := inflight_congr k e.mark
  rw [out_congr k hq hi]; exact hI.ref k

/-- … across a labelled step off the write path -/
theorem ref_lbl (l : Lbl) (e : El (some l) s s') (hw : l.isWrite = false) (hI : Inv s h g)
    (hpush : ∀ k f, l = .push k f → isMsg f = true → g.cut k = false)
    (hweird : (gstep s l g).weird = false) (hpop : ∀ j f, l = .pop j f → h = none) (k : Nat) :
    ∃ D, Refine ((gstep s l g).emi k ++ msg (out s' h k) ++ D) ((gstep s l g).acc k) ∧ ((gstep s l g).cut k = false → D = []) := by
  obtain ⟨D, hR, hD⟩ := hI.ref k
  have hww : ∀ l', some l = some l' → l'.isWrite = false := by intro l' e'; cases e'; exact hw
  have hinf := inflight_step e hww hI.cp k
  cases l with
  | pop j f =>
    have hn := hpop j f rfl
    subst hn
    have ho : ∀ t : Streams, out t none k = sq t k := by intro t; unfold out; rw [inflight_none]; rfl
    rw [ho] at hR ⊢
    by_cases hj : j = k
    · subst hj
      have hv := e.view_pop
      rw [hv] at hR
      by_cases hm : isMsg f = true
      · refine ⟨D, ?_, ?_⟩
        · simp only [gstep, hm, if_true, upd_same]
          rw [msg_cons_msg hm] at hR
          simpa only [List.append_assoc, List.cons_append, List.nil_append] using hR
        · simp only [gstep, hm, if_true]; exact hD
      · have hm' : isMsg f = false := by simpa using hm
        refine ⟨D, ?_, ?_⟩
        · simp only [gstep, hm']
          have : msg (f :: sq s' j) = msg (sq s' j) := by simp [msg, hm']
          rw [this] at hR; exact hR
        · simp only [gstep, hm']; exact hD
    · have hs : sq s' k = sq s k := by
        rcases e.view k with ⟨hg, _⟩ | ⟨hs, _⟩
        · cases hg
        · simp only [sendEff, hj, if_false] at hs; exact hs
      rw [hs]
      have hk : k ≠ j := fun e' => hj e'.symm
      refine ⟨D, ?_, ?_⟩
      · simp only [gstep]; split
        · simp only [upd_other _ _ hk]; exact hR
        · exact hR
      · simp only [gstep]; split <;> exact hD
  | push j f =>
    rw [gstep_emi _ _ _ (by intro _ _ e'; cases e')]
    have hi : inflight s' h k = inflight s h k := by
      rcases hinf with hi | ⟨n, hl, _⟩
      · exact hi
      · cases hl
    rcases e.view k with ⟨hg, _⟩ | ⟨hs, _⟩
    · cases hg
    · by_cases hj : j = k
      · subst hj
        simp only [sendEff, if_true] at hs
        have ho : out s' h j = out s h j ++ [f] := by unfold out; rw [hi, hs, List.append_assoc]
        rw [ho, msg_append]
        by_cases hm : isMsg f = true
        · have hc := hpush j f rfl hm
          have hD0 := hD hc
          subst hD0
          refine ⟨[], ?_, fun _ => rfl⟩
          simp only [gstep, hm, if_true, upd_same, List.append_nil] at hR ⊢
          have : msg [f] = [f] := by simp [msg, hm]
          rw [this, ← List.append_assoc]
          exact hR.snoc f
        · have hm' : isMsg f = false := by simpa using hm
          have : msg [f] = [] := by simp [msg, hm']
          simp only [gstep, hm', this, List.append_nil]
          exact ⟨D, hR, hD⟩
      · simp only [sendEff, hj, if_false] at hs
        rw [out_congr k hs hi]
        have hk : k ≠ j := fun e' => hj e'.symm
        refine ⟨D, ?_, ?_⟩
        · simp only [gstep]; split
          · simp only [upd_other _ _ hk]; exact hR
          · exact hR
        · simp only [gstep]; split <;> exact hD
  | cut j n =>
    rw [gstep_emi _ _ _ (by intro _ _ e'; cases e')]
    rcases e.view k with ⟨hg, _⟩ | ⟨hs, _⟩
    · cases hg
    · by_cases hj : j = k
      · subst hj
        simp only [sendEff, if_true] at hs
        cases hp : s.store.get? j with
        | some a =>
          have hcut : (gstep s (.cut j n) g).cut j = true := by simp [gstep, hp]
          have hacc : (gstep s (.cut j n) g).acc j = g.acc j := by simp [gstep, hp]
          rw [hacc]
          rcases hinf with hi | ⟨n', hl, hmk, hi⟩
          · -- the marker does not name `j`: the in-flight part is kept, the queue keeps its first `n` frames
            refine ⟨msg ((sq s j).drop n) ++ D, ?_, fun hc => by rw [hcut] at hc; cases hc⟩
            have : msg (out s' h j) ++ (msg ((sq s j).drop n) ++ D) = msg (out s h j) ++ D := by
              unfold out
              rw [hi, hs, msg_append, msg_append, msg_take_drop (sq s j) n]
              simp only [List.append_assoc]
            rw [List.append_assoc, this, ← List.append_assoc]; exact hR
          · -- the marker names `j`: everything of `j` is dropped (n = 0, or the `weird` flag goes up)
            cases hl
            have hn : n = 0 := by
              simp only [gstep, hp, Option.isSome_some, if_true, Bool.or_eq_false_iff, Bool.and_eq_false_iff,
                decide_eq_false_iff_not] at hweird
              rcases hweird.2 with h1 | h1
              · omega
              · exact absurd hmk h1
            subst hn
            refine ⟨msg (out s h j) ++ D, ?_, fun hc => by rw [hcut] at hc; cases hc⟩
            have : out s' h j = [] := by unfold out; rw [hi, hs]; rfl
            rw [this, msg_nil, List.append_nil, ← List.append_assoc]; exact hR
        | none =>
          have hg' : gstep s (.cut j n) g = g := by simp [gstep, hp]
          rw [hg']
          have hsq : sq s j = [] := sq_of_none hp
          have hsq' : sq s' j = [] := by rw [hs, hsq]; simp
          rcases hinf with hi | ⟨n', _, _, hi⟩
          · have : out s' h j = out s h j := by unfold out; rw [hi, hsq, hsq']
            rw [this]; exact ⟨D, hR, hD⟩
          · by_cases h0 : inflight s h j = []
            · have : out s' h j = out s h j := by unfold out; rw [hi, h0, hsq, hsq']
              rw [this]; exact ⟨D, hR, hD⟩
            · -- a remainder of an entry that no longer exists: it was cut (removed) before
              have hc : g.cut j = true := by
                rcases hI.infl j h0 with hpres | hc
                · rw [hp] at hpres; cases hpres
                · exact hc
              refine ⟨msg (out s h j) ++ D, ?_, fun hc' => by rw [hc] at hc'; cases hc'⟩
              have : out s' h j = [] := by unfold out; rw [hi, hsq']; rfl
              rw [this, msg_nil, List.append_nil, ← List.append_assoc]; exact hR
      · simp only [sendEff, hj, if_false] at hs
        have hi : inflight s' h k = inflight s h k := by
          rcases hinf with hi | ⟨n', hl, _⟩
          · exact hi
          · cases hl; exact absurd rfl hj
        rw [out_congr k hs hi]
        have hk : k ≠ j := fun e' => hj e'.symm
        refine ⟨D, ?_, ?_⟩
        · simp only [gstep]; split <;> exact hR
        · simp only [gstep]; split
          · simp only [upd_other _ _ hk]; exact hD
          · exact hD
  | gone j =>
    rw [gstep_emi _ _ _ (by intro _ _ e'; cases e')]
    have hi : inflight s' h k = inflight s h k := by
      rcases hinf with hi | ⟨n, hl, _⟩
      · exact hi
      · cases hl
    by_cases hj : j = k
    · subst hj
      cases hp : s.store.get? j with
      | some a =>
        have hcut : (gstep s (.gone j) g).cut j = true := by simp [gstep, hp]
        have hacc : (gstep s (.gone j) g).acc j = g.acc j := by simp [gstep, hp]
        rw [hacc]
        rcases e.view j with ⟨_, hn⟩ | ⟨hs, _⟩
        · refine ⟨msg (sq s j) ++ D, ?_, fun hc => by rw [hcut] at hc; cases hc⟩
          have : msg (out s' h j) ++ (msg (sq s j) ++ D) = msg (out s h j) ++ D := by
            unfold out
            rw [hi, sq_of_none hn, msg_append, msg_append]
            simp only [msg_nil, List.append_nil, List.append_assoc]
          rw [List.append_assoc, this, ← List.append_assoc]; exact hR
        · simp only [sendEff] at hs
          rw [out_congr j hs hi]
          exact ⟨D, hR, fun hc => by rw [hcut] at hc; cases hc⟩
      | none =>
        have hg' : gstep s (.gone j) g = g := by simp [gstep, hp]
        rw [hg']
        have hsq : sq s j = [] := sq_of_none hp
        have hsq' : sq s' j = [] := by
          rcases e.view j with ⟨_, hn⟩ | ⟨hs, _⟩
          · exact sq_of_none hn
          · simp only [sendEff] at hs; rw [hs, hsq]
        rw [out_congr j (hsq'.trans hsq.symm) hi]; exact ⟨D, hR, hD⟩
    · have hs : sq s' k = sq s k := by
        rcases e.view k with ⟨hg, _⟩ | ⟨hs, _⟩
        · cases hg; exact absurd rfl hj
        · exact hs
      rw [out_congr k hs hi]
      have hk : k ≠ j := fun e' => hj e'.symm
      refine ⟨D, ?_, ?_⟩
      · simp only [gstep]; split <;> exact hR
      · simp only [gstep]; split
        · simp only [upd_other _ _ hk]; exact hD
        · exact hD
  | unpop j f => simp [Lbl.isWrite] at hw
  | mark m => simp [Lbl.isWrite] at hw
  | rpush j ev =>
    rw [gstep_emi _ _ _ (by intro _ _ e'; cases e')]
    have hi : inflight s' h k = inflight s h k := by
      rcases hinf with hi | ⟨n, hl, _⟩
      · exact hi
      · cases hl
    have hs : sq s' k = sq s k := by
      rcases e.view k with ⟨hg, _⟩ | ⟨hs, _⟩
      · cases hg
      · exact hs
    rw [out_congr k hs hi]; exact ⟨D, hR, hD⟩
  | rpop j ev =>
    rw [gstep_emi _ _ _ (by intro _ _ e'; cases e')]
    have hi : inflight s' h k = inflight s h k := by
      rcases hinf with hi | ⟨n, hl, _⟩
      · exact hi
      · cases hl
    have hs : sq s' k = sq s k := by
      rcases e.view k with ⟨hg, _⟩ | ⟨hs, _⟩
      · cases hg
      · exact hs
    rw [out_congr k hs hi]; exact ⟨D, hR, hD⟩
  | rclear j =>
    rw [gstep_emi _ _ _ (by intro _ _ e'; cases e')]
    have hi : inflight s' h k = inflight s h k := by
      rcases hinf with hi | ⟨n, hl, _⟩
      · exact hi
      · cases hl
    have hs : sq s' k = sq s k := by
      rcases e.view k with ⟨hg, _⟩ | ⟨hs, _⟩
      · cases hg
      · exact hs
    rw [out_congr k hs hi]; exact ⟨D, hR, hD⟩


/-- **`Inv` across one elementary step off the write path** -/
theorem El.inv (lo : Option Lbl) (e : El lo s s') (hw : ∀ l, lo = some l → l.isWrite = false) (hI : Inv s h g)
    (hpush : ∀ k f, lo = some (.push k f) → isMsg f = true → g.cut k = false)
    (hweird : (gstepO s lo g).weird = false) (hpop : ∀ j f, lo = some (.pop j f) → h = none) :
    Inv s' h (gstepO s lo g) := by
  -- the ghost at a key that has no entry
  have hgo : ∀ k, s.store.get? k = none → (gstepO s lo g).acc k = g.acc k ∧ (gstepO s lo g).cut k = g.cut k ∧
      (gstepO s lo g).emi k = g.emi k := by
    intro k hk
    cases lo with
    | none => exact ⟨rfl, rfl, rfl⟩
    | some l => exact gstep_other s l g k hk (fun j hj hc => e.pres l j rfl hj hc)
  refine ⟨e.keysBelow hI.kb, Coupled.step e hw hI.cp, ?_, ?_, ?_, ?_, ?_, ?_⟩
  · intro k hk
    rcases inflight_step e hw hI.cp k with hi | ⟨_, _, _, hi⟩
    · rw [hi] at hk; exact Nat.lt_of_lt_of_le (hI.inflLt k hk) e.nk
    · exact absurd hi hk
  · intro k hk
    have hk0 : s.store.nextKey ≤ k := Nat.le_trans e.nk hk
    obtain ⟨h1, h2, h3⟩ := hI.ghostKey k hk0
    have hab : s.store.get? k = none := by
      cases ha : s.store.get? k with
      | none => rfl
      | some a => exact absurd (hI.kb k a ha) (Nat.not_lt.mpr hk0)
    obtain ⟨e1, e2, e3⟩ := hgo k hab
    exact ⟨e1.trans h1, e3.trans h2, e2.trans h3⟩
  · intro k
    cases lo with
    | none => exact ref_tau e hI k
    | some l =>
      exact ref_lbl l e (hw l rfl) hI (fun k f hl => hpush k f (by rw [hl])) hweird (fun j f hl => hpop j f (by rw [hl])) k
  · intro k hc b hb
    rcases e.back hb with ⟨a, ha, es⟩ | ⟨hn, hk⟩
    · by_cases hg : g.cut k = true
      · exact es.closed (hI.closed k hg a ha)
      · -- newly cut: the label is `cut k _` (the step checks that the entry is closed) or `gone k` (then it is gone)
        cases lo with
        | none => exact absurd hc hg
        | some l =>
          cases l with
          | cut j n =>
            by_cases hj : j = k
            · subst hj
              have := es.side
              simp only [sideOk] at this
              exact this (by rw [es.key]; exact (Store.get?_key ha).symm)
            · simp only [gstepO, gstep] at hc
              split at hc
              · have : upd g.cut j true k = g.cut k := upd_other _ _ (fun e' => hj e'.symm)
                exact absurd (this ▸ hc) hg
              · exact absurd hc hg
          | gone j =>
            by_cases hj : j = k
            · subst hj
              have := e.goneAbs j rfl
              rw [hb] at this; cases this
            · simp only [gstepO, gstep] at hc
              split at hc
              · have : upd g.cut j true k = g.cut k := upd_other _ _ (fun e' => hj e'.symm)
                exact absurd (this ▸ hc) hg
              · exact absurd hc hg
          | push j f => simp only [gstepO, gstep] at hc; split at hc <;> exact absurd hc hg
          | pop j f => simp only [gstepO, gstep] at hc; split at hc <;> exact absurd hc hg
          | _ => exact absurd hc hg
    · have := (hgo k hn).2.1
      rw [this, (hI.ghostKey k hk).2.2] at hc; cases hc
  · intro k hk
    have hk0 : inflight s h k ≠ [] := by
      rcases inflight_step e hw hI.cp k with hi | ⟨_, _, _, hi⟩
      · rw [hi] at hk; exact hk
      · exact absurd hi hk
    rcases hI.infl k hk0 with hp | hc
    · obtain ⟨a, ha⟩ := Option.isSome_iff_exists.mp hp
      rcases e.keep k a ha with ⟨b, hb, _⟩ | ⟨_, hl⟩
      · exact Or.inl (by rw [hb]; rfl)
      · subst hl
        exact Or.inr (by simp [gstepO, gstep, ha])
    · refine Or.inr ?_
      cases lo with
      | none => exact hc
      | some l => exact gstep_cut_mono s l g k hc
  · intro k hk
    -- something emitted from `k`: before this step (then `k` exists or was cut), or by this very pop (then it exists)
    have hpre : (s.store.get? k).isSome = true ∨ g.cut k = true := by
      by_cases h0 : g.emi k = []
      · cases lo with
        | none => exact absurd h0 hk
        | some l =>
          cases l with
          | pop j f =>
            by_cases hj : j = k
            · subst hj; exact Or.inl (e.pres _ j rfl rfl rfl)
            · exfalso; apply hk
              simp only [gstepO, gstep]
              split
              · show upd g.emi j (g.emi j ++ [f]) k = []
                rw [upd_other _ _ (fun e' => hj e'.symm)]; exact h0
              · exact h0
          | _ =>
            exfalso; apply hk
            simp only [gstepO]
            rw [gstep_emi _ _ _ (by intro _ _ e'; cases e')]; exact h0
      · exact hI.live k h0
    rcases hpre with hp | hc
    · obtain ⟨a, ha⟩ := Option.isSome_iff_exists.mp hp
      rcases e.keep k a ha with ⟨b, hb, _⟩ | ⟨_, hl⟩
      · exact Or.inl (by rw [hb]; rfl)
      · subst hl
        exact Or.inr (by simp [gstepO, gstep, ha])
    · refine Or.inr ?_
      cases lo with
      | none => exact hc
      | some l => exact gstep_cut_mono s l g k hc

end
end H2V.Lemmas.ConnFidP
