import H2V.Lemmas.ConnResetPSpec
import H2V.Lemmas.ConnCountsPQueueR
import H2V.Lemmas.ConnPartPGaClosure
import H2V.Lemmas.ConnPartPRstFlag
/-
  ConnPartP, part 6 — C09: after a stream-level error of the receive path the RST_STREAM is OWED.
  `Actions::reset_on_recv_stream_err` (the in-place dispatcher of `Inner::recv_headers/recv_data/
  recv_window_update/recv_push_promise`) and `Actions::send_reset` (what `Inner::send_reset` runs for the
  stream errors that travel up to `handle_poll2_result`) are the same three calls after the quota check:
      send.send_reset(reason, initiator, …); recv.enqueue_reset_expiration(stream); stream.notify_recv()
  (`resetCore`).  On a stream that is not reset yet and not (closed with nothing unsent) they leave the
  entry closed with `Reset(id, reason, initiator)`, its queue = [RST_STREAM(reason)] (after the HEADERS
  when the stream still waits in `pending_open`), linked in the connection's `pending_send` queue when it
  is send-ready; every other entry keeps key, id, state, queue and handle count.
-/
set_option linter.unusedSectionVars false
namespace H2V.Lemmas.ConnPartP
open H2V H2V.Model H2V.Model.Conn H2V.Lemmas.ConnResetP

/-- what follows the quota check in `reset_on_recv_stream_err` and in `Actions::send_reset` -/
def resetCore (s : Streams) (k : Nat) (reason : Reason) (init : Initiator) : Streams :=
  ((s.sendSendReset k reason init).enqueueResetExpiration k).modStreamW k Stream.notifyRecv

theorem resetOnRecvStreamErr_ok (s : Streams) (k sid : Nat) (reason : Reason) (init : Initiator)
    (hq : s.counts.canIncNumLocalErrorResets = true) :
    s.resetOnRecvStreamErr k (.error (.reset sid reason init)) =
      (resetCore (s.modCountsA "can_inc_num_local_error_resets" Counts.incNumLocalErrorResets) k reason init, .ok ()) := by
  unfold Streams.resetOnRecvStreamErr resetCore
  simp only [hq, if_true]

/-- the tail of `resetCore` after the stream has been reset and its RST_STREAM queued -/
theorem coreTail_frame (x : Streams) (id : Nat) :
    Evolves CoreEq (fun _ => True) x.store
      (((x.reclaimAllCapacity id).enqueueResetExpiration id).modStreamW id Stream.notifyRecv).store := by
  have h : Evolves CoreEq (fun _ => True) x.store x.store := Evolves.refl _
  ev

/-- the three clauses of `ConnResetP.refSendReset_spec`, for any continuation of `sendResetPre` that
    only moves core fields of no stream and removes nothing that has a queued frame -/
theorem reset_spec_of_tail (s : Streams) (id : Nat) (r : Reason) (i : Initiator) (st : Stream)
    (hkb : KeysBelow s.store) (hg : s.store.get? id = some st) (fin : Streams)
    (ev : Evolves CoreEq (fun _ => True) (sendResetPre s id r i).store fin.store) :
    (∃ st', fin.store.get? id = some st' ∧ st'.id = st.id ∧
        st'.state = ⟨.closed (.error (.reset st.id r i))⟩ ∧
        st'.pendingSend = (if st.isPendingOpen then st.pendingSend.head?.toList else []) ++ [.reset r]) ∧
    (∀ k st'', k ≠ id → k < s.store.nextKey → fin.store.get? k = some st'' →
        ∃ st0, s.store.get? k = some st0 ∧ CoreEq st0 st'') ∧
    (∀ k st0, k ≠ id → s.store.get? k = some st0 → st0.pendingSend ≠ [] →
        ∃ st'', fin.store.get? k = some st'' ∧ CoreEq st0 st'') := by
  obtain ⟨G, hG, hGk, hspec⟩ := sendResetPre_store s id r i
  have sp := hspec st hg
  rw [hG] at ev
  have hnk : (Store.mod s.store id G).nextKey = s.store.nextKey := Store.nextKey_mod _ _ _
  have hget : ∀ k, (Store.mod s.store id G).get? k = if k = id then (s.store.get? id).map G else s.store.get? k :=
    fun k => Store.get?_mod' _ _ _ hGk k
  refine ⟨?_, ?_, ?_⟩
  · have h3 : (Store.mod s.store id G).get? id = some (G st) := by rw [hget, if_pos rfl, hg]; rfl
    rcases ev.fwd id (G st) h3 (by rw [hnk]; exact hkb id st hg) with ⟨st', h', c⟩ | ⟨st'', c, d⟩
    · refine ⟨st', h', c.id.trans sp.id, ?_, ?_⟩
      · rw [c.state, sp.state]; rfl
      · rw [c.pendingSend, sp.pendingSend]
    · exfalso
      have : (G st).pendingSend = [] := by rw [← c.pendingSend]; exact d.1
      rw [sp.pendingSend] at this
      simp at this
  · intro k st'' hk hlt' h'
    rcases ev.back k st'' h' with ⟨st0, h0, c⟩ | ⟨hge, _, _⟩
    · rw [hget, if_neg hk] at h0; exact ⟨st0, h0, c⟩
    · exfalso; rw [hnk] at hge; omega
  · intro k st0 hk h0 hq
    have h3 : (Store.mod s.store id G).get? k = some st0 := by rw [hget, if_neg hk]; exact h0
    rcases ev.fwd k st0 h3 (by rw [hnk]; exact hkb k st0 h0) with ⟨st', h', c⟩ | ⟨st'', c, d⟩
    · exact ⟨st', h', c⟩
    · exfalso; apply hq; rw [← c.pendingSend]; exact d.1

-- ===================================================================== the reset stream is scheduled

/-- `sendResetPre` without its last step (`queue_frame(RST_STREAM)`) -/
def sendResetHead (s : Streams) (id : Nat) (reason : Reason) (init : Initiator) : Streams :=
  let s := s.modStreamW id fun st => st.setReset reason init
  if (s.stream id).isPendingOpen then
    let headers := (s.stream id).pendingSend.head?
    let s := s.modStream id fun st => { st with pendingSend := st.pendingSend.drop 1 }
    let s := s.clearQueue id
    match headers with
    | some f => s.modStream id fun st => { st with pendingSend := st.pendingSend ++ [f] }
    | none => s
  else s.clearQueue id

theorem sendResetPre_eq_head (s : Streams) (id : Nat) (r : Reason) (i : Initiator) :
    sendResetPre s id r i = (sendResetHead s id r i).queueFrame id (.reset r) := rfl

theorem y_sendResetHead {s0 s : Streams} (id : Nat) (r : Reason) (i : Initiator) (h : YS s0 s) :
    YS s0 (sendResetHead s id r i) := by
  unfold sendResetHead; tear_grind

/-- after `resetCore` a send-ready stream is linked in `pending_send` -/
theorem resetCore_flag (x : Streams) (k : Nat) (r : Reason) (i : Initiator) (st : Stream)
    (hg : x.store.get? k = some st) (hr : st.state.isReset = false)
    (hne : (st.state.isClosed && (st.pendingSend.isEmpty && st.bufferedSendData == 0)) = false)
    (hrdy : st.isSendReady = true) :
    ∃ y, (resetCore x k r i).store.get? k = some y ∧ y.isPendingSend = true := by
  have hs : x.stream k = st := stream_of_get? _ hg
  unfold resetCore
  rw [sendSendReset_eq x k r i (by rw [hs]; exact hr) (by rw [hs]; exact hne), sendResetPre_eq_head]
  -- the head keeps the stream send-ready
  obtain ⟨x1, hx1, hr1⟩ : ∃ x1, (sendResetHead x k r i).store.get? k = some x1 ∧ Rdy st x1 := by
    rcases (y_sendResetHead k r i (ConnWakeP.GStep.refl x)).keep k st hg with ⟨f, _⟩ | h
    · exact f.elim
    · exact h
  obtain ⟨y, hy, hf⟩ := queueFrame_flag (s := sendResetHead x k r i) k (.reset r) x1 hx1 (by rw [hr1.isSendReady]; exact hrdy)
  -- the tail keeps the link
  have htail : YS ((sendResetHead x k r i).queueFrame k (.reset r))
      (((((sendResetHead x k r i).queueFrame k (.reset r)).reclaimAllCapacity k).enqueueResetExpiration k).modStreamW k
        Stream.notifyRecv) :=
    ConnWakeP.g_modStreamW k _ (rdy_notifyRecv _) (y_enqueueResetExpiration k (y_reclaimAllCapacity k (ConnWakeP.GStep.refl _)))
  rcases htail.keep k y hy with ⟨f, _⟩ | ⟨y', hy', hyy⟩
  · exact f.elim
  · exact ⟨y', hy', hyy.isPendingSend hf⟩

/-- `transition_after` keeps the link of an entry it does not remove -/
theorem transitionAfter_flag (t : Streams) (k : Nat) (b : Bool) (y c : Stream) (hy : t.store.get? k = some y)
    (hf : y.isPendingSend = true) (hc : (t.transitionAfter k b).store.get? k = some c) : c.isPendingSend = true := by
  rcases (transitionAfter_get? t k b).2 with hn | ⟨a, c', ha, hc', hac⟩
  · rw [hn] at hc; cases hc
  · rw [hy] at ha; cases ha
    rw [hc'] at hc; cases hc
    have : c.isPendingSend = y.isPendingSend := by
      have e := congrArg Stream.isPendingSend hac; exact e
    rw [this]; exact hf

/-- a linked entry is in the queue, in a state whose `pending_send` queue is consistent -/
theorem mem_pendingSend_of_flag {s' : Streams} (hq : ConnCountsP.QOK .pendingSend s') {k : Nat} {y : Stream}
    (hy : s'.store.get? k = some y) (hf : y.isPendingSend = true) : k ∈ s'.prio.pendingSend :=
  (hq.mem k).mpr ⟨y, hy, hf⟩

end H2V.Lemmas.ConnPartP
