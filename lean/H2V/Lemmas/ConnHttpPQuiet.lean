import H2V.Lemmas.ConnHttpPStore
/-
  C13 (ConnHttpP), part 9 — the bookkeeping functions of the stream layer are `Quiet`: queues, counters,
  capacity assignment, reset, `transition_after`, … never put anything into a receive queue.
  Every lemma comes in continuation form `Quiet s0 s → Quiet s0 (s.f …)` so that `apply` peels one model
  function after the other off the goal.
-/
namespace H2V.Lemmas.ConnHttpP
open H2V H2V.Model H2V.Model.Conn

/-- one step of the `Quiet` prover; extended by `macro_rules` as lemmas become available (later rules
    are tried first) -/
syntax "quiet_step" : tactic
macro "quiet" : tactic => `(tactic| repeat quiet_step)

macro_rules | `(tactic| quiet_step) => `(tactic| split)
macro_rules | `(tactic| quiet_step) => `(tactic| with_reducible apply Quiet.ite)
macro_rules | `(tactic| quiet_step) => `(tactic| exact fun st => ⟨rfl, Or.inr rfl⟩)
macro_rules | `(tactic| quiet_step) => `(tactic| exact fun st => ⟨rfl, Or.inl rfl⟩)

theorem Quiet.modStream {s0 s : Streams} {f : Stream → Stream} (hf : Keeps f) (h : Quiet s0 s) (k : Nat) :
    Quiet s0 (s.modStream k f) := h.trans (quiet_modStream _ _ _ hf)
macro_rules | `(tactic| quiet_step) => `(tactic| with_reducible apply Quiet.modStream)

theorem keeps_setQueued (q : QName) (v : Bool) : Keeps fun st => st.setQueued q v := by
  intro st; cases q <;> exact ⟨rfl, Or.inl rfl⟩
macro_rules | `(tactic| quiet_step) => `(tactic| exact keeps_setQueued _ _)

theorem Quiet.panic {s0 s : Streams} (h : Quiet s0 s) (m : String) : Quiet s0 (s.panic m) :=
  h.trans (quiet_of_slab (by rw [panic_store]))
macro_rules | `(tactic| quiet_step) => `(tactic| with_reducible apply Quiet.panic)

theorem Quiet.unsup {s0 s : Streams} (h : Quiet s0 s) (m : String) : Quiet s0 (s.unsup m) := by
  unfold Streams.unsup; split <;> exact h.trans (quiet_of_slab rfl)
macro_rules | `(tactic| quiet_step) => `(tactic| with_reducible apply Quiet.unsup)

theorem Quiet.wake {s0 s : Streams} (h : Quiet s0 s) (t : List String) : Quiet s0 (s.wake t) :=
  h.trans (quiet_of_slab rfl)
macro_rules | `(tactic| quiet_step) => `(tactic| with_reducible apply Quiet.wake)

theorem Quiet.modPrio {s0 s : Streams} (h : Quiet s0 s) (f : Prioritize → Prioritize) : Quiet s0 (s.modPrio f) :=
  h.trans (quiet_of_slab rfl)
macro_rules | `(tactic| quiet_step) => `(tactic| with_reducible apply Quiet.modPrio)
theorem Quiet.modSend {s0 s : Streams} (h : Quiet s0 s) (f : Send → Send) : Quiet s0 (s.modSend f) :=
  h.trans (quiet_of_slab rfl)
macro_rules | `(tactic| quiet_step) => `(tactic| with_reducible apply Quiet.modSend)
theorem Quiet.modRecv {s0 s : Streams} (h : Quiet s0 s) (f : Recv → Recv) : Quiet s0 (s.modRecv f) :=
  h.trans (quiet_of_slab rfl)
macro_rules | `(tactic| quiet_step) => `(tactic| with_reducible apply Quiet.modRecv)
theorem Quiet.modCounts {s0 s : Streams} (h : Quiet s0 s) (f : Counts → Counts) : Quiet s0 (s.modCounts f) :=
  h.trans (quiet_of_slab rfl)
macro_rules | `(tactic| quiet_step) => `(tactic| with_reducible apply Quiet.modCounts)

theorem Quiet.modCountsA {s0 s : Streams} (h : Quiet s0 s) (w : String) (f : Counts → Option Counts) :
    Quiet s0 (s.modCountsA w f) := by
  unfold Streams.modCountsA
  split
  · exact h.trans (quiet_of_slab rfl)
  · exact h.panic _
macro_rules | `(tactic| quiet_step) => `(tactic| with_reducible apply Quiet.modCountsA)

theorem Quiet.setQ {s0 s : Streams} (h : Quiet s0 s) (q : QName) (l : List Nat) : Quiet s0 (s.setQ q l) := by
  cases q <;> exact h.trans (quiet_of_slab rfl)
macro_rules | `(tactic| quiet_step) => `(tactic| with_reducible apply Quiet.setQ)

theorem Quiet.qPush {s0 s : Streams} (h : Quiet s0 s) (q : QName) (id : Nat) : Quiet s0 (s.qPush q id).1 := by
  unfold Streams.qPush
  split
  · exact h
  · exact (h.modStream (keeps_setQueued q true) _).setQ _ _
macro_rules | `(tactic| quiet_step) => `(tactic| with_reducible apply Quiet.qPush)

theorem Quiet.qPushFront {s0 s : Streams} (h : Quiet s0 s) (q : QName) (id : Nat) : Quiet s0 (s.qPushFront q id).1 := by
  unfold Streams.qPushFront
  split
  · exact h
  · exact (h.modStream (keeps_setQueued q true) _).setQ _ _
macro_rules | `(tactic| quiet_step) => `(tactic| with_reducible apply Quiet.qPushFront)

theorem Quiet.qPop {s0 s : Streams} (h : Quiet s0 s) (q : QName) : Quiet s0 (s.qPop q).1 := by
  unfold Streams.qPop
  split
  · exact h
  · exact (h.setQ _ _).modStream (keeps_setQueued q false) _
macro_rules | `(tactic| quiet_step) => `(tactic| with_reducible apply Quiet.qPop)

theorem Quiet.notifyTask {s0 s : Streams} (h : Quiet s0 s) : Quiet s0 s.notifyTask := by
  unfold Streams.notifyTask
  split
  · exact h.trans (quiet_of_slab rfl)
  · exact h
macro_rules | `(tactic| quiet_step) => `(tactic| with_reducible apply Quiet.notifyTask)

macro_rules | `(tactic| quiet_step) => `(tactic| with_reducible exact Quiet.refl _)
macro_rules | `(tactic| quiet_step) => `(tactic| assumption)

theorem Quiet.scheduleSend {s0 s : Streams} (h : Quiet s0 s) (id : Nat) : Quiet s0 (s.scheduleSend id) := by
  unfold Streams.scheduleSend
  quiet
macro_rules | `(tactic| quiet_step) => `(tactic| with_reducible apply Quiet.scheduleSend)

/-! ### stream methods that wake tasks -/

theorem keeps_notifySend : Keeps fun st => (Stream.notifySend st).1 := by
  intro st
  simp only [Stream.notifySend]
  cases h1 : st.sendTask <;> cases h2 : st.openTask <;> simp
theorem keeps_notifyRecv : Keeps fun st => (Stream.notifyRecv st).1 := by
  intro st; simp only [Stream.notifyRecv]
  cases h : st.recvTask <;> simp
theorem keeps_notifyPush : Keeps fun st => (Stream.notifyPush st).1 := by
  intro st; simp only [Stream.notifyPush]
  cases h : st.pushTask <;> simp
theorem Keeps.comp {f g : Stream → Stream} (hf : Keeps f) (hg : Keeps g) : Keeps fun st => g (f st) := by
  intro st
  refine ⟨(hg (f st)).1.trans (hf st).1, ?_⟩
  rcases (hg (f st)).2 with e | e
  · rcases (hf st).2 with e' | e'
    · exact Or.inl (e.trans e')
    · exact Or.inr (e.trans e')
  · exact Or.inr e
theorem keeps_notifyCapacity : Keeps fun st => (Stream.notifyCapacity st).1 :=
  Keeps.comp (f := fun st => { st with sendCapacityInc := true }) (fun _ => ⟨rfl, Or.inl rfl⟩) keeps_notifySend
theorem keeps_assignCapacity (c m : Nat) : Keeps fun st => (Stream.assignCapacity st c m).1 := by
  intro st
  simp only [Stream.assignCapacity]
  split
  · exact keeps_notifyCapacity { st with sendFlow := (st.sendFlow.assignCapacity c).1 }
  · exact ⟨rfl, Or.inl rfl⟩
theorem keeps_setReset (r : Reason) (i : Initiator) : Keeps fun st => (Stream.setReset st r i).1 :=
  Keeps.comp (Keeps.comp (Keeps.comp (f := fun st => { st with state := st.state.setReset st.id r i })
    (fun _ => ⟨rfl, Or.inl rfl⟩) keeps_notifySend) keeps_notifyPush) keeps_notifyRecv


theorem Quiet.modStreamW {s0 s : Streams} {f : Stream → Stream × List String} (hf : Keeps fun st => (f st).1)
    (h : Quiet s0 s) (k : Nat) : Quiet s0 (s.modStreamW k f) := h.trans (quiet_modStreamW _ _ _ hf)

theorem Quiet.mw_notifySend {s0 s : Streams} (h : Quiet s0 s) (k : Nat) : Quiet s0 (s.modStreamW k Stream.notifySend) :=
  h.modStreamW keeps_notifySend k
theorem Quiet.mw_notifyRecv {s0 s : Streams} (h : Quiet s0 s) (k : Nat) : Quiet s0 (s.modStreamW k Stream.notifyRecv) :=
  h.modStreamW keeps_notifyRecv k
theorem Quiet.mw_notifyPush {s0 s : Streams} (h : Quiet s0 s) (k : Nat) : Quiet s0 (s.modStreamW k Stream.notifyPush) :=
  h.modStreamW keeps_notifyPush k
theorem Quiet.mw_assignCapacity {s0 s : Streams} (h : Quiet s0 s) (k c m : Nat) :
    Quiet s0 (s.modStreamW k fun st => st.assignCapacity c m) := h.modStreamW (keeps_assignCapacity c m) k
theorem Quiet.mw_setReset {s0 s : Streams} (h : Quiet s0 s) (k : Nat) (r : Reason) (i : Initiator) :
    Quiet s0 (s.modStreamW k fun st => st.setReset r i) := h.modStreamW (keeps_setReset r i) k

macro_rules | `(tactic| quiet_step) => `(tactic| with_reducible apply Quiet.mw_notifySend)
macro_rules | `(tactic| quiet_step) => `(tactic| with_reducible apply Quiet.mw_notifyRecv)
macro_rules | `(tactic| quiet_step) => `(tactic| with_reducible apply Quiet.mw_notifyPush)
macro_rules | `(tactic| quiet_step) => `(tactic| with_reducible apply Quiet.mw_assignCapacity)
macro_rules | `(tactic| quiet_step) => `(tactic| with_reducible apply Quiet.mw_setReset)

theorem Quiet.notifyPushIfRecvEnded {s0 s : Streams} (h : Quiet s0 s) (k : Nat) :
    Quiet s0 (s.notifyPushIfRecvEnded k) := by
  unfold Streams.notifyPushIfRecvEnded
  split
  · exact h.mw_notifyPush k
  · exact h
macro_rules | `(tactic| quiet_step) => `(tactic| with_reducible apply Quiet.notifyPushIfRecvEnded)

/-! ### counters and `transition_after` -/

theorem Quiet.incNumRecvStreams {s0 s : Streams} (h : Quiet s0 s) (id : Nat) : Quiet s0 (s.incNumRecvStreams id) := by
  unfold Streams.incNumRecvStreams
  quiet
macro_rules | `(tactic| quiet_step) => `(tactic| with_reducible apply Quiet.incNumRecvStreams)

theorem Quiet.incNumSendStreams {s0 s : Streams} (h : Quiet s0 s) (id : Nat) : Quiet s0 (s.incNumSendStreams id) := by
  unfold Streams.incNumSendStreams
  quiet
macro_rules | `(tactic| quiet_step) => `(tactic| with_reducible apply Quiet.incNumSendStreams)

theorem Quiet.decNumStreams {s0 s : Streams} (h : Quiet s0 s) (id : Nat) : Quiet s0 (s.decNumStreams id) := by
  unfold Streams.decNumStreams
  quiet
macro_rules | `(tactic| quiet_step) => `(tactic| with_reducible apply Quiet.decNumStreams)


theorem Quiet.unlink {s0 s : Streams} (h : Quiet s0 s) (id : Nat) : Quiet s0 { s with store := s.store.unlink id } :=
  h.trans (quiet_of_slab rfl)

theorem Quiet.transitionAfter {s0 s : Streams} (h : Quiet s0 s) (id : Nat) (b : Bool) :
    Quiet s0 (s.transitionAfter id b) := by
  unfold Streams.transitionAfter
  simp only
  have h1 : Quiet s0 (if (b && !(s.stream id).isPendingResetExpiration) = true then
      s.modCountsA "self.num_local_reset_streams > 0" Counts.decNumResetStreams else s) := by quiet
  generalize (if (b && !(s.stream id).isPendingResetExpiration) = true then
      s.modCountsA "self.num_local_reset_streams > 0" Counts.decNumResetStreams else s) = s1 at h1 ⊢
  have h2 : Quiet s0 (if (s.stream id).isClosed = true then
      if (!(s.stream id).state.isScheduledReset && (s.stream id).isCounted) = true then
        (if (!(s.stream id).isPendingResetExpiration) = true then { s1 with store := s1.store.unlink (s.stream id).id }
          else s1).decNumStreams id
      else if (!(s.stream id).isPendingResetExpiration) = true then { s1 with store := s1.store.unlink (s.stream id).id }
        else s1
    else s1) := by
    apply Quiet.ite
    · apply Quiet.ite
      · apply Quiet.decNumStreams
        apply Quiet.ite
        · exact h1.unlink _
        · exact h1
      · apply Quiet.ite
        · exact h1.unlink _
        · exact h1
    · exact h1
  generalize (if (s.stream id).isClosed = true then
      if (!(s.stream id).state.isScheduledReset && (s.stream id).isCounted) = true then
        (if (!(s.stream id).isPendingResetExpiration) = true then { s1 with store := s1.store.unlink (s.stream id).id }
          else s1).decNumStreams id
      else if (!(s.stream id).isPendingResetExpiration) = true then { s1 with store := s1.store.unlink (s.stream id).id }
        else s1
    else s1) = s2 at h2 ⊢
  apply Quiet.ite
  · refine Quiet.trans ?_ (quiet_remove _ _ _)
    apply Quiet.ite
    · exact h2.decNumStreams _
    · exact h2
  · exact h2
macro_rules | `(tactic| quiet_step) => `(tactic| with_reducible apply Quiet.transitionAfter)


/-! ### prioritize.rs / send.rs -/

theorem Quiet.queueFrame {s0 s : Streams} (h : Quiet s0 s) (id : Nat) (f : SFrame) : Quiet s0 (s.queueFrame id f) := by
  unfold Streams.queueFrame
  quiet
macro_rules | `(tactic| quiet_step) => `(tactic| with_reducible apply Quiet.queueFrame)

theorem Quiet.queueOpen {s0 s : Streams} (h : Quiet s0 s) (id : Nat) : Quiet s0 (s.queueOpen id) := by
  unfold Streams.queueOpen
  quiet
macro_rules | `(tactic| quiet_step) => `(tactic| with_reducible apply Quiet.queueOpen)

theorem Quiet.clearQueue {s0 s : Streams} (h : Quiet s0 s) (id : Nat) : Quiet s0 (s.clearQueue id) := by
  unfold Streams.clearQueue
  simp only
  quiet
macro_rules | `(tactic| quiet_step) => `(tactic| with_reducible apply Quiet.clearQueue)

theorem Quiet.tryAssignCapacity {s0 s : Streams} (h : Quiet s0 s) (id : Nat) : Quiet s0 (s.tryAssignCapacity id) := by
  unfold Streams.tryAssignCapacity
  simp only
  apply Quiet.ite h
  apply Quiet.ite h
  apply Quiet.ite h
  have h1 : Quiet s0 (if s.prio.flow.available.asSize > 0 then
      (s.modStreamW id fun st => st.assignCapacity
        (min s.prio.flow.available.asSize (min (wrapSubU32 (s.stream id).requestedSendCapacity (s.stream id).sendFlow.available.asSize)
          (wrapSubU32 (s.stream id).sendFlow.windowSz (s.stream id).sendFlow.available.asSize))) s.prio.maxBufferSize).modPrio
        fun p => { p with flow := (p.flow.claimCapacity (min s.prio.flow.available.asSize
          (min (wrapSubU32 (s.stream id).requestedSendCapacity (s.stream id).sendFlow.available.asSize)
          (wrapSubU32 (s.stream id).sendFlow.windowSz (s.stream id).sendFlow.available.asSize)))).1 }
      else s) := by quiet
  generalize (if s.prio.flow.available.asSize > 0 then
      (s.modStreamW id fun st => st.assignCapacity
        (min s.prio.flow.available.asSize (min (wrapSubU32 (s.stream id).requestedSendCapacity (s.stream id).sendFlow.available.asSize)
          (wrapSubU32 (s.stream id).sendFlow.windowSz (s.stream id).sendFlow.available.asSize))) s.prio.maxBufferSize).modPrio
        fun p => { p with flow := (p.flow.claimCapacity (min s.prio.flow.available.asSize
          (min (wrapSubU32 (s.stream id).requestedSendCapacity (s.stream id).sendFlow.available.asSize)
          (wrapSubU32 (s.stream id).sendFlow.windowSz (s.stream id).sendFlow.available.asSize)))).1 }
      else s) = s1 at h1 ⊢
  quiet
macro_rules | `(tactic| quiet_step) => `(tactic| with_reducible apply Quiet.tryAssignCapacity)


theorem Quiet.assignConnectionCapacityLoop {s0 : Streams} : ∀ (fuel : Nat) {s : Streams}, Quiet s0 s →
    Quiet s0 (Streams.assignConnectionCapacityLoop fuel s)
  | 0, s, h => h
  | fuel + 1, s, h => by
    unfold Streams.assignConnectionCapacityLoop
    split
    · have hp := h.qPop .pendingCapacity
      generalize s.qPop .pendingCapacity = r at hp ⊢
      obtain ⟨s1, o⟩ := r
      cases o with
      | none => exact hp
      | some id =>
        simp only
        split
        · exact Quiet.assignConnectionCapacityLoop fuel hp
        · exact Quiet.assignConnectionCapacityLoop fuel ((hp.tryAssignCapacity id).transitionAfter _ _)
    · exact h

theorem Quiet.assignConnectionCapacity {s0 s : Streams} (h : Quiet s0 s) (inc : Nat) :
    Quiet s0 (s.assignConnectionCapacity inc) := by
  unfold Streams.assignConnectionCapacity
  exact Quiet.assignConnectionCapacityLoop _ (h.modPrio _)
macro_rules | `(tactic| quiet_step) => `(tactic| with_reducible apply Quiet.assignConnectionCapacity)

theorem Quiet.reclaimAllCapacity {s0 s : Streams} (h : Quiet s0 s) (id : Nat) : Quiet s0 (s.reclaimAllCapacity id) := by
  unfold Streams.reclaimAllCapacity
  simp only
  quiet
macro_rules | `(tactic| quiet_step) => `(tactic| with_reducible apply Quiet.reclaimAllCapacity)

theorem Quiet.reclaimReservedCapacity {s0 s : Streams} (h : Quiet s0 s) (id : Nat) :
    Quiet s0 (s.reclaimReservedCapacity id) := by
  unfold Streams.reclaimReservedCapacity
  simp only
  quiet
macro_rules | `(tactic| quiet_step) => `(tactic| with_reducible apply Quiet.reclaimReservedCapacity)

theorem Quiet.enqueueResetExpiration {s0 s : Streams} (h : Quiet s0 s) (id : Nat) :
    Quiet s0 (s.enqueueResetExpiration id) := by
  unfold Streams.enqueueResetExpiration
  simp only
  quiet
macro_rules | `(tactic| quiet_step) => `(tactic| with_reducible apply Quiet.enqueueResetExpiration)

theorem Quiet.scheduleImplicitReset {s0 s : Streams} (h : Quiet s0 s) (id : Nat) (r : Reason) :
    Quiet s0 (s.scheduleImplicitReset id r) := by
  unfold Streams.scheduleImplicitReset
  simp only
  quiet
macro_rules | `(tactic| quiet_step) => `(tactic| with_reducible apply Quiet.scheduleImplicitReset)


theorem Quiet.sendSendReset {s0 s : Streams} (h : Quiet s0 s) (id : Nat) (r : Reason) (i : Initiator) :
    Quiet s0 (s.sendSendReset id r i) := by
  unfold Streams.sendSendReset
  simp only
  apply Quiet.ite h
  have h1 := h.mw_setReset id r i
  generalize (s.modStreamW id fun st => st.setReset r i) = s1 at h1 ⊢
  apply Quiet.ite h1
  have h2 : Quiet s0 (if (s1.stream id).isPendingOpen = true then
      match (s1.stream id).pendingSend.head? with
      | some f => ((s1.modStream id fun st => { st with pendingSend := st.pendingSend.drop 1 }).clearQueue id).modStream id
          fun st => { st with pendingSend := st.pendingSend ++ [f] }
      | none => (s1.modStream id fun st => { st with pendingSend := st.pendingSend.drop 1 }).clearQueue id
    else s1.clearQueue id) := by quiet
  generalize (if (s1.stream id).isPendingOpen = true then
      match (s1.stream id).pendingSend.head? with
      | some f => ((s1.modStream id fun st => { st with pendingSend := st.pendingSend.drop 1 }).clearQueue id).modStream id
          fun st => { st with pendingSend := st.pendingSend ++ [f] }
      | none => (s1.modStream id fun st => { st with pendingSend := st.pendingSend.drop 1 }).clearQueue id
    else s1.clearQueue id) = s2 at h2 ⊢
  quiet
macro_rules | `(tactic| quiet_step) => `(tactic| with_reducible apply Quiet.sendSendReset)

theorem Quiet.sendHeaders {s0 s : Streams} (h : Quiet s0 s) (id : Nat) (eos : Bool) (f : List Hpack.Field) :
    Quiet s0 (s.sendHeaders id eos f).1 := by
  unfold Streams.sendHeaders
  split
  · exact h
  · split
    · exact h
    · simp only
      quiet

theorem Quiet.recvOpen {s0 s : Streams} (h : Quiet s0 s) (id : Nat) (pp : Bool) : Quiet s0 (s.recvOpen id pp).1 := by
  generalize hr : s.recvOpen id pp = r
  unfold Streams.recvOpen at hr
  simp only at hr
  have h1 : Quiet s0 (if s.recv.refused.isSome = true then s.panic "assertion failed: self.refused.is_none()" else s) := by
    quiet
  generalize (if s.recv.refused.isSome = true then s.panic "assertion failed: self.refused.is_none()" else s) = s1 at h1 hr
  repeat' split at hr
  all_goals (subst hr; simp only; quiet)

theorem Quiet.resetOnRecvStreamErr {s0 s : Streams} (h : Quiet s0 s) (id : Nat) (res : Except PErr Unit) :
    Quiet s0 (s.resetOnRecvStreamErr id res).1 := by
  unfold Streams.resetOnRecvStreamErr
  split
  · split
    · simp only
      quiet
    · exact h
  · exact h

end H2V.Lemmas.ConnHttpP
