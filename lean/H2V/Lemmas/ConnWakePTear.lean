import H2V.Lemmas.ConnWakePGen
/-
  ConnWakeP, part 10 — the teardown family (`recv_eof`, `handle_error`, `recv_go_away` and what they
  call) under the generic frame relation:
    * `KS` = `GStep True Keep`: a stream that survives keeps its receive queue, its reference count and
      "END_STREAM was received";
    * `NS` = `GStep False Triv`: no stream is removed, the id map is untouched — for everything the
      per-stream closure does before its final `transition_after`.
-/
namespace H2V.Lemmas.ConnWakeP
open H2V H2V.Model H2V.Model.Conn

attribute [grind ←] GStep.refl g_panic g_unsup g_wake g_notifyTask g_modPrio g_modSend g_modRecv g_modCounts g_modCountsA
  g_setQ g_setCounts g_setConnError g_modStream g_modStreamW g_unlink g_remove

abbrev KS := GStep True Keep
abbrev NS := GStep False Triv
abbrev FS := GStep False Frame

macro "tear_grind" : tactic => `(tactic| (opaque_arith; grind (gen := 60) (ematch := 40) (splits := 40)))

section
variable {rm : Prop} {s0 s : Streams}

-- ---------------------------------------------------------------- Keep
@[grind ←] theorem k_qPush (q : QName) (k : Nat) (h : KS s0 s) : KS s0 (s.qPush q k).1 := by
  unfold Streams.qPush; tear_grind
@[grind ←] theorem k_qPop (q : QName) (h : KS s0 s) : KS s0 (s.qPop q).1 := by
  unfold Streams.qPop; tear_grind
@[grind ←] theorem k_decNumStreams (k : Nat) (h : KS s0 s) : KS s0 (s.decNumStreams k) := by
  unfold Streams.decNumStreams; tear_grind
@[grind ←] theorem k_transitionAfter (k : Nat) (b : Bool) (h : KS s0 s) : KS s0 (s.transitionAfter k b) := by
  unfold Streams.transitionAfter; tear_grind
@[grind ←] theorem k_tryAssignCapacity (k : Nat) (h : KS s0 s) : KS s0 (s.tryAssignCapacity k) := by
  unfold Streams.tryAssignCapacity; tear_grind
@[grind ←] theorem k_assignConnectionCapacityLoop (n : Nat) (h : KS s0 s) : KS s0 (Streams.assignConnectionCapacityLoop n s) := by
  induction n generalizing s with
  | zero => unfold Streams.assignConnectionCapacityLoop; exact h
  | succ n ih => unfold Streams.assignConnectionCapacityLoop; tear_grind
@[grind ←] theorem k_assignConnectionCapacity (inc : Nat) (h : KS s0 s) : KS s0 (s.assignConnectionCapacity inc) := by
  unfold Streams.assignConnectionCapacity; tear_grind
@[grind ←] theorem k_reclaimAllCapacity (k : Nat) (h : KS s0 s) : KS s0 (s.reclaimAllCapacity k) := by
  unfold Streams.reclaimAllCapacity; tear_grind
@[grind ←] theorem k_clearQueue (k : Nat) (h : KS s0 s) : KS s0 (s.clearQueue k) := by
  unfold Streams.clearQueue; tear_grind
@[grind ←] theorem k_sendHandleError (k : Nat) (h : KS s0 s) : KS s0 (s.sendHandleError k) := by
  unfold Streams.sendHandleError; tear_grind
@[grind ←] theorem k_recvRecvEof (k : Nat) (h : KS s0 s) : KS s0 (s.recvRecvEof k) := by
  unfold Streams.recvRecvEof; tear_grind
@[grind ←] theorem k_recvHandleError (k : Nat) (e : PErr) (h : KS s0 s) : KS s0 (s.recvHandleError k e) := by
  unfold Streams.recvHandleError; tear_grind
@[grind ←] theorem k_clearPendingCapacity (n : Nat) (h : KS s0 s) : KS s0 (Streams.clearPendingCapacity n s) := by
  induction n generalizing s with
  | zero => unfold Streams.clearPendingCapacity; exact h
  | succ n ih => unfold Streams.clearPendingCapacity; tear_grind
@[grind ←] theorem k_clearPendingSend (n : Nat) (h : KS s0 s) : KS s0 (Streams.clearPendingSend n s) := by
  induction n generalizing s with
  | zero => unfold Streams.clearPendingSend; exact h
  | succ n ih => unfold Streams.clearPendingSend; tear_grind
@[grind ←] theorem k_clearPendingOpen (n : Nat) (h : KS s0 s) : KS s0 (Streams.clearPendingOpen n s) := by
  induction n generalizing s with
  | zero => unfold Streams.clearPendingOpen; exact h
  | succ n ih => unfold Streams.clearPendingOpen; tear_grind
@[grind ←] theorem k_sendClearQueues (h : KS s0 s) : KS s0 s.sendClearQueues := by
  unfold Streams.sendClearQueues; tear_grind
@[grind ←] theorem k_clearStreamWindowUpdateQueue (n : Nat) (h : KS s0 s) : KS s0 (Streams.clearStreamWindowUpdateQueue n s) := by
  induction n generalizing s with
  | zero => unfold Streams.clearStreamWindowUpdateQueue; exact h
  | succ n ih => unfold Streams.clearStreamWindowUpdateQueue; tear_grind
@[grind ←] theorem k_clearAllResetStreams (n : Nat) (h : KS s0 s) : KS s0 (Streams.clearAllResetStreams n s) := by
  induction n generalizing s with
  | zero => unfold Streams.clearAllResetStreams; exact h
  | succ n ih => unfold Streams.clearAllResetStreams; tear_grind
@[grind ←] theorem k_clearAllPendingAccept (n : Nat) (h : KS s0 s) : KS s0 (Streams.clearAllPendingAccept n s) := by
  induction n generalizing s with
  | zero => unfold Streams.clearAllPendingAccept; exact h
  | succ n ih => unfold Streams.clearAllPendingAccept; tear_grind
@[grind ←] theorem k_recvClearQueues (b : Bool) (h : KS s0 s) : KS s0 (s.recvClearQueues b) := by
  unfold Streams.recvClearQueues; tear_grind
@[grind ←] theorem k_clearQueues (b : Bool) (h : KS s0 s) : KS s0 (s.clearQueues b) := by
  unfold Streams.clearQueues; tear_grind
@[grind ←] theorem k_sendRecvGoAway (l : Nat) (h : KS s0 s) : KS s0 (s.sendRecvGoAway l).1 := by
  unfold Streams.sendRecvGoAway; tear_grind

theorem k_errClosure (e : PErr) (k : Nat) (h : KS s0 s) :
    KS s0 (s.transition k fun s => ((s.recvHandleError k e).sendHandleError k, ())).1 := by
  unfold Streams.transition; tear_grind
theorem k_eofClosure (k : Nat) (h : KS s0 s) :
    KS s0 (s.transition k fun s => ((s.recvRecvEof k).sendHandleError k, ())).1 := by
  unfold Streams.transition; tear_grind

theorem k_tryForEach (f : Streams → Nat → Streams × Option PErr)
    (hf : ∀ {s : Streams} (k : Nat), KS s0 s → KS s0 (f s k).1) (n i len : Nat) (h : KS s0 s) :
    KS s0 (Streams.tryForEach f n i len s).1 := by
  induction n generalizing s i len with
  | zero => unfold Streams.tryForEach; exact h
  | succ n ih => unfold Streams.tryForEach; tear_grind
theorem k_storeForEach (f : Streams → Nat → Streams)
    (hf : ∀ {s : Streams} (k : Nat), KS s0 s → KS s0 (f s k)) (h : KS s0 s) : KS s0 (s.storeForEach f) := by
  unfold Streams.storeForEach Streams.storeTryForEach
  exact k_tryForEach _ (fun k h => hf k h) _ _ _ h

/-- `handle_error`: every stream that survives keeps its receive queue, its handles and "END_STREAM seen" -/
theorem k_handleError (e : PErr) (h : KS s0 s) : KS s0 (s.handleError e).1 := by
  unfold Streams.handleError
  exact g_setConnError e (k_storeForEach _ (fun k h => k_errClosure e k h) h)
theorem k_recvGoAwayFrame (l : Nat) (r : Reason) (d : Bytes) (h : KS s0 s) : KS s0 (s.recvGoAwayFrame l r d).1 := by
  unfold Streams.recvGoAwayFrame
  split
  · exact (k_sendRecvGoAway l h).of_fst ‹_›
  · next s1 _ heq =>
    have h1 : KS s0 s1 := (k_sendRecvGoAway l h).of_fst heq
    refine g_setConnError _ (k_storeForEach _ (fun k h => ?_) h1)
    dsimp only
    split
    · exact k_errClosure _ k h
    · exact h
theorem k_recvEof (b : Bool) (h : KS s0 s) : KS s0 (s.recvEof b) := by
  unfold Streams.recvEof
  refine k_clearQueues b (k_storeForEach _ (fun k h => k_eofClosure k h) ?_)
  split
  · exact g_setConnError _ h
  · exact h

-- ---------------------------------------------------------------- Frame: `try_assign_capacity` leaves `is_closed` alone
@[grind ←] theorem f_qPush (q : QName) (k : Nat) (h : FS s0 s) : FS s0 (s.qPush q k).1 := by
  unfold Streams.qPush; tear_grind
@[grind ←] theorem f_tryAssignCapacity (k : Nat) (h : FS s0 s) : FS s0 (s.tryAssignCapacity k) := by
  unfold Streams.tryAssignCapacity; tear_grind

-- ---------------------------------------------------------------- Triv: nothing removed, id map untouched
@[grind ←] theorem n_qPush (q : QName) (k : Nat) (h : NS s0 s) : NS s0 (s.qPush q k).1 := by
  unfold Streams.qPush; tear_grind
@[grind ←] theorem n_qPop (q : QName) (h : NS s0 s) : NS s0 (s.qPop q).1 := by
  unfold Streams.qPop; tear_grind
@[grind ←] theorem n_tryAssignCapacity (k : Nat) (h : NS s0 s) : NS s0 (s.tryAssignCapacity k) := by
  unfold Streams.tryAssignCapacity; tear_grind

theorem modCountsA_store (s : Streams) (m : String) (f : Counts → Option Counts) : (s.modCountsA m f).store = s.store := by
  unfold Streams.modCountsA; split
  · rfl
  · exact panic_store' _ _

/-- `transition_after` on a stream that is not closed (frames queued, or state not `Closed`) touches
    nothing but the counters -/
theorem transitionAfter_store_of_not_closed {s : Streams} {k : Nat} {b : Bool} (h : (s.stream k).isClosed = false) :
    (s.transitionAfter k b).store = s.store := by
  unfold Streams.transitionAfter
  simp only [h, Bool.false_eq_true, if_false]
  have hs : ∀ t : Streams, t.store = s.store → (t.stream k).isReleased = false := by
    intro t ht
    have : t.stream k = s.stream k := by unfold Streams.stream; rw [ht]
    rw [this]; unfold Stream.isReleased; simp [h]
  split
  · rw [if_neg (by rw [hs _ (modCountsA_store _ _ _)]; exact Bool.false_ne_true)]
    exact modCountsA_store _ _ _
  · rw [if_neg (by rw [hs _ rfl]; exact Bool.false_ne_true)]

theorem FS.isClosed_eq {s1 s2 : Streams} (h : FS s1 s2) (k : Nat) : (s2.stream k).isClosed = (s1.stream k).isClosed := by
  cases h1 : s1.store.get? k with
  | none => simp [Streams.stream, h1, h.fresh k h1]
  | some a =>
    rcases h.keep k a h1 with ⟨f, _⟩ | ⟨b, hb, hab⟩
    · exact f.elim
    · simp [Streams.stream, h1, hb, Stream.isClosed, hab.state, hab.buffered, hab.pendingSend]

theorem not_closed_of_streaming {a : Stream} (h : (a.state.isSendStreaming || decide (a.bufferedSendData > 0)) = true) :
    a.isClosed = false := by
  unfold Stream.isClosed
  rcases Bool.or_eq_true_iff.mp h with h | h
  · have key : ∀ x : State, x.isSendStreaming = true → x.isClosed = false := by
      intro x hx
      state_cases x <;> simp_all [State.isSendStreaming, State.isClosed]
    simp [key _ h]
  · have : a.bufferedSendData ≠ 0 := by have := of_decide_eq_true h; omega
    simp [this]

theorem n_assignConnectionCapacityLoop (n : Nat) (h : NS s0 s) : NS s0 (Streams.assignConnectionCapacityLoop n s) := by
  induction n generalizing s with
  | zero => unfold Streams.assignConnectionCapacityLoop; exact h
  | succ n ih =>
    unfold Streams.assignConnectionCapacityLoop
    split
    · split
      · next s1 heq => exact (n_qPop _ h).of_fst heq
      · next s1 id heq =>
        have h1 : NS s0 s1 := (n_qPop _ h).of_fst heq
        simp only
        split
        · exact ih h1
        · next hc =>
          have hc' : ((s1.stream id).state.isSendStreaming || decide ((s1.stream id).bufferedSendData > 0)) = true := by
            cases hh : ((s1.stream id).state.isSendStreaming || decide ((s1.stream id).bufferedSendData > 0)) with
            | true => rfl
            | false => rw [hh] at hc; simp at hc
          have hnc : ((s1.tryAssignCapacity id).stream id).isClosed = false := by
            rw [FS.isClosed_eq (f_tryAssignCapacity id (GStep.refl s1))]
            exact not_closed_of_streaming hc'
          refine ih ((n_tryAssignCapacity id h1).trans (.of_store_eq (transitionAfter_store_of_not_closed hnc)))
    · exact h
attribute [grind ←] n_assignConnectionCapacityLoop

@[grind ←] theorem n_assignConnectionCapacity (inc : Nat) (h : NS s0 s) : NS s0 (s.assignConnectionCapacity inc) := by
  unfold Streams.assignConnectionCapacity; tear_grind
@[grind ←] theorem n_reclaimAllCapacity (k : Nat) (h : NS s0 s) : NS s0 (s.reclaimAllCapacity k) := by
  unfold Streams.reclaimAllCapacity; tear_grind
@[grind ←] theorem n_clearQueue (k : Nat) (h : NS s0 s) : NS s0 (s.clearQueue k) := by
  unfold Streams.clearQueue; tear_grind
@[grind ←] theorem n_sendHandleError (k : Nat) (h : NS s0 s) : NS s0 (s.sendHandleError k) := by
  unfold Streams.sendHandleError; tear_grind
@[grind ←] theorem n_recvRecvEof (k : Nat) (h : NS s0 s) : NS s0 (s.recvRecvEof k) := by
  unfold Streams.recvRecvEof; tear_grind
@[grind ←] theorem n_recvHandleError (k : Nat) (e : PErr) (h : NS s0 s) : NS s0 (s.recvHandleError k e) := by
  unfold Streams.recvHandleError; tear_grind
end
end H2V.Lemmas.ConnWakeP
