import H2V.Lemmas.ConnRecvPSend
/-
  C03 — part 5: the functions of `ConnRecv.lean` (recv.rs) that do not touch receive flow control
  are `Ext` steps (headers, trailers, push promise, reset, error, EOF, queues, polling).
-/
namespace H2V.Lemmas.ConnRecvP
open H2V H2V.Model H2V.Model.Conn
open H2V.Model.Conn.Streams
attribute [local irreducible] wrapSubU32 wrapSubUsize

theorem recvOpen_ext (s : Streams) (id : Nat) (b : Bool) : Ext s (s.recvOpen id b).1 := by
  unfold Streams.recvOpen; ext_auto

theorem recvOpen_state_same {s : Streams} {id : Nat} {a b : Bool} {st' : State} {r : Except PErr Bool}
    (h : (s.stream id).state.recvOpen a b = (st', r)) (x : Stream) (hx : s.store.get? id = some x) :
    SameR x { x with state := st' } := by
  refine setState_same x st' fun hc => ?_
  rw [stream_eq_of_get? hx] at h
  have := recvOpen_closed x.state a b hc
  rw [h] at this; exact this

theorem recvClose_state_same {s : Streams} {id : Nat} {st' : State} {r : Except PErr Unit}
    (h : (s.stream id).state.recvClose = (st', r)) (x : Stream) (hx : s.store.get? id = some x) :
    SameR x { x with state := st' } := by
  refine setState_same x st' fun hc => ?_
  rw [stream_eq_of_get? hx] at h
  have := recvClose_closed x.state hc
  rw [h] at this; exact this

theorem reserveRemote_state_same {s : Streams} {id : Nat} {st' : State} {r : Except PErr Unit}
    (h : (s.stream id).state.reserveRemote = (st', r)) (x : Stream) (hx : s.store.get? id = some x) :
    SameR x { x with state := st' } := by
  refine setState_same x st' fun hc => ?_
  rw [stream_eq_of_get? hx] at h
  have := reserveRemote_closed x.state hc
  rw [h] at this; exact this

theorem notifyPushIfRecvEnded_ext (s : Streams) (id : Nat) : Ext s (s.notifyPushIfRecvEnded id) := by
  unfold Streams.notifyPushIfRecvEnded; ext_auto

theorem recvRecvHeaders_ext (s : Streams) (id : Nat) (h : HeadersIn) : Ext s (s.recvRecvHeaders id h).1 := by
  unfold Streams.recvRecvHeaders; ext_auto
  all_goals (first | exact recvOpen_state_same (by assumption) | skip)

theorem recvRecvTrailers_ext (s : Streams) (id : Nat) (h : HeadersIn) : Ext s (s.recvRecvTrailers id h).1 := by
  unfold Streams.recvRecvTrailers; ext_auto
  all_goals (first | exact recvClose_state_same (by assumption) | skip)

theorem recvRecvPushPromise_ext (s : Streams) (id : Nat) (h : HeadersIn) : Ext s (s.recvRecvPushPromise id h).1 := by
  unfold Streams.recvRecvPushPromise; ext_auto
  all_goals (first | exact reserveRemote_state_same (by assumption) | skip)

theorem recvNextIncoming_ext (s : Streams) : Ext s s.recvNextIncoming.1 := by
  unfold Streams.recvNextIncoming; ext_auto

theorem recvTakeRequest_ext (s : Streams) (id : Nat) : Ext s (s.recvTakeRequest id).1 := by
  unfold Streams.recvTakeRequest; ext_auto

theorem recvRecvReset_ext (s : Streams) (id : Nat) (r : Reason) : Ext s (s.recvRecvReset id r).1 := by
  unfold Streams.recvRecvReset; ext_auto
  all_goals (intro x _; exact setState_same x _ fun hc => recvReset_closed _ _ _ _ hc)

theorem recvHandleError_ext (s : Streams) (id : Nat) (e : PErr) : Ext s (s.recvHandleError id e) := by
  unfold Streams.recvHandleError; ext_auto
  all_goals (intro x _; exact setState_same x _ fun hc => handleError_closed _ _ hc)

theorem recvGoAway_ext (s : Streams) (l : Nat) : Ext s (s.recvGoAway l) := by
  unfold Streams.recvGoAway; ext_auto

theorem recvRecvEof_ext (s : Streams) (id : Nat) : Ext s (s.recvRecvEof id) := by
  unfold Streams.recvRecvEof; ext_auto
  all_goals (intro x _; exact setState_same x _ fun hc => recvEof_closed _ hc)

theorem recvMaybeResetNextStreamId_ext (s : Streams) (id : Nat) : Ext s (s.recvMaybeResetNextStreamId id) := by
  unfold Streams.recvMaybeResetNextStreamId; ext_auto

theorem enqueueResetExpiration_ext (s : Streams) (id : Nat) : Ext s (s.enqueueResetExpiration id) := by
  unfold Streams.enqueueResetExpiration; ext_auto

theorem sendPendingRefusal_ext (s : Streams) (w : Writer) : Ext s (s.sendPendingRefusal w).1 := by
  unfold Streams.sendPendingRefusal; ext_auto

theorem clearExpiredResetStreams_ext (n : Nat) (s : Streams) : Ext s (clearExpiredResetStreams n s) := by
  induction n generalizing s with
  | zero => unfold clearExpiredResetStreams; ext_auto
  | succ n ih => unfold clearExpiredResetStreams; ext_auto_ih ih

theorem clearStreamWindowUpdateQueue_ext (n : Nat) (s : Streams) : Ext s (clearStreamWindowUpdateQueue n s) := by
  induction n generalizing s with
  | zero => unfold clearStreamWindowUpdateQueue; ext_auto
  | succ n ih => unfold clearStreamWindowUpdateQueue; ext_auto_ih ih

theorem clearAllResetStreams_ext (n : Nat) (s : Streams) : Ext s (clearAllResetStreams n s) := by
  induction n generalizing s with
  | zero => unfold clearAllResetStreams; ext_auto
  | succ n ih => unfold clearAllResetStreams; ext_auto_ih ih

theorem clearAllPendingAccept_ext (n : Nat) (s : Streams) : Ext s (clearAllPendingAccept n s) := by
  induction n generalizing s with
  | zero => unfold clearAllPendingAccept; ext_auto
  | succ n ih => unfold clearAllPendingAccept; ext_auto_ih ih

theorem recvClearQueues_ext (s : Streams) (b : Bool) : Ext s (s.recvClearQueues b) := by
  unfold Streams.recvClearQueues; ext_auto

theorem scheduleRecv_ext (s : Streams) (id : Nat) (t : String) : Ext s (s.scheduleRecv id t).1 := by
  unfold Streams.scheduleRecv; ext_auto

theorem recvPollData_ext (s : Streams) (id : Nat) (t : String) : Ext s (s.recvPollData id t).1 := by
  unfold Streams.recvPollData; ext_auto

theorem recvPollTrailers_ext (s : Streams) (id : Nat) (t : String) : Ext s (s.recvPollTrailers id t).1 := by
  unfold Streams.recvPollTrailers; ext_auto

theorem recvPollResponse_ext (n : Nat) (s : Streams) (id : Nat) (t : String) : Ext s (recvPollResponse n s id t).1 := by
  induction n generalizing s with
  | zero => unfold recvPollResponse; ext_auto
  | succ n ih => unfold recvPollResponse; ext_auto_ih ih

theorem recvPollInformational_ext (s : Streams) (id : Nat) (t : String) : Ext s (s.recvPollInformational id t).1 := by
  unfold Streams.recvPollInformational
  ext_let
  split
  · next r heq =>
    split at heq
    · cases heq; exact Ext.refl _
    · cases heq; ext_auto
    · cases heq
  · ext_auto

theorem recvPollPushed_ext (s : Streams) (id : Nat) (tag : String) : Ext s (s.recvPollPushed id tag).1 := by
  unfold Streams.recvPollPushed; ext_auto

end H2V.Lemmas.ConnRecvP
