import H2V.Lemmas.ConnCtlPViolCodec
import H2V.Lemmas.ConnCtlPGoAwayRecv
import H2V.Lemmas.CodecReader
/-
  ConnCtlP, part 11 — C09 at the connection level: a complete frame at the head of the input whose
  `decode_frame` fails makes `poll_next` yield that error; a connection-level error — from the codec
  or from `recv_frame` — ends `poll2` with that error, and `handle_poll2_result` turns it into
  "GOAWAY with that code queued (or already announced), connection dead": all streams are failed,
  nothing is read or acknowledged any more.
-/
set_option autoImplicit false
set_option linter.unusedSimpArgs false
namespace H2V.Lemmas.ConnCtlP
open H2V H2V.Model H2V.Model.Conn H2V.Model.Frame H2V.Model.CodecRead

/-- **from `decode_frame` to `poll_next`**: the read buffer followed by what the transport holds
    starts with one complete frame `frameBytes` (length field consistent, within the advertised
    max frame size) on which `decode_frame` answers the error `e` ⇒ `poll_next` yields `e` -/
theorem pollNext_frame_error (c : Codec) (tag : String) (fuel : Nat) (frameBytes rest : Bytes) (e : RErr) (r2 : Reader)
    (hne : c.hasErrored = false) (hneed : c.r.need = none)
    (hbuf : c.r.buf ++ c.io.rd = frameBytes ++ rest)
    (hlen : frameBytes.length = rd24 frameBytes + 9) (hmax : rd24 frameBytes ≤ c.r.maxFrameLen)
    (hdec : decodeFrame { c.r with buf := rest, need := none } frameBytes = (r2, .err e)) :
    (pollNext (fuel + 1) c tag).2 = .err e := by
  unfold pollNext
  simp only [hne, Bool.false_eq_true, if_false]
  have h3 : 3 ≤ frameBytes.length := by omega
  have hrd : rd24 (frameBytes ++ rest) = rd24 frameBytes := H2V.Lemmas.Codec.rd24_append _ _ h3
  have hdrain : Reader.drain 1 { c.r with buf := c.r.buf ++ c.io.rd } [] = (r2, [.err e], true) := by
    unfold Reader.drain
    simp only [hneed, hbuf, hrd]
    have hl3 : ¬ (frameBytes ++ rest).length < 3 := by simp; omega
    have hmx : ¬ rd24 frameBytes > c.r.maxFrameLen := by omega
    simp only [hl3, if_false, hmx]
    have hge : ¬ (frameBytes ++ rest).length < rd24 frameBytes + 9 := by simp; omega
    simp only [hge, if_false]
    have htake : (frameBytes ++ rest).take (rd24 frameBytes + 9) = frameBytes := by
      rw [← hlen]; simp
    have hdrop : (frameBytes ++ rest).drop (rd24 frameBytes + 9) = rest := by
      rw [← hlen]; simp
    rw [htake, hdrop, hdec]
    rfl
  rw [hdrain]

/-- a codec error ends `poll2`'s turn with that error (mapped by `From<…> for proto::Error`) -/
theorem poll2Read_codec_error (k : Conn → Conn × PollRes) (c : Conn) (e : RErr)
    (h : (pollNext (c.codec.r.buf.length + c.codec.io.rd.length + 2) c.codec c.cx).2 = .err e) :
    (poll2Read k c).2 = .ready (.error (Conn.rerrToPErr e)) := by
  unfold poll2Read
  rcases hp : pollNext (c.codec.r.buf.length + c.codec.io.rd.length + 2) c.codec c.cx with ⟨codec, polled⟩
  rw [hp] at h
  dsimp only at h ⊢
  subst h
  rfl

/-- a GOAWAY-class codec error (`connErr` = PROTOCOL_ERROR, FRAME_SIZE_ERROR, COMPRESSION_ERROR, …)
    becomes the library connection error with the same code -/
theorem rerrToPErr_goAway (code : Nat) (dbg : String) :
    Conn.rerrToPErr (.goAway code dbg) = .goAway (Http.str dbg) code .library := rfl

/-- an error of `recv_frame` ends `poll2`'s turn with that error -/
theorem poll2Dispatch_error (k : Conn → Conn × PollRes) (c c' : Conn) (frame : Option Frame.Frame) (e : PErr)
    (h : c.recvFrame frame = (c', .error e)) : poll2Dispatch k c frame = (c', .ready (.error e)) := by
  unfold poll2Dispatch
  rw [h]

-- ===================================================================== what a connection error does

/-- **a connection-level error is fatal and answered with GOAWAY**: when `poll2` ends with
    `Error::GoAway(debug, reason, initiator)`, `handle_poll2_result` leaves the connection dead (it
    reads nothing and acknowledges nothing any more, `protoPollT_dead`), with `reason` announced:
    either a GOAWAY with this reason had been announced before and the connection goes to `Closing`,
    or `go_away_now` runs: every stream is failed with the error (`handle_error`), and a GOAWAY
    frame with `last_processed_id`, the reason and the debug data is pending — unless exactly that
    GOAWAY (same id, same reason) was announced already. -/
theorem connection_error_fatal (c : Conn) (d : Bytes) (r : Reason) (i : Initiator)
    (hinv : GoAwayInv { c with streams := (c.streams.handleError (.goAway d r i)).1 }) :
    let c' := (c.handlePoll2Result (.error (.goAway d r i))).1
    let lpi := (c.streams.handleError (.goAway d r i)).1.recv.lastProcessedId
    (c.handlePoll2Result (.error (.goAway d r i))).2 = .ok () ∧ Dead c' ∧
    ((c'.state = .closing r i ∧ (∃ ga, c.goAway.goingAway = some ga ∧ ga.reason = r) ∧ c'.goAway = c.goAway ∧
        c'.streams = c.streams) ∨
     (Halting c' ∧ c'.streams = (c.streams.handleError (.goAway d r i)).1 ∧ c'.state = c.state ∧
      c'.goAway.goingAway = some { lastProcessedId := lpi, reason := r } ∧
      (c'.goAway.pending = some { lastStreamId := lpi, reason := r, debugData := d } ∨
       (c'.goAway.pending = c.goAway.pending ∧
        c.goAway.goingAway = some { lastProcessedId := lpi, reason := r })))) := by
  intro c' lpi
  have hc' : c' = c.handleGoAway r d i := rfl
  refine ⟨rfl, handlePoll2Result_kills c _ (Or.inr ⟨d, r, i, rfl⟩), ?_⟩
  rw [hc']
  have key : ∀ c1 : Conn, GoAwayInv c1 → c1.goAway = c.goAway → c1.state = c.state →
      Halting (c1.goAwayNowData r d) ∧ (c1.goAwayNowData r d).streams = c1.streams ∧
      (c1.goAwayNowData r d).state = c.state ∧
      (c1.goAwayNowData r d).goAway.goingAway = some { lastProcessedId := c1.streams.recv.lastProcessedId, reason := r } ∧
      ((c1.goAwayNowData r d).goAway.pending =
          some { lastStreamId := c1.streams.recv.lastProcessedId, reason := r, debugData := d } ∨
       ((c1.goAwayNowData r d).goAway.pending = c.goAway.pending ∧
        c.goAway.goingAway = some { lastProcessedId := c1.streams.recv.lastProcessedId, reason := r })) := by
    intro c1 h1 hg hs
    obtain ⟨r1, r2, r3, r4⟩ := goAwayNow_result c1 r d c1.goAway.isUserInitiated h1
    refine ⟨goAwayNowData_halting c1 r d, (goAwayNowData_inv c1 r d h1).2, ?_, ?_, ?_⟩
    · rw [(goAwayNowData_same c1 r d).2.2.1]; exact hs
    · rw [goAwayNowData_eq c1 r d h1]; exact r2
    · rw [goAwayNowData_eq c1 r d h1]
      rcases r4 with r4 | ⟨r4, r5⟩
      · exact Or.inl r4
      · right; rw [← hg]; exact ⟨r4, r5⟩
  rcases handleGoAway_cases c r d i with h | h
  · left
    rw [h]
    refine ⟨rfl, ?_, rfl, rfl⟩
    -- the `Closing` branch is taken only when a GOAWAY with this reason was announced
    by_cases hx : ∃ ga, c.goAway.goingAway = some ga ∧ ga.reason = r
    · exact hx
    · exfalso
      have h2 : c.handleGoAway r d i =
          ({ c with streams := (c.streams.handleError (.goAway d r i)).1 } : Conn).goAwayNowData r d := by
        unfold Conn.handleGoAway
        cases hg : c.goAway.goingAway with
        | none => simp
        | some ga =>
          have : (ga.reason == r) = false := by
            cases hb : (ga.reason == r)
            · rfl
            · exact absurd ⟨ga, hg, by simpa using hb⟩ hx
          simp [this]
      have := (key _ hinv rfl rfl).1
      rw [← h2, h] at this
      -- `close_now` cannot have been set by a record update of `state`
      obtain ⟨k1, k2⟩ := this
      dsimp only at k1 k2
      have hinv' := hinv.close_ga k1
      dsimp only at hinv'
      cases hg : c.goAway.goingAway with
      | none => rw [hg] at hinv'; cases hinv'
      | some ga =>
        -- then `handleGoAway` compares reasons; both branches agree only if the reasons match
        have hne : (ga.reason == r) = false := by
          cases hb : (ga.reason == r)
          · rfl
          · exact absurd ⟨ga, hg, by simpa using hb⟩ hx
        have h3 := (key _ hinv rfl rfl).2.2.2.1
        rw [← h2, h] at h3
        dsimp only at h3
        rw [hg] at h3
        cases h3
        simp at hne
  · right
    rw [h]
    exact key _ hinv rfl rfl

end H2V.Lemmas.ConnCtlP
