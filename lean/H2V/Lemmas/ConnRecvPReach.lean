import H2V.Lemmas.ConnRecvPOps
/-
  C03 — part 13: reachability.  `Op` lists every function of the stream layer that the connection
  (`ConnProto.lean`) and the user-side handles (`ConnDriver.lean`) call on the `Streams` value, with
  its arguments; `Reach g s` = `s` is reached from an initial state by any sequence of such calls
  with any arguments (`g` = what the application configured on the way).
  Main theorems: `reach_inv` (connection level, every history) and `reachOk_inv` (stream level,
  histories in which `apply_local_settings` and `Inner::send_reset` did not fail).
-/
namespace H2V.Lemmas.ConnRecvP
open H2V H2V.Model H2V.Model.Conn
open H2V.Model.Conn.Streams
open H2V.Lemmas.Comp
attribute [local irreducible] wrapSubU32 wrapSubUsize

/-- the calls on the stream layer -/
inductive Op where
  -- frames from the peer (`DynConnection::recv_frame`)
  | recvHeaders (h : HeadersIn)
  | recvData (id : Nat) (payload : Bytes) (eos : Bool) (padLen : Option Nat)
  | recvReset (id : Nat) (reason : Reason)
  | recvPushPromise (id : Nat) (h : HeadersIn)
  | recvGoAwayFrame (last : Nat) (reason : Reason) (debug : Bytes)
  | recvWindowUpdate (id inc : Nat)
  | recvEof (clearPendingAccept : Bool)
  -- SETTINGS
  | applyLocalSettings (vals : List (Nat × Nat))
  | applyRemoteSettings (vals : List (Nat × Nat)) (isInitial : Bool)
  -- the connection task
  | pollSendPendingRefusal (fuel : Nat) (w : Writer) (io : Tio) (tag : String)
  | pollComplete (fuel : Nat) (w : Writer) (io : Tio) (tag : String)
  | clearExpiredResetStreams (fuel : Nat)
  | handleError (e : PErr)
  | innerSendReset (id : Nat) (reason : Reason)
  | recvGoAway (last : Nat)
  | setTargetConnectionWindow (target : Nat)
  -- handles of the application
  | cloneHandle
  | dropHandle
  | cloneStreamRef (key : Nat)
  | dropStreamRef (key : Nat)
  | sendRequest (isHead : Bool) (fields : List Hpack.Field) (eos : Bool) (pending : Option Nat)
  | pollPendingOpen (pending : Option Nat) (tag : String)
  | nextIncoming
  | recvTakeRequest (key : Nat)
  | refSendResponse (key : Nat) (fields : List Hpack.Field) (eos : Bool)
  | refSendInformationalHeaders (key : Nat) (fields : List Hpack.Field)
  | refSendPushPromise (parent : Nat) (valid : Bool) (fields : List Hpack.Field)
  | refSendData (key len : Nat) (eos : Bool)
  | refSendTrailers (key : Nat) (fields : List Hpack.Field)
  | refSendReset (key : Nat) (reason : Reason)
  | refReserveCapacity (key cap : Nat)
  | pollCapacity (key : Nat) (tag : String)
  | pollReset (key : Nat) (mode : PollReset) (tag : String)
  | recvPollResponse (fuel key : Nat) (tag : String)
  | recvPollInformational (key : Nat) (tag : String)
  | refPollData (key : Nat) (tag : String)
  | recvPollTrailers (key : Nat) (tag : String)
  | refReleaseCapacity (key cap : Nat)
  | refClearRecvBuffer (key : Nat)
  | refPollPushed (key : Nat) (tag : String)
  -- bookkeeping of the model
  | wake (tags : List String)
  | clearWakes
  | panic (msg : String)

def settingsIws (vals : List (Nat × Nat)) : Option Nat := (vals.find? (·.1 = 4)).map (·.2)

/-- the state after the call -/
def Op.apply (s : Streams) : Op → Streams
  | .recvHeaders h => (s.recvHeaders h).1
  | .recvData id p e pl => (s.recvData id p e pl).1
  | .recvReset id r => (s.recvReset id r).1
  | .recvPushPromise id h => (s.recvPushPromise id h).1
  | .recvGoAwayFrame l r d => (s.recvGoAwayFrame l r d).1
  | .recvWindowUpdate id inc => (s.recvWindowUpdate id inc).1
  | .recvEof b => s.recvEof b
  | .applyLocalSettings vals => (s.applyLocalSettingsFrame vals).1
  | .applyRemoteSettings vals b => (s.applyRemoteSettings vals b).1
  | .pollSendPendingRefusal n w io t => (Streams.pollSendPendingRefusal n s w io t).1
  | .pollComplete n w io t => (Streams.pollComplete n s w io t).1
  | .clearExpiredResetStreams n => Streams.clearExpiredResetStreams n s
  | .handleError e => (s.handleError e).1
  | .innerSendReset id r => (s.innerSendReset id r).1
  | .recvGoAway l => s.recvGoAway l
  | .setTargetConnectionWindow t => (s.setTargetConnectionWindow t).1
  | .cloneHandle => s.cloneHandle
  | .dropHandle => s.dropHandle
  | .cloneStreamRef k => s.cloneStreamRef k
  | .dropStreamRef k => s.dropStreamRef k
  | .sendRequest b f e p => (s.sendRequest b f e p).1
  | .pollPendingOpen p t => (s.pollPendingOpen p t).1
  | .nextIncoming => s.nextIncoming.1
  | .recvTakeRequest k => (s.recvTakeRequest k).1
  | .refSendResponse k f e => (s.refSendResponse k f e).1
  | .refSendInformationalHeaders k f => (s.refSendInformationalHeaders k f).1
  | .refSendPushPromise p v f => (s.refSendPushPromise p v f).1
  | .refSendData k l e => (s.refSendData k l e).1
  | .refSendTrailers k f => (s.refSendTrailers k f).1
  | .refSendReset k r => s.refSendReset k r
  | .refReserveCapacity k c => s.refReserveCapacity k c
  | .pollCapacity k t => (s.pollCapacity k t).1
  | .pollReset k m t => (s.pollReset k m t).1
  | .recvPollResponse n k t => (Streams.recvPollResponse n s k t).1
  | .recvPollInformational k t => (s.recvPollInformational k t).1
  | .refPollData k t => (s.refPollData k t).1
  | .recvPollTrailers k t => (s.recvPollTrailers k t).1
  | .refReleaseCapacity k c => (s.refReleaseCapacity k c).1
  | .refClearRecvBuffer k => s.refClearRecvBuffer k
  | .refPollPushed k t => (s.refPollPushed k t).1
  | .wake t => s.wake t
  | .clearWakes => { s with wakes := [] }
  | .panic m => s.panic m

/-- what the application has configured after the call -/
def Op.ghost (g : Ghost) : Op → Ghost
  | .setTargetConnectionWindow t => g.setTarget t
  | .applyLocalSettings vals => g.afterSettings (settingsIws vals)
  | _ => g

/-- the arguments are ones the callers can pass: window sizes are at most 2^31-1 (`Connection::
    set_target_window_size` asserts it, SETTINGS_INITIAL_WINDOW_SIZE above it is refused by the peer) -/
def Op.valid (_s : Streams) : Op → Prop
  | .setTargetConnectionWindow t => t ≤ 2147483647
  | .applyLocalSettings vals => ∀ t, settingsIws vals = some t → t ≤ 2147483647
  | _ => True

/-- the call did not end in the connection errors that leave the stream-level books unbalanced:
    `apply_local_settings` → FLOW_CONTROL_ERROR, `Inner::send_reset` → ENHANCE_YOUR_CALM
    ("too_many_internal_resets") -/
def Op.ok (s : Streams) : Op → Prop
  | .applyLocalSettings vals => (s.applyLocalSettingsFrame vals).2 = .ok ()
  | .innerSendReset id r => (s.innerSendReset id r).2 = .ok ()
  | _ => True

theorem clearWakes_ext (s : Streams) : Ext s { s with wakes := [] } := Ext.of_same rfl rfl rfl rfl

/-- one call: the connection-level invariant always survives, the stream-level one when the call
    is `ok` -/
theorem Op.step_inv {full : Bool} {g : Ghost} {s : Streams} (h : Inv full g s) (op : Op) (hv : op.valid s) :
    Inv false (op.ghost g) (op.apply s) ∧ (op.ok s → Inv full (op.ghost g) (op.apply s)) := by
  have ext : ∀ s', Ext s s' → Inv false g s' ∧ (True → Inv full g s') :=
    fun s' e => ⟨(h.of_ext e).drop_full, fun _ => h.of_ext e⟩
  have inv : ∀ s', Inv full g s' → Inv false g s' ∧ (True → Inv full g s') :=
    fun s' h' => ⟨h'.drop_full, fun _ => h'⟩
  cases op with
  | recvHeaders hd => exact ext _ (recvHeaders_ext s hd)
  | recvData id p e pl => exact inv _ (recvData_inv h id p e pl)
  | recvReset id r => exact ext _ (recvReset_ext s id r)
  | recvPushPromise id hd => exact ext _ (recvPushPromise_ext s id hd)
  | recvGoAwayFrame l r d => exact ext _ (recvGoAwayFrame_ext s l r d)
  | recvWindowUpdate id inc => exact ext _ (recvWindowUpdate_ext s id inc)
  | recvEof b => exact ext _ (recvEof_ext s b)
  | applyLocalSettings vals => exact applyLocalSettingsFrame_inv h vals hv
  | applyRemoteSettings vals b => exact ext _ (applyRemoteSettings_ext s vals b)
  | pollSendPendingRefusal n w io t => exact ext _ (pollSendPendingRefusal_ext n s w io t)
  | pollComplete n w io t => exact inv _ (pollComplete_inv n h w io t)
  | clearExpiredResetStreams n => exact ext _ (clearExpiredResetStreams_ext n s)
  | handleError e => exact ext _ (handleError_ext s e)
  | innerSendReset id r => exact innerSendReset_inv h id r
  | recvGoAway l => exact ext _ (recvGoAway_ext s l)
  | setTargetConnectionWindow t =>
    have := (setTargetConnectionWindow_inv h t hv).1
    exact ⟨this.drop_full, fun _ => this⟩
  | cloneHandle => exact ext _ (cloneHandle_ext s)
  | dropHandle => exact ext _ (dropHandle_ext s)
  | cloneStreamRef k => exact ext _ (cloneStreamRef_ext s k)
  | dropStreamRef k => exact inv _ (dropStreamRef_inv h k)
  | sendRequest b f e p => exact ext _ (sendRequest_ext s b f e p)
  | pollPendingOpen p t => exact ext _ (pollPendingOpen_ext s p t)
  | nextIncoming => exact ext _ (nextIncoming_ext s)
  | recvTakeRequest k => exact ext _ (recvTakeRequest_ext s k)
  | refSendResponse k f e => exact ext _ (refSendResponse_ext s k f e)
  | refSendInformationalHeaders k f => exact ext _ (refSendInformationalHeaders_ext s k f)
  | refSendPushPromise p v f => exact ext _ (refSendPushPromise_ext s p v f)
  | refSendData k l e => exact ext _ (refSendData_ext s k l e)
  | refSendTrailers k f => exact ext _ (refSendTrailers_ext s k f)
  | refSendReset k r => exact ext _ (refSendReset_ext s k r)
  | refReserveCapacity k c => exact ext _ (refReserveCapacity_ext s k c)
  | pollCapacity k t => exact ext _ (pollCapacity_ext s k t)
  | pollReset k m t => exact ext _ (pollReset_ext s k m t)
  | recvPollResponse n k t => exact ext _ (recvPollResponse_ext n s k t)
  | recvPollInformational k t => exact ext _ (recvPollInformational_ext s k t)
  | refPollData k t => exact ext _ (refPollData_ext s k t)
  | recvPollTrailers k t => exact ext _ (recvPollTrailers_ext s k t)
  | refReleaseCapacity k c => exact inv _ (refReleaseCapacity_inv h k c)
  | refClearRecvBuffer k => exact inv _ (refClearRecvBuffer_inv h k)
  | refPollPushed k t => exact ext _ (refPollPushed_ext s k t)
  | wake t => exact ext _ (wake_ext s t)
  | clearWakes => exact ext _ (clearWakes_ext s)
  | panic m => exact ext _ (panic_ext s m)

/-- reachable states, with what the application configured on the way -/
inductive Reach : Ghost → Streams → Prop where
  | init {s : Streams} : Init s → Reach Ghost.init s
  | step {g : Ghost} {s : Streams} (op : Op) : Reach g s → op.valid s → Reach (op.ghost g) (op.apply s)

/-- reachable through calls that are all `ok` -/
inductive ReachOk : Ghost → Streams → Prop where
  | init {s : Streams} : Init s → ReachOk Ghost.init s
  | step {g : Ghost} {s : Streams} (op : Op) : ReachOk g s → op.valid s → op.ok s → ReachOk (op.ghost g) (op.apply s)

theorem ReachOk.reach {g : Ghost} {s : Streams} (h : ReachOk g s) : Reach g s := by
  induction h with
  | init hi => exact .init hi
  | step op _ hv _ ih => exact .step op ih hv

/-- **connection-level invariant, every history** -/
theorem reach_inv {g : Ghost} {s : Streams} (h : Reach g s) : Inv false g s := by
  induction h with
  | init hi => exact Inv.init hi false
  | step op _ hv ih => exact (op.step_inv ih hv).1

/-- **connection- and stream-level invariant, histories without the two connection errors** -/
theorem reachOk_inv {g : Ghost} {s : Streams} (h : ReachOk g s) : Inv true g s := by
  induction h with
  | init hi => exact Inv.init hi true
  | step op _ hv hok ih => exact (op.step_inv ih hv).2 hok

end H2V.Lemmas.ConnRecvP
