import H2V.Lemmas.ConnCtlPDead
import H2V.Lemmas.ConnCtlPView
/-
  ConnCtlP, part 8 — C15: the GOAWAY invariant.  `last_processed_id ≤ recv.max_stream_id`, the
  identifier announced in the last GOAWAY bounds `last_processed_id` from above (and equals
  `max_stream_id` as long as `go_away_now` has not run), the pending frame is the one announced.
  Under the invariant the `assert!`s of `GoAway::go_away` ("GOAWAY stream IDs shouldn't be higher")
  and `Recv::go_away` (`max_stream_id >= last_processed_id`) hold at each of their call sites.
-/
set_option autoImplicit false
set_option linter.unusedSimpArgs false
namespace H2V.Lemmas.ConnCtlP
open H2V H2V.Model H2V.Model.Conn

/-- the last-stream-id announced by the most recent GOAWAY built (`going_away`), if any -/
def gaLast (c : Conn) : Option Nat := c.goAway.goingAway.map (·.lastProcessedId)

/-- the GOAWAY invariant of a connection -/
structure GoAwayInv (c : Conn) : Prop where
  /-- `last_processed_id ≤ max_stream_id` -/
  lpi_le_max : (view c.streams).lpi ≤ (view c.streams).rmax
  /-- the announced id bounds the processed one -/
  lpi_le_ga : ∀ ga, c.goAway.goingAway = some ga → (view c.streams).lpi ≤ ga.lastProcessedId
  /-- before `go_away_now`, what is announced is what is enforced (`max_stream_id`) -/
  ga_eq_max : ∀ ga, c.goAway.goingAway = some ga → c.goAway.closeNow = false →
    ga.lastProcessedId = (view c.streams).rmax
  /-- no GOAWAY built yet: nothing is cut off -/
  none_max : c.goAway.goingAway = none → (view c.streams).rmax = STREAM_ID_MAX
  /-- the frame waiting to be written is the one announced -/
  pend : ∀ f, c.goAway.pending = some f →
    c.goAway.goingAway = some { lastProcessedId := f.lastStreamId, reason := f.reason }
  /-- `close_now` only together with `going_away` -/
  close_ga : c.goAway.closeNow = true → c.goAway.goingAway.isSome = true

theorem GoAwayInv.halting_of_closeNow {c : Conn} (h : GoAwayInv c) (hc : c.goAway.closeNow = true) : Halting c :=
  ⟨hc, h.close_ga hc⟩

/-- the invariant only looks at `goAway` and at the view of the streams -/
theorem GoAwayInv.congr {c c' : Conn} (h : GoAwayInv c) (hg : c'.goAway = c.goAway)
    (hv : view c'.streams = view c.streams) : GoAwayInv c' := by
  constructor
  · rw [hv]; exact h.lpi_le_max
  · rw [hv, hg]; exact h.lpi_le_ga
  · rw [hv, hg]; exact h.ga_eq_max
  · rw [hv, hg]; exact h.none_max
  · rw [hg]; exact h.pend
  · rw [hg]; exact h.close_ga

-- ===================================================================== GoAway::go_away / go_away_now

/-- the `assert!` of `GoAway::go_away` holds iff the new id is not above the announced one -/
theorem GoAway.goAway_ok_iff (g : GoAway) (f : GoAwayFrame) :
    (g.goAway f).2 = true ↔ ∀ ga, g.goingAway = some ga → f.lastStreamId ≤ ga.lastProcessedId := by
  unfold GoAway.goAway
  cases h : g.goingAway with
  | none => simp
  | some ga => simp

/-- `go_away_now`: either the very same GOAWAY was already announced (nothing new is queued), or
    `go_away(f)` runs -/
theorem GoAway.goAwayNow_cases (g : GoAway) (f : GoAwayFrame) :
    (g.goAwayNow f = ({ g with closeNow := true }, true) ∧
      g.goingAway = some { lastProcessedId := f.lastStreamId, reason := f.reason }) ∨
    (g.goAwayNow f = ({ g with closeNow := true } : GoAway).goAway f) := by
  unfold GoAway.goAwayNow
  dsimp only
  cases h : g.goingAway with
  | none => right; rfl
  | some ga =>
    dsimp only
    split
    · rename_i hc
      left
      refine ⟨rfl, ?_⟩
      simp at hc
      obtain ⟨h1, h2⟩ := hc
      cases ga
      simp_all
    · right; rfl

-- ===================================================================== DynConnection::go_away

/-- `Recv::go_away(id)` with `id ≤ max_stream_id`: the `assert!` holds, only `max_stream_id` changes -/
theorem recvGoAway_ok (s : Streams) (id : Nat) (h : id ≤ (view s).rmax) :
    s.recvGoAway id = s.modRecv (fun r => { r with maxStreamId := id }) ∧
    view (s.recvGoAway id) = { view s with rmax := id } ∧ (s.recvGoAway id).panicked = s.panicked ∧
    (s.recvGoAway id).store = s.store ∧ (s.recvGoAway id).counts = s.counts := by
  have h' : s.recv.maxStreamId ≥ id := h
  unfold Streams.recvGoAway
  rw [if_pos h']
  exact ⟨rfl, rfl, rfl, rfl, rfl⟩

/-- `DynConnection::go_away(id, e)` at a call site where `last_processed_id ≤ id ≤ max_stream_id`
    and `id` is not above the announced id: neither `assert!` fires (the streams are exactly
    `recv.go_away(id)`, no panic recorded), the GOAWAY(id, e) is queued, the invariant holds again -/
theorem dynGoAway_inv (c : Conn) (id : Nat) (e : Reason)
    (h1 : (view c.streams).lpi ≤ id) (h2 : id ≤ (view c.streams).rmax)
    (h3 : ∀ ga, c.goAway.goingAway = some ga → id ≤ ga.lastProcessedId) :
    GoAwayInv (c.dynGoAway id e) ∧ (c.dynGoAway id e).streams = c.streams.recvGoAway id ∧
    (c.dynGoAway id e).goAway.pending = some { lastStreamId := id, reason := e } ∧
    (c.dynGoAway id e).goAway.goingAway = some { lastProcessedId := id, reason := e } ∧
    (c.dynGoAway id e).goAway.closeNow = c.goAway.closeNow ∧
    (c.dynGoAway id e).streams.panicked = c.streams.panicked := by
  obtain ⟨-, hv, hnp, -, -⟩ := recvGoAway_ok c.streams id h2
  have hok : (c.goAway.goAway { lastStreamId := id, reason := e }).2 = true :=
    (GoAway.goAway_ok_iff _ _).2 h3
  have heq : c.dynGoAway id e = { c with streams := c.streams.recvGoAway id, goAway := (c.goAway.goAway { lastStreamId := id, reason := e }).1 } := by
    unfold Conn.dynGoAway
    dsimp only
    rw [if_pos hok]
  rw [heq]
  refine ⟨?_, rfl, rfl, rfl, rfl, hnp⟩
  constructor
  · dsimp only; rw [hv]; exact h1
  · intro ga hga; dsimp only at hga ⊢; rw [hv]; simp [GoAway.goAway] at hga; subst hga; exact h1
  · intro ga hga _; dsimp only at hga ⊢; rw [hv]; simp [GoAway.goAway] at hga; subst hga; rfl
  · intro hn; simp [GoAway.goAway] at hn
  · intro f hf; simp [GoAway.goAway] at hf ⊢; subst hf; exact ⟨rfl, rfl⟩
  · intro _; rfl

-- ===================================================================== go_away_now

/-- `DynConnection::go_away_now(e)` never trips the `assert!`: it announces `last_processed_id`,
    which the invariant keeps below the announced id -/
theorem goAwayNow_ok (c : Conn) (e : Reason) (d : Bytes) (isUser : Bool) (h : GoAwayInv c) :
    (({ c.goAway with isUserInitiated := isUser } : GoAway).goAwayNow
      { lastStreamId := c.streams.recv.lastProcessedId, reason := e, debugData := d }).2 = true := by
  rcases GoAway.goAwayNow_cases { c.goAway with isUserInitiated := isUser }
    { lastStreamId := c.streams.recv.lastProcessedId, reason := e, debugData := d } with ⟨h1, -⟩ | h1
  · rw [h1]
  · rw [h1]
    exact (GoAway.goAway_ok_iff _ _).2 (fun ga hga => h.lpi_le_ga ga hga)

/-- the `GoAway` value after `go_away_now(last_processed_id, e, d)` under the invariant -/
theorem goAwayNow_result (c : Conn) (e : Reason) (d : Bytes) (isUser : Bool) (h : GoAwayInv c) :
    let g' := (({ c.goAway with isUserInitiated := isUser } : GoAway).goAwayNow
      { lastStreamId := c.streams.recv.lastProcessedId, reason := e, debugData := d }).1
    g'.closeNow = true ∧
    g'.goingAway = some { lastProcessedId := c.streams.recv.lastProcessedId, reason := e } ∧
    g'.isUserInitiated = isUser ∧
    (g'.pending = some { lastStreamId := c.streams.recv.lastProcessedId, reason := e, debugData := d } ∨
      (g'.pending = c.goAway.pending ∧
        c.goAway.goingAway = some { lastProcessedId := c.streams.recv.lastProcessedId, reason := e })) := by
  intro g'
  rcases GoAway.goAwayNow_cases { c.goAway with isUserInitiated := isUser }
    { lastStreamId := c.streams.recv.lastProcessedId, reason := e, debugData := d } with ⟨h1, h2⟩ | h1
  · have : g' = { ({ c.goAway with isUserInitiated := isUser } : GoAway) with closeNow := true } := by
      show (GoAway.goAwayNow _ _).1 = _; rw [h1]
    rw [this]
    exact ⟨rfl, h2, rfl, Or.inr ⟨rfl, h2⟩⟩
  · have : g' = (({ ({ c.goAway with isUserInitiated := isUser } : GoAway) with closeNow := true } : GoAway).goAway
        { lastStreamId := c.streams.recv.lastProcessedId, reason := e, debugData := d }).1 := by
      show (GoAway.goAwayNow _ _).1 = _; rw [h1]
    rw [this]
    exact ⟨rfl, rfl, rfl, Or.inl rfl⟩

theorem goAwayNowData_eq (c : Conn) (e : Reason) (d : Bytes) (h : GoAwayInv c) :
    c.goAwayNowData e d = { c with goAway := (c.goAway.goAwayNow
      { lastStreamId := c.streams.recv.lastProcessedId, reason := e, debugData := d }).1 } := by
  have := goAwayNow_ok c e d c.goAway.isUserInitiated h
  unfold Conn.goAwayNowData
  dsimp only
  rw [if_pos this]

/-- `go_away_now` keeps the invariant and records no panic -/
theorem goAwayNowData_inv (c : Conn) (e : Reason) (d : Bytes) (h : GoAwayInv c) :
    GoAwayInv (c.goAwayNowData e d) ∧ (c.goAwayNowData e d).streams = c.streams := by
  rw [goAwayNowData_eq c e d h]
  obtain ⟨r1, r2, r3, r4⟩ := goAwayNow_result c e d c.goAway.isUserInitiated h
  refine ⟨?_, rfl⟩
  constructor
  · exact h.lpi_le_max
  · intro ga hga
    dsimp only at hga
    rw [r2] at hga
    cases hga
    exact Nat.le_refl _
  · intro ga _ hcn
    dsimp only at hcn
    rw [r1] at hcn
    cases hcn
  · intro hn
    dsimp only at hn
    rw [r2] at hn
    cases hn
  · intro f hf
    dsimp only at hf ⊢
    rcases r4 with r4 | ⟨r4, r5⟩
    · rw [r4] at hf; cases hf; exact r2
    · rw [r4] at hf
      have := h.pend f hf
      rw [r5] at this
      rw [r2]
      exact this
  · intro _
    dsimp only
    rw [r2]; rfl

-- ===================================================================== the initial states

theorem view_modRecv_flow (s : Streams) (fl : FlowControl) :
    view (s.modRecv fun rc => { rc with flow := fl }) = view s := rfl

theorem view_setTargetConnectionWindow' (s : Streams) (n : Nat) : view (s.setTargetConnectionWindow n).1 = view s := by
  have hite : ∀ (c : Prop) [Decidable c] (a b : Streams), view (if c then a else b) = if c then view a else view b := by
    intro c _ a b; split <;> rfl
  unfold Streams.setTargetConnectionWindow
  (repeat' split) <;> simp [view_modRecv_flow, hite]

theorem GoAwayInv.of_fresh {c : Conn} (h1 : c.goAway.goingAway = none) (h2 : c.goAway.pending = none)
    (h3 : c.goAway.closeNow = false) (h4 : (view c.streams).lpi = 0) (h5 : (view c.streams).rmax = STREAM_ID_MAX) :
    GoAwayInv c := by
  constructor
  · rw [h4]; exact Nat.zero_le _
  · intro ga hga; rw [h1] at hga; cases hga
  · intro ga hga; rw [h1] at hga; cases hga
  · intro _; exact h5
  · intro f hf; rw [h2] at hf; cases hf
  · intro hc; rw [h3] at hc; cases hc

/-- the invariant holds for a fresh client connection, whatever the builder options -/
theorem goAwayInv_init (g : Conn.Cfg) : GoAwayInv (Conn.init g) := by
  unfold Conn.init
  dsimp only
  split
  · apply GoAwayInv.of_fresh <;> first | rfl | (unfold Conn.setTargetWindowSize; dsimp only; rw [view_setTargetConnectionWindow']; rfl)
  · apply GoAwayInv.of_fresh <;> rfl

/-- … and for a fresh server connection -/
theorem goAwayInv_initServer (g : Conn.Cfg) (ecp : Bool) (peer : Bytes) : GoAwayInv (Conn.initServer g ecp peer) := by
  unfold Conn.initServer
  dsimp only
  split
  · apply GoAwayInv.of_fresh <;> first | rfl | (unfold Conn.setTargetWindowSize; dsimp only; rw [view_setTargetConnectionWindow']; rfl)
  · apply GoAwayInv.of_fresh <;> rfl

end H2V.Lemmas.ConnCtlP
