import H2V.Lemmas.ConnNoPanicPShapeP
/-
  C08 (no panic) — PUSH_PROMISE bookkeeping, part 1: no light function writes `pending_push_promises`
  (frame `PP`, peeling tactic `pp_auto` with lemmas `f_pp` found by name).
-/
namespace H2V.Lemmas.ConnNoPanicP
open H2V H2V.Model H2V.Model.Conn H2V.Lemmas.ConnCountsP
attribute [local irreducible] wrapSubU32 wrapSubUsize

/-- `pending_push_promises` of every entry is unchanged -/
structure PP (s s' : Streams) : Prop where
  live : ∀ j, Live s' j → Live s j
  eq : ∀ j, Live s' j → (s'.stream j).pendingPushPromises = (s.stream j).pendingPushPromises

theorem PP.refl (s : Streams) : PP s s := ⟨fun _ h => h, fun _ _ => rfl⟩
theorem PP.trans {a b c : Streams} (h1 : PP a b) (h2 : PP b c) : PP a c :=
  ⟨fun j h => h1.live j (h2.live j h), fun j h => (h2.eq j h).trans (h1.eq j (h2.live j h))⟩
theorem PP.of_spr {s s' : Streams} (hk : SameKeys s s') (h : SPr (·.pendingPushPromises) s s') : PP s s' :=
  ⟨fun _ hl => hk.live.mp hl, fun j _ => h j⟩
theorem PP.of_store {s s' : Streams} (h : s'.store = s.store) : PP s s' :=
  .of_spr (.of_store_eq h) (SPr.of_store (P := (·.pendingPushPromises)) h)
theorem PP.of_fst_eq {s : Streams} {α : Type} {p : Streams × α} {a : Streams} {x : α}
    (h : p = (a, x)) (e : PP s p.1) : PP s a := by subst h; exact e

theorem wake_pp (s : Streams) (t : List String) : PP s (s.wake t) := .of_store rfl
theorem notifyTask_pp (s : Streams) : PP s s.notifyTask := .of_store (notifyTask_store s)
theorem unsup_pp (s : Streams) (m : String) : PP s (s.unsup m) := by
  unfold Streams.unsup; split
  · exact .refl _
  · exact .of_store rfl
theorem panic_pp (s : Streams) (m : String) : PP s (s.panic m) := .of_store (panic_store _ _)
theorem modPrio_pp (s : Streams) (f : Prioritize → Prioritize) : PP s (s.modPrio f) := .of_store rfl
theorem modRecv_pp (s : Streams) (f : Recv → Recv) : PP s (s.modRecv f) := .of_store rfl
theorem modSend_pp (s : Streams) (f : Send → Send) : PP s (s.modSend f) := .of_store rfl
theorem modCounts_pp (s : Streams) (f : Counts → Counts) : PP s (s.modCounts f) := .of_store rfl
theorem modCountsA_pp (s : Streams) (w : String) (f : Counts → Option Counts) : PP s (s.modCountsA w f) :=
  .of_store (modCountsA_store' _ _ _)
theorem setMisc_pp (s : Streams) (a : Actions) (refs leaked : Nat) (wk : List String) (un : Option String) :
    PP s { s with actions := a, refs := refs, recvBufferLeaked := leaked, wakes := wk, unsupported := un } := .of_store rfl
theorem setCounts_pp (s : Streams) (c : Counts) : PP s { s with counts := c } := .of_store rfl
theorem setQ_pp (s : Streams) (q : QName) (l : List Nat) : PP s (s.setQ q l) := .of_store (setQ_store _ _ _)

theorem modStreamW_lt' (s : Streams) (k : Nat) (f : Stream → Stream × List String) : SameKeys s (s.modStreamW k f) := by
  unfold Streams.modStreamW; split
  · exact (SameKeys.setStream _ _).trans (.of_store_eq rfl)
  · exact SameKeys.panic' _ _

theorem modStream_pp (s : Streams) (k : Nat) (f : Stream → Stream) (hk : ∀ x, (f x).key = x.key)
    (h : ∀ x, (f x).pendingPushPromises = x.pendingPushPromises) : PP s (s.modStream k f) :=
  .of_spr (SameKeys.modStream _ _ _) (SPr.modStream (P := (·.pendingPushPromises)) s k f hk h)
theorem modStreamW_pp (s : Streams) (k : Nat) (f : Stream → Stream × List String) (hk : ∀ x, (f x).1.key = x.key)
    (h : ∀ x, (f x).1.pendingPushPromises = x.pendingPushPromises) : PP s (s.modStreamW k f) :=
  .of_spr (modStreamW_lt' s k f) (SPr.modStreamW (P := (·.pendingPushPromises)) s k f hk h)
theorem setStream_pp (s : Streams) (k : Nat) (st' : Stream) (hk : st'.key = k)
    (h : st'.pendingPushPromises = (s.stream k).pendingPushPromises) : PP s (s.setStream st') :=
  .of_spr (SameKeys.setStream _ _) (SPr.setStream (P := (·.pendingPushPromises)) s k st' hk h)

theorem setQueued_ppp (x : Stream) (q : QName) (v : Bool) : (x.setQueued q v).pendingPushPromises = x.pendingPushPromises := by
  cases q <;> rfl
theorem qPush_pp (s : Streams) (q : QName) (k : Nat) : PP s (s.qPush q k).1 := .of_spr (SameKeys.qPush _ _ _) (qPush_spr _ _ _ (fun x v => setQueued_ppp x q v))
theorem qPushFront_pp (s : Streams) (q : QName) (k : Nat) : PP s (s.qPushFront q k).1 :=
  .of_spr (SameKeys.qPushFront _ _ _) (qPushFront_spr _ _ _ (fun x v => setQueued_ppp x q v))
theorem qPop_pp (s : Streams) (q : QName) : PP s (s.qPop q).1 := .of_spr (SameKeys.qPop _ _) (qPop_spr _ _ (fun x v => setQueued_ppp x q v))

-- stream methods
theorem notifySend_ppp (x : Stream) : x.notifySend.1.pendingPushPromises = x.pendingPushPromises := by
  unfold Stream.notifySend
  cases h1 : x.sendTask <;> cases h2 : x.openTask <;> simp [h1, h2]
theorem notifyRecv_ppp (x : Stream) : x.notifyRecv.1.pendingPushPromises = x.pendingPushPromises := by
  unfold Stream.notifyRecv; split <;> rfl
theorem notifyPush_ppp (x : Stream) : x.notifyPush.1.pendingPushPromises = x.pendingPushPromises := by
  unfold Stream.notifyPush; split <;> rfl
theorem notifyCapacity_ppp (x : Stream) : x.notifyCapacity.1.pendingPushPromises = x.pendingPushPromises := by
  unfold Stream.notifyCapacity; rw [notifySend_ppp]
theorem assignCapacity_ppp (x : Stream) (a b : Nat) : (x.assignCapacity a b).1.pendingPushPromises = x.pendingPushPromises := by
  unfold Stream.assignCapacity; simp only []; split
  · rw [notifyCapacity_ppp]
  · rfl
theorem setReset_ppp (x : Stream) (r : Reason) (i : Initiator) : (x.setReset r i).1.pendingPushPromises = x.pendingPushPromises := by
  unfold Stream.setReset; simp only []
  rw [notifyRecv_ppp, notifyPush_ppp, notifySend_ppp]
theorem waitSend_ppp (x : Stream) (t : String) : (x.waitSend t).pendingPushPromises = x.pendingPushPromises := rfl
theorem waitOpen_ppp (x : Stream) (t : String) : (x.waitOpen t).pendingPushPromises = x.pendingPushPromises := rfl

/-- side conditions -/
syntax "pp_side" : tactic
macro_rules | `(tactic| pp_side) => `(tactic| (intro _; rfl))
macro_rules | `(tactic| pp_side) => `(tactic| (intro _; first
  | exact notifySend_ppp _ | exact notifyRecv_ppp _ | exact notifyPush_ppp _ | exact notifyCapacity_ppp _
  | exact assignCapacity_ppp _ _ _ | exact setReset_ppp _ _ _
  | exact (notifySend_inert _).key | exact (notifyRecv_inert _).key | exact (notifyPush_inert _).key
  | exact (notifyCapacity_inert _).key | exact (assignCapacity_inert _ _ _).key | exact (setReset_inert _ _ _).key))
macro_rules | `(tactic| pp_side) => `(tactic| assumption)

open Lean Elab Tactic Meta in
/-- goal `PP s0 (f … s …)` (possibly under `.1`): peel `f` with the lemma `f_pp` found by name -/
elab "pp_head" : tactic => withMainContext do
  let g ← getMainGoal
  let t ← instantiateMVars (← g.getType)
  let t := t.cleanupAnnotations
  unless t.isAppOfArity ``PP 2 do throwError "pp_head: not a PP goal"
  let e := t.appArg!
  let rec headOf (e : Expr) (fuel : Nat) : Option Name :=
    match fuel with
    | 0 => none
    | fuel + 1 =>
      match e with
      | .proj _ _ b => headOf b fuel
      | .mdata _ b => headOf b fuel
      | _ =>
        match e.getAppFn with
        | .const n _ =>
          if n == ``Prod.fst || n == ``Prod.snd then
            match e.getAppArgs.back? with
            | some a =>
              if a.isAppOfArity ``Prod.mk 4 then
                headOf (if n == ``Prod.fst then a.getAppArgs[2]! else a.getAppArgs[3]!) fuel
              else headOf a fuel
            | none => none
          else some n
        | _ => none
  match headOf e 8 with
  | none => throwError "pp_head: no head constant"
  | some n =>
    if n == ``Streams.mk then
      evalTactic (← `(tactic| first
        | with_reducible refine PP.trans ?_ (setMisc_pp _ _ _ _ _ _)
        | with_reducible refine PP.trans ?_ (setCounts_pp _ _)))
    else
    let last := match n with
      | .str _ s => s
      | _ => "?"
    let lemmaName := (`H2V.Lemmas.ConnNoPanicP).str (last ++ "_pp")
    unless (← getEnv).contains lemmaName do throwError "pp_head: no lemma {lemmaName}"
    let gs ← g.apply (← mkConstWithFreshMVarLevels ``PP.trans)
    let gs ← gs.filterM fun m => do
      let ty ← instantiateMVars (← m.getType)
      pure (ty.cleanupAnnotations.isAppOfArity ``PP 2)
    match gs with
    | [g1, g2] =>
      let side ← withReducible (g2.apply (← mkConstWithFreshMVarLevels lemmaName))
      replaceMainGoal (g1 :: side)
    | _ => throwError "pp_head: unexpected goals after PP.trans"

syntax "pp_step" : tactic
macro_rules | `(tactic| pp_step) => `(tactic| pp_head)
macro_rules | `(tactic| pp_step) => `(tactic| with_reducible refine PP.of_fst_eq (by with_reducible assumption) ?_)
macro_rules | `(tactic| pp_step) => `(tactic| with_reducible assumption)
macro_rules | `(tactic| pp_step) => `(tactic| with_reducible exact PP.refl _)

macro "pp_auto" : tactic => `(tactic| repeat (first | pp_step | pp_side | intro _ | split | dsimp only))

theorem transitionAfter_pp (s : Streams) (k : Nat) (b : Bool) : PP s (s.transitionAfter k b) := by
  obtain ⟨m, hfr, _, hfin⟩ := transitionAfter_shapeP (·.pendingPushPromises) (fun _ _ => rfl) s k b
  rcases hfin with e | ⟨_, _, e⟩
  · refine ⟨fun j hl => hfr.fr.keys.live.mp (by unfold Live at hl ⊢; rw [← e]; exact hl), fun j _ => ?_⟩
    have : (s.transitionAfter k b).stream j = m.stream j := by unfold Streams.stream; rw [e]
    rw [this]; exact hfr.p j
  · have hsub : ∀ j, Live (s.transitionAfter k b) j → Live m j ∧ (s.transitionAfter k b).stream j = m.stream j := by
      intro j hl
      have hjk : j ≠ k := by
        intro hjk; subst hjk
        obtain ⟨x, hx⟩ := hl
        rw [e, remove_get?_self] at hx; cases hx
      unfold Live Streams.stream at *
      rw [e, get?_remove_ne _ _ _ hjk] at *
      exact ⟨hl, rfl⟩
    exact ⟨fun j hl => hfr.fr.keys.live.mp (hsub j hl).1, fun j hl => by rw [(hsub j hl).2]; exact hfr.p j⟩

theorem scheduleSend_pp (s : Streams) (k : Nat) : PP s (s.scheduleSend k) := by
  unfold Streams.scheduleSend; pp_auto
theorem queueFrame_pp (s : Streams) (k : Nat) (f : SFrame) : PP s (s.queueFrame k f) := by
  unfold Streams.queueFrame; pp_auto
theorem tryAssignCapacity_pp (s : Streams) (k : Nat) : PP s (s.tryAssignCapacity k) := by
  unfold Streams.tryAssignCapacity; pp_auto

end H2V.Lemmas.ConnNoPanicP
