import H2V.Lemmas.ConnNoPanicPStreams
import H2V.Lemmas.ConnWakePForEach
import H2V.Lemmas.ConnWakePEndAll
/-
  C08 (no panic) — part 6: the functions that release streams.  `transition_after` in detail (its
  effect on slab and id map, when its `assert!`s can fire), the id-map invariant `IdsOK`, and the
  full invariant `NPI` (= `NPQ` + the counting invariants of ConnCountsP + `IdsOK`).
-/
namespace H2V.Lemmas.ConnNoPanicP
open H2V H2V.Model H2V.Model.Conn H2V.Lemmas.ConnCountsP

theorem nodup_fst_idx {l : List (Nat × Nat)} (hnd : (l.map (·.1)).Nodup) {a b : Nat} {p q : Nat × Nat}
    (ha : l[a]? = some p) (hb : l[b]? = some q) (h : p.1 = q.1) : a = b := by
  have hal : a < (l.map (·.1)).length := by
    rcases Nat.lt_or_ge a l.length with h | h
    · simpa using h
    · rw [List.getElem?_eq_none h] at ha; cases ha
  have hbl : b < (l.map (·.1)).length := by
    rcases Nat.lt_or_ge b l.length with h | h
    · simpa using h
    · rw [List.getElem?_eq_none h] at hb; cases hb
  have ha' : (l.map (·.1))[a] = p.1 := by
    have : l[a]'(by simpa using hal) = p := by
      have := List.getElem?_eq_getElem (l := l) (i := a) (by simpa using hal)
      rw [ha] at this; cases this; rfl
    simp [this]
  have hb' : (l.map (·.1))[b] = q.1 := by
    have : l[b]'(by simpa using hbl) = q := by
      have := List.getElem?_eq_getElem (l := l) (i := b) (by simpa using hbl)
      rw [hb] at this; cases this; rfl
    simp [this]
  exact (List.getElem_inj hnd).mp (by rw [ha', hb', h])

/-- after `swap_remove(id)` no entry of the id map carries that id -/
theorem swapRemove_not_mem {l : List (Nat × Nat)} (hnd : (l.map (·.1)).Nodup) (x : Nat) :
    ∀ e ∈ Store.swapRemove l x, e.1 ≠ x := by
  intro e' he' hx'
  cases hf : l.findIdx? (·.1 == x) with
  | none =>
    have : Store.swapRemove l x = l := by unfold Store.swapRemove; rw [hf]
    rw [this] at he'
    have := List.findIdx?_eq_none_iff.mp hf e' he'
    simp [hx'] at this
  | some i =>
    obtain ⟨hil, hix, _⟩ := List.findIdx?_eq_some_iff_getElem.mp hf
    have hie : l[i]? = some l[i] := List.getElem?_eq_getElem hil
    have hix' : (l[i]).1 = x := by simpa using hix
    have hne : l ≠ [] := by intro h; subst h; simp at hil
    obtain ⟨last, hl⟩ : ∃ last, l.getLast? = some last := ⟨l.getLast hne, List.getLast?_eq_some_getLast hne⟩
    have hlast : l[l.length - 1]? = some last := by
      rw [List.getLast?_eq_getElem?] at hl; exact hl
    have hsr := ConnWakeP.swapRemove_at hnd hie hl
    rw [hix'] at hsr
    rw [hsr] at he'
    obtain ⟨j, hj⟩ := List.mem_iff_getElem?.mp he'
    -- an index `j' ≠ i` of `l` holding `e'`
    have : ∃ j', j' ≠ i ∧ l[j']? = some e' := by
      split at hj
      · next hlen =>
        rw [List.getElem?_dropLast] at hj
        split at hj
        · next hjl => exact ⟨j, by omega, hj⟩
        · cases hj
      · next hlen =>
        rw [List.getElem?_set] at hj
        split at hj
        · next hij =>
          split at hj
          · cases hj; exact ⟨l.length - 1, by omega, hlast⟩
          · cases hj
        · next hij =>
          rw [List.getElem?_dropLast] at hj
          split at hj
          · exact ⟨j, fun h => hij h.symm, hj⟩
          · cases hj
    obtain ⟨j', hji, hj'⟩ := this
    exact hji (nodup_fst_idx hnd hj' hie (hx'.trans hix'.symm))

theorem decNumStreams_inner_store (s : Streams) (k : Nat) :
    ∃ t : Streams, t.store = s.store ∧ s.decNumStreams k = t.modStream k fun st => { st with isCounted := false } := by
  unfold Streams.decNumStreams
  dsimp only
  generalize hs1 : (if (s.stream k).isCounted = true then s else s.panic _) = s1
  have h1 : s1.store = s.store := by rw [← hs1]; split; rfl; exact panic_store _ _
  split
  · generalize hs2 : (if s1.counts.numSendStreams > 0 then s1 else s1.panic _) = s2
    have h2 : s2.store = s1.store := by rw [← hs2]; split; rfl; exact panic_store _ _
    exact ⟨_, (show (s2.modCounts _).store = _ from h2.trans h1), rfl⟩
  · generalize hs2 : (if s1.counts.numRecvStreams > 0 then s1 else s1.panic _) = s2
    have h2 : s2.store = s1.store := by rw [← hs2]; split; rfl; exact panic_store _ _
    exact ⟨_, (show (s2.modCounts _).store = _ from h2.trans h1), rfl⟩

theorem decNumStreams_spr {α : Type} {P : Stream → α} (s : Streams) (k : Nat)
    (h : ∀ x b, P ({ x with isCounted := b } : Stream) = P x) : SPr P s (s.decNumStreams k) := by
  obtain ⟨t, ht, e⟩ := decNumStreams_inner_store s k
  rw [e]
  exact (SPr.of_store ht).trans (SPr.modStream _ _ _ (fun _ => rfl) (fun x => h x false))

theorem decNumStreams_av (s : Streams) (k : Nat) (h : AvOK s) : AvOK (s.decNumStreams k) := by
  obtain ⟨t, ht, e⟩ := decNumStreams_inner_store s k
  rw [e]
  exact avOK_modStream_flow _ _ (fun _ => rfl) (by unfold AvOK; rw [ht]; exact h)

/-- a step that keeps keys, stream ids, reference counts, capacities; the id map is given separately -/
structure Fr (s m : Streams) : Prop where
  keys : SameKeys s m
  sid : SPr (·.id) s m
  ref : SPr (·.refCount) s m
  core : SPr coreOf s m
  av : AvOK s → AvOK m

theorem Fr.refl (s : Streams) : Fr s s := ⟨SameKeys.refl _, SPr.refl _ _, SPr.refl _ _, SPr.refl _ _, id⟩
theorem Fr.trans {a b c : Streams} (h1 : Fr a b) (h2 : Fr b c) : Fr a c :=
  ⟨h1.keys.trans h2.keys, h1.sid.trans h2.sid, h1.ref.trans h2.ref, h1.core.trans h2.core, fun h => h2.av (h1.av h)⟩
theorem Fr.of_store {s m : Streams} (h : m.store = s.store) : Fr s m :=
  ⟨.of_store_eq h, .of_store h, .of_store h, .of_store h, fun ha => by unfold AvOK; rw [h]; exact ha⟩
theorem Fr.of_slab {s m : Streams} (h : m.store.slab = s.store.slab) (hn : m.store.nextKey = s.store.nextKey) : Fr s m := by
  have hst : ∀ j, m.stream j = s.stream j := fun j => by unfold Streams.stream Store.get?; rw [h]
  exact ⟨⟨by rw [h], hn⟩, fun j => by rw [hst], fun j => by rw [hst], fun j => by rw [hst],
    fun ha => by unfold AvOK; rw [h]; exact ha⟩
theorem Fr.decNumStreams (s : Streams) (k : Nat) : Fr s (s.decNumStreams k) :=
  ⟨SameKeys.decNumStreams _ _, decNumStreams_spr _ _ (fun _ _ => rfl), decNumStreams_spr _ _ (fun _ _ => rfl),
   decNumStreams_spr _ _ (fun _ _ => rfl), decNumStreams_av _ _⟩

theorem modCountsA_store' (s : Streams) (m : String) (f : Counts → Option Counts) : (s.modCountsA m f).store = s.store := by
  unfold Streams.modCountsA; split
  · rfl
  · exact panic_store _ _

theorem isClosed_of_core' {a b : Stream} (h : coreOf b = coreOf a) : b.isClosed = a.isClosed := isClosed_of_core h

/-- **what `transition_after` does to the store**: up to a frame step `m` (counters, `is_counted`) the id
    map loses the stream's id exactly when the stream is closed and not remembered for reset expiration,
    and the slab loses exactly entry `k`, and only in that case -/
theorem transitionAfter_shape (s : Streams) (k : Nat) (b : Bool) :
    ∃ m : Streams, Fr s m ∧
      (m.store.ids = if ((s.stream k).isClosed && !(s.stream k).resetAt) = true
                     then Store.swapRemove s.store.ids (s.stream k).id else s.store.ids) ∧
      ((s.transitionAfter k b).store = m.store ∨
       ((s.stream k).isClosed = true ∧ (s.stream k).resetAt = false ∧ (s.transitionAfter k b).store = m.store.remove k)) := by
  rw [transitionAfter_split]
  generalize hs1 : (if (b && !(s.stream k).isPendingResetExpiration) = true then
      s.modCountsA "self.num_local_reset_streams > 0" Counts.decNumResetStreams else s) = s1
  have h1 : s1.store = s.store := by rw [← hs1]; split; exact modCountsA_store' _ _ _; rfl
  have hst : s1.stream k = s.stream k := by unfold Streams.stream; rw [h1]
  unfold Streams.transitionAfter
  simp only [Bool.false_and, Bool.false_eq_true, if_false]
  rw [hst]
  generalize hs2 : (if (s.stream k).isClosed = true then _ else s1) = s2
  have h2 : Fr s s2 ∧ s2.store.ids = (if ((s.stream k).isClosed && !(s.stream k).resetAt) = true
      then Store.swapRemove s.store.ids (s.stream k).id else s.store.ids) := by
    rw [← hs2]
    split
    · next hc =>
      generalize hs3 : (if (!(s.stream k).isPendingResetExpiration) = true then
          ({ s1 with store := s1.store.unlink (s.stream k).id } : Streams) else s1) = s3
      have h3 : Fr s s3 ∧ s3.store.ids = (if ((s.stream k).isClosed && !(s.stream k).resetAt) = true
          then Store.swapRemove s.store.ids (s.stream k).id else s.store.ids) := by
        rw [← hs3]
        cases hr : (s.stream k).resetAt
        · simp only [Stream.isPendingResetExpiration, hr, hc, Bool.not_false, Bool.and_self, if_true]
          exact ⟨Fr.of_slab (by show s1.store.slab = _; rw [h1]) (by show s1.store.nextKey = _; rw [h1]),
            by show Store.swapRemove s1.store.ids _ = _; rw [h1]⟩
        · simp only [Stream.isPendingResetExpiration, hr, hc, Bool.not_true, Bool.and_false, Bool.false_eq_true, if_false]
          exact ⟨Fr.of_store h1, by rw [h1]⟩
      split
      · exact ⟨h3.1.trans (Fr.decNumStreams _ _), by rw [ConnWakeP.decNumStreams_ids]; exact h3.2⟩
      · exact h3
    · next hc =>
      simp only [hc, Bool.false_and, Bool.false_eq_true, if_false]
      exact ⟨Fr.of_store h1, by rw [h1]⟩
  by_cases hrel : (s2.stream k).isReleased = true
  · simp only [hrel, if_true]
    have hcl : (s.stream k).isClosed = true ∧ (s.stream k).resetAt = false := by
      have hc2 : (s2.stream k).isClosed = true ∧ (s2.stream k).resetAt = false := by
        unfold Stream.isReleased at hrel
        simp only [Bool.and_eq_true, Bool.not_eq_true', beq_iff_eq] at hrel
        exact ⟨hrel.1.1.1.1.1.1.1, hrel.2⟩
      rw [isClosed_of_core (h2.1.core k), resetAt_of_core (h2.1.core k)] at hc2
      exact hc2
    refine ⟨if (s2.stream k).isCounted = true then s2.decNumStreams k else s2, ?_, ?_, Or.inr ⟨hcl.1, hcl.2, rfl⟩⟩
    · split
      · exact h2.1.trans (Fr.decNumStreams _ _)
      · exact h2.1
    · split
      · rw [ConnWakeP.decNumStreams_ids]; exact h2.2
      · exact h2.2
  · simp only [hrel, Bool.false_eq_true, if_false]
    exact ⟨s2, h2.1, h2.2, Or.inl rfl⟩

theorem live_of_counted {s : Streams} {k : Nat} (h : (s.stream k).isCounted = true) : Live s k := by
  unfold Streams.stream at h
  cases hx : s.store.get? k with
  | some x => exact ⟨x, hx⟩
  | none => rw [hx] at h; cases h

theorem decNumStreams_np (s : Streams) (k : Nat) (hp : s.panicked = none) (hc : (s.stream k).isCounted = true)
    (hs : s.counts.isLocalInit (s.stream k).id = true → s.counts.numSendStreams > 0)
    (hr : s.counts.isLocalInit (s.stream k).id = false → s.counts.numRecvStreams > 0) :
    (s.decNumStreams k).panicked = none ∧ ((s.decNumStreams k).stream k).isCounted = false := by
  have hl := live_of_counted hc
  obtain ⟨x, hx⟩ := hl
  unfold Streams.decNumStreams
  simp only [hc, if_true]
  cases hloc : s.counts.isLocalInit (s.stream k).id
  · simp only [Bool.false_eq_true, if_false, hr hloc, if_true]
    have hl' : Live (s.modCounts fun c => { c with numRecvStreams := c.numRecvStreams - 1 }) k := ⟨x, hx⟩
    refine ⟨by rw [modStream_panicked_live hl']; exact hp, ?_⟩
    unfold Streams.modStream Streams.stream
    have : (s.modCounts fun c => { c with numRecvStreams := c.numRecvStreams - 1 }).store.get? k = some x := hx
    rw [this]
    simp only [setStream_get?, this, Option.map_some, beq_self_eq_true, if_true, Option.getD_some]
  · simp only [if_true, hs hloc]
    have hl' : Live (s.modCounts fun c => { c with numSendStreams := c.numSendStreams - 1 }) k := ⟨x, hx⟩
    refine ⟨by rw [modStream_panicked_live hl']; exact hp, ?_⟩
    unfold Streams.modStream Streams.stream
    have : (s.modCounts fun c => { c with numSendStreams := c.numSendStreams - 1 }).store.get? k = some x := hx
    rw [this]
    simp only [setStream_get?, this, Option.map_some, beq_self_eq_true, if_true, Option.getD_some]

/-- no panic so far, and if entry `k` is counted its direction's counter is positive -/
def DecOK (k : Nat) (t : Streams) : Prop :=
  t.panicked = none ∧ ((t.stream k).isCounted = true →
    (t.counts.isLocalInit (t.stream k).id = true → t.counts.numSendStreams > 0) ∧
    (t.counts.isLocalInit (t.stream k).id = false → t.counts.numRecvStreams > 0))

theorem DecOK.of_eq {k : Nat} {s t : Streams} (h : DecOK k s) (hp : t.panicked = s.panicked) (hst : t.store = s.store)
    (hc : t.counts.numSendStreams = s.counts.numSendStreams ∧ t.counts.numRecvStreams = s.counts.numRecvStreams ∧
      t.counts.isServer = s.counts.isServer) : DecOK k t := by
  have hs : t.stream k = s.stream k := by unfold Streams.stream; rw [hst]
  unfold DecOK Counts.isLocalInit at *
  rw [hp, hs, hc.1, hc.2.1, hc.2.2]; exact h

theorem DecOK.dec {k : Nat} {s : Streams} (h : DecOK k s) (hc : (s.stream k).isCounted = true) : DecOK k (s.decNumStreams k) := by
  have := decNumStreams_np s k h.1 hc (h.2 hc).1 (h.2 hc).2
  exact ⟨this.1, fun hc' => by rw [this.2] at hc'; cases hc'⟩

/-- **when the `assert!`s of `transition_after` / `dec_num_streams` cannot fire** -/
theorem transitionAfter_np (s : Streams) (k : Nat) (b : Bool) (hd : DecOK k s)
    (hb : (b && !(s.stream k).resetAt) = true → s.counts.numLocalResetStreams > 0) :
    (s.transitionAfter k b).panicked = none := by
  rw [transitionAfter_split]
  generalize hs1 : (if (b && !(s.stream k).isPendingResetExpiration) = true then
      s.modCountsA "self.num_local_reset_streams > 0" Counts.decNumResetStreams else s) = s1
  have h1 : DecOK k s1 := by
    rw [← hs1]; split
    · next hc =>
      have hpos := hb hc
      have : s.modCountsA "self.num_local_reset_streams > 0" Counts.decNumResetStreams =
          { s with counts := { s.counts with numLocalResetStreams := s.counts.numLocalResetStreams - 1 } } := by
        unfold Streams.modCountsA Counts.decNumResetStreams; rw [if_pos hpos]
      rw [this]
      exact hd.of_eq rfl rfl ⟨rfl, rfl, rfl⟩
    · exact hd
  have hst : s1.stream k = s.stream k := by
    rw [← hs1]; split
    · unfold Streams.stream; rw [modCountsA_store']
    · rfl
  clear hs1 hd hb
  unfold Streams.transitionAfter
  simp only [Bool.false_and, Bool.false_eq_true, if_false]
  generalize hs2 : (if (s1.stream k).isClosed = true then _ else s1) = s2
  have h2 : DecOK k s2 := by
    rw [← hs2]
    split
    · generalize hs3 : (if (!(s1.stream k).isPendingResetExpiration) = true then
          ({ s1 with store := s1.store.unlink (s1.stream k).id } : Streams) else s1) = s3
      have h3 : DecOK k s3 ∧ s3.stream k = s1.stream k := by
        rw [← hs3]; split
        · have hs : ({ s1 with store := s1.store.unlink (s1.stream k).id } : Streams).stream k = s1.stream k := rfl
          refine ⟨?_, hs⟩
          unfold DecOK; rw [hs]; exact h1
        · exact ⟨h1, rfl⟩
      split
      · next hc =>
        refine h3.1.dec ?_
        rw [h3.2]
        simp only [Bool.and_eq_true] at hc
        exact hc.2
      · exact h3.1
    · exact h1
  clear hs2
  split
  · show (if (s2.stream k).isCounted = true then s2.decNumStreams k else s2).panicked = none
    split
    · next hc => exact (h2.dec hc).1
    · exact h2.1
  · exact h2.1

-- ===================================================================== counters are positive where `dec_num_streams` needs it

theorem countP_disj {α : Type} (P Q R : α → Bool) (l : List α) (hP : ∀ x, P x = true → R x = true)
    (hQ : ∀ x, Q x = true → R x = true) (hd : ∀ x, P x = true → Q x = true → False) :
    l.countP P + l.countP Q ≤ l.countP R := by
  induction l with
  | nil => simp
  | cons a l ih =>
    simp only [List.countP_cons]
    cases hp : P a <;> cases hq : Q a <;> cases hr : R a <;> simp <;> try omega
    · exact absurd (hQ a hq) (by simp [hr])
    · exact absurd (hP a hp) (by simp [hr])
    · exact (hd a hp hq).elim
    · exact (hd a hp hq).elim

/-- counted and initiated by the peer -/
def recvCounted (sv : Bool) (x : Stream) : Bool := x.isCounted && !locId sv x.id

theorem decOK_of_inv {E : Nat → Prop} {s : Streams} (hp : s.panicked = none) (h1 : Inv1 s)
    (h2 : Inv2 s.counts.isServer E s) (he : ErrOK s) (k : Nat) : DecOK k s := by
  refine ⟨hp, fun hc => ?_⟩
  obtain ⟨x, hx⟩ := live_of_counted hc
  have hxs : s.stream k = x := stream_of_get? hx
  have hmem : x ∈ s.store.slab := get?_mem hx
  rw [hxs] at hc ⊢
  have hdir := h2.dir he
  have hsum := h1.sum
  rw [isLocalInit_eq]
  constructor
  · intro hl
    rw [hdir]
    unfold cntP
    exact List.countP_pos_iff.mpr ⟨x, hmem, by unfold sendCounted; rw [hc, hl]; rfl⟩
  · intro hl
    have hle := countP_disj (sendCounted s.counts.isServer) (recvCounted s.counts.isServer) (·.isCounted) s.store.slab
      (fun y hy => by unfold sendCounted at hy; simp only [Bool.and_eq_true] at hy; exact hy.1)
      (fun y hy => by unfold recvCounted at hy; simp only [Bool.and_eq_true] at hy; exact hy.1)
      (fun y h1 h2 => by
        unfold sendCounted at h1; unfold recvCounted at h2
        simp only [Bool.and_eq_true, Bool.not_eq_true'] at h1 h2
        rw [h1.2] at h2; cases h2.2)
    have hpos : 0 < s.store.slab.countP (recvCounted s.counts.isServer) :=
      List.countP_pos_iff.mpr ⟨x, hmem, by unfold recvCounted; rw [hc, hl]; rfl⟩
    unfold cntAll at hsum
    unfold cntP at hdir
    omega

-- ===================================================================== the id map resolves

/-- the id map is a map, and every entry names a live slab entry with that stream id
    (`store.find_mut(id)` / `find_entry(id)` hand out keys that resolve) -/
structure IdsOK (s : Streams) : Prop where
  nodup : (s.store.ids.map (·.1)).Nodup
  live : ∀ e ∈ s.store.ids, Live s e.2 ∧ (s.stream e.2).id = e.1

theorem IdsOK.of_frame {s s' : Streams} (h : IdsOK s) (hk : SameKeys s s') (hids : s'.store.ids = s.store.ids)
    (hsid : SPr (·.id) s s') : IdsOK s' :=
  ⟨by rw [hids]; exact h.nodup, fun e he => by
    rw [hids] at he
    exact ⟨hk.live.mpr (h.live e he).1, (hsid e.2).trans (h.live e he).2⟩⟩

theorem LT.idsOK {ks : List Nat} {s s' : Streams} (h : LT ks s s') (hi : IdsOK s) : IdsOK s' := hi.of_frame h.keys h.ids h.sid
theorem LTw.idsOK {ks : List Nat} {s s' : Streams} (h : LTw ks s s') (hi : IdsOK s) : IdsOK s' := hi.of_frame h.keys h.ids h.sid

theorem IdsOK.findKey {s : Streams} (h : IdsOK s) {id k : Nat} (hf : s.store.findKey? id = some k) :
    Live s k ∧ (s.stream k).id = id := by
  unfold Store.findKey? at hf
  cases hx : s.store.ids.find? (·.1 == id) with
  | none => rw [hx] at hf; cases hf
  | some e =>
    rw [hx] at hf
    simp only [Option.map_some, Option.some.injEq] at hf
    have hm := List.mem_of_find?_eq_some hx
    have he := List.find?_some hx
    simp only [beq_iff_eq] at he
    rw [← hf, ← he]
    exact h.live e hm

theorem get?_remove_ne (st : Store) (k j : Nat) (h : j ≠ k) : (st.remove k).get? j = st.get? j := by
  unfold Store.remove Store.get?
  dsimp only
  induction st.slab with
  | nil => rfl
  | cons a l ih =>
    simp only [List.filter_cons]
    by_cases hak : a.key = k
    · have : (a.key != k) = false := by simp [hak]
      rw [this]
      simp only [Bool.false_eq_true, if_false, List.find?_cons]
      have : (a.key == j) = false := by simp [hak]; exact fun e => h e.symm
      rw [this]; exact ih
    · have : (a.key != k) = true := by simp [hak]
      rw [this]
      simp only [if_true, List.find?_cons]
      cases a.key == j
      · exact ih
      · rfl

theorem IdsOK.transitionAfter {s : Streams} (h : IdsOK s) (k : Nat) (b : Bool) : IdsOK (s.transitionAfter k b) := by
  obtain ⟨m, hfr, hids, hfin⟩ := transitionAfter_shape s k b
  have hsub : ∀ e ∈ m.store.ids, e ∈ s.store.ids := by
    intro e he; rw [hids] at he; split at he
    · exact ConnWakeP.mem_of_mem_swapRemove he
    · exact he
  have hm : IdsOK m := by
    refine ⟨?_, fun e he => ?_⟩
    · rw [hids]; split
      · exact ConnWakeP.swapRemove_nodup h.nodup _
      · exact h.nodup
    · have := h.live e (hsub e he)
      exact ⟨hfr.keys.live.mpr this.1, (hfr.sid e.2).trans this.2⟩
  rcases hfin with e | ⟨hc, hr, e⟩
  · exact ⟨by rw [e]; exact hm.nodup, fun x hx => by
      rw [e] at hx; have := hm.live x hx
      unfold Live Streams.stream at *; rw [e]; exact this⟩
  · have hne : ∀ x ∈ m.store.ids, x.2 ≠ k := by
      intro x hx hxk
      have h1 := (h.live x (hsub x hx)).2
      rw [hxk] at h1
      rw [hids] at hx
      simp only [hc, hr, Bool.not_false, Bool.and_self, if_true] at hx
      exact swapRemove_not_mem h.nodup _ x hx h1.symm
    refine ⟨by rw [e]; exact hm.nodup, fun x hx => ?_⟩
    rw [e] at hx
    have hx' : x ∈ m.store.ids := hx
    have := hm.live x hx'
    unfold Live Streams.stream at *
    rw [e, get?_remove_ne _ _ _ (hne x hx')]; exact this

theorem avOK_transitionAfter {s : Streams} (h : AvOK s) (k : Nat) (b : Bool) : AvOK (s.transitionAfter k b) := by
  obtain ⟨m, hfr, _, hfin⟩ := transitionAfter_shape s k b
  have hm := hfr.av h
  rcases hfin with e | ⟨_, _, e⟩
  · unfold AvOK; rw [e]; exact hm
  · intro x hx
    rw [e] at hx
    exact hm x (List.mem_filter.mp hx).1

-- ===================================================================== the full invariant

/-- `NPQ` + the counting / queue invariants of ConnCountsP + `IdsOK`.  `E`: keys of entries that may
    still be unopened although locally initiated (inside the function that has just created them). -/
structure NPI (E : Nat → Prop) (s : Streams) : Prop where
  np : s.panicked = none
  av : AvOK s
  keys : KeysOK s
  nl : NextLocal s
  inv1 : Inv1 s
  inv2 : Inv2 s.counts.isServer E s
  qs : ∀ q, q ≠ .pendingAccept → QOK q s
  ids : IdsOK s

theorem NPI.npq {E : Nat → Prop} {s : Streams} (h : NPI E s) : NPQ s := ⟨h.np, h.keys, h.qs _ (by decide), h.av⟩

/-- the counting invariants travel along `Ev`; panic-freedom, capacities and the id map are supplied -/
theorem NPI.ev {E : Nat → Prop} {ρ : Bool} {s s' : Streams} (h : NPI E s) (e : EvB ρ s s') (hE : ρ = true → ∀ k, ¬ E k)
    (hp : s'.panicked = none) (hav : AvOK s') (hids : IdsOK s') : NPI E s' := by
  refine ⟨hp, hav, e.keysOK h.keys, e.nx.nextLocal h.nl, e.inv1 hp h.keys h.inv1, ?_, ?_, hids⟩
  · rw [e.nx.role]; exact e.inv2 _ _ hp h.keys hE h.inv2
  · intro q hq; exact (e.qstep q hq).ok hp (h.qs q hq)

theorem NPI.lt {E : Nat → Prop} {ρ : Bool} {ks : List Nat} {s s' : Streams} (h : NPI E s) (hlt : LTw ks s s')
    (hl : LiveAll s ks) (e : EvB ρ s s') (hE : ρ = true → ∀ k, ¬ E k) : NPI E s' :=
  let q := hlt.ok hl h.npq
  h.ev e hE q.np q.av (hlt.idsOK h.ids)

theorem ErrOK.back {ρ : Bool} {a b : Streams} (e : EvB ρ a b) (h : ErrOK b) : ErrOK a := by
  have hm := e.mono.counts
  unfold ErrOK Counts.canIncNumLocalErrorResets at *
  rw [hm.maxErr] at h
  have := hm.err
  split at h
  · next m hmx => simp only [decide_eq_true_eq] at h ⊢; omega
  · rfl

theorem errSame_of_counts {s t : Streams} (h : t.counts.numLocalErrorResetStreams = s.counts.numLocalErrorResetStreams ∧
    t.counts.maxLocalErrorResetStreams = s.counts.maxLocalErrorResetStreams) : ErrSame s t := h

theorem decNumStreams_errSame (s : Streams) (k : Nat) : ErrSame s (s.decNumStreams k) := by
  unfold Streams.decNumStreams
  dsimp only
  generalize hs1 : (if (s.stream k).isCounted = true then s else s.panic _) = s1
  have h1 : s1.counts = s.counts := by rw [← hs1]; split; rfl; exact panic_counts _ _
  split
  · generalize hs2 : (if s1.counts.numSendStreams > 0 then s1 else s1.panic _) = s2
    have h2 : s2.counts = s1.counts := by rw [← hs2]; split; rfl; exact panic_counts _ _
    unfold ErrSame; rw [modStream_counts]
    show s2.counts.numLocalErrorResetStreams = _ ∧ s2.counts.maxLocalErrorResetStreams = _
    rw [h2, h1]; exact ⟨rfl, rfl⟩
  · generalize hs2 : (if s1.counts.numRecvStreams > 0 then s1 else s1.panic _) = s2
    have h2 : s2.counts = s1.counts := by rw [← hs2]; split; rfl; exact panic_counts _ _
    unfold ErrSame; rw [modStream_counts]
    show s2.counts.numLocalErrorResetStreams = _ ∧ s2.counts.maxLocalErrorResetStreams = _
    rw [h2, h1]; exact ⟨rfl, rfl⟩

theorem modCountsA_decReset_errSame (s : Streams) (m : String) : ErrSame s (s.modCountsA m Counts.decNumResetStreams) := by
  unfold Streams.modCountsA Counts.decNumResetStreams
  split
  · next c hc =>
    split at hc
    · simp only [Option.some.injEq] at hc; subst hc; exact ⟨rfl, rfl⟩
    · cases hc
  · exact panic_errSame _ _

theorem transitionAfter_errSame (s : Streams) (k : Nat) (b : Bool) : ErrSame s (s.transitionAfter k b) := by
  unfold Streams.transitionAfter
  dsimp only
  generalize hs1 : (if (b && !(s.stream k).isPendingResetExpiration) = true then _ else s) = s1
  have h1 : ErrSame s s1 := by rw [← hs1]; split; exact modCountsA_decReset_errSame _ _; exact .refl _
  generalize hs2 : (if (s.stream k).isClosed = true then _ else s1) = s2
  have h2 : ErrSame s s2 := by
    rw [← hs2]; split
    · generalize hs3 : (if (!(s.stream k).isPendingResetExpiration) = true then
          ({ s1 with store := s1.store.unlink (s.stream k).id } : Streams) else s1) = s3
      have h3 : ErrSame s s3 := by rw [← hs3]; split; exact h1; exact h1
      split
      · exact h3.trans (decNumStreams_errSame _ _)
      · exact h3
    · exact h1
  split
  · show ErrSame s (if (s2.stream k).isCounted = true then s2.decNumStreams k else s2)
    split
    · exact h2.trans (decNumStreams_errSame _ _)
    · exact h2
  · exact h2

theorem transitionAfter_npi {E : Nat → Prop} {s : Streams} (h : NPI E s) (he : ErrOK s) (k : Nat) (b : Bool)
    (hb : b = true → (s.stream k).resetAt = true) : NPI E (s.transitionAfter k b) := by
  have hp : (s.transitionAfter k b).panicked = none := by
    refine transitionAfter_np s k b (decOK_of_inv h.np h.inv1 h.inv2 he k) ?_
    intro hc
    cases hbb : b
    · rw [hbb] at hc; cases hc
    · rw [hbb, hb hbb] at hc; cases hc
  exact h.ev (ρ := false) (transitionAfter_ev s k b hb) (fun h => Bool.noConfusion h) hp
    (avOK_transitionAfter h.av k b) (h.ids.transitionAfter k b)

/-- `counts.transition(stream, f)`: given that `f` is fine -/
theorem transition_npi {E : Nat → Prop} {ρ : Bool} {α : Type} {s : Streams} (k : Nat) (f : Streams → Streams × α)
    (hX : NPI E (f s).1) (e : EvB ρ s (f s).1) (heX : ErrOK (f s).1) : NPI E (s.transition k f).1 := by
  have : (s.transition k f).1 = (f s).1.transitionAfter k (s.stream k).isPendingResetExpiration := by
    unfold Streams.transition; rfl
  rw [this]
  exact transitionAfter_npi hX heX k _ (fun hb => e.mono.resetAt k hb)

end H2V.Lemmas.ConnNoPanicP
