import H2V.Lemmas.ConnHttpPData
import H2V.Lemmas.ConnHttpPMain
/-
  C13 (ConnHttpP), part 20 — PUSH_PROMISE on the client: `Recv::recv_push_promise` and
  `Inner::recv_push_promise`: the promised request is queued only if it passed
  `convert_poll_message` and `PushPromise::validate_request`.
-/
namespace H2V.Lemmas.ConnHttpP
open H2V H2V.Model H2V.Model.Frame H2V.Model.Hpack H2V.Model.Conn

/-- `PushPromise::validate_request`'s content-length clause -/
def promiseClOk (h : HeadersIn) : Bool :=
  match h.fields.find? (fun f => f.1 == Http.str "content-length") with
  | some (_, v :: _) => parseU64 v == some 0
  | _ => true

/-- what `recv_push_promise` may hand over for the promised request `h` -/
def PromiseAccepted (h : HeadersIn) (ev : REvent) : Prop :=
  ∃ m u, ev = .request m u h.fields ∧ h.isOverSize = false ∧ convertPollMessageServer h = .ok m u ∧
    promiseClOk h = true ∧ (m = Http.str "GET" ∨ m = Http.str "HEAD")

theorem recvRecvPushPromise_delivers (s : Streams) (k : Nat) (h : HeadersIn) :
    Delivers (fun k' ev => k' = k ∧ PromiseAccepted h ev) s (s.recvRecvPushPromise k h).1 := by
  generalize hr : s.recvRecvPushPromise k h = r
  unfold Streams.recvRecvPushPromise at hr
  split at hr
  · subst hr; exact (Quiet.refl s).delivers
  · rename_i st' _ _
    simp only at hr
    have q1 : Quiet s (s.modStream k fun st => { st with state := st' }) := by quiet
    generalize (s.modStream k fun st => { st with state := st' }) = s1 at q1 hr
    split at hr
    · subst hr; exact q1.delivers
    · rename_i hov
      split at hr
      · subst hr; exact q1.delivers
      · subst hr; exact q1.delivers
      · rename_i m u hc
        have fin : ∀ (hcl : promiseClOk h = true) (hsafe : (m == Http.str "GET" || m == Http.str "HEAD") = true),
            Delivers (fun k' ev => k' = k ∧ PromiseAccepted h ev) s
              (((s1.modStream k fun st => { st with pendingRecv := st.pendingRecv ++ [.request m u h.fields] }).modStreamW
                k Stream.notifyRecv).modStreamW k Stream.notifyPush) := by
          intro hcl hsafe
          refine q1.then (Delivers.step (Delivers.step (delivers_append _ s1 k _
            ⟨rfl, m, u, rfl, by simpa using hov, hc, hcl, by simpa using hsafe⟩)
            (quiet_modStreamW _ _ _ keeps_notifyRecv)) (quiet_modStreamW _ _ _ keeps_notifyPush))
        split at hr
        · rename_i nm v rest hf
          split at hr
          · subst hr; exact q1.delivers
          · rename_i hv
            subst hr
            simp only [Bool.or_eq_true, not_or, Bool.not_eq_true, Bool.not_eq_false'] at hv
            exact fin (by unfold promiseClOk; rw [hf]; exact hv.1) (by simpa using hv.2)
        · rename_i hf
          split at hr
          · subst hr; exact q1.delivers
          · rename_i hv
            subst hr
            simp only [Bool.or_eq_true, not_or, Bool.not_eq_true, Bool.not_eq_false'] at hv
            refine fin ?_ (by simpa using hv.2)
            unfold promiseClOk
            split
            · rename_i nm v rest hf'; exact absurd hf' (hf nm v rest)
            · rfl


/-! ### `Inner::recv_push_promise` in stages -/

/-- the initiating stream must exist and be receive-open -/
def rppParent (s : Streams) (id : Nat) (h : HeadersIn) : Streams × Except PErr (Option Nat) :=
  match s.store.findKey? id with
  | some k =>
    if id > s.recv.maxStreamId then (s, .ok none)
    else if (s.stream k).state.isLocalError then
      match s.ensureCanReserve with
      | .error e => (s, .error e)
      | .ok _ =>
        match s.recvOpen h.sid true with
        | (s, .error e) => (s, .error e)
        | (s, .ok true) => (s, .error (PErr.libraryReset h.sid REFUSED_STREAM))
        | (s, .ok false) => (s, .ok none)
    else match (s.stream k).state.ensureRecvOpen with
      | .ok true => (s, .ok (some k))
      | _ => (s, .error (PErr.libraryGoAway PROTOCOL_ERROR))
  | none => (s, .error (PErr.libraryGoAway PROTOCOL_ERROR))

/-- the closure handed to `counts.transition` for the promised stream -/
def rppBody (s : Streams) (child : Nat) (h : HeadersIn) : Streams × Except PErr Bool :=
  match s.recvRecvPushPromise child h with
  | (s, .ok) => (s, .ok true)
  | (s, .unsupported) => (s.unsup "promised request URI outside the modelled subset", .ok false)
  | (s, .err e) =>
    match s.resetOnRecvStreamErr child (.error e) with
    | (s, .ok _) => (s, .ok false)
    | (s, .error e) => (s, .error e)

/-- reserving the promised stream and running the closure -/
def rppChild (s : Streams) (parentKey : Nat) (h : HeadersIn) : Streams × Except PErr Unit :=
  let s := if s.store.contains h.sid then s.panic "assertion failed: self.ids.insert(id, index).is_none()" else s
  let (store, child) := s.store.insert (Stream.new h.sid s.actions.send.initWindowSz s.recv.initWindowSz)
  let s := { s with store := store }
  let (s, res) : Streams × Except PErr Bool := s.transition child fun s => rppBody s child h
  match res with
  | .error e => (s, .error e)
  | .ok false => (s, .ok ())
  | .ok true =>
    let s :=
      if (s.stream child).isPendingAccept then s
      else (s.modStream child fun st => { st with isPendingAccept := true }).modStream parentKey
             fun st => { st with pendingPushPromises := st.pendingPushPromises ++ [child] }
    (s.modStreamW parentKey Stream.notifyPush, .ok ())

theorem recvPushPromise_eq (s : Streams) (id : Nat) (h : HeadersIn) :
    s.recvPushPromise id h =
      if s.counts.isServer then (s, .error (PErr.libraryGoAway PROTOCOL_ERROR)) else
      match rppParent s id h with
      | (s, .error e) => (s, .error e)
      | (s, .ok none) => (s, .ok ())
      | (s, .ok (some parentKey)) =>
        match s.ensureCanReserve with
        | .error e => (s, .error e)
        | .ok _ =>
          match s.recvOpen h.sid true with
          | (s, .error e) => (s, .error e)
          | (s, .ok false) => (s, .ok ())
          | (s, .ok true) => rppChild s parentKey h := rfl


theorem rppParent_quiet (s : Streams) (id : Nat) (h : HeadersIn) : Quiet s (rppParent s id h).1 := by
  generalize hr : rppParent s id h = r
  unfold rppParent at hr
  split at hr
  · split at hr
    · subst hr; exact Quiet.refl _
    · split at hr
      · split at hr
        · subst hr; exact Quiet.refl _
        · have q := (Quiet.refl s).recvOpen h.sid true
          generalize s.recvOpen h.sid true = r1 at q hr
          obtain ⟨s1, res⟩ := r1
          split at hr
          all_goals (rename_i heq; cases heq; subst hr; exact q)
      · split at hr <;> (subst hr; exact Quiet.refl _)
  · subst hr; exact Quiet.refl _

theorem rppBody_delivers (s : Streams) (child : Nat) (h : HeadersIn) :
    Delivers (fun _ ev => PromiseAccepted h ev) s (rppBody s child h).1 := by
  unfold rppBody
  have d := (recvRecvPushPromise_delivers s child h).mono (Q := fun _ ev => PromiseAccepted h ev) (fun _ _ hp => hp.2)
  generalize s.recvRecvPushPromise child h = r at d ⊢
  obtain ⟨s1, res⟩ := r
  simp only at d
  cases res with
  | ok => exact d
  | unsupported => exact d.step ((Quiet.refl _).unsup _)
  | err e =>
    simp only
    have q := (Quiet.refl s1).resetOnRecvStreamErr child (.error e)
    generalize s1.resetOnRecvStreamErr child (.error e) = r2 at q ⊢
    obtain ⟨s2, res2⟩ := r2
    cases res2 <;> exact d.step q

theorem rppChild_delivers (s : Streams) (parentKey : Nat) (h : HeadersIn) :
    Delivers (fun _ ev => PromiseAccepted h ev) s (rppChild s parentKey h).1 := by
  unfold rppChild
  have q0 : Quiet s (if s.store.contains h.sid then s.panic "assertion failed: self.ids.insert(id, index).is_none()" else s) := by
    quiet
  generalize (if s.store.contains h.sid then s.panic "assertion failed: self.ids.insert(id, index).is_none()" else s) = s0 at q0 ⊢
  simp only
  have q1 : Quiet s { s0 with store := (s0.store.insert (Stream.new h.sid s0.actions.send.initWindowSz s0.recv.initWindowSz)).1 } :=
    q0.trans (quiet_insert _ _ rfl)
  generalize hs1 : ({ s0 with store := (s0.store.insert (Stream.new h.sid s0.actions.send.initWindowSz s0.recv.initWindowSz)).1 } : Streams) = s1 at q1 ⊢
  generalize (s0.store.insert (Stream.new h.sid s0.actions.send.initWindowSz s0.recv.initWindowSz)).2 = child
  unfold Streams.transition
  simp only
  have d := q1.then ((rppBody_delivers s1 child h).step ((Quiet.refl _).transitionAfter child (s1.stream child).isPendingResetExpiration))
  generalize (rppBody s1 child h).1.transitionAfter child (s1.stream child).isPendingResetExpiration = s2 at d ⊢
  generalize (rppBody s1 child h).2 = res
  cases res with
  | error e => exact d
  | ok b =>
    cases b with
    | false => exact d
    | true =>
      simp only
      refine d.step ?_
      quiet

/-- **`Inner::recv_push_promise`, every state, every frame**: all that reaches any receive queue is at
    most one `request` event for a promised request that passed `convert_poll_message` and
    `validate_request` -/
theorem recvPushPromise_delivers (s : Streams) (id : Nat) (h : HeadersIn) :
    Delivers (fun _ ev => PromiseAccepted h ev) s (s.recvPushPromise id h).1 := by
  rw [recvPushPromise_eq]
  split
  · exact (Quiet.refl s).delivers
  · have q := rppParent_quiet s id h
    generalize rppParent s id h = r at q ⊢
    obtain ⟨s1, res⟩ := r
    simp only at q
    split
    all_goals (rename_i heq; cases heq)
    · exact q.delivers
    · exact q.delivers
    · rename_i pk
      split
      · exact q.delivers
      · have q2 := q.recvOpen h.sid true
        generalize s1.recvOpen h.sid true = r2 at q2 ⊢
        obtain ⟨s2, res2⟩ := r2
        simp only at q2
        split
        all_goals (rename_i heq; cases heq)
        · exact q2.delivers
        · exact q2.delivers
        · exact q2.then (rppChild_delivers s2 pk h)


theorem convert_ok_proto (h : HeadersIn) (m u : Bytes) (hc : convertPollMessageServer h = .ok m u)
    (hp : h.hasProtocol = true) : m = Http.str "CONNECT" := by
  have hm := convert_ok_method h m u hc
  unfold convertPollMessageServer at hc
  rw [hm] at hc
  simp only [hp, Bool.true_and] at hc
  by_cases e : m = Http.str "CONNECT"
  · exact e
  · have : (m == Http.str "CONNECT") = false := by simpa using e
    simp [this] at hc

/-- **promised requests**: a `request` event for a delivered PUSH_PROMISE block means no rule of
    `Spec.Http.request` is violated by the block's field list; the method is GET or HEAD; a
    content-length, if any, is 0 -/
theorem accepted_promise_rules (blk : HeaderBlock) (g : List Header) (promised : Nat) (ev : REvent)
    (hm : blk.isMalformed = false) (hb : BlockInv blk g) (hok : ∀ x ∈ g, fieldOk x = true)
    (ha : PromiseAccepted (Conn.headersIn promised false blk) ev) :
    ∃ m u, ev = .request m u (groupInto [] (regular g)) ∧ Spec.Http.request g false = [] ∧
      (Spec.Http.get g ":method" = [Http.str "GET"] ∨ Spec.Http.get g ":method" = [Http.str "HEAD"]) ∧
      promiseClOk (Conn.headersIn promised false blk) = true := by
  obtain ⟨m, u, rfl, ho, hc, hcl, hsafe⟩ := ha
  have hnp : (Conn.headersIn promised false blk).hasProtocol = true → false = true := by
    intro hp
    have := convert_ok_proto _ m u hc hp
    rcases hsafe with e | e <;> (rw [e] at this; revert this; simp only [str_GET, str_HEAD, str_CONNECT]; decide)
  have hst : (Conn.headersIn promised false blk).status = none := by
    cases hs : (Conn.headersIn promised false blk).status with
    | none => rfl
    | some v =>
      exfalso
      have hmm := convert_ok_method _ m u hc
      unfold convertPollMessageServer at hc
      rw [hmm] at hc
      simp only [hs, Option.isSome_some, if_true] at hc
      split at hc <;> cases hc
  obtain ⟨r1, r2, r3⟩ := accepted_request_rules blk g promised false (true, false) m u _ hm hb hok
    ⟨ho, rfl, hc, hst, hnp, rfl⟩
  refine ⟨m, u, by rw [← r2], r1, ?_, hcl⟩
  rw [r3]
  rcases hsafe with e | e
  · exact Or.inl (by rw [e])
  · exact Or.inr (by rw [e])

end H2V.Lemmas.ConnHttpP
