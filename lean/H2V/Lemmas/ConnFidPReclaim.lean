import H2V.Lemmas.ConnFidPWrite
/-
  ConnFidP, part 15 — `Inv` across `reclaim_frame`: the remainder of the chunk the codec has finished with goes
  back to the FRONT of the queue of ITS stream (`frame.key`), or is dropped when — and only when — the marker was
  turned to `Drop` by a cut of that very stream.
-/
set_option linter.unusedSectionVars false
namespace H2V.Lemmas.ConnFidP
open H2V H2V.Model H2V.Model.Conn H2V.Lemmas.ConnWakeP

theorem qPush_silent (s : Streams) (q : QName) (k : Nat) : Tr {} s (s.qPush q k).1 := by
  have h : Tr {} s s := Tr.refl _ _
  unfold Streams.qPush; fid_grind

/-- a function that makes only silent steps keeps `Inv` with the same ghost -/
theorem Tr.inv_silent {s s' : Streams} {h : Option DataFrame} {g : Ghost} (t : Tr {} s s') (hI : Inv s h g)
    (hw : g.weird = false) : Inv s' h g := by
  obtain ⟨g', r⟩ := t.run g
  have hg : g' = g := by
    clear hI hw t
    induction r with
    | refl => rfl
    | tau _ _ ih => exact ih
    | lbl l _ _ ok ih =>
      exfalso
      cases l <;> simp only [Perm.ok] at ok
      rcases ok with h' | ⟨_, h'⟩ <;> exact h'
  subst hg
  exact (r.inv (fun h => h) (fun h => absurd h id) (Or.inr (fun _ _ _ h => h)) hI hw).1

section
variable {s : Streams} {g : Ghost}

/-- the marker is cleared while nothing of any stream is in flight -/
theorem inv_unmark (fr : DataFrame) (hI : Inv s (some fr) g) (h0 : ∀ k, inflight s (some fr) k = []) :
    Inv (s.modPrio (markF .nothing)) none g := by
  have hsq : ∀ k, sq (s.modPrio (markF .nothing)) k = sq s k := fun _ => rfl
  have hin : ∀ k, inflight (s.modPrio (markF .nothing)) none k = [] := fun k => inflight_none _ k
  refine ⟨hI.kb, ⟨⟨fun _ => rfl, fun _ => rfl⟩, fun j hj => by cases hj⟩, ?_, hI.ghostKey, ?_, hI.closed, ?_, hI.live⟩
  · intro k hk; exact absurd (hin k) hk
  · intro k
    obtain ⟨D, hR, hD⟩ := hI.ref k
    refine ⟨D, ?_, hD⟩
    have : out (s.modPrio (markF .nothing)) none k = out s (some fr) k := by
      unfold out; rw [hin, h0, hsq]
    rw [this]; exact hR
  · intro k hk; exact absurd (hin k) hk

/-- the remainder goes back to the front of the queue of `fr.key` -/
theorem inv_unpop (fr : DataFrame) (hI : Inv s (some fr) g) (hm : marker s = .dataFrame fr.key) (hr : fr.rest > 0) :
    Inv ((s.modPrio (markF .nothing)).modStream fr.key (unpopF (.data fr.rest fr.eos))) none g := by
  generalize hs2 : (s.modPrio (markF .nothing)).modStream fr.key (unpopF (.data fr.rest fr.eos)) = s2
  have hget : ∀ j, s2.store.get? j = if j = fr.key then (s.store.get? fr.key).map (unpopF (.data fr.rest fr.eos))
      else s.store.get? j := by
    intro j; subst hs2; exact get?_modStream _ fr.key (unpopF (.data fr.rest fr.eos)) (fun _ => rfl) j
  have hnk : s2.store.nextKey = s.store.nextKey := by
    subst hs2; unfold Streams.modStream; split
    · rfl
    · unfold Streams.panic; split <;> rfl
  have hmk : marker s2 = .nothing := by subst hs2; rw [marker_modStream]; rfl
  have hin : ∀ k, inflight s2 none k = [] := fun k => inflight_none _ k
  have hinf : ∀ k, inflight s (some fr) k = if fr.key = k then [.data fr.rest fr.eos] else [] := by
    intro k; unfold inflight; rw [hm]; simp [hr]
  have hpres : ∀ j, (s2.store.get? j).isSome = (s.store.get? j).isSome := by
    intro j; rw [hget]; split
    · next e => subst e; cases s.store.get? fr.key <;> rfl
    · rfl
  refine ⟨?_, ⟨⟨fun _ => rfl, fun _ => hmk⟩, fun j hj => by rw [hmk] at hj; cases hj⟩, ?_, ?_, ?_, ?_, ?_, ?_⟩
  · intro k b hb
    have : (s.store.get? k).isSome = true := by rw [← hpres, hb]; rfl
    obtain ⟨a, ha⟩ := Option.isSome_iff_exists.mp this
    rw [hnk]; exact hI.kb k a ha
  · intro k hk; exact absurd (hin k) hk
  · intro k hk; rw [hnk] at hk; exact hI.ghostKey k hk
  · intro k
    obtain ⟨D, hR, hD⟩ := hI.ref k
    by_cases hk : k = fr.key
    · subst hk
      cases hp : s.store.get? fr.key with
      | some a =>
        refine ⟨D, ?_, hD⟩
        have h2 : s2.store.get? fr.key = some (unpopF (.data fr.rest fr.eos) a) := by rw [hget, if_pos rfl, hp]; rfl
        have : out s2 none fr.key = out s (some fr) fr.key := by
          unfold out
          rw [hin, hinf, if_pos rfl, sq_of_get? h2, sq_of_get? hp]; rfl
        rw [this]; exact hR
      | none =>
        -- the entry is gone: it was removed, i.e. cut, and the remainder is part of the discarded suffix
        have hc : g.cut fr.key = true := by
          rcases hI.infl fr.key (by rw [hinf, if_pos rfl]; simp) with h' | h'
          · rw [hp] at h'; cases h'
          · exact h'
        have h2 : s2.store.get? fr.key = none := by rw [hget, if_pos rfl, hp]; rfl
        refine ⟨msg (out s (some fr) fr.key) ++ D, ?_, fun h' => by rw [hc] at h'; cases h'⟩
        have : out s2 none fr.key = [] := by unfold out; rw [hin, sq_of_none h2]; rfl
        rw [this, msg_nil, List.append_nil, ← List.append_assoc]; exact hR
    · refine ⟨D, ?_, hD⟩
      have h2 : s2.store.get? k = s.store.get? k := by rw [hget, if_neg hk]
      have hsq : sq s2 k = sq s k := by unfold sq Streams.stream; rw [h2]
      have : out s2 none k = out s (some fr) k := by
        unfold out; rw [hin, hinf, if_neg (fun e => hk e.symm), hsq]
      rw [this]; exact hR
  · intro k hc b hb
    rw [hget] at hb
    split at hb
    · next e =>
      subst e
      cases hp : s.store.get? fr.key with
      | none => rw [hp] at hb; cases hb
      | some a => rw [hp] at hb; cases hb; exact hI.closed _ hc a hp
    · exact hI.closed k hc b hb
  · intro k hk; exact absurd (hin k) hk
  · intro k hk
    rcases hI.live k hk with h' | h'
    · exact Or.inl (by rw [hpres]; exact h')
    · exact Or.inr h'

/-- **`Inv` across `reclaim_frame`** -/
theorem reclaimFrame_inv (w : Writer) (hI : Inv s (held w) g) (hw : WOk w) (hwd : g.weird = false) :
    Inv (s.reclaimFrame w).1 (held (s.reclaimFrame w).2.1) g ∧ WOk (s.reclaimFrame w).2.1 := by
  unfold Streams.reclaimFrame
  rcases held_takeLast w hw with ⟨h1, h2, h3⟩ | ⟨fr, h1, h2, h3, h4⟩
  · rcases hp : w.takeLastDataFrame with ⟨w', o⟩
    rw [hp] at h1 h2 h3
    simp only at h1 h2 h3
    subst h1
    simp only
    rw [h2]; exact ⟨hI, h3⟩
  · rcases hp : w.takeLastDataFrame with ⟨w', o⟩
    rw [hp] at h1 h3 h4
    simp only at h1 h3 h4
    subst h1
    simp only
    rw [h3]
    refine ⟨?_, h4⟩
    rw [h2] at hI
    unfold Streams.reclaimFrameInner
    simp only [markF_fold, unpopF_fold]
    cases hm : s.prio.inFlightDataFrame with
    | nothing =>
      exfalso
      have := hI.cp.nothing.mp hm
      cases this
    | drop =>
      simp only
      exact inv_unmark fr hI (fun k => inflight_of_marker_ne (by intro j hj; rw [show marker s = _ from hm] at hj; cases hj))
    | dataFrame j =>
      simp only
      obtain ⟨fr', hfr, hj⟩ := hI.cp.data j hm
      cases hfr
      subst hj
      by_cases hr : fr.rest > 0
      · simp only [hr, if_true]
        have hI2 := inv_unpop fr hI hm hr
        have ite_inv : ∀ (c : Bool) (A B : Streams), Inv A none g → Inv B none g →
            Inv (if c = true then A else B) none g := by
          intro c A B hA hB; cases c
          · exact hB
          · exact hA
        exact ite_inv _ _ _ ((qPush_silent _ _ _).inv_silent hI2 hwd) hI2
      · simp only [hr, if_false]
        refine inv_unmark fr hI (fun k => ?_)
        unfold inflight
        rw [show marker s = _ from hm]
        simp only
        rw [if_neg (fun h' => hr h'.2)]

end
end H2V.Lemmas.ConnFidP
