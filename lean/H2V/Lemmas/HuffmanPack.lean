import H2V.Model.Basic
import H2V.Lemmas.HuffmanGo
/-
  The reference encoder: `pack` (fuel-free characterisation) and the round trip
  `Spec.Huffman.decode (Spec.Huffman.encode s) = some s`.
-/
namespace H2V.Lemmas.Huffman
open H2V H2V.Spec.Rfc7541 H2V.Spec.Huffman

/-! ### `bitsVal` -/

theorem bitsVal_append (P Q : List Bool) (a : Nat) :
    bitsVal (P ++ Q) a = bitsVal Q (bitsVal P a) := by
  induction P generalizing a with
  | nil => rfl
  | cons b P ih => simp only [List.cons_append, bitsVal, ih]

theorem bitsVal_shift (Q : List Bool) (a : Nat) :
    bitsVal Q a = a * 2 ^ Q.length + bitsVal Q 0 ∧ bitsVal Q 0 < 2 ^ Q.length := by
  induction Q generalizing a with
  | nil => simp [bitsVal]
  | cons b Q ih =>
    simp only [bitsVal, List.length_cons, Nat.pow_succ]
    have h1 := ih (2 * a + if b = true then 1 else 0)
    have h2 := ih (2 * 0 + if b = true then 1 else 0)
    rw [h1.1, h2.1]
    generalize 2 ^ Q.length = P at *
    generalize bitsVal Q 0 = r at *
    have hr := h1.2
    cases b <;> simp only [if_true, if_false, Bool.false_eq_true] <;> constructor <;> grind

theorem bitsVal_lt (Q : List Bool) : bitsVal Q 0 < 2 ^ Q.length := (bitsVal_shift Q 0).2

/-- `bitsVal` is inverse to `codeBits` on lists of the right length -/
theorem codeBits_bitsVal (c : List Bool) (a : Nat) : codeBits c.length (bitsVal c a) = c := by
  induction c generalizing a with
  | nil => rfl
  | cons b c ih =>
    simp only [List.length_cons, codeBits, bitsVal, ih]
    congr 1
    rw [(bitsVal_shift c _).1, Nat.add_comm, Nat.add_mul_div_right _ _ (Nat.two_pow_pos _),
      Nat.div_eq_of_lt (bitsVal_lt c), Nat.zero_add]
    cases b <;> simp <;> omega

theorem bitsVal_ones (n a : Nat) : bitsVal (List.replicate n true) a = a * 2 ^ n + (2 ^ n - 1) := by
  have h : (2 ^ n - 1) % 2 ^ n = 2 ^ n - 1 := Nat.mod_eq_of_lt (by have := Nat.two_pow_pos n; omega)
  rw [← codeBits_ones h, bitsVal_codeBits, h]

/-! ### `pack` without fuel -/

/-- `pack` with exactly the fuel `Spec.Huffman.encode` gives it -/
def Pack (B : List Bool) : List Nat := pack (B.length + 1) B

theorem pack_fuel : ∀ (f1 f2 : Nat) (B : List Bool), B.length < f1 → B.length < f2 →
    pack f1 B = pack f2 B
  | 0, _, _, h, _ => by omega
  | _, 0, _, _, h => by omega
  | f1 + 1, f2 + 1, B, h1, h2 => by
    simp only [pack]
    by_cases he : B.isEmpty
    · simp [he]
    · simp only [he]
      have hpos : 0 < B.length := by
        cases B with
        | nil => simp at he
        | cons => simp
      have hl : (B.drop 8).length = B.length - 8 := List.length_drop
      rw [pack_fuel f1 f2 (B.drop 8) (by omega) (by omega)]

theorem pack_eq_Pack {f : Nat} {B : List Bool} (h : B.length < f) : pack f B = Pack B :=
  pack_fuel _ _ _ h (Nat.lt_succ_self _)

theorem encode_eq_Pack (s : List Nat) : Spec.Huffman.encode s = Pack (encodeBits s) := rfl

theorem Pack_nil : Pack [] = [] := rfl

theorem Pack_chunk {c8 : List Bool} (X : List Bool) (h : c8.length = 8) :
    Pack (c8 ++ X) = bitsVal c8 0 :: Pack X := by
  have hne : (c8 ++ X).isEmpty = false := by
    cases c8 with
    | nil => simp at h
    | cons => simp
  unfold Pack
  rw [pack]
  simp only [hne, Bool.false_eq_true, if_false]
  rw [List.take_left' h, List.drop_left' h, h, List.replicate_zero, List.append_nil]
  congr 1
  exact pack_eq_Pack (by simp; omega)

theorem Pack_short {B : List Bool} (h0 : 0 < B.length) (h8 : B.length < 8) :
    Pack B = [bitsVal (B ++ List.replicate (8 - B.length) true) 0] := by
  have hne : B.isEmpty = false := by
    cases B with
    | nil => simp at h0
    | cons => simp
  unfold Pack
  rw [pack]
  simp only [hne, Bool.false_eq_true, if_false]
  rw [List.take_of_length_le (by omega), List.drop_eq_nil_of_le (by omega)]
  congr 1
  cases B.length <;> rfl

/-- the octets produced by `pack` spell the input bits followed by fewer than 8 one bits -/
theorem bitsOf_Pack : ∀ (n : Nat) (B : List Bool), B.length ≤ n →
    ∃ p, p < 8 ∧ bitsOf (Pack B) = B ++ List.replicate p true
  | 0, B, h => by
    have : B = [] := List.eq_nil_of_length_eq_zero (by omega)
    subst this
    exact ⟨0, by omega, rfl⟩
  | n + 1, B, h => by
    by_cases h0 : B.length = 0
    · have : B = [] := List.eq_nil_of_length_eq_zero h0
      subst this
      exact ⟨0, by omega, rfl⟩
    by_cases h8 : B.length < 8
    · refine ⟨8 - B.length, by omega, ?_⟩
      rw [Pack_short (by omega) h8]
      simp only [bitsOf, List.append_nil, byteBits_eq]
      have hl : (B ++ List.replicate (8 - B.length) true).length = 8 := by simp; omega
      have := codeBits_bitsVal (B ++ List.replicate (8 - B.length) true) 0
      rwa [hl] at this
    · have hl : (B.take 8).length = 8 := by simp; omega
      have hP : Pack B = bitsVal (B.take 8) 0 :: Pack (B.drop 8) := by
        have := Pack_chunk (c8 := B.take 8) (B.drop 8) hl
        rwa [List.take_append_drop] at this
      obtain ⟨p, hp, ih⟩ := bitsOf_Pack n (B.drop 8) (by simp; omega)
      refine ⟨p, hp, ?_⟩
      rw [hP]
      simp only [bitsOf, byteBits_eq, ih]
      have := codeBits_bitsVal (B.take 8) 0
      rw [hl] at this
      rw [this, ← List.append_assoc, List.take_append_drop]

/-! ### round trip through the reference decoder -/

theorem symBits_of_code {s n c : Nat} (h : Code s n c) : symBits s = codeBits n c := by
  unfold symBits
  unfold Code at h
  rw [h]

theorem go_ones {p : Nat} (hp : p < 8) : go (List.replicate p true) 0 0 = some [] := by
  have h : (2 ^ p - 1) % 2 ^ p = 2 ^ p - 1 := Nat.mod_eq_of_lt (by have := Nat.two_pow_pos p; omega)
  have hno : NoPre (0 + p) (0 * 2 ^ p + (2 ^ p - 1) % 2 ^ p) := by
    rw [h, Nat.zero_add, Nat.zero_mul, Nat.zero_add]
    have := NoPre.of_code (s := 256) (n := 30) (c := 1073741823) rfl (show p < 30 by omega)
    have e : ∀ b, b < 8 → 1073741823 / 2 ^ (30 - b) = 2 ^ b - 1 := by decide
    rwa [e p hp] at this
  have := go_skip [] hno (by omega)
  rw [List.append_nil, codeBits_ones h, h, Nat.zero_add, Nat.zero_mul, Nat.zero_add] at this
  rw [this, go_nil]
  have : 2 ^ p - 1 + 1 = 2 ^ p := by have := Nat.two_pow_pos p; omega
  simp [hp, this]

theorem go_encodeBits : ∀ (s : Bytes), Bytes.Valid s → ∀ (p : Nat), p < 8 →
    go (encodeBits s ++ List.replicate p true) 0 0 = some s
  | [], _, p, hp => by simpa [encodeBits] using go_ones hp
  | a :: rest, hv, p, hp => by
    have ha : a < 256 := hv a (by simp)
    have hv' : Bytes.Valid rest := fun x hx => hv x (by simp [hx])
    obtain ⟨n, c, hc⟩ := code_exists (show a < 257 by omega)
    have hr := code_range hc
    simp only [encodeBits, symBits_of_code hc, List.append_assoc]
    have hc' : Code a (0 + n) (0 * 2 ^ n + c % 2 ^ n) := by
      rwa [Nat.zero_add, Nat.zero_mul, Nat.zero_add, Nat.mod_eq_of_lt hr.2.2]
    rw [go_hit _ (by omega) hc', go_encodeBits rest hv' p hp]
    simp; omega

/-- **Round trip through the reference codec.** -/
theorem spec_roundtrip (s : Bytes) (h : Bytes.Valid s) :
    Spec.Huffman.decode (Spec.Huffman.encode s) = some s := by
  obtain ⟨p, hp, hb⟩ := bitsOf_Pack _ (encodeBits s) (Nat.le_refl _)
  rw [Spec.Huffman.decode, encode_eq_Pack, hb]
  exact go_encodeBits s h p hp

/-- the reference encoder produces valid octets -/
theorem Pack_valid : ∀ (n : Nat) (B : List Bool), B.length ≤ n → Bytes.Valid (Pack B)
  | 0, B, h => by
    have : B = [] := List.eq_nil_of_length_eq_zero (by omega)
    subst this
    intro b hb; simp [Pack_nil] at hb
  | n + 1, B, h => by
    by_cases h0 : B.length = 0
    · have : B = [] := List.eq_nil_of_length_eq_zero h0
      subst this
      intro b hb; simp [Pack_nil] at hb
    by_cases h8 : B.length < 8
    · rw [Pack_short (by omega) h8]
      intro b hb
      simp only [List.mem_singleton] at hb
      subst hb
      have := bitsVal_lt (B ++ List.replicate (8 - B.length) true)
      have hl : (B ++ List.replicate (8 - B.length) true).length = 8 := by simp; omega
      rw [hl] at this
      exact this
    · have hl : (B.take 8).length = 8 := by simp; omega
      have hP : Pack B = bitsVal (B.take 8) 0 :: Pack (B.drop 8) := by
        have := Pack_chunk (c8 := B.take 8) (B.drop 8) hl
        rwa [List.take_append_drop] at this
      have ih := Pack_valid n (B.drop 8) (by simp; omega)
      rw [hP]
      intro b hb
      simp only [List.mem_cons] at hb
      rcases hb with rfl | hb
      · have := bitsVal_lt (B.take 8)
        rw [hl] at this
        exact this
      · exact ih b hb

theorem spec_encode_valid (s : Bytes) : Bytes.Valid (Spec.Huffman.encode s) :=
  Pack_valid _ _ (Nat.le_refl _)

end H2V.Lemmas.Huffman
