import H2V.Lemmas.ConnNoPanicPAll
import H2V.Lemmas.ConnNoPanicPPushInvStep
import H2V.Lemmas.ConnNoPanicPPushInvPoll
/-
  C08 (no panic) — everything together (stage 2): connections that never accept a PUSH_PROMISE (every server; every
  client that announced SETTINGS_ENABLE_PUSH = 0).  There `pending_push_promises` is always empty (np-push: `NoPPP`), so
  the hypothesis `dropPPP s k = []` of the handle drop disappears, and a PUSH_PROMISE frame is answered by a
  connection error without touching the state: 37 operations.
-/
namespace H2V.Lemmas.ConnNoPanicP
open H2V H2V.Model H2V.Model.Conn H2V.Lemmas.ConnCountsP
open H2V.Lemmas.ConnResetP (Op run)

/-- preconditions: as `opPre2`; dropping a handle and a PUSH_PROMISE frame are free -/
def opPre3 (s : Streams) : Op → Prop
  | .dropStreamRef _ => True
  | .recvPushPromise _ _ => True
  | op => opPre2 s op

/-- the invariant bundle of a connection without server push -/
structure Good3 (s : Streams) (H : List Nat) : Prop where
  good : Good s H
  noppp : NoPPP s
  nopush : NoPush s

inductive BReach : Streams → List Nat → Prop
  | init {s : Streams} : Init2 s → NoPush s → BReach s []
  | step {s : Streams} {H : List Nat} (op : Op) : BReach s H → opPre3 s op → (∀ k, opKey2 op = some k → k ∈ H) →
      BReach (op.apply s) (opHandles2 s H op)

theorem opPre3_old {s : Streams} {op : Op} (h : opPre3 s op) (hj : NoPPP s) (h2 : ∀ id hd, op ≠ .recvPushPromise id hd) :
    opPre2 s op := by
  cases op <;> first
    | exact h
    | exact hj.dropPPP _
    | exact absurd rfl (h2 _ _)

theorem good3_step {s : Streams} {H : List Nat} (g : Good3 s H) (op : Op) (hpre : opPre3 s op)
    (hin : ∀ k, opKey2 op = some k → k ∈ H) (he : ErrOK s) (he' : ErrOK (op.apply s)) :
    Good3 (op.apply s) (opHandles2 s H op) := by
  refine ⟨?_, NoPPP_step g.noppp g.nopush op, NoPush_step g.nopush op⟩
  by_cases h1 : ∃ id hd, op = .recvPushPromise id hd
  · obtain ⟨id, hd, rfl⟩ := h1
    have e : (Op.recvPushPromise id hd).apply s = s := recvPushPromise_nopush g.nopush id hd
    have e2 : opHandles2 s H (.recvPushPromise id hd) = H := rfl
    rw [e, e2]; exact g.good
  · exact good_step g.good op (opPre3_old hpre g.noppp (fun id hd e => h1 ⟨id, hd, e⟩)) hin he he'

theorem BReach.np {s : Streams} {H : List Nat} (h : BReach s H) : NoPPP s ∧ NoPush s := by
  induction h with
  | init hi hp => exact ⟨NoPPP_blank hi.blank, hp⟩
  | step op _ _ _ ih => exact ⟨NoPPP_step ih.1 ih.2 op, NoPush_step ih.2 op⟩

/-- an operation either leaves the state alone (a refused PUSH_PROMISE) or is one of stage 1 -/
theorem BReach.cases_step {s : Streams} {H : List Nat} (h : BReach s H) (op : Op) (hpre : opPre3 s op) :
    op.apply s = s ∨ opPre2 s op := by
  by_cases h1 : ∃ id hd, op = .recvPushPromise id hd
  · obtain ⟨id, hd, rfl⟩ := h1
    exact .inl (recvPushPromise_nopush h.np.2 id hd)
  · exact .inr (opPre3_old hpre h.np.1 (fun id hd e => h1 ⟨id, hd, e⟩))

theorem BReach.evT {s : Streams} {H : List Nat} (h : BReach s H) : KeysOK s ∧ NextLocal s := by
  induction h with
  | init hi _ => exact ⟨hi.blank.keysOK, hi.blank.next⟩
  | step op hr hpre _ ih =>
    rcases hr.cases_step op hpre with e | hp
    · rw [e]; exact ih
    · have e := (op_apiStep2 _ op hp).evT ih.1 ih.2
      exact ⟨e.keysOK ih.1, e.nx.nextLocal ih.2⟩

/-- **No panic, handle discipline, 37 operations, connections without server push** -/
theorem breach_good {s : Streams} {H : List Nat} (h : BReach s H) (he : ErrOK s) : Good3 s H := by
  induction h with
  | init hi hp =>
    exact ⟨⟨blank_npi hi.blank hi.np hi.q, fun k hk => absurd hk List.not_mem_nil, IBS_blank hi.blank hi.q, JR_init hi.recv,
      ConnFlowP.Init.safe hi.flow⟩, NoPPP_blank hi.blank, hp⟩
  | @step t _ op hr hpre hin ih =>
    have he0 : ErrOK t := by
      rcases hr.cases_step op hpre with e | hp
      · rw [e] at he; exact he
      · exact ErrOK.backT ((op_apiStep2 _ op hp).evT hr.evT.1 hr.evT.2) he
    exact good3_step (ih he0) op hpre hin he0 he

/-- `poll_pushed` through a held handle: nothing to take, no panic, the invariant bundle is kept (no new handle) -/
theorem refPollPushed_good3 {s : Streams} {H : List Nat} (g : Good3 s H) {k : Nat} (hk : k ∈ H) (t : String) :
    (s.refPollPushed k t).1.panicked = none ∧ NPI (fun _ => False) (s.refPollPushed k t).1 ∧ NoPPP (s.refPollPushed k t).1 ∧
    NoPush (s.refPollPushed k t).1 ∧ ∀ c m u f, (s.refPollPushed k t).2 ≠ .pushed c m u f := by
  obtain ⟨x, hx, _⟩ := g.good.hok k hk
  have h := refPollPushed_npi_noPPP g.good.npi g.noppp (k := k) ⟨x, hx⟩ t
  exact ⟨h.1.np, h.1, h.2.1, refPollPushed_noPush g.nopush k t, h.2.2.1⟩

/-- witness: the stream layer of a new client connection that announced SETTINGS_ENABLE_PUSH = 0 -/
def wInit3 : Streams :=
  { actions := { recv := { flow := { windowSize := { val := 65535 }, available := { val := 65535 } }, isPushEnabled := false },
                 send := { prioritize := { flow := { windowSize := { val := 65535 }, available := { val := 65535 } } } } } }

theorem wInit3_init2 : Init2 wInit3 :=
  ⟨⟨rfl, rfl, rfl, rfl, rfl, rfl, rfl, rfl, rfl, rfl, by intro x hx; cases hx; rfl⟩, rfl, fun q => by cases q <;> rfl,
   ⟨rfl, rfl, rfl, rfl, rfl⟩, ⟨rfl, by decide⟩⟩

theorem wInit3_nopush : NoPush wInit3 := .inr rfl

/-- witness history: request, a PUSH_PROMISE (refused), response head, DATA in, handle cloned, both dropped (no hypothesis), EOF -/
def wOps3 : List Op :=
  [.sendRequest false [] false none, .recvPushPromise 1 { sid := 2, eos := false, status := none },
   .recvHeaders { sid := 1, eos := false, status := some [50, 48, 48] },
   .recvData 1 [1, 2, 3] false none, .cloneStreamRef 0, .dropStreamRef 0, .dropStreamRef 0, .recvEof false]

set_option maxRecDepth 8000 in
theorem wOps3_breach : BReach (run wInit3 wOps3) [] := by
  have r0 : BReach wInit3 [] := .init wInit3_init2 wInit3_nopush
  have r1 := BReach.step (.sendRequest false [] false none) r0 trivial (by intro k h; cases h)
  have r2 := BReach.step (.recvPushPromise 1 { sid := 2, eos := false, status := none }) r1 trivial (by intro k h; cases h)
  have r3 := BReach.step (.recvHeaders { sid := 1, eos := false, status := some [50, 48, 48] }) r2 (by show _ = none; decide) (by intro k h; cases h)
  have r4 := BReach.step (.recvData 1 [1, 2, 3] false none) r3 (by show FrameLenOK [1, 2, 3] none; unfold FrameLenOK; decide) (by intro k h; cases h)
  have r5 := BReach.step (.cloneStreamRef 0) r4 trivial (by intro k h; cases h; decide)
  have r6 := BReach.step (.dropStreamRef 0) r5 trivial (by intro k h; cases h; decide)
  have r7 := BReach.step (.dropStreamRef 0) r6 trivial (by intro k h; cases h; decide)
  have r8 := BReach.step (.recvEof false) r7 (by intro h; cases h) (by intro k h; cases h)
  exact r8

/-- a state with one handle held -/
theorem wOps3a_breach : BReach (run wInit3 [.sendRequest false [] false none]) [0] :=
  BReach.step (.sendRequest false [] false none) (.init wInit3_init2 wInit3_nopush) trivial (by intro k h; cases h)

set_option maxRecDepth 8000 in
theorem wOps3a_facts : ErrOK (run wInit3 [.sendRequest false [] false none]) := by unfold ErrOK; decide +kernel

set_option maxRecDepth 8000 in
theorem wOps3_facts : ErrOK (run wInit3 wOps3) ∧ (run wInit3 wOps3).store.slab.length = 0 :=
  ⟨by unfold ErrOK; decide +kernel, by decide +kernel⟩

end H2V.Lemmas.ConnNoPanicP
