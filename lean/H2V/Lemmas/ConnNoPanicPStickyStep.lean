import H2V.Lemmas.ConnNoPanicPStickyWrite
import H2V.Lemmas.ConnResetPHist
import H2V.Model.ConnProto
/-
  C08 (no panic) — the first recorded panic message is never overwritten, part 5: every operation of ConnResetP's `Op`
  (any interleaving of peer frames, connection progress and user calls), every history; `Conn.panic`.
  No precondition at all: `Streams.panic` is first-wins and nothing else writes `panicked`.
-/
namespace H2V.Lemmas.ConnNoPanicP
open H2V H2V.Model H2V.Model.Conn
open H2V.Lemmas.ConnResetP (Op run)
open Sticky
attribute [local irreducible] wrapSubU32 wrapSubUsize

/-- **no operation overwrites a recorded panic message** (every constructor of `Op`, no precondition) -/
theorem op_sticky (s : Streams) (op : Op) : ST s (op.apply s) := by
  cases op <;> (simp only [Op.apply]; st_auto)

/-- **no history overwrites a recorded panic message** -/
theorem run_sticky (s : Streams) (ops : List Op) : ST s (run s ops) := by
  induction ops generalizing s with
  | nil => exact .refl _
  | cons op ops ih => exact (op_sticky s op).trans (ih _)

/-- unfolded form -/
theorem run_panicked_eq {s : Streams} {m : String} (h : s.panicked = some m) (ops : List Op) :
    (run s ops).panicked = some m := run_sticky s ops m h

/-- a state without a recorded panic had none before -/
theorem run_panicked_none {s : Streams} {ops : List Op} (h : (run s ops).panicked = none) : s.panicked = none := by
  cases hp : s.panicked with
  | none => rfl
  | some m => rw [run_sticky s ops m hp] at h; cases h

/-- the connection records a panic in its stream layer, first message wins -/
theorem Conn.panic_streams (c : Conn) (m : String) : (c.panic m).streams = c.streams.panic m := rfl

theorem Conn.panic_sticky (c : Conn) (m : String) : ST c.streams (c.panic m).streams := panic_st _ _

end H2V.Lemmas.ConnNoPanicP
