import H2V.Lemmas.ConnNoPanicPFiInv
/-
  C08 (no panic) — PUSH_PROMISE bookkeeping, part 2: `f_pp` for the light functions (generated from the `f_lt` list).
-/
namespace H2V.Lemmas.ConnNoPanicP
open H2V H2V.Model H2V.Model.Conn H2V.Lemmas.ConnCountsP
attribute [local irreducible] wrapSubU32 wrapSubUsize
variable {sv : Bool}


theorem assignConnectionCapacityLoop_sk (n : Nat) (s : Streams) : SK sv s (Streams.assignConnectionCapacityLoop n s) := by
  induction n generalizing s with
  | zero => unfold Streams.assignConnectionCapacityLoop; exact .refl _
  | succ n ih =>
    unfold Streams.assignConnectionCapacityLoop
    repeat (first | sk_step | with_reducible refine SK.trans ?_ (ih ..) | sk_side | intro _ | split | dsimp only)
theorem assignConnectionCapacity_sk (s : Streams) (inc : Nat) : SK sv s (s.assignConnectionCapacity inc) := by
  unfold Streams.assignConnectionCapacity; sk_auto
theorem reserveCapacity_sk (s : Streams) (k cap : Nat) : SK sv s (s.reserveCapacity k cap) := by
  unfold Streams.reserveCapacity; sk_auto
theorem recvConnectionWindowUpdate_sk (s : Streams) (inc : Nat) : SK sv s (s.recvConnectionWindowUpdate inc).1 := by
  unfold Streams.recvConnectionWindowUpdate; sk_auto
theorem reclaimAllCapacity_sk (s : Streams) (k : Nat) : SK sv s (s.reclaimAllCapacity k) := by
  unfold Streams.reclaimAllCapacity; sk_auto
theorem clearQueue_sk (s : Streams) (k : Nat) : SK sv s (s.clearQueue k) := by
  unfold Streams.clearQueue; sk_auto
theorem modSend_sk_next (s : Streams) (f : Send → Send)
    (h : ∀ n', (f s.actions.send).nextStreamId = some n' → ∃ n, s.actions.send.nextStreamId = some n ∧ n ≤ n') :
    SK sv s (s.modSend f) :=
  ⟨fun _ hl => hl, fun _ _ => SR.refl _, h⟩
theorem sendOpenId_sk (s : Streams) : SK sv s s.sendOpenId.1 := by
  unfold Streams.sendOpenId
  split
  · exact .refl _
  · next id hid =>
    dsimp only
    refine modSend_sk_next _ _ (fun n' hn' => ⟨id, hid, ?_⟩)
    have hn'' : (if id + 2 > 2147483647 then none else some (id + 2)) = some n' := hn'
    split at hn''
    · cases hn''
    · cases hn''; omega
theorem sendHeaders_sk (s : Streams) (k : Nat) (eos : Bool) (f : List Hpack.Field) : SK sv s (s.sendHeaders k eos f).1 := by
  unfold Streams.sendHeaders
  split
  · exact .refl _
  · split
    · exact .refl _
    · next st' _ heq =>
      dsimp only
      have o1 : Opn sv (s.modStream k fun st => { st with state := st' }) k := opn_setState s k st' (sendOpen_nsu heq)
      have h1 : SK sv s (s.modStream k fun st => { st with state := st' }) :=
        modStream_sk _ _ _ (fun x => setState_sr x st' (sendOpen_nsu heq))
      generalize (s.modStream k fun st => { st with state := st' }) = s1 at o1 h1 ⊢
      generalize hs2 : (if (s1.counts.isLocalInit (s1.stream k).id && !(s1.stream k).isPendingPush) = true then s1.queueOpen k else s1) = s2
      have h2 : SK sv s1 s2 := by rw [← hs2]; split; exact queueOpen_sk _ _ o1; exact .refl _
      have h3 : SK sv s2 (s2.queueFrame k (.headers eos f)) := queueFrame_sk _ _ _ (o1.sk h2)
      split
      · exact ((h1.trans h2).trans h3).trans (notifyTask_sk _)
      · exact (h1.trans h2).trans h3
theorem sendReserveLocal_sk (s : Streams) : SK sv s s.sendReserveLocal.1 := by
  unfold Streams.sendReserveLocal; sk_auto
theorem sendPushPromise_sk (s : Streams) (p pk pid : Nat) (f : List Hpack.Field) (h : Opn sv s p) :
    SK sv s (s.sendPushPromise p pk pid f).1 := by
  unfold Streams.sendPushPromise
  split
  · exact .refl _
  · split
    · exact .refl _
    · split
      · exact .refl _
      · exact queueFrame_sk _ _ _ h
theorem sendInterimInformationalHeaders_sk (s : Streams) (k : Nat) (f : List Hpack.Field) (h : Opn sv s k) :
    SK sv s (s.sendInterimInformationalHeaders k f).1 := by
  unfold Streams.sendInterimInformationalHeaders
  split
  · exact .refl _
  · dsimp only
    split
    · exact .refl _
    · exact queueFrame_sk _ _ _ h
theorem sendSendReset_sk (s : Streams) (k : Nat) (r : Reason) (i : Initiator) : SK sv s (s.sendSendReset k r i) := by
  unfold Streams.sendSendReset
  dsimp only
  split
  · exact .refl _
  · have o1 : Opn sv (s.modStreamW k fun st => st.setReset r i) k := opn_setReset s k r i
    have h1 : SK sv s (s.modStreamW k fun st => st.setReset r i) := modStreamW_sk _ _ _ (fun x => setReset_sr x r i)
    generalize (s.modStreamW k fun st => st.setReset r i) = s1 at o1 h1 ⊢
    split
    · exact h1
    · generalize hs2 : (if (s1.stream k).isPendingOpen = true then _ else s1.clearQueue k) = s2
      have h2 : SK sv s1 s2 := by
        rw [← hs2]
        split
        · have ha : SK sv s1 ((s1.modStream k fun st => { st with pendingSend := st.pendingSend.drop 1 }).clearQueue k) := by sk_auto
          split
          · exact ha.trans (modStream_sk_opn (o1.sk ha) _ (fun _ => by exact ⟨rfl, rfl, rfl, rfl⟩))
          · exact ha
        · sk_auto
      have h3 : SK sv s2 (s2.queueFrame k (.reset r)) := queueFrame_sk _ _ _ (o1.sk h2)
      exact ((h1.trans h2).trans h3).trans (reclaimAllCapacity_sk _ _)
theorem pollCapacity_sk (s : Streams) (k : Nat) (tag : String) : SK sv s (s.pollCapacity k tag).1 := by
  unfold Streams.pollCapacity; sk_auto
theorem pollReset_sk (s : Streams) (k : Nat) (m : PollReset) (tag : String) : SK sv s (s.pollReset k m tag).1 := by
  unfold Streams.pollReset; sk_auto
theorem sendRecvGoAway_sk (s : Streams) (l : Nat) : SK sv s (s.sendRecvGoAway l).1 := by
  unfold Streams.sendRecvGoAway; sk_auto
theorem sendHandleError_sk (s : Streams) (k : Nat) : SK sv s (s.sendHandleError k) := by
  unfold Streams.sendHandleError; sk_auto
theorem sendMaybeResetNextStreamId_sk (s : Streams) (id : Nat) : SK sv s (s.sendMaybeResetNextStreamId id) := by
  unfold Streams.sendMaybeResetNextStreamId
  split
  · next nx hnx =>
    split
    · next hge =>
      refine modSend_sk_next _ _ (fun n' hn' => ⟨nx, hnx, ?_⟩)
      have hn'' : (if id + 2 > 2147483647 then none else some (id + 2)) = some n' := hn'
      split at hn''
      · cases hn''
      · cases hn''; omega
    · exact .refl _
  · exact .refl _
theorem sendTrailers_sk (s : Streams) (k : Nat) (f : List Hpack.Field) : SK sv s (s.sendTrailers k f).1 := by
  unfold Streams.sendTrailers
  split
  · exact .refl _
  · split
    · exact .refl _
    · next hss =>
      have hss' : (s.stream k).state.isSendStreaming = true := by
        cases h : (s.stream k).state.isSendStreaming with
        | true => rfl
        | false => rw [h] at hss; simp at hss
      have o0 : Opn sv s k := opn_of_streaming hss'
      dsimp only
      refine SK.trans ?_ (reserveCapacity_sk _ _ _)
      split
      · next st' heq =>
        have h1 : SK sv s (s.modStream k fun st => { st with state := st' }) :=
          modStream_sk _ _ _ (fun x => setState_sr x st' (sendClose_nsu heq))
        exact h1.trans (queueFrame_sk _ _ _ (o0.sk h1))
      · exact (panic_sk _ _).trans (queueFrame_sk _ _ _ (o0.sk (panic_sk _ _)))
theorem prioSendData_sk (s : Streams) (k len : Nat) (eos : Bool) : SK sv s (s.prioSendData k len eos).1 := by
  unfold Streams.prioSendData
  split
  · exact .refl _
  · dsimp only
    split
    · exact .refl _
    · next hss =>
      have hss' : (s.stream k).state.isSendStreaming = true := by
        cases h : (s.stream k).state.isSendStreaming with
        | true => rfl
        | false => rw [h] at hss; simp at hss
      have o0 : Opn sv s k := opn_of_streaming hss'
      have h1 : SK sv s (s.modStream k fun st => { st with bufferedSendData := st.bufferedSendData + len }) :=
        modStream_sk_opn o0 _ (fun _ => by exact ⟨rfl, rfl, rfl, rfl⟩)
      generalize (s.modStream k fun st => { st with bufferedSendData := st.bufferedSendData + len }) = s1 at h1 ⊢
      generalize hs2 : (if (s1.stream k).requestedSendCapacity < (s1.stream k).bufferedSendData then _ else s1) = s2
      have h2 : SK sv s1 s2 := by rw [← hs2]; sk_auto
      generalize hs3 : (if eos = true then _ else s2) = s3
      have h3 : SK sv s2 s3 := by
        rw [← hs3]; split
        · refine SK.trans ?_ (reserveCapacity_sk _ _ _)
          split
          · next st' heq => exact modStream_sk _ _ _ (fun x => setState_sr x st' (sendClose_nsu heq))
          · exact panic_sk _ _
        · exact .refl _
      have h123 := (h1.trans h2).trans h3
      have o3 := o0.sk h123
      split
      · exact h123.trans (queueFrame_sk _ _ _ o3)
      · exact h123.trans (modStream_sk_opn o3 _ (fun _ => by exact ⟨rfl, rfl, rfl, rfl⟩))
theorem reclaimReservedCapacity_sk (s : Streams) (k : Nat) : SK sv s (s.reclaimReservedCapacity k) := by
  unfold Streams.reclaimReservedCapacity; sk_auto
theorem scheduleImplicitReset_sk (s : Streams) (k : Nat) (r : Reason) : SK sv s (s.scheduleImplicitReset k r) := by
  unfold Streams.scheduleImplicitReset; sk_auto
theorem prioRecvStreamWindowUpdate_sk (s : Streams) (k inc : Nat) : SK sv s (s.prioRecvStreamWindowUpdate k inc).1 := by
  unfold Streams.prioRecvStreamWindowUpdate; sk_auto
theorem sendRecvStreamWindowUpdate_sk (s : Streams) (k sz : Nat) : SK sv s (s.sendRecvStreamWindowUpdate k sz).1 := by
  unfold Streams.sendRecvStreamWindowUpdate; sk_auto
theorem decStreamWindow_sk (dec acc : Nat) (s : Streams) (k : Nat) : SK sv s (Streams.decStreamWindow dec acc s k).1 := by
  unfold Streams.decStreamWindow; sk_auto
theorem releaseConnectionCapacity_sk (s : Streams) (c : Nat) (b : Bool) : SK sv s (s.releaseConnectionCapacity c b) := by
  unfold Streams.releaseConnectionCapacity; sk_auto
theorem releaseCapacity_sk (s : Streams) (k c : Nat) (b : Bool) : SK sv s (s.releaseCapacity k c b).1 := by
  unfold Streams.releaseCapacity; sk_auto
theorem clearRecvBuffer_sk (s : Streams) (k : Nat) (b : Bool) : SK sv s (s.clearRecvBuffer k b) := by
  unfold Streams.clearRecvBuffer
  dsimp only
  have h0 : SK sv s { s with counts := (Streams.clearRecvBufferLoop (s.stream k).inFlightRecvData (s.stream k).pendingRecv 0 s.counts).2 } :=
    .of_store rfl rfl
  split
  · sk_auto
  · sk_auto
theorem releaseClosedCapacity_sk (s : Streams) (k : Nat) : SK sv s (s.releaseClosedCapacity k) := by
  unfold Streams.releaseClosedCapacity; sk_auto
theorem consumeConnectionWindow_sk (s : Streams) (sz : Nat) : SK sv s (s.consumeConnectionWindow sz).1 := by
  unfold Streams.consumeConnectionWindow; sk_auto
theorem ignoreData_sk (s : Streams) (sz : Nat) : SK sv s (s.ignoreData sz).1 := by
  unfold Streams.ignoreData; sk_auto
theorem recvOpen_sk (s : Streams) (id : Nat) (b : Bool) : SK sv s (s.recvOpen id b).1 := by
  unfold Streams.recvOpen; sk_auto


theorem recvRecvTrailers_sk (s : Streams) (k : Nat) (h : HeadersIn) : SK sv s (s.recvRecvTrailers k h).1 := by
  unfold Streams.recvRecvTrailers
  split
  · exact .refl _
  · next st' _ heq =>
    dsimp only
    have h1 : SK sv s (s.modStream k fun st => { st with state := st' }) :=
      modStream_sk' _ _ _ (setState_sr' _ _ (recvClose_su heq))
    sk_auto
theorem recvRecvPushPromise_sk (s : Streams) (k : Nat) (h : HeadersIn) : SK sv s (s.recvRecvPushPromise k h).1 := by
  unfold Streams.recvRecvPushPromise
  split
  · exact .refl _
  · next st' _ heq =>
    dsimp only
    have h1 : SK sv s (s.modStream k fun st => { st with state := st' }) :=
      modStream_sk' _ _ _ (setState_sr' _ _ (reserveRemote_su heq))
    sk_auto
theorem recvHandleError_sk (s : Streams) (k : Nat) (e : PErr) : SK sv s (s.recvHandleError k e) := by
  unfold Streams.recvHandleError; sk_auto
theorem recvGoAway_sk (s : Streams) (l : Nat) : SK sv s (s.recvGoAway l) := by
  unfold Streams.recvGoAway; sk_auto
theorem recvRecvEof_sk (s : Streams) (k : Nat) : SK sv s (s.recvRecvEof k) := by
  unfold Streams.recvRecvEof; sk_auto
theorem recvMaybeResetNextStreamId_sk (s : Streams) (id : Nat) : SK sv s (s.recvMaybeResetNextStreamId id) := by
  unfold Streams.recvMaybeResetNextStreamId; sk_auto
theorem sendPendingRefusal_sk (s : Streams) (w : Writer) : SK sv s (s.sendPendingRefusal w).1 := by
  unfold Streams.sendPendingRefusal; sk_auto
theorem scheduleRecv_sk (s : Streams) (k : Nat) (t : String) : SK sv s (s.scheduleRecv k t).1 := by
  unfold Streams.scheduleRecv; sk_auto
theorem recvPollData_sk (s : Streams) (k : Nat) (t : String) : SK sv s (s.recvPollData k t).1 := by
  unfold Streams.recvPollData; sk_auto
theorem recvPollTrailers_sk (s : Streams) (k : Nat) (t : String) : SK sv s (s.recvPollTrailers k t).1 := by
  unfold Streams.recvPollTrailers; sk_auto
theorem recvPollInformational_sk (s : Streams) (k : Nat) (t : String) : SK sv s (s.recvPollInformational k t).1 := by
  unfold Streams.recvPollInformational; sk_auto
theorem enqueueResetExpiration_sk (s : Streams) (k : Nat) : SK sv s (s.enqueueResetExpiration k) := by
  unfold Streams.enqueueResetExpiration; sk_auto
theorem recvRecvReset_sk (s : Streams) (k : Nat) (r : Reason) : SK sv s (s.recvRecvReset k r).1 := by
  unfold Streams.recvRecvReset; sk_auto
theorem notifyPushIfRecvEnded_sk (s : Streams) (k : Nat) : SK sv s (s.notifyPushIfRecvEnded k) := by
  unfold Streams.notifyPushIfRecvEnded; sk_auto

theorem recvOpen_initial {st st' : State} {a b : Bool} (h : st.recvOpen a b = (st', .ok true)) :
    st.inner = .idle ∨ st.inner = .reservedRemote := by
  obtain ⟨inner⟩ := st
  cases inner with
  | idle => left; rfl
  | reservedRemote => right; rfl
  | «open» l r => cases r <;> simp [State.recvOpen] at h
  | halfClosedLocal p => cases p <;> simp [State.recvOpen] at h
  | _ => simp [State.recvOpen] at h

/-- `Recv::recv_headers`: the stream it counts (`Idle`/`ReservedRemote` so far) must not be locally initiated -/
theorem recvRecvHeaders_sk (s : Streams) (k : Nat) (h : HeadersIn)
    (hE : Early (s.stream k) → locId sv (s.stream k).id = false) : SK sv s (s.recvRecvHeaders k h).1 := by
  unfold Streams.recvRecvHeaders
  split
  · exact .refl _
  · next st' isInitial heq =>
    dsimp only
    generalize hs1 : Streams.modStream s k _ = s1
    have h1 : SK sv s s1 := by rw [← hs1]; exact modStream_sk' _ _ _ (setState_sr' _ _ (recvOpen_su heq))
    split
    · exact h1
    · generalize hs2 : (if (isInitial && !(s1.stream k).isCounted) = true then _ else s1) = s2
      have h2 : SK sv s s2 := by
        rw [← hs2]
        split
        · next hc =>
          have hi : isInitial = true := by
            cases isInitial
            · simp at hc
            · rfl
          subst hi
          have o0 : Opn sv s k := .inr (.inr (hE (recvOpen_initial heq)))
          have ha : SK sv s1 (if h.sid > s1.recv.lastProcessedId then s1.modRecv fun r => { r with lastProcessedId := h.sid } else s1) := by
            split
            · exact modRecv_sk _ _
            · exact .refl _
          exact h1.trans (ha.trans (incNumRecvStreams_sk _ _ ((o0.sk h1).sk ha)))
        · exact h1
      sk_auto
theorem decContentLength_sr {x y : Stream} {n : Nat} (h : x.decContentLength n = some y) : SR sv x y := by
  unfold Stream.decContentLength at h
  split at h
  · split at h
    · cases h; sr_fields
    · cases h
  · split at h
    · cases h
    · cases h; exact SR.refl _
  · cases h; exact SR.refl _
theorem recvRecvData_sk (s : Streams) (k : Nat) (payload : Bytes) (eos : Bool) (pad : Option Nat) : SK sv s (s.recvRecvData k payload eos pad).1 := by
  unfold Streams.recvRecvData
  cases pad <;> dsimp only
  all_goals (
    generalize hs0 : (if _ > Generated.Consts.MAX_WINDOW_SIZE then s.panic _ else s) = s0
    have h0 : SK sv s s0 := by rw [← hs0]; split; exact panic_sk _ _; exact .refl _
    split
    · exact h0
    split
    · sk_auto
    split
    · sk_auto
    · next s1 _ heq1 =>
      have h1 : SK sv s s1 := h0.trans (SK.of_fst_eq heq1 (consumeConnectionWindow_sk _ _))
      split
      · exact h1
      · split
        · exact h1
        · next st1 hdc =>
          have hsp : SR sv (s1.stream k) st1 := decContentLength_sr hdc
          generalize hs2 : s1.setStream st1 = s2
          have h2 : SK sv s s2 := by
            rw [← hs2]; exact h1.trans (setStream_sk s1 st1 (by rw [hsp.key, stream_key]; exact hsp))
          generalize hs3 : (if eos = true then _ else (s2, (none : Option PErr))) = p3
          have h3 : SK sv s p3.1 := by
            rw [← hs3]
            split
            · split
              · exact h2
              · split
                · exact h2
                · next st' _ heq => exact h2.trans (modStream_sk' _ _ _ (setState_sr' _ _ (recvClose_su heq)))
            · exact h2
          split
          · exact h3
          · next s4 =>
            have h4 : SK sv s s4 := h3
            sk_auto)

theorem maybeCancel_sk (s : Streams) (k : Nat) : SK sv s (s.maybeCancel k) := by
  unfold Streams.maybeCancel; sk_auto
theorem refReserveCapacity_sk (s : Streams) (k c : Nat) : SK sv s (s.refReserveCapacity k c) := by
  unfold Streams.refReserveCapacity; sk_auto
theorem refReleaseCapacity_sk (s : Streams) (k c : Nat) : SK sv s (s.refReleaseCapacity k c).1 := by
  unfold Streams.refReleaseCapacity; sk_auto
theorem refClearRecvBuffer_sk (s : Streams) (k : Nat) : SK sv s (s.refClearRecvBuffer k) := by
  unfold Streams.refClearRecvBuffer; sk_auto
theorem pollPendingOpen_sk (s : Streams) (p : Option Nat) (t : String) : SK sv s (s.pollPendingOpen p t).1 := by
  unfold Streams.pollPendingOpen; sk_auto
theorem cloneHandle_sk (s : Streams) : SK sv s s.cloneHandle := by
  unfold Streams.cloneHandle; sk_auto
theorem dropHandle_sk (s : Streams) : SK sv s s.dropHandle := by
  unfold Streams.dropHandle; sk_auto
theorem refPollData_sk (s : Streams) (k : Nat) (t : String) : SK sv s (s.refPollData k t).1 := by
  unfold Streams.refPollData
  split
  · next s1 payload budgeted heq =>
    have h1 : SK sv s s1 := SK.of_fst_eq heq (recvPollData_sk s k t)
    dsimp only
    split
    · exact h1.trans (modCounts_sk _ _)
    · exact h1
  · exact recvPollData_sk s k t

end H2V.Lemmas.ConnNoPanicP
