import H2V.Lemmas.HuffmanCode
import H2V.Lemmas.HuffmanBits
/-
  How the reference decoder `Spec.Huffman.go` moves over a run of bits `codeBits k x`:
  `go_hit`  — the run completes a code word (uses prefix-freeness);
  `go_skip` — no code word is completed within the run;
  `go_nil`  — the end-of-input rule.
-/
namespace H2V.Lemmas.Huffman
open H2V H2V.Spec.Rfc7541 H2V.Spec.Huffman

/-! ### `findSym` -/

theorem findIn_some : ∀ {L : List (Nat × Nat)} {n c i s : Nat}, findIn L n c i = some s →
    ∃ j, s = i + j ∧ L[j]? = some (n, c)
  | [], n, c, i, s, h => by simp [findIn] at h
  | (l, v) :: rest, n, c, i, s, h => by
    simp only [findIn] at h
    split at h
    · rename_i heq
      obtain ⟨rfl, rfl⟩ := heq
      exact ⟨0, by simpa using h.symm, by simp⟩
    · obtain ⟨j, hj, hL⟩ := findIn_some h
      exact ⟨j + 1, by omega, by simpa using hL⟩

theorem findIn_none : ∀ {L : List (Nat × Nat)} {n c i : Nat}, findIn L n c i = none →
    ∀ j : Nat, L[j]? ≠ some (n, c)
  | [], n, c, i, _, j => by simp
  | (l, v) :: rest, n, c, i, h, j => by
    simp only [findIn] at h
    split at h
    · simp at h
    · rename_i hne
      cases j with
      | zero =>
        simp only [List.getElem?_cons_zero, ne_eq, Option.some.injEq, Prod.mk.injEq]
        exact hne
      | succ j =>
        simp only [List.getElem?_cons_succ]
        exact findIn_none h j

theorem findSym_some {n c s : Nat} (h : findSym n c = some s) : Code s n c := by
  obtain ⟨j, hj, hL⟩ := findIn_some h
  have : s = j := by omega
  subst this
  exact hL

theorem findSym_of_code {n c s : Nat} (h : Code s n c) : findSym n c = some s := by
  cases hf : findSym n c with
  | none => exact absurd h (findIn_none hf s)
  | some s' => rw [code_inj (findSym_some hf) h]

theorem findSym_none {n c : Nat} (h : ∀ s, ¬ Code s n c) : findSym n c = none := by
  cases hf : findSym n c with
  | none => rfl
  | some s' => exact absurd (findSym_some hf) (h s')

/-! ### `go` over a run of bits -/

theorem go_cons (b : Bool) (rest : List Bool) (len val : Nat) :
    go (b :: rest) len val =
      match findSym (len + 1) (2 * val + (if b then 1 else 0)) with
      | some s => if s = EOS then none else (go rest 0 0).map (s :: ·)
      | none => if len + 1 ≥ MAXLEN then none else go rest (len + 1) (2 * val + (if b then 1 else 0)) := by
  rw [go]; rfl

/-- no code word is a prefix of (or equal to) the `L`-bit string `V` -/
def NoPre (L V : Nat) : Prop := ∀ s n c, Code s n c → n ≤ L → V / 2 ^ (L - n) ≠ c

theorem NoPre.shorten {L V : Nat} (h : NoPre L V) (d : Nat) (hd : d ≤ L) :
    NoPre (L - d) (V / 2 ^ d) := by
  intro s n c hc hn
  have := h s n c hc (by omega)
  rwa [Nat.div_div_eq_div_mul, ← Nat.pow_add, show d + (L - d - n) = L - n by omega]

/-- a proper prefix of a code word has no code word as a prefix -/
theorem NoPre.of_code {s n c L : Nat} (h : Code s n c) (hL : L < n) : NoPre L (c / 2 ^ (n - L)) := by
  intro s' n' c' hc' hn'
  rw [Nat.div_div_eq_div_mul, ← Nat.pow_add, show n - L + (L - n') = n - n' by omega]
  exact prefix_free hc' h (by rintro rfl; have := hc'.symm.trans h; simp at this; omega) (by omega)

theorem step_arith (val x k : Nat) :
    val * 2 ^ (k + 1) + x % 2 ^ (k + 1) = (2 * val + x / 2 ^ k % 2) * 2 ^ k + x % 2 ^ k := by
  rw [Nat.mod_pow_succ, Nat.pow_succ]
  generalize 2 ^ k = P
  generalize x % P = r
  generalize x / P % 2 = b
  grind

/-- the run `codeBits k x` (k ≥ 1) read from state `(len, val)` completes the code of `s` -/
theorem go_hit {k x len val s : Nat} (R : List Bool) (hk : 1 ≤ k)
    (h : Code s (len + k) (val * 2 ^ k + x % 2 ^ k)) :
    go (codeBits k x ++ R) len val = if s = 256 then none else (go R 0 0).map (s :: ·) := by
  induction k generalizing len val with
  | zero => omega
  | succ k ih =>
    simp only [codeBits, List.cons_append, go_cons, bitNat_eq]
    rw [step_arith] at h
    generalize hv : 2 * val + x / 2 ^ k % 2 = val' at h
    by_cases hk0 : k = 0
    · subst hk0
      simp only [Nat.pow_zero, Nat.mul_one, Nat.mod_one, Nat.add_zero] at h
      rw [findSym_of_code h]
      simp only [codeBits, EOS, List.nil_append]
      rfl
    · have hnone : findSym (len + 1) val' = none := by
        apply findSym_none
        intro s' hs'
        have hne : s' ≠ s := by
          rintro rfl
          have := hs'.symm.trans h
          simp at this; omega
        have := prefix_free hs' h hne (by omega)
        apply this
        rw [show len + (k + 1) - (len + 1) = k by omega, Nat.add_comm,
          Nat.add_mul_div_right _ _ (Nat.two_pow_pos k), Nat.div_eq_of_lt (Nat.mod_lt _ (Nat.two_pow_pos k))]
        omega
      have hlen : ¬ (len + 1 ≥ MAXLEN) := by
        have := (code_range h).2.1
        simp only [MAXLEN]; omega
      rw [hnone]
      simp only [hlen, if_false]
      exact ih (by omega) (by rwa [show len + 1 + k = len + (k + 1) by omega])

/-- no code word is completed within the run `codeBits k x` read from state `(len, val)` -/
theorem go_skip {k x len val : Nat} (R : List Bool)
    (h : NoPre (len + k) (val * 2 ^ k + x % 2 ^ k)) (hlen : len + k < 30) :
    go (codeBits k x ++ R) len val = go R (len + k) (val * 2 ^ k + x % 2 ^ k) := by
  induction k generalizing len val with
  | zero => simp [codeBits, Nat.mod_one]
  | succ k ih =>
    simp only [codeBits, List.cons_append, go_cons, bitNat_eq]
    rw [step_arith] at h ⊢
    generalize hv : 2 * val + x / 2 ^ k % 2 = val' at h
    have hnone : findSym (len + 1) val' = none := by
      apply findSym_none
      intro s' hs'
      apply h s' _ _ hs' (by omega)
      rw [show len + (k + 1) - (len + 1) = k by omega, Nat.add_comm,
        Nat.add_mul_div_right _ _ (Nat.two_pow_pos k), Nat.div_eq_of_lt (Nat.mod_lt _ (Nat.two_pow_pos k))]
      omega
    have hlen' : ¬ (len + 1 ≥ MAXLEN) := by simp only [MAXLEN]; omega
    rw [hnone]
    simp only [hlen', if_false]
    rw [show len + (k + 1) = len + 1 + k by omega] at h ⊢
    exact ih h (by omega)

theorem go_nil (len val : Nat) :
    go [] len val = if len < 8 ∧ val + 1 = 2 ^ len then some [] else none := by
  rw [go]

end H2V.Lemmas.Huffman
