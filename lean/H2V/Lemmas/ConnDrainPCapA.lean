import H2V.Lemmas.ConnFlowPMain
/-
  ConnDrainP, part 14 — `CapInv`: nobody waits in `pending_capacity` while the connection has capacity to give.
  `KInv` = ConnFlowP's `SafeInv` ∧ `ReqOk` ∧ `CapInv`, carried together through every model function (the
  capacity-moving functions need the first two to keep the third); this file: the primitive updates.
-/
namespace H2V.Lemmas.ConnDrainP
open H2V H2V.Model H2V.Model.Conn
open H2V.Lemmas.ConnFlowP

/-- nobody waits in `pending_capacity` while the connection still has capacity to give -/
def CapInv (t : Streams) : Prop := t.prio.pendingCapacity = [] ∨ t.prio.flow.available.val ≤ 0

theorem CapInv.of_prio {t t' : Streams} (h : CapInv t) (e1 : t'.prio.pendingCapacity = t.prio.pendingCapacity)
    (e2 : t'.prio.flow.available = t.prio.flow.available) : CapInv t' := by
  unfold CapInv at *; rw [e1, e2]; exact h

/-- the send-flow safety invariant, `u32` requests, and `CapInv`, carried together through every model function -/
structure KInv (t : Streams) : Prop where
  safe : SafeInv t
  req : ReqOk t
  cap : CapInv t

section
variable {t : Streams}

theorem KInv.of_fr {t' : Streams} (h : KInv t) (hf : Fr t t') (hr : ReqOk t')
    (e1 : t'.prio.pendingCapacity = t.prio.pendingCapacity) : KInv t' :=
  ⟨h.safe.fr hf, hr, h.cap.of_prio e1 (by rw [hf.1])⟩

theorem KInv.panic (h : KInv t) (m : String) : KInv (t.panic m) :=
  h.of_fr ((Fr.refl _).panic m) (h.req.panic m) (by rw [panic_prio])
theorem KInv.unsup (h : KInv t) (m : String) : KInv (t.unsup m) :=
  h.of_fr ((Fr.refl _).unsup m) (h.req.unsup m) (by unfold Streams.unsup; split <;> rfl)
theorem KInv.wake (h : KInv t) (w : List String) : KInv (t.wake w) :=
  h.of_fr ((Fr.refl _).wake w) (h.req.wake w) rfl
theorem KInv.notifyTask (h : KInv t) : KInv t.notifyTask :=
  h.of_fr ((Fr.refl _).notifyTask) h.req.notifyTask (by unfold Streams.notifyTask; split <;> rfl)
theorem KInv.modRecv (h : KInv t) (f : Recv → Recv) : KInv (t.modRecv f) :=
  h.of_fr ((Fr.refl _).modRecv f) (h.req.modRecv f) rfl
theorem KInv.modCounts (h : KInv t) (f : Counts → Counts) : KInv (t.modCounts f) :=
  h.of_fr ((Fr.refl _).modCounts f) (h.req.modCounts f) rfl
theorem KInv.modCountsA (h : KInv t) (w : String) (f : Counts → Option Counts) : KInv (t.modCountsA w f) :=
  h.of_fr ((Fr.refl _).modCountsA w f) (h.req.modCountsA w f) (by
    unfold Streams.modCountsA; split
    · rfl
    · rw [panic_prio])
theorem KInv.withCounts (h : KInv t) (c : Counts) : KInv { t with counts := c } :=
  h.of_fr ((Fr.refl _).withCounts c) (h.req.withCounts c) rfl
theorem KInv.withRefs (h : KInv t) (n : Nat) : KInv { t with refs := n } :=
  h.of_fr ((Fr.refl _).withRefs n) (h.req.withRefs n) rfl
theorem KInv.withWakes (h : KInv t) (w : List String) : KInv { t with wakes := w } :=
  h.of_fr ((Fr.refl _).withWakes w) (h.req.withWakes w) rfl
theorem KInv.withConnError (h : KInv t) (e : Option PErr) : KInv { t with actions := { t.actions with connError := e } } :=
  h.of_fr ((Fr.refl _).withConnError e) (h.req.withConnError e) rfl
theorem KInv.withTask (h : KInv t) (e : Option String) : KInv { t with actions := { t.actions with task := e } } :=
  h.of_fr ((Fr.refl _).withTask e) (h.req.withTask e) rfl
theorem KInv.withStoreUnlink (h : KInv t) (id : Nat) : KInv { t with store := t.store.unlink id } :=
  h.of_fr ((Fr.refl _).withStoreUnlink id) (h.req.withStoreUnlink id) rfl
theorem KInv.withStoreRemove (h : KInv t) (k : Nat) : KInv { t with store := t.store.remove k } :=
  h.of_fr ((Fr.refl _).withStoreRemove k) (h.req.withStoreRemove k) rfl
theorem KInv.withStoreUnlinkRemove (h : KInv t) (id k : Nat) : KInv { t with store := (t.store.unlink id).remove k } :=
  h.of_fr ((Fr.refl _).withStoreUnlinkRemove id k) (h.req.withStoreUnlinkRemove id k) rfl
theorem KInv.withStoreRemoveLeak (h : KInv t) (k n : Nat) : KInv { t with store := t.store.remove k, recvBufferLeaked := n } :=
  h.of_fr ((Fr.refl _).withStoreRemoveLeak k n) (h.req.withStoreRemoveLeak k n) rfl
theorem KInv.withStoreInsert {st : Stream} (hf : Fresh st) (hq : st.requestedSendCapacity < 4294967296) (h : KInv t) :
    KInv { t with store := (t.store.insert st).1 } :=
  h.of_fr ((Fr.refl _).withStoreInsert st hf) (ReqOk.withStoreInsert hq h.req) rfl

theorem KInv.modStream' {id : Nat} {f : Stream → Stream} (hf : NoFlow f) (hq : ReqF f) (h : KInv t) : KInv (t.modStream id f) :=
  h.of_fr ((Fr.refl _).modStream id f hf) (ReqOk.modStreamF hq h.req) (by rw [modStream_prio])
theorem KInv.modStreamW' {id : Nat} {f : Stream → Stream × List String} (hf : NoFlowW f) (hq : ReqFW f) (h : KInv t) :
    KInv (t.modStreamW id f) :=
  h.of_fr ((Fr.refl _).modStreamW id f hf) (ReqOk.modStreamWF hq h.req) (by rw [modStreamW_prio])
theorem KInv.modSend' {f : Send → Send} (hf : ∀ sd, (f sd).prioritize = sd.prioritize) (h : KInv t) : KInv (t.modSend f) :=
  h.of_fr ((Fr.refl _).modSend f hf) (h.req.modSend f) (by show (f t.actions.send).prioritize.pendingCapacity = _; rw [hf]; rfl)
theorem KInv.modPrio' {f : Prioritize → Prioritize}
    (hf : ∀ p, (f p).flow = p.flow ∧ (f p).maxBufferSize = p.maxBufferSize ∧ (f p).pendingCapacity = p.pendingCapacity)
    (h : KInv t) : KInv (t.modPrio f) :=
  h.of_fr ((Fr.refl _).modPrio f (fun p => ⟨(hf p).1, (hf p).2.1⟩)) (h.req.modPrio f) (hf _).2.2

theorem qPush_pc_ne (q : QName) (hq : q ≠ .pendingCapacity) (id : Nat) :
    (t.qPush q id).1.prio.pendingCapacity = t.prio.pendingCapacity := by
  unfold Streams.qPush; split
  · rfl
  · show ((t.modStream id _).setQ q _).prio.pendingCapacity = _
    cases q <;> first | exact absurd rfl hq | (show (t.modStream id _).prio.pendingCapacity = _; rw [modStream_prio])
theorem qPushFront_pc_ne (q : QName) (hq : q ≠ .pendingCapacity) (id : Nat) :
    (t.qPushFront q id).1.prio.pendingCapacity = t.prio.pendingCapacity := by
  unfold Streams.qPushFront; split
  · rfl
  · show ((t.modStream id _).setQ q _).prio.pendingCapacity = _
    cases q <;> first | exact absurd rfl hq | (show (t.modStream id _).prio.pendingCapacity = _; rw [modStream_prio])

theorem KInv.qPush {q : QName} (hq : q ≠ .pendingCapacity) (h : KInv t) (id : Nat) : KInv (t.qPush q id).1 :=
  h.of_fr ((Fr.refl _).qPush q id) (h.req.qPush q id) (qPush_pc_ne q hq id)
theorem KInv.qPushFront {q : QName} (hq : q ≠ .pendingCapacity) (h : KInv t) (id : Nat) : KInv (t.qPushFront q id).1 :=
  h.of_fr ((Fr.refl _).qPushFront q id) (h.req.qPushFront q id) (qPushFront_pc_ne q hq id)

/-- popping (any queue) never breaks the invariant: `pending_capacity` can only get shorter -/
theorem KInv.qPop (h : KInv t) (q : QName) : KInv (t.qPop q).1 := by
  refine ⟨h.safe.fr ((Fr.refl _).qPop q), h.req.qPop q, ?_⟩
  unfold Streams.qPop
  split
  · exact h.cap
  · next id rest hq =>
    have hfl : (((t.setQ q rest).modStream id fun st => st.setQueued q false)).prio.flow = t.prio.flow := by
      rw [modStream_prio]; cases q <;> rfl
    rcases h.cap with hc | hc
    · left
      show ((t.setQ q rest).modStream id _).prio.pendingCapacity = []
      rw [modStream_prio]
      cases q <;> first | exact hc | (exfalso; unfold Streams.getQ at hq; rw [hc] at hq; cases hq)
    · right
      show ((t.setQ q rest).modStream id _).prio.flow.available.val ≤ 0
      rw [hfl]; exact hc

theorem KInv.of_fst_eq {α : Type} {p : Streams × α} {t' : Streams} {r : α} (he : p = (t', r)) (h : KInv p.1) : KInv t' := by
  subst he; exact h

end

end H2V.Lemmas.ConnDrainP
