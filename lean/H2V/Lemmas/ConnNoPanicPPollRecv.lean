import H2V.Lemmas.ConnNoPanicPPollPop
import H2V.Lemmas.ConnRecvPOps
/-
  C08 (no panic) — part 11: `Recv::send_connection_window_update`, `Recv::send_stream_window_updates`,
  `Recv::buffer_pending`.  Their `expect("unexpected flow control state")` (`inc_window(unclaimed)` fails)
  is dead in every state that satisfies the receive-window invariant `ConnRecvP.Inv true g s` of the C03
  family (`ConnRecvPInv.lean`; `ConnRecvP.reachOk_inv` proves it for the reachable states): the increment is
  `available − window ≤ 2^31-1`.
-/
namespace H2V.Lemmas.ConnNoPanicP
open H2V H2V.Model H2V.Model.Conn H2V.Lemmas.ConnCountsP
attribute [local irreducible] wrapSubU32 wrapSubUsize

theorem St.refl (ks : List Nat) (s : Streams) : St ks s s := ⟨.refl _ _, .refl _, .refl _⟩
theorem St.of_fst_eq {ks : List Nat} {s : Streams} {α : Type} {p : Streams × α} {a : Streams} {x : α}
    (h : p = (a, x)) (e : St ks s p.1) : St ks s a := by subst h; exact e

/-- `Recv::send_connection_window_update` is a light step -/
theorem sendConnectionWindowUpdate_st {full : Bool} {g : ConnRecvP.Ghost} {s : Streams} (hr : ConnRecvP.Inv full g s)
    (w : Writer) : St [] s (s.sendConnectionWindowUpdate w).1 := by
  have hW := hr.w0
  have hcons := hr.cons
  have htHi := hr.tHi
  have hhi := hr.hiMax
  have hA := (Comp.inI32_iff _).1 hr.aI32
  simp only [ConnRecvP.cW, ConnRecvP.cA, ConnRecvP.cI] at hW hcons hA
  unfold Streams.sendConnectionWindowUpdate
  split
  · next incr hu =>
    split
    · exact .refl _ _
    · have hinc := ConnRecvP.incWindow_unclaimed hr.wI32 hr.aI32 hu (by omega)
      rw [hinc.2.2]
      dsimp only
      exact ⟨modRecv_lt _ _, by ev_auto, modRecv_fk _ _⟩
  · exact .refl _ _

theorem sendConnectionWindowUpdate_pk (s : Streams) (w : Writer) : PK s (s.sendConnectionWindowUpdate w).1 := by
  unfold Streams.sendConnectionWindowUpdate; pk_auto

/-- the WINDOW_UPDATE of one stream popped from `pending_window_updates` -/
theorem streamWindowUpdate_st {g : ConnRecvP.Ghost} {s : Streams} (hr : ConnRecvP.Inv true g s) (id : Nat) (w : Writer) :
    St [id] s (if !(s.stream id).state.isRecvStreaming then (s, w)
      else match (s.stream id).recvFlow.unclaimedCapacity with
        | some incr =>
          match (s.stream id).recvFlow.incWindow incr with
          | (fl, .ok _) => (s.modStream id fun st => { st with recvFlow := fl }, w.bufferSimple 4 s!"W:{(s.stream id).id}:{incr}")
          | (_, .error _) => (s.panic "unexpected flow control state", w.bufferSimple 4 s!"W:{(s.stream id).id}:{incr}")
        | none => (s, w)).1 ∧
    ConnRecvP.Inv true g (if !(s.stream id).state.isRecvStreaming then (s, w)
      else match (s.stream id).recvFlow.unclaimedCapacity with
        | some incr =>
          match (s.stream id).recvFlow.incWindow incr with
          | (fl, .ok _) => (s.modStream id fun st => { st with recvFlow := fl }, w.bufferSimple 4 s!"W:{(s.stream id).id}:{incr}")
          | (_, .error _) => (s.panic "unexpected flow control state", w.bufferSimple 4 s!"W:{(s.stream id).id}:{incr}")
        | none => (s, w)).1 := by
  split
  · exact ⟨.refl _ _, hr⟩
  · next hrs =>
    have hrs' : (s.stream id).state.isRecvStreaming = true := by simpa using hrs
    split
    · next incr hu =>
      cases hget : s.store.get? id with
      | none =>
        -- a dangling key reads the blank stream: nothing unclaimed
        exfalso
        have hb : s.stream id = { key := id, id := 0 } := by unfold Streams.stream; rw [hget]; rfl
        rw [hb] at hrs'
        cases hrs'
      | some x =>
        have hx := get?_mem hget
        have ok := hr.streams rfl x hx
        rw [stream_of_get? hget] at hrs' hu ⊢
        have hup := ok.update hrs' hu hr.initMax
        rw [hup.2.1]
        dsimp only
        refine ⟨⟨modStream_lt _ _ _ (fun _ => by inert_tac), modStream_ev' _ _ _ (by same_tac),
          modStream_fk _ _ _ (fun _ => by flg_tac)⟩, ?_⟩
        refine hr.modStream id _ (fun _ => Int.le_refl _) (fun _ => rfl) (fun _ _ => Int.le_refl _) ?_
        intro _ y hy ok'
        have : y = x := by
          have := ConnRecvP.stream_eq_of_get? hy
          rw [stream_of_get? hget] at this; exact this.symm
        subst this
        exact hup.2.2
    · exact ⟨.refl _ _, hr⟩

theorem sendConnectionWindowUpdate_fk (s : Streams) (w : Writer) : FK s (s.sendConnectionWindowUpdate w).1 := by
  unfold Streams.sendConnectionWindowUpdate; fk_auto
theorem sendStreamWindowUpdates_fk (n : Nat) : ∀ (s : Streams) (w : Writer), FK s (Streams.sendStreamWindowUpdates n s w).1 := by
  induction n with
  | zero => intro s w; unfold Streams.sendStreamWindowUpdates; exact .refl _
  | succ n ih => intro s w; unfold Streams.sendStreamWindowUpdates; fk_auto_ih ih
theorem recvBufferPending_fk (s : Streams) (w : Writer) : FK s (s.recvBufferPending w).1 := by
  unfold Streams.recvBufferPending; fk_auto

/-- **`Recv::send_connection_window_update` keeps `NPI`** -/
theorem sendConnectionWindowUpdate_npi {E : Nat → Prop} {full : Bool} {g : ConnRecvP.Ghost} {s : Streams} (h : NPI E s)
    (hr : ConnRecvP.Inv full g s) (w : Writer) : NPI E (s.sendConnectionWindowUpdate w).1 :=
  have st := sendConnectionWindowUpdate_st hr w
  h.lt st.lt.w (liveAll0 s) st.ev noE

/-- **`Recv::send_stream_window_updates` keeps `NPI`** (and the quota fact `ErrOK`) -/
theorem sendStreamWindowUpdates_npi {E : Nat → Prop} {g : ConnRecvP.Ghost} (n : Nat) :
    ∀ {s : Streams}, NPI E s → ErrOK s → ConnRecvP.Inv true g s → ∀ w,
      NPI E (Streams.sendStreamWindowUpdates n s w).1 ∧ ErrOK (Streams.sendStreamWindowUpdates n s w).1 := by
  induction n with
  | zero => intro s h he _ w; unfold Streams.sendStreamWindowUpdates; exact ⟨h, he⟩
  | succ n ih =>
    intro s h he hr w
    have hq := h.qs .pendingWindowUpdates (by decide)
    unfold Streams.sendStreamWindowUpdates
    split
    · exact ⟨h, he⟩
    · split
      · next s1 heq =>
        have hlt := LT.of_fst_eq heq (qPop_ltq s _ hq)
        exact ⟨h.lt hlt.w (liveAll0 s) (.of_fst_eq heq (qPop_ev (ρ := false) _ _ (by decide) (by decide))) noE, hlt.err.errOK he⟩
      · next s1 id heq =>
        have hl := (qPopQ_live hq heq).2.1
        have hlt := LT.of_fst_eq heq (qPop_ltq s _ hq)
        have h1 : NPI E s1 := h.lt hlt.w (liveAll0 s) (.of_fst_eq heq (qPop_ev (ρ := false) _ _ (by decide) (by decide))) noE
        have he1 : ErrOK s1 := hlt.err.errOK he
        have hr1 : ConnRecvP.Inv true g s1 := by
          have := hr.of_ext (ConnRecvP.qPop_ext s .pendingWindowUpdates); rw [heq] at this; exact this
        have hsw := streamWindowUpdate_st hr1 id w
        dsimp only
        generalize (if (!(s1.stream id).state.isRecvStreaming) = true then (s1, w) else _) = p at hsw ⊢
        obtain ⟨s2, w2⟩ := p
        have h2 : NPI E s2 := h1.lt hsw.1.lt.w (liveAll1 hl) hsw.1.ev noE
        have he2 : ErrOK s2 := hsw.1.lt.err.errOK he1
        exact ih (transitionAfter_npi h2 he2 id _ (fun hb => hsw.1.ev.mono.resetAt id hb))
          ((transitionAfter_errSame _ _ _).errOK he2)
          (ConnRecvP.InvD.of_ext hsw.2 (ConnRecvP.transitionAfter_ext _ _ _)) _

theorem sendStreamWindowUpdates_pk (n : Nat) : ∀ (s : Streams) (w : Writer), PK s (Streams.sendStreamWindowUpdates n s w).1 := by
  induction n with
  | zero => intro s w; unfold Streams.sendStreamWindowUpdates; exact .refl _
  | succ n ih => intro s w; unfold Streams.sendStreamWindowUpdates; pk_auto_ih ih

/-- **`Recv::buffer_pending` keeps `NPI`** (task form): the `expect("unexpected flow control state")`s are dead
    under the receive-window invariant -/
theorem recvBufferPending_npi {E : Nat → Prop} {g : ConnRecvP.Ghost} {s : Streams} (h : NPI E s) (he : ErrOK s)
    (hr : ConnRecvP.Inv true g s) (w : Writer) : NPI E (s.recvBufferPending w).1 ∧ ErrOK (s.recvBufferPending w).1 := by
  have st := sendConnectionWindowUpdate_st hr w
  have h1 := sendConnectionWindowUpdate_npi h hr w
  have he1 := st.lt.err.errOK he
  have hr1 := ConnRecvP.sendConnectionWindowUpdate_inv hr w
  unfold Streams.recvBufferPending
  split
  · next s1 w1 heq => rw [heq] at h1 he1; exact ⟨h1, he1⟩
  · next s1 w1 heq => rw [heq] at h1 he1 hr1; exact sendStreamWindowUpdates_npi _ h1 he1 hr1 _

theorem recvBufferPending_pk (s : Streams) (w : Writer) : PK s (s.recvBufferPending w).1 := by
  unfold Streams.recvBufferPending; pk_auto

/-- `Recv::buffer_pending` keeps the bundle -/
theorem recvBufferPending_pi {E : Nat → Prop} {g : ConnRecvP.Ghost} {s : Streams} (h : PI E s) (hr : ConnRecvP.Inv true g s)
    (w : Writer) : PI E (s.recvBufferPending w).1 :=
  have r := recvBufferPending_npi h.npi h.err hr w
  ⟨r.1, r.2, (recvBufferPending_fk s w).fi h.npi.ids.nodup h.fi⟩

end H2V.Lemmas.ConnNoPanicP
