import H2V.Lemmas.ConnNoPanicPRespBase
/-
  C08 (no panic) — the client response path, part 2: the frame `RP` for prioritize.rs / send.rs.
-/
namespace H2V.Lemmas.ConnNoPanicP
open H2V H2V.Model H2V.Model.Conn H2V.Lemmas.ConnCountsP
attribute [local irreducible] wrapSubU32 wrapSubUsize

-- ===================================================================== state transitions of the send half

theorem sendOpen_str {st st' : State} {eos : Bool} {r : Except UserError Unit} (h : st.sendOpen eos = (st', r))
    (hs : st'.isRecvStreaming = true) : st.isRecvStreaming = true := by
  obtain ⟨i⟩ := st
  unfold State.sendOpen at h
  cases i with
  | idle => simp only [Prod.mk.injEq] at h; rw [← h.1] at hs; cases eos <;> cases hs
  | reservedLocal => simp only [Prod.mk.injEq] at h; rw [← h.1] at hs; cases eos <;> cases hs
  | reservedRemote => simp only [Prod.mk.injEq] at h; rw [← h.1] at hs; exact hs
  | «open» l r =>
    cases l
    · simp only [Prod.mk.injEq] at h; rw [← h.1] at hs; cases eos <;> cases r <;> first | exact hs | cases hs
    · simp only [Prod.mk.injEq] at h; rw [← h.1] at hs; exact hs
  | halfClosedLocal p => simp only [Prod.mk.injEq] at h; rw [← h.1] at hs; exact hs
  | halfClosedRemote p =>
    cases p
    · simp only [Prod.mk.injEq] at h; rw [← h.1] at hs; cases eos <;> cases hs
    · simp only [Prod.mk.injEq] at h; rw [← h.1] at hs; exact hs
  | closed c => simp only [Prod.mk.injEq] at h; rw [← h.1] at hs; exact hs

theorem sendClose_str {st st' : State} (h : st.sendClose = some st') (hs : st'.isRecvStreaming = true) :
    st.isRecvStreaming = true := by
  obtain ⟨i⟩ := st
  unfold State.sendClose at h
  cases i with
  | «open» l r => simp only [Option.some.injEq] at h; rw [← h] at hs; cases r <;> first | rfl | cases hs
  | halfClosedRemote p => simp only [Option.some.injEq] at h; rw [← h] at hs; cases hs
  | _ => cases h

-- ===================================================================== prioritize.rs

theorem scheduleSend_rp {X : List Nat} (s : Streams) (k : Nat) : RP X s (s.scheduleSend k) := by
  unfold Streams.scheduleSend; rp_auto
theorem queueFrame_rp {X : List Nat} (s : Streams) (k : Nat) (f : SFrame) : RP X s (s.queueFrame k f) := by
  unfold Streams.queueFrame; rp_auto
theorem queueOpen_rp {X : List Nat} (s : Streams) (k : Nat) : RP X s (s.queueOpen k) := by
  unfold Streams.queueOpen; rp_auto
theorem tryAssignCapacity_rp {X : List Nat} (s : Streams) (k : Nat) : RP X s (s.tryAssignCapacity k) := by
  unfold Streams.tryAssignCapacity; rp_auto

theorem assignConnectionCapacityLoop_rp {X : List Nat} (n : Nat) (s : Streams) :
    RP X s (Streams.assignConnectionCapacityLoop n s) := by
  induction n generalizing s with
  | zero => exact .refl _ _
  | succ n ih =>
    unfold Streams.assignConnectionCapacityLoop
    rp_auto_ih ih

theorem assignConnectionCapacity_rp {X : List Nat} (s : Streams) (inc : Nat) : RP X s (s.assignConnectionCapacity inc) := by
  unfold Streams.assignConnectionCapacity; rp_auto
theorem reserveCapacity_rp {X : List Nat} (s : Streams) (k cap : Nat) : RP X s (s.reserveCapacity k cap) := by
  unfold Streams.reserveCapacity; rp_auto
theorem recvConnectionWindowUpdate_rp {X : List Nat} (s : Streams) (inc : Nat) : RP X s (s.recvConnectionWindowUpdate inc).1 := by
  unfold Streams.recvConnectionWindowUpdate; rp_auto
theorem reclaimAllCapacity_rp {X : List Nat} (s : Streams) (k : Nat) : RP X s (s.reclaimAllCapacity k) := by
  unfold Streams.reclaimAllCapacity; rp_auto
theorem reclaimReservedCapacity_rp {X : List Nat} (s : Streams) (k : Nat) : RP X s (s.reclaimReservedCapacity k) := by
  unfold Streams.reclaimReservedCapacity; rp_auto
theorem clearQueue_rp {X : List Nat} (s : Streams) (k : Nat) : RP X s (s.clearQueue k) := by
  unfold Streams.clearQueue; rp_auto
theorem prioRecvStreamWindowUpdate_rp {X : List Nat} (s : Streams) (k inc : Nat) :
    RP X s (s.prioRecvStreamWindowUpdate k inc).1 := by
  unfold Streams.prioRecvStreamWindowUpdate; rp_auto
theorem popPendingOpen_rp {X : List Nat} (s : Streams) : RP X s s.popPendingOpen.1 := by
  unfold Streams.popPendingOpen; rp_auto

theorem clearPendingCapacity_rp {X : List Nat} (n : Nat) (s : Streams) : RP X s (Streams.clearPendingCapacity n s) := by
  induction n generalizing s with
  | zero => exact .refl _ _
  | succ n ih => unfold Streams.clearPendingCapacity; rp_auto_ih ih
theorem clearPendingSend_rp {X : List Nat} (n : Nat) (s : Streams) : RP X s (Streams.clearPendingSend n s) := by
  induction n generalizing s with
  | zero => exact .refl _ _
  | succ n ih => unfold Streams.clearPendingSend; rp_auto_ih ih
theorem clearPendingOpen_rp {X : List Nat} (n : Nat) (s : Streams) : RP X s (Streams.clearPendingOpen n s) := by
  induction n generalizing s with
  | zero => exact .refl _ _
  | succ n ih => unfold Streams.clearPendingOpen; rp_auto_ih ih
theorem sendClearQueues_rp {X : List Nat} (s : Streams) : RP X s s.sendClearQueues := by
  unfold Streams.sendClearQueues; rp_auto

-- ===================================================================== send.rs

theorem sendOpenId_rp {X : List Nat} (s : Streams) : RP X s s.sendOpenId.1 := by
  unfold Streams.sendOpenId; rp_auto

theorem sendHeaders_rp {X : List Nat} (s : Streams) (k : Nat) (eos : Bool) (f : List Hpack.Field) :
    RP X s (s.sendHeaders k eos f).1 := by
  unfold Streams.sendHeaders
  split
  · exact .refl _ _
  · split
    · exact .refl _ _
    · next st' _ heq =>
      have h1 : RP X s (s.modStream k fun st => { st with state := st' }) :=
        modStream_rp' _ _ _ (setState_rs _ _ (sendOpen_str heq))
      rp_auto

theorem sendReserveLocal_rp {X : List Nat} (s : Streams) : RP X s s.sendReserveLocal.1 := by
  unfold Streams.sendReserveLocal; exact sendOpenId_rp s
theorem sendPushPromise_rp {X : List Nat} (s : Streams) (p pk pid : Nat) (f : List Hpack.Field) :
    RP X s (s.sendPushPromise p pk pid f).1 := by
  unfold Streams.sendPushPromise; rp_auto
theorem sendInterimInformationalHeaders_rp {X : List Nat} (s : Streams) (k : Nat) (f : List Hpack.Field) :
    RP X s (s.sendInterimInformationalHeaders k f).1 := by
  unfold Streams.sendInterimInformationalHeaders; rp_auto
theorem sendSendReset_rp {X : List Nat} (s : Streams) (k : Nat) (r : Reason) (i : Initiator) : RP X s (s.sendSendReset k r i) := by
  unfold Streams.sendSendReset; rp_auto

theorem scheduleImplicitReset_rp {X : List Nat} (s : Streams) (k : Nat) (r : Reason) : RP X s (s.scheduleImplicitReset k r) := by
  unfold Streams.scheduleImplicitReset
  split
  · exact .refl _ _
  · have h1 : RP X s (s.modStream k fun st => { st with state := st.state.setScheduledReset r }) :=
      modStream_rp _ _ _ (fun x => setState_rs _ _ (fun h => by cases h))
    rp_auto

theorem sendClose_rp {X : List Nat} (s : Streams) (k : Nat) (m : String) :
    RP X s (match (s.stream k).state.sendClose with
      | some st' => s.modStream k fun st => { st with state := st' }
      | none => s.panic m) := by
  split
  · next st' heq => exact modStream_rp' _ _ _ (setState_rs _ _ (sendClose_str heq))
  · exact panic_rp _ _

theorem sendTrailers_rp {X : List Nat} (s : Streams) (k : Nat) (f : List Hpack.Field) : RP X s (s.sendTrailers k f).1 := by
  unfold Streams.sendTrailers
  split
  · exact .refl _ _
  · split
    · exact .refl _ _
    · split
      · next st' heq =>
        have h1 : RP X s (s.modStream k fun st => { st with state := st' }) :=
          modStream_rp' _ _ _ (setState_rs _ _ (sendClose_str heq))
        rp_auto
      · rp_auto

theorem prioSendData_rp {X : List Nat} (s : Streams) (k len : Nat) (eos : Bool) : RP X s (s.prioSendData k len eos).1 := by
  unfold Streams.prioSendData
  split
  · exact .refl _ _
  · dsimp only
    split
    · exact .refl _ _
    · generalize hs1 : (if ((s.modStream k fun st => { st with bufferedSendData := st.bufferedSendData + len }).stream k).requestedSendCapacity <
          ((s.modStream k fun st => { st with bufferedSendData := st.bufferedSendData + len }).stream k).bufferedSendData then _ else _) = s1
      have h1 : RP X s s1 := by rw [← hs1]; rp_auto
      generalize hs2 : (if eos = true then _ else s1) = s2
      have h2 : RP X s s2 := by
        rw [← hs2]; split
        · exact (h1.trans (sendClose_rp s1 k _)).trans (reserveCapacity_rp _ _ _)
        · exact h1
      rp_auto

theorem pollCapacity_rp {X : List Nat} (s : Streams) (k : Nat) (tag : String) : RP X s (s.pollCapacity k tag).1 := by
  unfold Streams.pollCapacity; rp_auto
theorem pollReset_rp {X : List Nat} (s : Streams) (k : Nat) (m : PollReset) (tag : String) : RP X s (s.pollReset k m tag).1 := by
  unfold Streams.pollReset; rp_auto
theorem sendRecvStreamWindowUpdate_rp {X : List Nat} (s : Streams) (k sz : Nat) :
    RP X s (s.sendRecvStreamWindowUpdate k sz).1 := by
  unfold Streams.sendRecvStreamWindowUpdate; rp_auto
theorem sendRecvGoAway_rp {X : List Nat} (s : Streams) (l : Nat) : RP X s (s.sendRecvGoAway l).1 := by
  unfold Streams.sendRecvGoAway; rp_auto
theorem sendHandleError_rp {X : List Nat} (s : Streams) (k : Nat) : RP X s (s.sendHandleError k) := by
  unfold Streams.sendHandleError; rp_auto
theorem sendMaybeResetNextStreamId_rp {X : List Nat} (s : Streams) (id : Nat) : RP X s (s.sendMaybeResetNextStreamId id) := by
  unfold Streams.sendMaybeResetNextStreamId; rp_auto
theorem decStreamWindow_rp {X : List Nat} (dec acc : Nat) (s : Streams) (k : Nat) :
    RP X s (Streams.decStreamWindow dec acc s k).1 := by
  unfold Streams.decStreamWindow; rp_auto

end H2V.Lemmas.ConnNoPanicP
