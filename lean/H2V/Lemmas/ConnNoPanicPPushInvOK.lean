import H2V.Lemmas.ConnNoPanicPPushInvHeldIns
/-
  C08 (no panic) — PUSH_PROMISE bookkeeping, stage 2, part 6: the invariant `PPPOK` and `drop_stream_ref` in general.
  `PPPOK`: every `pending_push_promises` list is duplicate-free, two lists share no key, and every listed key is `Held`
  (live, `is_pending_accept` set, not in `recv.pending_accept`) — hence never released, so the loop of `drop_stream_ref`
  over the promised streams of the dropped stream resolves every key (`dropStreamRef_npi_gen`: the hypothesis
  `dropPPP s k = []` of `dropStreamRef_npi` is gone).
-/
namespace H2V.Lemmas.ConnNoPanicP
open H2V H2V.Model H2V.Model.Conn H2V.Lemmas.ConnCountsP
attribute [local irreducible] wrapSubU32 wrapSubUsize

structure PPPOK (s : Streams) : Prop where
  nodup : ∀ j, ((s.stream j).pendingPushPromises).Nodup
  disj : ∀ j j' c, c ∈ (s.stream j).pendingPushPromises → c ∈ (s.stream j').pendingPushPromises → j = j'
  held : ∀ j c, c ∈ (s.stream j).pendingPushPromises → Held s c

theorem pppok_of_nil {s : Streams} (h : ∀ j, (s.stream j).pendingPushPromises = []) : PPPOK s :=
  ⟨fun j => by rw [h j]; exact List.nodup_nil, fun j _ c hc => (by rw [h j] at hc; cases hc),
   fun j c hc => (by rw [h j] at hc; cases hc)⟩

theorem PPPOK_blank {s : Streams} (hb : Blank s) : PPPOK s := by
  refine pppok_of_nil (fun j => ?_)
  have : s.store.get? j = none := by unfold Store.get?; rw [hb.slab]; rfl
  unfold Streams.stream; rw [this]; rfl

/-- lists unchanged or emptied, and the keys listed before are held afterwards -/
theorem PPPOK.of_pw {s s' : Streams} (h : PPPOK s) (hw : PW s s')
    (hh : ∀ j c, c ∈ (s.stream j).pendingPushPromises → Held s' c) : PPPOK s' := by
  have sub : ∀ j c, c ∈ (s'.stream j).pendingPushPromises → c ∈ (s.stream j).pendingPushPromises := by
    intro j c hc
    rcases hw j with e | e
    · rw [e] at hc; exact hc
    · rw [e] at hc; cases hc
  refine ⟨fun j => ?_, fun j j' c h1 h2 => h.disj j j' c (sub j c h1) (sub j' c h2), fun j c hc => hh j c (sub j c hc)⟩
  rcases hw j with e | e
  · rw [e]; exact h.nodup j
  · rw [e]; exact List.nodup_nil

theorem PPPOK.step {s s' : Streams} (h : PPPOK s) (hw : PW s s') (hr : HR s s') : PPPOK s' :=
  h.of_pw hw (fun j c hc => hr.held c (h.held j c hc))

theorem held_live {s : Streams} {c : Nat} (h : Held s c) : Live s c := let ⟨x, hx, _⟩ := h.1; ⟨x, hx⟩

/-- touching another entry -/
theorem held_modStream_ne {s : Streams} {c k : Nat} (h : Held s c) (hck : c ≠ k) (f : Stream → Stream)
    (hf : ∀ x, (f x).key = x.key) : Held (s.modStream k f) c := by
  refine ⟨?_, by rw [ConnResetP.modStream_recv]; exact h.2⟩
  obtain ⟨x, hx, hq⟩ := h.1
  refine ⟨x, ?_, hq⟩
  unfold Streams.modStream
  split
  · next st hst =>
    show (s.setStream (f st)).store.get? c = some x
    rw [setStream_get?, hx]
    have : (x.key == (f st).key) = false := by
      rw [hf, get?_key hx, get?_key hst]; simpa using hck
    simp only [Option.map_some, this, Bool.false_eq_true, if_false]
  · rw [panic_store]; exact hx

-- ===================================================================== one round of the loop of `drop_stream_ref`

/-- one round of the loop over the promised streams (copied from the model; `dropFold_eq` is `rfl`) -/
def dropStep (s : Streams) (promise : Nat) : Streams :=
        let s := s.modStream promise fun st => { st with isPendingAccept := false }
        (s.transition promise fun s =>
          let s := s.maybeCancel promise
          (if (s.stream promise).refCount == 0 then s.releaseClosedCapacity promise else s, ())).1

theorem dropFold_eq (l : List Nat) (s : Streams) : dropFold l s = l.foldl dropStep s := rfl

/-- the closure of one round -/
def dropStepClosure (c : Nat) (s : Streams) : Streams × Unit :=
  (if ((s.maybeCancel c).stream c).refCount == 0 then (s.maybeCancel c).releaseClosedCapacity c else s.maybeCancel c, ())

theorem dropStep_eq (s : Streams) (c : Nat) :
    dropStep s c = ((s.modStream c fun st => { st with isPendingAccept := false }).transition c (dropStepClosure c)).1 := rfl

theorem dropStepClosure_lt (c : Nat) (s : Streams) : LT [c] s (dropStepClosure c s).1 := by
  unfold dropStepClosure
  have hm := maybeCancel_lt s c
  dsimp only
  split
  · exact hm.trans (releaseClosedCapacity_lt _ c) (fun _ h => h)
  · exact hm
theorem dropStepClosure_ev {ρ : Bool} (c : Nat) (s : Streams) : EvB ρ s (dropStepClosure c s).1 := by
  unfold dropStepClosure
  dsimp only
  split
  · exact .trans (maybeCancel_ev _ _) (releaseClosedCapacity_ev _ _)
  · exact maybeCancel_ev _ _
theorem dropStepClosure_pp (c : Nat) (s : Streams) : PP s (dropStepClosure c s).1 := by
  unfold dropStepClosure
  dsimp only
  split
  · exact (maybeCancel_pp _ _).trans (releaseClosedCapacity_pp _ _)
  · exact maybeCancel_pp _ _
theorem dropStepClosure_hr (c : Nat) (s : Streams) : HR s (dropStepClosure c s).1 := by
  unfold dropStepClosure
  dsimp only
  split
  · exact (maybeCancel_hr _ _).trans (releaseClosedCapacity_hr _ _)
  · exact maybeCancel_hr _ _

/-- what the loop carries: the invariants, and the keys still to visit are held, distinct and in no list -/
structure DropI (u : Streams) (L : List Nat) : Prop where
  npi : NPI (fun _ => False) u
  err : ErrOK u
  ok : PPPOK u
  nodup : L.Nodup
  held : ∀ c ∈ L, Held u c
  out : ∀ j c, c ∈ (u.stream j).pendingPushPromises → c ∉ L

theorem dropStep_inv {u : Streams} {c : Nat} {rest : List Nat} (h : DropI u (c :: rest)) : DropI (dropStep u c) rest := by
  have hc : Held u c := h.held c (List.mem_cons_self ..)
  have hl : Live u c := held_live hc
  -- the flag goes down
  have h1 : NPI (fun _ => False) (u.modStream c fun st => { st with isPendingAccept := false }) :=
    h.npi.parts (SameKeys.modStream _ _ _) (modStream_ids _ _ _) (SPr.modStream _ _ _ (fun _ => rfl) (fun _ => rfl))
      (npq_modStream_flagfree h.npi.npq hl _ (fun _ => rfl) (fun _ => rfl) (fun _ => rfl)) (ρ := false) (.acceptFlag c false) noE
  have hl1 : Live (u.modStream c fun st => { st with isPendingAccept := false }) c := (SameKeys.modStream _ _ _).live.mpr hl
  have he1 : ErrOK (u.modStream c fun st => { st with isPendingAccept := false }) := by
    have : ErrSame u (u.modStream c fun st => { st with isPendingAccept := false }) := by
      unfold ErrSame; rw [modStream_counts]; exact ⟨rfl, rfl⟩
    exact this.errOK h.err
  have hp1 : PP u (u.modStream c fun st => { st with isPendingAccept := false }) :=
    modStream_pp _ _ _ (fun _ => rfl) (fun _ => rfl)
  have hh1 : ∀ c', c' ≠ c → Held u c' → Held (u.modStream c fun st => { st with isPendingAccept := false }) c' :=
    fun c' hne hc' => held_modStream_ne hc' hne _ (fun _ => rfl)
  rw [dropStep_eq]
  generalize (u.modStream c fun st => { st with isPendingAccept := false }) = u1 at h1 hl1 he1 hp1 hh1 ⊢
  have hlt := dropStepClosure_lt c u1
  have hX : NPI (fun _ => False) (u1.transition c (dropStepClosure c)).1 :=
    transition_light_npi c _ h1 hlt (liveAll1 hl1) (dropStepClosure_ev (ρ := false) c u1) noE he1
  have hpp : PP u1 (u1.transition c (dropStepClosure c)).1 := transition_pp _ _ _ (dropStepClosure_pp c)
  have hhr : HR u1 (u1.transition c (dropStepClosure c)).1 := transition_hr _ _ _ (dropStepClosure_hr c)
  have heX : ErrOK (u1.transition c (dropStepClosure c)).1 := by
    have : (u1.transition c (dropStepClosure c)).1 =
        (dropStepClosure c u1).1.transitionAfter c (u1.stream c).isPendingResetExpiration := rfl
    rw [this]
    exact (transitionAfter_errSame _ _ _).errOK (hlt.err.errOK he1)
  have hnd := List.nodup_cons.mp h.nodup
  have hheld : ∀ j c', c' ∈ (u.stream j).pendingPushPromises → Held (u1.transition c (dropStepClosure c)).1 c' := by
    intro j c' hm
    have hne : c' ≠ c := fun e => h.out j c' hm (e ▸ List.mem_cons_self ..)
    exact hhr.held c' (hh1 c' hne (h.ok.held j c' hm))
  have hpw : PW u (u1.transition c (dropStepClosure c)).1 := (hp1.trans hpp).pw
  refine ⟨hX, heX, h.ok.of_pw hpw hheld, hnd.2, ?_, ?_⟩
  · intro c' hm
    have hne : c' ≠ c := fun e => hnd.1 (e ▸ hm)
    exact hhr.held c' (hh1 c' hne (h.held c' (List.mem_cons_of_mem _ hm)))
  · intro j c' hm hr
    have : c' ∈ (u.stream j).pendingPushPromises := by
      rcases hpw j with e | e
      · rw [e] at hm; exact hm
      · rw [e] at hm; cases hm
    exact h.out j c' this (List.mem_cons_of_mem _ hr)

theorem dropFold_inv : ∀ (L : List Nat) {u : Streams}, DropI u L → DropI (dropFold L u) [] := by
  intro L
  induction L with
  | nil => intro u h; exact h
  | cons c rest ih =>
    intro u h
    rw [dropFold_eq, List.foldl_cons, ← dropFold_eq]
    exact ih (dropStep_inv h)

-- ===================================================================== the closure and the whole call

theorem clearPPP_self (s : Streams) (k : Nat) :
    ((s.modStream k fun st => { st with pendingPushPromises := [] }).stream k).pendingPushPromises = [] := by
  by_cases hl : Live s k
  · rw [stream_modStream_live hl (fun st => { st with pendingPushPromises := [] }) (fun _ => rfl)]
  · have : ¬ Live (s.modStream k fun st => { st with pendingPushPromises := [] }) k :=
      fun h => hl ((SameKeys.modStream _ _ _).live.mp h)
    rw [stream_dangling this]

theorem dropClosure_ev {ρ : Bool} (k : Nat) (s : Streams) : EvB ρ s (dropClosure k s).1 := by
  unfold dropClosure
  dsimp only
  split
  · rw [dropFold_eq]
    refine EvB.trans ?_ (foldl_ev _ (fun s p => ?_) _ _)
    · refine EvB.trans ?_ (modStream_ev _ _ _ ?_)
      · exact .trans (maybeCancel_ev _ _) (releaseClosedCapacity_ev _ _)
      · intro _ _; same_tac
    · rw [dropStep_eq]
      exact .trans (.acceptFlag p false) (transition_ev _ _ _ (fun s => dropStepClosure_ev p s))
  · exact maybeCancel_ev _ _

theorem dropClosure_inv {t : Streams} {k : Nat} (hn : NPI (fun _ => False) t) (he : ErrOK t) (hj : PPPOK t) (hk : Live t k) :
    NPI (fun _ => False) (dropClosure k t).1 ∧ ErrOK (dropClosure k t).1 ∧ PPPOK (dropClosure k t).1 := by
  unfold dropClosure
  dsimp only
  have hm := maybeCancel_lt t k
  split
  · -- the last handle: the promised streams are let go
    have h2 : LT [k] t ((t.maybeCancel k).releaseClosedCapacity k) := hm.trans (releaseClosedCapacity_lt _ k) (fun _ h => h)
    have e2 : EvB false t ((t.maybeCancel k).releaseClosedCapacity k) := .trans (maybeCancel_ev _ _) (releaseClosedCapacity_ev _ _)
    have p2 : PP t ((t.maybeCancel k).releaseClosedCapacity k) := (maybeCancel_pp _ _).trans (releaseClosedCapacity_pp _ _)
    have r2 : HR t ((t.maybeCancel k).releaseClosedCapacity k) := (maybeCancel_hr _ _).trans (releaseClosedCapacity_hr _ _)
    have n2 : NPI (fun _ => False) ((t.maybeCancel k).releaseClosedCapacity k) := hn.lt h2.w (liveAll1 hk) e2 noE
    have he2 : ErrOK ((t.maybeCancel k).releaseClosedCapacity k) := h2.err.errOK he
    have j2 : PPPOK ((t.maybeCancel k).releaseClosedCapacity k) := hj.step p2.pw r2
    have hk2 : Live ((t.maybeCancel k).releaseClosedCapacity k) k := h2.keys.live.mpr hk
    generalize ((t.maybeCancel k).releaseClosedCapacity k) = t2 at n2 he2 j2 hk2 ⊢
    have h3 : LT [k] t2 (t2.modStream k fun st => { st with pendingPushPromises := [] }) :=
      modStream_lt _ _ _ (fun _ => by inert_tac)
    have e3 : EvB false t2 (t2.modStream k fun st => { st with pendingPushPromises := [] }) :=
      modStream_ev _ _ _ (fun st _ => by same_fields)
    have n3 := n2.lt h3.w (liveAll1 hk2) e3 noE
    have he3 := h3.err.errOK he2
    have w3 : PW t2 (t2.modStream k fun st => { st with pendingPushPromises := [] }) := clearPPP_pw t2 k
    have r3 : HR t2 (t2.modStream k fun st => { st with pendingPushPromises := [] }) := modStream_hr _ _ _ (fun _ => ⟨rfl, rfl⟩)
    have j3 := j2.step w3 r3
    have hself := clearPPP_self t2 k
    have hD : DropI (t2.modStream k fun st => { st with pendingPushPromises := [] }) (t2.stream k).pendingPushPromises := by
      refine ⟨n3, he3, j3, j2.nodup k, fun c hc => r3.held c (j2.held k c hc), ?_⟩
      intro j c hm hL
      by_cases hjk : j = k
      · rw [hjk, hself] at hm; cases hm
      · have : c ∈ (t2.stream j).pendingPushPromises := by
          rcases w3 j with e | e
          · rw [e] at hm; exact hm
          · rw [e] at hm; cases hm
        exact hjk (j2.disj j k c this hL)
    have hF := dropFold_inv _ hD
    exact ⟨hF.npi, hF.err, hF.ok⟩
  · exact ⟨hn.lt hm.w (liveAll1 hk) (maybeCancel_ev (ρ := false) _ _) noE, hm.err.errOK he,
      hj.step (maybeCancel_pp _ _).pw (maybeCancel_hr _ _)⟩

/-- **`drop_stream_ref` keeps the invariant, whatever promised streams are still pending** -/
theorem dropStreamRef_npi_gen {s : Streams} (h : NPI (fun _ => False) s) (hj : PPPOK s) {k : Nat} (hk : Live s k)
    (hr : (s.stream k).refCount > 0) (he : ErrOK s) :
    NPI (fun _ => False) (s.dropStreamRef k) ∧ PPPOK (s.dropStreamRef k) := by
  rw [dropStreamRef_eq]
  obtain ⟨h1, hk1, he1⟩ := dropPre_npi h hk hr
  have j1 : PPPOK (dropPre s k) := hj.step (dropPre_pp s k).pw (dropPre_hr s k)
  have hE1 : ErrOK (dropPre s k) := he1.errOK he
  generalize dropPre s k = t at h1 hk1 j1 hE1 ⊢
  obtain ⟨hX, heX, jX⟩ := dropClosure_inv h1 hE1 j1 hk1
  refine ⟨transition_npi k _ hX (dropClosure_ev (ρ := true) k t) heX, ?_⟩
  have : (t.transition k (dropClosure k)).1 = (dropClosure k t).1.transitionAfter k (t.stream k).isPendingResetExpiration := rfl
  rw [this]
  exact jX.step (transitionAfter_pp _ _ _).pw (transitionAfter_hr _ _ _)

end H2V.Lemmas.ConnNoPanicP
