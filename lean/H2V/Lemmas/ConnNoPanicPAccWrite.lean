import H2V.Lemmas.ConnNoPanicPAccExtra
import H2V.Lemmas.ConnFlowPSend
/-
  C08 (no panic) — the server accept path, part 13: the write path (`Streams::poll_complete`,
  `send_pending_refusal`).  `AT s s'`: `AL` without "same slab keys" — entries may be released
  (`transition_after`), the remaining ones are related by `AR` / `App`, the `is_pending_accept`-flagged ones stay.
  The write path touches neither `pending_accept`, nor a link flag, handle count or `pending_recv`, nor
  `num_remote_reset_streams`; the only state change is the library reset that replaces a scheduled one.
-/
namespace H2V.Lemmas.ConnNoPanicP
open H2V H2V.Model H2V.Model.Conn H2V.Lemmas.ConnCountsP
attribute [local irreducible] wrapSubU32 wrapSubUsize

structure AT (s s' : Streams) : Prop where
  qf : QF .pendingAccept s s'
  sub : ∀ j, Live s' j → Live s j ∧ ARs (s.stream j) (s'.stream j)
  cok : COK s.counts s'.counts

theorem AT.refl (s : Streams) : AT s s := ⟨.refl _ _, fun _ h => ⟨h, .refl _⟩, .refl _⟩
theorem AT.trans {a b c : Streams} (h1 : AT a b) (h2 : AT b c) : AT a c :=
  ⟨h1.qf.trans h2.qf, fun j hl =>
    let ⟨hb, r2⟩ := h2.sub j hl
    let ⟨ha, r1⟩ := h1.sub j hb
    ⟨ha, r1.trans r2⟩, h1.cok.trans h2.cok⟩
theorem AT.of_fst_eq {s : Streams} {α : Type} {p : Streams × α} {a : Streams} {x : α} (h : p = (a, x)) (e : AT s p.1) : AT s a := by
  subst h; exact e

theorem AL.at {s s' : Streams} (h : AL [] s s') : AT s s' := by
  refine ⟨⟨h.queue, fun k => ?_⟩, fun j hl => ⟨h.live.mp hl, h.str j, h.app j (fun hk => absurd hk List.not_mem_nil)⟩, ⟨h.cnt, h.srv⟩⟩
  rw [flagged_iff, flagged_iff, h.live]
  show _ ∧ (s'.stream k).isPendingAccept = true ↔ _ ∧ (s.stream k).isPendingAccept = true
  rw [(h.str k).acc]

theorem transitionAfter_at (s : Streams) (k : Nat) (b : Bool) : AT s (s.transitionAfter k b) := by
  refine ⟨QF.transitionAfter _ _ _ _, fun j hl => ?_, transitionAfter_cok s k b⟩
  obtain ⟨hl', he⟩ := transitionAfter_sub accP (fun _ _ => rfl) s k b j hl
  obtain ⟨e1, e2, e3, e4⟩ := accP_eq he
  exact ⟨hl', .of_fields ((stream_key _ _).trans (stream_key _ _).symm) e1 e4 e2 e3⟩

/-- **a step related by `AT` keeps `J`** -/
theorem J.at {s s' : Streams} (h : AT s s') (hj : J s) : J s' := by
  have hq : s'.recv.pendingAccept = s.recv.pendingAccept := h.qf.queue
  have hacc := AccOK.of_qf h.qf hj.acc
  refine ⟨hacc, fun k hk => ?_, ?_, fun hs j hl => ?_, fun hs => ?_⟩
  · obtain ⟨_, r⟩ := h.sub k (hacc.live hk)
    rw [hq] at hk
    obtain ⟨h1, h2⟩ := hj.qd k hk
    exact ⟨r.1.ref.trans h1, h2.of_app r.2⟩
  · refine Nat.le_trans ?_ (Nat.le_trans hj.rr h.cok.cnt)
    unfold rrCount
    rw [hq]
    exact countP_mono' (fun j hjq hf => (h.sub j (hacc.live (hq ▸ hjq))).2.1.rr hf)
  · rw [h.cok.srv] at hs
    obtain ⟨hl', r⟩ := h.sub j hl
    exact (hj.si hs j hl').of_ar r.1
  · rw [h.cok.srv] at hs; rw [hq]; exact hj.cl hs

-- ===================================================================== `Prioritize::pop_frame`

/-- what `Stream::send_data` must satisfy (it does: `sendData_ars`) -/
def SdAR (sd : Stream → Nat → Nat → Stream × List String × Bool) : Prop := ∀ x a b, ARs x (sd x a b).1

theorem emitC_al (sd : Stream → Nat → Nat → Stream × List String × Bool) (hsd : SdAR sd) (s : Streams) (id len : Nat)
    (rest : List SFrame) : AL [] s (ConnFlowP.emitC sd s id len rest) := by
  unfold ConnFlowP.emitC
  dsimp only
  generalize hs1 : Streams.modStream s id _ = s1
  have h1 : AL [] s s1 := by rw [← hs1]; al_auto
  have h2 : AL [] s (s1.setStream (sd (s1.stream id) len s1.prio.maxBufferSize).1) :=
    h1.trans (setStream_al (ks := []) s1 (k := id) _ (hsd _ _ _)) (fun _ h => h)
  al_auto

theorem finish_at {s' t : Streams} (id : Nat) (c : Prop) [Decidable c] (b : Bool) (h : AT s' t) :
    AT s' ((if c then (t.qPush .pendingSend id).1 else t).transitionAfter id b) := by
  refine AT.trans ?_ (transitionAfter_at _ _ _)
  split
  · exact h.trans (qPush_al (ks := []) _ _ _ (by decide)).at
  · exact h

set_option hygiene false in
local macro "at_data_rest" : tactic => `(tactic|
  (split
   · exact ih _ _
   · split
     · exact ih _ _
     · exact finish_at id _ _ (emitC_al _ hsd _ _ _ _).at))

theorem popFrameC_at (sd : Stream → Nat → Nat → Stream × List String × Bool) (hsd : SdAR sd) (fuel : Nat) :
    ∀ (s : Streams) (maxLen : Nat), AT s (ConnFlowP.popFrameC sd fuel s maxLen).1 := by
  induction fuel with
  | zero => intro s m; rw [ConnFlowP.popFrameC_zero]; exact .refl _
  | succ n ih =>
    intro s maxLen
    rw [ConnFlowP.popFrameC_succ']
    have h0 := (qPop_al (ks := []) s .pendingSend (by decide)).at
    split
    · next s' heq => exact .of_fst_eq heq h0
    · next s' id heq =>
      refine AT.trans (.of_fst_eq heq h0) ?_
      dsimp only
      split
      · split
        · split
          · refine AT.trans (AL.at ?_) (ih _ _)
            al_auto
          · at_data_rest
        · simp only [Bool.false_eq_true, if_false]
          at_data_rest
      · exact finish_at id _ _ (AL.at (by al_auto))
      · exact finish_at id _ _ (AL.at (by al_auto))
      · split
        · exact (finish_at id _ _ (AL.at (by al_auto))).trans (ih _ _)
        · refine finish_at id _ _ (AL.at ?_)
          al_auto
      · split
        · exact finish_at id _ _ (AL.at (by al_auto))
        · exact (transitionAfter_at _ _ _).trans (ih _ _)

theorem popFrame_at (fuel : Nat) (s : Streams) (maxLen : Nat) : AT s (Streams.popFrame fuel s maxLen).1 := by
  rw [ConnFlowP.popFrameC.eq]; exact popFrameC_at _ (fun x a b => sendData_ars x a b) fuel s maxLen

-- ===================================================================== the peeling tactic for `AT`

open Lean Elab Tactic Meta in
/-- goal `AT s0 (f … s …)` (possibly under `.1`): peel `f` with `f_at`, or with `f_al` lifted by `AL.at` -/
elab "at_head" : tactic => withMainContext do
  let g ← getMainGoal
  let t ← instantiateMVars (← g.getType)
  let t := t.cleanupAnnotations
  unless t.isAppOfArity ``AT 2 do throwError "at_head: not an AT goal"
  let e := t.appArg!
  let rec headOf (e : Expr) (fuel : Nat) : Option Name :=
    match fuel with
    | 0 => none
    | fuel + 1 =>
      match e with
      | .proj _ _ b => headOf b fuel
      | .mdata _ b => headOf b fuel
      | _ =>
        match e.getAppFn with
        | .const n _ =>
          if n == ``Prod.fst || n == ``Prod.snd then
            match e.getAppArgs.back? with
            | some a =>
              if a.isAppOfArity ``Prod.mk 4 then
                headOf (if n == ``Prod.fst then a.getAppArgs[2]! else a.getAppArgs[3]!) fuel
              else headOf a fuel
            | none => none
          else some n
        | _ => none
  match headOf e 8 with
  | none => throwError "at_head: no head constant"
  | some n =>
    if n == ``Streams.mk then
      evalTactic (← `(tactic| first
        | with_reducible refine AT.trans ?_ (AL.at (setMisc_al _ _ _ _ _ _ rfl))
        | with_reducible refine AT.trans ?_ (AL.at (setCounts_al _ _ ?_))))
    else
    let last := match n with
      | .str _ s => s
      | _ => "?"
    let atName := (`H2V.Lemmas.ConnNoPanicP).str (last ++ "_at")
    let alName := (`H2V.Lemmas.ConnNoPanicP).str (last ++ "_al")
    let useAt := (← getEnv).contains atName
    unless useAt || (← getEnv).contains alName do throwError "at_head: no lemma {atName} / {alName}"
    let gs ← g.apply (← mkConstWithFreshMVarLevels ``AT.trans)
    let gs ← gs.filterM fun m => do
      let ty ← instantiateMVars (← m.getType)
      pure (ty.cleanupAnnotations.isAppOfArity ``AT 2)
    match gs with
    | [g1, g2] =>
      if useAt then
        let side ← withReducible (g2.apply (← mkConstWithFreshMVarLevels atName))
        replaceMainGoal (g1 :: side)
      else
        let gs2 ← g2.apply (← mkConstWithFreshMVarLevels ``AL.at)
        match gs2 with
        | [g3] =>
          let side ← withReducible (g3.apply (← mkConstWithFreshMVarLevels alName))
          replaceMainGoal (g1 :: side)
        | _ => throwError "at_head: unexpected goals after AL.at"
    | _ => throwError "at_head: unexpected goals after AT.trans"

syntax "at_step" : tactic
macro_rules | `(tactic| at_step) => `(tactic| at_head)
macro_rules | `(tactic| at_step) => `(tactic| with_reducible refine AT.of_fst_eq (by with_reducible assumption) ?_)
macro_rules | `(tactic| at_step) => `(tactic| with_reducible assumption)
macro_rules | `(tactic| at_step) => `(tactic| with_reducible exact AT.refl _)

macro "at_auto" : tactic => `(tactic| repeat (first | at_step | al_side | intro _ | split | dsimp only))
macro "at_auto_ih" ih:ident : tactic =>
  `(tactic| repeat (first | at_step | with_reducible refine AT.trans ?_ ($ih ..) | al_side | intro _ | split | dsimp only))

-- ===================================================================== `buffer_pending`

theorem popPendingOpen_al (s : Streams) : AL [] s s.popPendingOpen.1 := by
  unfold Streams.popPendingOpen; al_auto
theorem reclaimFrameInner_al (s : Streams) (f : DataFrame) : AL [] s (s.reclaimFrameInner f).1 := by
  unfold Streams.reclaimFrameInner; al_auto
theorem reclaimFrame_al (s : Streams) (w : Writer) : AL [] s (s.reclaimFrame w).1 := by
  unfold Streams.reclaimFrame; al_auto
theorem bufferOut_al (s : Streams) (w : Writer) (f : Streams.OutFrame) : AL [] s (s.bufferOut w f).1 := by
  unfold Streams.bufferOut; al_auto
theorem sendConnectionWindowUpdate_al (s : Streams) (w : Writer) : AL [] s (s.sendConnectionWindowUpdate w).1 := by
  unfold Streams.sendConnectionWindowUpdate; al_auto

theorem prioBufferPendingLoop_at (n : Nat) : ∀ (s : Streams) (w : Writer), AT s (Streams.prioBufferPendingLoop n s w).1 := by
  induction n with
  | zero => intro s w; unfold Streams.prioBufferPendingLoop; exact (panic_al (ks := []) _ _).at
  | succ n ih => intro s w; unfold Streams.prioBufferPendingLoop; at_auto_ih ih

theorem prioBufferPending_at (n : Nat) (s : Streams) (w : Writer) : AT s (Streams.prioBufferPending n s w).1 := by
  unfold Streams.prioBufferPending; at_auto

theorem sendStreamWindowUpdates_at (n : Nat) : ∀ (s : Streams) (w : Writer), AT s (Streams.sendStreamWindowUpdates n s w).1 := by
  induction n with
  | zero => intro s w; exact .refl _
  | succ n ih => intro s w; unfold Streams.sendStreamWindowUpdates; at_auto_ih ih

theorem recvBufferPending_at (s : Streams) (w : Writer) : AT s (s.recvBufferPending w).1 := by
  unfold Streams.recvBufferPending; at_auto

theorem bufferPending_at (n : Nat) (s : Streams) (w : Writer) : AT s (Streams.bufferPending n s w).1 := by
  unfold Streams.bufferPending; at_auto

-- ===================================================================== `poll_complete`, `send_pending_refusal`

theorem pollComplete_at (n : Nat) : ∀ (s : Streams) (w : Writer) (io : Tio) (tag : String),
    AT s (Streams.pollComplete n s w io tag).1 := by
  induction n with
  | zero => intro s w io tag; unfold Streams.pollComplete; exact (panic_al (ks := []) _ _).at
  | succ n ih => intro s w io tag; unfold Streams.pollComplete; at_auto_ih ih

theorem pollSendPendingRefusal_al (n : Nat) : ∀ (s : Streams) (w : Writer) (io : Tio) (tag : String),
    AL [] s (Streams.pollSendPendingRefusal n s w io tag).1 := by
  induction n with
  | zero => intro s w io tag; exact .refl _ _
  | succ n ih => intro s w io tag; unfold Streams.pollSendPendingRefusal; al_auto_ih ih

theorem pollComplete_j {s : Streams} (hj : J s) (n : Nat) (w : Writer) (io : Tio) (tag : String) :
    J (Streams.pollComplete n s w io tag).1 := hj.at (pollComplete_at n s w io tag)

theorem pollSendPendingRefusal_j {s : Streams} (hj : J s) (n : Nat) (w : Writer) (io : Tio) (tag : String) :
    J (Streams.pollSendPendingRefusal n s w io tag).1 := hj.al0 (pollSendPendingRefusal_al n s w io tag)

end H2V.Lemmas.ConnNoPanicP
