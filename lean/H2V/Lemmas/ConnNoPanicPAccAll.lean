import H2V.Lemmas.ConnNoPanicPAccWrite
import H2V.Lemmas.ConnNoPanicPAccNext
/-
  C08 (no panic) — the server accept path, part 14: `J` along EVERY operation of ConnResetP's `Op` (except `.panic`),
  and the counterexample that shows why `handle_error` needs its argument precondition.
-/
namespace H2V.Lemmas.ConnNoPanicP
open H2V H2V.Model H2V.Model.Conn H2V.Lemmas.ConnCountsP
open H2V.Lemmas.ConnResetP (Op run)
attribute [local irreducible] wrapSubU32 wrapSubUsize

/-- the handle an operation is called through (as far as `J` needs it) -/
def accKey : Op → Option Nat
  | .recvPollResponse _ k _ => some k
  | .recvTakeRequest k => some k
  | op => opKey op

/-- what `J` needs of an operation:
    * `handle_error` is never called with `Reset(_, _, Initiator::Remote)` (ARGUMENT; connection.rs hands over GOAWAY / I/O errors);
    * a PUSH_PROMISE frame is refused without touching the state (`recvPushPromise_nopush` under `NoPush`);
    * `take_request` is called on the handle `next_incoming` has just handed out (its `pending_recv` starts with the request);
    * `drop_stream_ref`: no promised streams left (`NoPPP`);
    * `.panic` is not an operation of the code. -/
def accPre2 (s : Streams) : Op → Prop
  | .handleError e => NotRR e
  | .recvPushPromise id h => (s.recvPushPromise id h).1 = s
  | .recvTakeRequest k => ReqHead (s.stream k)
  | .dropStreamRef k => dropPPP s k = []
  | .panic _ => False
  | _ => True

/-- **every operation keeps `J`** -/
theorem J_stepAll {s : Streams} {H : List Nat} (hn : NPI (fun _ => False) s) (hh : HOK s H) (hj : J s) (op : Op)
    (hacc : accPre2 s op) (hin : ∀ k, accKey op = some k → k ∈ H) : J (op.apply s) := by
  have hk : ∀ k, accKey op = some k → Live s k ∧ (s.stream k).refCount > 0 := by
    intro k hk
    obtain ⟨x, hx, hc⟩ := hh k (hin k hk)
    have hpos := count_pos_of_mem (hin k hk)
    exact ⟨⟨x, hx⟩, by rw [stream_of_get? hx]; omega⟩
  cases op
  case recvHeaders h => exact recvHeaders_j hn hj h
  case recvData id p eos pad => exact recvData_j hj id p eos pad
  case recvReset id r => exact recvReset_j hn hj id r
  case recvWindowUpdate id inc => exact recvWindowUpdate_j hj id inc
  case recvPushPromise id h => exact recvPushPromise_j hj id h hacc
  case innerSendReset id r => exact innerSendReset_j hj id r
  case recvGoAway l => exact hj.al0 (recvGoAway_al s l)
  case handleError e => exact handleError_j hj e hacc
  case recvGoAwayFrame l r d => exact recvGoAwayFrame_j hj l r d
  case recvEof b => exact recvEof_j hj b
  case setTargetConnectionWindow t => exact setTargetConnectionWindow_j hj t
  case clearExpiredResetStreams n => exact clearExpiredResetStreams_j n hj
  case applyRemoteSettings v b => exact hj.al0 (applyRemoteSettings_al s v b)
  case applyLocalSettingsFrame v => exact hj.al0 (applyLocalSettingsFrame_al s v)
  case pollComplete n w io t => exact pollComplete_j hj n w io t
  case pollSendPendingRefusal n w io t => exact pollSendPendingRefusal_j hj n w io t
  case wake t => exact hj.al0 (wake_al s t)
  case clearWakes => exact clearWakes_j hj
  case panic m => exact hacc.elim
  case cloneHandle => exact hj.al0 (cloneHandle_al s)
  case dropHandle => exact hj.al0 (dropHandle_al s)
  case sendRequest a b c d => exact sendRequest_j hj a b c d
  case pollPendingOpen p t => exact hj.al0 (pollPendingOpen_al s p t)
  case nextIncoming => exact (nextIncoming_npi hn hj hh).2.1
  case recvTakeRequest k => exact (recvTakeRequest_npi hn hj (hk k rfl).1 (hk k rfl).2 hacc).2.1
  case cloneStreamRef k => exact cloneStreamRef_j hj (hk k rfl).1 (hk k rfl).2
  case dropStreamRef k => exact dropStreamRef_j hj (hk k rfl).1 (hk k rfl).2 hacc
  case refSendResponse k f eos => exact refSendResponse_j hj k f eos
  case refSendInformationalHeaders k f => exact refSendInformationalHeaders_j hj k f
  case refSendPushPromise p v f => exact refSendPushPromise_j hn hj p v f
  case refSendData k len eos => exact refSendData_j hj k len eos
  case refSendTrailers k f => exact refSendTrailers_j hj k f
  case refReserveCapacity k c => exact hj.al0 (refReserveCapacity_al s k c)
  case pollCapacity k t => exact hj.al0 (pollCapacity_al s k t)
  case refSendReset k r => exact refSendReset_j hj k r
  case pollReset k m t => exact hj.al0 (pollReset_al s k m t)
  case recvPollResponse n k t => exact recvPollResponse_j hj n (hk k rfl).2 t
  case recvPollInformational k t => exact hj.al1 (recvPollInformational_al s k t) (hj.not_mem_of_ref (hk k rfl).2)
  case refPollData k t => exact hj.al1 (refPollData_al s k t) (hj.not_mem_of_ref (hk k rfl).2)
  case recvPollTrailers k t => exact hj.al1 (recvPollTrailers_al s k t) (hj.not_mem_of_ref (hk k rfl).2)
  case refReleaseCapacity k c => exact hj.al0 (refReleaseCapacity_al s k c)
  case refClearRecvBuffer k => exact hj.al1 (refClearRecvBuffer_al s k) (hj.not_mem_of_ref (hk k rfl).2)

-- ===================================================================== `poll_pushed` (not an `Op`)

/-- `poll_pushed` on a stream without pending push promises (`NoPPP`): only `push_task` is written -/
theorem recvPollPushed_al (s : Streams) (k : Nat) (t : String) (h : (s.stream k).pendingPushPromises = []) :
    AL [] s (s.recvPollPushed k t).1 := by
  unfold Streams.recvPollPushed
  rw [h]
  dsimp only
  al_auto

theorem recvPollPushed_not_pushed (s : Streams) (k : Nat) (t : String) (h : (s.stream k).pendingPushPromises = []) :
    ∀ c m u f, (s.recvPollPushed k t).2 ≠ .pushed c m u f := by
  unfold Streams.recvPollPushed
  rw [h]
  dsimp only
  intro c m u f
  split <;> simp

theorem refPollPushed_j {s : Streams} (hj : J s) (k : Nat) (t : String) (h : (s.stream k).pendingPushPromises = []) :
    J (s.refPollPushed k t).1 := by
  unfold Streams.refPollPushed
  have h1 := hj.al0 (recvPollPushed_al s k t h)
  have h2 := recvPollPushed_not_pushed s k t h
  generalize s.recvPollPushed k t = p at h1 h2
  obtain ⟨s1, r⟩ := p
  cases r with
  | pushed c m u f => exact absurd rfl (h2 c m u f)
  | pending => exact h1
  | none => exact h1
  | err e => exact h1
  | panic => exact h1

-- ===================================================================== why `handle_error` needs `NotRR`

/-- a new server connection's stream layer -/
def cxInit : Streams :=
  { counts := { isServer := true },
    actions := { recv := { nextStreamId := some 1, flow := { windowSize := { val := 65535 }, available := { val := 65535 } } },
                 send := { nextStreamId := some 2 } } }

/-- `GET /` on stream 1 -/
def cxReq : HeadersIn :=
  { sid := 1, eos := false, status := none, method := some [71, 69, 84], scheme := some [104, 116, 116, 112], path := some [47] }

/-- request, then `handle_error(Reset(1, NO_ERROR, Remote))` — a call connection.rs never makes —, then `next_incoming` -/
def cxOps : List Op := [.recvHeaders cxReq, .handleError (.reset 1 0 .remote), .nextIncoming]

theorem cxInit_blank : Blank cxInit ∧ cxInit.panicked = none ∧ ∀ q, cxInit.getQ q = [] :=
  ⟨⟨rfl, rfl, rfl, rfl, rfl, rfl, rfl, rfl, rfl, rfl, by intro x hx; cases hx; rfl⟩, rfl, fun q => by cases q <;> rfl⟩

set_option maxRecDepth 8000 in
/-- **model artifact, not a defect of h2**: with an arbitrary error argument `Op.handleError` can mark a queued stream
    "reset by the peer" without counting it, and `next_incoming`'s `assert!(num_remote_reset_streams > 0)` fires.
    With a GOAWAY error (what the code really passes) the same history is fine. -/
theorem handleError_remoteReset_counterexample :
    (run cxInit cxOps).panicked = some "assertion failed: self.num_remote_reset_streams > 0" ∧
    (run cxInit [.recvHeaders cxReq, .handleError (.goAway [] 0 .remote), .nextIncoming]).panicked = none := by
  constructor <;> decide +kernel

end H2V.Lemmas.ConnNoPanicP
