import H2V.Lemmas.ConnHttpPInner
import H2V.Lemmas.ConnHttpPReader
/-
  C13 (ConnHttpP), part 12 — assembly: a header block delivered by `decode_frame` (ghost field list `g`)
  whose head / trailers the stream layer hands to the application, against `Spec.Http`.
-/
namespace H2V.Lemmas.ConnHttpP
open H2V H2V.Model H2V.Model.Frame H2V.Model.Hpack H2V.Model.Conn

/-- a delivered, unflagged block satisfies the common rules and holds exactly the fields of `g` -/
theorem block_exact (blk : HeaderBlock) (g : List Header) (hm : blk.isMalformed = false)
    (ho : blk.isOverSize = false) (hb : BlockInv blk g) (hok : ∀ x ∈ g, fieldOk x = true) :
    Spec.Http.common g = [] ∧ PseudoExact g blk.pseudo ∧ blk.fields = groupInto [] (regular g) := by
  have ht := hb hm ho
  exact ⟨track_common g _ ht hok, track_pseudoExact g _ ht hok, track_fields g _ _ ht⟩

/-- **request heads**: a request event for a delivered block means NO rule of `Spec.Http.request` is
    violated by the block's field list (since the repair of findings N2 / N3 without exception), and the
    fields handed over are exactly the regular fields of the list -/
theorem accepted_request_rules (blk : HeaderBlock) (g : List Header) (sid : Nat) (eos : Bool) (cfg : Bool × Bool)
    (m u : Bytes) (f : Fields) (hm : blk.isMalformed = false) (hb : BlockInv blk g)
    (hok : ∀ x ∈ g, fieldOk x = true) (ha : HeadAccepted cfg (Conn.headersIn sid eos blk) (.request m u f)) :
    Spec.Http.request g cfg.2 = [] ∧ f = groupInto [] (regular g) ∧
    Spec.Http.get g ":method" = [m] := by
  obtain ⟨ho, -, hc, hst, hpr, hf⟩ := ha
  obtain ⟨hcm, hpe, hfl⟩ := block_exact blk g hm ho hb hok
  refine ⟨?_, by rw [hf]; exact hfl, ?_⟩
  · rw [request_eq_reqRules g blk.pseudo cfg.2 hcm hpe]
    have := convert_ok_rules (Conn.headersIn sid eos blk) cfg.2 m u hc hst hpr
    simpa only [Conn.headersIn] using this
  · rw [hpe.method]
    have := convert_ok_method _ m u hc
    simp only [Conn.headersIn] at this
    rw [this]; rfl

theorem mem_vals (g : List Header) (n v : Bytes) (h : v ∈ vals g n) : (n, v) ∈ g := by
  unfold vals at h
  obtain ⟨f, hf, rfl⟩ := List.mem_map.mp h
  have := List.mem_filter.mp hf
  have e : f.1 = n := by simpa using this.2
  rw [← e]; exact this.1

/-- **response heads (final or interim)**: the client checks nothing beyond the common rules — what may
    be violated is exactly the known findings F5b (`missing-status`, delivered as 200) and F5a
    (`request-pseudo-in-response`) -/
theorem accepted_response_rules (blk : HeaderBlock) (g : List Header) (sid : Nat) (eos : Bool) (cfg : Bool × Bool)
    (st : Bytes) (f : Fields) (hm : blk.isMalformed = false) (hb : BlockInv blk g)
    (hok : ∀ x ∈ g, fieldOk x = true)
    (ha : HeadAccepted cfg (Conn.headersIn sid eos blk) (.headers st f) ∨
          HeadAccepted cfg (Conn.headersIn sid eos blk) (.informational st f)) :
    (∀ r ∈ Spec.Http.response g, r = "missing-status" ∨ r = "request-pseudo-in-response") ∧
    f = groupInto [] (regular g) ∧
    (Spec.Http.get g ":status" = [st] ∨ (Spec.Http.get g ":status" = [] ∧ st = Http.str "200")) := by
  have hb' : blk.isOverSize = false ∧ st = blk.pseudo.status.getD (Http.str "200") ∧ f = blk.fields := by
    rcases ha with ⟨ho, -, -, h1, h2⟩ | ⟨ho, -, -, h1, h2⟩ <;> exact ⟨ho, h1, h2⟩
  obtain ⟨ho, hst, hf⟩ := hb'
  obtain ⟨hcm, hpe, hfl⟩ := block_exact blk g hm ho hb hok
  refine ⟨fun r hr => ?_, by rw [hf]; exact hfl, ?_⟩
  · unfold Spec.Http.response at hr
    rw [hcm, List.nil_append, List.mem_append] at hr
    rcases hr with hr | hr
    · rw [hpe.status] at hr
      cases hs : blk.pseudo.status with
      | none => rw [hs] at hr; simp at hr; exact Or.inl hr
      | some v =>
        rw [hs] at hr
        have hv : (pStatus, v) ∈ g := mem_vals g pStatus v (by
          have := hpe.status; rw [get_eq_vals, ascii_status, hs] at this; rw [this]; simp)
        have := ((fieldOk_iff _).mp (hok _ hv)).2.2 rfl
        simp [this] at hr
    · split at hr
      · simp at hr; exact Or.inr hr
      · cases hr
  · rw [hpe.status, hst]
    cases blk.pseudo.status with
    | none => exact Or.inr ⟨rfl, rfl⟩
    | some v => exact Or.inl rfl

/-- **trailers**: neither role looks at the pseudo-header part of trailers — what may be violated is
    exactly the known finding F5c (`pseudo-in-trailers`); over-size trailers are never handed over
    (finding N6, repaired) -/
theorem accepted_trailers_rules (blk : HeaderBlock) (g : List Header) (sid : Nat) (eos : Bool) (ev : REvent)
    (hm : blk.isMalformed = false) (hb : BlockInv blk g)
    (hok : ∀ x ∈ g, fieldOk x = true) (ha : TrailersAccepted (Conn.headersIn sid eos blk) ev) :
    (∀ r ∈ Spec.Http.trailers g, r = "pseudo-in-trailers") ∧ ev = .trailers (groupInto [] (regular g)) := by
  obtain ⟨hev, ho⟩ := ha
  obtain ⟨hcm, -, hfl⟩ := block_exact blk g hm ho hb hok
  refine ⟨fun r hr => ?_, by rw [hev]; simp only [Conn.headersIn, hfl]⟩
  unfold Spec.Http.trailers at hr
  rw [hcm, List.nil_append] at hr
  split at hr
  · simpa using hr
  · cases hr

/-- what the application may be handed for a delivered header block that stands for the field list `g`:
    a request (server) obeying every rule of `Spec.Http.request`; a response (client) / trailers whose
    only possible rule violations are the listed known findings F5a–c; always with exactly the regular
    fields of `g` -/
def ValidEvent (cfg : Bool × Bool) (g : List Header) (ev : REvent) : Prop :=
  match ev with
  | .request m _ f => cfg.1 = true ∧ Spec.Http.request g cfg.2 = [] ∧
      f = groupInto [] (regular g) ∧ Spec.Http.get g ":method" = [m]
  | .headers st f => cfg.1 = false ∧
      (∀ r ∈ Spec.Http.response g, r = "missing-status" ∨ r = "request-pseudo-in-response") ∧
      f = groupInto [] (regular g) ∧
      (Spec.Http.get g ":status" = [st] ∨ (Spec.Http.get g ":status" = [] ∧ st = Http.str "200"))
  | .informational st f => cfg.1 = false ∧
      (∀ r ∈ Spec.Http.response g, r = "missing-status" ∨ r = "request-pseudo-in-response") ∧
      f = groupInto [] (regular g) ∧
      (Spec.Http.get g ":status" = [st] ∨ (Spec.Http.get g ":status" = [] ∧ st = Http.str "200"))
  | .trailers f => (∀ r ∈ Spec.Http.trailers g, r = "pseudo-in-trailers") ∧ f = groupInto [] (regular g)
  | .data .. => False

theorem frameAccepted_valid (blk : HeaderBlock) (g : List Header) (sid : Nat) (eos : Bool) (cfg : Bool × Bool)
    (ev : REvent) (hm : blk.isMalformed = false) (hb : BlockInv blk g) (hok : ∀ x ∈ g, fieldOk x = true)
    (ha : FrameAccepted cfg (Conn.headersIn sid eos blk) ev) : ValidEvent cfg g ev := by
  rcases ha with ha | ha
  · cases ev with
    | request m u f =>
      obtain ⟨r1, r2, r3⟩ := accepted_request_rules blk g sid eos cfg m u f hm hb hok ha
      exact ⟨ha.2.1, r1, r2, r3⟩
    | headers st f =>
      obtain ⟨r1, r2, r3⟩ := accepted_response_rules blk g sid eos cfg st f hm hb hok (Or.inl ha)
      exact ⟨ha.2.1, r1, r2, r3⟩
    | informational st f =>
      obtain ⟨r1, r2, r3⟩ := accepted_response_rules blk g sid eos cfg st f hm hb hok (Or.inr ha)
      exact ⟨ha.2.1, r1, r2, r3⟩
    | data p b => exact ha.2
    | trailers f => exact ha.2.elim
  · obtain ⟨r1, r2⟩ := accepted_trailers_rules blk g sid eos ev hm hb hok ha
    rw [r2]
    exact ⟨r1, rfl⟩

/-- **the receive path for header frames, end to end** -/
theorem recvHeaders_valid (s : Streams) (blk : HeaderBlock) (g : List Header) (sid : Nat) (eos : Bool)
    (hm : blk.isMalformed = false) (hb : BlockInv blk g) (hok : ∀ x ∈ g, fieldOk x = true) :
    Delivers (fun _ ev => ValidEvent (cfgOf s) g ev) s (s.recvHeaders (Conn.headersIn sid eos blk)).1 :=
  (recvHeaders_delivers s _).mono fun _ ev ha => frameAccepted_valid blk g sid eos _ ev hm hb hok ha

end H2V.Lemmas.ConnHttpP
