import H2V.Lemmas.ConnFlowPDrain
/-
  ConnFlowP, part 17 — `requested_send_capacity` stays a `u32` (`ReqOk`): primitives and the functions
  of `prioritize.rs` / `send.rs`.  (Same peeling tactic as for `Fr`; `ReqOk` is needed by
  `assignConnectionCapacity_drains`.)
-/
namespace H2V.Lemmas.ConnFlowP
open H2V H2V.Model H2V.Model.Conn H2V.Lemmas.Comp

/-- a stream update that keeps the request or sets it to a `u32` value -/
@[reducible] def ReqF (f : Stream → Stream) : Prop :=
  ∀ x, (f x).requestedSendCapacity = x.requestedSendCapacity ∨ (f x).requestedSendCapacity < 4294967296
@[reducible] def ReqFW (f : Stream → Stream × List String) : Prop :=
  ∀ x, (f x).1.requestedSendCapacity = x.requestedSendCapacity ∨ (f x).1.requestedSendCapacity < 4294967296

theorem usizeAsU32_lt (x : Nat) : usizeAsU32 x < 4294967296 := by unfold usizeAsU32 U32_MOD; omega
theorem min_u32max_lt (x : Nat) : min x U32_MAX < 4294967296 := by unfold U32_MAX; omega
theorem wrapSubU32_lt (a b : Nat) : wrapSubU32 a b < 4294967296 := by unfold wrapSubU32 U32_MOD; omega

section
variable {t : Streams}

theorem ReqOk.modStreamF {id : Nat} {f : Stream → Stream} (hf : ReqF f) (h : ReqOk t) : ReqOk (t.modStream id f) := by
  unfold Streams.modStream
  split
  · rename_i st hget
    intro y hy
    simp only [Streams.setStream, Store.set, List.mem_map] at hy
    obtain ⟨x, hx, rfl⟩ := hy
    split
    · rcases hf st with e | e
      · rw [e]; exact h st (get?_mem hget).1
      · exact e
    · exact h x hx
  · exact h.panic _

theorem ReqOk.modStreamWF {id : Nat} {f : Stream → Stream × List String} (hf : ReqFW f) (h : ReqOk t) :
    ReqOk (t.modStreamW id f) := by
  unfold Streams.modStreamW
  split
  · rename_i st hget
    intro y hy
    simp only [Streams.wake, Streams.setStream, Store.set, List.mem_map] at hy
    obtain ⟨x, hx, rfl⟩ := hy
    split
    · rcases hf st with e | e
      · rw [e]; exact h st (get?_mem hget).1
      · exact e
    · exact h x hx
  · exact h.panic _

theorem ReqOk.unsup (h : ReqOk t) (m : String) : ReqOk (t.unsup m) := by
  refine h.same ?_; unfold Streams.unsup; split <;> rfl
theorem ReqOk.wake (h : ReqOk t) (w : List String) : ReqOk (t.wake w) := h.same rfl
theorem ReqOk.notifyTask (h : ReqOk t) : ReqOk t.notifyTask := by
  refine h.same ?_; unfold Streams.notifyTask; split <;> rfl
theorem ReqOk.modRecv (h : ReqOk t) (f : Recv → Recv) : ReqOk (t.modRecv f) := h.same rfl
theorem ReqOk.modSend (h : ReqOk t) (f : Send → Send) : ReqOk (t.modSend f) := h.same rfl
theorem ReqOk.modPrio (h : ReqOk t) (f : Prioritize → Prioritize) : ReqOk (t.modPrio f) := h.same rfl
theorem ReqOk.setQ (h : ReqOk t) (q : QName) (l : List Nat) : ReqOk (t.setQ q l) := h.same (by cases q <;> rfl)
theorem ReqOk.withCounts (h : ReqOk t) (c : Counts) : ReqOk { t with counts := c } := h.same rfl
theorem ReqOk.withRefs (h : ReqOk t) (n : Nat) : ReqOk { t with refs := n } := h.same rfl
theorem ReqOk.withWakes (h : ReqOk t) (w : List String) : ReqOk { t with wakes := w } := h.same rfl
theorem ReqOk.withConnError (h : ReqOk t) (e : Option PErr) :
    ReqOk { t with actions := { t.actions with connError := e } } := h.same rfl
theorem ReqOk.withTask (h : ReqOk t) (e : Option String) :
    ReqOk { t with actions := { t.actions with task := e } } := h.same rfl
theorem ReqOk.withStoreRemove (h : ReqOk t) (k : Nat) : ReqOk { t with store := t.store.remove k } := by
  intro y hy; exact h y (List.mem_filter.1 hy).1
theorem ReqOk.withStoreUnlinkRemove (h : ReqOk t) (id k : Nat) :
    ReqOk { t with store := (t.store.unlink id).remove k } := by
  intro y hy; exact h y (List.mem_filter.1 hy).1
theorem ReqOk.withStoreInsert {st : Stream} (hst : st.requestedSendCapacity < 4294967296) (h : ReqOk t) :
    ReqOk { t with store := (t.store.insert st).1 } := by
  intro y hy
  simp only [Store.insert] at hy
  rcases List.mem_append.1 hy with hy | hy
  · exact h y hy
  · simp only [List.mem_singleton] at hy; subst hy; exact hst
theorem ReqOk.qPushFront (h : ReqOk t) (q : QName) (id : Nat) : ReqOk (t.qPushFront q id).1 := by
  unfold Streams.qPushFront
  split
  · exact h
  · have h1 := h.modStream id (fun st => st.setQueued q true) (by intro x; cases q <;> rfl)
    exact h1.same (by cases q <;> rfl)
theorem ReqOk.of_fst_eq {α : Type} {p : Streams × α} {t' : Streams} {r : α} (he : p = (t', r)) (h : ReqOk p.1) :
    ReqOk t' := by subst he; exact h

end

theorem notifyRecv_req (x : Stream) : x.notifyRecv.1.requestedSendCapacity = x.requestedSendCapacity := by
  unfold Stream.notifyRecv; split <;> rfl
theorem notifyPush_req (x : Stream) : x.notifyPush.1.requestedSendCapacity = x.requestedSendCapacity := by
  unfold Stream.notifyPush; split <;> rfl
theorem notifyCapacity_req (x : Stream) : x.notifyCapacity.1.requestedSendCapacity = x.requestedSendCapacity := by
  unfold Stream.notifyCapacity; exact notifySend_req _
theorem setReset_req (x : Stream) (r : Reason) (i : Initiator) :
    (x.setReset r i).1.requestedSendCapacity = x.requestedSendCapacity := by
  unfold Stream.setReset
  simp only
  rw [notifyRecv_req, notifyPush_req, notifySend_req]
theorem new_req (id a b : Nat) : (Stream.new id a b).requestedSendCapacity < 4294967296 := by
  unfold Stream.new; dsimp only; omega

/-- side conditions `ReqF f` / `ReqFW f` -/
syntax "reqf" : tactic
macro_rules | `(tactic| reqf) => `(tactic| first
  | (intro _; exact Or.inl rfl)
  | (intro x; cases ‹QName› <;> exact Or.inl rfl)
  | (intro _; exact Or.inr (usizeAsU32_lt _))
  | (intro _; exact Or.inr (min_u32max_lt _))
  | (intro _; exact Or.inr (by show (0 : Nat) < 4294967296; omega))
  | (intro _; exact Or.inl (notifySend_req _))
  | (intro _; exact Or.inl (notifyRecv_req _))
  | (intro _; exact Or.inl (notifyPush_req _))
  | (intro _; exact Or.inl (notifyCapacity_req _))
  | (intro _; exact Or.inl (setReset_req _ _ _))
  | (intro _; exact Or.inl (assignCapacity_req _ _ _)))

macro_rules | `(tactic| req_peel) => `(tactic| first
  | with_reducible apply ReqOk.unsup
  | with_reducible apply ReqOk.wake
  | with_reducible apply ReqOk.notifyTask
  | with_reducible apply ReqOk.modRecv
  | with_reducible apply ReqOk.modSend
  | with_reducible apply ReqOk.modPrio
  | with_reducible apply ReqOk.setQ
  | (guard_mk; with_reducible apply ReqOk.withCounts)
  | (guard_mk; with_reducible apply ReqOk.withRefs)
  | (guard_mk; with_reducible apply ReqOk.withWakes)
  | (guard_mk; with_reducible apply ReqOk.withConnError)
  | (guard_mk; with_reducible apply ReqOk.withTask)
  | (guard_mk; with_reducible apply ReqOk.withStoreRemove)
  | (guard_mk; with_reducible apply ReqOk.withStoreUnlinkRemove)
  | (guard_mk; with_reducible apply ReqOk.withStoreInsert; (· first | exact new_req _ _ _ | (split <;> exact new_req _ _ _)))
  | with_reducible apply ReqOk.qPush
  | with_reducible apply ReqOk.qPushFront
  | with_reducible apply ReqOk.qPop
  | with_reducible apply ReqOk.transitionAfter
  | (with_reducible apply ReqOk.modStreamF; (· reqf))
  | (with_reducible apply ReqOk.modStreamWF; (· reqf))
  | apply_ih
  | (with_reducible apply ReqOk.of_fst_eq; (· with_reducible assumption)))

macro "req_by" f:ident : tactic => `(tactic| (unfold $f; (try unfold Streams.transition); (try dsimp only); req_auto))

theorem ReqOk.incNumSendStreams {t : Streams} (h : ReqOk t) (id : Nat) : ReqOk (t.incNumSendStreams id) := by
  req_by Streams.incNumSendStreams
theorem ReqOk.incNumRecvStreams {t : Streams} (h : ReqOk t) (id : Nat) : ReqOk (t.incNumRecvStreams id) := by
  req_by Streams.incNumRecvStreams
macro_rules | `(tactic| req_peel) => `(tactic| first
  | with_reducible apply ReqOk.incNumSendStreams
  | with_reducible apply ReqOk.incNumRecvStreams)

section
variable {t : Streams}

theorem ReqOk.scheduleSend (h : ReqOk t) (id : Nat) : ReqOk (t.scheduleSend id) := by
  req_by Streams.scheduleSend
macro_rules | `(tactic| req_peel) => `(tactic| with_reducible apply ReqOk.scheduleSend)

theorem ReqOk.queueFrame (h : ReqOk t) (id : Nat) (f : SFrame) : ReqOk (t.queueFrame id f) := by
  req_by Streams.queueFrame
macro_rules | `(tactic| req_peel) => `(tactic| with_reducible apply ReqOk.queueFrame)

theorem ReqOk.queueOpen (h : ReqOk t) (id : Nat) : ReqOk (t.queueOpen id) := by
  req_by Streams.queueOpen
macro_rules | `(tactic| req_peel) => `(tactic| with_reducible apply ReqOk.queueOpen)

theorem ReqOk.clearQueue (h : ReqOk t) (id : Nat) : ReqOk (t.clearQueue id) := by
  req_by Streams.clearQueue
macro_rules | `(tactic| req_peel) => `(tactic| with_reducible apply ReqOk.clearQueue)

theorem ReqOk.clearPendingCapacity (fuel : Nat) : ∀ {t : Streams}, ReqOk t → ReqOk (Streams.clearPendingCapacity fuel t) := by
  induction fuel with
  | zero => intro t h; exact h
  | succ n ih => intro t h; req_by Streams.clearPendingCapacity
macro_rules | `(tactic| req_peel) => `(tactic| with_reducible apply ReqOk.clearPendingCapacity)

theorem ReqOk.clearPendingSend (fuel : Nat) : ∀ {t : Streams}, ReqOk t → ReqOk (Streams.clearPendingSend fuel t) := by
  induction fuel with
  | zero => intro t h; exact h
  | succ n ih => intro t h; req_by Streams.clearPendingSend
macro_rules | `(tactic| req_peel) => `(tactic| with_reducible apply ReqOk.clearPendingSend)

theorem ReqOk.clearPendingOpen (fuel : Nat) : ∀ {t : Streams}, ReqOk t → ReqOk (Streams.clearPendingOpen fuel t) := by
  induction fuel with
  | zero => intro t h; exact h
  | succ n ih => intro t h; req_by Streams.clearPendingOpen
macro_rules | `(tactic| req_peel) => `(tactic| with_reducible apply ReqOk.clearPendingOpen)

theorem ReqOk.popPendingOpen (h : ReqOk t) : ReqOk t.popPendingOpen.1 := by
  req_by Streams.popPendingOpen
macro_rules | `(tactic| req_peel) => `(tactic| with_reducible apply ReqOk.popPendingOpen)

theorem ReqOk.reclaimFrameInner (h : ReqOk t) (f : DataFrame) : ReqOk (t.reclaimFrameInner f).1 := by
  req_by Streams.reclaimFrameInner
macro_rules | `(tactic| req_peel) => `(tactic| with_reducible apply ReqOk.reclaimFrameInner)

theorem ReqOk.reclaimFrame (h : ReqOk t) (w : Writer) : ReqOk (t.reclaimFrame w).1 := by
  req_by Streams.reclaimFrame
macro_rules | `(tactic| req_peel) => `(tactic| with_reducible apply ReqOk.reclaimFrame)

theorem ReqOk.bufferOut (h : ReqOk t) (w : Writer) (f : Streams.OutFrame) : ReqOk (t.bufferOut w f).1 := by
  req_by Streams.bufferOut
macro_rules | `(tactic| req_peel) => `(tactic| with_reducible apply ReqOk.bufferOut)

theorem ReqOk.sendOpenId (h : ReqOk t) : ReqOk t.sendOpenId.1 := by
  req_by Streams.sendOpenId
macro_rules | `(tactic| req_peel) => `(tactic| with_reducible apply ReqOk.sendOpenId)

theorem ReqOk.sendHeaders (h : ReqOk t) (id : Nat) (eos : Bool) (f : List Hpack.Field) : ReqOk (t.sendHeaders id eos f).1 := by
  req_by Streams.sendHeaders
macro_rules | `(tactic| req_peel) => `(tactic| with_reducible apply ReqOk.sendHeaders)

theorem ReqOk.sendReserveLocal (h : ReqOk t) : ReqOk t.sendReserveLocal.1 := by
  req_by Streams.sendReserveLocal
macro_rules | `(tactic| req_peel) => `(tactic| with_reducible apply ReqOk.sendReserveLocal)

theorem ReqOk.sendPushPromise (h : ReqOk t) (p k i : Nat) (f : List Hpack.Field) : ReqOk (t.sendPushPromise p k i f).1 := by
  req_by Streams.sendPushPromise
macro_rules | `(tactic| req_peel) => `(tactic| with_reducible apply ReqOk.sendPushPromise)

theorem ReqOk.sendInterimInformationalHeaders (h : ReqOk t) (id : Nat) (f : List Hpack.Field) :
    ReqOk (t.sendInterimInformationalHeaders id f).1 := by
  req_by Streams.sendInterimInformationalHeaders
macro_rules | `(tactic| req_peel) => `(tactic| with_reducible apply ReqOk.sendInterimInformationalHeaders)

theorem ReqOk.pollCapacity (h : ReqOk t) (id : Nat) (tag : String) : ReqOk (t.pollCapacity id tag).1 := by
  req_by Streams.pollCapacity
macro_rules | `(tactic| req_peel) => `(tactic| with_reducible apply ReqOk.pollCapacity)

theorem ReqOk.pollReset (h : ReqOk t) (id : Nat) (m : PollReset) (tag : String) : ReqOk (t.pollReset id m tag).1 := by
  req_by Streams.pollReset
macro_rules | `(tactic| req_peel) => `(tactic| with_reducible apply ReqOk.pollReset)

theorem ReqOk.sendRecvGoAway (h : ReqOk t) (l : Nat) : ReqOk (t.sendRecvGoAway l).1 := by
  req_by Streams.sendRecvGoAway
macro_rules | `(tactic| req_peel) => `(tactic| with_reducible apply ReqOk.sendRecvGoAway)

theorem ReqOk.sendClearQueues (h : ReqOk t) : ReqOk t.sendClearQueues := by
  req_by Streams.sendClearQueues
macro_rules | `(tactic| req_peel) => `(tactic| with_reducible apply ReqOk.sendClearQueues)

theorem ReqOk.sendMaybeResetNextStreamId (h : ReqOk t) (id : Nat) : ReqOk (t.sendMaybeResetNextStreamId id) := by
  req_by Streams.sendMaybeResetNextStreamId
macro_rules | `(tactic| req_peel) => `(tactic| with_reducible apply ReqOk.sendMaybeResetNextStreamId)


theorem ReqOk.tryAssignCapacity (h : ReqOk t) (id : Nat) : ReqOk (t.tryAssignCapacity id) := by
  req_by Streams.tryAssignCapacity
macro_rules | `(tactic| req_peel) => `(tactic| with_reducible apply ReqOk.tryAssignCapacity)

theorem ReqOk.assignConnectionCapacityLoop (fuel : Nat) :
    ∀ {t : Streams}, ReqOk t → ReqOk (Streams.assignConnectionCapacityLoop fuel t) := by
  induction fuel with
  | zero => intro t h; exact h
  | succ n ih => intro t h; req_by Streams.assignConnectionCapacityLoop
macro_rules | `(tactic| req_peel) => `(tactic| with_reducible apply ReqOk.assignConnectionCapacityLoop)

theorem ReqOk.assignConnectionCapacity (h : ReqOk t) (n : Nat) : ReqOk (t.assignConnectionCapacity n) := by
  req_by Streams.assignConnectionCapacity
macro_rules | `(tactic| req_peel) => `(tactic| with_reducible apply ReqOk.assignConnectionCapacity)

theorem ReqOk.reserveCapacity (h : ReqOk t) (id c : Nat) : ReqOk (t.reserveCapacity id c) := by
  req_by Streams.reserveCapacity
macro_rules | `(tactic| req_peel) => `(tactic| with_reducible apply ReqOk.reserveCapacity)

theorem ReqOk.prioSendData (h : ReqOk t) (id len : Nat) (eos : Bool) : ReqOk (t.prioSendData id len eos).1 := by
  req_by Streams.prioSendData
macro_rules | `(tactic| req_peel) => `(tactic| with_reducible apply ReqOk.prioSendData)

theorem ReqOk.prioRecvStreamWindowUpdate (h : ReqOk t) (id inc : Nat) : ReqOk (t.prioRecvStreamWindowUpdate id inc).1 := by
  req_by Streams.prioRecvStreamWindowUpdate
macro_rules | `(tactic| req_peel) => `(tactic| with_reducible apply ReqOk.prioRecvStreamWindowUpdate)

theorem ReqOk.recvConnectionWindowUpdate (h : ReqOk t) (inc : Nat) : ReqOk (t.recvConnectionWindowUpdate inc).1 := by
  req_by Streams.recvConnectionWindowUpdate
macro_rules | `(tactic| req_peel) => `(tactic| with_reducible apply ReqOk.recvConnectionWindowUpdate)

theorem ReqOk.reclaimAllCapacity (h : ReqOk t) (id : Nat) : ReqOk (t.reclaimAllCapacity id) := by
  req_by Streams.reclaimAllCapacity
macro_rules | `(tactic| req_peel) => `(tactic| with_reducible apply ReqOk.reclaimAllCapacity)

theorem ReqOk.reclaimReservedCapacity (h : ReqOk t) (id : Nat) : ReqOk (t.reclaimReservedCapacity id) := by
  req_by Streams.reclaimReservedCapacity
macro_rules | `(tactic| req_peel) => `(tactic| with_reducible apply ReqOk.reclaimReservedCapacity)

end

end H2V.Lemmas.ConnFlowP
