import H2V.Lemmas.CodecEncode
/-
  Codec lemmas, part 4 (goal B): the `load` functions of `src/frame/*.rs` against the RFC 9113 §6
  frame syntax (`Spec.Frame.ofParts`).

  For every loader two directions are proved:
    * soundness    `load … = .ok f      → ofParts … = .ok (toSpec f)`
    * completeness `ofParts … = .ok f'  → ∃ f, load … = .ok f ∧ toSpec f = f'`
  Since both sides are total, soundness is the same statement as
    `ofParts … = .error v → load … is an error` (corollaries `*_error`),
  and completeness the same as `load … is an error → ofParts … is an error`.
  Where a direction fails, the exact exception is a theorem and the witness an `example`.
-/
namespace H2V.Lemmas.Codec
open H2V H2V.Model.Frame

/-- generic: soundness gives the error direction -/
theorem error_of_sound {ε α β ε' : Type} {m : Except ε α} {s : Except ε' β}
    (sound : ∀ f, m = .ok f → ∃ f', s = .ok f') : ∀ v, s = .error v → ∃ e, m = .error e := by
  intro v hv
  cases m with
  | error e => exact ⟨e, rfl⟩
  | ok f => obtain ⟨f', hf'⟩ := sound f rfl; rw [hf'] at hv; cases hv

-- ===================================================================== DATA (exact agreement)

theorem stripPadding_eq_unpad (p : Bytes) :
    (match stripPadding p with
      | .error _ => none
      | .ok (pl, d) => some (some pl, d)) =
    (match Spec.Frame.unpad true p with
      | .error _ => none
      | .ok x => some x) := by
  cases p with
  | nil => rfl
  | cons a rest =>
    simp only [stripPadding, Spec.Frame.unpad, List.length_cons, if_true]
    by_cases h : a > rest.length
    · rw [if_pos (by omega), if_pos h]
    · rw [if_neg (by omega), if_neg h]
      simp only [Option.some.injEq, Prod.mk.injEq, true_and]
      congr 1
      omega

theorem loadData_sound (h : Head) (p : Bytes) (f : Model.Frame.Frame) (hl : loadData h p = .ok f) :
    ∃ f', toSpec f = some f' ∧ Spec.Frame.ofParts 0 h.flag h.sid p = .ok f' := by
  unfold loadData at hl
  simp only [and9_and8, and9_and1] at hl
  simp only [Spec.Frame.ofParts, flag8, flag1]
  by_cases hs : h.sid = 0
  · simp [hs] at hl
  · rw [if_neg hs] at hl ⊢
    by_cases h8 : h.flag &&& 8 = 8
    · rw [if_pos h8] at hl
      have := stripPadding_eq_unpad p
      simp only [h8, decide_true]
      cases hsp : stripPadding p with
      | error e => rw [hsp] at hl; cases hl
      | ok x =>
        obtain ⟨pl, d⟩ := x
        rw [hsp] at hl this
        simp only at hl this
        cases hu : Spec.Frame.unpad true p with
        | error e => rw [hu] at this; cases this
        | ok y =>
          rw [hu] at this
          simp only [Option.some.injEq] at this
          subst this
          simp only [Except.ok.injEq] at hl
          subst hl
          exact ⟨_, rfl, rfl⟩
    · rw [if_neg h8] at hl
      simp only [Except.ok.injEq] at hl
      subst hl
      simp only [h8, decide_false, Spec.Frame.unpad]
      exact ⟨_, rfl, rfl⟩

theorem loadData_complete (h : Head) (p : Bytes) (f' : Spec.Frame.Frame)
    (hs : Spec.Frame.ofParts 0 h.flag h.sid p = .ok f') :
    ∃ f, loadData h p = .ok f ∧ toSpec f = some f' := by
  unfold loadData
  simp only [and9_and8, and9_and1]
  simp only [Spec.Frame.ofParts, flag8, flag1] at hs
  by_cases hs0 : h.sid = 0
  · simp [hs0] at hs
  · rw [if_neg hs0] at hs ⊢
    by_cases h8 : h.flag &&& 8 = 8
    · rw [if_pos h8]
      have := stripPadding_eq_unpad p
      simp only [h8, decide_true] at hs
      cases hu : Spec.Frame.unpad true p with
      | error e => rw [hu] at hs; cases hs
      | ok y =>
        rw [hu] at hs this
        cases hsp : stripPadding p with
        | error e => rw [hsp] at this; cases this
        | ok x =>
          obtain ⟨pl, d⟩ := x
          rw [hsp] at this
          simp only [Option.some.injEq] at this
          subst this
          simp only [Except.ok.injEq] at hs
          subst hs
          exact ⟨_, rfl, rfl⟩
    · rw [if_neg h8]
      simp only [h8, decide_false, Spec.Frame.unpad, Bool.false_eq_true, if_false, Except.ok.injEq] at hs
      subst hs
      exact ⟨_, rfl, rfl⟩

theorem loadData_error (h : Head) (p : Bytes) (v : Spec.Frame.Violation)
    (hs : Spec.Frame.ofParts 0 h.flag h.sid p = .error v) : ∃ e, loadData h p = .error e :=
  error_of_sound (fun f hf => by obtain ⟨f', _, h'⟩ := loadData_sound h p f hf; exact ⟨f', h'⟩) v hs

-- ===================================================================== PING (exact agreement)

theorem loadPing_sound (h : Head) (p : Bytes) (f : Model.Frame.Frame) (hl : loadPing h p = .ok f) :
    ∃ f', toSpec f = some f' ∧ Spec.Frame.ofParts 6 h.flag h.sid p = .ok f' := by
  unfold loadPing at hl
  simp only [Spec.Frame.ofParts]
  by_cases hs : h.sid ≠ 0
  · simp [hs] at hl
  · rw [if_neg hs] at hl ⊢
    by_cases hp : p.length ≠ 8
    · simp [hp] at hl
    · rw [if_neg hp] at hl ⊢
      simp only [Except.ok.injEq] at hl
      subst hl
      refine ⟨_, rfl, ?_⟩
      congr 2
      rw [Bool.eq_iff_iff]
      simp only [Spec.Frame.flag, beq_iff_eq, decide_eq_true_eq]
      simp

theorem loadPing_complete (h : Head) (p : Bytes) (f' : Spec.Frame.Frame)
    (hs : Spec.Frame.ofParts 6 h.flag h.sid p = .ok f') :
    ∃ f, loadPing h p = .ok f ∧ toSpec f = some f' := by
  unfold loadPing
  simp only [Spec.Frame.ofParts] at hs
  by_cases hs0 : h.sid ≠ 0
  · simp [hs0] at hs
  · rw [if_neg hs0] at hs ⊢
    by_cases hp : p.length ≠ 8
    · simp [hp] at hs
    · rw [if_neg hp] at hs ⊢
      simp only [Except.ok.injEq] at hs
      subst hs
      refine ⟨_, rfl, ?_⟩
      simp only [toSpec, Option.some.injEq]
      congr 1
      rw [Bool.eq_iff_iff]
      simp only [Spec.Frame.flag, beq_iff_eq, decide_eq_true_eq]
      simp

theorem loadPing_error (h : Head) (p : Bytes) (v : Spec.Frame.Violation)
    (hs : Spec.Frame.ofParts 6 h.flag h.sid p = .error v) : ∃ e, loadPing h p = .error e :=
  error_of_sound (fun f hf => by obtain ⟨f', _, h'⟩ := loadPing_sound h p f hf; exact ⟨f', h'⟩) v hs

-- ===================================================================== WINDOW_UPDATE (exact agreement)

theorem u31_eq_rd32_mod (p : Bytes) : Spec.Frame.u31 p = rd32 p % 2147483648 := by
  simp [Spec.Frame.u31, u32_eq_rd32]

theorem loadWindowUpdate_sound (h : Head) (p : Bytes) (f : Model.Frame.Frame) (hl : loadWindowUpdate h p = .ok f) :
    ∃ f', toSpec f = some f' ∧ Spec.Frame.ofParts 8 h.flag h.sid p = .ok f' := by
  unfold loadWindowUpdate at hl
  simp only [Spec.Frame.ofParts, u31_eq_rd32_mod]
  by_cases hp : p.length ≠ 4
  · simp [hp] at hl
  · rw [if_neg hp] at hl ⊢
    simp only at hl
    by_cases hz : rd32 p % 2147483648 = 0
    · simp [hz] at hl
    · rw [if_neg hz] at hl ⊢
      simp only [Except.ok.injEq] at hl
      subst hl
      exact ⟨_, rfl, rfl⟩

theorem loadWindowUpdate_complete (h : Head) (p : Bytes) (f' : Spec.Frame.Frame)
    (hs : Spec.Frame.ofParts 8 h.flag h.sid p = .ok f') :
    ∃ f, loadWindowUpdate h p = .ok f ∧ toSpec f = some f' := by
  unfold loadWindowUpdate
  simp only [Spec.Frame.ofParts, u31_eq_rd32_mod] at hs
  by_cases hp : p.length ≠ 4
  · simp [hp] at hs
  · rw [if_neg hp] at hs ⊢
    simp only
    by_cases hz : rd32 p % 2147483648 = 0
    · simp [hz] at hs
    · rw [if_neg hz] at hs ⊢
      simp only [Except.ok.injEq] at hs
      subst hs
      exact ⟨_, rfl, rfl⟩

theorem loadWindowUpdate_error (h : Head) (p : Bytes) (v : Spec.Frame.Violation)
    (hs : Spec.Frame.ofParts 8 h.flag h.sid p = .error v) : ∃ e, loadWindowUpdate h p = .error e :=
  error_of_sound (fun f hf => by obtain ⟨f', _, h'⟩ := loadWindowUpdate_sound h p f hf; exact ⟨f', h'⟩) v hs

-- ===================================================================== RST_STREAM (exception: stream 0)

/-- sound on every stream but 0 -/
theorem loadReset_sound (h : Head) (p : Bytes) (f : Model.Frame.Frame) (hs0 : h.sid ≠ 0)
    (hl : loadReset h p = .ok f) :
    ∃ f', toSpec f = some f' ∧ Spec.Frame.ofParts 3 h.flag h.sid p = .ok f' := by
  unfold loadReset at hl
  simp only [Spec.Frame.ofParts, u32_eq_rd32, if_neg hs0]
  by_cases hp : p.length ≠ 4
  · simp [hp] at hl
  · rw [if_neg hp] at hl ⊢
    simp only [Except.ok.injEq] at hl
    subst hl
    exact ⟨_, rfl, rfl⟩

theorem loadReset_complete (h : Head) (p : Bytes) (f' : Spec.Frame.Frame)
    (hs : Spec.Frame.ofParts 3 h.flag h.sid p = .ok f') :
    ∃ f, loadReset h p = .ok f ∧ toSpec f = some f' := by
  unfold loadReset
  simp only [Spec.Frame.ofParts, u32_eq_rd32] at hs
  by_cases hs0 : h.sid = 0
  · simp [hs0] at hs
  · rw [if_neg hs0] at hs
    by_cases hp : p.length ≠ 4
    · simp [hp] at hs
    · rw [if_neg hp] at hs ⊢
      simp only [Except.ok.injEq] at hs
      subst hs
      exact ⟨_, rfl, rfl⟩

theorem loadReset_error (h : Head) (p : Bytes) (v : Spec.Frame.Violation) (hs0 : h.sid ≠ 0)
    (hs : Spec.Frame.ofParts 3 h.flag h.sid p = .error v) : ∃ e, loadReset h p = .error e :=
  error_of_sound (fun f hf => by obtain ⟨f', _, h'⟩ := loadReset_sound h p f hs0 hf; exact ⟨f', h'⟩) v hs

/-- THE EXCEPTION, exactly: `Reset::load` accepts RST_STREAM on stream 0 (any flags, any 4 octets),
    which §6.4 makes a connection error PROTOCOL_ERROR.  (h2 rejects it later, in
    `Streams::recv_reset`; at the frame layer the frame is "valid".) -/
theorem loadReset_stream_zero (flags : Nat) (p : Bytes) (hp : p.length = 4) :
    loadReset ⟨3, flags, 0⟩ p = .ok (.reset 0 (rd32 p)) ∧
    Spec.Frame.ofParts 3 flags 0 p = .error .protocol := by
  simp [loadReset, Spec.Frame.ofParts, hp]

/-- witness: `00 00 04 03 00 00 00 00 00 | 00 00 00 08` -/
example : loadReset ⟨3, 0, 0⟩ [0, 0, 0, 8] = .ok (.reset 0 8) ∧
    Spec.Frame.ofParts 3 0 0 [0, 0, 0, 8] = .error .protocol := ⟨rfl, rfl⟩

-- ===================================================================== GOAWAY (exception: stream ≠ 0)

/-- sound when the frame is on stream 0 (which `GoAway::load` never checks) -/
theorem loadGoAway_sound (h : Head) (p : Bytes) (f : Model.Frame.Frame) (hs0 : h.sid = 0)
    (hl : loadGoAway p = .ok f) :
    ∃ f', toSpec f = some f' ∧ Spec.Frame.ofParts 7 h.flag h.sid p = .ok f' := by
  unfold loadGoAway at hl
  simp only [Spec.Frame.ofParts, u32_eq_rd32, u31_eq, hs0]
  by_cases hp : p.length < 8
  · simp [hp] at hl
  · rw [if_neg hp] at hl
    simp only [Except.ok.injEq] at hl
    subst hl
    simp [hp, toSpec]

theorem loadGoAway_complete (h : Head) (p : Bytes) (f' : Spec.Frame.Frame)
    (hs : Spec.Frame.ofParts 7 h.flag h.sid p = .ok f') :
    ∃ f, loadGoAway p = .ok f ∧ toSpec f = some f' := by
  unfold loadGoAway
  simp only [Spec.Frame.ofParts, u32_eq_rd32, u31_eq] at hs
  by_cases hs0 : h.sid ≠ 0
  · simp [hs0] at hs
  · rw [if_neg hs0] at hs
    by_cases hp : p.length < 8
    · simp [hp] at hs
    · rw [if_neg hp] at hs ⊢
      simp only [Except.ok.injEq] at hs
      subst hs
      exact ⟨_, rfl, rfl⟩

theorem loadGoAway_error (h : Head) (p : Bytes) (v : Spec.Frame.Violation) (hs0 : h.sid = 0)
    (hs : Spec.Frame.ofParts 7 h.flag h.sid p = .error v) : ∃ e, loadGoAway p = .error e :=
  error_of_sound (fun f hf => by obtain ⟨f', _, h'⟩ := loadGoAway_sound h p f hs0 hf; exact ⟨f', h'⟩) v hs

/-- THE EXCEPTION, exactly: a GOAWAY frame on any stream other than 0 with at least 8 payload octets
    is accepted by the loader (§6.8: MUST be treated as a connection error PROTOCOL_ERROR).  This was
    finding F11; the check now sits in `decode_frame`, in front of the loader (`decodeFrame_sound`
    needs no hypothesis about GOAWAY). -/
theorem loadGoAway_nonzero_stream (flags sid : Nat) (p : Bytes) (hs : sid ≠ 0) (hp : 8 ≤ p.length) :
    loadGoAway p = .ok (.goAway (parseStreamId p).1 (rd32 (p.drop 4)) (p.drop 8)) ∧
    Spec.Frame.ofParts 7 flags sid p = .error .protocol := by
  have : ¬ p.length < 8 := by omega
  simp [loadGoAway, Spec.Frame.ofParts, hs, this]

/-- witness: `00 00 08 07 00 00 00 00 01 | 00 00 00 00 00 00 00 00` (GOAWAY on stream 1) -/
example : loadGoAway [0, 0, 0, 0, 0, 0, 0, 0] = .ok (.goAway 0 0 []) ∧
    Spec.Frame.ofParts 7 0 1 [0, 0, 0, 0, 0, 0, 0, 0] = .error .protocol := ⟨rfl, rfl⟩

-- ===================================================================== PRIORITY

theorem prioOf_eq (p : Bytes) :
    Spec.Frame.prioOf p = ⟨(parseStreamId p).2, (parseStreamId p).1, p.getD 4 0⟩ := by
  simp [Spec.Frame.prioOf, parseStreamId, u32_eq_rd32, Spec.Frame.u31]

/-- sound on every stream but 0 (`decode_frame` checks stream 0 itself, before `Priority::load`) -/
theorem loadPriority_sound (h : Head) (p : Bytes) (f : Model.Frame.Frame) (hs0 : h.sid ≠ 0)
    (hl : loadPriority h p = .ok f) :
    ∃ f', toSpec f = some f' ∧ Spec.Frame.ofParts 2 h.flag h.sid p = .ok f' := by
  unfold loadPriority at hl
  simp only [Spec.Frame.ofParts, if_neg hs0, prioOf_eq]
  by_cases hp : p.length ≠ 5
  · simp [hp] at hl
  · rw [if_neg hp] at hl ⊢
    simp only at hl
    by_cases hd : (parseStreamId p).1 = h.sid
    · simp [hd] at hl
    · rw [if_neg hd] at hl
      simp only [Except.ok.injEq] at hl
      subst hl
      exact ⟨_, rfl, rfl⟩

/-- complete except for a self-dependency, which `Priority::load` rejects (`InvalidDependencyId`, a
    stream error in `decode_frame`) and RFC 9113 §6.3 no longer mentions (RFC 7540 §5.3.1 did) -/
theorem loadPriority_complete (h : Head) (p : Bytes) (f' : Spec.Frame.Frame)
    (hd : (parseStreamId p).1 ≠ h.sid)
    (hs : Spec.Frame.ofParts 2 h.flag h.sid p = .ok f') :
    ∃ f, loadPriority h p = .ok f ∧ toSpec f = some f' := by
  unfold loadPriority
  simp only [Spec.Frame.ofParts, prioOf_eq] at hs
  by_cases hs0 : h.sid = 0
  · simp [hs0] at hs
  · rw [if_neg hs0] at hs
    by_cases hp : p.length ≠ 5
    · simp [hp] at hs
    · rw [if_neg hp] at hs ⊢
      simp only [Except.ok.injEq] at hs
      subst hs
      simp only [if_neg hd]
      exact ⟨_, rfl, rfl⟩

theorem loadPriority_error (h : Head) (p : Bytes) (v : Spec.Frame.Violation) (hs0 : h.sid ≠ 0)
    (hs : Spec.Frame.ofParts 2 h.flag h.sid p = .error v) : ∃ e, loadPriority h p = .error e :=
  error_of_sound (fun f hf => by obtain ⟨f', _, h'⟩ := loadPriority_sound h p f hs0 hf; exact ⟨f', h'⟩) v hs

/-- exception 1 (loader only; `decode_frame` closes it): PRIORITY on stream 0 passes `Priority::load` -/
example : loadPriority ⟨2, 0, 0⟩ [0, 0, 0, 1, 16] = .ok (.priority 0 1 16 false) ∧
    Spec.Frame.ofParts 2 0 0 [0, 0, 0, 1, 16] = .error .protocol := ⟨rfl, rfl⟩

/-- exception 2 (stricter than RFC 9113): self-dependency -/
theorem loadPriority_self_dependency (flags sid : Nat) (p : Bytes) (hp : p.length = 5)
    (hs0 : sid ≠ 0) (hd : (parseStreamId p).1 = sid) :
    loadPriority ⟨2, flags, sid⟩ p = .error .invalidDependencyId ∧
    ∃ f', Spec.Frame.ofParts 2 flags sid p = .ok f' := by
  simp [loadPriority, Spec.Frame.ofParts, hp, hs0, hd]

example : loadPriority ⟨2, 0, 3⟩ [0, 0, 0, 3, 16] = .error .invalidDependencyId ∧
    Spec.Frame.ofParts 2 0 3 [0, 0, 0, 3, 16] = .ok (.priority 3 ⟨false, 3, 16⟩) := ⟨rfl, rfl⟩

-- ===================================================================== SETTINGS

/-- what `Settings::load` keeps of a parameter list: for each defined identifier, in `for_each`
    order, the LAST occurrence (§6.5.3: "processed in the order in which they appear");
    unknown identifiers are dropped (§6.5.2: MUST ignore) -/
def lastWins (ps : List (Nat × Nat)) : List (Nat × Nat) :=
  [1, 2, 3, 4, 5, 6, 8].filterMap fun id => ps.reverse.find? (·.1 = id)

/-- the loop of `Settings::load` over an already split parameter list -/
def applyAll (acc : List (Nat × Nat)) : List (Nat × Nat) → Option (List (Nat × Nat))
  | [] => some acc
  | (id, v) :: ps =>
    match applySetting acc id v with
    | none => none
    | some a => applyAll a ps

theorem settingsLoop_eq (fuel : Nat) : ∀ (p : Bytes) (acc : List (Nat × Nat)), p.length / 6 < fuel →
    settingsLoop fuel p acc =
      match applyAll acc (Spec.Frame.params (p.length / 6) p) with
      | none => .error .invalidSettingValue
      | some a => .ok a := by
  induction fuel with
  | zero => intros; omega
  | succ n ih =>
    intro p acc hf
    simp only [settingsLoop]
    by_cases hp : p.length < 6
    · have : p.length / 6 = 0 := by omega
      rw [if_pos hp, this]
      rfl
    · have hdiv : p.length / 6 = (p.drop 6).length / 6 + 1 := by simp only [List.length_drop]; omega
      rw [if_neg hp, hdiv]
      simp only [Spec.Frame.params, if_neg hp, applyAll, u16_eq_rd16, u32_eq_rd32]
      cases happ : applySetting acc (rd16 p) (rd32 (p.drop 2)) with
      | none => rfl
      | some a =>
        simp only
        exact ih (p.drop 6) a (by omega)

theorem paramViolation_eq (id v : Nat) : Spec.Frame.paramViolation (id, v) =
    if id = 2 then (if v > 1 then some .protocol else none)
    else if id = 4 then (if v > 2 ^ 31 - 1 then some .flowControl else none)
    else if id = 5 then (if v < 2 ^ 14 ∨ v > 2 ^ 24 - 1 then some .protocol else none)
    else if id = 8 then (if v > 1 then some .protocol else none)
    else none := by
  unfold Spec.Frame.paramViolation
  split <;> simp_all

/-- `Settings::load` rejects a parameter exactly when §6.5.2 (+ RFC 8441 §3) does -/
theorem applySetting_none_iff (acc : List (Nat × Nat)) (id v : Nat) :
    applySetting acc id v = none ↔ Spec.Frame.paramViolation (id, v) ≠ none := by
  rw [paramViolation_eq]
  unfold applySetting
  simp only [MAX_INITIAL_WINDOW_SIZE_eq, DEFAULT_MAX_FRAME_SIZE_eq, MAX_MAX_FRAME_SIZE_eq]
  by_cases h2 : id = 2
  · subst h2; simp
  by_cases h4 : id = 4
  · subst h4; simp
  by_cases h5 : id = 5
  · subst h5; simp
  by_cases h8 : id = 8
  · subst h8; simp
  simp [h2, h4, h5, h8]
  split <;> simp

theorem applyAll_none_iff (ps : List (Nat × Nat)) : ∀ acc,
    applyAll acc ps = none ↔ ps.findSome? Spec.Frame.paramViolation ≠ none := by
  induction ps with
  | nil => intro acc; simp [applyAll]
  | cons x xs ih =>
    intro acc
    obtain ⟨id, v⟩ := x
    simp only [applyAll, List.findSome?_cons]
    cases happ : applySetting acc id v with
    | none =>
      have := (applySetting_none_iff acc id v).1 happ
      cases hv : Spec.Frame.paramViolation (id, v) with
      | none => exact absurd hv this
      | some w => simp
    | some a =>
      have : Spec.Frame.paramViolation (id, v) = none := by
        cases hv : Spec.Frame.paramViolation (id, v) with
        | none => rfl
        | some w =>
          have := (applySetting_none_iff acc id v).2 (by rw [hv]; simp)
          rw [happ] at this; cases this
      rw [this]
      exact ih a

/-- one parameter: the lookup of a defined identifier afterwards -/
theorem applySetting_find (acc a : List (Nat × Nat)) (id v id' : Nat) (hk : id' ∈ [1, 2, 3, 4, 5, 6, 8])
    (h : applySetting acc id v = some a) :
    a.find? (·.1 = id') = if id' = id then some (id, v) else acc.find? (·.1 = id') := by
  have hset : (acc.filter (·.1 ≠ id) ++ [(id, v)]).find? (·.1 = id')
      = if id' = id then some (id, v) else acc.find? (·.1 = id') := by
    rw [List.find?_append, List.find?_filter]
    by_cases hid : id' = id
    · subst hid
      have : acc.find? (fun a => decide (decide (a.1 ≠ id') = true ∧ decide (a.1 = id') = true)) = none := by
        rw [List.find?_eq_none]; intro x _; simp
      rw [this]; simp
    · have hfun : (fun a : Nat × Nat => decide (decide (a.1 ≠ id) = true ∧ decide (a.1 = id') = true))
          = (fun a : Nat × Nat => decide (a.1 = id')) := by
        funext x
        by_cases hx : x.1 = id'
        · simp [hx, hid]
        · simp [hx]
      rw [hfun, if_neg hid]
      have : [(id, v)].find? (fun a : Nat × Nat => decide (a.1 = id')) = none := by
        simp [Ne.symm hid]
      rw [this, Option.or_none]
  unfold applySetting at h
  by_cases h1 : id = 1 ∨ id = 3 ∨ id = 6
  · rw [if_pos h1] at h; simp only [Option.some.injEq] at h; rw [← h]; exact hset
  rw [if_neg h1] at h
  by_cases h2 : id = 2 ∨ id = 8
  · rw [if_pos h2] at h
    split at h
    · simp only [Option.some.injEq] at h; rw [← h]; exact hset
    · cases h
  rw [if_neg h2] at h
  by_cases h4 : id = 4
  · rw [if_pos h4] at h
    split at h
    · cases h
    · simp only [Option.some.injEq] at h; rw [← h]; exact hset
  rw [if_neg h4] at h
  by_cases h5 : id = 5
  · rw [if_pos h5] at h
    split at h
    · simp only [Option.some.injEq] at h; rw [← h]; exact hset
    · cases h
  rw [if_neg h5] at h
  simp only [Option.some.injEq] at h
  subst h
  have : id' ≠ id := by
    simp only [List.mem_cons, List.not_mem_nil, or_false] at hk
    omega
  rw [if_neg this]

theorem applyAll_find (ps : List (Nat × Nat)) : ∀ (acc a : List (Nat × Nat)) (id' : Nat),
    id' ∈ [1, 2, 3, 4, 5, 6, 8] → applyAll acc ps = some a →
    a.find? (·.1 = id') = (ps.reverse.find? (·.1 = id')).or (acc.find? (·.1 = id')) := by
  induction ps with
  | nil => intro acc a id' _ h; simp only [applyAll, Option.some.injEq] at h; subst h; simp
  | cons x xs ih =>
    intro acc a id' hk h
    obtain ⟨id, v⟩ := x
    simp only [applyAll] at h
    cases happ : applySetting acc id v with
    | none => rw [happ] at h; cases h
    | some a1 =>
      rw [happ] at h
      simp only at h
      rw [ih a1 a id' hk h, applySetting_find acc a1 id v id' hk happ]
      rw [List.reverse_cons, List.find?_append, Option.or_assoc]
      congr 1
      by_cases hid : id' = id
      · subst hid; simp
      · simp [hid, Ne.symm hid]

theorem filterMap_congr' {α β : Type} (f g : α → Option β) (l : List α) (h : ∀ x ∈ l, f x = g x) :
    l.filterMap f = l.filterMap g := by
  induction l with
  | nil => rfl
  | cons x xs ih =>
    simp only [List.filterMap_cons, h x (List.mem_cons_self ..)]
    rw [ih (fun y hy => h y (List.mem_cons_of_mem _ hy))]

theorem settingsOrder_applyAll (ps a : List (Nat × Nat)) (h : applyAll [] ps = some a) :
    settingsOrder a = lastWins ps := by
  unfold settingsOrder lastWins
  apply filterMap_congr'
  intro id hid
  rw [applyAll_find ps [] a id hid h]
  simp

/-- `Settings::load` is sound: same ACK flag, and the values kept are `lastWins` of the RFC's list -/
theorem loadSettings_sound (h : Head) (p : Bytes) (f : Model.Frame.Frame) (hl : loadSettings h p = .ok f) :
    ∃ ack ps, Spec.Frame.ofParts 4 h.flag h.sid p = .ok (.settings ack ps) ∧
      f = .settings ack (lastWins ps) := by
  unfold loadSettings at hl
  simp only [Spec.Frame.ofParts, flag1]
  by_cases hs : h.sid ≠ 0
  · simp [hs] at hl
  · rw [if_neg hs] at hl ⊢
    by_cases hack : h.flag &&& 1 = 1
    · rw [if_pos hack] at hl
      simp only [hack, decide_true, if_true]
      cases p with
      | nil => simp at hl; subst hl; exact ⟨true, [], rfl, rfl⟩
      | cons a as => simp at hl
    · rw [if_neg hack] at hl
      simp only [hack, decide_false, Bool.false_eq_true, if_false]
      by_cases hm : p.length % 6 ≠ 0
      · simp [hm] at hl
      · rw [if_neg hm] at hl ⊢
        rw [settingsLoop_eq _ p [] (by omega)] at hl
        cases happ : applyAll [] (Spec.Frame.params (p.length / 6) p) with
        | none => rw [happ] at hl; cases hl
        | some a =>
          rw [happ] at hl
          simp only [Except.ok.injEq] at hl
          have hv : (Spec.Frame.params (p.length / 6) p).findSome? Spec.Frame.paramViolation = none := by
            cases hfs : (Spec.Frame.params (p.length / 6) p).findSome? Spec.Frame.paramViolation with
            | none => rfl
            | some w =>
              have := (applyAll_none_iff _ []).2 (by rw [hfs]; simp)
              rw [happ] at this; cases this
          simp only [hv]
          refine ⟨false, _, rfl, ?_⟩
          rw [← hl, settingsOrder_applyAll _ a happ]

/-- `Settings::load` is complete: it accepts every SETTINGS frame the RFC accepts -/
theorem loadSettings_complete (h : Head) (p : Bytes) (ack : Bool) (ps : List (Nat × Nat))
    (hs : Spec.Frame.ofParts 4 h.flag h.sid p = .ok (.settings ack ps)) :
    loadSettings h p = .ok (.settings ack (lastWins ps)) := by
  cases hl : loadSettings h p with
  | ok f =>
    obtain ⟨ack', ps', h1, h2⟩ := loadSettings_sound h p f hl
    rw [hs] at h1
    simp only [Except.ok.injEq, Spec.Frame.Frame.settings.injEq] at h1
    rw [h2, ← h1.1, ← h1.2]
  | error e =>
    exfalso
    unfold loadSettings at hl
    simp only [Spec.Frame.ofParts, flag1] at hs
    by_cases hs0 : h.sid ≠ 0
    · simp [hs0] at hs
    · rw [if_neg hs0] at hl hs
      by_cases hack : h.flag &&& 1 = 1
      · rw [if_pos hack] at hl
        simp only [hack, decide_true, if_true] at hs
        cases p with
        | nil => simp at hl
        | cons a as => simp at hs
      · rw [if_neg hack] at hl
        simp only [hack, decide_false, Bool.false_eq_true, if_false] at hs
        by_cases hm : p.length % 6 ≠ 0
        · simp [hm] at hs
        · rw [if_neg hm] at hl hs
          rw [settingsLoop_eq _ p [] (by omega)] at hl
          cases happ : applyAll [] (Spec.Frame.params (p.length / 6) p) with
          | some a => rw [happ] at hl; cases hl
          | none =>
            have := (applyAll_none_iff _ []).1 happ
            cases hfs : (Spec.Frame.params (p.length / 6) p).findSome? Spec.Frame.paramViolation with
            | none => exact this hfs
            | some w => rw [hfs] at hs; cases hs

theorem loadSettings_error (h : Head) (p : Bytes) (v : Spec.Frame.Violation)
    (hs : Spec.Frame.ofParts 4 h.flag h.sid p = .error v) : ∃ e, loadSettings h p = .error e :=
  error_of_sound (fun f hf => by obtain ⟨a, ps, h', _⟩ := loadSettings_sound h p f hf; exact ⟨_, h'⟩) v hs

/-- not a disagreement but worth seeing: duplicates and unknown identifiers.
    `00 01 00 00 10 00 | 00 99 00 00 00 07 | 00 01 00 00 20 00` loads as HEADER_TABLE_SIZE = 8192 only -/
example : loadSettings ⟨4, 0, 0⟩ [0, 1, 0, 0, 16, 0, 0, 153, 0, 0, 0, 7, 0, 1, 0, 0, 32, 0] = .ok (.settings false [(1, 8192)]) ∧
    Spec.Frame.ofParts 4 0 0 [0, 1, 0, 0, 16, 0, 0, 153, 0, 0, 0, 7, 0, 1, 0, 0, 32, 0]
      = .ok (.settings false [(1, 4096), (153, 7), (1, 8192)]) := ⟨rfl, rfl⟩

end H2V.Lemmas.Codec
