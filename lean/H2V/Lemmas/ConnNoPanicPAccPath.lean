import H2V.Lemmas.ConnNoPanicPAccSub
/-
  C08 (no panic) — the server accept path, part 7: the functions that belong to the accept path keep `J`:
  `Recv::recv_reset` (counts a reset queued stream), `Recv::recv_headers` (queues a stream whose
  `pending_recv` is exactly the request head), the handle count (`ref_inc`, the decrement of
  `drop_stream_ref`).
-/
namespace H2V.Lemmas.ConnNoPanicP
open H2V H2V.Model H2V.Model.Conn H2V.Lemmas.ConnCountsP
attribute [local irreducible] wrapSubU32 wrapSubUsize

theorem getQ_modStreamW (s : Streams) (k : Nat) (f : Stream → Stream × List String) (q : QName) :
    (s.modStreamW k f).getQ q = s.getQ q := by
  unfold Streams.modStreamW; split
  · rfl
  · exact panic_getQ _ _ _

-- ===================================================================== `Recv::recv_reset`

theorem recvReset_not_recvHeaders (x : State) (sid : Nat) (r : Reason) (q : Bool) : (x.recvReset sid r q).isRecvHeaders = false := by
  have := State.recvReset_isClosed x sid r q
  generalize x.recvReset sid r q = y at this
  rcases y with ⟨_ | _ | _ | ⟨_ | _, _ | _⟩ | ⟨_ | _⟩ | ⟨_ | _⟩ | _⟩ <;> simp [State.isClosed] at this <;> rfl

/-- the state change of `recv_reset`, when a queued stream is paid for in advance -/
theorem J.recvResetState {s : Streams} (hj : J s) {k : Nat} (hk : Live s k) (r : Reason)
    (hslack : k ∈ s.recv.pendingAccept → rrCount s + 1 ≤ s.counts.numRemoteResetStreams) :
    J (s.modStream k fun st => { st with state := st.state.recvReset st.id r st.isPendingSend }) := by
  have hst := stream_modStream_live hk (fun st => { st with state := st.state.recvReset st.id r st.isPendingSend }) (fun _ => rfl)
  have hoth : ∀ j, j ≠ k → (s.modStream k fun st => { st with state := st.state.recvReset st.id r st.isPendingSend }).stream j = s.stream j :=
    fun j hjk => by apply stream_modStream_ne _ _ _ ?_ hjk; intro _; rfl
  have hq : (s.modStream k fun st => { st with state := st.state.recvReset st.id r st.isPendingSend }).recv.pendingAccept =
      s.recv.pendingAccept := by
    show Streams.getQ _ .pendingAccept = Streams.getQ _ .pendingAccept
    rw [getQ_modStream]
  refine hj.upd (SameKeys.modStream _ _ _) hq (by rw [modStream_counts]) hoth (by rw [hst]) ?_ ?_ ?_
  · intro _ _ h
    rw [hst] at h
    rw [show (({ s.stream k with state := (s.stream k).state.recvReset (s.stream k).id r (s.stream k).isPendingSend } : Stream)).state =
      (s.stream k).state.recvReset (s.stream k).id r (s.stream k).isPendingSend from rfl, recvReset_not_recvHeaders] at h
    cases h
  · intro hkq; rw [hst]; exact hj.qd k hkq
  · rw [modStream_counts]
    by_cases hkq : k ∈ s.recv.pendingAccept
    · refine Nat.le_trans ?_ (hslack hkq)
      unfold rrCount; rw [hq]
      exact countP_upd hj.acc.nodup k (fun j hjk => by rw [hoth j hjk])
    · exact Nat.le_trans (rrCount_upd_le hq hoth (fun h => absurd h hkq)) hj.rr

theorem rrCount_of_store {s s' : Streams} (h1 : s'.store = s.store) (h2 : s'.recv.pendingAccept = s.recv.pendingAccept) :
    rrCount s' = rrCount s := by
  unfold rrCount Streams.stream; rw [h1, h2]

/-- **`Recv::recv_reset` keeps `J`**: `num_remote_reset_streams` is incremented exactly when the stream carries the
    `is_pending_accept` link -/
theorem recvRecvReset_j {s : Streams} (hj : J s) {k : Nat} (hk : Live s k) (r : Reason) : J (s.recvRecvReset k r).1 := by
  unfold Streams.recvRecvReset
  dsimp only
  have key : ∀ s0 : Streams, J s0 → Live s0 k → (k ∈ s0.recv.pendingAccept → rrCount s0 + 1 ≤ s0.counts.numRemoteResetStreams) →
      J ((((s0.modStream k fun st => { st with state := st.state.recvReset st.id r st.isPendingSend }).modStreamW k Stream.notifySend).modStreamW
        k Stream.notifyRecv).modStreamW k Stream.notifyPush) := by
    intro s0 h0 hk0 hsl
    refine J.al0 ?_ (h0.recvResetState hk0 r hsl)
    al_auto
  by_cases hfl : (s.stream k).isPendingAccept = true
  · simp only [hfl, if_true]
    by_cases hc : s.counts.canIncNumRemoteResetStreams = true
    · simp only [hc, if_true]
      have hal : AL [] s (s.modCountsA "can_inc_num_remote_reset_streams" Counts.incNumRemoteResetStreams) := by al_auto
      refine key _ (hj.al0 hal) (hal.live.mpr hk) (fun _ => ?_)
      have e0 : s.modCountsA "can_inc_num_remote_reset_streams" Counts.incNumRemoteResetStreams =
          { s with counts := { s.counts with numRemoteResetStreams := s.counts.numRemoteResetStreams + 1 } } := by
        unfold Streams.modCountsA Counts.incNumRemoteResetStreams; rw [if_pos hc]
      rw [e0]
      show rrCount s + 1 ≤ s.counts.numRemoteResetStreams + 1
      exact Nat.succ_le_succ hj.rr
    · simp only [hc, Bool.false_eq_true, if_false]
      exact hj
  · simp only [hfl, Bool.false_eq_true, if_false]
    refine key s hj hk (fun hkq => ?_)
    exact absurd (flagged_iff.mp (hj.acc.fl k hkq)).2 hfl

-- ===================================================================== the handle count

/-- `ref_inc` on a stream that is not queued and past `is_recv_headers` -/
theorem refInc_j {s : Streams} (hj : J s) {k : Nat} (hk : Live s k) (hnq : k ∉ s.recv.pendingAccept)
    (hrh : s.counts.isServer = true → (s.stream k).state.isRecvHeaders = false) : J (s.refInc k) := by
  unfold Streams.refInc
  refine hj.modStream hk _ (fun _ => rfl) rfl (fun hs h => ?_) (fun h => absurd h hnq) (fun _ h => h)
  rw [show (({ s.stream k with refCount := (s.stream k).refCount + 1 } : Stream)).state = (s.stream k).state from rfl, hrh hs] at h
  cases h

/-- a held handle: the stream is not queued and past `is_recv_headers` -/
theorem J.of_ref {s : Streams} (hj : J s) {k : Nat} (hk : Live s k) (hr : (s.stream k).refCount > 0) :
    k ∉ s.recv.pendingAccept ∧ (s.counts.isServer = true → (s.stream k).state.isRecvHeaders = false) := by
  refine ⟨hj.not_mem_of_ref hr, fun hs => ?_⟩
  cases hh : (s.stream k).state.isRecvHeaders with
  | false => rfl
  | true => have := (hj.si hs k hk hh).1; omega

theorem refDec_j {s : Streams} (hj : J s) {k : Nat} (hk : Live s k) (hnq : k ∉ s.recv.pendingAccept) :
    J (s.modStream k fun st => { st with refCount := st.refCount - 1 }) := by
  refine hj.modStream hk _ (fun _ => rfl) rfl (fun hs h => ?_) (fun h => absurd h hnq) (fun _ h => h)
  obtain ⟨h1, h2⟩ := hj.si hs k hk h
  exact ⟨by show (s.stream k).refCount - 1 = 0; omega, h2⟩

-- ===================================================================== `Recv::recv_headers`

theorem recvOpen_ok_acc {x y : State} {eos inf b : Bool} (h : x.recvOpen eos inf = (y, .ok b)) :
    x.isRecvHeaders = true ∧ y.isRemoteReset = false ∧ (inf = false → y.isRecvHeaders = false) := by
  rcases x with ⟨_ | _ | _ | ⟨_ | _, _ | _⟩ | ⟨_ | _⟩ | ⟨_ | _⟩ | _⟩ <;> cases eos <;> cases inf <;> simp [State.recvOpen] at h <;>
    obtain ⟨h, _⟩ := h <;> subst h <;> simp [State.isRecvHeaders, State.isRemoteReset]

/-- the state change of `recv_headers` -/
theorem J.setRecvOpen {s : Streams} (hj : J s) {k : Nat} (hk : Live s k) {st' : State} {eos inf b : Bool}
    (h : (s.stream k).state.recvOpen eos inf = (st', .ok b)) : J (s.modStream k fun st => { st with state := st' }) := by
  obtain ⟨h1, h2, _⟩ := recvOpen_ok_acc h
  refine hj.modStream hk _ (fun _ => rfl) rfl (fun hs _ => hj.si hs k hk h1) (fun hkq => hj.qd k hkq) (fun _ hr => ?_)
  rw [show (({ s.stream k with state := st' } : Stream)).state = st' from rfl, h2] at hr; cases hr

/-- an event is appended once the state is past `is_recv_headers` -/
theorem J.pushEvent {s : Streams} (hj : J s) {k : Nat} (hrh : (s.stream k).state.isRecvHeaders = false) (e : REvent) :
    J (s.modStream k fun st => { st with pendingRecv := st.pendingRecv ++ [e] }) :=
  hj.al0 (modStream_al _ _ _ (ARs.push _ _ hrh))

theorem J.modStream_client {s : Streams} (hj : J s) (hc : s.counts.isServer = false) (k : Nat) (f : Stream → Stream) :
    J (s.modStream k f) :=
  .of_client (by rw [modStream_counts]; exact hc) (by
    show Streams.getQ _ .pendingAccept = []
    rw [getQ_modStream]; exact hj.cl hc)

/-- `pending_accept.push(stream)`: a new key needs no handle, the request head, and must not be reset -/
theorem J.qPushAcc {s : Streams} (hj : J s) {k : Nat} (hk : Live s k) (hsrv : s.counts.isServer = true)
    (hnew : (s.stream k).isPendingAccept = false →
      (s.stream k).refCount = 0 ∧ ReqHead (s.stream k) ∧ (s.stream k).state.isRemoteReset = false) :
    J (s.qPush .pendingAccept k).1 := by
  unfold Streams.qPush
  split
  · exact hj
  · next hfl =>
    have hfl' : (s.stream k).isPendingAccept = false := by
      cases hh : (s.stream k).isPendingAccept with
      | false => rfl
      | true => exact absurd hh hfl
    obtain ⟨hr, hq, hnr⟩ := hnew hfl'
    dsimp only
    have hnq : k ∉ s.recv.pendingAccept := fun hkq => by
      have := (flagged_iff.mp (hj.acc.fl k hkq)).2
      rw [show (s.stream k).isQueued .pendingAccept = (s.stream k).isPendingAccept from rfl, hfl'] at this; cases this
    generalize hs1 : (s.modStream k fun st => st.setQueued .pendingAccept true) = s1
    have hst : s1.stream k = (s.stream k).setQueued .pendingAccept true := by
      rw [← hs1]; exact stream_modStream_live hk _ (fun x => setQueued_key x _ _)
    have hoth : ∀ j, j ≠ k → s1.stream j = s.stream j := fun j hjk => by
      rw [← hs1]; exact stream_modStream_ne s k _ (fun x => setQueued_key x _ _) hjk
    have hkeys : SameKeys s s1 := by rw [← hs1]; exact SameKeys.modStream _ _ _
    have hc1 : s1.counts = s.counts := by rw [← hs1]; exact modStream_counts _ _ _
    show J (s1.setQ .pendingAccept (s.recv.pendingAccept ++ [k]))
    have hq2 : (s1.setQ .pendingAccept (s.recv.pendingAccept ++ [k])).recv.pendingAccept = s.recv.pendingAccept ++ [k] :=
      getQ_setQ s1 .pendingAccept _
    have hstr : ∀ j, (s1.setQ .pendingAccept (s.recv.pendingAccept ++ [k])).stream j = s1.stream j := fun j => setQ_stream _ _ _ _
    have hlive : ∀ j, Live (s1.setQ .pendingAccept (s.recv.pendingAccept ++ [k])) j ↔ Live s j :=
      fun j => live_setQ.trans hkeys.live
    refine ⟨⟨fun j hjq => ?_, ?_⟩, fun j hjq => ?_, ?_, fun hs j hl => ?_, fun hs => ?_⟩
    · rw [hq2] at hjq
      refine flagged_iff.mpr ⟨(hlive j).mpr ?_, ?_⟩
      · rcases List.mem_append.mp hjq with h | h
        · exact hj.acc.live h
        · rw [List.mem_singleton.mp h]; exact hk
      · rw [hstr]
        rcases List.mem_append.mp hjq with h | h
        · rw [hoth j (fun e => hnq (e ▸ h))]; exact (flagged_iff.mp (hj.acc.fl j h)).2
        · rw [List.mem_singleton.mp h, hst]; rfl
    · rw [hq2]
      refine List.nodup_append.mpr ⟨hj.acc.nodup, (by simp), ?_⟩
      intro a ha b hb hab
      rw [List.mem_singleton.mp hb] at hab; subst hab; exact hnq ha
    · rw [hq2] at hjq
      rw [hstr]
      rcases List.mem_append.mp hjq with h | h
      · rw [hoth j (fun e => hnq (e ▸ h))]; exact hj.qd j h
      · rw [List.mem_singleton.mp h, hst]; exact ⟨hr, hq⟩
    · rw [setQ_counts, hc1]
      refine Nat.le_trans ?_ hj.rr
      unfold rrCount
      rw [hq2, List.countP_append]
      have h1 : [k].countP (fun j => ((s1.setQ .pendingAccept (s.recv.pendingAccept ++ [k])).stream j).state.isRemoteReset) = 0 := by
        rw [List.countP_cons, List.countP_nil, hstr, hst]
        rw [show ((s.stream k).setQueued .pendingAccept true).state = (s.stream k).state from rfl, hnr]; rfl
      rw [h1, Nat.add_zero]
      exact countP_mono' (fun j hjq hf => by rw [hstr, hoth j (fun e => hnq (e ▸ hjq))] at hf; exact hf)
    · rw [setQ_counts, hc1] at hs
      rw [hstr]
      have hl' := (hlive j).mp hl
      by_cases hjk : j = k
      · subst hjk; rw [hst]; exact hj.si hs j hl'
      · rw [hoth j hjk]; exact hj.si hs j hl'
    · rw [setQ_counts, hc1, hsrv] at hs; cases hs

theorem accP_notifyRecv (x : Stream) : accP x.notifyRecv.1 = accP x := by
  unfold Stream.notifyRecv; split <;> rfl

theorem accP_notifyPush (x : Stream) : accP x.notifyPush.1 = accP x := by
  unfold Stream.notifyPush; split <;> rfl

theorem notifyPushIfRecvEnded_spr {α : Type} {P : Stream → α} (s : Streams) (k : Nat) (h : ∀ x, P x.notifyPush.1 = P x) :
    SPr P s (s.notifyPushIfRecvEnded k) := by
  unfold Streams.notifyPushIfRecvEnded; split
  · exact SPr.modStreamW _ _ _ (fun x => (notifyPush_inert x).key) h
  · exact .refl _ _

/-- the tail of the server branch of `recv_headers`: push the request head, notify, queue -/
theorem J.accept {s : Streams} (hj : J s) {k : Nat} (hk : Live s k) (hsrv : s.counts.isServer = true)
    (hrh : (s.stream k).state.isRecvHeaders = false) (hnr : (s.stream k).state.isRemoteReset = false)
    (hfresh : (s.stream k).isPendingAccept = false → (s.stream k).refCount = 0 ∧ (s.stream k).pendingRecv = [])
    (e : REvent) (he : ∃ m u f, e = .request m u f) :
    J (((((s.modStream k fun st => { st with pendingRecv := st.pendingRecv ++ [e] }).modStreamW k Stream.notifyRecv).notifyPushIfRecvEnded
      k).qPush .pendingAccept k).1) := by
  have h4 := hj.pushEvent hrh e
  generalize hs4 : (s.modStream k fun st => { st with pendingRecv := st.pendingRecv ++ [e] }) = s4 at h4
  have hl4 : Live s4 k := by rw [← hs4]; exact (SameKeys.modStream _ _ _).live.mpr hk
  have hst4 : s4.stream k = { s.stream k with pendingRecv := (s.stream k).pendingRecv ++ [e] } := by
    rw [← hs4]; exact stream_modStream_live hk _ (fun _ => rfl)
  have hc4 : s4.counts = s.counts := by rw [← hs4]; exact modStream_counts _ _ _
  have hal5 : AL [] s4 (s4.modStreamW k Stream.notifyRecv) := by al_auto
  have hst5 : accP ((s4.modStreamW k Stream.notifyRecv).stream k) = accP (s4.stream k) := by
    rw [stream_modStreamW_live hl4 _ (fun x => (notifyRecv_inert x).key)]; exact accP_notifyRecv _
  generalize hs5 : s4.modStreamW k Stream.notifyRecv = s5 at hal5 hst5
  have hal6 : AL [] s5 (s5.notifyPushIfRecvEnded k) := notifyPushIfRecvEnded_al _ _
  have hst6 : accP ((s5.notifyPushIfRecvEnded k).stream k) = accP (s4.stream k) :=
    (notifyPushIfRecvEnded_spr (P := accP) s5 k accP_notifyPush k).trans hst5
  have hal := hal5.trans hal6 (fun _ h => h)
  have h6 := h4.al0 hal
  have hl6 := hal.live.mpr hl4
  obtain ⟨e1, e2, e3, e4⟩ := accP_eq hst6
  refine h6.qPushAcc hl6 (by rw [hal.srv, hc4]; exact hsrv) (fun hfl => ?_)
  rw [e4, hst4] at hfl
  obtain ⟨hr0, hp0⟩ := hfresh hfl
  refine ⟨by rw [e1, hst4]; exact hr0, ?_, by rw [e2, hst4]; exact hnr⟩
  obtain ⟨m, u, f, rfl⟩ := he
  exact ⟨m, u, f, [], by rw [e3, hst4]; show (s.stream k).pendingRecv ++ _ = _; rw [hp0]; rfl⟩

theorem incNumRecvStreams_spr {α : Type} {P : Stream → α} (s : Streams) (k : Nat)
    (h : ∀ x b, P ({ x with isCounted := b } : Stream) = P x) : SPr P s (s.incNumRecvStreams k) := by
  unfold Streams.incNumRecvStreams
  dsimp only
  generalize hs1 : (if s.counts.canIncNumRecvStreams = true then s else s.panic _) = s1
  have h1 : s1.store = s.store := by rw [← hs1]; split; rfl; exact panic_store _ _
  generalize hs2 : (if (s1.stream k).isCounted = true then s1.panic _ else s1) = s2
  have h2 : s2.store = s1.store := by rw [← hs2]; split; exact panic_store _ _; rfl
  refine SPr.trans (b := s2.modCounts fun c => { c with numRecvStreams := c.numRecvStreams + 1 }) (.of_store (h2.trans h1)) ?_
  exact SPr.modStream _ _ _ (fun _ => rfl) (fun x => h x true)

theorem isInformational_of_none {h : HeadersIn} (hs : h.status = none) : h.isInformational = false := by
  unfold HeadersIn.isInformational; rw [hs]

/-- **`Recv::recv_headers` keeps `J`**: on a server the stream it queues has no handle and exactly the request head in
    `pending_recv` (its state was `is_recv_headers` before), and is not reset -/
theorem recvRecvHeaders_j {s : Streams} (hj : J s) {k : Nat} (hk : Live s k) (h : HeadersIn) : J (s.recvRecvHeaders k h).1 := by
  unfold Streams.recvRecvHeaders
  split
  · exact hj
  · next st' isInitial heq =>
    dsimp only
    obtain ⟨hx1, hx2, hx3⟩ := recvOpen_ok_acc heq
    have h1 := hj.setRecvOpen hk heq
    have hst1 := stream_modStream_live hk (fun st => { st with state := st' }) (fun _ => rfl)
    have hl1 : Live (s.modStream k fun st => { st with state := st' }) k := (SameKeys.modStream _ _ _).live.mpr hk
    have hc1 : (s.modStream k fun st => { st with state := st' }).counts = s.counts := modStream_counts _ _ _
    generalize hs1 : Streams.modStream s k _ = s1 at h1 hst1 hl1 hc1
    split
    · exact h1
    · generalize hs2 : (if (isInitial && !(s1.stream k).isCounted) = true then _ else s1) = s2
      have h2 : AL [] s1 s2 ∧ SPr accP s1 s2 := by
        rw [← hs2]
        split
        · refine ⟨by al_auto, ?_⟩
          refine SPr.trans (b := if h.sid > s1.recv.lastProcessedId then s1.modRecv fun r => { r with lastProcessedId := h.sid } else s1)
            ?_ (incNumRecvStreams_spr _ _ (fun _ _ => rfl))
          split
          · exact .of_store rfl
          · exact .refl _ _
        · exact ⟨.refl _ _, .refl _ _⟩
      generalize hs3 : (if ((s2.stream k).contentLength != ContentLength.head) = true then _ else (s2, (none : Option PErr))) = p3
      have h3 : AL [] s2 p3.1 ∧ SPr accP s2 p3.1 := by
        rw [← hs3]
        have this : ∀ c : Nat, AL [] s2 (s2.modStream k fun st => { st with contentLength := .remaining c }) ∧
            SPr accP s2 (s2.modStream k fun st => { st with contentLength := .remaining c }) :=
          fun c => ⟨by al_auto, SPr.modStream _ _ _ (fun _ => rfl) (fun _ => rfl)⟩
        repeat' split
        all_goals first | exact ⟨.refl _ _, .refl _ _⟩ | exact this _
      clear hs3
      obtain ⟨s3, o⟩ := p3
      have hal3 : AL [] s1 s3 := h2.1.trans h3.1 (fun _ h => h)
      have hsp3 : SPr accP s1 s3 := h2.2.trans h3.2
      have hj3 : J s3 := h1.al0 hal3
      have hl3 : Live s3 k := hal3.live.mpr hl1
      obtain ⟨e1, e2, e3, e4⟩ := accP_eq (hsp3 k)
      rw [hst1] at e1 e2 e3 e4
      cases o with
      | some e => exact hj3
      | none =>
        dsimp only
        split
        · exact hj3
        split
        · exact hj3
        split
        · exact hj3
        · next hstat =>
          split
          · next hsrv3 =>
            have hnone : h.status = none := by
              cases hh : h.status with
              | none => rfl
              | some v => rw [hh, hsrv3] at hstat; simp at hstat
            split
            · exact hj3
            · exact hj3
            · next method uri _ =>
              refine hj3.accept hl3 hsrv3 ?_ ?_ (fun hfl => ?_) _ ⟨_, _, _, rfl⟩
              · rw [e2]; exact hx3 (isInformational_of_none hnone)
              · rw [e2]; exact hx2
              · have hs0 : s.counts.isServer = true := by rw [← hc1, ← hal3.srv]; exact hsrv3
                rw [e1, e3]
                exact hj.si hs0 k hk hx1
          · next hsrv3 =>
            have hc3 : s3.counts.isServer = false := by
              cases hh : s3.counts.isServer with
              | false => rfl
              | true => exact absurd hh hsrv3
            split
            · exact (hj3.modStream_client hc3 k _).al0 (by al_auto)
            · exact (hj3.modStream_client hc3 k _).al0 (by al_auto)

end H2V.Lemmas.ConnNoPanicP
