import H2V.Lemmas.ConnNoPanicPDsOh
import H2V.Lemmas.ConnNoPanicPFiStep
/-
  C08 (no panic) — the residual hypothesis `OH` as an invariant, part 1: the per-entry invariant `XE` and its frame `XK`.

    `XE sv x` : (n) a locally initiated entry whose send half is not open (`suB`) carries nothing and is not scheduled;
                (f) an entry that waits in `pending_open` or is `is_pending_push` is "virgin" (`Wv`: not scheduled, no DATA at
                    the front, and if nothing is queued not send-streaming) or "dead" (`Dd`: closed, no DATA at all).
    `XK sv s s'` : every entry keeps `XE sv`, and a closed entry stays closed.
-/
namespace H2V.Lemmas.ConnNoPanicP
open H2V H2V.Model H2V.Model.Conn H2V.Lemmas.ConnCountsP
attribute [local irreducible] wrapSubU32 wrapSubUsize

variable {sv : Bool}

-- ===================================================================== one entry

def hnd (l : List SFrame) : Prop := dsum l.head?.toList = 0
def Wv (x : Stream) : Prop :=
  x.isPendingSend = false ∧ hnd x.pendingSend ∧
  (x.pendingSend = [] → x.state.isSendStreaming = false ∧ x.bufferedSendData = 0)
def Dd (x : Stream) : Prop := x.state.isClosed = true ∧ dsum x.pendingSend = 0 ∧ x.bufferedSendData = 0
def Nn (x : Stream) : Prop := x.pendingSend = [] ∧ x.isPendingSend = false ∧ x.bufferedSendData = 0
def flagB (x : Stream) : Bool := x.isPendingOpen || x.isPendingPush

/-- `r`: slack between `buffered_send_data` and the queued DATA of a flagged entry (`Prioritize::send_data` raises the
    counter before it queues the frame) -/
structure XEr (sv : Bool) (r : Nat) (x : Stream) : Prop where
  n : locId sv x.id = true → suB x.state = true → Nn x
  f : flagB x = true → Wv x ∨ Dd x
  e : flagB x = true → x.bufferedSendData ≤ dsum x.pendingSend + r

abbrev XE (sv : Bool) (x : Stream) : Prop := XEr sv 0 x

theorem dsum_head_le (l : List SFrame) : dsum l.head?.toList ≤ dsum l := by
  cases l with
  | nil => exact Nat.le_refl _
  | cons f l => cases f <;> simp [dsum]

theorem XEr.ohead {r : Nat} {x : Stream} (h : XEr sv r x) : OHead x := by
  intro hp
  rcases h.f (by unfold flagB; rw [hp]; rfl) with hw | hd
  · exact hw.2.1
  · have := dsum_head_le x.pendingSend
    have h0 := hd.2.1
    omega

theorem XEr.blank (r k : Nat) : XEr sv r { key := k, id := 0 } :=
  ⟨fun _ _ => ⟨rfl, rfl, rfl⟩, fun h => Bool.noConfusion h, fun h => Bool.noConfusion h⟩

/-- what an update of an entry keeps -/
structure Xp (sv : Bool) (a b : Stream) : Prop where
  xe : ∀ r, XEr sv r a → XEr sv r b

theorem Xp.refl (a : Stream) : Xp sv a a := ⟨fun _ h => h⟩
theorem Xp.trans {a b c : Stream} (h1 : Xp sv a b) (h2 : Xp sv b c) : Xp sv a c :=
  ⟨fun r h => h2.xe r (h1.xe r h)⟩

theorem xp_same {a b : Stream} (h1 : b.id = a.id) (h2 : b.state = a.state) (h3 : b.pendingSend = a.pendingSend)
    (h4 : b.isPendingSend = a.isPendingSend) (h5 : b.bufferedSendData = a.bufferedSendData)
    (h6 : b.isPendingOpen = a.isPendingOpen) (h7 : b.isPendingPush = a.isPendingPush) : Xp sv a b := by
  refine ⟨fun r h => ⟨?_, ?_, ?_⟩⟩
  · unfold Nn; rw [h1, h2, h3, h4, h5]; exact h.n
  · unfold flagB Wv Dd; rw [h2, h3, h4, h5, h6, h7]; exact h.f
  · unfold flagB; rw [h3, h5, h6, h7]; exact h.e

/-- the three facts about a new state -/
structure STR (a b : State) : Prop where
  su : suB b = true → suB a = true
  st : b.isSendStreaming = true → a.isSendStreaming = true
  cl : a.isClosed = true → b.isClosed = true

theorem xp_state (x : Stream) (st' : State) (h : STR x.state st') : Xp sv x { x with state := st' } := by
  refine ⟨fun r hx => ⟨fun hl hs => hx.n hl (h.su hs), fun hf => ?_, hx.e⟩⟩
  rcases hx.f hf with hw | hd
  · refine .inl ⟨hw.1, hw.2.1, fun hp => ⟨?_, (hw.2.2 hp).2⟩⟩
    have := (hw.2.2 hp).1
    cases hh : st'.isSendStreaming with
    | false => rfl
    | true => have := h.st hh; simp_all
  · exact .inr ⟨h.cl hd.1, hd.2⟩

theorem str_recvOpen {st st' : State} {a b : Bool} {r : Except PErr Bool} (h : st.recvOpen a b = (st', r)) : STR st st' := by
  have : st' = (st.recvOpen a b).1 := by rw [h]
  subst this
  obtain ⟨inner⟩ := st
  refine ⟨?_, ?_, ?_⟩ <;> rcases inner with _ | _ | _ | ⟨_ | _, _ | _⟩ | ⟨_ | _⟩ | ⟨_ | _⟩ | _ <;> cases a <;> cases b <;>
    simp [State.recvOpen, suB, State.isSendStreaming, State.isClosed]
theorem str_recvClose {st st' : State} {r : Except PErr Unit} (h : st.recvClose = (st', r)) : STR st st' := by
  have : st' = st.recvClose.1 := by rw [h]
  subst this
  obtain ⟨inner⟩ := st
  refine ⟨?_, ?_, ?_⟩ <;> rcases inner with _ | _ | _ | ⟨_ | _, _ | _⟩ | ⟨_ | _⟩ | ⟨_ | _⟩ | _ <;>
    simp [State.recvClose, suB, State.isSendStreaming, State.isClosed]
theorem str_sendClose {st st' : State} (h : st.sendClose = some st') : STR st st' := by
  obtain ⟨inner⟩ := st
  refine ⟨?_, ?_, ?_⟩ <;> rcases inner with _ | _ | _ | ⟨_ | _, _ | _⟩ | ⟨_ | _⟩ | ⟨_ | _⟩ | _ <;>
    simp [State.sendClose] at h <;> subst h <;> simp [suB, State.isSendStreaming, State.isClosed]
theorem str_reserveRemote {st st' : State} {r : Except PErr Unit} (h : st.reserveRemote = (st', r)) : STR st st' := by
  have : st' = st.reserveRemote.1 := by rw [h]
  subst this
  obtain ⟨inner⟩ := st
  refine ⟨?_, ?_, ?_⟩ <;> rcases inner with _ | _ | _ | ⟨_ | _, _ | _⟩ | ⟨_ | _⟩ | ⟨_ | _⟩ | _ <;>
    simp [State.reserveRemote, suB, State.isSendStreaming, State.isClosed]
theorem str_reserveLocal {st st' : State} {r : Except UserError Unit} (h : st.reserveLocal = (st', r)) : STR st st' := by
  have : st' = st.reserveLocal.1 := by rw [h]
  subst this
  obtain ⟨inner⟩ := st
  refine ⟨?_, ?_, ?_⟩ <;> rcases inner with _ | _ | _ | ⟨_ | _, _ | _⟩ | ⟨_ | _⟩ | ⟨_ | _⟩ | _ <;>
    simp [State.reserveLocal, suB, State.isSendStreaming, State.isClosed]
theorem str_handleError (st : State) (e : PErr) : STR st (st.handleError e) := by
  obtain ⟨inner⟩ := st
  refine ⟨?_, ?_, ?_⟩ <;> rcases inner with _ | _ | _ | ⟨_ | _, _ | _⟩ | ⟨_ | _⟩ | ⟨_ | _⟩ | _ <;>
    simp [State.handleError, suB, State.isSendStreaming, State.isClosed]
theorem str_recvEof (st : State) : STR st st.recvEof := by
  obtain ⟨inner⟩ := st
  refine ⟨?_, ?_, ?_⟩ <;> rcases inner with _ | _ | _ | ⟨_ | _, _ | _⟩ | ⟨_ | _⟩ | ⟨_ | _⟩ | _ <;>
    simp [State.recvEof, suB, State.isSendStreaming, State.isClosed]
theorem str_recvReset (st : State) (sid : Nat) (r : Reason) (q : Bool) : STR st (st.recvReset sid r q) := by
  obtain ⟨inner⟩ := st
  refine ⟨?_, ?_, ?_⟩ <;> rcases inner with _ | _ | _ | ⟨_ | _, _ | _⟩ | ⟨_ | _⟩ | ⟨_ | _⟩ | _ <;> cases q <;>
    simp [State.recvReset, suB, State.isSendStreaming, State.isClosed]
/-- any closed state -/
theorem str_closed (st st' : State) (h : st'.isClosed = true) : STR st st' := by
  obtain ⟨inner'⟩ := st'
  cases inner' <;> simp [State.isClosed] at h
  exact ⟨fun h => by simp [suB] at h, fun h => by simp [State.isSendStreaming] at h, fun _ => rfl⟩

macro "str_tac" : tactic => `(tactic| first
  | exact str_recvOpen (by assumption) | exact str_recvClose (by assumption) | exact str_sendClose (by assumption)
  | exact str_reserveRemote (by assumption) | exact str_reserveLocal (by assumption)
  | exact str_handleError _ _ | exact str_recvEof _ | exact str_recvReset _ _ _ _ | exact str_closed _ _ rfl)

theorem notifySend_proj7 (x : Stream) : x.notifySend.1.key = x.key ∧ x.notifySend.1.id = x.id ∧ x.notifySend.1.state = x.state ∧
    x.notifySend.1.pendingSend = x.pendingSend ∧ x.notifySend.1.isPendingSend = x.isPendingSend ∧
    x.notifySend.1.bufferedSendData = x.bufferedSendData ∧ x.notifySend.1.isPendingOpen = x.isPendingOpen ∧
    x.notifySend.1.isPendingPush = x.isPendingPush := by
  unfold Stream.notifySend
  cases h1 : x.sendTask <;> cases h2 : x.openTask <;> simp [h2]
theorem notifySend_xp (x : Stream) : x.notifySend.1.key = x.key ∧ Xp sv x x.notifySend.1 :=
  have h := notifySend_proj7 x
  ⟨h.1, xp_same h.2.1 h.2.2.1 h.2.2.2.1 h.2.2.2.2.1 h.2.2.2.2.2.1 h.2.2.2.2.2.2.1 h.2.2.2.2.2.2.2⟩
theorem notifyRecv_xp (x : Stream) : x.notifyRecv.1.key = x.key ∧ Xp sv x x.notifyRecv.1 := by
  unfold Stream.notifyRecv; split <;> exact ⟨rfl, xp_same rfl rfl rfl rfl rfl rfl rfl⟩
theorem notifyPush_xp (x : Stream) : x.notifyPush.1.key = x.key ∧ Xp sv x x.notifyPush.1 := by
  unfold Stream.notifyPush; split <;> exact ⟨rfl, xp_same rfl rfl rfl rfl rfl rfl rfl⟩
theorem notifyCapacity_xp (x : Stream) : x.notifyCapacity.1.key = x.key ∧ Xp sv x x.notifyCapacity.1 := by
  unfold Stream.notifyCapacity
  exact ⟨(notifySend_xp (sv := sv) _).1,
    Xp.trans (b := { x with sendCapacityInc := true }) (xp_same rfl rfl rfl rfl rfl rfl rfl) (notifySend_xp _).2⟩
theorem assignCapacity_xp (x : Stream) (a b : Nat) : (x.assignCapacity a b).1.key = x.key ∧ Xp sv x (x.assignCapacity a b).1 := by
  unfold Stream.assignCapacity; simp only []; split
  · exact ⟨(notifyCapacity_xp (sv := sv) _).1,
      Xp.trans (b := { x with sendFlow := (x.sendFlow.assignCapacity a).1 }) (xp_same rfl rfl rfl rfl rfl rfl rfl) (notifyCapacity_xp _).2⟩
  · exact ⟨rfl, xp_same rfl rfl rfl rfl rfl rfl rfl⟩
theorem setReset_xp (x : Stream) (r : Reason) (i : Initiator) : (x.setReset r i).1.key = x.key ∧ Xp sv x (x.setReset r i).1 := by
  unfold Stream.setReset
  simp only []
  refine ⟨((notifyRecv_xp (sv := sv) _).1.trans ((notifyPush_xp (sv := sv) _).1.trans (notifySend_xp (sv := sv) _).1)), ?_⟩
  exact Xp.trans (b := { x with state := x.state.setReset x.id r i }) (xp_state _ _ (str_closed _ _ rfl))
    ((notifySend_xp _).2.trans ((notifyPush_xp _).2.trans (notifyRecv_xp _).2))
theorem waitSend_xp (x : Stream) (t : String) : (x.waitSend t).key = x.key ∧ Xp sv x (x.waitSend t) :=
  ⟨rfl, xp_same rfl rfl rfl rfl rfl rfl rfl⟩
theorem waitOpen_xp (x : Stream) (t : String) : (x.waitOpen t).key = x.key ∧ Xp sv x (x.waitOpen t) :=
  ⟨rfl, xp_same rfl rfl rfl rfl rfl rfl rfl⟩

/-- un-scheduling, or a queue other than `pending_send` / `pending_open` -/
theorem setQueued_xp (x : Stream) (q : QName) (v : Bool) (h : (q ≠ .pendingSend ∧ q ≠ .pendingOpen) ∨ v = false) :
    (x.setQueued q v).key = x.key ∧ Xp sv x (x.setQueued q v) := by
  cases q <;> first | exact ⟨rfl, xp_same rfl rfl rfl rfl rfl rfl rfl⟩ | skip
  · -- pendingSend
    rcases h with h | h
    · exact absurd rfl h.1
    · subst h
      refine ⟨rfl, ⟨fun r hx => ⟨fun hl hs => ⟨(hx.n hl hs).1, rfl, (hx.n hl hs).2.2⟩, fun hf => ?_, hx.e⟩⟩⟩
      rcases hx.f hf with hw | hd
      · exact .inl ⟨rfl, hw.2.1, hw.2.2⟩
      · exact .inr hd
  · -- pendingOpen
    rcases h with h | h
    · exact absurd rfl h.2
    · subst h
      have hff : ∀ hf : flagB (x.setQueued .pendingOpen false) = true, flagB x = true := by
        intro hf
        unfold flagB at hf ⊢
        have : x.isPendingPush = true := by
          have : (false || x.isPendingPush) = true := hf
          simpa using this
        rw [this]; simp
      refine ⟨rfl, ⟨fun r hx => ⟨hx.n, fun hf => ?_, fun hf => hx.e (hff hf)⟩⟩⟩
      have hf' : flagB x = true := by
        unfold flagB at hf ⊢
        have : x.isPendingPush = true := by
          have : (false || x.isPendingPush) = true := hf
          simpa using this
        rw [this]; simp
      exact hx.f hf'

/-- proves `(f x).key = x.key ∧ Xp sv x (f x)` -/
macro "xp_tac" : tactic => `(tactic| with_reducible first
  | exact ⟨rfl, xp_same rfl rfl rfl rfl rfl rfl rfl⟩
  | exact notifySend_xp _ | exact notifyRecv_xp _ | exact notifyPush_xp _ | exact notifyCapacity_xp _
  | exact assignCapacity_xp _ _ _ | exact setReset_xp _ _ _ | exact waitSend_xp _ _ | exact waitOpen_xp _ _
  | exact ⟨rfl, xp_state _ _ (by str_tac)⟩)

-- ===================================================================== the relation

structure XK (sv : Bool) (s s' : Streams) : Prop where
  xe : ∀ r j, XEr sv r (s.stream j) → XEr sv r (s'.stream j)

theorem XK.refl (s : Streams) : XK sv s s := ⟨fun _ _ h => h⟩
theorem XK.trans {a b c : Streams} (h1 : XK sv a b) (h2 : XK sv b c) : XK sv a c :=
  ⟨fun r j h => h2.xe r j (h1.xe r j h)⟩
theorem XK.of_fst_eq {s : Streams} {α : Type} {p : Streams × α} {a : Streams} {x : α}
    (h : p = (a, x)) (e : XK sv s p.1) : XK sv s a := by subst h; exact e
theorem XK.of_store {s s' : Streams} (h : s'.store = s.store) : XK sv s s' :=
  ⟨fun r j hj => by rw [stream_of_store_eqP h]; exact hj⟩

theorem panic_xk (s : Streams) (m : String) : XK sv s (s.panic m) := .of_store (panic_store _ _)
theorem wake_xk (s : Streams) (t : List String) : XK sv s (s.wake t) := .of_store rfl
theorem unsup_xk (s : Streams) (m : String) : XK sv s (s.unsup m) := by
  unfold Streams.unsup; split
  · exact .refl _
  · exact .of_store rfl
theorem notifyTask_xk (s : Streams) : XK sv s s.notifyTask := by
  unfold Streams.notifyTask; split
  · exact .of_store rfl
  · exact .refl _
theorem modPrio_xk (s : Streams) (f : Prioritize → Prioritize) : XK sv s (s.modPrio f) := .of_store rfl
theorem modRecv_xk (s : Streams) (f : Recv → Recv) : XK sv s (s.modRecv f) := .of_store rfl
theorem modSend_xk (s : Streams) (f : Send → Send) : XK sv s (s.modSend f) := .of_store rfl
theorem modCounts_xk (s : Streams) (f : Counts → Counts) : XK sv s (s.modCounts f) := .of_store rfl
theorem modCountsA_xk (s : Streams) (w : String) (f : Counts → Option Counts) : XK sv s (s.modCountsA w f) := by
  unfold Streams.modCountsA; split
  · exact .of_store rfl
  · exact panic_xk _ _
theorem setQ_xk (s : Streams) (q : QName) (l : List Nat) : XK sv s (s.setQ q l) := .of_store (setQ_store _ _ _)
theorem setMisc_xk (s : Streams) (a : Actions) (refs leaked : Nat) (wk : List String) (un : Option String) :
    XK sv s { s with actions := a, refs := refs, recvBufferLeaked := leaked, wakes := wk, unsupported := un } := .of_store rfl
theorem setCounts_xk (s : Streams) (c : Counts) : XK sv s { s with counts := c } := .of_store rfl

theorem setStream_xk (s : Streams) (st' : Stream) (h : Xp sv (s.stream st'.key) st') : XK sv s (s.setStream st') := by
  refine ⟨fun r j hj => ?_⟩
  rcases setStream_stream s st' j with e | ⟨e, hk, _⟩
  · rw [e]; exact hj
  · rw [e]; rw [hk] at hj; exact h.xe r hj

/-- a stream update, judged on the entry it is applied to -/
theorem modStream_xk (s : Streams) (k : Nat) (f : Stream → Stream)
    (h : (f (s.stream k)).key = (s.stream k).key ∧ Xp sv (s.stream k) (f (s.stream k))) : XK sv s (s.modStream k f) := by
  unfold Streams.modStream
  split
  · next st hst =>
    rw [stream_of_get? hst] at h
    refine setStream_xk s _ ?_
    rw [h.1, get?_key hst, stream_of_get? hst]; exact h.2
  · exact panic_xk _ _
theorem modStreamW_xk (s : Streams) (k : Nat) (f : Stream → Stream × List String)
    (h : (f (s.stream k)).1.key = (s.stream k).key ∧ Xp sv (s.stream k) (f (s.stream k)).1) : XK sv s (s.modStreamW k f) := by
  have h1 := modStream_xk s k (fun x => (f x).1) h
  unfold Streams.modStream at h1
  unfold Streams.modStreamW
  split
  · next st hst => rw [hst] at h1; exact h1.trans (wake_xk _ _)
  · exact panic_xk _ _

theorem qPush_xk (s : Streams) (q : QName) (k : Nat) (hq : q ≠ .pendingSend ∧ q ≠ .pendingOpen) : XK sv s (s.qPush q k).1 := by
  unfold Streams.qPush; split
  · exact .refl _
  · exact (modStream_xk _ _ _ (setQueued_xp _ q true (.inl hq))).trans (setQ_xk _ _ _)
theorem qPushFront_xk (s : Streams) (q : QName) (k : Nat) (hq : q ≠ .pendingSend ∧ q ≠ .pendingOpen) :
    XK sv s (s.qPushFront q k).1 := by
  unfold Streams.qPushFront; split
  · exact .refl _
  · exact (modStream_xk _ _ _ (setQueued_xp _ q true (.inl hq))).trans (setQ_xk _ _ _)
theorem qPop_xk (s : Streams) (q : QName) : XK sv s (s.qPop q).1 := by
  unfold Streams.qPop; split
  · exact .refl _
  · exact (setQ_xk _ _ _).trans (modStream_xk _ _ _ (setQueued_xp _ q false (.inr rfl)))

theorem remove_xk (s : Streams) (k n : Nat) : XK sv s { s with store := s.store.remove k, recvBufferLeaked := n } := by
  refine ⟨fun r j hj => ?_⟩
  by_cases hjk : j = k
  · subst hjk
    have hb : ({ s with store := s.store.remove j, recvBufferLeaked := n } : Streams).stream j = { key := j, id := 0 } := by
      unfold Streams.stream
      have : (s.store.remove j).get? j = none := by
        unfold Store.remove Store.get?
        refine List.find?_eq_none.mpr ?_
        intro x hx
        have := (List.mem_filter.mp hx).2
        simpa using this
      show ((s.store.remove j).get? j).getD _ = _
      rw [this]; rfl
    rw [hb]; exact XEr.blank _ _
  · have : ({ s with store := s.store.remove k, recvBufferLeaked := n } : Streams).stream j = s.stream j := by
      unfold Streams.stream
      show ((s.store.remove k).get? j).getD _ = _
      rw [get?_remove_ne _ _ _ hjk]
    rw [this]; exact hj
theorem unlink_xk (s : Streams) (id : Nat) : XK sv s { s with store := s.store.unlink id } := ⟨fun _ _ hj => hj⟩

theorem insert_xk (s : Streams) (st : Stream) (h : ∀ r k, XEr sv r { st with key := k }) :
    XK sv s { s with store := (s.store.insert st).1 } := by
  refine ⟨fun r j hj => ?_⟩
  unfold Streams.stream at hj ⊢
  show XEr sv r (((s.store.insert st).1.get? j).getD _)
  rcases insert_get?_cases s.store st j with e | ⟨e0, _, e⟩
  · rw [e]; exact hj
  · rw [e]; exact h _ _
theorem insertNew_xk (s : Streams) (id a b : Nat) : XK sv s { s with store := (s.store.insert (Stream.new id a b)).1 } :=
  insert_xk s _ (fun _ _ => ⟨fun _ _ => ⟨rfl, rfl, rfl⟩, fun h => Bool.noConfusion h, fun h => Bool.noConfusion h⟩)


-- ===================================================================== the peeling tactic (relation with a parameter)

syntax "xk_side" : tactic
macro_rules | `(tactic| xk_side) => `(tactic| xp_tac)
macro_rules | `(tactic| xk_side) => `(tactic| decide)
macro_rules | `(tactic| xk_side) => `(tactic| exact Eq.refl _)
macro_rules | `(tactic| xk_side) => `(tactic| assumption)

elab "xk_head" : tactic => do
  relHeadN ``XK 3 "_xk" (← `(tactic| first
    | with_reducible refine XK.trans ?_ (setMisc_xk _ _ _ _ _ _)
    | with_reducible refine XK.trans ?_ (setCounts_xk _ _)
    | with_reducible refine XK.trans ?_ (insertNew_xk _ _ _ _)))

syntax "xk_step" : tactic
macro_rules | `(tactic| xk_step) => `(tactic| xk_head)
macro_rules | `(tactic| xk_step) => `(tactic| with_reducible refine XK.of_fst_eq (by with_reducible assumption) ?_)
macro_rules | `(tactic| xk_step) => `(tactic| with_reducible assumption)
macro_rules | `(tactic| xk_step) => `(tactic| with_reducible exact XK.refl _)

macro "xk_auto" : tactic => `(tactic| repeat (first | xk_step | xk_side | intro _ | split | dsimp only))
macro "xk_auto_ih" ih:ident : tactic =>
  `(tactic| repeat (first | xk_step | with_reducible refine XK.trans ?_ ($ih ..) | xk_side | intro _ | split | dsimp only))

theorem decNumStreams_xk (s : Streams) (k : Nat) : XK sv s (s.decNumStreams k) := by
  unfold Streams.decNumStreams; xk_auto
theorem incNumSendStreams_xk (s : Streams) (k : Nat) : XK sv s (s.incNumSendStreams k) := by
  unfold Streams.incNumSendStreams; xk_auto
theorem incNumRecvStreams_xk (s : Streams) (k : Nat) : XK sv s (s.incNumRecvStreams k) := by
  unfold Streams.incNumRecvStreams; xk_auto

theorem transitionAfter_xk (s : Streams) (k : Nat) (b : Bool) : XK sv s (s.transitionAfter k b) := by
  unfold Streams.transitionAfter
  dsimp only
  generalize hs1 : (if (b && !(s.stream k).isPendingResetExpiration) = true then _ else s) = s1
  have h1 : XK sv s s1 := by rw [← hs1]; split; exact modCountsA_xk _ _ _; exact .refl _
  generalize hs2 : (if (s.stream k).isClosed = true then _ else s1) = s2
  have h2 : XK sv s s2 := by
    rw [← hs2]; split
    · generalize hs3 : (if (!(s.stream k).isPendingResetExpiration) = true then
          ({ s1 with store := s1.store.unlink (s.stream k).id } : Streams) else s1) = s3
      have h3 : XK sv s s3 := by rw [← hs3]; split; exact h1.trans (unlink_xk _ _); exact h1
      split
      · exact h3.trans (decNumStreams_xk _ _)
      · exact h3
    · exact h1
  split
  · generalize hs4 : (if (s2.stream k).isCounted = true then s2.decNumStreams k else s2) = s4
    have h4 : XK sv s s4 := by rw [← hs4]; split; exact h2.trans (decNumStreams_xk _ _); exact h2
    exact h4.trans (remove_xk _ _ _)
  · exact h2

theorem transition_xk {α : Type} (s : Streams) (k : Nat) (f : Streams → Streams × α) (hf : ∀ s, XK sv s (f s).1) :
    XK sv s (s.transition k f).1 := by
  have : (s.transition k f).1 = (f s).1.transitionAfter k (s.stream k).isPendingResetExpiration := by
    unfold Streams.transition; rfl
  rw [this]
  exact (hf s).trans (transitionAfter_xk _ _ _)
theorem transition_xk' {α : Type} (s : Streams) (k : Nat) (f : Streams → Streams × α) (hf : XK sv s (f s).1) :
    XK sv s (s.transition k f).1 := by
  have : (s.transition k f).1 = (f s).1.transitionAfter k (s.stream k).isPendingResetExpiration := by
    unfold Streams.transition; rfl
  rw [this]
  exact hf.trans (transitionAfter_xk _ _ _)

theorem xk_relOK : RelOK (XK sv) := ⟨XK.refl, XK.trans, panic_xk⟩
theorem tryForEach_xk (f : Streams → Nat → Streams × Option PErr) (hf : ∀ s k, XK sv s (f s k).1) (fuel i len : Nat) (s : Streams) :
    XK sv s (Streams.tryForEach f fuel i len s).1 := tryForEach_rel xk_relOK f hf fuel i len s
theorem storeTryForEach_xk (s : Streams) (f : Streams → Nat → Streams × Option PErr) (hf : ∀ s k, XK sv s (f s k).1) :
    XK sv s (s.storeTryForEach f).1 := tryForEach_xk f hf _ _ _ s
theorem storeForEach_xk (s : Streams) (f : Streams → Nat → Streams) (hf : ∀ s k, XK sv s (f s k)) :
    XK sv s (s.storeForEach f) := storeTryForEach_xk s _ (fun s k => hf s k)
theorem tryForEachAcc_xk (f : Nat → Streams → Nat → Streams × Nat × Option PErr) (hf : ∀ a s k, XK sv s (f a s k).1)
    (fuel i len acc : Nat) (s : Streams) : XK sv s (Streams.tryForEachAcc f fuel i len acc s).1 :=
  tryForEachAcc_rel xk_relOK f hf fuel i len acc s
theorem foldl_xk {α : Type} (f : Streams → α → Streams) (hf : ∀ s x, XK sv s (f s x)) (l : List α) (s : Streams) :
    XK sv s (l.foldl f s) := foldl_rel xk_relOK f hf l s

end H2V.Lemmas.ConnNoPanicP
