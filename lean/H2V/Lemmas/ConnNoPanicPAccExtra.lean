import H2V.Lemmas.ConnNoPanicPAccStep
/-
  C08 (no panic) — the server accept path, part 12: `J` along the operations of the final set that are not
  in `opPre`: `clear_wakes`, `set_target_window_size`, a refused PUSH_PROMISE, `poll_response`,
  `send_push_promise`.
-/
namespace H2V.Lemmas.ConnNoPanicP
open H2V H2V.Model H2V.Model.Conn H2V.Lemmas.ConnCountsP
open H2V.Lemmas.ConnResetP (Op run)
attribute [local irreducible] wrapSubU32 wrapSubUsize

theorem clearWakes_j {s : Streams} (hj : J s) : J { s with wakes := [] } :=
  hj.al0 (AL.of_eqs (s := s) (s' := { s with wakes := [] }) rfl rfl (Nat.le_refl _) rfl)

theorem setTargetConnectionWindow_al (s : Streams) (t : Nat) : AL [] s (s.setTargetConnectionWindow t).1 := by
  unfold Streams.setTargetConnectionWindow; al_auto

theorem setTargetConnectionWindow_j {s : Streams} (hj : J s) (t : Nat) : J (s.setTargetConnectionWindow t).1 :=
  hj.al0 (setTargetConnectionWindow_al s t)

/-- a PUSH_PROMISE frame that is refused without touching the state (`recvPushPromise_nopush` of np-push) -/
theorem recvPushPromise_j {s : Streams} (hj : J s) (id : Nat) (h : HeadersIn) (he : (s.recvPushPromise id h).1 = s) :
    J (s.recvPushPromise id h).1 := by rw [he]; exact hj

theorem recvPollResponse_al (n : Nat) (s : Streams) (k : Nat) (t : String) : AL [k] s (Streams.recvPollResponse n s k t).1 := by
  induction n generalizing s with
  | zero => exact .refl _ _
  | succ n ih =>
    unfold Streams.recvPollResponse
    split
    · next heq => exact modStream_alp _ _ _ (ar_pop heq)
    · next heq => exact (modStream_alp _ _ _ (ar_pop heq)).trans (ih _) (fun _ h => h)
    · next heq => exact (modStream_alp _ _ _ (ar_pop heq)).trans (panic_al (ks := [k]) _ _) (fun _ h => h)
    · al_auto

theorem recvPollResponse_j {s : Streams} (hj : J s) (n : Nat) {k : Nat} (hr : (s.stream k).refCount > 0) (t : String) :
    J (Streams.recvPollResponse n s k t).1 :=
  hj.al1 (recvPollResponse_al n s k t) (hj.not_mem_of_ref hr)

-- ===================================================================== `StreamRef::send_push_promise`

theorem reserveLocal_ok_acc {x y : State} {u : Unit} (h : x.reserveLocal = (y, .ok u)) :
    y.isRecvHeaders = false ∧ y.isRemoteReset = false := by
  rcases x with ⟨_ | _ | _ | ⟨_ | _, _ | _⟩ | ⟨_ | _⟩ | ⟨_ | _⟩ | _⟩ <;> simp [State.reserveLocal] at h
  subst h; exact ⟨rfl, rfl⟩

/-- the unlink / remove of an entry that carries no `is_pending_accept` link -/
theorem J.remove {s : Streams} (hj : J s) (id k : Nat) (hf : (s.stream k).isPendingAccept = false) :
    J { s with store := (s.store.unlink id).remove k } := by
  have hqf : QF .pendingAccept s { s with store := (s.store.unlink id).remove k } := by
    refine (QF.unlink .pendingAccept s id).trans ?_
    have := QF.remove .pendingAccept ({ s with store := s.store.unlink id } : Streams) k s.recvBufferLeaked (by
      intro st hst
      have hst' : s.store.get? k = some st := hst
      rw [stream_of_get? hst'] at hf; exact hf)
    exact this
  refine hj.sub hqf (fun j hl => ?_) (.refl _)
  have hjk : j ≠ k := by
    intro e; subst e
    obtain ⟨x, hx⟩ := hl
    have : ((s.store.unlink id).remove j).get? j = some x := hx
    rw [get?_remove_self] at this; cases this
  have hg : ({ s with store := (s.store.unlink id).remove k } : Streams).store.get? j = s.store.get? j := by
    show ((s.store.unlink id).remove k).get? j = _
    rw [get?_remove_ne _ _ _ hjk]; rfl
  refine ⟨by unfold Live at hl ⊢; rw [hg] at hl; exact hl, ?_⟩
  unfold Streams.stream; rw [hg]

/-- **`send_push_promise` keeps `J`**: the reserved stream is `ReservedLocal` (past `is_recv_headers`), not queued -/
theorem refSendPushPromise_j {s : Streams} (hn : NPI (fun _ => False) s) (hj : J s) (parent : Nat) (valid : Bool)
    (fields : List Hpack.Field) : J (s.refSendPushPromise parent valid fields).1 := by
  unfold Streams.refSendPushPromise
  have hal1 := sendReserveLocal_al s
  generalize s.sendReserveLocal = p at hal1
  obtain ⟨s1, r⟩ := p
  have h1 := hj.al0 hal1
  have hk1 : KeysOK s1 := hal1.keys.keysOK hn.keys
  cases r with
  | error e => exact h1
  | ok pid =>
    simp only []
    generalize hsP : (if s1.store.contains pid = true then s1.panic _ else s1) = sP
    have halP : AL [] s1 sP := by
      rw [← hsP]; split
      · exact panic_al _ _
      · exact .refl _ _
    have hP := h1.al0 halP
    have hkP : KeysOK sP := halP.keys.keysOK hk1
    generalize hst : Stream.new pid sP.actions.send.initWindowSz sP.recv.initWindowSz = st
    have hst3 : st.isPendingAccept = false ∧ st.refCount = 0 ∧ st.pendingRecv = [] := by rw [← hst]; exact new_acc _ _ _
    have h2 := hP.insert st hst3.1 hst3.2.1 hst3.2.2
    have hkk : (sP.store.insert st).2 = sP.store.nextKey := rfl
    rw [hkk]
    have hget : ({ sP with store := (sP.store.insert st).1 } : Streams).store.get? sP.store.nextKey =
        some { st with key := sP.store.nextKey } := insert_get?_new hkP.fresh st
    have hl2 : Live ({ sP with store := (sP.store.insert st).1 } : Streams) sP.store.nextKey := ⟨_, hget⟩
    have hs2 : ({ sP with store := (sP.store.insert st).1 } : Streams).stream sP.store.nextKey = { st with key := sP.store.nextKey } :=
      stream_of_get? hget
    generalize ({ sP with store := (sP.store.insert st).1 } : Streams) = s2 at h2 hl2 hs2
    have hfl2 : (s2.stream sP.store.nextKey).isPendingAccept = false := by rw [hs2]; exact hst3.1
    have hnq2 : sP.store.nextKey ∉ s2.recv.pendingAccept := fun hq => by
      have := (flagged_iff.mp (h2.acc.fl _ hq)).2
      rw [show (s2.stream sP.store.nextKey).isQueued .pendingAccept = (s2.stream sP.store.nextKey).isPendingAccept from rfl, hfl2] at this
      cases this
    split
    · exact h2
    · next st' u heq =>
      obtain ⟨hy1, hy2⟩ := reserveLocal_ok_acc heq
      have h3 : J (s2.modStream sP.store.nextKey fun x => { x with state := st', isPendingPush := true }) :=
        h2.modStream hl2 _ (fun _ => rfl) rfl (fun _ h => by
          rw [show (({ s2.stream sP.store.nextKey with state := st', isPendingPush := true } : Stream)).state = st' from rfl, hy1] at h
          cases h) (fun hq => absurd hq hnq2) (fun hq => absurd hq hnq2)
      have hst3' := stream_modStream_live hl2 (fun x => { x with state := st', isPendingPush := true }) (fun _ => rfl)
      have hl3 : Live (s2.modStream sP.store.nextKey fun x => { x with state := st', isPendingPush := true }) sP.store.nextKey :=
        (SameKeys.modStream _ _ _).live.mpr hl2
      have hq3 : (s2.modStream sP.store.nextKey fun x => { x with state := st', isPendingPush := true }).recv.pendingAccept =
          s2.recv.pendingAccept := by
        show Streams.getQ _ .pendingAccept = Streams.getQ _ .pendingAccept
        rw [getQ_modStream]
      generalize (s2.modStream sP.store.nextKey fun x => { x with state := st', isPendingPush := true }) = s3 at h3 hst3' hl3 hq3
      split
      · exact h3
      · have hal4 := sendPushPromise_al s3 parent sP.store.nextKey pid fields
        generalize s3.sendPushPromise parent sP.store.nextKey pid fields = q at hal4
        obtain ⟨s4, r4⟩ := q
        have h4 := h3.al0 hal4
        have hfl4 : (s4.stream sP.store.nextKey).isPendingAccept = false := by
          rw [(hal4.str _).acc, hst3']; exact hfl2
        cases r4 with
        | error e => exact h4.remove _ _ hfl4
        | ok u =>
          simp only []
          have h5 : J { s4 with refs := s4.refs + 1 } := h4.al0 (setMisc_al (ks := []) s4 s4.actions (s4.refs + 1) _ _ _ rfl)
          refine refInc_j h5 (hal4.live.mpr hl3) ?_ (fun _ => ?_)
          · show sP.store.nextKey ∉ s4.recv.pendingAccept
            rw [hal4.queue, hq3]; exact hnq2
          · show (s4.stream sP.store.nextKey).state.isRecvHeaders = false
            refine (hal4.str _).rh ?_
            rw [hst3']; exact hy1

end H2V.Lemmas.ConnNoPanicP
