import H2V.Lemmas.ConnNoPanicPReach
import H2V.Lemmas.ConnResetPHist
import H2V.Lemmas.ConnCountsPFree
/-
  C08 (no panic) — part 12: histories with handle accounting.
  `HReach s H`: `s` reachable through the operations of ConnResetP's `Op`, `H` = the multiset of stream
  handles the application holds (one entry per `StreamRef`/`OpaqueStreamRef`); a handle call needs its key in `H`.
  `hreach_npi`: `NPI` and `HOK` (every held handle names a live entry whose `ref_count` covers the handles).
-/
namespace H2V.Lemmas.ConnNoPanicP
open H2V H2V.Model H2V.Model.Conn H2V.Lemmas.ConnCountsP
open H2V.Lemmas.ConnResetP (Op run)
attribute [local irreducible] wrapSubU32 wrapSubUsize

/-- the stream handle an operation is called through -/
def opKey : Op → Option Nat
  | .cloneStreamRef k => some k
  | .dropStreamRef k => some k
  | .refSendResponse k _ _ => some k
  | .refSendInformationalHeaders k _ => some k
  | .refSendData k _ _ => some k
  | .refSendTrailers k _ => some k
  | .refReserveCapacity k _ => some k
  | .pollCapacity k _ => some k
  | .refSendReset k _ => some k
  | .pollReset k _ _ => some k
  | .recvPollInformational k _ => some k
  | .refPollData k _ => some k
  | .recvPollTrailers k _ => some k
  | .refReleaseCapacity k _ => some k
  | .refClearRecvBuffer k => some k
  | .pollPendingOpen (some p) _ => some p
  | _ => none

/-- the preconditions of an operation other than "the handle exists"; `False` = not covered yet -/
def opPre (s : Streams) : Op → Prop
  | .recvHeaders _ => s.recv.refused = none
  | .recvData _ p _ pad => FrameLenOK p pad
  | .recvReset _ _ => True
  | .recvWindowUpdate _ _ => True
  | .innerSendReset _ _ => True
  | .recvGoAway l => s.recv.maxStreamId ≥ l
  | .handleError _ => True
  | .recvGoAwayFrame _ _ _ => True
  | .recvEof b => b = true → AccOK s
  | .clearExpiredResetStreams _ => True
  | .applyRemoteSettings _ _ => True
  | .applyLocalSettingsFrame _ => True
  | .wake _ => True
  | .cloneHandle => True
  | .dropHandle => True
  | .sendRequest _ _ _ _ => ∀ id, s.actions.send.nextStreamId = some id → s.store.contains id = false
  | .pollPendingOpen _ _ => True
  | .cloneStreamRef _ => True
  | .dropStreamRef k => dropPPP s k = []
  | .refSendResponse _ _ _ => True
  | .refSendInformationalHeaders _ _ => True
  | .refSendData _ _ _ => True
  | .refSendTrailers _ _ => True
  | .refReserveCapacity _ _ => True
  | .pollCapacity _ _ => True
  | .refSendReset _ _ => True
  | .pollReset _ _ _ => True
  | .recvPollInformational _ _ => True
  | .refPollData _ _ => True
  | .recvPollTrailers _ _ => True
  | .refReleaseCapacity _ _ => True
  | .refClearRecvBuffer _ => True
  | _ => False

theorem op_step (s : Streams) (op : Op) (hpre : opPre s op)
    (hk : ∀ k, opKey op = some k → Live s k ∧ (s.stream k).refCount > 0) : Step s (op.apply s) := by
  cases op <;> simp only [opPre] at hpre <;> try exact hpre.elim
  case recvHeaders h => exact .recvHeaders s h hpre
  case recvData id p eos pad => exact .recvData s id p eos pad hpre
  case recvReset id r => exact .recvReset s id r
  case recvWindowUpdate id inc => exact .recvWindowUpdate s id inc
  case innerSendReset id r => exact .innerSendReset s id r
  case recvGoAway l => exact .recvGoAway s l hpre
  case handleError e => exact .handleError s e
  case recvGoAwayFrame l r d => exact .recvGoAwayFrame s l r d
  case recvEof b => exact .recvEof s b hpre
  case clearExpiredResetStreams n => exact .clearExpiredResetStreams s n
  case applyRemoteSettings v b => exact .applyRemoteSettings s v b
  case applyLocalSettingsFrame v => exact .applyLocalSettingsFrame s v
  case wake t => exact .wake s t
  case cloneHandle => exact .cloneHandle s
  case dropHandle => exact .dropHandle s
  case sendRequest a b c d => exact .sendRequest s a b c d hpre
  case pollPendingOpen p t =>
    refine .pollPendingOpen s p t ?_
    intro k hp; subst hp; exact (hk k rfl).1
  case cloneStreamRef k => exact .cloneStreamRef s k (hk k rfl).1
  case dropStreamRef k => exact .dropStreamRef s k (hk k rfl).1 (hk k rfl).2 hpre
  case refSendResponse k f eos => exact .refSendResponse s k (hk k rfl).1 f eos
  case refSendInformationalHeaders k f => exact .refSendInformationalHeaders s k (hk k rfl).1 f
  case refSendData k len eos => exact .refSendData s k (hk k rfl).1 len eos
  case refSendTrailers k f => exact .refSendTrailers s k (hk k rfl).1 f
  case refReserveCapacity k c => exact .refReserveCapacity s k (hk k rfl).1 c
  case pollCapacity k t => exact .pollCapacity s k (hk k rfl).1 t
  case refSendReset k r => exact .refSendReset s k (hk k rfl).1 r
  case pollReset k m t => exact .pollReset s k (hk k rfl).1 m t
  case recvPollInformational k t => exact .recvPollInformational s k (hk k rfl).1 t
  case refPollData k t => exact .refPollData s k (hk k rfl).1 t
  case recvPollTrailers k t => exact .recvPollTrailers s k (hk k rfl).1 t
  case refReleaseCapacity k c => exact .refReleaseCapacity s k (hk k rfl).1 c
  case refClearRecvBuffer k => exact .refClearRecvBuffer s k (hk k rfl).1

-- ===================================================================== handle accounting

/-- every held handle names a live entry whose `ref_count` covers the handles held on it -/
def HOK (s : Streams) (H : List Nat) : Prop := ∀ k ∈ H, ∃ x, s.store.get? k = some x ∧ H.count k ≤ x.refCount

/-- the handles after an operation -/
def opHandles (s : Streams) (H : List Nat) : Op → List Nat
  | .cloneStreamRef k => k :: H
  | .dropStreamRef k => H.erase k
  | .sendRequest a b c d => match (s.sendRequest a b c d).2 with | .ok (k, _) => k :: H | .error _ => H
  | _ => H

theorem keysBelow_of_keysOK {s : Streams} (h : KeysOK s) : ConnResetP.KeysBelow s.store := by
  intro k st hk
  have := h.fresh st (get?_mem hk)
  rw [get?_key hk] at this; exact this

/-- an operation that is not a drop of `k` keeps entry `k` and does not lower its `ref_count` (ConnResetP) -/
theorem op_keeps_ref {s : Streams} (hk : KeysOK s) (op : Op) {k : Nat} {x : Stream} (hx : s.store.get? k = some x)
    (hr : 0 < x.refCount) (hnd : op ≠ .dropStreamRef k) :
    ∃ x', (op.apply s).store.get? k = some x' ∧ x.refCount ≤ x'.refCount := by
  have := ConnResetP.run_keeps_referenced s [op] k x (keysBelow_of_keysOK hk) hx hr
    (by intro h; rw [List.mem_singleton] at h; exact hnd h.symm)
  obtain ⟨x', h1, h2, _⟩ := this
  exact ⟨x', h1, h2⟩

theorem cloneStreamRef_get {s : Streams} {k : Nat} {x : Stream} (hx : s.store.get? k = some x) :
    (s.cloneStreamRef k).store.get? k = some { x with refCount := x.refCount + 1 } := by
  unfold Streams.cloneStreamRef Streams.refInc Streams.modStream
  rw [hx]
  show (s.setStream _).store.get? k = _
  rw [setStream_get?, hx]
  simp only [Option.map_some, get?_key hx, beq_self_eq_true, if_true]

theorem count_pos_of_mem {H : List Nat} {k : Nat} (h : k ∈ H) : 0 < H.count k := List.count_pos_iff.mpr h

theorem notifyTask_store (s : Streams) : s.notifyTask.store = s.store := by
  unfold Streams.notifyTask; split <;> rfl

theorem dropPre_stream {s : Streams} {k : Nat} (hk : Live s k) (hr : (s.stream k).refCount > 0) :
    Live (dropPre s k) k ∧ ((dropPre s k).stream k).refCount = (s.stream k).refCount - 1 := by
  unfold dropPre
  dsimp only
  have hs0 : ({ s with refs := s.refs - 1 } : Streams).stream k = s.stream k := rfl
  rw [hs0]
  simp only [hr, if_true]
  have hk0 : Live ({ s with refs := s.refs - 1 } : Streams) k := hk
  have hk1 := (SameKeys.modStream ({ s with refs := s.refs - 1 } : Streams) k fun st => { st with refCount := st.refCount - 1 }).live.mpr hk0
  have hs1 := stream_modStream_live hk0 (fun st => { st with refCount := st.refCount - 1 }) (fun _ => rfl)
  rw [hs0] at hs1
  split
  · refine ⟨?_, ?_⟩
    · unfold Live at hk1 ⊢; rw [notifyTask_store]; exact hk1
    · unfold Streams.stream; rw [notifyTask_store]; exact congrArg Stream.refCount hs1
  · exact ⟨hk1, congrArg Stream.refCount hs1⟩

/-- dropping one of several handles keeps the entry, with one reference less -/
theorem dropStreamRef_get_self {s : Streams} {k : Nat} {x : Stream} (hx : s.store.get? k = some x) (hr : x.refCount ≥ 2)
    (hppp : dropPPP s k = []) :
    ∃ x', (s.dropStreamRef k).store.get? k = some x' ∧ x'.refCount = x.refCount - 1 := by
  have hk : Live s k := ⟨x, hx⟩
  have hsx : s.stream k = x := stream_of_get? hx
  obtain ⟨hl1, hr1⟩ := dropPre_stream hk (by rw [hsx]; omega)
  rw [dropStreamRef_eq]
  unfold dropPPP at hppp
  generalize dropPre s k = t at hl1 hr1 hppp ⊢
  have hX : Live (dropClosure k t).1 k ∧ ((dropClosure k t).1.stream k).refCount = (t.stream k).refCount := by
    rw [dropClosure_nil t k hppp]
    split
    · have h2 : LT [k] t (((t.maybeCancel k).releaseClosedCapacity k).modStream k
          fun st => { st with pendingPushPromises := [] }) := by lt_auto
      exact ⟨h2.keys.live.mpr hl1, h2.ref k⟩
    · exact ⟨(maybeCancel_lt t k).keys.live.mpr hl1, (maybeCancel_lt t k).ref k⟩
  obtain ⟨⟨y, hy⟩, hry⟩ := hX
  have : (t.transition k (dropClosure k)).1 = (dropClosure k t).1.transitionAfter k (t.stream k).isPendingResetExpiration := rfl
  rw [this]
  have hys : (dropClosure k t).1.stream k = y := stream_of_get? hy
  obtain ⟨x', h1, h2, _⟩ := transitionAfter_keeps (dropClosure k t).1 k k (t.stream k).isPendingResetExpiration y hy
    (.inr (by rw [← hys, hry, hr1, hsx]; omega))
  exact ⟨x', h1, by rw [h2, ← hys, hry, hr1, hsx]⟩

theorem sendRequest_cases' (s : Streams) (isHead : Bool) (fields : List Hpack.Field) (eos : Bool) (pending : Option Nat) :
    (∃ e, s.sendRequest isHead fields eos pending = (s, .error e)) ∨
    s.sendRequest isHead fields eos pending = sendRequestCore isHead fields eos s := by
  unfold Streams.sendRequest
  repeat (first | (left; exact ⟨_, rfl⟩) | (right; rfl) | split)

theorem refInc_get {s : Streams} {k : Nat} {x : Stream} (hx : s.store.get? k = some x) :
    (s.refInc k).store.get? k = some { x with refCount := x.refCount + 1 } := by
  unfold Streams.refInc Streams.modStream
  rw [hx]
  show (s.setStream _).store.get? k = _
  rw [setStream_get?, hx]
  simp only [Option.map_some, get?_key hx, beq_self_eq_true, if_true]

/-- a successful `send_request` hands out the fresh key `next_key`, with one reference -/
theorem sendRequest_ok {s : Streams} (hk : KeysOK s) {isHead : Bool} {fields : List Hpack.Field} {eos : Bool} {pending : Option Nat}
    {k : Nat} {f : Bool} (h : (s.sendRequest isHead fields eos pending).2 = .ok (k, f)) :
    k = s.store.nextKey ∧ ∃ x', (s.sendRequest isHead fields eos pending).1.store.get? k = some x' ∧ 1 ≤ x'.refCount := by
  rcases sendRequest_cases' s isHead fields eos pending with ⟨e, he⟩ | he
  · rw [he] at h; cases h
  · rw [he] at h ⊢
    unfold sendRequestCore at h ⊢
    generalize hso : s.sendOpenId = p at h ⊢
    obtain ⟨s1, r⟩ := p
    have hst1 : s1.store = s.store := by have := sendOpenId_store s; rw [hso] at this; exact this
    cases r with
    | error e => cases h
    | ok id =>
      simp only [] at h ⊢
      generalize hsP : (if s1.store.contains id = true then s1.panic _ else s1) = sP at h ⊢
      have hstP : sP.store = s.store := by rw [← hsP]; split; rw [panic_store, hst1]; exact hst1
      generalize hst : (if isHead = true then _ else Stream.new id s1.actions.send.initWindowSz s1.recv.initWindowSz) = st at h ⊢
      have hkk : (sP.store.insert st).2 = sP.store.nextKey := rfl
      rw [hkk] at h ⊢
      generalize hsh : Streams.sendHeaders _ sP.store.nextKey eos fields = q at h ⊢
      obtain ⟨s3, r3⟩ := q
      cases r3 with
      | error e => cases h
      | ok u =>
        simp only [Except.ok.injEq, Prod.mk.injEq] at h
        have hkP : KeysOK sP := ⟨by rw [hstP]; exact hk.nodup, by unfold KeysFresh; rw [hstP]; exact hk.fresh⟩
        have hl2 : Live ({ sP with store := (sP.store.insert st).1 } : Streams) sP.store.nextKey :=
          ⟨_, insert_get?_new hkP.fresh st⟩
        have hlt3 := LT.of_fst_eq hsh (sendHeaders_lt _ sP.store.nextKey eos fields)
        obtain ⟨y, hy⟩ := hlt3.keys.live.mpr hl2
        refine ⟨by rw [← h.1, hstP], ?_⟩
        rw [← h.1]
        simp only []
        exact ⟨_, refInc_get (s := { s3 with refs := s3.refs + 1 }) hy, Nat.le_add_left _ _⟩

/-- histories with handle accounting -/
inductive HReach : Streams → List Nat → Prop
  | init {s : Streams} : Blank s → s.panicked = none → (∀ q, s.getQ q = []) → HReach s []
  | step {s : Streams} {H : List Nat} (op : Op) : HReach s H → opPre s op → (∀ k, opKey op = some k → k ∈ H) →
      HReach (op.apply s) (opHandles s H op)

theorem hok_generic {s : Streams} {H : List Nat} (hk : KeysOK s) (h : HOK s H) (op : Op) (hnd : ∀ j, op ≠ .dropStreamRef j) :
    HOK (op.apply s) H := by
  intro j hj
  obtain ⟨x, hx, hc⟩ := h j hj
  have hpos := count_pos_of_mem hj
  obtain ⟨x', h1, h2⟩ := op_keeps_ref hk op hx (by omega) (hnd j)
  exact ⟨x', h1, by omega⟩

theorem hok_step {s : Streams} {H : List Nat} (hn : NPI (fun _ => False) s) (h : HOK s H) (op : Op) (hpre : opPre s op)
    (hin : ∀ k, opKey op = some k → k ∈ H) : HOK (op.apply s) (opHandles s H op) := by
  have hk := hn.keys
  cases op
  case cloneStreamRef k0 =>
    have hk0 : k0 ∈ H := hin k0 rfl
    obtain ⟨x0, hx0, hc0⟩ := h k0 hk0
    intro j hj
    by_cases hjk : j = k0
    · subst hjk
      exact ⟨_, cloneStreamRef_get hx0, by show (j :: H).count j ≤ x0.refCount + 1; rw [List.count_cons_self]; omega⟩
    · have hjH : j ∈ H := by
        have : j ∈ k0 :: H := hj
        rcases List.mem_cons.mp this with e | e
        · exact absurd e hjk
        · exact e
      obtain ⟨x, hx, hc⟩ := h j hjH
      have hpos := count_pos_of_mem hjH
      obtain ⟨x', h1, h2⟩ := op_keeps_ref hk (.cloneStreamRef k0) hx (by omega) (by intro e; cases e)
      refine ⟨x', h1, ?_⟩
      show (k0 :: H).count j ≤ x'.refCount
      rw [List.count_cons_of_ne (fun e => hjk e.symm)]; omega
  case dropStreamRef k0 =>
    have hk0 : k0 ∈ H := hin k0 rfl
    obtain ⟨x0, hx0, hc0⟩ := h k0 hk0
    intro j hj
    have hj' : j ∈ H.erase k0 := hj
    have hjH : j ∈ H := List.mem_of_mem_erase hj'
    by_cases hjk : j = k0
    · subst hjk
      have hc2 : 0 < (H.erase j).count j := count_pos_of_mem hj'
      rw [List.count_erase_self] at hc2
      obtain ⟨x', h1, h2⟩ := dropStreamRef_get_self hx0 (by omega) hpre
      refine ⟨x', h1, ?_⟩
      show (H.erase j).count j ≤ x'.refCount
      rw [List.count_erase_self, h2]; omega
    · obtain ⟨x, hx, hc⟩ := h j hjH
      have hpos := count_pos_of_mem hjH
      obtain ⟨x', h1, h2⟩ := op_keeps_ref hk (.dropStreamRef k0) hx (by omega) (by intro e; cases e; exact hjk rfl)
      refine ⟨x', h1, ?_⟩
      show (H.erase k0).count j ≤ x'.refCount
      rw [List.count_erase_of_ne hjk]; omega
  case sendRequest a b c d =>
    show HOK _ (match (s.sendRequest a b c d).2 with | .ok (k, _) => k :: H | .error _ => H)
    cases hres : (s.sendRequest a b c d).2 with
    | error e => exact hok_generic hk h _ (by intro j e; cases e)
    | ok kf =>
      obtain ⟨k, f⟩ := kf
      simp only []
      obtain ⟨hkn, x', hx', hr'⟩ := sendRequest_ok hk hres
      have hnot : k ∉ H := by
        intro hkH
        obtain ⟨x, hx, _⟩ := h k hkH
        have := hk.fresh x (get?_mem hx)
        rw [get?_key hx, hkn] at this; omega
      intro j hj
      rcases List.mem_cons.mp hj with e | e
      · subst e
        exact ⟨x', hx', by rw [List.count_cons_self, List.count_eq_zero_of_not_mem hnot]; exact hr'⟩
      · have hjk : j ≠ k := fun e' => hnot (e' ▸ e)
        obtain ⟨x, hx, hc⟩ := h j e
        have hpos := count_pos_of_mem e
        obtain ⟨y, h1, h2⟩ := op_keeps_ref hk (.sendRequest a b c d) hx (by omega) (by intro e; cases e)
        exact ⟨y, h1, by rw [List.count_cons_of_ne (fun e => hjk e.symm)]; omega⟩
  all_goals exact hok_generic hk h _ (by intro j e; cases e)

theorem op_apiStep (s : Streams) (op : Op) (hpre : opPre s op) : ApiStep s (op.apply s) := by
  cases op <;> simp only [opPre] at hpre <;> try exact hpre.elim
  case recvHeaders h => exact .recvHeaders s h
  case recvData id p eos pad => exact .recvData s id p eos pad
  case recvReset id r => exact .recvReset s id r
  case recvWindowUpdate id inc => exact .recvWindowUpdate s id inc
  case innerSendReset id r => exact .innerSendReset s id r
  case recvGoAway l => exact .recvGoAway s l
  case handleError e => exact .handleError s e
  case recvGoAwayFrame l r d => exact .recvGoAwayFrame s l r d
  case recvEof b => exact .recvEof s b
  case clearExpiredResetStreams n => exact .clearExpiredResetStreams n s
  case applyRemoteSettings v b => exact .applyRemoteSettings s v b
  case applyLocalSettingsFrame v => exact .applyLocalSettingsFrame s v
  case wake t => exact .wake s t
  case cloneHandle => exact .cloneHandle s
  case dropHandle => exact .dropHandle s
  case sendRequest a b c d => exact .sendRequest s a b c d
  case pollPendingOpen p t => exact .pollPendingOpen s p t
  case cloneStreamRef k => exact .cloneStreamRef s k
  case dropStreamRef k => exact .dropStreamRef s k
  case refSendResponse k f eos => exact .refSendResponse s k f eos
  case refSendInformationalHeaders k f => exact .refSendInformationalHeaders s k f
  case refSendData k len eos => exact .refSendData s k len eos
  case refSendTrailers k f => exact .refSendTrailers s k f
  case refReserveCapacity k c => exact .refReserveCapacity s k c
  case pollCapacity k t => exact .pollCapacity s k t
  case refSendReset k r => exact .refSendReset s k r
  case pollReset k m t => exact .pollReset s k m t
  case recvPollInformational k t => exact .recvPollInformational s k t
  case refPollData k t => exact .refPollData s k t
  case recvPollTrailers k t => exact .recvPollTrailers s k t
  case refReleaseCapacity k c => exact .refReleaseCapacity s k c
  case refClearRecvBuffer k => exact .refClearRecvBuffer s k

theorem HReach.evT {s : Streams} {H : List Nat} (h : HReach s H) : KeysOK s ∧ NextLocal s := by
  induction h with
  | init hb _ _ => exact ⟨hb.keysOK, hb.next⟩
  | step op _ hpre _ ih =>
    have e := (op_apiStep _ op hpre).evT ih.1 ih.2
    exact ⟨e.keysOK ih.1, e.nx.nextLocal ih.2⟩

/-- **No panic in any history that respects the handle discipline**: `NPI` (first component `panicked = none`) and
    `HOK` hold after every history, as long as the local-error-reset quota is not exhausted. -/
theorem hreach_npi {s : Streams} {H : List Nat} (h : HReach s H) (he : ErrOK s) : NPI (fun _ => False) s ∧ HOK s H := by
  induction h with
  | init hb hp hq => exact ⟨blank_npi hb hp hq, fun k hk => absurd hk List.not_mem_nil⟩
  | step op hr hpre hin ih =>
    rename_i s0 H0
    have e := (op_apiStep _ op hpre).evT hr.evT.1 hr.evT.2
    obtain ⟨hn, hh⟩ := ih (ErrOK.backT e he)
    have hkeys : ∀ k, opKey op = some k → Live s0 k ∧ (s0.stream k).refCount > 0 := by
      intro k hk
      obtain ⟨x, hx, hc⟩ := hh k (hin k hk)
      have hpos := count_pos_of_mem (hin k hk)
      exact ⟨⟨x, hx⟩, by rw [stream_of_get? hx]; omega⟩
    exact ⟨(op_step s0 op hpre hkeys).npi hn he, hok_step hn hh op hpre hin⟩

/-- witness history: request, response head, DATA in, DATA out, handle cloned, both handles dropped, EOF -/
def wOps : List Op :=
  [.sendRequest false [] false none, .recvHeaders { sid := 1, eos := false, status := some [50, 48, 48] },
   .recvData 1 [1, 2, 3] false none, .refSendData 0 10 false, .cloneStreamRef 0, .dropStreamRef 0, .dropStreamRef 0,
   .recvEof false]

set_option maxRecDepth 8000 in
theorem wOps_hreach : HReach (run wBlank wOps) [] := by
  have r0 : HReach wBlank [] := .init wBlank_blank rfl (fun q => by cases q <;> rfl)
  have r1 := HReach.step (.sendRequest false [] false none) r0 (by intro id h; cases h; rfl) (by intro k h; cases h)
  have r2 := HReach.step (.recvHeaders { sid := 1, eos := false, status := some [50, 48, 48] }) r1 (by show _ = none; decide) (by intro k h; cases h)
  have r3 := HReach.step (.recvData 1 [1, 2, 3] false none) r2 (by unfold opPre FrameLenOK; decide) (by intro k h; cases h)
  have r4 := HReach.step (.refSendData 0 10 false) r3 trivial (by intro k h; cases h; decide)
  have r5 := HReach.step (.cloneStreamRef 0) r4 trivial (by intro k h; cases h; decide)
  have r6 := HReach.step (.dropStreamRef 0) r5 (by show dropPPP _ 0 = []; decide) (by intro k h; cases h; decide)
  have r7 := HReach.step (.dropStreamRef 0) r6 (by show dropPPP _ 0 = []; decide) (by intro k h; cases h; decide)
  have r8 := HReach.step (.recvEof false) r7 (by intro h; cases h) (by intro k h; cases h)
  exact r8

set_option maxRecDepth 8000 in
theorem wOps_facts : ErrOK (run wBlank wOps) ∧ ((run wBlank wOps).stream 0).refCount = 0 ∧
    (run wBlank wOps).store.slab.length = 0 :=
  ⟨by unfold ErrOK; decide +kernel, by decide +kernel, by decide +kernel⟩

end H2V.Lemmas.ConnNoPanicP
