import H2V.Lemmas.ConnNoPanicPPushInvOK
import H2V.Lemmas.ConnCtlPViewFrames
/-
  C08 (no panic) — PUSH_PROMISE bookkeeping, stage 2, part 7: `Inner::recv_push_promise` on a push-enabled client.
  `IBR`: every peer-initiated slab entry has an id below `recv.next_stream_id` (receive-side analogue of `IBS`); with
  `IdsOK` it discharges `assert!(self.ids.insert(id, index).is_none())` for the promised id, which `Recv::open` has just
  checked to be `≥ next_stream_id`.  The promised stream is inserted (`NPI.insert_remote`), `Recv::recv_push_promise`
  runs under `counts.transition` (a light closure); on success the stream is `ReservedRemote`, hence not released, and it
  is linked into the parent's `pending_push_promises` (`PPPOK` is kept: the key is fresh).
-/
namespace H2V.Lemmas.ConnNoPanicP
open H2V H2V.Model H2V.Model.Conn H2V.Lemmas.ConnCountsP
open H2V.Lemmas.ConnCtlP (ppParent ppChild ppRest recvPushPromise_eq)
attribute [local irreducible] wrapSubU32 wrapSubUsize

/-- every peer-initiated slab entry has an id below `recv.next_stream_id` -/
def IBR (s : Streams) : Prop :=
  ∀ x ∈ s.store.slab, s.counts.isLocalInit x.id = false → ∀ n, s.recv.nextStreamId = some n → x.id < n

theorem IBR_blank {s : Streams} (h : Blank s) : IBR s := by
  intro x hx; rw [h.slab] at hx; cases hx

/-- an id at or above `recv.next_stream_id` that the peer would initiate is not in the id map -/
theorem IBR.hfree {s : Streams} (hn : NPI (fun _ => False) s) (hi : IBR s) {id n : Nat}
    (hloc : s.counts.isLocalInit id = false) (hnx : s.recv.nextStreamId = some n) (hge : n ≤ id) :
    s.store.contains id = false := by
  cases hc : s.store.contains id with
  | false => rfl
  | true =>
    exfalso
    unfold Store.contains at hc
    obtain ⟨k, hk⟩ := Option.isSome_iff_exists.mp hc
    obtain ⟨⟨x, hx⟩, hxid⟩ := hn.ids.findKey hk
    rw [stream_of_get? hx] at hxid
    have := hi x (get?_mem hx) (by rw [hxid]; exact hloc) n hnx
    omega

/-- `Recv::open(id, PushPromise)` answered `Ok(Some)`: a client, an even id at or above `next_stream_id`; only
    `next_stream_id` moved -/
theorem recvOpen_pp_true {s s1 : Streams} {id : Nat} (href : s.recv.refused = none) (h : s.recvOpen id true = (s1, .ok true)) :
    s.counts.isLocalInit id = false ∧ (∃ n, s.recv.nextStreamId = some n ∧ n ≤ id) ∧ s1.store = s.store ∧
    s1.counts = s.counts ∧ s1.recv.nextStreamId = (if id + 2 > 2147483647 then none else some (id + 2)) := by
  unfold Streams.recvOpen at h
  simp only [href, Option.isSome_none, Bool.false_eq_true, if_false] at h
  cases hsv : s.counts.isServer with
  | true => simp [hsv] at h
  | false =>
    simp only [hsv, Bool.false_eq_true, if_false, Bool.not_true, Bool.false_or, Bool.not_not] at h
    cases hpar : (id % 2 == 0) with
    | false => simp [hpar] at h
    | true =>
      simp only [hpar, Bool.not_true, Bool.false_eq_true, if_false] at h
      cases hnx : s.recv.nextStreamId with
      | none => simp [hnx] at h
      | some n =>
        simp only [hnx] at h
        by_cases hlt : id < n
        · simp [hlt] at h
        · simp only [hlt, if_false] at h
          generalize hs2 : (s.modRecv fun r => { r with nextStreamId := if id + 2 > 2147483647 then none else some (id + 2) }) = s2 at h
          split at h
          · cases h
          · simp only [Prod.mk.injEq, and_true] at h
            subst h
            subst hs2
            refine ⟨?_, ⟨n, rfl, by omega⟩, rfl, rfl, rfl⟩
            unfold Counts.isLocalInit; rw [hsv, hpar]; rfl

theorem notifyRecv_sp (x : Stream) : x.notifyRecv.1.state = x.state ∧ x.notifyRecv.1.pendingRecv = x.pendingRecv ∧
    x.notifyRecv.1.refCount = x.refCount ∧ x.notifyRecv.1.isPendingAccept = x.isPendingAccept := by
  unfold Stream.notifyRecv; split <;> exact ⟨rfl, rfl, rfl, rfl⟩
theorem notifyPush_sp (x : Stream) : x.notifyPush.1.state = x.state ∧ x.notifyPush.1.pendingRecv = x.pendingRecv ∧
    x.notifyPush.1.refCount = x.refCount ∧ x.notifyPush.1.isPendingAccept = x.isPendingAccept := by
  unfold Stream.notifyPush; split <;> exact ⟨rfl, rfl, rfl, rfl⟩

/-- `Recv::recv_push_promise` answered `Ok`: the promised stream is `ReservedRemote` and the promised request has been
    appended to its receive queue -/
theorem recvRecvPushPromise_ok {s s' : Streams} {k : Nat} {h : HeadersIn} (hl : Live s k)
    (he : s.recvRecvPushPromise k h = (s', .ok)) :
    (s'.stream k).state.inner = .reservedRemote ∧ (s'.stream k).refCount = (s.stream k).refCount ∧
    (s'.stream k).isPendingAccept = (s.stream k).isPendingAccept ∧
    ∃ m u, (s'.stream k).pendingRecv = (s.stream k).pendingRecv ++ [.request m u h.fields] := by
  unfold Streams.recvRecvPushPromise at he
  split at he
  · cases he
  · next st' _ hrr =>
    have hst' : st'.inner = .reservedRemote := by
      unfold State.reserveRemote at hrr
      split at hrr
      · cases hrr; rfl
      · cases hrr
    dsimp only at he
    generalize hs1 : (s.modStream k fun st => { st with state := st' }) = s1 at he
    have hl1 : Live s1 k := by rw [← hs1]; exact (SameKeys.modStream _ _ _).live.mpr hl
    have e1 : s1.stream k = { s.stream k with state := st' } := by
      rw [← hs1]; exact stream_modStream_live hl (fun st => { st with state := st' }) (fun _ => rfl)
    split at he
    · cases he
    · split at he
      · cases he
      · cases he
      · next m u _ =>
        have key : s' = ((s1.modStream k fun st => { st with pendingRecv := st.pendingRecv ++ [.request m u h.fields] }).modStreamW k
            Stream.notifyRecv).modStreamW k Stream.notifyPush := by
          repeat' split at he
          all_goals first | (cases he; done) | (cases he; rfl)
        generalize hs2 : (s1.modStream k fun st => { st with pendingRecv := st.pendingRecv ++ [.request m u h.fields] }) = s2 at key
        have hl2 : Live s2 k := by rw [← hs2]; exact (SameKeys.modStream _ _ _).live.mpr hl1
        have e2 : s2.stream k = { s1.stream k with pendingRecv := (s1.stream k).pendingRecv ++ [.request m u h.fields] } := by
          rw [← hs2]
          exact stream_modStream_live hl1 (fun st => { st with pendingRecv := st.pendingRecv ++ [.request m u h.fields] }) (fun _ => rfl)
        have hl3 : Live (s2.modStreamW k Stream.notifyRecv) k := (modStreamW_lt' _ _ _).live.mpr hl2
        have e3 := stream_modStreamW_live hl2 Stream.notifyRecv (fun x => (notifyRecv_inert x).key)
        have e4 := stream_modStreamW_live hl3 Stream.notifyPush (fun x => (notifyPush_inert x).key)
        rw [key, e4]
        have p4 := notifyPush_sp ((s2.modStreamW k Stream.notifyRecv).stream k)
        rw [p4.1, p4.2.1, p4.2.2.1, p4.2.2.2, e3]
        have p3 := notifyRecv_sp (s2.stream k)
        rw [p3.1, p3.2.1, p3.2.2.1, p3.2.2.2, e2, e1]
        exact ⟨hst', rfl, rfl, m, u, rfl⟩

-- ===================================================================== linking the promised stream

theorem stream_modStream_other (s : Streams) (k : Nat) (f : Stream → Stream) (hk : ∀ x, (f x).key = x.key) {j : Nat} (hj : j ≠ k) :
    (s.modStream k f).stream j = s.stream j := by
  unfold Streams.modStream
  split
  · next st hst =>
    rcases setStream_stream s (f st) j with e | ⟨_, e, _⟩
    · exact e
    · rw [hk, get?_key hst] at e; exact absurd e hj
  · rw [panic_stream]

theorem modStream_ppp_frame (s : Streams) (k : Nat) (f : Stream → Stream) (hk : ∀ x, (f x).key = x.key)
    (h : ∀ x, (f x).pendingPushPromises = x.pendingPushPromises) (j : Nat) :
    ((s.modStream k f).stream j).pendingPushPromises = (s.stream j).pendingPushPromises :=
  SPr.modStream (P := (·.pendingPushPromises)) s k f hk h j

/-- `ppp.push(child)`: a fresh key is flagged and appended to the parent's list -/
theorem pppok_link {s : Streams} (hj : PPPOK s) {child pk : Nat} (hc : Live s child) (hp : Live s pk) (hne : pk ≠ child)
    (hfresh : ∀ j, child ∉ (s.stream j).pendingPushPromises) (hq : child ∉ s.recv.pendingAccept) :
    PPPOK ((s.modStream child fun st => { st with isPendingAccept := true }).modStream pk
      fun st => { st with pendingPushPromises := st.pendingPushPromises ++ [child] }) := by
  have hl1 : ∀ j, ((s.modStream child fun st => { st with isPendingAccept := true }).stream j).pendingPushPromises =
      (s.stream j).pendingPushPromises := modStream_ppp_frame s child _ (fun _ => rfl) (fun _ => rfl)
  have hc1 : Held (s.modStream child fun st => { st with isPendingAccept := true }) child := by
    obtain ⟨y, hy⟩ := (SameKeys.modStream s child fun st => { st with isPendingAccept := true }).live.mpr hc
    refine ⟨⟨y, hy, ?_⟩, by rw [ConnResetP.modStream_recv]; exact hq⟩
    rw [← stream_of_get? hy, stream_modStream_live hc (fun st => { st with isPendingAccept := true }) (fun _ => rfl)]; rfl
  have hh1 : ∀ c, c ≠ child → Held s c → Held (s.modStream child fun st => { st with isPendingAccept := true }) c :=
    fun c hne' h => held_modStream_ne h hne' _ (fun _ => rfl)
  have hp1 : Live (s.modStream child fun st => { st with isPendingAccept := true }) pk := (SameKeys.modStream _ _ _).live.mpr hp
  generalize (s.modStream child fun st => { st with isPendingAccept := true }) = s1 at hl1 hc1 hh1 hp1 ⊢
  have hr2 : HR s1 (s1.modStream pk fun st => { st with pendingPushPromises := st.pendingPushPromises ++ [child] }) :=
    modStream_hr _ _ _ (fun _ => ⟨rfl, rfl⟩)
  have hself : ((s1.modStream pk fun st => { st with pendingPushPromises := st.pendingPushPromises ++ [child] }).stream pk).pendingPushPromises =
      (s.stream pk).pendingPushPromises ++ [child] := by
    rw [stream_modStream_live hp1 (fun st => { st with pendingPushPromises := st.pendingPushPromises ++ [child] }) (fun _ => rfl)]
    show (s1.stream pk).pendingPushPromises ++ [child] = _
    rw [hl1]
  have hoth : ∀ j, j ≠ pk → ((s1.modStream pk fun st => { st with pendingPushPromises := st.pendingPushPromises ++ [child] }).stream j).pendingPushPromises =
      (s.stream j).pendingPushPromises := by
    intro j hjp
    rw [stream_modStream_other s1 pk (fun st => { st with pendingPushPromises := st.pendingPushPromises ++ [child] }) (fun _ => rfl) hjp, hl1]
  generalize (s1.modStream pk fun st => { st with pendingPushPromises := st.pendingPushPromises ++ [child] }) = s2 at hr2 hself hoth ⊢
  have hmem : ∀ j c, c ∈ (s2.stream j).pendingPushPromises → c ∈ (s.stream j).pendingPushPromises ∨ (j = pk ∧ c = child) := by
    intro j c hm
    by_cases hjp : j = pk
    · subst hjp
      rw [hself] at hm
      rcases List.mem_append.mp hm with h | h
      · exact .inl h
      · exact .inr ⟨rfl, List.mem_singleton.mp h⟩
    · rw [hoth j hjp] at hm; exact .inl hm
  refine ⟨fun j => ?_, fun j j' c h1 h2 => ?_, fun j c hm => ?_⟩
  · by_cases hjp : j = pk
    · subst hjp
      rw [hself]
      refine List.nodup_append.mpr ⟨hj.nodup j, (List.nodup_cons.mpr ⟨List.not_mem_nil, List.nodup_nil⟩), ?_⟩
      intro a ha b hb
      rw [List.mem_singleton.mp hb]
      intro e; subst e; exact hfresh j ha
    · rw [hoth j hjp]; exact hj.nodup j
  · rcases hmem j c h1 with a | ⟨a1, a2⟩ <;> rcases hmem j' c h2 with b | ⟨b1, b2⟩
    · exact hj.disj j j' c a b
    · subst b2; exact absurd a (hfresh j)
    · subst a2; exact absurd b (hfresh j')
    · rw [a1, b1]
  · rcases hmem j c hm with a | ⟨_, a2⟩
    · have hcne : c ≠ child := fun e => hfresh j (e ▸ a)
      exact hr2.held c (hh1 c hcne (hj.held j c a))
    · subst a2; exact hr2.held c hc1

-- ===================================================================== `recv.pending_accept` is not touched (`QF .pendingAccept`, peeler `af_auto`)

theorem scheduleSend_af (s : Streams) (k : Nat) : QF .pendingAccept s (s.scheduleSend k) := by
  unfold Streams.scheduleSend; af_auto
theorem queueFrame_af (s : Streams) (k : Nat) (f : SFrame) : QF .pendingAccept s (s.queueFrame k f) := by
  unfold Streams.queueFrame; af_auto
theorem sendSendReset_af (s : Streams) (k : Nat) (r : Reason) (i : Initiator) : QF .pendingAccept s (s.sendSendReset k r i) := by
  unfold Streams.sendSendReset; af_auto
theorem enqueueResetExpiration_af (s : Streams) (k : Nat) : QF .pendingAccept s (s.enqueueResetExpiration k) := by
  unfold Streams.enqueueResetExpiration; af_auto
theorem resetOnRecvStreamErr_af (s : Streams) (k : Nat) (r : Except PErr Unit) : QF .pendingAccept s (s.resetOnRecvStreamErr k r).1 := by
  unfold Streams.resetOnRecvStreamErr; af_auto
theorem recvRecvPushPromise_af (s : Streams) (k : Nat) (h : HeadersIn) : QF .pendingAccept s (s.recvRecvPushPromise k h).1 := by
  unfold Streams.recvRecvPushPromise; af_auto
theorem recvOpen_af (s : Streams) (id : Nat) (b : Bool) : QF .pendingAccept s (s.recvOpen id b).1 := by
  unfold Streams.recvOpen; af_auto
theorem ppChild_af (child : Nat) (h : HeadersIn) (s : Streams) : QF .pendingAccept s (ppChild child h s).1 := by
  unfold ppChild; af_auto

-- ===================================================================== the closure

theorem ppChild_le (child : Nat) (h : HeadersIn) (s : Streams) : LE [child] s (ppChild child h s).1 := by
  unfold ppChild
  generalize hr : s.recvRecvPushPromise child h = p
  obtain ⟨s1, res⟩ := p
  have h1 : LE [child] s s1 := LE.of_fst_eq hr (LE.of (recvRecvPushPromise_lt s child h) (recvRecvPushPromise_ev _ _ _))
  cases res with
  | ok => exact h1
  | unsupported => exact h1.step0 (unsup_lt _ _) (unsup_ev _ _)
  | err e =>
    simp only []
    have h2 : LE [child] s (s1.resetOnRecvStreamErr child (.error e)).1 :=
      h1.trans ⟨resetOnRecvStreamErr_ltw _ _ _, resetOnRecvStreamErr_ev _ _ _⟩ (fun _ h => h)
    generalize s1.resetOnRecvStreamErr child (.error e) = q at h2 ⊢
    obtain ⟨s2, r2⟩ := q
    cases r2 <;> exact h2
theorem ppChild_pp (child : Nat) (h : HeadersIn) (s : Streams) : PP s (ppChild child h s).1 := by
  unfold ppChild; pp_auto
theorem ppChild_hr (child : Nat) (h : HeadersIn) (s : Streams) : HR s (ppChild child h s).1 := by
  unfold ppChild; hr_auto
theorem ppChild_true {child : Nat} {h : HeadersIn} {s s' : Streams} (he : ppChild child h s = (s', .ok true)) :
    s.recvRecvPushPromise child h = (s', .ok) := by
  unfold ppChild at he
  generalize s.recvRecvPushPromise child h = p at he ⊢
  obtain ⟨s1, res⟩ := p
  cases res with
  | ok => simp only [Prod.mk.injEq, and_true] at he; rw [he]
  | unsupported => cases he
  | err e =>
    simp only [] at he
    generalize s1.resetOnRecvStreamErr child (.error e) = q at he
    obtain ⟨s2, r2⟩ := q
    cases r2 <;> cases he

/-- an entry that is not closed survives `transition_after` -/
theorem transitionAfter_live_open {s : Streams} {k : Nat} (hl : Live s k) (hc : (s.stream k).isClosed = false) (b : Bool) :
    Live (s.transitionAfter k b) k ∧ (s.transitionAfter k b).stream k = { s.stream k with isCounted := ((s.transitionAfter k b).stream k).isCounted } ∨
    Live (s.transitionAfter k b) k := by
  right
  obtain ⟨m, hfr, _, hfin⟩ := transitionAfter_shapeP (·.pendingPushPromises) (fun _ _ => rfl) s k b
  rcases hfin with e | ⟨hcl, _, _⟩
  · unfold Live; rw [e]; exact hfr.fr.keys.live.mpr hl
  · rw [hc] at hcl; cases hcl

theorem transitionAfter_live_ne {s : Streams} {j k : Nat} (hl : Live s j) (hne : j ≠ k) (b : Bool) : Live (s.transitionAfter k b) j := by
  obtain ⟨x, hx⟩ := hl
  obtain ⟨x', h1, _⟩ := transitionAfter_keeps s k j b x hx (.inl hne)
  exact ⟨x', h1⟩

/-- projections of the entry `transition_after` does not touch (anything but `is_counted`) -/
theorem transitionAfter_proj {α : Type} (P : Stream → α) (hP : ∀ x b, P ({ x with isCounted := b } : Stream) = P x)
    {s : Streams} {j : Nat} (b : Bool) {k : Nat} (hl : Live (s.transitionAfter k b) j) : P ((s.transitionAfter k b).stream j) = P (s.stream j) := by
  obtain ⟨m, hfr, _, hfin⟩ := transitionAfter_shapeP P hP s k b
  rcases hfin with e | ⟨_, _, e⟩
  · have : (s.transitionAfter k b).stream j = m.stream j := by unfold Streams.stream; rw [e]
    rw [this]; exact hfr.p j
  · have hjk : j ≠ k := by
      intro hjk; subst hjk
      obtain ⟨x, hx⟩ := hl
      rw [e, remove_get?_self] at hx; cases hx
    have : (s.transitionAfter k b).stream j = m.stream j := by
      unfold Streams.stream; rw [e, get?_remove_ne _ _ _ hjk]
    rw [this]; exact hfr.p j

-- ===================================================================== once the initiating stream is accepted

/-- **`recv_push_promise` after the look-up of the initiating stream** keeps `NPI` and `PPPOK` -/
theorem ppRest_inv {s : Streams} (hn : NPI (fun _ => False) s) (hj : PPPOK s) (hi : IBR s)
    (hacc : ∀ k ∈ s.recv.pendingAccept, Live s k) {pk : Nat} (hpk : Live s pk) (h : HeadersIn)
    (href : s.recv.refused = none) (he' : ErrOK (ppRest s pk h).1) :
    NPI (fun _ => False) (ppRest s pk h).1 ∧ PPPOK (ppRest s pk h).1 := by
  unfold ppRest at he' ⊢
  generalize s.ensureCanReserve = ec at he' ⊢
  cases ec with
  | error e => exact ⟨hn, hj⟩
  | ok u =>
    dsimp only at he' ⊢
    generalize hro : s.recvOpen h.sid true = p at he' ⊢
    obtain ⟨s1, res⟩ := p
    have hlt1 : LT [] s s1 := LT.of_fst_eq hro (recvOpen_lt s h.sid true href)
    have h1 : NPI (fun _ => False) s1 :=
      hn.lt hlt1.w (liveAll0 s) (EvB.of_fst_eq hro (recvOpen_ev (ρ := true) s h.sid true)) (fun _ _ h => h)
    have j1 : PPPOK s1 := hj.step (PP.of_fst_eq hro (recvOpen_pp s h.sid true)).pw (HR.of_fst_eq hro (recvOpen_hr s h.sid true))
    cases res with
    | error e => exact ⟨h1, j1⟩
    | ok b =>
      cases b
      · exact ⟨h1, j1⟩
      · simp only [] at he' ⊢
        obtain ⟨hloc, ⟨n, hnx, hge⟩, hst1, hc1, _⟩ := recvOpen_pp_true href hro
        have hnc : s1.store.contains h.sid = false := by rw [hst1]; exact hi.hfree hn hloc hnx hge
        simp only [hnc, Bool.false_eq_true, if_false] at he' ⊢
        have hrem : s1.counts.isLocalInit (Stream.new h.sid s1.actions.send.initWindowSz s1.recv.initWindowSz).id = false := by
          rw [hc1]; exact hloc
        obtain ⟨h2, hl2⟩ := h1.insert_remote _ (fresh_new _ _ _) (new_av _ _ _) hrem
        have j2 : PPPOK ({ s1 with store := (s1.store.insert (Stream.new h.sid s1.actions.send.initWindowSz s1.recv.initWindowSz)).1 } : Streams) :=
          j1.step (insert_pw s1 _ (new_ppp _ _ _)) (insert_hr s1 _)
        have hkk : (s1.store.insert (Stream.new h.sid s1.actions.send.initWindowSz s1.recv.initWindowSz)).2 = s1.store.nextKey := rfl
        rw [hkk] at he' ⊢
        -- facts about the fresh key
        have hpk1 : Live s1 pk := hlt1.keys.live.mpr hpk
        have hne : pk ≠ s1.store.nextKey := by
          intro e; obtain ⟨x, hx⟩ := hpk1; rw [e, get?_nextKey_none h1.keys.fresh] at hx; cases hx
        have hpk2 : Live ({ s1 with store := (s1.store.insert (Stream.new h.sid s1.actions.send.initWindowSz s1.recv.initWindowSz)).1 } : Streams) pk := by
          obtain ⟨x, hx⟩ := hpk1; exact ⟨x, insert_get?_old _ _ _ _ hx⟩
        have hfresh2 : ∀ j, s1.store.nextKey ∉ (({ s1 with store := (s1.store.insert (Stream.new h.sid s1.actions.send.initWindowSz s1.recv.initWindowSz)).1 } : Streams).stream j).pendingPushPromises := by
          intro j hm
          have hm1 : s1.store.nextKey ∈ (s1.stream j).pendingPushPromises := by
            rcases insert_pw s1 (Stream.new h.sid s1.actions.send.initWindowSz s1.recv.initWindowSz) (new_ppp _ _ _) j with e | e
            · rw [e] at hm; exact hm
            · rw [e] at hm; cases hm
          exact held_ne_nextKey h1.keys (j1.held j _ hm1) rfl
        have hq2 : s1.store.nextKey ∉ s1.recv.pendingAccept := by
          intro hm
          have hq : s1.recv.pendingAccept = s.recv.pendingAccept := by
            have := (QF.of_fst_eq hro (recvOpen_af s h.sid true)).queue; exact this
          rw [hq] at hm
          obtain ⟨x, hx⟩ := hlt1.keys.live.mpr (hacc _ hm)
          rw [get?_nextKey_none h1.keys.fresh] at hx; cases hx
        generalize hs2 : ({ s1 with store := (s1.store.insert (Stream.new h.sid s1.actions.send.initWindowSz s1.recv.initWindowSz)).1 } : Streams) = s2 at he' h2 hl2 j2 hpk2 hfresh2 ⊢
        have hq2' : s1.store.nextKey ∉ s2.recv.pendingAccept := by rw [← hs2]; exact hq2
        generalize hchild : s1.store.nextKey = child at he' h2 hl2 hne hfresh2 hq2' ⊢
        -- the closure
        have hle := ppChild_le child h s2
        have htr : (s2.transition child (ppChild child h)) =
            ((ppChild child h s2).1.transitionAfter child (s2.stream child).isPendingResetExpiration, (ppChild child h s2).2) := rfl
        rw [htr] at he' ⊢
        generalize hpc : ppChild child h s2 = q at he' hle ⊢
        obtain ⟨s3, r3⟩ := q
        dsimp only at he' hle ⊢
        have h3 : NPI (fun _ => False) s3 := h2.le hle (liveAll1 hl2) (fun _ h => h)
        have j3 : PPPOK s3 := j2.step (PP.of_fst_eq hpc (ppChild_pp child h s2)).pw (HR.of_fst_eq hpc (ppChild_hr child h s2))
        have hE4 : ErrOK (s3.transitionAfter child (s2.stream child).isPendingResetExpiration) := by
          cases r3 with
          | error e => exact he'
          | ok b =>
            cases b
            · exact he'
            · dsimp only at he'
              refine ErrSame.errOK_back ?_ he'
              generalize (s3.transitionAfter child (s2.stream child).isPendingResetExpiration) = s4
              have e1 : ∀ (t : Streams) (k : Nat) (f : Stream → Stream), ErrSame t (t.modStream k f) := fun t k f => by
                unfold ErrSame; rw [modStream_counts]; exact ⟨rfl, rfl⟩
              have e2 : ∀ (t : Streams) (k : Nat), ErrSame t (t.modStreamW k Stream.notifyPush) := fun t k =>
                (modStreamW_lt t k _ (fun x => notifyPush_inert x)).err
              split
              · exact e2 _ _
              · exact ((e1 _ _ _).trans (e1 _ _ _)).trans (e2 _ _)
        have h4 : NPI (fun _ => False) (s3.transitionAfter child (s2.stream child).isPendingResetExpiration) :=
          transitionAfter_npi h3 ((transitionAfter_errSame _ _ _).errOK_back hE4) child _ (fun hb => hle.ev.mono.resetAt child hb)
        have j4 : PPPOK (s3.transitionAfter child (s2.stream child).isPendingResetExpiration) :=
          j3.step (transitionAfter_pp _ _ _).pw (transitionAfter_hr _ _ _)
        cases r3 with
        | error e => exact ⟨h4, j4⟩
        | ok b =>
          cases b
          · exact ⟨h4, j4⟩
          · dsimp only
            -- the promised stream is reserved: it is still there, and so is the parent
            have hok := recvRecvPushPromise_ok hl2 (ppChild_true hpc)
            have hl3 : Live s3 child := hle.lt.keys.live.mpr hl2
            have hopen : (s3.stream child).isClosed = false := by
              unfold Stream.isClosed State.isClosed; rw [hok.1]; rfl
            have hl4 : Live (s3.transitionAfter child (s2.stream child).isPendingResetExpiration) child := by
              rcases transitionAfter_live_open hl3 hopen (s2.stream child).isPendingResetExpiration with h | h
              · exact h.1
              · exact h
            have hp4 : Live (s3.transitionAfter child (s2.stream child).isPendingResetExpiration) pk :=
              transitionAfter_live_ne (hle.lt.keys.live.mpr hpk2) hne _
            have hfresh4 : ∀ j, child ∉ ((s3.transitionAfter child (s2.stream child).isPendingResetExpiration).stream j).pendingPushPromises := by
              intro j hm
              have hw : PW s2 (s3.transitionAfter child (s2.stream child).isPendingResetExpiration) :=
                ((PP.of_fst_eq hpc (ppChild_pp child h s2)).trans (transitionAfter_pp _ _ _)).pw
              rcases hw j with e | e
              · rw [e] at hm; exact hfresh2 j hm
              · rw [e] at hm; cases hm
            have hq4 : child ∉ (s3.transitionAfter child (s2.stream child).isPendingResetExpiration).recv.pendingAccept := by
              have hqf : QF .pendingAccept s2 (s3.transitionAfter child (s2.stream child).isPendingResetExpiration) :=
                (QF.of_fst_eq hpc (ppChild_af child h s2)).trans (transitionAfter_af _ _ _)
              have : (s3.transitionAfter child (s2.stream child).isPendingResetExpiration).recv.pendingAccept = s2.recv.pendingAccept := hqf.queue
              rw [this]; exact hq2'
            generalize (s3.transitionAfter child (s2.stream child).isPendingResetExpiration) = s4 at h4 j4 hl4 hp4 hfresh4 hq4 ⊢
            have hfin : ∀ t : Streams, NPI (fun _ => False) t → PPPOK t → Live t pk →
                NPI (fun _ => False) (t.modStreamW pk Stream.notifyPush) ∧ PPPOK (t.modStreamW pk Stream.notifyPush) := by
              intro t ht jt hlt
              exact ⟨ht.lt (modStreamW_lt t pk _ (fun x => notifyPush_inert x)).w (liveAll1 hlt)
                  (modStreamW_ev (ρ := false) t pk _ (fun st _ => notifyPush_same st)) noE,
                jt.step (modStreamW_pp t pk _ (fun x => (notifyPush_inert x).key) (fun x => notifyPush_ppp x)).pw
                  (modStreamW_hr t pk _ (fun x => accOf (notifyPush_same x)))⟩
            split
            · exact hfin s4 h4 j4 hp4
            · have hA : NPI (fun _ => False) (s4.modStream child fun st => { st with isPendingAccept := true }) :=
                h4.parts (SameKeys.modStream _ _ _) (modStream_ids _ _ _) (SPr.modStream _ _ _ (fun _ => rfl) (fun _ => rfl))
                  (npq_modStream_flagfree h4.npq hl4 _ (fun _ => rfl) (fun _ => rfl) (fun _ => rfl)) (ρ := false) (.acceptFlag child true) noE
              have hpA : Live (s4.modStream child fun st => { st with isPendingAccept := true }) pk := (SameKeys.modStream _ _ _).live.mpr hp4
              have hB : NPI (fun _ => False) ((s4.modStream child fun st => { st with isPendingAccept := true }).modStream pk
                  fun st => { st with pendingPushPromises := st.pendingPushPromises ++ [child] }) :=
                hA.lt (modStream_lt _ pk _ (fun _ => by inert_tac)).w (liveAll1 hpA)
                  (modStream_ev (ρ := false) _ pk _ (fun st _ => by same_fields)) noE
              have jB := pppok_link j4 hl4 hp4 hne hfresh4 hq4
              exact hfin _ hB jB ((SameKeys.modStream _ _ _).live.mpr hpA)

-- ===================================================================== the whole call

theorem ppParent_cases (s : Streams) (id pid : Nat) :
    (ppParent s id pid).1 = s ∨ (ppParent s id pid).1 = (s.recvOpen pid true).1 := by
  unfold ppParent
  split
  · split
    · exact .inl rfl
    · split
      · split
        · exact .inl rfl
        · generalize s.recvOpen pid true = p
          obtain ⟨s1, r⟩ := p
          cases r with
          | error e => exact .inr rfl
          | ok b => cases b <;> exact .inr rfl
      · split <;> exact .inl rfl
  · exact .inl rfl

theorem ppParent_some {s s1 : Streams} {id pid pk : Nat} (h : ppParent s id pid = (s1, .ok (some pk))) :
    s1 = s ∧ s.store.findKey? id = some pk := by
  unfold ppParent at h
  split at h
  · next k hfk =>
    split at h
    · cases h
    · split at h
      · split at h
        · cases h
        · generalize s.recvOpen pid true = p at h
          obtain ⟨s2, r⟩ := p
          cases r with
          | error e => cases h
          | ok b => cases b <;> cases h
      · split at h
        · cases h; exact ⟨rfl, hfk⟩
        · cases h
  · cases h

/-- what the invariants need of the state `recv_push_promise` starts from, besides `NPI`/`PPPOK`/`IBR`:
    no refusal pending (as for `recv_headers`) and the keys queued for `accept` resolve (`AccOK`; on a client the queue
    is empty) -/
theorem recvPushPromise_npi {s : Streams} (hn : NPI (fun _ => False) s) (hj : PPPOK s) (hi : IBR s)
    (hacc : ∀ k ∈ s.recv.pendingAccept, Live s k) (id : Nat) (h : HeadersIn) (href : s.recv.refused = none)
    (he' : ErrOK (s.recvPushPromise id h).1) :
    NPI (fun _ => False) (s.recvPushPromise id h).1 ∧ PPPOK (s.recvPushPromise id h).1 := by
  rw [recvPushPromise_eq] at he' ⊢
  split
  · exact ⟨hn, hj⟩
  · next hsv =>
    rw [if_neg hsv] at he'
    have hopen : NPI (fun _ => False) (s.recvOpen h.sid true).1 ∧ PPPOK (s.recvOpen h.sid true).1 :=
      ⟨hn.lt (recvOpen_lt s h.sid true href).w (liveAll0 s) (recvOpen_ev (ρ := true) s h.sid true) (fun _ _ h => h),
       hj.step (recvOpen_pp s h.sid true).pw (recvOpen_hr s h.sid true)⟩
    have hpar : NPI (fun _ => False) (ppParent s id h.sid).1 ∧ PPPOK (ppParent s id h.sid).1 := by
      rcases ppParent_cases s id h.sid with e | e
      · rw [e]; exact ⟨hn, hj⟩
      · rw [e]; exact hopen
    generalize hpp : ppParent s id h.sid = p at he' hpar ⊢
    obtain ⟨s1, r⟩ := p
    cases r with
    | error e => exact hpar
    | ok o =>
      cases o with
      | none => exact hpar
      | some pk =>
        obtain ⟨e1, hfk⟩ := ppParent_some hpp
        subst e1
        exact ppRest_inv hn hj hi hacc (hn.ids.findKey hfk).1 h href he'

end H2V.Lemmas.ConnNoPanicP
