import Lean
import H2V.Model.ConnStreams
/-
  C08 (no panic) — the first recorded panic message is never overwritten, part 1:
  relation `ST`, primitives, the peeling tactic `st_auto` (lemmas `f_st` found by name), `transitionAfter_st`.
  Imports the model only.
-/
namespace H2V.Lemmas.ConnNoPanicP
open H2V H2V.Model H2V.Model.Conn
attribute [local irreducible] wrapSubU32 wrapSubUsize

/-- a recorded panic message stays -/
def ST (s s' : Streams) : Prop := ∀ m, s.panicked = some m → s'.panicked = some m

theorem ST.refl (s : Streams) : ST s s := fun _ h => h
theorem ST.trans {a b c : Streams} (h1 : ST a b) (h2 : ST b c) : ST a c := fun m h => h2 m (h1 m h)
theorem ST.of_eq {s s' : Streams} (h : s'.panicked = s.panicked) : ST s s' := fun m hm => by rw [h]; exact hm
theorem ST.of_fst_eq {s : Streams} {α : Type} {p : Streams × α} {a : Streams} {x : α}
    (h : p = (a, x)) (e : ST s p.1) : ST s a := by subst h; exact e

-- the lemmas `f_st` live in their own namespace: other files of the family own some `…_st` names in `ConnNoPanicP`
namespace Sticky

/-- first wins -/
theorem panic_st (s : Streams) (m : String) : ST s (s.panic m) := by
  intro m' h; unfold Streams.panic; rw [h]; exact h
/-- every record update that keeps the field -/
theorem mk_st (s : Streams) (c : Counts) (a : Actions) (st : Store) (r l : Nat) (w : List String) (u : Option String) :
    ST s (Streams.mk c a st r l w s.panicked u) := fun _ h => h

theorem wake_st (s : Streams) (t : List String) : ST s (s.wake t) := .of_eq rfl
theorem notifyTask_st (s : Streams) : ST s s.notifyTask := by
  unfold Streams.notifyTask; split
  · exact .of_eq rfl
  · exact .refl _
theorem unsup_st (s : Streams) (m : String) : ST s (s.unsup m) := by
  unfold Streams.unsup; split
  · exact .refl _
  · exact .of_eq rfl
theorem modPrio_st (s : Streams) (f : Prioritize → Prioritize) : ST s (s.modPrio f) := .of_eq rfl
theorem modRecv_st (s : Streams) (f : Recv → Recv) : ST s (s.modRecv f) := .of_eq rfl
theorem modSend_st (s : Streams) (f : Send → Send) : ST s (s.modSend f) := .of_eq rfl
theorem modCounts_st (s : Streams) (f : Counts → Counts) : ST s (s.modCounts f) := .of_eq rfl
theorem modCountsA_st (s : Streams) (w : String) (f : Counts → Option Counts) : ST s (s.modCountsA w f) := by
  unfold Streams.modCountsA; split
  · exact .of_eq rfl
  · exact panic_st _ _
theorem setQ_st (s : Streams) (q : QName) (l : List Nat) : ST s (s.setQ q l) := by
  cases q <;> exact .of_eq rfl
theorem setStream_st (s : Streams) (st' : Stream) : ST s (s.setStream st') := .of_eq rfl
theorem modStream_st (s : Streams) (k : Nat) (f : Stream → Stream) : ST s (s.modStream k f) := by
  unfold Streams.modStream; split
  · exact setStream_st _ _
  · exact panic_st _ _
theorem modStreamW_st (s : Streams) (k : Nat) (f : Stream → Stream × List String) : ST s (s.modStreamW k f) := by
  unfold Streams.modStreamW; split
  · exact .of_eq rfl
  · exact panic_st _ _
theorem qPush_st (s : Streams) (q : QName) (k : Nat) : ST s (s.qPush q k).1 := by
  unfold Streams.qPush; split
  · exact .refl _
  · exact (modStream_st _ _ _).trans (setQ_st _ _ _)
theorem qPushFront_st (s : Streams) (q : QName) (k : Nat) : ST s (s.qPushFront q k).1 := by
  unfold Streams.qPushFront; split
  · exact .refl _
  · exact (modStream_st _ _ _).trans (setQ_st _ _ _)
theorem qPop_st (s : Streams) (q : QName) : ST s (s.qPop q).1 := by
  unfold Streams.qPop; split
  · exact .refl _
  · exact (setQ_st _ _ _).trans (modStream_st _ _ _)

open Lean Elab Tactic Meta in
/-- goal `ST s0 (f … s …)` (possibly under `.1`): peel `f` with the lemma `f_st` found by name;
    a record update `Streams.mk …` is peeled with `mk_st` -/
elab "st_head" : tactic => withMainContext do
  let g ← getMainGoal
  let t ← instantiateMVars (← g.getType)
  let t := t.cleanupAnnotations
  unless t.isAppOfArity ``ST 2 do throwError "st_head: not an ST goal"
  let e := t.appArg!
  let rec headOf (e : Expr) (fuel : Nat) : Option Name :=
    match fuel with
    | 0 => none
    | fuel + 1 =>
      match e with
      | .proj _ _ b => headOf b fuel
      | .mdata _ b => headOf b fuel
      | _ =>
        match e.getAppFn with
        | .const n _ =>
          if n == ``Prod.fst || n == ``Prod.snd then
            match e.getAppArgs.back? with
            | some a =>
              if a.isAppOfArity ``Prod.mk 4 then
                headOf (if n == ``Prod.fst then a.getAppArgs[2]! else a.getAppArgs[3]!) fuel
              else headOf a fuel
            | none => none
          else some n
        | _ => none
  match headOf e 8 with
  | none => throwError "st_head: no head constant"
  | some n =>
    if n == ``Streams.mk then
      evalTactic (← `(tactic| with_reducible refine ST.trans ?_ (mk_st _ _ _ _ _ _ _ _)))
    else
    let last := match n with
      | .str _ s => s
      | _ => "?"
    let lemmaName := (`H2V.Lemmas.ConnNoPanicP.Sticky).str (last ++ "_st")
    unless (← getEnv).contains lemmaName do throwError "st_head: no lemma {lemmaName}"
    let gs ← g.apply (← mkConstWithFreshMVarLevels ``ST.trans)
    let gs ← gs.filterM fun m => do
      let ty ← instantiateMVars (← m.getType)
      pure (ty.cleanupAnnotations.isAppOfArity ``ST 2)
    match gs with
    | [g1, g2] =>
      let side ← withReducible (g2.apply (← mkConstWithFreshMVarLevels lemmaName))
      replaceMainGoal (g1 :: side)
    | _ => throwError "st_head: unexpected goals after ST.trans"

open Lean Elab Tactic Meta in
/-- `intro` on a goal that is syntactically a `∀` (never unfolds `ST`) -/
elab "st_intro" : tactic => withMainContext do
  let g ← getMainGoal
  let t ← instantiateMVars (← g.getType)
  unless t.cleanupAnnotations.isForall do throwError "st_intro: not a ∀"
  let (_, g') ← g.intro1
  replaceMainGoal [g']

syntax "st_step" : tactic
macro_rules | `(tactic| st_step) => `(tactic| st_head)
macro_rules | `(tactic| st_step) => `(tactic| with_reducible refine ST.of_fst_eq (by with_reducible assumption) ?_)
macro_rules | `(tactic| st_step) => `(tactic| with_reducible assumption)
macro_rules | `(tactic| st_step) => `(tactic| with_reducible exact ST.refl _)

macro "st_auto" : tactic => `(tactic| repeat (first | st_step | st_intro | split | dsimp only))
macro "st_auto_ih" ih:ident : tactic =>
  `(tactic| repeat (first | st_step | with_reducible refine ST.trans ?_ ($ih ..) | st_intro | split | dsimp only))

theorem incNumSendStreams_st (s : Streams) (k : Nat) : ST s (s.incNumSendStreams k) := by
  unfold Streams.incNumSendStreams; st_auto
theorem incNumRecvStreams_st (s : Streams) (k : Nat) : ST s (s.incNumRecvStreams k) := by
  unfold Streams.incNumRecvStreams; st_auto
theorem decNumStreams_st (s : Streams) (k : Nat) : ST s (s.decNumStreams k) := by
  unfold Streams.decNumStreams; st_auto
theorem transitionAfter_st (s : Streams) (k : Nat) (b : Bool) : ST s (s.transitionAfter k b) := by
  unfold Streams.transitionAfter; st_auto

theorem scheduleSend_st (s : Streams) (k : Nat) : ST s (s.scheduleSend k) := by
  unfold Streams.scheduleSend; st_auto
theorem queueFrame_st (s : Streams) (k : Nat) (f : SFrame) : ST s (s.queueFrame k f) := by
  unfold Streams.queueFrame; st_auto
theorem tryAssignCapacity_st (s : Streams) (k : Nat) : ST s (s.tryAssignCapacity k) := by
  unfold Streams.tryAssignCapacity; st_auto

end Sticky
end H2V.Lemmas.ConnNoPanicP
