import H2V.Lemmas.ConnResetPHist
/-
  ConnResetP — termination / bounded work (C08): the fuel the callers hand to the queue-draining loops
  of the model is sufficient — more fuel does not change the result, so the real `while let Some(..) =
  queue.pop()` loops terminate after at most `queue length` rounds.
-/
namespace H2V.Lemmas.ConnResetP
open H2V H2V.Model H2V.Model.Conn

-- ===================================================================== queues are untouched by store/counter updates

@[simp] theorem getQ_modStream (s : Streams) (id : Nat) (f : Stream → Stream) (q : QName) :
    (s.modStream id f).getQ q = s.getQ q := by
  unfold Streams.getQ; cases q <;> simp
@[simp] theorem getQ_modStreamW (s : Streams) (id : Nat) (f : Stream → Stream × List String) (q : QName) :
    (s.modStreamW id f).getQ q = s.getQ q := by
  unfold Streams.getQ; cases q <;> simp
@[simp] theorem getQ_setQ_same (s : Streams) (q : QName) (l : List Nat) : (s.setQ q l).getQ q = l := by
  cases q <;> rfl
@[simp] theorem getQ_panic (s : Streams) (m : String) (q : QName) : (s.panic m).getQ q = s.getQ q := by
  unfold Streams.getQ Streams.prio Streams.recv; cases q <;> simp
@[simp] theorem getQ_modCountsA (s : Streams) (w : String) (f : Counts → Option Counts) (q : QName) :
    (s.modCountsA w f).getQ q = s.getQ q := by
  unfold Streams.getQ; cases q <;> simp
@[simp] theorem getQ_modCounts (s : Streams) (f : Counts → Counts) (q : QName) : (s.modCounts f).getQ q = s.getQ q := by
  unfold Streams.getQ; cases q <;> simp

theorem getQ_of_actions {s s' : Streams} (h : s'.actions = s.actions) (q : QName) : s'.getQ q = s.getQ q := by
  unfold Streams.getQ Streams.prio Streams.recv; rw [h]

theorem decNumStreams_actions (s : Streams) (id : Nat) : (s.decNumStreams id).actions = s.actions := by
  unfold Streams.decNumStreams; dsimp only; split <;> split <;> split <;> simp

theorem transitionAfter_actions (s : Streams) (id : Nat) (b : Bool) : (s.transitionAfter id b).actions = s.actions := by
  rw [transitionAfter_eq]
  have h1 : (taPrefix s id b).actions = s.actions := by
    unfold taPrefix; dsimp only
    split <;> split <;> (try split) <;> (try split) <;> simp [decNumStreams_actions]
  unfold releaseStep
  split
  · dsimp only; split <;> simp [decNumStreams_actions, h1]
  · exact h1

@[simp] theorem getQ_transitionAfter (s : Streams) (id : Nat) (b : Bool) (q : QName) :
    (s.transitionAfter id b).getQ q = s.getQ q := getQ_of_actions (transitionAfter_actions s id b) q

/-- `Queue::pop`: head and tail -/
theorem qPop_nil (s : Streams) (q : QName) (h : s.getQ q = []) : s.qPop q = (s, none) := by
  unfold Streams.qPop; rw [h]
theorem qPop_cons (s : Streams) (q : QName) (id : Nat) (rest : List Nat) (h : s.getQ q = id :: rest) :
    (s.qPop q).2 = some id ∧ (s.qPop q).1.getQ q = rest := by
  unfold Streams.qPop; rw [h]; simp

-- ===================================================================== the drain pattern

/-- `while let Some(stream) = queue.pop(store) { body }` with fuel -/
def drain (q : QName) (body : Streams → Nat → Streams) : Nat → Streams → Streams
  | 0, s => s
  | fuel + 1, s =>
    match s.qPop q with
    | (s, none) => s
    | (s, some id) => drain q body fuel (body s id)

/-- with a body that leaves the queue alone, `length + 1` units of fuel are as good as any larger amount:
    the loop ends (queue empty) after exactly `length` rounds -/
theorem drain_fuel (q : QName) (body : Streams → Nat → Streams) (hb : ∀ s id, (body s id).getQ q = s.getQ q)
    (n m : Nat) (s : Streams) (hn : (s.getQ q).length < n) (hm : (s.getQ q).length < m) :
    drain q body n s = drain q body m s := by
  induction n generalizing m s with
  | zero => omega
  | succ n ih =>
    cases m with
    | zero => omega
    | succ m =>
      unfold drain
      cases hq : s.getQ q with
      | nil => rw [qPop_nil s q hq]
      | cons id rest =>
        have h2 := qPop_cons s q id rest hq
        generalize s.qPop q = r at h2
        obtain ⟨s1, o⟩ := r
        simp only at h2
        obtain ⟨rfl, h3⟩ := h2
        simp only
        rw [hq] at hn hm
        simp only [List.length_cons] at hn hm
        exact ih m (body s1 id) (by rw [hb, h3]; omega) (by rw [hb, h3]; omega)

-- ===================================================================== the loops of the model are drains

theorem clearPendingCapacity_drain (fuel : Nat) (s : Streams) :
    Streams.clearPendingCapacity fuel s =
      drain .pendingCapacity (fun s id => s.transitionAfter id (s.stream id).isPendingResetExpiration) fuel s := by
  induction fuel generalizing s with
  | zero => rfl
  | succ n ih => unfold Streams.clearPendingCapacity drain; split <;> simp_all

theorem clearPendingOpen_drain (fuel : Nat) (s : Streams) :
    Streams.clearPendingOpen fuel s =
      drain .pendingOpen (fun s id => s.transitionAfter id (s.stream id).isPendingResetExpiration) fuel s := by
  induction fuel generalizing s with
  | zero => rfl
  | succ n ih => unfold Streams.clearPendingOpen drain; split <;> simp_all

theorem clearStreamWindowUpdateQueue_drain (fuel : Nat) (s : Streams) :
    Streams.clearStreamWindowUpdateQueue fuel s =
      drain .pendingWindowUpdates (fun s id => s.transitionAfter id (s.stream id).isPendingResetExpiration) fuel s := by
  induction fuel generalizing s with
  | zero => rfl
  | succ n ih => unfold Streams.clearStreamWindowUpdateQueue drain; split <;> simp_all

theorem clearAllResetStreams_drain (fuel : Nat) (s : Streams) :
    Streams.clearAllResetStreams fuel s = drain .pendingResetExpired (fun s id => s.transitionAfter id true) fuel s := by
  induction fuel generalizing s with
  | zero => rfl
  | succ n ih => unfold Streams.clearAllResetStreams drain; split <;> simp_all

theorem clearAllPendingAccept_drain (fuel : Nat) (s : Streams) :
    Streams.clearAllPendingAccept fuel s = drain .pendingAccept (fun s id => s.transitionAfter id false) fuel s := by
  induction fuel generalizing s with
  | zero => rfl
  | succ n ih => unfold Streams.clearAllPendingAccept drain; split <;> simp_all

theorem clearPendingSend_drain (fuel : Nat) (s : Streams) :
    Streams.clearPendingSend fuel s =
      drain .pendingSend (fun s id =>
        (match (s.stream id).state.getScheduledReset with
          | some reason => s.modStreamW id fun st => st.setReset reason .library
          | none => s).transitionAfter id (s.stream id).isPendingResetExpiration) fuel s := by
  induction fuel generalizing s with
  | zero => rfl
  | succ n ih => unfold Streams.clearPendingSend drain; split <;> simp_all <;> rfl

end H2V.Lemmas.ConnResetP

namespace H2V.Lemmas.ConnResetP
open H2V H2V.Model H2V.Model.Conn

section
variable (n m : Nat) (s : Streams)

theorem clearPendingCapacity_fuel (hn : s.prio.pendingCapacity.length < n) (hm : s.prio.pendingCapacity.length < m) :
    Streams.clearPendingCapacity n s = Streams.clearPendingCapacity m s := by
  rw [clearPendingCapacity_drain, clearPendingCapacity_drain]
  exact drain_fuel _ _ (fun s id => by simp) n m s hn hm

theorem clearPendingOpen_fuel (hn : s.prio.pendingOpen.length < n) (hm : s.prio.pendingOpen.length < m) :
    Streams.clearPendingOpen n s = Streams.clearPendingOpen m s := by
  rw [clearPendingOpen_drain, clearPendingOpen_drain]
  exact drain_fuel _ _ (fun s id => by simp) n m s hn hm

theorem clearPendingSend_fuel (hn : s.prio.pendingSend.length < n) (hm : s.prio.pendingSend.length < m) :
    Streams.clearPendingSend n s = Streams.clearPendingSend m s := by
  rw [clearPendingSend_drain, clearPendingSend_drain]
  refine drain_fuel _ _ (fun s id => ?_) n m s hn hm
  simp only [getQ_transitionAfter]
  split <;> simp

theorem clearStreamWindowUpdateQueue_fuel (hn : s.recv.pendingWindowUpdates.length < n)
    (hm : s.recv.pendingWindowUpdates.length < m) :
    Streams.clearStreamWindowUpdateQueue n s = Streams.clearStreamWindowUpdateQueue m s := by
  rw [clearStreamWindowUpdateQueue_drain, clearStreamWindowUpdateQueue_drain]
  exact drain_fuel _ _ (fun s id => by simp) n m s hn hm

theorem clearAllResetStreams_fuel (hn : s.recv.pendingResetExpired.length < n) (hm : s.recv.pendingResetExpired.length < m) :
    Streams.clearAllResetStreams n s = Streams.clearAllResetStreams m s := by
  rw [clearAllResetStreams_drain, clearAllResetStreams_drain]
  exact drain_fuel _ _ (fun s id => by simp) n m s hn hm

theorem clearAllPendingAccept_fuel (hn : s.recv.pendingAccept.length < n) (hm : s.recv.pendingAccept.length < m) :
    Streams.clearAllPendingAccept n s = Streams.clearAllPendingAccept m s := by
  rw [clearAllPendingAccept_drain, clearAllPendingAccept_drain]
  exact drain_fuel _ _ (fun s id => by simp) n m s hn hm

end

/-- `clear_expired_reset_streams` (the loop at the head of every `poll2`) -/
theorem clearExpiredResetStreams_fuel (n m : Nat) (s : Streams)
    (hn : s.recv.pendingResetExpired.length < n) (hm : s.recv.pendingResetExpired.length < m) :
    Streams.clearExpiredResetStreams n s = Streams.clearExpiredResetStreams m s := by
  induction n generalizing m s with
  | zero => omega
  | succ n ih =>
    cases m with
    | zero => omega
    | succ m =>
      unfold Streams.clearExpiredResetStreams
      split
      · rfl
      · cases hq : s.getQ .pendingResetExpired with
        | nil => rw [qPop_nil s _ hq]
        | cons id rest =>
          have h2 := qPop_cons s _ id rest hq
          generalize s.qPop .pendingResetExpired = r at h2
          obtain ⟨s1, o⟩ := r
          simp only at h2
          obtain ⟨rfl, h3⟩ := h2
          simp only
          have hq' : s.recv.pendingResetExpired = id :: rest := hq
          rw [hq'] at hn hm
          simp only [List.length_cons] at hn hm
          have h4 : (s1.transitionAfter id true).recv.pendingResetExpired = rest := by
            have := getQ_transitionAfter s1 id true .pendingResetExpired
            rw [h3] at this; exact this
          exact ih m _ (by rw [h4]; omega) (by rw [h4]; omega)

/-- `poll_response` skips one queued 1xx head per round: `pending_recv.len() + 1` rounds suffice -/
theorem recvPollResponse_fuel (n m : Nat) (s : Streams) (id : Nat) (tag : String)
    (hn : (s.stream id).pendingRecv.length < n) (hm : (s.stream id).pendingRecv.length < m) :
    Streams.recvPollResponse n s id tag = Streams.recvPollResponse m s id tag := by
  induction n generalizing m s with
  | zero => omega
  | succ n ih =>
    cases m with
    | zero => omega
    | succ m =>
      unfold Streams.recvPollResponse
      cases hq : (s.stream id).pendingRecv with
      | nil => rfl
      | cons e rest =>
        cases e with
        | informational st f =>
          simp only
          cases hg : s.store.get? id with
          | none => rw [stream_of_none _ hg] at hq; cases hq
          | some x =>
            have hx : s.stream id = x := stream_of_get? _ hg
            have h1 : ((s.modStream id fun st => { st with pendingRecv := rest }).stream id).pendingRecv = rest := by
              unfold Streams.stream
              rw [modStream_store, Store.get?_mod' _ _ _ (by intro; rfl), if_pos rfl, hg]; rfl
            rw [hq] at hn hm
            simp only [List.length_cons] at hn hm
            exact ih m _ (by rw [h1]; omega) (by rw [h1]; omega)
        | headers _ _ => rfl
        | request _ _ _ => rfl
        | data _ _ => rfl
        | trailers _ => rfl

end H2V.Lemmas.ConnResetP
