import H2V.Lemmas.ConnRecvPReach
/-
  C03 — part 14: exact effects of the receive flow-control primitives on the connection's books
  (window / available / in_flight_data), and the consequences of the invariant that the property
  theorems quote.
-/
namespace H2V.Lemmas.ConnRecvP
open H2V H2V.Model H2V.Model.Conn
open H2V.Model.Conn.Streams
open H2V.Lemmas.Comp
attribute [local irreducible] wrapSubU32 wrapSubUsize

/-- `consume_connection_window(sz)` = `Ok`: window and available down by `sz`, in flight up by `sz` -/
theorem consume_exact {full : Bool} {g : Ghost} {d : Int} {s : Streams} (h : InvD full g d s) (sz : Nat)
    (hok : (s.consumeConnectionWindow sz).2 = .ok ()) :
    cW (s.consumeConnectionWindow sz).1 = cW s - sz ∧ cA (s.consumeConnectionWindow sz).1 = cA s - sz ∧
    cI (s.consumeConnectionWindow sz).1 = cI s + sz := by
  have hb := h.cI_bound
  have hA := (inI32_iff _).1 h.aI32
  have hw0 := h.w0
  have hwhi := h.wI
  have hhi := h.hiMax
  have htHi := h.tHi
  have hcons := h.cons
  simp only [cW, cA, cI] at hb hA hw0 hwhi hcons ⊢
  unfold Streams.consumeConnectionWindow at hok ⊢
  split at hok
  · cases hok
  · next hlt =>
    rw [if_neg hlt]
    have hsz : (sz : Int) ≤ s.recv.flow.windowSize.val := by
      have h1 : (s.recv.flow.windowSize.asSize : Int) = s.recv.flow.windowSize.val := asSize_of_nonneg hw0
      have h2 : ¬ (s.recv.flow.windowSize.asSize < sz) := hlt
      omega
    have hu : u32AsI32 sz = (sz : Int) := u32AsI32_of_lt (by omega)
    cases hp : s.recv.flow.sendData sz with
    | mk fl r =>
      rw [hp] at hok
      cases r with
      | error e =>
        cases e with
        | assertFailed =>
          exfalso
          have := (sendData_assert_iff s.recv.flow sz).1 (by rw [hp])
          rw [hu] at this; omega
        | reason rr => cases hok
      | ok u =>
        dsimp only
        by_cases h0 : sz = 0
        · subst h0
          rw [sendData_zero] at hp
          cases hp
          have hI : wrapAddU32 s.recv.inFlightData 0 = s.recv.inFlightData := by
            apply wrapAddU32_of_lt; omega
          refine ⟨by show s.recv.flow.windowSize.val = _; omega, by show s.recv.flow.available.val = _; omega, ?_⟩
          show wrapAddU32 s.recv.inFlightData 0 = _
          rw [hI]; rfl
        · have hok' := sendData_ok' (by omega) hp
          rw [hu] at hok'
          have hI : wrapAddU32 s.recv.inFlightData sz = s.recv.inFlightData + sz := by
            apply wrapAddU32_of_lt
            have := (inI32_iff _).1 hok'.2.2.2.2
            omega
          exact ⟨hok'.2.1, hok'.2.2.1, hI⟩

/-- `release_connection_capacity(cap)`: available up by `cap`, in flight down by `cap`, window
    untouched -/
theorem release_exact {full : Bool} {g : Ghost} {d : Int} {s : Streams} (h : InvD full g d s) (cap : Nat) (b : Bool)
    (hc : cap ≤ cI s) :
    cW (s.releaseConnectionCapacity cap b) = cW s ∧ cA (s.releaseConnectionCapacity cap b) = cA s + cap ∧
    cI (s.releaseConnectionCapacity cap b) = cI s - cap := by
  have hb := h.cI_bound
  have hA := (inI32_iff _).1 h.aI32
  have hw0 := h.w0
  have hwhi := h.wI
  have hhi := h.hiMax
  have hcons := h.cons
  have htHi := h.tHi
  simp only [cW, cA, cI] at hb hA hw0 hwhi hcons hc ⊢
  have hu : u32AsI32 cap = (cap : Int) := u32AsI32_of_lt (by omega)
  have hsub : wrapSubU32 s.recv.inFlightData cap = s.recv.inFlightData - cap := wrapSubU32_of_le hb.2 hc
  have hassign : (s.recv.flow.assignCapacity cap).1 = { s.recv.flow with available := ⟨s.recv.flow.available.val + cap⟩ } := by
    rw [Flow.assignCapacity_eq, hu]
    have : inI32 (s.recv.flow.available.val + (cap : Int)) = true := by apply inI32_of_range <;> omega
    simp [this]
  have key : ∀ s' : Streams, s'.recv = (s.modRecv fun r => { r with inFlightData := wrapSubU32 r.inFlightData cap, flow := (r.flow.assignCapacity cap).1 }).recv →
      s'.recv.flow.windowSize.val = s.recv.flow.windowSize.val ∧
      s'.recv.flow.available.val = s.recv.flow.available.val + cap ∧
      s'.recv.inFlightData = s.recv.inFlightData - cap := by
    intro s' hs'
    rw [hs']
    show (s.recv.flow.assignCapacity cap).1.windowSize.val = _ ∧ (s.recv.flow.assignCapacity cap).1.available.val = _ ∧
      wrapSubU32 s.recv.inFlightData cap = _
    rw [hassign, hsub]
    exact ⟨rfl, rfl, rfl⟩
  unfold Streams.releaseConnectionCapacity
  dsimp only
  split
  · apply key
    unfold Streams.notifyTask
    split <;> rfl
  · exact key _ rfl

/-- **discarded DATA is credited back exactly**: after `ignore_data(sz)` = `Ok` the connection's
    `available` and `in_flight_data` are what they were; only the window the peer sees is lower by
    `sz` (the next WINDOW_UPDATE gives it back) -/
theorem ignoreData_exact {full : Bool} {g : Ghost} {s : Streams} (h : Inv full g s) (sz : Nat)
    (hok : (s.ignoreData sz).2 = .ok ()) :
    cW (s.ignoreData sz).1 = cW s - sz ∧ cA (s.ignoreData sz).1 = cA s ∧ cI (s.ignoreData sz).1 = cI s := by
  obtain ⟨-, -, hcok⟩ := consume_inv h sz
  unfold Streams.ignoreData at hok ⊢
  cases hc : s.consumeConnectionWindow sz with
  | mk s1 r =>
    rw [hc] at hok hcok
    cases r with
    | error e => cases hok
    | ok u =>
      have hex := consume_exact h sz (by rw [hc])
      rw [hc] at hex
      dsimp only at hex hcok ⊢
      obtain ⟨h1, -⟩ := hcok rfl
      have hcI : sz ≤ cI s1 := by rw [hex.2.2]; omega
      have hre := release_exact h1 sz false hcI
      rw [hre.1, hre.2.1, hre.2.2, hex.1, hex.2.1, hex.2.2]
      omega

/-- **the connection's WINDOW_UPDATE never over-credits**: when `send_connection_window_update`
    emits one, its increment is exactly `available − window` and the window becomes `available`
    (= target − in flight) -/
theorem connWindowUpdate_exact {full : Bool} {g : Ghost} {s : Streams} (h : Inv full g s) (w : Writer) (incr : Nat)
    (hu : s.recv.flow.unclaimedCapacity = some incr) (hcap : w.hasCapacity = true) :
    (incr : Int) = cA s - cW s ∧ 0 < incr ∧
    (s.sendConnectionWindowUpdate w).2.1 = w.bufferSimple 4 s!"W:0:{incr}" ∧
    cW (s.sendConnectionWindowUpdate w).1 = cA s ∧ cA (s.sendConnectionWindowUpdate w).1 = cA s ∧
    cI (s.sendConnectionWindowUpdate w).1 = cI s := by
  have hW := h.w0
  have hA := (inI32_iff _).1 h.aI32
  simp only [cW, cA, cI] at hW hA ⊢
  have hinc := incWindow_unclaimed h.wI32 h.aI32 hu (by omega)
  unfold Streams.sendConnectionWindowUpdate
  rw [hu]
  dsimp only
  simp only [hcap, Bool.not_true, Bool.false_eq_true, if_false]
  rw [hinc.2.2]
  exact ⟨hinc.1, hinc.2.1, rfl, rfl, rfl, rfl⟩

/-- with nothing in flight and the window at most half the target, a WINDOW_UPDATE restoring the
    whole target is owed -/
theorem connWindow_restored {full : Bool} {g : Ghost} {s : Streams} (h : Inv full g s) (h0 : cI s = 0)
    (hhalf : 2 * cW s ≤ (g.target : Int)) (hpos : cW s < (g.target : Int)) :
    cA s = (g.target : Int) ∧ s.recv.flow.unclaimedCapacity = some (g.target - (cW s).toNat) := by
  have hcons := h.cons
  have hw0 := h.w0
  have hA := (inI32_iff _).1 h.aI32
  have hav : cA s = (g.target : Int) := by omega
  refine ⟨hav, ?_⟩
  simp only [cW, cA, cI] at *
  have hd : inI32 (s.recv.flow.available.val - s.recv.flow.windowSize.val) = true := by
    apply inI32_of_range <;> omega
  rw [unclaimedCapacity_spec _ _ h.wI32 h.aI32 hd]
  have hthr := unclaimedThreshold_le_window (f := s.recv.flow) hw0
  refine ⟨by omega, by omega, ?_⟩
  -- threshold = window / 2 (truncated) ≤ window ≤ target − window
  unfold unclaimedThreshold at hthr ⊢
  have h2 : (Generated.Consts.UNCLAIMED_DENOMINATOR : Int) = 2 := by decide
  have h1 : (Generated.Consts.UNCLAIMED_NUMERATOR : Int) = 1 := by decide
  rw [h1, h2] at hthr ⊢
  omega

theorem notifyTask_store (s : Streams) : s.notifyTask.store = s.store := by
  unfold Streams.notifyTask; split <;> rfl
theorem notifyTask_recv (s : Streams) : s.notifyTask.recv.flow = s.recv.flow ∧ s.notifyTask.recv.inFlightData = s.recv.inFlightData := by
  unfold Streams.notifyTask; split <;> exact ⟨rfl, rfl⟩

theorem qPush_get? (s : Streams) (q : QName) (id : Nat) {x : Stream} (hx : s.store.get? id = some x) :
    ∃ x', (s.qPush q id).1.store.get? id = some x' ∧ x'.recvFlow = x.recvFlow ∧
      x'.inFlightRecvData = x.inFlightRecvData := by
  unfold Streams.qPush
  split
  · exact ⟨x, hx, rfl, rfl⟩
  · refine ⟨x.setQueued q true, ?_, (setQueued_same x q true).flow, (setQueued_same x q true).infl⟩
    show ((s.modStream id fun st => st.setQueued q true).setQ q _).store.get? id = _
    rw [setQ_store, get?_modStream _ _ _ (fun y => (setQueued_same y q true).key), hx]; rfl

/-- **an application release is credited exactly once**: `release_capacity(cap)` = `Ok` moves `cap`
    octets from the connection's `in_flight_data` to its `available` and from the stream's
    `in_flight_recv_data` to the stream's `available`; the windows the peer sees do not move -/
theorem releaseCapacity_exact {full : Bool} {g : Ghost} {s : Streams} (h : Inv full g s) (id cap : Nat) (b : Bool)
    (hok : (s.releaseCapacity id cap b).2 = .ok ()) :
    cap ≤ (s.stream id).inFlightRecvData ∧
    cW (s.releaseCapacity id cap b).1 = cW s ∧ cA (s.releaseCapacity id cap b).1 = cA s + cap ∧
    cI (s.releaseCapacity id cap b).1 = cI s - cap ∧
    ∀ x, s.store.get? id = some x → ∃ x', (s.releaseCapacity id cap b).1.store.get? id = some x' ∧
      x'.inFlightRecvData = x.inFlightRecvData - cap ∧ x'.recvFlow = (x.recvFlow.assignCapacity cap).1 := by
  unfold Streams.releaseCapacity at hok ⊢
  split at hok
  · cases hok
  · next hgt =>
    rw [if_neg hgt]
    have hcap : cap ≤ (s.stream id).inFlightRecvData := by omega
    have hcI : cap ≤ cI s := by
      cases hg : s.store.get? id with
      | none => rw [stream_of_get?_none hg] at hcap; simp at hcap; omega
      | some x =>
        rw [stream_eq_of_get? hg] at hcap
        have := (h.infl_le (Int.le_refl 0) (get?_mem hg).1).1
        omega
    have hre := release_exact h cap b hcI
    obtain ⟨-, hst1⟩ := releaseConnectionCapacity_inv h cap b hcI
    refine ⟨hcap, ?_⟩
    dsimp only
    have ha2 := modStream_actions (s.releaseConnectionCapacity cap b) id (fun st =>
      { st with inFlightRecvData := wrapSubU32 st.inFlightRecvData cap, recvFlow := (st.recvFlow.assignCapacity cap).1 })
    have hg2 := get?_modStream (s.releaseConnectionCapacity cap b) id (fun st =>
      { st with inFlightRecvData := wrapSubU32 st.inFlightRecvData cap, recvFlow := (st.recvFlow.assignCapacity cap).1 })
      (fun _ => rfl)
    rw [hst1] at hg2
    generalize ((s.releaseConnectionCapacity cap b).modStream id fun st =>
      { st with inFlightRecvData := wrapSubU32 st.inFlightRecvData cap, recvFlow := (st.recvFlow.assignCapacity cap).1 }) = s2
      at ha2 hg2 ⊢
    have hconn2 : cW s2 = cW s ∧ cA s2 = cA s + cap ∧ cI s2 = cI s - cap := by
      unfold cW cA cI Streams.recv at *
      rw [ha2]; exact hre
    -- the stream entry after the update
    have hstream2 : ∀ x, s.store.get? id = some x → ∃ x2, s2.store.get? id = some x2 ∧
        x2.inFlightRecvData = x.inFlightRecvData - cap ∧ x2.recvFlow = (x.recvFlow.assignCapacity cap).1 := by
      intro x hx
      rw [hx] at hg2
      refine ⟨_, hg2, ?_, rfl⟩
      rw [stream_eq_of_get? hx] at hcap
      have hb := (h.infl_le (Int.le_refl 0) (get?_mem hx).1)
      exact wrapSubU32_of_le (by omega) hcap
    split
    · -- queued for a WINDOW_UPDATE
      have hq := (qPush_ext s2 .pendingWindowUpdates id)
      have hconn3 : cW (s2.qPush .pendingWindowUpdates id).1 = cW s ∧ cA (s2.qPush .pendingWindowUpdates id).1 = cA s + cap ∧
          cI (s2.qPush .pendingWindowUpdates id).1 = cI s - cap := by
        unfold cW cA cI at *; rw [hq.flow, hq.infl]; exact hconn2
      have hstream3 : ∀ x, s.store.get? id = some x → ∃ x3, (s2.qPush .pendingWindowUpdates id).1.store.get? id = some x3 ∧
          x3.inFlightRecvData = x.inFlightRecvData - cap ∧ x3.recvFlow = (x.recvFlow.assignCapacity cap).1 := by
        intro x hx
        obtain ⟨x2, hx2, h1, h2⟩ := hstream2 x hx
        obtain ⟨x3, hx3, h3, h4⟩ := qPush_get? s2 .pendingWindowUpdates id hx2
        exact ⟨x3, hx3, by rw [h4, h1], by rw [h3, h2]⟩
      dsimp only
      split
      · refine ⟨?_, ?_, ?_, fun x hx => ?_⟩
        · unfold cW at *; rw [(notifyTask_recv _).1]; exact hconn3.1
        · unfold cA at *; rw [(notifyTask_recv _).1]; exact hconn3.2.1
        · unfold cI at *; rw [(notifyTask_recv _).2]; exact hconn3.2.2
        · rw [notifyTask_store]; exact hstream3 x hx
      · exact ⟨hconn3.1, hconn3.2.1, hconn3.2.2, hstream3⟩
    · exact ⟨hconn2.1, hconn2.2.1, hconn2.2.2, hstream2⟩

/-- a stream with nothing in flight whose window is at most half the initial window size: the whole
    difference is owed -/
theorem streamWindow_restored {g : Ghost} {s : Streams} (h : Inv true g s) {x : Stream} (hx : x ∈ s.store.slab)
    (hl : linked s x.key) (hc : x.state.isClosed = false) (hr : x.isRecv = true) (h0 : x.inFlightRecvData = 0)
    (hhalf : 2 * x.recvFlow.windowSize.val ≤ (s.recv.initWindowSz : Int))
    (hlt : x.recvFlow.windowSize.val < (s.recv.initWindowSz : Int)) :
    x.recvFlow.available.val = (s.recv.initWindowSz : Int) ∧
    x.recvFlow.unclaimedCapacity = some ((s.recv.initWindowSz : Int) - x.recvFlow.windowSize.val).toNat := by
  have ok := h.streams rfl x hx
  have hM := h.initMax
  have hav : x.recvFlow.available.val = (s.recv.initWindowSz : Int) := by
    rcases ok.bud hl with hcl | hb
    · rw [hc] at hcl; cases hcl
    · have := hb.2 hr; omega
  have hlive : x.recvFlow.available.val - x.recvFlow.windowSize.val + (x.inFlightRecvData : Int) ≤ (g.hiInit : Int) := by
    rcases ok.live with hcl | hlv
    · rw [hc] at hcl; cases hcl
    · exact hlv.1
  refine ⟨hav, ?_⟩
  have hd : inI32 (x.recvFlow.available.val - x.recvFlow.windowSize.val) = true := by
    apply inI32_of_range <;> omega
  rw [unclaimedCapacity_spec _ _ ok.wI32 ok.aI32 hd]
  refine ⟨by omega, by rw [hav], ?_⟩
  by_cases hw : 0 ≤ x.recvFlow.windowSize.val
  · have := unclaimedThreshold_le_window (f := x.recvFlow) hw
    omega
  · have := unclaimedThreshold_nonpos (f := x.recvFlow) (by omega)
    omega

-- ===================================================================== release_closed_capacity

theorem modStream_recv (s : Streams) (id : Nat) (f : Stream → Stream) : (s.modStream id f).recv = s.recv := by
  unfold Streams.recv; rw [modStream_actions]

/-- `clear_recv_buffer` on a stream with nothing in flight only empties the buffer -/
theorem clearRecvBuffer_zero (s : Streams) (id : Nat) (b : Bool) (h0 : (s.stream id).inFlightRecvData = 0) :
    (s.clearRecvBuffer id b).recv = s.recv ∧
    (s.clearRecvBuffer id b).store.get? id = (s.store.get? id).map fun st => { st with pendingRecv := [] } := by
  unfold Streams.clearRecvBuffer
  dsimp only
  cases hl : clearRecvBufferLoop (s.stream id).inFlightRecvData (s.stream id).pendingRecv 0 s.counts with
  | mk tr c =>
    have htr : tr ≤ (s.stream id).inFlightRecvData := by
      have := clearRecvBufferLoop_le (s.stream id).inFlightRecvData (s.stream id).pendingRecv 0 s.counts (Nat.zero_le _)
      rw [hl] at this; exact this
    dsimp only
    have : ¬ tr > 0 := by omega
    rw [if_neg this]
    exact ⟨modStream_recv _ _ _, get?_modStream _ id _ (fun _ => rfl)⟩

/-- **`Recv::release_closed_capacity(stream)`, exactly**: everything the stream has in flight — `n`
    octets — moves from `in_flight_data` to `available` on the connection, once; the window the
    peer sees does not move; afterwards the stream has nothing in flight -/
theorem releaseClosedCapacity_exact {full : Bool} {g : Ghost} {s : Streams} (h : Inv full g s) (id : Nat)
    {x : Stream} (hx : s.store.get? id = some x) :
    x.inFlightRecvData ≤ cI s ∧
    cW (s.releaseClosedCapacity id) = cW s ∧
    cA (s.releaseClosedCapacity id) = cA s + x.inFlightRecvData ∧
    cI (s.releaseClosedCapacity id) = cI s - x.inFlightRecvData ∧
    ∃ x', (s.releaseClosedCapacity id).store.get? id = some x' ∧ x'.inFlightRecvData = 0 ∧
      x'.recvFlow = x.recvFlow ∧ x'.pendingRecv = [] := by
  have hb := (h.infl_le (Int.le_refl 0) (get?_mem hx).1)
  refine ⟨hb.1, ?_⟩
  unfold Streams.releaseClosedCapacity
  dsimp only
  rw [stream_eq_of_get? hx]
  split
  · next hne =>
    obtain ⟨hW, hA, hI⟩ := release_exact h x.inFlightRecvData true hb.1
    have hst1 := (releaseConnectionCapacity_inv h x.inFlightRecvData true hb.1).2
    have hg2 := get?_modStream (s.releaseConnectionCapacity x.inFlightRecvData true) id
      (fun st => { st with inFlightRecvData := 0 }) (fun _ => rfl)
    rw [hst1, hx] at hg2
    have hr2 := modStream_recv (s.releaseConnectionCapacity x.inFlightRecvData true) id
      (fun st => { st with inFlightRecvData := 0 })
    generalize ((s.releaseConnectionCapacity x.inFlightRecvData true).modStream id fun st =>
        { st with inFlightRecvData := 0 }) = s2 at hg2 hr2 ⊢
    have h0 : (s2.stream id).inFlightRecvData = 0 := by rw [stream_eq_of_get? hg2]
    obtain ⟨hr3, hg3⟩ := clearRecvBuffer_zero s2 id true h0
    rw [hg2] at hg3
    refine ⟨?_, ?_, ?_, _, hg3, rfl, rfl, rfl⟩
    · unfold cW at *; rw [hr3, hr2]; exact hW
    · unfold cA at *; rw [hr3, hr2]; exact hA
    · unfold cI at *; rw [hr3, hr2]; exact hI
  · next he =>
    have he' : x.inFlightRecvData = 0 := by simpa using he
    have h0 : (s.stream id).inFlightRecvData = 0 := by rw [stream_eq_of_get? hx]; exact he'
    obtain ⟨hr3, hg3⟩ := clearRecvBuffer_zero s id true h0
    rw [hx] at hg3
    refine ⟨?_, ?_, ?_, _, hg3, he', rfl, rfl⟩
    · unfold cW; rw [hr3]
    · unfold cA; rw [hr3, he']; simp
    · unfold cI; rw [hr3, he']; simp

end H2V.Lemmas.ConnRecvP
