import H2V.Lemmas.ConnRecvPReach
/-
  C03 — part 14: exact effects of the receive flow-control primitives on the connection's books
  (window / available / in_flight_data), and the consequences of the invariant that the property
  theorems quote.
-/
namespace H2V.Lemmas.ConnRecvP
open H2V H2V.Model H2V.Model.Conn
open H2V.Model.Conn.Streams
open H2V.Lemmas.Comp
attribute [local irreducible] wrapSubU32 wrapSubUsize

/-- `consume_connection_window(sz)` = `Ok`: window and available down by `sz`, in flight up by `sz` -/
theorem consume_exact {full : Bool} {g : Ghost} {d : Int} {s : Streams} (h : InvD full g d s) (sz : Nat)
    (hok : (s.consumeConnectionWindow sz).2 = .ok ()) :
    cW (s.consumeConnectionWindow sz).1 = cW s - sz ∧ cA (s.consumeConnectionWindow sz).1 = cA s - sz ∧
    cI (s.consumeConnectionWindow sz).1 = cI s + sz := by
  have hb := h.cI_bound
  have hA := (inI32_iff _).1 h.aI32
  have hw0 := h.w0
  have hwhi := h.wI
  have hhi := h.hiMax
  have htHi := h.tHi
  have hcons := h.cons
  simp only [cW, cA, cI] at hb hA hw0 hwhi hcons ⊢
  unfold Streams.consumeConnectionWindow at hok ⊢
  split at hok
  · cases hok
  · next hlt =>
    rw [if_neg hlt]
    have hsz : (sz : Int) ≤ s.recv.flow.windowSize.val := by
      have h1 : (s.recv.flow.windowSize.asSize : Int) = s.recv.flow.windowSize.val := asSize_of_nonneg hw0
      have h2 : ¬ (s.recv.flow.windowSize.asSize < sz) := hlt
      omega
    have hu : u32AsI32 sz = (sz : Int) := u32AsI32_of_lt (by omega)
    cases hp : s.recv.flow.sendData sz with
    | mk fl r =>
      rw [hp] at hok
      cases r with
      | error e =>
        cases e with
        | assertFailed =>
          exfalso
          have := (sendData_assert_iff s.recv.flow sz).1 (by rw [hp])
          rw [hu] at this; omega
        | reason rr => cases hok
      | ok u =>
        dsimp only
        by_cases h0 : sz = 0
        · subst h0
          rw [sendData_zero] at hp
          cases hp
          have hI : wrapAddU32 s.recv.inFlightData 0 = s.recv.inFlightData := by
            apply wrapAddU32_of_lt; omega
          refine ⟨by show s.recv.flow.windowSize.val = _; omega, by show s.recv.flow.available.val = _; omega, ?_⟩
          show wrapAddU32 s.recv.inFlightData 0 = _
          rw [hI]; rfl
        · have hok' := sendData_ok' (by omega) hp
          rw [hu] at hok'
          have hI : wrapAddU32 s.recv.inFlightData sz = s.recv.inFlightData + sz := by
            apply wrapAddU32_of_lt
            have := (inI32_iff _).1 hok'.2.2.2.2
            omega
          exact ⟨hok'.2.1, hok'.2.2.1, hI⟩

/-- `release_connection_capacity(cap)`: available up by `cap`, in flight down by `cap`, window
    untouched -/
theorem release_exact {full : Bool} {g : Ghost} {d : Int} {s : Streams} (h : InvD full g d s) (cap : Nat) (b : Bool)
    (hc : cap ≤ cI s) :
    cW (s.releaseConnectionCapacity cap b) = cW s ∧ cA (s.releaseConnectionCapacity cap b) = cA s + cap ∧
    cI (s.releaseConnectionCapacity cap b) = cI s - cap := by
  have hb := h.cI_bound
  have hA := (inI32_iff _).1 h.aI32
  have hw0 := h.w0
  have hwhi := h.wI
  have hhi := h.hiMax
  have hcons := h.cons
  have htHi := h.tHi
  simp only [cW, cA, cI] at hb hA hw0 hwhi hcons hc ⊢
  have hu : u32AsI32 cap = (cap : Int) := u32AsI32_of_lt (by omega)
  have hsub : wrapSubU32 s.recv.inFlightData cap = s.recv.inFlightData - cap := wrapSubU32_of_le hb.2 hc
  have hassign : (s.recv.flow.assignCapacity cap).1 = { s.recv.flow with available := ⟨s.recv.flow.available.val + cap⟩ } := by
    rw [Flow.assignCapacity_eq, hu]
    have : inI32 (s.recv.flow.available.val + (cap : Int)) = true := by apply inI32_of_range <;> omega
    simp [this]
  have key : ∀ s' : Streams, s'.recv = (s.modRecv fun r => { r with inFlightData := wrapSubU32 r.inFlightData cap, flow := (r.flow.assignCapacity cap).1 }).recv →
      s'.recv.flow.windowSize.val = s.recv.flow.windowSize.val ∧
      s'.recv.flow.available.val = s.recv.flow.available.val + cap ∧
      s'.recv.inFlightData = s.recv.inFlightData - cap := by
    intro s' hs'
    rw [hs']
    show (s.recv.flow.assignCapacity cap).1.windowSize.val = _ ∧ (s.recv.flow.assignCapacity cap).1.available.val = _ ∧
      wrapSubU32 s.recv.inFlightData cap = _
    rw [hassign, hsub]
    exact ⟨rfl, rfl, rfl⟩
  unfold Streams.releaseConnectionCapacity
  dsimp only
  split
  · apply key
    unfold Streams.notifyTask
    split <;> rfl
  · exact key _ rfl

/-- **discarded DATA is credited back exactly**: after `ignore_data(sz)` = `Ok` the connection's
    `available` and `in_flight_data` are what they were; only the window the peer sees is lower by
    `sz` (the next WINDOW_UPDATE gives it back) -/
theorem ignoreData_exact {full : Bool} {g : Ghost} {s : Streams} (h : Inv full g s) (sz : Nat)
    (hok : (s.ignoreData sz).2 = .ok ()) :
    cW (s.ignoreData sz).1 = cW s - sz ∧ cA (s.ignoreData sz).1 = cA s ∧ cI (s.ignoreData sz).1 = cI s := by
  obtain ⟨-, -, hcok⟩ := consume_inv h sz
  unfold Streams.ignoreData at hok ⊢
  cases hc : s.consumeConnectionWindow sz with
  | mk s1 r =>
    rw [hc] at hok hcok
    cases r with
    | error e => cases hok
    | ok u =>
      have hex := consume_exact h sz (by rw [hc])
      rw [hc] at hex
      dsimp only at hex hcok ⊢
      obtain ⟨h1, -⟩ := hcok rfl
      have hcI : sz ≤ cI s1 := by rw [hex.2.2]; omega
      have hre := release_exact h1 sz false hcI
      rw [hre.1, hre.2.1, hre.2.2, hex.1, hex.2.1, hex.2.2]
      omega

/-- **the connection's WINDOW_UPDATE never over-credits**: when `send_connection_window_update`
    emits one, its increment is exactly `available − window` and the window becomes `available`
    (= target − in flight) -/
theorem connWindowUpdate_exact {full : Bool} {g : Ghost} {s : Streams} (h : Inv full g s) (w : Writer) (incr : Nat)
    (hu : s.recv.flow.unclaimedCapacity = some incr) (hcap : w.hasCapacity = true) :
    (incr : Int) = cA s - cW s ∧ 0 < incr ∧
    (s.sendConnectionWindowUpdate w).2.1 = w.bufferSimple 4 s!"W:0:{incr}" ∧
    cW (s.sendConnectionWindowUpdate w).1 = cA s ∧ cA (s.sendConnectionWindowUpdate w).1 = cA s ∧
    cI (s.sendConnectionWindowUpdate w).1 = cI s := by
  have hW := h.w0
  have hA := (inI32_iff _).1 h.aI32
  simp only [cW, cA, cI] at hW hA ⊢
  have hinc := incWindow_unclaimed h.wI32 h.aI32 hu (by omega)
  unfold Streams.sendConnectionWindowUpdate
  rw [hu]
  dsimp only
  simp only [hcap, Bool.not_true, Bool.false_eq_true, if_false]
  rw [hinc.2.2]
  exact ⟨hinc.1, hinc.2.1, rfl, rfl, rfl, rfl⟩

/-- with nothing in flight and the window at most half the target, a WINDOW_UPDATE restoring the
    whole target is owed -/
theorem connWindow_restored {full : Bool} {g : Ghost} {s : Streams} (h : Inv full g s) (h0 : cI s = 0)
    (hhalf : 2 * cW s ≤ (g.target : Int)) (hpos : cW s < (g.target : Int)) :
    cA s = (g.target : Int) ∧ s.recv.flow.unclaimedCapacity = some (g.target - (cW s).toNat) := by
  have hcons := h.cons
  have hw0 := h.w0
  have hA := (inI32_iff _).1 h.aI32
  have hav : cA s = (g.target : Int) := by omega
  refine ⟨hav, ?_⟩
  simp only [cW, cA, cI] at *
  have hd : inI32 (s.recv.flow.available.val - s.recv.flow.windowSize.val) = true := by
    apply inI32_of_range <;> omega
  rw [unclaimedCapacity_spec _ _ h.wI32 h.aI32 hd]
  have hthr := unclaimedThreshold_le_window (f := s.recv.flow) hw0
  refine ⟨by omega, by omega, ?_⟩
  -- threshold = window / 2 (truncated) ≤ window ≤ target − window
  unfold unclaimedThreshold at hthr ⊢
  have h2 : (Generated.Consts.UNCLAIMED_DENOMINATOR : Int) = 2 := by decide
  have h1 : (Generated.Consts.UNCLAIMED_NUMERATOR : Int) = 1 := by decide
  rw [h1, h2] at hthr ⊢
  omega

end H2V.Lemmas.ConnRecvP
