import H2V.Lemmas.ConnRecvPTacInv
import H2V.Lemmas.ConnRecvPRecv
/-
  C03 — part 6: the receive flow-control operations of `ConnRecv.lean` preserve the invariant
  (`consume_connection_window`, `release_connection_capacity`, `release_capacity`,
  `clear_recv_buffer`, `release_closed_capacity`, `ignore_data`, `recv_data`,
  `send_connection_window_update`, `send_stream_window_updates`, `set_target_connection_window`).
-/
namespace H2V.Lemmas.ConnRecvP
open H2V H2V.Model H2V.Model.Conn
open H2V.Model.Conn.Streams
open H2V.Lemmas.Comp
attribute [local irreducible] wrapSubU32 wrapSubUsize

theorem wrapSubU32_of_le {a b : Nat} (ha : a < 4294967296) (hb : b ≤ a) : wrapSubU32 a b = a - b := by
  unfold wrapSubU32 U32_MOD; omega

theorem wrapAddU32_of_lt {a b : Nat} (h : a + b < 4294967296) : wrapAddU32 a b = a + b := by
  unfold wrapAddU32 U32_MOD; omega

theorem usizeAsU32_lt (x : Nat) : usizeAsU32 x < 4294967296 := by
  unfold usizeAsU32 U32_MOD; omega

-- ===================================================================== updating one slab entry

theorem sumInfl_set_aux {l : List Stream} (hn : (l.map (·.key)).Nodup) {x x' : Stream} (k : Nat) (hx : x ∈ l)
    (hk : x.key = k) :
    sumInfl (l.map fun y => if y.key == k then x' else y) + x.inFlightRecvData =
      sumInfl l + x'.inFlightRecvData := by
  induction l with
  | nil => cases hx
  | cons z l ih =>
    simp only [List.map_cons, List.nodup_cons, List.mem_map, not_exists, not_and] at hn
    rcases List.mem_cons.1 hx with hxz | hxl
    · -- the head is the entry; the tail has no entry with this key
      subst hxz
      have htail : (l.map fun y => if y.key == k then x' else y) = l := by
        conv => rhs; rw [← List.map_id l]
        apply List.map_congr_left
        intro y hy
        have : y.key ≠ k := by rw [← hk]; exact hn.1 y hy
        simp [this]
      rw [List.map_cons, htail]
      have : (x.key == k) = true := by simp [hk]
      simp only [this, if_true, sumInfl_cons]
      omega
    · have hz : (z.key == k) = false := by
        have : z.key ≠ k := by rw [← hk]; intro hc; exact hn.1 x hxl hc.symm
        simpa using this
      have := ih hn.2 hxl
      rw [List.map_cons]
      simp only [hz, Bool.false_eq_true, if_false, sumInfl_cons]
      omega

theorem sumInfl_set {l : List Stream} (hn : (l.map (·.key)).Nodup) {x x' : Stream} (hx : x ∈ l) (hk : x'.key = x.key) :
    sumInfl (l.map fun y => if y.key == x'.key then x' else y) + x.inFlightRecvData =
      sumInfl l + x'.inFlightRecvData :=
  sumInfl_set_aux hn x'.key hx hk.symm

theorem StreamOK.of_same {s s' : Streams} {g : Ghost} {x : Stream} (hids : s'.store.ids = s.store.ids)
    (hinit : s'.recv.initWindowSz = s.recv.initWindowSz) (h : StreamOK s g x) : StreamOK s' g x :=
  ⟨h.wI32, h.aI32, h.wa, h.live, fun hl => by
    have hl' : linked s x.key := by unfold linked at *; rw [hids] at hl; exact hl
    rw [hinit]; exact h.bud hl'⟩

/-- the connection fields `Inv` looks at -/
theorem cW_setStream (s : Streams) (x : Stream) : cW (s.setStream x) = cW s := rfl
theorem cA_setStream (s : Streams) (x : Stream) : cA (s.setStream x) = cA s := rfl
theorem cI_setStream (s : Streams) (x : Stream) : cI (s.setStream x) = cI s := rfl

/-- replace the slab entry `x` by `x'` (same key): the invariant holds again when the new entry is
    fine and the books balance (`d'` absorbs the change of `in_flight_recv_data`) -/
theorem InvD.setStream {full : Bool} {g : Ghost} {d d' : Int} {s : Streams} {x x' : Stream} (h : InvD full g d s)
    (hx : s.store.get? x.key = some x) (hk : x'.key = x.key)
    (hsum : (x'.inFlightRecvData : Int) + d' ≤ (x.inFlightRecvData : Int) + d)
    (hok : full = true → StreamOK s g x → StreamOK s g x') : InvD full g d' (s.setStream x') := by
  have hxm := (get?_mem hx).1
  have hkeys : (s.setStream x').store.slab.map (·.key) = s.store.slab.map (·.key) := by
    show (s.store.slab.map fun y => if y.key == x'.key then x' else y).map (·.key) = _
    rw [List.map_map]
    apply List.map_congr_left
    intro y _
    simp only [Function.comp]
    split
    · next hc => rw [hk]; have : y.key = x'.key := by simpa using hc
                 rw [this, hk]
    · rfl
  refine ⟨⟨by rw [hkeys]; exact h.keys.nodup, ?_, h.keys.idsNodup, h.keys.idsIdNodup, h.keys.idsLt⟩,
    h.wI32, h.aI32, h.cons, h.w0, h.wI, h.tHi, h.hiMax, ?_, h.initHi, h.initMax, ?_⟩
  · intro y' hy'
    have : y'.key ∈ (s.setStream x').store.slab.map (·.key) := List.mem_map_of_mem hy'
    rw [hkeys] at this
    obtain ⟨y, hy, hyk⟩ := List.mem_map.1 this
    show y'.key < s.store.nextKey
    rw [← hyk]; exact h.keys.lt y hy
  · have := sumInfl_set h.keys.nodup hxm hk
    have hs := h.sum
    show (sumInfl (s.store.slab.map fun y => if y.key == x'.key then x' else y) : Int) + d' ≤ (cI s : Int)
    omega
  · intro hf y' hy'
    have hy'' : y' ∈ s.store.slab.map fun y => if y.key == x'.key then x' else y := hy'
    obtain ⟨y, hy, rfl⟩ := List.mem_map.1 hy''
    by_cases hc : y.key = x'.key
    · have hyx : y = x := eq_of_key_eq h.keys.nodup hy hxm (by rw [hc, hk])
      subst hyx
      simp only [hc, beq_self_eq_true, if_true]
      exact StreamOK.of_same (s := s) rfl rfl (hok hf (h.streams hf y hy))
    · simp only [hc, beq_iff_eq, if_false]
      exact StreamOK.of_same (s := s) rfl rfl (h.streams hf y hy)

/-- `modStream` form -/
theorem InvD.modStream {full : Bool} {g : Ghost} {d d' : Int} {s : Streams} (id : Nat) (f : Stream → Stream)
    (h : InvD full g d s) (hd : s.store.get? id = none → d' ≤ d)
    (hk : ∀ x, (f x).key = x.key)
    (hsum : ∀ x, s.store.get? id = some x → ((f x).inFlightRecvData : Int) + d' ≤ (x.inFlightRecvData : Int) + d)
    (hok : full = true → ∀ x, s.store.get? id = some x → StreamOK s g x → StreamOK s g (f x)) :
    InvD full g d' (s.modStream id f) := by
  unfold Streams.modStream
  split
  · next x hx =>
    have hxk := (get?_mem hx).2
    exact h.setStream (by rw [hxk]; exact hx) (hk x) (hsum x hx) (fun hf => hok hf x hx)
  · next hn => exact (h.weaken (hd hn)).of_ext (panic_ext _ _)

theorem StreamOK.of_ghost {s : Streams} {g g' : Ghost} {x : Stream} (hg : g'.hiInit = g.hiInit) (h : StreamOK s g x) :
    StreamOK s g' x :=
  ⟨h.wI32, h.aI32, h.wa, by rw [hg]; exact h.live, h.bud⟩

/-- replace the connection's receive `FlowControl` and `in_flight_data` (and the configured target) -/
theorem InvD.setConn' {full : Bool} {g : Ghost} {d d' : Int} {s : Streams} (h : InvD full g d s) (g' : Ghost)
    (hgi : g'.hiInit = g.hiInit)
    (f : Recv → Recv) (hinit : (f s.recv).initWindowSz = s.recv.initWindowSz)
    (hw : inI32 (f s.recv).flow.windowSize.val = true) (ha : inI32 (f s.recv).flow.available.val = true)
    (hcons : (f s.recv).flow.available.val + ((f s.recv).inFlightData : Int) = (g'.target : Int))
    (hw0 : 0 ≤ (f s.recv).flow.windowSize.val)
    (hwhi : (f s.recv).flow.windowSize.val + ((f s.recv).inFlightData : Int) ≤ (g'.hiTarget : Int))
    (htHi : g'.target ≤ g'.hiTarget) (hmax : g'.hiTarget ≤ 2147483647)
    (hsum : (sumInfl s.store.slab : Int) + d' ≤ ((f s.recv).inFlightData : Int)) :
    InvD full g' d' (s.modRecv f) :=
  ⟨h.keys, hw, ha, hcons, hw0, hwhi, htHi, hmax, hsum,
   by show (f s.recv).initWindowSz ≤ _; rw [hinit, hgi]; exact h.initHi,
   by rw [hgi]; exact h.initMax,
   fun hf x hx => StreamOK.of_ghost hgi (StreamOK.of_same (s := s) rfl hinit (h.streams hf x hx))⟩

/-- replace the connection's receive `FlowControl` and `in_flight_data` -/
theorem InvD.setConn {full : Bool} {g : Ghost} {d d' : Int} {s : Streams} (h : InvD full g d s)
    (f : Recv → Recv) (hinit : (f s.recv).initWindowSz = s.recv.initWindowSz)
    (hw : inI32 (f s.recv).flow.windowSize.val = true) (ha : inI32 (f s.recv).flow.available.val = true)
    (hcons : (f s.recv).flow.available.val + ((f s.recv).inFlightData : Int) = (g.target : Int))
    (hw0 : 0 ≤ (f s.recv).flow.windowSize.val)
    (hwhi : (f s.recv).flow.windowSize.val + ((f s.recv).inFlightData : Int) ≤ (g.hiTarget : Int))
    (hsum : (sumInfl s.store.slab : Int) + d' ≤ ((f s.recv).inFlightData : Int)) :
    InvD full g d' (s.modRecv f) :=
  h.setConn' g rfl f hinit hw ha hcons hw0 hwhi h.tHi h.hiMax hsum

/-- `in_flight_data` is a genuine `u32`, with room for what the window still allows -/
theorem InvD.cI_bound {full : Bool} {g : Ghost} {d : Int} {s : Streams} (h : InvD full g d s) :
    (cI s : Int) = (g.target : Int) - cA s ∧ cI s < 4294967296 := by
  have h1 := h.cons
  have h2 := (inI32_iff _).1 h.aI32
  have h3 := h.tHi
  have h4 := h.hiMax
  constructor <;> omega

-- ===================================================================== consume_connection_window

theorem panic_store (s : Streams) (m : String) : (s.panic m).store = s.store := by
  unfold Streams.panic; split <;> rfl
theorem panic_actions (s : Streams) (m : String) : (s.panic m).actions = s.actions := by
  unfold Streams.panic; split <;> rfl

theorem asSize_of_nonneg {w : Window} (h : 0 ≤ w.val) : (w.asSize : Int) = w.val := by
  unfold Window.asSize
  have : ¬ w.val < 0 := by omega
  simp only [this, if_false]
  omega

/-- what `Recv::consume_connection_window` leaves behind: on `Ok` the connection window and
    `available` went down by `sz`, `in_flight_data` up by `sz` — `sz` octets of slack; on `Err` the
    invariant still holds (possibly with the window alone decreased: the partial update of
    `FlowControl::send_data`); the `assert!` cannot fire -/
theorem consume_inv {full : Bool} {g : Ghost} {d : Int} {s : Streams} (h : InvD full g d s) (sz : Nat) :
    (s.consumeConnectionWindow sz).1.store = s.store ∧
    (∀ e, (s.consumeConnectionWindow sz).2 = .error e → InvD full g d (s.consumeConnectionWindow sz).1) ∧
    ((s.consumeConnectionWindow sz).2 = .ok () →
      InvD full g (d + sz) (s.consumeConnectionWindow sz).1 ∧ sz ≤ 2147483647) := by
  have hb := h.cI_bound
  have hW := (inI32_iff _).1 h.wI32
  have hA := (inI32_iff _).1 h.aI32
  have hw0 := h.w0
  have hwhi := h.wI
  have hhi := h.hiMax
  have hcons := h.cons
  have hsum := h.sum
  have htHi := h.tHi
  simp only [cW, cA, cI] at hb hW hA hw0 hwhi hcons hsum
  unfold Streams.consumeConnectionWindow
  split
  · exact ⟨rfl, fun _ _ => h, fun hc => nomatch hc⟩
  · next hlt =>
    have hsz : (sz : Int) ≤ s.recv.flow.windowSize.val := by
      have h1 : (s.recv.flow.windowSize.asSize : Int) = s.recv.flow.windowSize.val := asSize_of_nonneg hw0
      have h2 : ¬ (s.recv.flow.windowSize.asSize < sz) := hlt
      omega
    have hu : u32AsI32 sz = (sz : Int) := u32AsI32_of_lt (by omega)
    cases hp : s.recv.flow.sendData sz with
    | mk fl r =>
      cases r with
      | error e =>
        cases e with
        | assertFailed =>
          exfalso
          have := (sendData_assert_iff s.recv.flow sz).1 (by rw [hp])
          rw [hu] at this
          omega
        | reason rr =>
          dsimp only
          refine ⟨rfl, fun _ _ => ?_, fun hc => nomatch hc⟩
          have he := sendData_err hp
          refine h.setConn _ rfl ?_ ?_ ?_ ?_ ?_ hsum
          · show inI32 fl.windowSize.val = true
            rcases he.2 with rfl | hpart
            · exact h.wI32
            · rw [hpart.2.1]; exact hpart.2.2.2.1
          · show inI32 fl.available.val = true
            rw [he.1]; exact h.aI32
          · show fl.available.val + _ = _
            rw [he.1]; exact hcons
          · show 0 ≤ fl.windowSize.val
            rcases he.2 with rfl | hpart
            · exact hw0
            · rw [hpart.2.1, hu]; omega
          · show fl.windowSize.val + (s.recv.inFlightData : Int) ≤ _
            rcases he.2 with rfl | hpart
            · exact hwhi
            · rw [hpart.2.1, hu]; omega
      | ok u =>
        dsimp only
        refine ⟨rfl, fun _ hc => (nomatch hc), fun _ => ?_⟩
        refine ⟨?_, by omega⟩
        by_cases h0 : sz = 0
        · subst h0
          rw [sendData_zero] at hp
          cases hp
          have hI : wrapAddU32 s.recv.inFlightData 0 = s.recv.inFlightData := by
            apply wrapAddU32_of_lt; omega
          refine h.setConn _ rfl h.wI32 h.aI32 ?_ hw0 ?_ ?_
          · show s.recv.flow.available.val + ((wrapAddU32 s.recv.inFlightData 0 : Nat) : Int) = _
            rw [hI]; exact hcons
          · show s.recv.flow.windowSize.val + ((wrapAddU32 s.recv.inFlightData 0 : Nat) : Int) ≤ _
            rw [hI]; exact hwhi
          · show _ ≤ ((wrapAddU32 s.recv.inFlightData 0 : Nat) : Int)
            rw [hI]; omega
        · have hok := sendData_ok' (by omega) hp
          rw [hu] at hok
          have hI : wrapAddU32 s.recv.inFlightData sz = s.recv.inFlightData + sz := by
            apply wrapAddU32_of_lt
            have := (inI32_iff _).1 hok.2.2.2.2
            omega
          refine h.setConn _ rfl hok.2.2.2.1 hok.2.2.2.2 ?_ ?_ ?_ ?_
          · show fl.available.val + ((wrapAddU32 s.recv.inFlightData sz : Nat) : Int) = _
            rw [hI, hok.2.2.1]; omega
          · show 0 ≤ fl.windowSize.val
            rw [hok.2.1]; omega
          · show fl.windowSize.val + ((wrapAddU32 s.recv.inFlightData sz : Nat) : Int) ≤ _
            rw [hI, hok.2.1]; omega
          · show _ ≤ ((wrapAddU32 s.recv.inFlightData sz : Nat) : Int)
            rw [hI]; omega

-- ===================================================================== release_connection_capacity

/-- `Recv::release_connection_capacity(cap)`: `available` up by `cap`, `in_flight_data` down by `cap`
    (no wrap, `assign_capacity` cannot fail) — the slack goes down by `cap` -/
theorem releaseConnectionCapacity_inv {full : Bool} {g : Ghost} {d : Int} {s : Streams} (h : InvD full g d s)
    (cap : Nat) (b : Bool) (hc : cap ≤ cI s) :
    InvD full g (d - cap) (s.releaseConnectionCapacity cap b) ∧
    (s.releaseConnectionCapacity cap b).store = s.store := by
  have hb := h.cI_bound
  have hA := (inI32_iff _).1 h.aI32
  have hw0 := h.w0
  have hwhi := h.wI
  have hhi := h.hiMax
  have hcons := h.cons
  have hsum := h.sum
  have htHi := h.tHi
  simp only [cW, cA, cI] at hb hA hw0 hwhi hcons hsum hc
  have hu : u32AsI32 cap = (cap : Int) := u32AsI32_of_lt (by omega)
  have hsub : wrapSubU32 s.recv.inFlightData cap = s.recv.inFlightData - cap := wrapSubU32_of_le hb.2 hc
  have hassign : (s.recv.flow.assignCapacity cap).1 = { s.recv.flow with available := ⟨s.recv.flow.available.val + cap⟩ } := by
    rw [Flow.assignCapacity_eq, hu]
    have : inI32 (s.recv.flow.available.val + (cap : Int)) = true := by apply inI32_of_range <;> omega
    simp [this]
  have key : InvD full g (d - cap)
      (s.modRecv fun r => { r with inFlightData := wrapSubU32 r.inFlightData cap, flow := (r.flow.assignCapacity cap).1 }) := by
    refine h.setConn _ rfl ?_ ?_ ?_ ?_ ?_ ?_
    · show inI32 (s.recv.flow.assignCapacity cap).1.windowSize.val = true
      rw [hassign]; exact h.wI32
    · show inI32 (s.recv.flow.assignCapacity cap).1.available.val = true
      rw [hassign]; apply inI32_of_range <;> simp <;> omega
    · show (s.recv.flow.assignCapacity cap).1.available.val + ((wrapSubU32 s.recv.inFlightData cap : Nat) : Int) = _
      rw [hassign, hsub]; simp; omega
    · show 0 ≤ (s.recv.flow.assignCapacity cap).1.windowSize.val
      rw [hassign]; exact hw0
    · show (s.recv.flow.assignCapacity cap).1.windowSize.val + ((wrapSubU32 s.recv.inFlightData cap : Nat) : Int) ≤ _
      rw [hassign, hsub]; simp; omega
    · show _ ≤ ((wrapSubU32 s.recv.inFlightData cap : Nat) : Int)
      rw [hsub]; omega
  unfold Streams.releaseConnectionCapacity
  dsimp only
  split
  · exact ⟨key.of_ext (notifyTask_ext _), by unfold Streams.notifyTask; split <;> rfl⟩
  · exact ⟨key, rfl⟩

-- ===================================================================== one stream: release, charge

/-- every stream's `in_flight_recv_data` is at most the connection's, which is at most `2^31-1` -/
theorem InvD.infl_le {full : Bool} {g : Ghost} {d : Int} {s : Streams} (h : InvD full g d s) (hd : 0 ≤ d)
    {x : Stream} (hx : x ∈ s.store.slab) : x.inFlightRecvData ≤ cI s ∧ cI s ≤ 2147483647 := by
  have h1 := le_sumInfl_of_mem hx
  have h2 := h.sum
  have h3 := h.wI
  have h4 := h.w0
  have h5 := h.hiMax
  constructor <;> omega

/-- the stream part of `release_capacity(cap)`: `in_flight_recv_data -= cap`, `available += cap` -/
theorem StreamOK.release {s : Streams} {g : Ghost} {x : Stream} (h : StreamOK s g x) (cap : Nat)
    (hc : cap ≤ x.inFlightRecvData) (hi : x.inFlightRecvData ≤ 2147483647) (hM : g.hiInit ≤ 2147483647) :
    StreamOK s g { x with inFlightRecvData := wrapSubU32 x.inFlightRecvData cap,
                          recvFlow := (x.recvFlow.assignCapacity cap).1 } := by
  have hu : u32AsI32 cap = (cap : Int) := u32AsI32_of_lt (by omega)
  have hsub : wrapSubU32 x.inFlightRecvData cap = x.inFlightRecvData - cap := wrapSubU32_of_le (by omega) hc
  have hA := (inI32_iff _).1 h.aI32
  have hwa := h.wa
  rw [Flow.assignCapacity_eq, hu]
  by_cases hin : inI32 (x.recvFlow.available.val + (cap : Int)) = true
  · simp only [hin, if_true]
    refine ⟨h.wI32, hin, ?_, ?_, ?_⟩
    · show x.recvFlow.windowSize.val ≤ x.recvFlow.available.val + cap; omega
    · rcases h.live with hcl | hl
      · exact .inl hcl
      · right
        show x.recvFlow.available.val + cap - x.recvFlow.windowSize.val + ((wrapSubU32 x.inFlightRecvData cap : Nat) : Int) ≤ _ ∧
          x.recvFlow.available.val + cap + ((wrapSubU32 x.inFlightRecvData cap : Nat) : Int) ≤ _
        rw [hsub]; omega
    · intro hl
      rcases h.bud hl with hcl | hb
      · exact .inl hcl
      · right
        show x.recvFlow.available.val + cap + ((wrapSubU32 x.inFlightRecvData cap : Nat) : Int) ≤ _ ∧
          (_ → x.recvFlow.available.val + cap + ((wrapSubU32 x.inFlightRecvData cap : Nat) : Int) = _)
        rw [hsub]
        have h1 := hb.1
        refine ⟨by omega, fun hr => ?_⟩
        have h2 := hb.2 hr
        omega
  · simp only [hin]
    have hclosed : x.state.isClosed = true := by
      rcases h.live with hcl | hl
      · exact hcl
      · exfalso; apply hin; apply inI32_of_range <;> omega
    exact ⟨h.wI32, h.aI32, h.wa, .inl hclosed, fun _ => .inl hclosed⟩

/-- the stream part of `recv_data`: `FlowControl::send_data(sz)` succeeded (so `sz ≤ window`),
    `in_flight_recv_data += sz` -/
theorem StreamOK.charge {s : Streams} {g : Ghost} {x : Stream} (h : StreamOK s g x) (sz : Nat) (fl : FlowControl)
    (hsd : x.recvFlow.sendData sz = (fl, .ok ())) (hsz : sz ≤ 2147483647)
    (hi : x.inFlightRecvData + sz < 4294967296) :
    StreamOK s g { x with recvFlow := fl, inFlightRecvData := wrapAddU32 x.inFlightRecvData sz } := by
  have hadd : wrapAddU32 x.inFlightRecvData sz = x.inFlightRecvData + sz := wrapAddU32_of_lt hi
  by_cases h0 : sz = 0
  · subst h0
    rw [sendData_zero] at hsd
    cases hsd
    have : wrapAddU32 x.inFlightRecvData 0 = x.inFlightRecvData := by rw [hadd]; rfl
    exact ⟨h.wI32, h.aI32, h.wa, by rw [this]; exact h.live, fun hl => by rw [this]; exact h.bud hl⟩
  · have hok := sendData_ok (by omega) (by omega) hsd
    have hok' := sendData_ok' (by omega) hsd
    have hwa := h.wa
    refine ⟨hok'.2.2.2.1, hok'.2.2.2.2, ?_, ?_, ?_⟩
    · show fl.windowSize.val ≤ fl.available.val; rw [hok.2.1, hok.2.2]; omega
    · rcases h.live with hcl | hl
      · exact .inl hcl
      · right
        show fl.available.val - fl.windowSize.val + ((wrapAddU32 x.inFlightRecvData sz : Nat) : Int) ≤ _ ∧
          fl.available.val + ((wrapAddU32 x.inFlightRecvData sz : Nat) : Int) ≤ _
        rw [hadd, hok.2.1, hok.2.2]
        have := hok.1
        omega
    · intro hl
      rcases h.bud hl with hcl | hb
      · exact .inl hcl
      · right
        show fl.available.val + ((wrapAddU32 x.inFlightRecvData sz : Nat) : Int) ≤ _ ∧
          (_ → fl.available.val + ((wrapAddU32 x.inFlightRecvData sz : Nat) : Int) = _)
        rw [hadd, hok.2.2]
        have h1 := hb.1
        refine ⟨by omega, fun hr => ?_⟩
        have h2 := hb.2 hr
        omega

/-- `in_flight_recv_data` of a closed stream, or of one whose `RecvStream` is gone, may go down
    without a stream-level credit (`clear_recv_buffer`, `release_closed_capacity`) -/
theorem StreamOK.drop {s : Streams} {g : Ghost} {x : Stream} (h : StreamOK s g x) (i' : Nat)
    (hi : i' ≤ x.inFlightRecvData) (hx : i' = x.inFlightRecvData ∨ x.state.isClosed = true ∨ x.isRecv = false) :
    StreamOK s g { x with inFlightRecvData := i' } := by
  refine ⟨h.wI32, h.aI32, h.wa, ?_, ?_⟩
  · rcases h.live with hcl | hl
    · exact .inl hcl
    · right
      show x.recvFlow.available.val - x.recvFlow.windowSize.val + (i' : Int) ≤ _ ∧ x.recvFlow.available.val + (i' : Int) ≤ _
      omega
  · intro hl
    rcases h.bud hl with hcl | hb
    · exact .inl hcl
    · rcases hx with rfl | hcl | hr
      · exact .inr hb
      · exact .inl hcl
      · right
        show x.recvFlow.available.val + (i' : Int) ≤ _ ∧ (x.isRecv = true → _)
        have h1 := hb.1
        exact ⟨by omega, fun hr' => by rw [hr] at hr'; cases hr'⟩

-- ===================================================================== release_capacity

theorem stream_of_store_eq {s s' : Streams} (h : s'.store = s.store) (id : Nat) : s'.stream id = s.stream id := by
  unfold Streams.stream; rw [h]

theorem stream_of_get?_none {s : Streams} {id : Nat} (h : s.store.get? id = none) :
    s.stream id = { key := id, id := 0 } := by unfold Streams.stream; rw [h]; rfl

/-- `Recv::release_capacity(cap, stream)` — the application gives `cap` octets back -/
theorem releaseCapacity_inv {full : Bool} {g : Ghost} {s : Streams} (h : Inv full g s) (id cap : Nat) (b : Bool) :
    Inv full g (s.releaseCapacity id cap b).1 := by
  unfold Streams.releaseCapacity
  split
  · exact h
  · next hgt =>
    have hcap : cap ≤ (s.stream id).inFlightRecvData := by omega
    -- the connection part, then the stream part
    have hcI : cap ≤ cI s := by
      cases hg : s.store.get? id with
      | none => rw [stream_of_get?_none hg] at hcap; simp at hcap; omega
      | some x =>
        rw [stream_eq_of_get? hg] at hcap
        have := (h.infl_le (Int.le_refl 0) (get?_mem hg).1).1
        omega
    obtain ⟨h1, hst1⟩ := releaseConnectionCapacity_inv h cap b hcI
    have h2 : Inv full g ((s.releaseConnectionCapacity cap b).modStream id fun st =>
        { st with inFlightRecvData := wrapSubU32 st.inFlightRecvData cap,
                  recvFlow := (st.recvFlow.assignCapacity cap).1 }) := by
      refine h1.modStream id _ ?_ (fun _ => rfl) ?_ ?_
      · intro hn
        rw [hst1] at hn
        rw [stream_of_get?_none hn] at hcap
        simp at hcap; omega
      · intro x hx
        rw [hst1] at hx
        rw [stream_eq_of_get? hx] at hcap
        have hb := (h.infl_le (Int.le_refl 0) (get?_mem hx).1)
        have : wrapSubU32 x.inFlightRecvData cap = x.inFlightRecvData - cap := wrapSubU32_of_le (by omega) hcap
        show ((wrapSubU32 x.inFlightRecvData cap : Nat) : Int) + 0 ≤ _
        rw [this]; omega
      · intro hf x hx ok
        have hx' := hx
        rw [hst1] at hx'
        rw [stream_eq_of_get? hx'] at hcap
        have hb := (h.infl_le (Int.le_refl 0) (get?_mem hx').1)
        exact ok.release cap hcap (by omega) h.initMax
    dsimp only
    generalize ((s.releaseConnectionCapacity cap b).modStream id fun st =>
        { st with inFlightRecvData := wrapSubU32 st.inFlightRecvData cap,
                  recvFlow := (st.recvFlow.assignCapacity cap).1 }) = s2 at h2 ⊢
    inv_auto

end H2V.Lemmas.ConnRecvP
